"""gen.py — structured input generators.  Every random choice derives from one numpy Generator."""
import numpy as np


def make_rng(seed, *stream):
    ss = np.random.SeedSequence([int(seed) & 0xFFFFFFFF] + [abs(hash(s)) % (2 ** 31) if not isinstance(s, int) else s for s in stream])
    return np.random.Generator(np.random.PCG64(ss))


def stable_rng(seed, name):
    """deterministic across processes (no str hash)"""
    h = 0
    for ch in name:
        h = (h * 131 + ord(ch)) % (2 ** 31 - 1)
    return np.random.Generator(np.random.PCG64(np.random.SeedSequence([int(seed) & 0xFFFFFFFF, h])))


def rand_mesh(rng, nx, ny, kind="left", plain=False, span=None, offset=True):
    """A non-degenerate lifting-surface mesh [nx, ny, 3].
    kind: 'left'  symmetric half with y in [-b/2, 0], root (y=0) at the last column
          'right' symmetric half with y in [0, b/2], root at the first column
          'full'  full span, odd ny, mirror-symmetric planform when plain else generally asymmetric
    plain: flat rectangular, no sweep/taper/twist/camber/dihedral."""
    b = span if span is not None else float(rng.uniform(4.0, 14.0))
    c_root = float(rng.uniform(0.6, 2.5))
    if kind == "full":
        eta = np.sort(rng.uniform(-1, 1, ny))
        eta[0], eta[-1] = -1.0, 1.0
        eta[(ny - 1) // 2] = 0.0
        # keep stations separated
        eta = np.linspace(-1, 1, ny) * 0.6 + eta * 0.4
        eta[(ny - 1) // 2] = 0.0
    else:
        eta = np.sort(rng.uniform(-1, 0, ny))
        eta = np.linspace(-1, 0, ny) * 0.6 + eta * 0.4
        eta[0], eta[-1] = -1.0, 0.0
    y = eta * b / 2
    if plain:
        taper, sweep, dihed, twist_amp, camber = 1.0, 0.0, 0.0, 0.0, 0.0
    else:
        taper = float(rng.uniform(0.3, 1.0))
        sweep = float(np.tan(np.deg2rad(rng.uniform(-10, 35))))
        dihed = float(np.tan(np.deg2rad(rng.uniform(-5, 12))))
        twist_amp = float(np.deg2rad(rng.uniform(-6, 6)))
        camber = float(rng.uniform(0.0, 0.06))
    xi = np.linspace(0, 1, nx)
    if nx > 2 and not plain:
        xi = xi ** float(rng.uniform(0.8, 1.3))
    mesh = np.zeros((nx, ny, 3))
    for j in range(ny):
        s = abs(eta[j])
        c = c_root * (1 + (taper - 1) * s)
        x_le = sweep * abs(y[j])
        z0 = dihed * abs(y[j])
        tw = twist_amp * s
        for i in range(nx):
            xc = xi[i] * c
            zc = camber * c * 4 * xi[i] * (1 - xi[i])
            # rotate about the leading edge by twist (nose up positive)
            xr = xc * np.cos(tw) + zc * np.sin(tw)
            zr = -xc * np.sin(tw) + zc * np.cos(tw)
            mesh[i, j, :] = [x_le + xr, y[j], z0 + zr]
    if kind == "right":
        mesh = mesh[:, ::-1, :].copy()
        mesh[:, :, 1] *= -1.0
    if kind == "full" and not plain:
        # generally asymmetric: perturb the right half a little
        jr = (ny - 1) // 2
        mesh[:, jr + 1:, 0] += rng.uniform(-0.05, 0.05)
        mesh[:, jr + 1:, 2] += np.linspace(0, 1, ny - jr - 1)[None, :] * rng.uniform(-0.1, 0.1)
    if offset and not plain:
        off = np.array([rng.uniform(-2, 2), 0.0, rng.uniform(-1, 1)])
        if kind == "full":
            off[1] = rng.uniform(-1, 1)
        mesh = mesh + off
    return mesh


def sizes(tier, full=False):
    """(nx, ny) grid of a tier"""
    if tier == "quick":
        nxs, nys = (2, 3), ((3, 5) if full else (2, 3, 4, 5))
    else:
        nxs, nys = (2, 3, 4, 5), ((3, 5, 7, 9) if full else (2, 3, 4, 5, 6, 7, 9))
    return [(nx, ny) for nx in nxs for ny in nys]


def tube_surface(mesh, symmetry=True, name="wing", **kw):
    ny = mesh.shape[1]
    surf = {
        "name": name, "symmetry": symmetry, "S_ref_type": "wetted", "fem_model_type": "tube",
        "mesh": mesh, "twist_cp": np.zeros(2), "thickness_cp": np.array([0.1, 0.2, 0.3]),
        "CL0": 0.0, "CD0": 0.015, "k_lam": 0.05, "t_over_c_cp": np.array([0.15]),
        "c_max_t": 0.303, "with_viscous": True, "with_wave": False,
        "E": 70.0e9, "G": 30.0e9, "yield": 500.0e6 / 2.5, "mrho": 3.0e3,
        "fem_origin": 0.35, "wing_weight_ratio": 2.0, "struct_weight_relief": False,
        "distributed_fuel_weight": False, "exact_failure_constraint": False,
    }
    surf.update(kw)
    return surf


WB_UPPER_X = np.array([0.1, 0.11, 0.12, 0.13, 0.14, 0.15, 0.16, 0.17, 0.18, 0.19, 0.2, 0.21, 0.22, 0.23, 0.24, 0.25, 0.26, 0.27, 0.28, 0.29, 0.3, 0.31, 0.32, 0.33, 0.34, 0.35, 0.36, 0.37, 0.38, 0.39, 0.4, 0.41, 0.42, 0.43, 0.44, 0.45, 0.46, 0.47, 0.48, 0.49, 0.5, 0.51, 0.52, 0.53, 0.54, 0.55, 0.56, 0.57, 0.58, 0.59, 0.6], dtype="complex128")
WB_LOWER_X = WB_UPPER_X.copy()
WB_UPPER_Y = np.array([0.0447, 0.046, 0.0472, 0.0484, 0.0495, 0.0505, 0.0514, 0.0523, 0.0531, 0.0538, 0.0545, 0.0551, 0.0557, 0.0563, 0.0568, 0.0573, 0.0577, 0.0581, 0.0585, 0.0588, 0.0591, 0.0593, 0.0595, 0.0597, 0.0599, 0.06, 0.0601, 0.0602, 0.0602, 0.0602, 0.0602, 0.0602, 0.0601, 0.06, 0.0599, 0.0598, 0.0596, 0.0594, 0.0592, 0.0589, 0.0586, 0.0583, 0.058, 0.0576, 0.0572, 0.0568, 0.0563, 0.0558, 0.0553, 0.0547, 0.0541], dtype="complex128")
WB_LOWER_Y = np.array([-0.0447, -0.046, -0.0473, -0.0485, -0.0496, -0.0506, -0.0515, -0.0524, -0.0532, -0.054, -0.0547, -0.0554, -0.056, -0.0565, -0.057, -0.0575, -0.0579, -0.0583, -0.0586, -0.0589, -0.0592, -0.0594, -0.0595, -0.0596, -0.0597, -0.0598, -0.0598, -0.0598, -0.0598, -0.0597, -0.0596, -0.0594, -0.0592, -0.0589, -0.0586, -0.0582, -0.0578, -0.0573, -0.0567, -0.0561, -0.0554, -0.0546, -0.0538, -0.0529, -0.0519, -0.0509, -0.0497, -0.0485, -0.0472, -0.0458, -0.0444], dtype="complex128")


def wingbox_surface(mesh, symmetry=True, name="wing", **kw):
    surf = {
        "name": name, "symmetry": symmetry, "S_ref_type": "wetted", "mesh": mesh,
        "fem_model_type": "wingbox",
        "data_x_upper": WB_UPPER_X, "data_x_lower": WB_LOWER_X,
        "data_y_upper": WB_UPPER_Y, "data_y_lower": WB_LOWER_Y,
        "twist_cp": np.array([4.0, 5.0, 8.0, 9.0]),
        "spar_thickness_cp": np.array([0.004, 0.005, 0.008, 0.01]),
        "skin_thickness_cp": np.array([0.005, 0.01, 0.015, 0.025]),
        "t_over_c_cp": np.array([0.08, 0.08, 0.10, 0.08]),
        "original_wingbox_airfoil_t_over_c": 0.12,
        "CL0": 0.0, "CD0": 0.0078, "with_viscous": True, "with_wave": True,
        "k_lam": 0.05, "c_max_t": 0.38,
        "E": 73.1e9, "G": (73.1e9 / 2 / 1.33), "yield": (420.0e6 / 1.5), "mrho": 2.78e3,
        "strength_factor_for_upper_skin": 1.0, "wing_weight_ratio": 1.25,
        "exact_failure_constraint": False, "struct_weight_relief": True,
        "distributed_fuel_weight": True, "fuel_density": 803.0, "Wf_reserve": 15000.0,
    }
    surf.update(kw)
    return surf
