"""core.py — shared plumbing of the verification harness.

  * forces the implementation under test to be /repo's working tree
  * runs single OpenMDAO components / groups of the implementation
  * writes Coq case files, runs them (sharded, in parallel) and parses the results
  * collects stream / oracle results for a property
"""
import os, sys, re, json, math, time, subprocess, hashlib, warnings, shutil

REPO = os.environ.get("OAS_REPO", "/repo")
sys.path.insert(0, REPO)
os.environ.setdefault("OPENMDAO_REPORTS", "0")
os.environ.setdefault("OMP_NUM_THREADS", "1")
os.environ.setdefault("OPENBLAS_NUM_THREADS", "1")
os.environ.setdefault("MKL_NUM_THREADS", "1")

import numpy as np
import openmdao.api as om
import openaerostruct

assert os.path.realpath(openaerostruct.__file__).startswith(os.path.realpath(REPO) + os.sep), \
    "implementation under test must be %s, got %s" % (REPO, openaerostruct.__file__)

HERE = os.path.dirname(os.path.abspath(__file__))
ROOT = os.path.dirname(HERE)
COQ = os.path.join(ROOT, "coq")
WORK = os.path.join(ROOT, "_work")
os.makedirs(WORK, exist_ok=True)

COQ_Q = []
for d in ("Model", "Float", "Real", "Spec", "Generated", "Props"):
    COQ_Q += ["-Q", os.path.join(COQ, d), "OAS"]
COQ_W = ["-w", "-inexact-float,-deprecated-hint-without-locality,-notation-overridden"]

TOL = 1e-9          # relative tolerance of model-vs-implementation comparisons


# ----------------------------------------------------------------------------------------------
# float / array literals
# ----------------------------------------------------------------------------------------------
def fl(x):
    x = float(np.real(x))
    if x != x:
        return "nan"
    if x == math.inf:
        return "infinity"
    if x == -math.inf:
        return "neg_infinity"
    if x == 0.0:
        return "0" if math.copysign(1.0, x) > 0 else "(-0)"
    return "(%s)" % x.hex()


def arr(a):
    """flat Coq list literal (C order) of a numpy array / nested list"""
    if isinstance(a, (list, tuple)):
        a = np.concatenate([np.asarray(np.real(x), dtype=float).ravel() for x in a]) if len(a) else np.zeros(0)
    a = np.asarray(np.real(a), dtype=float).ravel()
    return "[" + "; ".join(fl(v) for v in a) + "]"


def nat(n):
    return "%d%%nat" % int(n)


def boolc(b):
    return "true" if b else "false"


# ----------------------------------------------------------------------------------------------
# running the implementation
# ----------------------------------------------------------------------------------------------
FD_ENABLED = False      # set by the C01 property: every Jacobian obtained by run_comp is also checked against
FD_RESULTS = []         # Richardson-extrapolated central differences of the implementation's own compute


def _block_err(a, b, add, noise=0.0):
    """relative difference of two Jacobian blocks; `noise` is the round-off level of the finite differences in the same
    units (a difference that round-off of the OUTPUTS alone explains is not a disagreement)"""
    m = max(float(np.abs(a).max()) if a.size else 0.0, float(np.abs(b).max()) if b.size else 0.0)
    d = (float(np.abs(a - b).max()) if a.size else 0.0)
    return max(0.0, d - noise) / (m + add)


def fd_check(prob, comp, inputs, outputs, J):
    """implementation-only check of a reported Jacobian: central differences with one Richardson step (error O(h^4)),
    step relative to each coordinate; per input variable block, scaled as in Float/DRun.v blockerrs_s"""
    def outs():
        return np.concatenate([np.asarray(prob.get_val(o), dtype=float).ravel() for o in outputs])
    rec = {"comp": type(comp).__name__, "errs": {}, "worst": 0.0}
    # partials the component itself declares as forward finite differences are only as accurate as that approximation
    if "fd" in getattr(comp, "_approx_schemes", {}):
        rec["fd_kind"] = True
    blocks = {}
    noises = {}
    eps = 2.0 ** -52
    with warnings.catch_warnings():
        warnings.simplefilter("ignore")
        for name, val in inputs.items():
            x0 = np.array(val, dtype=float)
            flat = x0.ravel().copy()
            bm = float(np.abs(flat).max()) if flat.size else 0.0
            cols = []
            scales = []
            noise = 0.0
            for i in range(flat.size):
                sc = max(abs(flat[i]), 1e-3 * bm) if bm > 0 else 1.0
                h = 1e-4 * sc
                d = []
                for hh in (h, h / 2):
                    xp = flat.copy(); xp[i] += hh; prob.set_val(name, xp.reshape(x0.shape)); prob.run_model(); fp = outs()
                    xm = flat.copy(); xm[i] -= hh; prob.set_val(name, xm.reshape(x0.shape)); prob.run_model(); fm = outs()
                    d.append((fp - fm) / (2 * hh))
                cols.append((4 * d[1] - d[0]) / 3)
                scales.append(sc)
                # round-off of the differenced outputs: |f| eps / (h/2), amplified by the Richardson weights (4+1)/3, x safety 20
                noise = max(noise, 20.0 * (5.0 / 3.0) * eps * float(np.abs(fp).max() if fp.size else 0.0) / (h / 2) * sc)
            prob.set_val(name, x0); prob.run_model()
            fdJ = np.array(cols).T if cols else np.zeros((0, 0))
            repJ = np.concatenate([np.asarray(J[(o, name)], dtype=float).reshape(-1, flat.size) for o in outputs], axis=0)
            blocks[name] = (repJ * np.array(scales)[None, :], fdJ * np.array(scales)[None, :])
            noises[name] = noise
    overall = max([max(float(np.abs(a).max()) if a.size else 0.0, float(np.abs(b).max()) if b.size else 0.0) for a, b in blocks.values()] + [0.0])
    for name, (a, b) in blocks.items():
        e = _block_err(a, b, 2.0 ** -17 * overall + 1e-300, noises.get(name, 0.0))
        rec["errs"][name] = e; rec["worst"] = max(rec["worst"], e)
    rec["inputs"] = {k: np.asarray(v).tolist() for k, v in inputs.items()}
    return rec


def run_comp(comp, inputs, outputs=None, want_J=True, complex_alloc=False, mode=None):
    """Run one component of the implementation, fed through OpenMDAO's auto IVC (this is the
    'one-component problem' of C01: what an optimiser would receive).
    inputs : dict name -> array.  Returns (outs, J) with J[(of, wrt)] dense 2-D arrays."""
    prob = om.Problem(reports=False)
    prob.model.add_subsystem("comp", comp, promotes=["*"])
    with warnings.catch_warnings():
        warnings.simplefilter("ignore")
        prob.setup(force_alloc_complex=complex_alloc, mode=mode or "auto")
        for k, v in inputs.items():
            prob.set_val(k, v)
        prob.run_model()
        outs = {}
        meta = prob.model.comp.list_outputs(out_stream=None, val=False) if False else None
        if outputs is None:
            outputs = [n.split(".")[-1] for n in prob.model.comp._var_rel_names["output"]]
        for o in outputs:
            outs[o] = np.array(prob.get_val(o)).copy()
        J = None
        if want_J:
            wrt = list(inputs.keys())
            Jd = prob.compute_totals(of=list(outputs), wrt=wrt)
            J = {}
            for (of, w), v in Jd.items():
                J[(of, w)] = np.atleast_2d(np.array(v))
            if FD_ENABLED:
                FD_RESULTS.append(fd_check(prob, comp, inputs, list(outputs), J))
    return outs, J, prob


def finite(*arrays):
    return all(np.all(np.isfinite(np.asarray(a, dtype=float))) for a in arrays)


# ----------------------------------------------------------------------------------------------
# running the model in Coq
# ----------------------------------------------------------------------------------------------
HEADER = """From Coq Require Import ZArith List PrimFloat String.
From OAS Require Import Scalar Fops Run Dual DRun %s.
Import ListNotations.
Open Scope float_scope.
"""


class CoqCases:
    """A batch of model evaluations: each case is a Coq expression of type `list float`
    (a list of error measures or of raw values)."""

    def __init__(self, name, imports=""):
        self.name = name
        self.imports = imports
        self.cases = []      # (id, expr)
        self.defs = []

    def add(self, expr):
        cid = len(self.cases)
        self.cases.append((cid, expr))
        return cid

    def run(self, shard=40, jobs=16, timeout=None):
        """returns dict id -> list of floats (None if the shard failed)"""
        if timeout is None:
            # the thorough tier evaluates much larger lattices inside Coq; on a busy machine 15 minutes per shard is not enough
            timeout = 900 if globals().get("RUN_TIER", "quick") == "quick" else 5400
        if not self.cases:
            return {}, []
        d = os.path.join(WORK, "cases_" + self.name)
        shutil.rmtree(d, ignore_errors=True)
        os.makedirs(d)
        files = []
        for k in range(0, len(self.cases), shard):
            path = os.path.join(d, "c%04d.v" % (k // shard))
            with open(path, "w") as f:
                f.write(HEADER % self.imports)
                for cid, expr in self.cases[k:k + shard]:
                    f.write("Eval vm_compute in (%d%%nat, %s).\n" % (cid, expr))
            files.append(path)
        procs = []
        results = {}
        errors = []
        pending = list(files)
        running = []
        t0 = time.time()
        while pending or running:
            while pending and len(running) < jobs:
                p = pending.pop(0)
                out = open(p + ".out", "w")
                # large literals (dense Jacobians) need a deep parser stack
                pr = subprocess.Popen(["bash", "-c", "ulimit -s unlimited 2>/dev/null || ulimit -s 1000000 2>/dev/null; exec \"$@\"", "coqc-run",
                                       "timeout", str(timeout), "coqc"] + COQ_Q + COQ_W + [p],
                                      stdout=out, stderr=subprocess.STDOUT, cwd=d)
                running.append((pr, p, out))
            still = []
            for pr, p, out in running:
                if pr.poll() is None:
                    still.append((pr, p, out))
                else:
                    out.close()
                    txt = open(p + ".out").read()
                    if pr.returncode != 0:
                        errors.append((p, txt[-1500:]))
                    results.update(parse_evals(txt))
            running = still
            if running:
                time.sleep(0.05)
        return results, errors


_FLOAT = r"[-+]?(?:nan|infinity|neg_infinity|\d+\.?\d*(?:[eE][-+]?\d+)?)"


def parse_evals(txt):
    res = {}
    # each result:  = (12%nat, [a; b; c])  possibly wrapped over several lines
    for m in re.finditer(r"=\s*\((\d+)(?:%nat)?,\s*\[(.*?)\]\)\s*:", txt, re.S):
        cid = int(m.group(1))
        body = m.group(2).replace("\n", " ")
        vals = []
        for tok in body.split(";"):
            tok = tok.strip().replace("%float", "")
            if not tok:
                continue
            if tok == "nan":
                vals.append(float("nan"))
            elif tok == "infinity":
                vals.append(float("inf"))
            elif tok == "neg_infinity":
                vals.append(float("-inf"))
            else:
                vals.append(float(tok))
        res[cid] = vals
    return res


# ----------------------------------------------------------------------------------------------
# result records
# ----------------------------------------------------------------------------------------------
class Results:
    def __init__(self, prop, tier, seed):
        self.prop, self.tier, self.seed = prop, tier, seed
        self.t0 = time.time()
        self.streams = {}         # name -> dict(cases, ok, worst, failures[])
        self.oracles = {}         # name -> dict(cases, failures[])
        self.samples = []
        self.distribution = {}
        self.known_hits = []      # known-finding keys observed
        self.notes = []
        self.distinct = set()

    def stream(self, name):
        return self.streams.setdefault(name, {"cases": 0, "ok": 0, "worst": 0.0, "failures": [],
                                              "member": None})

    def oracle(self, name):
        return self.oracles.setdefault(name, {"cases": 0, "ok": 0, "worst": 0.0, "failures": []})

    def count(self, key, n=1):
        self.distribution[key] = self.distribution.get(key, 0) + n

    def sample(self, s):
        if len(self.samples) < 6:
            self.samples.append(s)

    def mark(self, *key):
        self.distinct.add(hashlib.sha1(repr(key).encode()).hexdigest())


def judge(res_entry, errs, labels, case_desc, tol=TOL):
    """update a stream entry with the error measures of one case"""
    res_entry["cases"] += 1
    bad = []
    if errs is None:
        bad.append(("model-evaluation-failed", float("inf")))
    else:
        if len(errs) != len(labels):
            bad.append(("arity", float("inf")))
        for lab, e in zip(labels, errs):
            t = tol[lab] if isinstance(tol, dict) and lab in tol else (tol if not isinstance(tol, dict) else TOL)
            if not (e <= t):
                bad.append((lab, e))
            if e == e and e != float("inf"):
                res_entry["worst"] = max(res_entry["worst"], e)
    if bad:
        res_entry["failures"].append({"case": case_desc, "bad": bad})
    else:
        res_entry["ok"] += 1
    return not bad


def jsonable(x):
    if isinstance(x, dict):
        return {str(k): jsonable(v) for k, v in x.items()}
    if isinstance(x, (list, tuple)):
        return [jsonable(v) for v in x]
    if isinstance(x, np.ndarray):
        return [jsonable(v) for v in x.tolist()]
    if isinstance(x, (np.floating, float)):
        x = float(x)
        if x != x or x in (math.inf, -math.inf):
            return repr(x)
        return x
    if isinstance(x, (np.integer,)):
        return int(x)
    if isinstance(x, (np.bool_,)):
        return bool(x)
    if isinstance(x, complex):
        return [x.real, x.imag]
    return x
