"""gen_ties.py — writes (once; the output is committed) the per-area obligations that tie the regenerated structural facts to
the reviewed ones: one small Coq file per area, so that an edit in one area breaks only the obligations of the
properties that rest on that area.
   Real/Tie_wiring_<model family>.v : the data-flow graphs of the canonical models whose name starts with the family
   Real/Tie_units_<directory>.v     : the declared units of the classes defined in that directory of the package
   Props/Cxx_ties.v                 : the theorems of property Cxx (statement: regenerated = reviewed, by computation)"""
import os
ROOT = os.path.dirname(os.path.dirname(os.path.abspath(__file__)))
COQ = os.path.join(ROOT, "coq")
FAMILIES = ["AeroPoint", "AerostructPoint", "SpatialBeamAlone", "MPhys"]
DIRS = ["aerodynamics", "structures", "functionals", "geometry", "transfer", "common", "integration", "mphys"]
ODIRS = ["aerodynamics", "structures", "functionals", "geometry", "transfer", "integration", "mphys"]
PROPS = {
    "C02": (["AeroPoint", "AerostructPoint", "SpatialBeamAlone"], []),
    "C04": (["AeroPoint", "AerostructPoint", "SpatialBeamAlone"], []),
    "C05": (["AeroPoint"], ["aerodynamics"]),
    "C06": (["AeroPoint"], ["aerodynamics", "functionals"]),
    "C07": (["AeroPoint", "AerostructPoint", "SpatialBeamAlone"], []),
    "C08": (["AeroPoint"], ["aerodynamics"]),
    "C09": (["AeroPoint"], ["aerodynamics"]),
    "C10": (["SpatialBeamAlone"], ["structures"]),
    "C11": (["AeroPoint", "AerostructPoint"], ["transfer"]),
    "C12": (["AerostructPoint"], []),
    "C13": (["AeroPoint"], ["geometry"]),
    "C14": ([], ["geometry"]),
    "C15": (["AerostructPoint", "SpatialBeamAlone"], ["structures"]),
    "C16": (["AerostructPoint", "SpatialBeamAlone"], ["structures", "functionals"]),
    "C17": (["AeroPoint", "AerostructPoint"], ["common", "functionals"]),
    "C18": (["AeroPoint"], ["aerodynamics"]),
    "C19": (["AeroPoint", "MPhys"], []),
}


def main():
    files = []
    for fam in FAMILIES:
        name = "Tie_wiring_%s" % fam
        open(os.path.join(COQ, "Real", name + ".v"), "w").write('''(* %s.v - GENERATED once by harness/gen_ties.py: the data-flow graphs of the canonical "%s" models regenerated from the live
   groups are the reviewed ones (finite comparison of lists of strings, by computation). *)
From Coq Require Import String List Bool.
From OAS Require Import TieBase Wiring WiringReviewed.
Import ListNotations.
Open Scope string_scope.
Definition wiring_family_%s (w : list (string * list (string * string))) := filter (fun p => prefix "%s" (fst p)) w.
Lemma wiring_%s_reviewed : wiring_family_%s gen_wiring = wiring_family_%s reviewed_wiring.
Proof. apply wiring_eqb_sound. vm_compute. reflexivity. Qed.
Lemma wiring_%s_nonempty : wiring_family_%s reviewed_wiring <> [].
Proof. discriminate. Qed.
''' % (name, fam, fam, fam, fam, fam, fam, fam, fam))
        files.append("Real/%s.v" % name)
    for d in DIRS:
        name = "Tie_units_%s" % d
        open(os.path.join(COQ, "Real", name + ".v"), "w").write('''(* %s.v - GENERATED once by harness/gen_ties.py: the declared units of every input and output of the classes of
   openaerostruct/%s/, regenerated from the source, are the reviewed ones (by computation). *)
From Coq Require Import String List Bool.
From OAS Require Import TieBase IOUnits IOUnitsReviewed.
Import ListNotations.
Open Scope string_scope.
Definition units_dir_%s (u : list (string * string * string * string * string)) :=
  filter (fun r => match r with (f, _, _, _, _) => prefix "%s/" f end) u.
Lemma units_%s_reviewed : units_dir_%s gen_io_units = units_dir_%s reviewed_io_units.
Proof. apply units_eqb_sound. vm_compute. reflexivity. Qed.
Lemma units_%s_nonempty : units_dir_%s reviewed_io_units <> [].
Proof. discriminate. Qed.
''' % (name, d, d, d, d, d, d, d, d))
        files.append("Real/%s.v" % name)
    for d in ODIRS:
        name = "Tie_options_%s" % d
        open(os.path.join(COQ, "Real", name + ".v"), "w").write('''(* %s.v - GENERATED once by harness/gen_ties.py: the declared option defaults of the classes of openaerostruct/%s/,
   regenerated from the source, are the reviewed ones (by computation). *)
From Coq Require Import String List Bool.
From OAS Require Import TieBase OptionDefaults OptionDefaultsReviewed.
Import ListNotations.
Open Scope string_scope.
Definition options_dir_%s (u : list (string * string * string * string)) :=
  filter (fun r => match r with (f, _, _, _) => prefix "%s/" f end) u.
Lemma options_%s_reviewed : options_dir_%s gen_option_defaults = options_dir_%s reviewed_option_defaults.
Proof. apply opts_eqb_sound. vm_compute. reflexivity. Qed.
Lemma options_%s_nonempty : options_dir_%s reviewed_option_defaults <> [].
Proof. discriminate. Qed.
''' % (name, d, d, d, d, d, d, d, d))
        files.append("Real/%s.v" % name)
    OPTS = {"C05": ["aerodynamics"], "C06": ["aerodynamics", "functionals"], "C08": ["aerodynamics"], "C09": ["aerodynamics"], "C10": ["structures"], "C11": ["transfer", "aerodynamics"],
            "C12": ["integration"], "C13": ["geometry"], "C14": ["geometry"], "C15": ["structures"], "C16": ["structures", "functionals"], "C17": ["functionals"],
            "C18": ["aerodynamics"], "C19": ["mphys", "aerodynamics"], "C02": ["integration", "structures"], "C04": ["integration"], "C07": ["geometry"]}
    for pid, (fams, dirs) in sorted(PROPS.items()):
        odirs = OPTS.get(pid, [])
        mods = ["Tie_wiring_%s" % f for f in fams] + ["Tie_units_%s" % d for d in dirs] + ["Tie_options_%s" % d for d in odirs]
        body = ['''(* %s_ties.v - GENERATED once by harness/gen_ties.py.  Translator ties of %s: structural facts of the code that the models and
   oracles of this property rest on, regenerated from /repo on every run, equal the reviewed ones:
     - group wiring (which output feeds which input, as OpenMDAO resolves it) of the canonical models of: %s
     - unit contract (declared units of every input / output) of the classes in: %s
     - option defaults of the classes in: %s
   An edit that re-wires a group, drops / changes a unit or changes a default in these areas breaks the obligation; the oracles of
   the property then look for the failing input. *)
From Coq Require Import String List Bool.
From OAS Require Import Wiring WiringReviewed IOUnits IOUnitsReviewed OptionDefaults OptionDefaultsReviewed %s.
Import ListNotations.
''' % (pid, pid, ", ".join(fams) or "-", ", ".join(dirs) or "-", ", ".join(odirs) or "-", " ".join(mods))]
        for f in fams:
            body.append("Theorem %s_wiring_of_%s_models_is_the_reviewed_one :\n  wiring_family_%s gen_wiring = wiring_family_%s reviewed_wiring /\\ wiring_family_%s reviewed_wiring <> [].\nProof. split; [exact wiring_%s_reviewed | exact wiring_%s_nonempty]. Qed.\nPrint Assumptions %s_wiring_of_%s_models_is_the_reviewed_one.\n" % (pid, f, f, f, f, f, f, pid, f))
        for d in dirs:
            body.append("Theorem %s_unit_contract_of_%s_is_the_reviewed_one :\n  units_dir_%s gen_io_units = units_dir_%s reviewed_io_units /\\ units_dir_%s reviewed_io_units <> [].\nProof. split; [exact units_%s_reviewed | exact units_%s_nonempty]. Qed.\nPrint Assumptions %s_unit_contract_of_%s_is_the_reviewed_one.\n" % (pid, d, d, d, d, d, d, pid, d))
        for d in odirs:
            body.append("Theorem %s_option_defaults_of_%s_are_the_reviewed_ones :\n  options_dir_%s gen_option_defaults = options_dir_%s reviewed_option_defaults /\\ options_dir_%s reviewed_option_defaults <> [].\nProof. split; [exact options_%s_reviewed | exact options_%s_nonempty]. Qed.\nPrint Assumptions %s_option_defaults_of_%s_are_the_reviewed_ones.\n" % (pid, d, d, d, d, d, d, pid, d))
        open(os.path.join(COQ, "Props", "%s_ties.v" % pid), "w").write("\n".join(body))
        files.append("Props/%s_ties.v" % pid)
    return files


if __name__ == "__main__":
    for f in main():
        print(f)
