"""Writes MANIFEST.json from the per-property modules (keeps it valid and uniform)."""
import json, os, importlib, sys
sys.path.insert(0, os.path.dirname(os.path.dirname(os.path.abspath(__file__))))
ROOT = os.path.dirname(os.path.dirname(os.path.abspath(__file__)))
props = [json.loads(l) for l in open(os.path.join(ROOT, "properties.jsonl"))]
checks, na = [], []
for p in props:
    pid = p["id"]
    path = os.path.join(ROOT, "harness", "props", pid + ".py")
    meta_path = os.path.join(ROOT, "harness", "props", pid + ".json")
    if not os.path.exists(path) or not os.path.exists(meta_path):
        na.append({"property_id": pid, "reason": "no check built yet in this development (see DESIGN.md status table); the property is not claimed"})
        continue
    meta = json.load(open(meta_path))
    checks.append({
        "property_id": pid,
        "quick_cmd": "./check %s --tier quick" % pid,
        "thorough_cmd": "./check %s --tier thorough" % pid,
        "evidence_file": "evidence/%s.json" % pid,
        "replay_cmd_template": "./check %s --replay {path}" % pid,
        "engine": "coq-oas",
        "level_claimed": {"category": "proof", "text": meta["level_text"], "design_ref": meta.get("design_ref", "DESIGN.md section 2, " + pid)},
        "level_note": meta["level_note"],
        "technique": meta.get("technique", "Coq theorems over R about a Gallina model + differential correspondence of the model (PrimFloat, vm_compute) against /repo"),
    })
man = {
    "version": 1,
    "setup_cmd": "./setup.sh",
    "hooks": {"guard": "OAS_VERIF", "enable": "no hook is needed: OpenMDAO exposes component instances, vectors and Jacobians; checks import /repo's working tree via PYTHONPATH=/repo",
              "baseline_off_cmd": "cd /repo && /venv/bin/python -m pytest -ra -q -p no:cacheprovider --timeout=900 --continue-on-collection-errors",
              "source_commits": [], "add_only": True},
    "engines": [{"name": "coq-oas", "path": "coq/", "serves_properties": [c["property_id"] for c in checks],
                 "kind_free_text": "Coq 8.16.1 development: Model (Gallina, polymorphic in Ops), Real (proof libraries), Props (property theorems), Generated (translator output); harness/ drives translator, make, correspondence and failing-input search"}],
    "checks": checks,
    "not_applicable": na,
    "notes": "All checks: exit 0 and KNOWN-FINDING lines for listed findings (KNOWN_FINDINGS.json); exit 1 with VIOLATION line otherwise. VERIF_SEED selects the PRNG stream.",
}
json.dump(man, open(os.path.join(ROOT, "MANIFEST.json"), "w"), indent=1)
print("checks:", [c["property_id"] for c in checks], "not_applicable:", len(na))
