"""check.py — the driver behind ./check Cxx --tier quick|thorough [--replay file]

One run =  translator -> make (proof obligations) -> proof audit -> correspondence streams
           -> implementation-only oracles (the failing-input search) -> verdict + evidence.
"""
import os, sys, re, json, time, subprocess, traceback, importlib, fcntl, glob, hashlib

t_start = time.time()
from . import core, translate

ROOT, COQ, WORK = core.ROOT, core.COQ, core.WORK

ALLOWED_AXIOMS = {
    "Classical_Prop.classic",
    "FunctionalExtensionality.functional_extensionality_dep",
    "ClassicalDedekindReals.sig_forall_dec",
    "ClassicalDedekindReals.sig_not_dec",
}
FORBIDDEN = re.compile(r"\b(Admitted|admit|Axiom|Axioms|Parameter|Parameters|Conjecture|Conjectures|Admit Obligations)\b|Unset Guard|bypass_check|type-in-type|impredicative-set|Unset Universe Checking|Unset Positivity")

TRUSTED_BASE = [
    "Coq 8.16.1 kernel; vm_compute (model execution, finite-domain lemmas); no native_compute",
    "axioms (Print Assumptions): Classical_Prop.classic, FunctionalExtensionality.functional_extensionality_dep, ClassicalDedekindReals.sig_forall_dec, ClassicalDedekindReals.sig_not_dec (all from Coq's Reals / Coquelicot); none declared here",
    "correspondence harness (Python 3.12, numpy, OpenMDAO): differential execution of the Gallina model (PrimFloat instance, our exp/ln/sin/cos/atan/acos, self-tested) against /repo on generated inputs, tolerance 1e-9 relative",
    "translator harness/translate.py (constants, tables, branch literals -> coq/Generated)",
    "informal step: a binary64 evaluation of a model term approximates its evaluation over R",
    "OpenMDAO (data transfer, unit conversion, assembly of totals), numpy/scipy/LAPACK primitives: modelled by their mathematical meaning, not verified",
]


def sh(cmd, timeout, cwd=None):
    try:
        p = subprocess.run(cmd, cwd=cwd, capture_output=True, text=True, timeout=timeout)
        return p.returncode, p.stdout + p.stderr
    except subprocess.TimeoutExpired as e:
        return 124, "TIMEOUT after %ss: %s" % (timeout, cmd)


def build(prop, models=None):
    """regenerate Generated/*.v from /repo, run make; returns (ok, log, failing_file)"""
    lock = open(os.path.join(WORK, ".build.lock"), "w")
    fcntl.flock(lock, fcntl.LOCK_EX)
    try:
        tr_ok, tr_log = translate.run()
        if not tr_ok:
            return False, "translator refused: " + tr_log, "harness/translate.py"
        refused = [f for f in translate.FAILED if prop in f[1]]
        if refused:
            return False, "translator refused: " + "; ".join("%s: %s" % (f[0], f[2]) for f in refused), "harness/translate.py"
        if prop in ("C02", "C04", "C05", "C06", "C07", "C08", "C09", "C10", "C11", "C12", "C13", "C15", "C16", "C17", "C18", "C19"):
            # the data-flow graphs of canonical models, regenerated from the live groups
            try:
                from . import wiring
                wiring.run()
            except Exception as e:
                return False, "wiring generator failed: %s: %s" % (type(e).__name__, str(e)[-600:]), "harness/wiring.py"
        if prop == "C03":
            # the storage-discipline programs of every component class, regenerated from the source
            from . import translate_writes, writes_diag
            names, failed = translate_writes.main()
            if failed:
                return False, "write-program translator refused: " + "; ".join("%s::%s: %s" % f for f in failed), "harness/translate_writes.py"
        if not os.path.exists(os.path.join(COQ, "Makefile")):
            rc, out = sh(["coq_makefile", "-f", "_CoqProject", "-o", "Makefile"], 120, cwd=COQ)
            if rc != 0:
                return False, out, "_CoqProject"
        # only this property's theorem files (with their dependencies) and the executable model:
        # a broken proof of another property must not raise an alarm here
        targets = [os.path.relpath(f, COQ) + "o" for f in sorted(glob.glob(os.path.join(COQ, "Props", prop + "*.v")))]
        targets += ["Float/Run.vo", "Float/Fops.vo", "Float/DRun.vo", "Model/Dual.vo"]
        if models is None:
            for d in ("Model", "Generated"):
                targets += [os.path.relpath(f, COQ) + "o" for f in sorted(glob.glob(os.path.join(COQ, d, "*.v")))]
        else:
            for m in models:
                for d in ("Model", "Generated"):
                    if os.path.exists(os.path.join(COQ, d, m + ".v")):
                        targets.append("%s/%s.vo" % (d, m))
        rc, out = sh(["make", "-j16"] + targets, 3000, cwd=COQ)
        if rc != 0:
            m = re.findall(r'File "\./([^"]+)", line (\d+)', out)
            extra = ""
            if prop == "C03":
                try:
                    from . import writes_diag, translate_writes
                    exp = translate_writes.FACTS.get("_expected_undisciplined", {})
                    d = {k: v for k, v in writes_diag.diagnose().items() if k not in exp}
                    extra = "\nundisciplined components (first offending statement): " + json.dumps(d, default=str)
                except Exception as e:
                    extra = "\n(diagnosis failed: %s)" % e
            return False, out[-3000:] + extra, (m[-1][0] if m else "?")
        return True, out[-500:], None
    finally:
        fcntl.flock(lock, fcntl.LOCK_UN)
        lock.close()


def audit_sources():
    bad = []
    for path in glob.glob(os.path.join(COQ, "**", "*.v"), recursive=True):
        txt = open(path).read()
        # strip comments (non-nested is enough for our files; nested handled by loop)
        prev = None
        while prev != txt:
            prev = txt
            txt = re.sub(r"\(\*[^*(]*(?:\*(?!\))[^*(]*|\((?!\*)[^*(]*)*\*\)", " ", txt)
        for m in FORBIDDEN.finditer(txt):
            bad.append("%s: %s" % (os.path.relpath(path, ROOT), m.group(0)))
    return bad


def theorems_of(prop):
    """(theorem names in Props/<prop>*.v, assumptions per theorem as printed by coqc)"""
    files = sorted(glob.glob(os.path.join(COQ, "Props", prop + "*.v")))
    names, assumptions, problems = [], {}, []
    from concurrent.futures import ThreadPoolExecutor
    with ThreadPoolExecutor(max_workers=12) as ex:
        compiled = dict(zip(files, ex.map(lambda f: sh(["coqc"] + core.COQ_Q + core.COQ_W + [f], 900, cwd=os.path.dirname(f)), files)))
    for f in files:
        src = open(f).read()
        ths = re.findall(r"^\s*Theorem\s+([A-Za-z0-9_']+)", src, re.M)
        pas = re.findall(r"^\s*Print Assumptions\s+([A-Za-z0-9_']+)\s*\.", src, re.M)
        names += ths
        for t in ths:
            if t not in pas:
                problems.append("theorem %s has no Print Assumptions" % t)
        rc, out = compiled[f]
        if rc != 0:
            problems.append("coqc %s failed: %s" % (os.path.basename(f), out[-1500:]))
            continue
        # split output into one block per Print Assumptions, in order
        blocks = re.split(r"(?=^Axioms:|^Closed under the global context)", out, flags=re.M)
        blocks = [b for b in blocks if b.startswith("Axioms:") or b.startswith("Closed under")]
        if len(blocks) != len(pas):
            problems.append("%s: %d Print Assumptions blocks for %d commands" % (os.path.basename(f), len(blocks), len(pas)))
        for t, b in zip(pas, blocks):
            ax = re.findall(r"^([A-Za-z_][A-Za-z0-9_.']*)\s*(?::|$)", b, re.M)
            ax = [a for a in ax if "." in a and not a.startswith("File")]
            assumptions[t] = ax
            for a in ax:
                if a not in ALLOWED_AXIOMS:
                    problems.append("theorem %s depends on non-allowed axiom %s" % (t, a))
    return names, assumptions, problems


def coqchk_of(prop):
    """thorough tier: re-check this property's compiled theorem files, and every library they load, with Coq's
    independent checker; -o lists the axioms of everything loaded.  Returns a list of problems."""
    files = sorted(glob.glob(os.path.join(COQ, "Props", prop + "*.v")))
    mods = ["OAS." + os.path.basename(f)[:-2] for f in files]
    cmd = ["coqchk", "-silent", "-o"]
    for d in ("Model", "Float", "Real", "Spec", "Generated", "Props"):
        cmd += ["-Q", d, "OAS"]
    rc, out = sh(cmd + mods, 7200, cwd=COQ)
    open(os.path.join(WORK, "coqchk_%s.log" % prop), "w").write(out)
    if rc != 0:
        return ["coqchk failed on %s: %s" % (" ".join(mods), out[-1200:])]
    problems = []
    m = re.search(r"\* Axioms:(.*?)\n\s*\n", out, re.S)
    axioms = re.findall(r"^\s+([A-Za-z_][A-Za-z0-9_.']*)\s*$", m.group(1), re.M) if m else []
    for a in axioms:
        short = a[4:] if a.startswith("Coq.") else a
        if not any(short.endswith(al) or al.endswith(short) for al in ALLOWED_AXIOMS):
            problems.append("coqchk -o: library axiom outside the stated trusted base: %s" % a)
    for label in ("type-in-type", "unsafe (co)fixpoints", "positivity is assumed"):
        mm = re.search(re.escape(label) + r":\s*(.*)", out)
        if mm and "<none>" not in mm.group(1):
            problems.append("coqchk -o: %s: %s" % (label, mm.group(1)[:200]))
    return problems


def load_known():
    p = os.path.join(ROOT, "KNOWN_FINDINGS.json")
    if not os.path.exists(p):
        return []
    return json.load(open(p))["findings"]


def main():
    args = sys.argv[1:]
    if not args:
        print("usage: check Cxx [--tier quick|thorough] [--replay file]"); return 2
    prop = args[0]
    tier = os.environ.get("VERIF_TIER", "quick")
    replay = None
    i = 1
    while i < len(args):
        if args[i] == "--tier":
            tier = args[i + 1]; i += 2
        elif args[i] == "--replay":
            replay = args[i + 1]; i += 2
        else:
            i += 1
    seed = int(os.environ.get("VERIF_SEED", "0"))
    core.RUN_TAG = prop
    core.RUN_TIER = tier
    pm = importlib.import_module("harness.props." + prop)
    R = core.Results(prop, tier, seed)

    if replay:
        return do_replay(pm, R, replay)

    broken = []         # obligations that no longer check: (kind, name, detail)
    # ---- 1. translator + build
    ok, log, failing = build(prop, getattr(pm, "MODELS", None))
    th_names, assumptions, th_problems = [], {}, []
    if not ok:
        broken.append(("proof-build", failing, log))
    else:
        th_names, assumptions, th_problems = theorems_of(prop)
        if tier == "thorough" and not th_problems:
            th_problems = coqchk_of(prop)
            R.notes.append("coqchk -o over Props/%s*.vo and everything they load: %s" % (prop, "no problem" if not th_problems else th_problems))
        for p in th_problems:
            broken.append(("proof-audit", prop, p))
    for b in audit_sources():
        broken.append(("source-audit", b, "forbidden construct"))
    gen_obl = translate.obligations_for(prop)

    # ---- 2. correspondence streams
    for fn in pm.STREAMS:
        name = fn.__name__
        try:
            fn(R, tier, seed)
        except Exception as e:
            S = R.stream(name)
            S["failures"].append({"case": "exception", "bad": [("exception", traceback.format_exc()[-1500:])]})
    # ---- 3. oracles (implementation-only statement of the property)
    for fn in pm.ORACLES:
        name = fn.__name__
        try:
            fn(R, tier, seed)
        except Exception as e:
            O = R.oracle(name)
            O["failures"].append({"key": "%s:%s:exception" % (prop, name), "case": "exception", "trace": traceback.format_exc()[-1500:]})

    for sname, S in R.streams.items():
        if S["failures"] or S.get("coq_errors"):
            broken.append(("correspondence", sname, S["failures"][:3] or S.get("coq_errors")[:1]))

    # ---- 4. verdict
    known = [k for k in load_known() if k["property"] == prop and k.get("status", "known") == "known"]
    known_keys = {k["key"]: k for k in known}
    oracle_fail = []
    for oname, O in R.oracles.items():
        for f in O["failures"]:
            oracle_fail.append((oname, f))
    # defect members of the model family that a stream recognised in the code: they count for the property
    # whose id prefixes the key; for the other properties they are only recorded in the evidence
    own_hits = [k for k in R.known_hits if k.startswith(prop + ":")]
    for k in own_hits:
        if k not in known_keys:
            oracle_fail.append(("model-family", {"key": k, "case": "the code matches the model-family member with this defect switch on",
                                                 "streams": {n: S.get("member") for n, S in R.streams.items() if S.get("member")}}))
    new_fail = [(o, f) for (o, f) in oracle_fail if f.get("key") not in known_keys]
    hit_known = sorted({f.get("key") for (o, f) in oracle_fail if f.get("key") in known_keys} | {k for k in own_hits if k in known_keys})
    # a broken correspondence explained entirely by a listed defect member is reported by the stream itself
    # through R.known_hits (it matched the listed member), not as broken.

    violations = 0
    out_lines = []
    rdir = os.path.join(ROOT, "replays", prop)
    if new_fail:
        os.makedirs(rdir, exist_ok=True)
        seen = set()
        for oname, f in new_fail:
            if f.get("key") in seen:
                continue
            seen.add(f.get("key"))
            h = hashlib.sha1(json.dumps(core.jsonable(f), sort_keys=True).encode()).hexdigest()[:10]
            path = os.path.join(rdir, "%s_%s.json" % (re.sub(r"[^A-Za-z0-9]+", "_", str(f.get("key"))), h))
            json.dump(core.jsonable({"property": prop, "kind": "failing-input", "oracle": oname, "tier": tier, "seed": seed,
                                     "failure": f, "broken_obligations": [(b[0], b[1]) for b in broken]}), open(path, "w"), indent=1)
            out_lines.append("VIOLATION property=%s replay=%s" % (prop, os.path.relpath(path, ROOT)))
            violations += 1
    elif broken:
        os.makedirs(rdir, exist_ok=True)
        h = hashlib.sha1(json.dumps(core.jsonable(broken), sort_keys=True, default=str).encode()).hexdigest()[:10]
        path = os.path.join(rdir, "broken_%s.json" % h)
        json.dump(core.jsonable({"property": prop, "kind": "broken-obligation", "tier": tier, "seed": seed,
                                 "no_longer_checks": [{"kind": b[0], "name": b[1], "detail": b[2]} for b in broken],
                                 "search": {o: {"cases": O["cases"], "failures": len(O["failures"])} for o, O in R.oracles.items()}}),
                  open(path, "w"), indent=1, default=str)
        out_lines.append("VIOLATION property=%s replay=%s no-failing-input-found" % (prop, os.path.relpath(path, ROOT)))
        violations += 1
    for k in hit_known:
        out_lines.insert(0, "KNOWN-FINDING: property=%s %s" % (prop, known_keys[k]["what"]))

    # ---- 5. evidence
    n_streams = len(R.streams)
    obligations = len(th_names) + n_streams + len(gen_obl)
    discharged = (len([t for t in th_names if t in assumptions]) if not any(b[0].startswith("proof") for b in broken) else 0)
    discharged += sum(1 for S in R.streams.values() if not S["failures"] and not S.get("coq_errors"))
    discharged += len(gen_obl) if ok else 0
    evaluations = sum(S["cases"] for S in R.streams.values()) + sum(O["cases"] for O in R.oracles.values())
    ev = {
        "property_id": prop, "tier": tier, "seed": seed, "level": "proof",
        "coverage": {
            "obligations": obligations, "discharged": discharged,
            "checker_cmd": "make -C coq -j16 (coqc 8.16.1, full .vo build) && coqc Props/%s*.v (Print Assumptions) && correspondence shards via coqc vm_compute" % prop,
            "trusted_base": TRUSTED_BASE,
            "theorems": th_names, "assumptions_per_theorem": assumptions,
            "generated_obligations": gen_obl,
            "unproved": getattr(pm, "UNPROVED", []),
            "correspondence_streams": {k: {a: b for a, b in v.items() if a in ("cases", "ok", "worst", "member")} for k, v in R.streams.items()},
            "oracles": {k: {a: b for a, b in v.items() if a in ("cases", "ok", "worst")} for k, v in R.oracles.items()},
            "evaluations": evaluations, "distinct_nontrivial": len(R.distinct),
            "rule": getattr(pm, "RULE", "cases are (component, option set, mesh size, input draw) tuples generated from VERIF_SEED; distinct = distinct tuples; non-trivial = non-degenerate random mesh / non-zero inputs unless a deliberate special value"),
            "samples": R.samples or [{"note": "no samples"}],
            "input_distribution": R.distribution,
            "known_findings_observed": hit_known,
            "defect_switches_on": sorted(set(R.known_hits)),
            "broken_obligations": [{"kind": b[0], "name": b[1]} for b in broken],
            "notes": R.notes,
        },
        "assumptions": getattr(pm, "ASSUMPTIONS", []),
        "wall_s": round(time.time() - t_start, 2),
        "violations": violations,
    }
    os.makedirs(os.path.join(ROOT, "evidence"), exist_ok=True)
    json.dump(core.jsonable(ev), open(os.path.join(ROOT, "evidence", prop + ".json"), "w"), indent=1, default=str)

    for l in out_lines:
        print(l)
    print("%s tier=%s seed=%d theorems=%d streams=%d/%d oracle-cases=%d obligations=%d discharged=%d wall=%.1fs" % (
        prop, tier, seed, len(th_names), sum(1 for S in R.streams.values() if not S["failures"]), n_streams,
        sum(O["cases"] for O in R.oracles.values()), obligations, discharged, time.time() - t_start))
    if broken:
        for b in broken[:6]:
            print("  broken: %s %s %s" % (b[0], b[1], str(b[2])[:800]))
    return 1 if violations else 0


def do_replay(pm, R, path):
    rec = json.load(open(path))
    prop = rec["property"]
    seed, tier = rec.get("seed", 0), rec.get("tier", "quick")
    if rec["kind"] == "failing-input":
        key = rec["failure"].get("key")
        if getattr(pm, "REPLAY_NEEDS_STREAMS", False):
            for fn in pm.STREAMS:
                fn(R, tier, seed)
        for fn in pm.ORACLES:
            fn(R, tier, seed)
        again = [f for O in R.oracles.values() for f in O["failures"] if f.get("key") == key]
        if again:
            print("REPLAY reproduces: %s" % json.dumps(core.jsonable(again[0]))[:1500])
            print("VIOLATION property=%s replay=%s" % (prop, path))
            return 1
        print("REPLAY does not reproduce %s on the current tree" % key)
        return 0
    else:
        print("REPLAY of a broken obligation: re-running the full check")
        os.execv(sys.executable, [sys.executable, "-m", "harness.check", prop, "--tier", tier])


if __name__ == "__main__":
    sys.exit(main())
