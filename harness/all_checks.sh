#!/bin/sh
# run every property's check (tier $1, default quick) with PRNG seed $2 (default 0); print one summary line per property
cd "$(dirname "$0")/.."
tier=${1:-quick}; seed=${2:-0}
mkdir -p _work
for k in 01 02 03 04 05 06 07 08 09 10 11 12 13 14 15 16 17 18 19 20; do
  VERIF_SEED=$seed ./check C$k --tier $tier > _work/all_${tier}_${seed}_C$k.log 2>&1
  echo "C$k exit=$? $(grep -c '^KNOWN-FINDING' _work/all_${tier}_${seed}_C$k.log) known; $(grep '^VIOLATION' _work/all_${tier}_${seed}_C$k.log | head -3 | tr '\n' ' ') $(tail -1 _work/all_${tier}_${seed}_C$k.log | cut -c1-150)"
done
