"""Implementation-only oracle for C12: the converged aerostructural state is a fixed point of both disciplines, is the
same whichever supported solver / start / history produced it, flight points are isolated, and a stiff structure tends
to the rigid aerodynamic analysis."""
import warnings
import numpy as np
import openmdao.api as om
from .. import core, gen, aero, structs
from .c03 import _quiet
from .c02 import crm, tighten


def surf_tube(**kw):
    base = dict(with_viscous=True, t_over_c_cp=np.array([0.12, 0.12]), twist_cp=np.array([2.0, 3.0]), thickness_cp=np.array([0.05, 0.05, 0.06]), with_wave=False)
    base.update(kw)
    return gen.tube_surface(crm(), symmetry=True, name="wing", **base)


def surf_wingbox(**kw):
    base = dict(with_viscous=True, with_wave=True, t_over_c_cp=np.array([0.12, 0.12]), twist_cp=np.array([2.0, 3.0]), spar_thickness_cp=np.array([0.006, 0.007]), skin_thickness_cp=np.array([0.012, 0.013]))
    base.update(kw)
    return gen.wingbox_surface(crm(), symmetry=True, name="wing", **base)


WB_FLOW = dict(Mach=0.85, v=0.85 * 295.07, alpha=1.0, rho=0.348, CT=0.53 / 3600, R=14.307e6, W0=148000 + 15000, a=295.07)


def rel(a, b):
    a = np.asarray(a, float); b = np.asarray(b, float)
    return float(np.abs(a - b).max() / (max(np.abs(a).max(), np.abs(b).max()) + 1e-300))


def converged(surface, flow, solver=None, relief=False):
    p = structs.build_aerostruct([surface], solver=solver, **flow)
    tighten(p)
    _quiet(p.run_model)
    return p


def oracle_consistency(R, tier, seed):
    """recompute each discipline separately from the other's converged output"""
    from openaerostruct.transfer.displacement_transfer_group import DisplacementTransferGroup
    from openaerostruct.transfer.load_transfer import LoadTransfer
    O = R.oracle("fixed-point-of-both-disciplines")
    cases = [("tube", surf_tube(), dict(Mach=0.84, alpha=3.0)), ("tube-weight-relief", surf_tube(struct_weight_relief=True), dict(Mach=0.84, alpha=2.0, load_factor=2.5)),
             ("wingbox-weight-relief", surf_wingbox(distributed_fuel_weight=False), WB_FLOW),
             # a wing-box dictionary that also carries a fem_origin entry (which a wing box ignores): every member of the loop
             # must use the SAME chordwise reference line (the structural nodes)
             ("wingbox-with-fem_origin-entry", surf_wingbox(distributed_fuel_weight=False, fem_origin=0.35), WB_FLOW)]
    for name, s, flow in cases:
        p = converged(s, flow)
        pre = "AS_point_0.coupled."
        disp = structs.g(p, pre + "wing.disp"); defm = structs.g(p, pre + "wing.def_mesh"); loads = structs.g(p, pre + "wing_loads.loads") if False else None
        mesh = structs.g(p, "wing.mesh"); nodes = structs.g(p, "wing.nodes")
        secf = structs.g(p, pre + "aero_states.wing_sec_forces")
        loads = structs.g(p, pre + "wing.loads")
        bad = {}
        # (1) deformed mesh = displacement transfer of the converged displacements
        q = om.Problem(reports=False)
        ivc = om.IndepVarComp(); ivc.add_output("mesh", val=mesh, units="m"); ivc.add_output("disp", val=disp); ivc.add_output("nodes", val=nodes, units="m")
        q.model.add_subsystem("ivc", ivc, promotes=["*"]); q.model.add_subsystem("d", DisplacementTransferGroup(surface=s), promotes=["*"]); _quiet(q.setup); _quiet(q.run_model)
        e = rel(q.get_val("def_mesh"), defm)
        if e > 1e-12: bad["def_mesh != transfer(disp)"] = e
        # (2) flow about the deformed mesh (rigid AeroPoint fed with def_mesh) gives the converged sectional forces
        sa = dict(s); sa["mesh"] = mesh
        fa = dict(v=float(np.ravel(p.get_val("v"))[0]), alpha=float(np.ravel(p.get_val("alpha"))[0]), Mach=float(np.ravel(p.get_val("Mach_number"))[0]), re=float(np.ravel(p.get_val("re"))[0]), rho=float(np.ravel(p.get_val("rho"))[0]))
        a = aero.build_aero([sa], geom=False, **fa)
        a.set_val("wing_def_mesh", defm); _quiet(a.run_model)
        e = rel(a.get_val("aero.aero_states.wing_sec_forces"), secf)
        if e > 1e-9: bad["sec_forces != flow(def_mesh)"] = e
        # (3) loads = load transfer of these forces on the deformed mesh
        q = om.Problem(reports=False); q.model.add_subsystem("l", LoadTransfer(surface=s), promotes=["*"]); _quiet(q.setup)
        q.set_val("def_mesh", defm); q.set_val("sec_forces", secf); _quiet(q.run_model)
        e = rel(q.get_val("loads"), loads)
        if e > 1e-12: bad["loads != transfer(sec_forces)"] = e
        # (3b) ... and these nodal loads, acting at the structural nodes carried along with the deformed mesh, are statically
        # equivalent to the sectional forces acting at the quarter-chord points of the deformed mesh
        chord = mesh[-1] - mesh[0]
        w = float(np.mean(np.sum((nodes - mesh[0]) * chord, axis=1) / np.sum(chord * chord, axis=1)))
        nd = (1 - w) * defm[0] + w * defm[-1]
        fp = 0.5 * (0.75 * defm[:-1, :-1] + 0.25 * defm[1:, :-1]) + 0.5 * (0.75 * defm[:-1, 1:] + 0.25 * defm[1:, 1:])
        Ftot = secf.sum(axis=(0, 1)); Mtot = np.cross(fp, secf).sum(axis=(0, 1))
        Fl = loads[:, :3].sum(axis=0); Ml = (np.cross(nd, loads[:, :3]) + loads[:, 3:]).sum(axis=0)
        if rel(Fl, Ftot) > 1e-10: bad["loads not force-equivalent to sec_forces"] = rel(Fl, Ftot)
        if rel(Ml, Mtot) > 1e-9: bad["loads not moment-equivalent to sec_forces about the structural nodes"] = rel(Ml, Mtot)
        # (4) displacements = structural response to these loads (stand-alone beam with the same options)
        sb = structs.build_struct(s, loads, load_factor=float(np.ravel(p.get_val("load_factor"))[0]))
        _quiet(sb.final_setup)
        if s.get("distributed_fuel_weight", False):
            fm = float(np.ravel(p.get_val("fuel_mass"))[0])
            names = [n for n, _ in sb.model.list_inputs(out_stream=None, prom_name=True, val=False) if n.endswith("fuel_mass")]
            for n in names: sb.set_val(n, fm)
        _quiet(sb.run_model)
        e = rel(sb.get_val("wing.disp"), disp)
        if e > 2e-7: bad["disp != structure(loads)"] = e
        O["cases"] += 1; O["worst"] = max([O["worst"]] + list(bad.values()))
        if bad: O["failures"].append({"key": "C12:%s:%s" % (name, sorted(bad)[0]), "case": {"model": name, **{k: (float(v) if np.isscalar(v) else v) for k, v in flow.items()}}, "errors": bad})
        else: O["ok"] += 1
        R.mark("c12a", name)


def _solvers():
    def nlbgs(aitken):
        def f(pt):
            pt.coupled.nonlinear_solver = om.NonlinearBlockGS(use_aitken=aitken, maxiter=300, atol=1e-7, rtol=1e-12, iprint=-1, err_on_non_converge=True)
        return f

    def newton(lin):
        def f(pt):
            pt.coupled.nonlinear_solver = om.NewtonSolver(solve_subsystems=True, maxiter=50, atol=1e-7, rtol=1e-12, iprint=-1, err_on_non_converge=True)
            if lin == "Direct": pt.coupled.linear_solver = om.DirectSolver(assemble_jac=True)
            elif lin == "LinearBlockGS": pt.coupled.linear_solver = om.LinearBlockGS(maxiter=300, atol=1e-12, rtol=1e-12, use_aitken=True, iprint=-1, err_on_non_converge=True)
            elif lin == "ScipyKrylov":
                pt.coupled.linear_solver = om.ScipyKrylov(maxiter=300, atol=1e-12, rtol=1e-12, iprint=-1, err_on_non_converge=True)
                pt.coupled.linear_solver.precon = om.LinearBlockGS(maxiter=2, iprint=-1)
        return f
    return [("NLBGS+Aitken", nlbgs(True)), ("NLBGS", nlbgs(False)), ("Newton+Direct", newton("Direct")), ("Newton+LinearBlockGS", newton("LinearBlockGS")), ("Newton+ScipyKrylov", newton("ScipyKrylov"))]


OBS = ["AS_point_0.coupled.wing.disp", "AS_point_0.coupled.wing.def_mesh", "AS_point_0.coupled.wing.loads", "AS_point_0.coupled.aero_states.circulations",
       "AS_point_0.fuelburn", "AS_point_0.CL", "AS_point_0.CD", "AS_point_0.CM", "AS_point_0.L_equals_W", "AS_point_0.wing_perf.failure"]


def observe(p):
    return {k: structs.g(p, k) for k in OBS}


def oracle_solver_independence(R, tier, seed):
    O = R.oracle("solver-start-and-history-independence")
    # the wing box with distributed fuel and weight relief is in the quick tier too, and the histories change the load factor:
    # a seeded change that cached the fuel loads across analyses (keyed without the load factor) was missed without them
    cases = [("tube", surf_tube, dict(Mach=0.84, alpha=3.0)), ("wingbox-fuel", surf_wingbox, dict(WB_FLOW, load_factor=2.5))]
    # engines as point masses: the histories move them spanwise between analyses (a seeded change that cached their nodal
    # weighting on a view of the input vector - so that the first analysis' weighting was kept for ever - was missed without it)
    ym = crm()[0, :, 1]
    pm = dict(point_masses=[[8000.0]], point_mass_locations=[[25.0, 0.55 * ym[0] + 0.45 * ym[1], -0.5]], engine_thrusts=[[6e4]])
    cases.append(("tube-point-mass", lambda: surf_tube(n_point_masses=1, struct_weight_relief=True), dict(Mach=0.84, alpha=3.0, load_factor=1.5, **pm)))
    # a rotating aircraft (pitch and yaw rates): the rotational onset velocity inside the loop uses the rates and the reference point the
    # USER supplies; nothing computed after the loop may feed back into it
    cases.append(("tube-rotational", lambda: surf_tube(), dict(Mach=0.84, alpha=3.0, point_kw={"rotational": True})))

    def prepare(p, name):
        if name == "tube-rotational":
            p.set_val("AS_point_0.coupled.aero_states.omega", np.array([0.0, 0.09, 0.03]))
            p.set_val("AS_point_0.coupled.aero_states.cg", np.array([30.0, 0.0, 1.0]))
    for name, mk, flow in cases:
        ref = None
        for sname, sfn in (_solvers() if (name == "tube" or tier != "quick") else _solvers()[:1]):
            O["cases"] += 1
            try:
                p = structs.build_aerostruct([mk()], solver=sfn, **flow)
                prepare(p, name)
                _quiet(p.run_model)
            except om.AnalysisError as e:
                R.notes.append("C12 %s/%s: did not converge (outside the quantifier): %s" % (name, sname, str(e)[:100])); O["ok"] += 1; continue
            ob = observe(p)
            if ref is None:
                ref = ob; O["ok"] += 1; continue
            bad = {k: rel(ob[k], ref[k]) for k in ob if rel(ob[k], ref[k]) > 2e-6}
            O["worst"] = max([O["worst"]] + [rel(ob[k], ref[k]) for k in ob])
            if bad: O["failures"].append({"key": "C12:%s:state-depends-on-solver(%s)" % (name, sname), "case": {"model": name, "solver": sname, **{k: (float(v) if np.isscalar(v) else v) for k, v in flow.items()}}, "errors": bad})
            else: O["ok"] += 1
        # initial guess / previously analysed design point
        # ([{}]: the same point analysed twice in a row)
        hists = [[{}], [{"alpha": 6.0}], [{"alpha": -2.0, "Mach_number": 0.5}, {"alpha": 5.0}], [{"load_factor": 1.0}], [{"load_factor": 1.0, "alpha": 4.0}, {"load_factor": -1.0}]]
        if "point_masses" in flow:
            loc = np.array(flow["point_mass_locations"], dtype=float)
            inboard = loc.copy(); inboard[0, 1] = 0.3 * ym[-2] + 0.7 * ym[-1]
            hists = [[{"point_mass_locations": inboard}], [{"point_mass_locations": inboard, "alpha": 5.0}, {"point_masses": np.array([[2000.0]])}]]
        for hist in hists:
            O["cases"] += 1
            p = structs.build_aerostruct([mk()], **flow); tighten(p); prepare(p, name)
            for pt in hist:
                for k, v in pt.items(): p.set_val(k, v)
                _quiet(p.run_model)
            p.set_val("alpha", flow["alpha"]); p.set_val("Mach_number", flow["Mach"]); p.set_val("load_factor", flow.get("load_factor", 1.0))
            for k in ("point_masses", "point_mass_locations"):
                if k in flow: p.set_val(k, np.array(flow[k], dtype=float))
            _quiet(p.run_model)
            ob = observe(p)
            bad = {k: rel(ob[k], ref[k]) for k in ob if rel(ob[k], ref[k]) > 2e-6}
            if bad: O["failures"].append({"key": "C12:%s:state-depends-on-previous-design-point" % name, "case": {"model": name, "history": core.jsonable(hist)}, "errors": bad})
            else: O["ok"] += 1
        R.mark("c12b", name)


def oracle_multipoint(R, tier, seed):
    O = R.oracle("multipoint-isolation")
    two = dict(Mach=[0.84, 0.7], alpha=[2.0, 4.0], v=[248.136, 200.0], load_factor=[1.0, 2.5], rho=[0.38, 0.5], re=[1e6, 1e6], CT=[9.80665 * 17.0e-6] * 2, R=[11.165e6] * 2, W0=[0.4 * 3e5] * 2, a=[295.4] * 2)
    p2 = structs.build_aerostruct([surf_tube(struct_weight_relief=True)], npoints=2, **two); tighten(p2); _quiet(p2.run_model)
    obs2 = [k.replace("AS_point_0", "AS_point_%d") for k in OBS]
    for i in range(2):
        one = {k: v[i] for k, v in two.items()}
        p1 = structs.build_aerostruct([surf_tube(struct_weight_relief=True)], **one); tighten(p1); _quiet(p1.run_model)
        O["cases"] += 1
        bad = {k % i: rel(structs.g(p2, k % i), structs.g(p1, k % 0)) for k in obs2 if rel(structs.g(p2, k % i), structs.g(p1, k % 0)) > 1e-7}
        if bad: O["failures"].append({"key": "C12:multipoint:point-differs-from-single-point-analysis", "case": {"point": i}, "errors": bad})
        else: O["ok"] += 1
    # perturbing point 1 leaves point 0 bit-for-bit unchanged
    before = {k % 0: structs.g(p2, k % 0) for k in obs2}
    a = np.array(p2.get_val("alpha")).copy(); a[1] += 1.5; p2.set_val("alpha", a)
    lf = np.array(p2.get_val("load_factor")).copy(); lf[1] = 1.0; p2.set_val("load_factor", lf)
    _quiet(p2.run_model)
    O["cases"] += 1
    bad = {k: rel(structs.g(p2, k), before[k]) for k in before if rel(structs.g(p2, k), before[k]) > 1e-9}
    if bad: O["failures"].append({"key": "C12:multipoint:point-0-changes-when-point-1-inputs-change", "case": {"perturbed": "alpha[1], load_factor[1]"}, "errors": bad})
    else: O["ok"] += 1
    # dataflow: no variable inside one point feeds the other
    O["cases"] += 1
    conns = p2.model._conn_global_abs_in2out
    cross = [(i_, o_) for i_, o_ in conns.items() if (i_.startswith("AS_point_0.") and o_.startswith("AS_point_1.")) or (i_.startswith("AS_point_1.") and o_.startswith("AS_point_0."))]
    if cross: O["failures"].append({"key": "C12:multipoint:connection-between-flight-points", "case": {"connections": cross[:5]}})
    else: O["ok"] += 1
    R.mark("c12c")


def oracle_stiff_limit(R, tier, seed):
    O = R.oracle("stiff-structure-tends-to-rigid-analysis")
    s0 = surf_tube()
    flow = dict(Mach=0.84, alpha=3.0)
    rigid = aero.build_aero([dict(s0)], geom=True, v=248.136, alpha=3.0, Mach=0.84, re=1e6, rho=0.38); _quiet(rigid.run_model)
    CLr, CDr = float(np.ravel(rigid.get_val("aero.CL"))[0]), float(np.ravel(rigid.get_val("aero.CD"))[0])
    errs = []
    for k in (1.0, 10.0, 100.0, 1000.0, 1e4):
        s = surf_tube(E=70e9 * k, G=30e9 * k)
        p = converged(s, flow)
        CL, CD = float(np.ravel(p.get_val("AS_point_0.CL"))[0]), float(np.ravel(p.get_val("AS_point_0.CD"))[0])
        disp = float(np.abs(p.get_val("AS_point_0.coupled.wing.disp")).max())
        errs.append((k, abs(CL - CLr) / abs(CLr), abs(CD - CDr) / abs(CDr), disp))
    O["cases"] += 1
    bad = {}
    for (k1, e1, d1, u1), (k2, e2, d2, u2) in zip(errs[:-1], errs[1:]):
        if not (u2 < u1 * 0.2): bad["max|disp| does not fall like 1/k between k=%g and %g" % (k1, k2)] = [u1, u2]
        if not (e2 < e1 * 0.3 + 1e-9): bad["|CL-CL_rigid| does not fall between k=%g and %g" % (k1, k2)] = [e1, e2]
    if not (errs[-1][1] < 1e-4 and errs[-1][2] < 1e-4): bad["stiffest structure differs from the rigid analysis"] = [errs[-1][1], errs[-1][2]]
    O["worst"] = errs[-1][1]
    if bad: O["failures"].append({"key": "C12:stiff-limit:%s" % sorted(bad)[0].split(" between")[0], "case": {"sequence (k, dCL/CL, dCD/CD, max disp)": errs}, "errors": bad})
    else: O["ok"] += 1
    R.samples.append({"stiffness sequence (k, |CL-CLr|/CLr, |CD-CDr|/CDr, max|disp|)": errs})
    R.mark("c12d")
