"""Implementation-only oracle for C14: the documented properties of every mesh generator's return value."""
import warnings
import numpy as np
from .. import core, gen


def _fail(O, key, desc, **kw):
    O["failures"].append(dict(key=key, case=desc, **kw))


def oracle_generate_mesh(R, tier, seed):
    from openaerostruct.geometry.utils import generate_mesh, getFullMesh
    O = R.oracle("generate_mesh.well-formed")
    rng = gen.stable_rng(seed, "c14")
    nxs = (2, 3, 5) if tier == "quick" else (2, 3, 4, 5, 7)
    nys = (3, 5, 9) if tier == "quick" else (3, 5, 7, 9, 13, 21)
    for wing in ("rect", "CRM", "uCRM_based"):
        for num_x in nxs:
            for num_y in nys:
                for scs in (0.0, 1.0, float(rng.uniform(0, 1))):
                    ccs = float(rng.choice([0.0, 1.0, rng.uniform(0, 1)]))
                    span = float(rng.uniform(2, 60)); chord = float(rng.uniform(0.3, 6)); off = rng.normal(size=3) * 4
                    d = {"num_x": num_x, "num_y": num_y, "wing_type": wing, "span_cos_spacing": scs, "chord_cos_spacing": ccs}
                    if wing == "rect": d.update(span=span, root_chord=chord)
                    else: d.update(num_twist_cp=3)

                    def gm(sym, offset=None):
                        dd = dict(d, symmetry=sym)
                        if offset is not None: dd["offset"] = offset
                        with warnings.catch_warnings():
                            warnings.simplefilter("ignore")
                            r = generate_mesh(dd)
                        return r[0] if isinstance(r, tuple) else r
                    full = gm(False); half = gm(True)
                    bad = {}
                    nyh = (num_y + 1) // 2
                    if full.shape != (num_x, num_y, 3) or half.shape != (num_x, nyh, 3): bad["shape"] = [full.shape, half.shape]
                    else:
                        if not np.all(np.diff(full[:, :, 0], axis=0) > 0): bad["x-not-increasing-chordwise"] = 1
                        if not np.all(np.diff(full[:, :, 1], axis=1) > 0): bad["y-not-increasing-spanwise"] = 1
                        sp = full[0, -1, 1] - full[0, 0, 1]
                        if wing == "rect":
                            if abs(sp - span) > 1e-12 * span: bad["span"] = [sp, span]
                            c = full[-1, :, 0] - full[0, :, 0]
                            if np.abs(c - chord).max() > 1e-12 * chord: bad["root-chord"] = float(np.abs(c - chord).max())
                        mir = full[:, ::-1].copy(); mir[:, :, 1] *= -1
                        if np.abs(mir - full).max() > 1e-12 * np.abs(full).max(): bad["not-mirror-symmetric"] = float(np.abs(mir - full).max())
                        if np.abs(full[:, nyh - 1, 1]).max() > 1e-12 * sp: bad["centre-column-off-plane"] = float(np.abs(full[:, nyh - 1, 1]).max())
                        if np.abs(half - full[:, :nyh]).max() != 0.0: bad["half-is-not-left-of-full"] = float(np.abs(half - full[:, :nyh]).max())
                        back = getFullMesh(left_mesh=half)
                        if np.abs(back - full).max() > 1e-12 * np.abs(full).max(): bad["getFullMesh(half)!=full"] = float(np.abs(back - full).max())
                        fo = gm(False, off); ho = gm(True, off)
                        if np.abs(fo - (full + off)).max() > 1e-12 * (np.abs(full).max() + 4) or np.abs(ho - (half + off)).max() > 1e-12 * (np.abs(full).max() + 4): bad["offset-not-translation"] = 1
                    O["cases"] += 1
                    desc = dict(d, seed=seed)
                    if bad: _fail(O, "C14:generate_mesh:" + sorted(bad)[0], desc, errors=bad)
                    else: O["ok"] += 1
                    R.mark("c14", wing, num_x, num_y, scs)


def oracle_sections(R, tier, seed):
    """multi-section meshes: coincident edges; unification reproduces the contiguous surface node for node"""
    from openaerostruct.geometry.geometry_mesh_gen import generate_mesh as gen_sections
    from openaerostruct.geometry.geometry_unification import unify_mesh
    O = R.oracle("multisection.sections-join"); O2 = R.oracle("multisection.asymmetric-branch")
    rng = gen.stable_rng(seed, "c14sec")
    for nsec in (1, 2, 3, 4):
        for rep in range(3 if tier == "quick" else 8):
            nx = int(rng.integers(2, 5)); ny = rng.integers(2, 6, nsec)
            taper = rng.uniform(0.4, 1.1, nsec); span = rng.uniform(0.5, 4, nsec); sweep = np.deg2rad(rng.uniform(-10, 30, nsec)); rc = float(rng.uniform(0.5, 3))
            surface = {"num_sections": nsec, "symmetry": True, "taper": taper, "sweep": sweep, "span": span, "root_chord": rc, "nx": nx, "ny": ny}
            mesh, secs = gen_sections(surface)
            bad = {}
            for k in range(nsec - 1):
                gap = float(np.abs(secs[k][:, -1, :] - secs[k + 1][:, 0, :]).max())
                if gap > 1e-12: bad["gap-%d-%d" % (k, k + 1)] = gap
            uni = unify_mesh([{"mesh": s} for s in secs], shift_uni_mesh=False)
            if uni.shape != mesh.shape or np.abs(uni - mesh).max() > 1e-12: bad["unify!=stitched"] = float(np.abs(uni - mesh).max()) if uni.shape == mesh.shape else [uni.shape, mesh.shape]
            uni2 = unify_mesh([{"mesh": s} for s in secs], shift_uni_mesh=True)     # C0 sections: the shift is zero
            if uni2.shape != mesh.shape or np.abs(uni2 - mesh).max() > 1e-12: bad["unify(shift)!=stitched"] = 1
            if not np.all(np.diff(mesh[:, :, 1], axis=1) > 0): bad["y-not-increasing"] = 1
            if not np.all(np.diff(mesh[:, :, 0], axis=0) > 0): bad["x-not-increasing"] = 1
            O["cases"] += 1
            desc = {"sections": nsec, "nx": nx, "ny": ny.tolist(), "taper": taper.tolist(), "sweep_rad": sweep.tolist(), "span": span.tolist(), "seed": seed}
            if bad: _fail(O, "C14:multisection(symmetric):" + sorted(bad)[0].split("-")[0], desc, errors=bad)
            else: O["ok"] += 1
            R.mark("c14s", nsec, rep)
    # asymmetric branch: sections to the right of the root
    for rep in range(2 if tier == "quick" else 6):
        for nright in (1, 2):
            nsec = 1 + nright + int(rng.integers(0, 2))
            root = nsec - 1 - nright
            nx = 2; ny = rng.integers(2, 5, nsec)
            taper = rng.uniform(0.5, 1.0, nsec); span = rng.uniform(0.5, 3, nsec); sweep = np.deg2rad(rng.uniform(5, 25, nsec)); rc = float(rng.uniform(0.8, 2))
            surface = {"num_sections": nsec, "symmetry": False, "root_section": root, "taper": taper, "sweep": sweep, "span": span, "root_chord": rc, "nx": nx, "ny": ny}
            O2["cases"] += 1
            desc = {"sections": nsec, "root_section": root, "sections_right_of_root": nright, "taper": taper.tolist(), "sweep_rad": sweep.tolist(), "span": span.tolist(), "seed": seed}
            try:
                mesh, secs = gen_sections(surface)
                gaps = [float(np.abs(secs[k][:, -1, :] - secs[k + 1][:, 0, :]).max()) for k in range(nsec - 1)]
                if max(gaps) > 1e-12: _fail(O2, "C14:generate_section_geometry(asymmetric):sections-do-not-join", desc, gaps=gaps)
                else: O2["ok"] += 1
            except TypeError as e:
                _fail(O2, "C14:generate_section_geometry(asymmetric):sections-do-not-join", desc, exception="TypeError: %s" % e)
            R.mark("c14a", rep, nright)


def oracle_join_component(R, tier, seed):
    """the joining component on generated multi-section meshes: with one mask per shared edge (the same or DIFFERENT axes from
    edge to edge) the reported separation of coincident sections is zero, and after moving one section by a known offset it
    is the offset on the masked axes of that section's two edges.  unify_mesh must not write into the user's section meshes."""
    from openaerostruct.geometry.geometry_mesh_gen import generate_mesh as gen_sections
    from openaerostruct.geometry.geometry_multi_join import GeomMultiJoin
    from openaerostruct.geometry.geometry_unification import unify_mesh
    O = R.oracle("GeomMultiJoin.generated-sections"); O2 = R.oracle("unify_mesh.user-meshes-untouched")
    rng = gen.stable_rng(seed, "c14join")
    for nsec in (3, 4):
        for rep in range(2 if tier == "quick" else 5):
            nx = int(rng.integers(2, 4)); ny = rng.integers(2, 5, nsec)
            surface = {"num_sections": nsec, "symmetry": True, "taper": rng.uniform(0.5, 1.0, nsec), "sweep": np.deg2rad(rng.uniform(0, 25, nsec)), "span": rng.uniform(1, 3, nsec),
                       "root_chord": float(rng.uniform(1, 3)), "nx": nx, "ny": ny}
            _, secs = gen_sections(surface)
            secs = [np.array(s) for s in secs]
            sections = [{"name": "s%d" % i, "mesh": secs[i], "symmetry": True} for i in range(nsec)]
            masks_all = [[[1, 0, 0]] * (nsec - 1), [[1, 0, 0], [0, 1, 0]] + [[0, 0, 1]] * (nsec - 3), [[1, 0, 1], [0, 1, 1]] + [[1, 1, 0]] * (nsec - 3)]
            off = rng.normal(size=3) * 0.3; moved = 1                      # section 1 is moved by `off`
            for masks in masks_all:
                dim_constr = [np.array(m) for m in masks]
                bad = {}
                for shifted in (False, True):
                    ins = {"s%d_join_mesh" % i: (secs[i] + off if (shifted and i == moved) else secs[i]) for i in range(nsec)}
                    o, _, _ = core.run_comp(GeomMultiJoin(sections=sections, dim_constr=dim_constr), ins, want_J=False)
                    sep = np.ravel(o["section_separation"])
                    exp = []
                    for e in range(nsec - 1):
                        # edge e joins section e (its right edge) and section e+1 (its left edge); the moved section contributes +-off
                        d = np.zeros(3)
                        if shifted and e == moved - 1: d = -off      # right edge of section e fixed, left edge of the moved section shifted
                        if shifted and e == moved: d = off
                        for _r in (0, 1):
                            exp += [d[k] for k in range(3) if masks[e][k]]
                    exp = np.array(exp)
                    if sep.shape != exp.shape: bad["shape"] = [list(sep.shape), list(exp.shape)]
                    elif np.abs(np.abs(sep) - np.abs(exp)).max() > 1e-12: bad["separation%s" % ("-after-moving-a-section" if shifted else "-of-coincident-sections")] = [sep.tolist(), exp.tolist()]
                O["cases"] += 1
                if bad: _fail(O, "C14:GeomMultiJoin:%s" % sorted(bad)[0], {"num_sections": nsec, "masks": masks, "nx": nx, "ny": ny.tolist(), "seed": seed, "rep": rep}, errors=bad)
                else: O["ok"] += 1
            # user-provided section meshes in their own local frames (so that the unification has something to shift)
            user = [s.copy() + (rng.normal(size=3) * 0.5 if i else 0.0) for i, s in enumerate(secs)]
            before = [u.copy() for u in user]
            for _ in range(2):
                unify_mesh([{"mesh": u} for u in user], shift_uni_mesh=True)
            O2["cases"] += 1
            ch = max(float(np.abs(a - b).max()) for a, b in zip(user, before))
            if ch != 0.0: _fail(O2, "C14:unify_mesh:user-section-meshes-modified", {"num_sections": nsec, "seed": seed, "rep": rep}, max_change=ch)
            else: O2["ok"] += 1
            R.mark("c14join", nsec, rep)
