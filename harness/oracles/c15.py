"""Implementation-only oracles for C15."""
import numpy as np
from .. import core, gen


def _fail(O, key, desc, **kw):
    O["failures"].append(dict(key=key, case=desc, **kw))


def oracle_ks(R, tier, seed):
    from openaerostruct.structures.failure_ks import FailureKS
    from openaerostruct.structures.failure_exact import FailureExact
    O = R.oracle("FailureKS.bounds")
    rng = gen.stable_rng(seed, "c15_ks")
    nys = (2, 3, 5, 9) if tier == "quick" else (2, 3, 4, 5, 7, 9, 13, 25)
    reps = 6 if tier == "quick" else 30
    for ny in nys:
        for model, ncrit in (("tube", 2), ("wingbox", 4)):
            mesh = gen.rand_mesh(rng, 2, ny, "left")
            surf = gen.tube_surface(mesh) if model == "tube" else gen.wingbox_surface(mesh)
            sigma = surf["yield"]
            for rep in range(reps):
                rho = float(rng.choice([100.0, 50.0, 10.0, 500.0]))
                mag = 10 ** rng.uniform(0, 12)
                vm = rng.uniform(0, 1, (ny - 1, ncrit)) * mag
                if rep == 0: vm[:] = 0
                if rep == 1: vm[:] = 1e12
                o, _, _ = core.run_comp(FailureKS(surface=surf, rho=rho), {"vonmises": vm}, want_J=False)
                ks = float(o["failure"].ravel()[0])
                oe, _, _ = core.run_comp(FailureExact(surface=surf), {"vonmises": vm}, want_J=False)
                fe = oe["failure"]
                fmax = float(np.max(vm / sigma - 1))
                N = vm.size
                desc = {"ny": ny, "model": model, "rho": rho, "magnitude": mag, "rep": rep, "seed": seed}
                O["cases"] += 1
                tol = 1e-12 * max(1.0, abs(fmax))
                bad = None
                if not np.isfinite(ks): bad = "non-finite"
                elif ks < fmax - tol: bad = "below-max"
                elif ks > fmax + np.log(N) / rho + tol: bad = "above-max-plus-lnN-over-rho"
                elif np.max(np.abs(fe - (vm / sigma - 1))) > 1e-12 * max(1.0, abs(fmax)): bad = "exact-def"
                if bad:
                    _fail(O, "C15:FailureKS:" + bad, desc, ks=ks, fmax=fmax, N=N, vonmises=vm.tolist())
                else:
                    O["ok"] += 1
                R.mark("c15ks", ny, model, rep)


def oracle_vonmises(R, tier, seed):
    from openaerostruct.structures.vonmises_tube import VonMisesTube
    from openaerostruct.structures.vonmises_wingbox import VonMisesWingbox
    O1 = R.oracle("VonMisesTube.physics"); O2 = R.oracle("VonMisesWingbox.physics")
    rng = gen.stable_rng(seed, "c15_vm")
    nys = (2, 3, 5) if tier == "quick" else (2, 3, 4, 5, 7, 9, 13)
    reps = 2 if tier == "quick" else 6
    for kind in ("left", "right", "full"):
        for ny in nys:
            if kind == "full" and ny % 2 == 0:
                continue
            for rep in range(reps):
                mesh = gen.rand_mesh(rng, 2, ny, kind)
                nodes = 0.65 * mesh[0] + 0.35 * mesh[-1]
                surf = gen.tube_surface(mesh, symmetry=(kind != "full"))
                wsurf = gen.wingbox_surface(mesh, symmetry=(kind != "full"))
                radius = rng.uniform(0.02, 0.4, ny - 1)
                wins = {}
                for k, lo, hi in (("Qz", 1e-4, 1e-2), ("J", 1e-4, 1e-2), ("A_enc", 0.05, 0.5), ("spar_thickness", 0.002, 0.02),
                                  ("htop", 0.05, 0.3), ("hbottom", 0.05, 0.3), ("hfront", 0.1, 0.6), ("hrear", 0.1, 0.6)):
                    wins[k] = rng.uniform(lo, hi, ny - 1)
                E, G = surf["E"], surf["G"]

                def tube(disp):
                    o, _, _ = core.run_comp(VonMisesTube(surface=surf), {"nodes": nodes, "radius": radius, "disp": disp}, want_J=False)
                    return o["vonmises"]

                def wbox(disp):
                    o, _, _ = core.run_comp(VonMisesWingbox(surface=wsurf), dict(wins, nodes=nodes, disp=disp), want_J=False)
                    return o["vonmises"]
                desc = {"kind": kind, "ny": ny, "rep": rep, "seed": seed}
                disp = rng.normal(size=(ny, 6)) * 1e-2
                vt, vw = tube(disp), wbox(disp)
                sc_t, sc_w = max(np.abs(vt).max(), 1.0), max(np.abs(vw).max(), 1.0)
                # rigid translation + linearised rotation
                t = rng.normal(size=3); th = rng.normal(size=3) * 1e-2; x0 = rng.normal(size=3)
                rig = np.zeros((ny, 6)); rig[:, :3] = t + np.cross(th, nodes - x0); rig[:, 3:] = th
                c = float(rng.uniform(0.1, 10))
                for (name, O, f, v, sc) in (("VonMisesTube", O1, tube, vt, sc_t), ("VonMisesWingbox", O2, wbox, vw, sc_w)):
                    O["cases"] += 1
                    bad = {}
                    if v.min() < 0: bad["negative"] = float(v.min())
                    vr = f(rig)
                    # scale: stresses produced by a unit-strain field of the same displacement magnitude
                    if np.abs(vr).max() > 1e-7 * sc * max(1.0, np.abs(rig).max() / 1e-2): bad["rigid-motion-nonzero"] = float(np.abs(vr).max() / sc)
                    vc = f(c * disp)
                    if np.abs(vc - c * v).max() > 1e-9 * c * sc: bad["not-homogeneous"] = float(np.abs(vc - c * v).max() / (c * sc))
                    vn = f(-disp)
                    ref = v[:, ::-1] if name == "VonMisesTube" else v
                    if np.abs(vn - ref).max() > 1e-9 * sc: bad["reversal"] = float(np.abs(vn - ref).max() / sc)
                    if bad:
                        _fail(O, "C15:%s:%s" % (name, sorted(bad)[0]), desc, errors=bad, nodes=nodes.tolist(), disp=disp.tolist())
                    else:
                        O["ok"] += 1
                # closed forms on the tube: straight beam along y, element e
                L = np.linalg.norm(nodes[1] - nodes[0]); xl = (nodes[1] - nodes[0]) / L
                yl = np.cross(xl, [1, 0, 0]); yl /= np.linalg.norm(yl); zl = np.cross(xl, yl)
                O1["cases"] += 1
                bad = {}
                du, dth, db = 1e-3, 2e-3, 3e-3
                d = np.zeros((ny, 6)); d[1:, :3] = du * xl          # pure axial in element 0
                v = tube(d)[0]
                if abs(v[0] - E * du / L) > 1e-9 * E * du / L or abs(v[1] - E * du / L) > 1e-9 * E * du / L: bad["axial"] = v.tolist()
                d = np.zeros((ny, 6)); d[1:, 3:] = dth * xl
                v = tube(d)[0]; ref = np.sqrt(3) * G * radius[0] * dth / L
                if abs(v[0] - ref) > 1e-9 * ref: bad["torsion"] = [float(v[0]), ref]
                d = np.zeros((ny, 6)); d[1:, 3:] = db * yl
                v = tube(d)[0]; ref = E * radius[0] * db / L
                if abs(v[0] - ref) > 1e-9 * ref: bad["bending"] = [float(v[0]), ref]
                if bad:
                    _fail(O1, "C15:VonMisesTube:closed-form-" + sorted(bad)[0], desc, errors=bad, nodes=nodes.tolist())
                else:
                    O1["ok"] += 1
                R.mark("c15vm", kind, ny, rep)


def _wingbox_closed_form(nodes, disp, E, G, tssf, w):
    """von Mises stresses at the four stress points of every wing-box element, written from beam theory: axial strain,
    Hermite-cubic curvature at the element's second node, Bredt torsion shear, VQ/(2 I t) transverse shear expressed
    through the third derivative of the Hermite cubic; the upper-skin points (0, 3) are measured against an allowable
    scaled by tssf, i.e. the whole von Mises value is divided by it."""
    ne = nodes.shape[0] - 1
    out = np.zeros((ne, 4))
    for e in range(ne):
        P0, P1 = nodes[e], nodes[e + 1]
        L = np.linalg.norm(P1 - P0); x = (P1 - P0) / L
        y = np.cross(x, [1.0, 0, 0]); y /= np.linalg.norm(y); z = np.cross(x, y); z /= np.linalg.norm(z)
        u0, u1, r0, r1 = disp[e, :3], disp[e + 1, :3], disp[e, 3:], disp[e + 1, 3:]
        axial = E * (u1 @ x - u0 @ x) / L
        tau_t = G * w["J"][e] * (r1 @ x - r0 @ x) / L / (2 * w["spar_thickness"][e] * w["A_enc"][e])
        # curvature at xi = 1 of the Hermite cubic through (v0, th0, v1, th1): (6 v0 + 2 th0 L - 6 v1 + 4 th1 L) / L^2
        kz = (6 * (u0 @ y) + 2 * (r0 @ z) * L - 6 * (u1 @ y) + 4 * (r1 @ z) * L) / L ** 2        # bending in the local x-y plane
        ky = (-6 * (u0 @ z) + 2 * (r0 @ y) * L + 6 * (u1 @ z) + 4 * (r1 @ y) * L) / L ** 2       # bending in the local x-z plane
        top, bottom = E * kz * w["htop"][e], -E * kz * w["hbottom"][e]
        front, rear = -E * ky * w["hfront"][e], E * ky * w["hrear"][e]
        v3 = (-12 * (u0 @ y) - 6 * (r0 @ z) * L + 12 * (u1 @ y) - 6 * (r1 @ z) * L) / L ** 3     # third derivative (constant)
        tau_v = E * v3 * w["Qz"][e] / (2 * w["spar_thickness"][e])
        out[e, 0] = np.sqrt((top + rear + axial) ** 2 + 3 * tau_t ** 2) / tssf
        out[e, 1] = np.sqrt((bottom + front + axial) ** 2 + 3 * tau_t ** 2)
        out[e, 2] = np.sqrt((front + axial) ** 2 + 3 * (tau_t - tau_v) ** 2)
        out[e, 3] = np.sqrt((rear + axial) ** 2 + 3 * (tau_t + tau_v) ** 2) / tssf
    return out


def oracle_wingbox_closed_form(R, tier, seed):
    """VonMisesWingbox and FailureExact against the closed form above, for upper-skin strength factors other than 1,
    swept / dihedral / right-hand / full-span beams, general displacement fields and the pure load cases"""
    from openaerostruct.structures.vonmises_wingbox import VonMisesWingbox
    from openaerostruct.structures.failure_exact import FailureExact
    O = R.oracle("VonMisesWingbox.closed-form")
    rng = gen.stable_rng(seed, "c15_wbcf")
    for kind in ("left", "right", "full"):
        for ny in ((2, 4) if tier == "quick" else (2, 3, 4, 6)):
            if kind == "full" and ny % 2 == 0: ny += 1
            for tssf in (1.0, 0.8, 1.3):
                mesh = gen.rand_mesh(rng, 2, ny, kind)
                nodes = 0.6 * mesh[0] + 0.4 * mesh[-1]
                wsurf = gen.wingbox_surface(mesh, symmetry=(kind != "full"), strength_factor_for_upper_skin=tssf, exact_failure_constraint=True)
                w = {}
                for k, lo, hi in (("Qz", 1e-4, 1e-2), ("J", 1e-4, 1e-2), ("A_enc", 0.05, 0.5), ("spar_thickness", 0.002, 0.02),
                                  ("htop", 0.05, 0.3), ("hbottom", 0.05, 0.3), ("hfront", 0.1, 0.6), ("hrear", 0.1, 0.6)):
                    w[k] = rng.uniform(lo, hi, ny - 1)
                E, G, sig = wsurf["E"], wsurf["G"], wsurf["yield"]
                x = (nodes[1] - nodes[0]) / np.linalg.norm(nodes[1] - nodes[0])
                fields = {"general": rng.normal(size=(ny, 6)) * 1e-2}
                d = np.zeros((ny, 6)); d[1:, 3:] = 2e-3 * x; fields["pure-torsion-of-element-0"] = d
                d = np.zeros((ny, 6)); d[1:, :3] = 1e-3 * x; fields["pure-axial-of-element-0"] = d
                for fname, disp in fields.items():
                    o, _, _ = core.run_comp(VonMisesWingbox(surface=wsurf), dict(w, nodes=nodes, disp=disp), want_J=False)
                    vm = o["vonmises"]
                    ref = _wingbox_closed_form(nodes, disp, E, G, tssf, w)
                    o2, _, _ = core.run_comp(FailureExact(surface=wsurf), {"vonmises": vm}, want_J=False)
                    fail = o2["failure"]
                    sc = max(np.abs(ref).max(), 1.0)
                    bad = {}
                    if np.abs(vm - ref).max() > 1e-9 * sc: bad["vonmises-vs-closed-form"] = float(np.abs(vm - ref).max() / sc)
                    if np.abs(fail - (ref / sig - 1)).max() > 1e-9 * max(sc / sig, 1.0): bad["failure-vs-stress-over-allowable"] = float(np.abs(fail - (ref / sig - 1)).max())
                    O["cases"] += 1
                    if bad:
                        _fail(O, "C15:VonMisesWingbox:%s" % sorted(bad)[0], {"kind": kind, "ny": ny, "strength_factor_for_upper_skin": tssf, "field": fname, "seed": seed},
                              errors=bad, nodes=nodes.tolist(), disp=disp.tolist(), section=core.jsonable(w))
                    else: O["ok"] += 1
                R.mark("c15wbcf", kind, ny, tssf)


def _tube_closed_form(nodes, disp, E, G, radius):
    ne = nodes.shape[0] - 1; out = np.zeros((ne, 2))
    for e in range(ne):
        P0, P1 = nodes[e], nodes[e + 1]; L = np.linalg.norm(P1 - P0); x = (P1 - P0) / L
        y = np.cross(x, [1.0, 0, 0]); y /= np.linalg.norm(y); z = np.cross(x, y); z /= np.linalg.norm(z)
        du = (disp[e + 1, :3] - disp[e, :3]) @ x; dr = disp[e + 1, 3:] - disp[e, 3:]
        bend = E * radius[e] / L * np.sqrt((dr @ y) ** 2 + (dr @ z) ** 2); tau = G * radius[e] * (dr @ x) / L
        out[e, 0] = np.sqrt((E * du / L + bend) ** 2 + 3 * tau ** 2); out[e, 1] = np.sqrt((-E * du / L + bend) ** 2 + 3 * tau ** 2)
    return out


def oracle_two_surface_aerostruct(R, tier, seed):
    """converged AerostructPoint with two surfaces of different material and failure aggregation: each surface's von Mises
    stresses are those of ITS OWN E, G and section, and its failure measure is built on ITS OWN allowable and option"""
    from .. import structs
    O = R.oracle("AerostructPoint(two surfaces).per-surface-stress-and-failure")
    p, surfs = structs.two_surface_aerostruct(seed)
    for s in surfs:
        n = s["name"]
        nodes = structs.g(p, n + ".nodes"); disp = structs.g(p, "AS_point_0.coupled.%s.disp" % n); radius = structs.g(p, n + ".radius")
        vm = structs.g(p, "AS_point_0.%s_perf.vonmises" % n); fail = structs.g(p, "AS_point_0.%s_perf.failure" % n)
        ref = _tube_closed_form(nodes, disp, s["E"], s["G"], radius)
        bad = {}
        sc = max(np.abs(ref).max(), 1.0)
        if np.abs(vm - ref).max() > 1e-9 * sc: bad["vonmises-vs-own-closed-form"] = float(np.abs(vm - ref).max() / sc)
        f_el = ref / s["yield"] - 1
        if s["exact_failure_constraint"]:
            if fail.shape != f_el.shape or np.abs(fail - f_el).max() > 1e-9 * max(np.abs(f_el).max(), 1.0): bad["exact-failure-vs-stress-over-own-allowable"] = [list(fail.shape), float(np.max(fail))]
        else:
            fm = float(f_el.max()); N = f_el.size; rho = 100.0
            if fail.size != 1 or not (fm - 1e-9 <= float(np.ravel(fail)[0]) <= fm + np.log(N) / rho + 1e-9): bad["KS-failure-outside-its-bounds"] = [float(np.ravel(fail)[0]), fm, fm + np.log(N) / rho]
        O["cases"] += 1
        if bad: _fail(O, "C15:AerostructPoint(two surfaces):%s-%s" % (n, sorted(bad)[0]), {"surface": n, "E": s["E"], "G": s["G"], "yield": s["yield"], "exact": s["exact_failure_constraint"], "seed": seed}, errors=bad)
        else: O["ok"] += 1
    R.mark("c15two", seed)
