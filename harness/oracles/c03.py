"""Implementation-only oracle for C03: operation histories on one live Problem versus a freshly built Problem
evaluated once at the final point.  Observed: every output of the model, every sub-Jacobian stored by every component
after linearisation, and total derivatives."""
import warnings, io, contextlib
import numpy as np
import openmdao.api as om
from .. import core, gen, aero, structs

KEY_F02 = "C03:MomentCoefficient.compute_partials:dimensional-moment-partials-accumulate"


def _quiet(fn, *a, **k):
    with warnings.catch_warnings():
        warnings.simplefilter("ignore")
        with contextlib.redirect_stdout(io.StringIO()):
            return fn(*a, **k)


def _mesh(ny=5, nx=2, span=10.0, chord=1.0, sym=True, sweep=0.2, x0=0.0, z0=0.0):
    y = np.linspace(-span / 2, 0.0, ny) if sym else np.linspace(-span / 2, span / 2, 2 * (ny // 2) + 1)
    m = np.zeros((nx, len(y), 3))
    for i in range(nx):
        m[i, :, 0] = x0 + chord * i / (nx - 1) + sweep * np.abs(y)
        m[i, :, 1] = y
        m[i, :, 2] = z0 + 0.02 * np.abs(y)
    return m


def factories(tier):
    """name -> (build() -> prob, points: list of dicts name->value, of, wrt, coupled?)"""
    F = {}

    def aero_two():
        s1 = aero.aero_surface(_mesh(5, 3), "wing", True, with_viscous=True, with_wave=True, k_lam=0.05)
        s2 = aero.aero_surface(_mesh(3, 2, span=4.0, chord=0.6, sym=False, x0=6.0, z0=0.5), "tail", False, with_viscous=True)
        return aero.build_aero([s1, s2], geom=False)
    F["aero-two-surfaces-viscous-wave"] = (aero_two, [{"alpha": 2.0, "Mach_number": 0.6, "v": 200.0}, {"alpha": 6.0, "Mach_number": 0.86, "v": 260.0}, {"alpha": -1.0, "Mach_number": 0.3, "v": 100.0, "cg": np.array([0.3, 0.0, 0.1])}],
                                           ["aero.CL", "aero.CD", "aero.CM"], ["alpha", "Mach_number", "v", "cg"], False)

    def aero_comp_ground():
        s1 = aero.aero_surface(_mesh(5, 2, z0=0.0), "wing", True, with_viscous=True, groundplane=True)
        return aero.build_aero([s1], geom=False, height_agl=20.0)
    F["aero-ground-effect"] = (aero_comp_ground, [{"alpha": 2.0, "height_agl": 20.0}, {"alpha": 5.0, "height_agl": 3.0}, {"alpha": 0.5, "height_agl": 200.0}],
                               ["aero.CL", "aero.CD"], ["alpha", "height_agl"], False)

    def aero_compressible():
        s1 = aero.aero_surface(_mesh(5, 2), "wing", True, with_viscous=True, with_wave=True)
        return aero.build_aero([s1], geom=False, compressible=True)
    F["aero-compressible"] = (aero_compressible, [{"alpha": 2.0, "Mach_number": 0.5}, {"alpha": 4.0, "Mach_number": 0.8}, {"alpha": 1.0, "Mach_number": 0.2}],
                              ["aero.CL", "aero.CD", "aero.CM"], ["alpha", "Mach_number"], False)

    def crm():
        from openaerostruct.geometry.utils import generate_mesh
        with warnings.catch_warnings():
            warnings.simplefilter("ignore")
            mesh, twist = generate_mesh({"num_y": 5, "num_x": 2, "wing_type": "CRM", "symmetry": True, "num_twist_cp": 3})
        return mesh
    common = dict(with_viscous=True, t_over_c_cp=np.array([0.12, 0.12]), twist_cp=np.array([2.0, 2.0]))

    def as_tube():
        s = gen.tube_surface(crm(), symmetry=True, name="wing", struct_weight_relief=True, with_wave=False, thickness_cp=np.array([0.05, 0.05, 0.05]), **common)
        return structs.build_aerostruct([s], Mach=0.84, alpha=2.0)
    F["aerostruct-tube-weight-relief"] = (as_tube, [{"alpha": 2.0, "load_factor": 1.0}, {"alpha": 4.0, "load_factor": 2.5}, {"alpha": 3.0, "load_factor": 1.0, "Mach_number": 0.7}],
                                          ["AS_point_0.fuelburn", "AS_point_0.CM", "AS_point_0.wing_perf.failure", "AS_point_0.L_equals_W"], ["alpha", "load_factor", "wing.thickness_cp"], True)

    def as_wingbox():
        s = gen.wingbox_surface(crm(), symmetry=True, name="wing", struct_weight_relief=True, distributed_fuel_weight=True, with_wave=True,
                                spar_thickness_cp=np.array([0.006, 0.006]), skin_thickness_cp=np.array([0.012, 0.012]), **common)
        return structs.build_aerostruct([s], Mach=0.85, v=0.85 * 295.07, alpha=1.0, rho=0.348, CT=0.53 / 3600, R=14.307e6, W0=148000 + 15000, a=295.07)
    F["aerostruct-wingbox-fuel-wave"] = (as_wingbox, [{"alpha": 1.0, "fuel_mass": 10000.0}, {"alpha": 2.0, "fuel_mass": 3000.0}, {"alpha": 0.5, "fuel_mass": 15000.0, "Mach_number": 0.8}],
                                         ["AS_point_0.fuelburn", "AS_point_0.CM", "AS_point_0.wing_perf.failure"], ["alpha", "fuel_mass", "wing.spar_thickness_cp"], True)
    return F


def snapshot(prob, of, wrt):
    outs = {}
    for name, meta in prob.model.list_outputs(out_stream=None, val=True, prom_name=False):
        outs[name] = np.array(meta["val"], dtype=float).copy()
    jacs = {}
    for sysm in prob.model.system_iter(recurse=True):
        J = getattr(sysm, "_jacobian", None)
        if J is None or not isinstance(sysm, (om.ExplicitComponent, om.ImplicitComponent)):
            continue
        try:
            keys = list(J.keys())
        except Exception:
            continue
        for k in keys:
            try:
                v = J[k]
                v = v.toarray() if hasattr(v, "toarray") else np.asarray(v)
                jacs[(type(sysm).__name__, sysm.pathname, k[0].split(".")[-1], k[1].split(".")[-1])] = np.array(v, dtype=float).copy()
            except Exception:
                pass
    tot = _quiet(prob.compute_totals, of=of, wrt=wrt)
    return outs, jacs, {k: np.array(v).copy() for k, v in tot.items()}


def apply_history(prob, hist, points):
    for op in hist:
        if op[0] == "set":
            for k, v in points[op[1]].items():
                prob.set_val(k, v)
        elif op[0] == "run":
            _quiet(prob.run_model)
        elif op[0] == "lin":
            _quiet(prob.model.run_linearize)
        elif op[0] == "totals":
            _quiet(prob.compute_totals, of=op[1], wrt=op[2])


def relerr(a, b, floor=0.0):
    a = np.asarray(a, dtype=float); b = np.asarray(b, dtype=float)
    if a.shape != b.shape:
        return float("inf")
    if a.size == 0:
        return 0.0
    return float(np.abs(a - b).max() / (max(np.abs(a).max(), np.abs(b).max()) + floor + 1e-300))


def scale(d):
    return max([float(np.abs(v).max()) for v in d.values() if np.size(v)] + [0.0])


def complete(points, build):
    """every point sets the same variables (missing ones take the model's initial value)"""
    keys = sorted({k for p in points for k in p})
    base = build()
    _quiet(base.final_setup)
    dflt = {k: np.array(base.get_val(k)).copy() for k in keys}
    return [{k: np.array(p.get(k, dflt[k]), dtype=float) for k in keys} for p in points]


def oracle_histories(R, tier, seed):
    rng = gen.stable_rng(seed, "c03hist")
    nh = 2 if tier == "quick" else 6
    for name, (build, points, of, wrt, coupled) in factories(tier).items():
        points = complete(points, build)
        O = R.oracle("live-vs-fresh." + name)
        tol_out = 1e-5 if coupled else 1e-10
        tol_jac = 1e-4 if coupled else 1e-9
        for h in range(nh):
            final = int(rng.integers(0, len(points)))
            L = int(rng.integers(2, 5 if tier == "quick" else 9))
            hist = []
            for _ in range(L):
                hist.append(("set", int(rng.integers(0, len(points)))))
                hist.append(("run",))
                # two kinds of histories: linearisation-only ones (stored sub-Jacobians are compared) and ones that use
                # compute_totals (totals are compared; OpenMDAO's relevance reduction then legitimately skips partials
                # that no requested total needs, so stored partials are not comparable there)
                for _ in range(int(rng.integers(0, 3))):
                    hist.append(("lin",) if h % 2 == 0 else ("totals", of, wrt))
            tail = [("set", final), ("run",), ("lin",)] + ([("lin",)] if h % 4 == 0 else [])
            live = build(); apply_history(live, hist + tail, points)
            fresh = build(); apply_history(fresh, [("set", final), ("run",), ("lin",)], points)
            so, sj, st = snapshot(live, of, wrt); fo, fj, ft = snapshot(fresh, of, wrt)
            O["cases"] += 1
            bad_out = {k: relerr(so[k], fo[k]) for k in fo if relerr(so.get(k, np.nan), fo[k]) > tol_out}
            bad_jac = {k: relerr(sj[k], fj[k]) for k in fj if k in sj and relerr(sj[k], fj[k]) > tol_jac} if h % 2 == 0 else {}
            # entries that are zero up to round-off (1e-16 next to totals of order 1e5) are not compared relatively
            ftot = 1e-10 * scale(ft)
            bad_tot = {k: relerr(st[k], ft[k], ftot) for k in ft if relerr(st[k], ft[k], ftot) > tol_jac}
            desc = {"model": name, "history": [list(map(str, op[:2])) for op in hist + tail], "final_point": {k: np.asarray(v).tolist() for k, v in points[final].items()}, "seed": seed}
            worst = max([0.0] + list(bad_out.values()) + list(bad_jac.values()) + list(bad_tot.values()))
            O["worst"] = max(O["worst"], min(worst, 1e300))
            if not (bad_out or bad_jac or bad_tot):
                O["ok"] += 1
                continue
            # classify: sub-Jacobians by component class and output name
            comps = sorted({(k[0], k[2]) for k in bad_jac})
            explained_by_F02 = bool(comps) and all(c == ("MomentCoefficient", "M") for c in comps) and not bad_out and \
                all(str(k[0]).endswith(".M") or str(k[0]).endswith("M") for k in bad_tot)
            if explained_by_F02:
                key = KEY_F02
            elif comps:
                key = "C03:%s.compute_partials:stored-partials-of-%s-depend-on-history" % comps[0]
            elif bad_out:
                key = "C03:%s:outputs-depend-on-history" % name
            else:
                key = "C03:%s:totals-depend-on-history" % name
            O["failures"].append({"key": key, "case": desc, "outputs": {k: v for k, v in list(bad_out.items())[:5]},
                                  "sub_jacobians": {"%s %s d%s/d%s" % k: v for k, v in list(bad_jac.items())[:8]}, "totals": {str(k): v for k, v in list(bad_tot.items())[:5]}})
        R.mark("c03", name)


def oracle_component_repeat(R, tier, seed):
    """component level: linearise the same one-component problem 1, 2, 3 times and after visiting another point"""
    from ..streams import jac_functionals  # noqa: F401  (generators live with the streams)
    from openaerostruct.functionals.moment_coefficient import MomentCoefficient
    from openaerostruct.aerodynamics.viscous_drag import ViscousDrag
    from openaerostruct.aerodynamics.wave_drag import WaveDrag
    from openaerostruct.transfer.load_transfer import LoadTransfer
    from openaerostruct.aerodynamics.geometry import VLMGeometry
    from openaerostruct.structures.vonmises_tube import VonMisesTube
    from openaerostruct.structures.wing_weight_loads import StructureWeightLoads
    import openaerostruct.geometry.geometry_mesh_transformations as T
    rng = gen.stable_rng(seed, "c03comp")
    O = R.oracle("component-repeated-linearize")
    nx, ny = 3, 5
    mesh = gen.rand_mesh(rng, nx, ny, "left")
    surf = gen.tube_surface(mesh, symmetry=True, with_viscous=True, with_wave=True)

    def draw(shape, lo=0.5, hi=2.0):
        return rng.uniform(lo, hi, shape)
    cases = [
        ("MomentCoefficient", lambda: MomentCoefficient(surfaces=[{"name": "w", "mesh": mesh, "symmetry": True}]),
         lambda: {"w_b_pts": rng.normal(size=(nx - 1, ny, 3)), "w_widths": draw(ny - 1), "w_chords": draw(ny), "w_S_ref": 10.0, "w_sec_forces": rng.normal(size=(nx - 1, ny - 1, 3)) * 100,
                  "cg": rng.normal(size=3), "v": 100.0, "rho": 1.0, "S_ref_total": 10.0}),
        ("ViscousDrag", lambda: ViscousDrag(surface=surf, with_viscous=True),
         lambda: {"re": 1e6 * draw(()), "Mach_number": 0.5 * draw(()), "S_ref": 20.0, "widths": draw(ny - 1), "lengths_spanwise": draw(ny - 1, 2.0, 2.5), "lengths": draw(ny), "t_over_c": draw(ny - 1, 0.05, 0.15)}),
        ("WaveDrag", lambda: WaveDrag(surface=surf),
         lambda: {"Mach_number": float(rng.choice([0.5, 0.95])), "CL": 0.5, "widths": draw(ny - 1), "lengths_spanwise": draw(ny - 1, 2.0, 2.5), "chords": draw(ny), "t_over_c": draw(ny - 1, 0.05, 0.1)}),
        ("LoadTransfer", lambda: LoadTransfer(surface=surf), lambda: {"def_mesh": mesh + rng.normal(size=mesh.shape) * 0.01, "sec_forces": rng.normal(size=(nx - 1, ny - 1, 3)) * 100}),
        ("VLMGeometry", lambda: VLMGeometry(surface=surf), lambda: {"def_mesh": mesh + rng.normal(size=mesh.shape) * 0.01}),
        ("VonMisesTube", lambda: VonMisesTube(surface=surf), lambda: {"nodes": 0.65 * mesh[0] + 0.35 * mesh[-1], "radius": draw(ny - 1, 0.05, 0.2), "disp": rng.normal(size=(ny, 6)) * 0.01}),
        ("StructureWeightLoads", lambda: StructureWeightLoads(surface=surf), lambda: {"element_mass": draw(ny - 1, 5, 50), "nodes": 0.65 * mesh[0] + 0.35 * mesh[-1] + rng.normal(size=(ny, 3)) * 0.01, "load_factor": float(draw((), 1, 2.5))}),
        ("Rotate", lambda: T.Rotate(val=np.zeros(ny), mesh_shape=mesh.shape, symmetry=True), lambda: {"in_mesh": mesh + rng.normal(size=mesh.shape) * 0.01, "twist": rng.uniform(-5, 5, ny)}),
        ("ScaleX", lambda: T.ScaleX(val=np.ones(ny), mesh_shape=mesh.shape), lambda: {"in_mesh": mesh + rng.normal(size=mesh.shape) * 0.01, "chord": draw(ny)}),
        # documented option values other than the defaults take other branches of compute_partials
        ("Rotate(rotate_x=False)", lambda: T.Rotate(val=np.zeros(ny), mesh_shape=mesh.shape, symmetry=True, rotate_x=False), lambda: {"in_mesh": mesh + rng.normal(size=mesh.shape) * 0.01, "twist": rng.uniform(-5, 5, ny)}),
        ("Rotate(full span)", lambda: T.Rotate(val=np.zeros(ny), mesh_shape=mesh.shape, symmetry=False), lambda: {"in_mesh": mesh + rng.normal(size=mesh.shape) * 0.01, "twist": rng.uniform(-5, 5, ny)}),
        ("Taper(full span)", lambda: T.Taper(val=1.0, mesh=mesh, symmetry=False), lambda: {"taper": float(rng.uniform(0.3, 1.2))}),
        ("Sweep(full span)", lambda: T.Sweep(val=0.0, mesh_shape=mesh.shape, symmetry=False), lambda: {"in_mesh": mesh + rng.normal(size=mesh.shape) * 0.01, "sweep": float(rng.uniform(-10, 30))}),
    ]
    # components that sit inside the coupled loop and whose inputs move between design points: point masses / engines placed at
    # different spanwise stations in A and in B (outputs are compared as well as stored partials)
    from openaerostruct.structures.compute_point_mass_loads import ComputePointMassLoads
    from openaerostruct.structures.compute_thrust_loads import ComputeThrustLoads
    from openaerostruct.structures.fuel_loads import FuelLoads as _FuelLoads
    psurf = dict(surf, n_point_masses=2)
    nodes0 = 0.65 * mesh[0] + 0.35 * mesh[-1]

    def pm_inputs():
        ys = np.sort(rng.uniform(nodes0[:, 1].min(), nodes0[:, 1].max(), 2))
        return {"point_mass_locations": np.array([[nodes0[1, 0] + 0.4, ys[0], -0.6], [nodes0[2, 0] + 0.8, ys[1], -0.4]]), "point_masses": draw((1, 2), 200, 2000),
                "nodes": nodes0 + rng.normal(size=(ny, 3)) * 0.01, "load_factor": float(draw((), 1, 2.5))}
    cases += [
        ("ComputePointMassLoads", lambda: ComputePointMassLoads(surface=psurf), pm_inputs),
        ("ComputeThrustLoads", lambda: ComputeThrustLoads(surface=psurf), lambda: {k: v for k, v in dict(pm_inputs(), engine_thrusts=draw((1, 2), 1e4, 6e4)).items() if k not in ("point_masses", "load_factor")}),
        ("FuelLoads", lambda: _FuelLoads(surface=gen.wingbox_surface(mesh, symmetry=True)), lambda: {"fuel_vols": draw(ny - 1), "nodes": nodes0 + rng.normal(size=(ny, 3)) * 0.01, "fuel_mass": float(draw((), 1e4, 5e4)), "load_factor": float(draw((), 1, 2.5))}),
    ]
    from openaerostruct.common.atmos_comp import AtmosComp
    # the atmosphere at ONE altitude and two Mach numbers (a Mach sweep at fixed altitude): a seeded change that skipped the
    # table look-ups - and, by an indentation slip, the speed - when the altitude had not changed was only seen as a broken
    # proof obligation without this case
    cases.append(("AtmosComp", lambda: AtmosComp(), lambda: {"altitude": 10668.0, "Mach_number": float(rng.uniform(0.2, 0.9))}))
    for cname, mk, ins in cases:
        A, B = ins(), ins()

        def prob_at(seq):
            p = om.Problem(reports=False); p.model.add_subsystem("c", mk(), promotes=["*"]); _quiet(p.setup)
            J = None
            for step in seq:
                if isinstance(step, dict):
                    for k, v in step.items(): p.set_val(k, v)
                    _quiet(p.run_model)
                else:
                    _quiet(p.model.run_linearize)
            comp = p.model.c
            out = {}
            for n in comp._var_rel_names["output"]:
                out[("output", n)] = np.array(p.get_val(n), dtype=float).copy()
            for k in comp._jacobian.keys():
                v = comp._jacobian[k]; v = v.toarray() if hasattr(v, "toarray") else np.asarray(v)
                out[(k[0].split(".")[-1], k[1].split(".")[-1])] = np.array(v, dtype=float).copy()
            return out
        fresh = prob_at([B, "lin"])
        for label, seq in (("linearize-twice", [B, "lin", "lin"]), ("linearize-three-times", [B, "lin", "lin", "lin"]), ("after-another-point", [A, "lin", B, "lin"]), ("after-another-point-twice", [A, "lin", "lin", B, "lin"])):
            live = prob_at(seq)
            O["cases"] += 1
            bad = {k: relerr(live[k], fresh[k]) for k in fresh if relerr(live[k], fresh[k]) > 1e-12}
            if not bad:
                O["ok"] += 1; continue
            if any(k[0] == "output" for k in bad):
                O["failures"].append({"key": "C03:%s.compute:outputs-depend-on-history" % cname, "case": {"component": cname, "history": label, "point": {k: np.asarray(v).tolist() for k, v in B.items()},
                                      "previous_point": {k: np.asarray(v).tolist() for k, v in A.items()}}, "outputs": {k[1]: v for k, v in bad.items() if k[0] == "output"}})
                continue
            ofs = sorted({k[0] for k in bad})
            key = KEY_F02 if cname == "MomentCoefficient" and ofs == ["M"] else "C03:%s.compute_partials:stored-partials-of-%s-depend-on-history" % (cname, ofs[0])
            O["failures"].append({"key": key, "case": {"component": cname, "history": label, "point": {k: np.asarray(v).tolist() for k, v in B.items()}},
                                  "sub_jacobians": {"d%s/d%s" % k: v for k, v in bad.items()}})
        R.mark("c03c", cname)
    # re-running compute without a data transfer (what OpenMDAO's cs / fd approximation schemes and solvers do) must
    # neither change the inputs nor the outputs
    from openaerostruct.structures.wingbox_fuel_vol_delta import WingboxFuelVolDelta
    from openaerostruct.structures.fuel_loads import FuelLoads
    wsurf = gen.wingbox_surface(mesh, symmetry=True)
    nodes = 0.65 * mesh[0] + 0.35 * mesh[-1]
    extra = [("WingboxFuelVolDelta", lambda: WingboxFuelVolDelta(surface=wsurf), {"fuelburn": 5.0e4, "fuel_vols": draw(ny - 1)}),
             ("FuelLoads", lambda: FuelLoads(surface=wsurf), {"fuel_vols": draw(ny - 1), "nodes": nodes, "fuel_mass": 2.0e4, "load_factor": 1.0})]
    for cname, mk, ins in [(c[0], c[1], c[2]()) for c in cases] + extra:
        p = om.Problem(reports=False); p.model.add_subsystem("c", mk(), promotes=["*"]); _quiet(p.setup)
        for k, v in ins.items(): p.set_val(k, v)
        _quiet(p.run_model)
        comp = p.model.c
        in0 = {k: np.array(comp._inputs[k]).copy() for k in comp._inputs.keys()} if hasattr(comp._inputs, "keys") else {}
        out0 = np.array(comp._outputs.asarray()).copy()
        _quiet(comp.run_solve_nonlinear)
        _quiet(comp.run_solve_nonlinear)
        out1 = np.array(comp._outputs.asarray()).copy()
        in1 = np.array(comp._inputs.asarray()).copy()
        O["cases"] += 1
        changed_in = relerr(in1, np.concatenate([np.ravel(v) for v in in0.values()])) if in0 else 0.0
        if changed_in > 0 or relerr(out0, out1) > 1e-13:
            key = "C03:%s.compute:%s" % (cname, "inputs-modified-in-place" if changed_in > 0 else "outputs-change-when-recomputed")
            O["failures"].append({"key": key, "case": {"component": cname, "history": "compute three times without a data transfer", "inputs": {k: np.asarray(v).tolist() for k, v in ins.items()}},
                                  "input_change": changed_in, "output_change": relerr(out0, out1)})
        else:
            O["ok"] += 1
