"""Implementation-only oracle for C08: ground effect vs an explicit image system, far-field limit, rejection."""
import numpy as np
from .. import core, gen, aero
from . import vlm_ref


def _fail(O, key, desc, **kw):
    O["failures"].append(dict(key=key, case=desc, **kw))


def _reflect(mesh, alpha_deg, h):
    a = np.deg2rad(alpha_deg)
    n = np.array([np.sin(a), 0.0, -np.cos(a)])
    v = mesh - h * n
    return mesh - 2 * (v @ n)[..., None] * n


def oracle_images(R, tier, seed):
    O1 = R.oracle("AeroPoint(groundplane).vs-explicit-images"); O2 = R.oracle("AeroPoint(groundplane).far-field-limit")
    rng = gen.stable_rng(seed, "c08")
    n = 4 if tier == "quick" else 16
    for it in range(n):
        nsurf = 1 if it % 2 == 0 else 2
        halves = []
        for si in range(nsurf):
            kind = "left" if (it + si) % 3 else "right"
            nx, ny = [(2, 3), (3, 3), (2, 4)][int(rng.integers(0, 3))]
            m = gen.rand_mesh(rng, nx, ny, kind, offset=False) + np.array([4.0 * si, 0.0, 0.5 * si])
            halves.append(m)
        alpha = float(rng.uniform(-3, 12)); v = float(rng.uniform(30, 200)); rho = float(rng.uniform(0.5, 1.2))
        span = max(np.abs(m[:, :, 1]).max() for m in halves) * 2
        h = float(span * 10 ** rng.uniform(-1.2, 0.5))
        # keep the geometry above the plane
        zmin = min((m @ np.array([-np.sin(np.deg2rad(alpha)), 0, np.cos(np.deg2rad(alpha))])).min() for m in halves)
        h = max(h, -zmin + 0.05 * span) if zmin < 0 else h
        surfs = [aero.aero_surface(m, name="s%d" % i, symmetry=True, groundplane=True) for i, m in enumerate(halves)]
        p = aero.run(aero.build_aero(surfs, v=v, alpha=alpha, rho=rho, height_agl=h, Mach=0.3))
        full = [vlm_ref.mirror_full(m) for m in halves]
        imgs = [(_reflect(fm, alpha, h), i) for i, fm in enumerate(full)]
        ref = vlm_ref.solve(full, alpha, 0.0, v, rho, images=imgs)
        free = vlm_ref.solve(full, alpha, 0.0, v, rho)
        desc = {"nsurf": nsurf, "shapes": [list(m.shape[:2]) for m in halves], "alpha": alpha, "height_agl": h, "span": span, "seed": seed, "it": it}
        bad = {}
        for i, m in enumerate(halves):
            ny = m.shape[1]; left = abs(m[0, 0, 1]) > abs(m[0, -1, 1])
            F = aero.g(p, "aero.aero_states.s%d_sec_forces" % i)
            Fr = ref["forces"][i][:, :ny - 1] if left else ref["forces"][i][:, ny - 1:]
            e = float(np.abs(F - Fr).max() / np.abs(Fr).max())
            if e > 1e-7: bad["sec_forces-s%d" % i] = e
        # the height is a LENGTH: the same physical height supplied in feet must give the same answer (the unit contract of the
        # input; a seeded change that dropped `units="m"` from the declaration was missed while every run supplied metres)
        if not bad:
            pf = aero.run(aero.build_aero(surfs, v=v, alpha=alpha, rho=rho, height_agl=h / 0.3048, height_units="ft", Mach=0.3))
            for i in range(len(halves)):
                F = aero.g(p, "aero.aero_states.s%d_sec_forces" % i); Ff = aero.g(pf, "aero.aero_states.s%d_sec_forces" % i)
                e = float(np.abs(F - Ff).max() / np.abs(F).max())
                if e > 1e-9: bad["height-in-feet-vs-metres-s%d" % i] = e
        O1["cases"] += 1
        if bad: _fail(O1, "C08:AeroPoint:" + ("ground-effect-differs-from-image-system" if not any(k.startswith("height-in") for k in bad) else "height-unit-not-honoured"), desc, errors=bad, meshes=[m.tolist() for m in halves])
        else: O1["ok"] += 1
        # far-field: h = 1e5 spans reproduces free air; the deviation decays monotonically with h
        devs = []
        for hh in (span * 0.5, span * 5, span * 50, span * 1e5):
            pp = aero.run(aero.build_aero(surfs, v=v, alpha=alpha, rho=rho, height_agl=hh, Mach=0.3))
            dev = 0.0
            for i, m in enumerate(halves):
                ny = m.shape[1]; left = abs(m[0, 0, 1]) > abs(m[0, -1, 1])
                Ff = free["forces"][i][:, :ny - 1] if left else free["forces"][i][:, ny - 1:]
                dev = max(dev, float(np.abs(aero.g(pp, "aero.aero_states.s%d_sec_forces" % i) - Ff).max() / np.abs(Ff).max()))
            devs.append(dev)
        O2["cases"] += 1
        if devs[-1] > 1e-8 or not all(a > b for a, b in zip(devs, devs[1:])):
            _fail(O2, "C08:AeroPoint:ground-effect-does-not-vanish-far-from-ground", desc, deviations=devs)
        else: O2["ok"] += 1
        R.mark("c08", it)


def oracle_rejection(R, tier, seed):
    O = R.oracle("groundplane-without-symmetry.rejected")
    rng = gen.stable_rng(seed, "c08rej")
    for it in range(2):
        m = gen.rand_mesh(rng, 2, 3, "full")
        s = aero.aero_surface(m, symmetry=False, groundplane=True)
        O["cases"] += 1
        try:
            aero.build_aero([s])
            _fail(O, "C08:VortexMesh.setup:ground-effect-without-symmetry-accepted", {"it": it})
        except ValueError:
            O["ok"] += 1
        except Exception as e:
            _fail(O, "C08:VortexMesh.setup:wrong-exception-class", {"it": it, "exc": type(e).__name__})
        R.mark("c08rej", it)
