"""Implementation-only oracle for C04: half-span symmetric model vs explicit full-span model."""
import numpy as np
from .. import core, gen, aero, structs
from .vlm_ref import mirror_full


def _fail(O, key, desc, **kw):
    O["failures"].append(dict(key=key, case=desc, **kw))


def _rel(a, b):
    a, b = np.asarray(a, float), np.asarray(b, float)
    return float(np.abs(a - b).max() / max(np.abs(b).max(), 1e-300))


def oracle_aero(R, tier, seed):
    O = R.oracle("AeroPoint.half-vs-full")
    rng = gen.stable_rng(seed, "c04aero")
    n = 6 if tier == "quick" else 30
    for it in range(n):
        nsurf = 1 if it % 3 else 2
        halves, kinds = [], []
        for si in range(nsurf):
            kind = "left" if rng.integers(0, 2) else "right"
            nx, ny = [(2, 3), (3, 3), (2, 4), (3, 5)][int(rng.integers(0, 4))]
            m = gen.rand_mesh(rng, nx, ny, kind, offset=False) + np.array([5.0 * si, 0.0, 0.8 * si])
            halves.append(m); kinds.append(kind)
        visc = bool(it % 2); wave = it % 3 != 1; comp = it % 4 == 3
        alpha = float(rng.uniform(-4, 10)); M = float(rng.choice([0.3, 0.8, 0.88])); v = float(rng.uniform(50, 260)); rho = float(rng.uniform(0.3, 1.2)); cg = np.array([rng.normal(), 0.0, rng.normal()])
        kw = dict(with_viscous=visc, with_wave=wave, k_lam=float(rng.choice([0.05, 0.0])), t_over_c_cp=np.array([0.12]))

        def run(meshes, sym):
            surfs = [aero.aero_surface(m, name="s%d" % i, symmetry=sym, **kw) for i, m in enumerate(meshes)]
            p = aero.run(aero.build_aero(surfs, v=v, alpha=alpha, Mach=M, rho=rho, cg=cg, compressible=comp))
            out = {k: aero.g(p, "aero." + k) for k in ("CL", "CD", "CM")}
            for i in range(len(meshes)):
                for k in ("CL", "CDi", "CDv", "CDw", "CD"):
                    out["s%d_%s" % (i, k)] = aero.g(p, "aero.s%d_perf.%s" % (i, k))
                out["s%d_S" % i] = aero.g(p, "aero.s%d.S_ref" % i)
                out["s%d_F" % i] = aero.g(p, "aero.aero_states.s%d_sec_forces" % i)
            return out
        h = run(halves, True); f = run([mirror_full(m) for m in halves], False)
        desc = {"surfaces": kinds, "shapes": [list(m.shape[:2]) for m in halves], "alpha": alpha, "Mach": M, "viscous": visc, "wave": wave, "compressible": comp, "seed": seed, "it": it}
        bad = {}; known = {}
        for k in h:
            a, b = h[k], f[k]
            if k.endswith("_F"):
                i = int(k[1]); ny = halves[i].shape[1]
                b = b[:, :ny - 1] if kinds[i] == "left" else b[:, ny - 1:]
            if k.endswith("_CDw") and float(np.abs(b).max()) > 1e-12 and abs(float(a[0]) / float(b[0]) - 2.0) < 1e-7:
                known["C04:WaveDrag.compute:symmetric-coefficient-doubled"] = {"CDw_half": float(a[0]), "CDw_full": float(b[0])}
                continue
            if (k.endswith("_CD") or k == "CD") and wave:
                # CD contains CDw: compare after removing the wave part
                continue
            e = _rel(a, b)
            if e > 1e-7 and np.abs(np.asarray(a) - np.asarray(b)).max() > 1e-12: bad[k] = e
        O["cases"] += 1
        for key, w in known.items():
            _fail(O, key, desc, witness=w)
        if bad: _fail(O, "C04:AeroPoint:%s-half-vs-full" % sorted(bad)[0].split("_")[-1], desc, errors=bad, meshes=[m.tolist() for m in halves])
        elif not known: O["ok"] += 1
        R.mark("c04a", it)


def oracle_offplane(R, tier, seed):
    """symmetric surfaces that do not touch the symmetry plane: compare with the explicit pair"""
    O = R.oracle("AeroPoint.symmetric-surface-off-plane")
    rng = gen.stable_rng(seed, "c04off")
    for it in range(2 if tier == "quick" else 8):
        nx, ny = [(2, 3), (3, 4)][it % 2]
        m = gen.rand_mesh(rng, nx, ny, "left", plain=(it % 2 == 0), offset=False)
        d = float(rng.uniform(0.3, 2.0))
        m = m - np.array([0.0, d, 0.0])                      # root edge at y = -d
        alpha = float(rng.uniform(2, 8))
        ph = aero.run(aero.build_aero([aero.aero_surface(m, name="s0", symmetry=True)], alpha=alpha, Mach=0.3))
        other = m[:, ::-1].copy(); other[:, :, 1] *= -1
        pf = aero.run(aero.build_aero([aero.aero_surface(m, name="s0", symmetry=False), aero.aero_surface(other, name="s1", symmetry=False)], alpha=alpha, Mach=0.3))
        Fh = aero.g(ph, "aero.aero_states.s0_sec_forces"); Ff = aero.g(pf, "aero.aero_states.s0_sec_forces")
        CLh = float(aero.g(ph, "aero.CL")[0]); CLf = float(aero.g(pf, "aero.CL")[0])
        O["cases"] += 1
        desc = {"nx": nx, "ny": ny, "root_offset": d, "alpha": alpha, "seed": seed, "it": it}
        if _rel(Fh, Ff) > 1e-7 or abs(CLh - CLf) > 1e-7 * abs(CLf):
            _fail(O, "C04:VortexMesh.compute:ghost-omits-root-column-off-plane", desc, witness={"CL_half_model": CLh, "CL_explicit_pair": CLf, "force_rel_err": _rel(Fh, Ff)})
        else: O["ok"] += 1
        R.mark("c04off", it)


def _mirror_loads(loads, left=True):
    other = loads[:-1][::-1].copy() if left else loads[1:][::-1].copy()
    other[:, 1] *= -1; other[:, 3] *= -1; other[:, 5] *= -1
    return np.concatenate([loads, other], axis=0) if left else np.concatenate([other, loads], axis=0)


def oracle_struct(R, tier, seed):
    O = R.oracle("SpatialBeamAlone.half-vs-full")
    rng = gen.stable_rng(seed, "c04struct")
    for it in range(4 if tier == "quick" else 16):
        model = "tube" if it % 2 == 0 else "wingbox"
        kind = "left"
        ny = int(rng.choice([3, 4, 5]))
        m = gen.rand_mesh(rng, 2, ny, kind, offset=False)
        mk = gen.tube_surface if model == "tube" else gen.wingbox_surface
        # spline control points: constant distributions, so that the half and the full wing carry the same
        # spanwise distribution (a B-spline over the full span is not the mirror image of one over the half span)
        extra = dict(struct_weight_relief=bool(it % 4 >= 2), distributed_fuel_weight=False, t_over_c_cp=np.array([0.12, 0.12]))
        if model == "tube": extra.update(thickness_cp=np.array([0.02, 0.02, 0.02]), twist_cp=np.zeros(2))
        else: extra.update(twist_cp=np.zeros(2), spar_thickness_cp=np.array([0.006, 0.006]), skin_thickness_cp=np.array([0.01, 0.01]))
        sh = mk(m, symmetry=True, **extra); sf = mk(mirror_full(m), symmetry=False, **extra)
        loads = rng.normal(size=(ny, 6)) * np.array([1e3, 1e3, 1e4, 1e3, 1e3, 1e3])
        lf = float(rng.choice([1.0, 2.5]))
        ph = structs.run(structs.build_struct(sh, loads, lf)); pf = structs.run(structs.build_struct(sf, _mirror_loads(loads), lf))
        bad = {}
        for k in ("structural_mass", "cg_location"):
            e = _rel(structs.g(ph, "wing." + k), structs.g(pf, "wing." + k))
            if e > 1e-9 and np.abs(structs.g(ph, "wing." + k) - structs.g(pf, "wing." + k)).max() > 1e-9: bad[k] = e
        dh, df = structs.g(ph, "wing.disp"), structs.g(pf, "wing.disp")[:ny]
        if _rel(dh, df) > 1e-6: bad["disp"] = _rel(dh, df)
        vh, vf = structs.g(ph, "wing.vonmises"), structs.g(pf, "wing.vonmises")[:ny - 1]
        if _rel(vh, vf) > 1e-6: bad["vonmises"] = _rel(vh, vf)
        O["cases"] += 1
        desc = {"model": model, "ny": ny, "weight_relief": extra["struct_weight_relief"], "load_factor": lf, "seed": seed, "it": it}
        if bad: _fail(O, "C04:SpatialBeamAlone:%s-half-vs-full" % sorted(bad)[0], desc, errors=bad, mesh=m.tolist(), loads=loads.tolist())
        else: O["ok"] += 1
        R.mark("c04s", it)


def oracle_aerostruct(R, tier, seed):
    from openaerostruct.geometry.utils import generate_mesh
    O = R.oracle("AerostructPoint.half-vs-full")
    rng = gen.stable_rng(seed, "c04as")
    cases = [("tube", False)] if tier == "quick" else [("tube", False), ("tube", True), ("wingbox", False), ("wingbox", True)]
    for model, relief in cases:
        mesh, twist = generate_mesh({"num_y": 5, "num_x": 2, "wing_type": "CRM", "symmetry": True, "num_twist_cp": 3})
        full = mirror_full(mesh)
        mk = gen.tube_surface if model == "tube" else gen.wingbox_surface
        kw = dict(struct_weight_relief=relief, distributed_fuel_weight=(model == "wingbox" and relief), with_wave=False, with_viscous=True,
                  t_over_c_cp=np.array([0.12, 0.12]), twist_cp=np.array([2.0, 2.0]))
        if model == "tube": kw.update(thickness_cp=np.array([0.05, 0.05, 0.05]))
        else: kw.update(spar_thickness_cp=np.array([0.006, 0.006]), skin_thickness_cp=np.array([0.012, 0.012]))
        flow = dict(Mach=0.84, alpha=float(rng.uniform(1, 4))) if model == "tube" else dict(Mach=0.85, v=0.85 * 295.07, alpha=float(rng.uniform(0, 2)), rho=0.348, CT=0.53 / 3600, R=14.307e6, W0=148000 + 15000, a=295.07)
        ph = structs.run(structs.build_aerostruct([mk(mesh, symmetry=True, **kw)], **flow))
        pf = structs.run(structs.build_aerostruct([mk(full, symmetry=False, **kw)], **flow))
        bad = {}
        for k in ("fuelburn", "L_equals_W", "CL", "CD", "CM", "cg", "wing_perf.CDi", "wing_perf.CDv", "total_perf.wing_structural_mass" if False else "CL"):
            a, b = structs.g(ph, "AS_point_0." + k), structs.g(pf, "AS_point_0." + k)
            if _rel(a, b) > 1e-5 and np.abs(a - b).max() > 1e-9: bad[k] = _rel(a, b)
        a, b = structs.g(ph, "wing.structural_mass"), structs.g(pf, "wing.structural_mass")
        if _rel(a, b) > 1e-9: bad["structural_mass"] = _rel(a, b)
        ny = mesh.shape[1]
        a, b = structs.g(ph, "AS_point_0.coupled.wing.disp"), structs.g(pf, "AS_point_0.coupled.wing.disp")[:ny]
        if _rel(a, b) > 1e-5: bad["disp"] = _rel(a, b)
        a, b = structs.g(ph, "AS_point_0.wing_perf.vonmises"), structs.g(pf, "AS_point_0.wing_perf.vonmises")[:ny - 1]
        if _rel(a, b) > 1e-5: bad["vonmises"] = _rel(a, b)
        O["cases"] += 1
        desc = {"model": model, "weight_relief": relief, "seed": seed, **{k: (float(v) if np.isscalar(v) else v) for k, v in flow.items()}}
        if bad: _fail(O, "C04:AerostructPoint:%s-half-vs-full" % sorted(bad)[0], desc, errors=bad)
        else: O["ok"] += 1
        R.mark("c04as", model, relief)


def oracle_geometry(R, tier, seed):
    """the same design variables applied to a half-span surface and to its full-span equivalent give mirror-image meshes
    (left-half meshes with flat chord lines: the recorded findings F05 / F06 concern right halves and cambered sections)"""
    import warnings
    import openmdao.api as om
    from openaerostruct.geometry.geometry_group import Geometry
    from openaerostruct.geometry.utils import generate_mesh
    O = R.oracle("Geometry.half-vs-full")
    rng = gen.stable_rng(seed, "c04geom")
    n = 8 if tier == "quick" else 40
    for it in range(n):
        num_x = int(rng.choice([2, 3])); num_y = int(rng.choice([5, 7, 9]))
        d = {"num_x": num_x, "num_y": num_y, "wing_type": "rect", "span": float(rng.uniform(6, 20)), "root_chord": float(rng.uniform(0.8, 3)), "span_cos_spacing": float(rng.choice([0.0, 1.0, 0.5]))}
        with warnings.catch_warnings():
            warnings.simplefilter("ignore")
            full = generate_mesh(dict(d, symmetry=False)); half = generate_mesh(dict(d, symmetry=True))
        dv = {}
        which = ["taper", "sweep", "dihedral", "span", "chord_cp", "twist_cp", "xshear_cp", "zshear_cp"]
        chosen = [w for w in which if rng.random() < 0.5] or ["taper"]
        if it < len(which): chosen = [which[it]]            # every variable once on its own
        for w in chosen:
            if w == "taper": dv[w] = float(rng.uniform(0.3, 1.4))
            elif w == "sweep": dv[w] = float(rng.uniform(-15, 35))
            elif w == "dihedral": dv[w] = float(rng.uniform(-5, 12))
            elif w == "span": dv[w] = float(d["span"] * rng.uniform(0.6, 1.5))
            else:
                # control-point variables: only constant distributions are comparable (a 3-point B-spline over the half span and
                # a 5-point palindromic one over the full span are different curves - not a property of the package)
                c = float(rng.uniform(0.7, 1.3) if w == "chord_cp" else rng.uniform(-3, 3) * (1.0 if w == "twist_cp" else 0.2))
                dv[w] = (np.full(3, c), np.full(5, c))
        meshes = {}
        for label, m, sym in (("half", half, True), ("full", full, False)):
            s = {"name": "w", "mesh": m, "symmetry": sym, "S_ref_type": "wetted"}
            for k, v in dv.items():
                s[k] = v[0 if sym else 1] if isinstance(v, tuple) else v
            p = om.Problem(reports=False); p.model.add_subsystem("g", Geometry(surface=s), promotes=["*"])
            with warnings.catch_warnings():
                warnings.simplefilter("ignore")
                p.setup(); p.run_model()
            meshes[label] = np.array(p.get_val("mesh")).copy()
        O["cases"] += 1
        ny = half.shape[1]
        left = meshes["full"][:, :ny]
        mir = meshes["full"][:, ::-1].copy(); mir[:, :, 1] *= -1
        scale = np.abs(meshes["full"]).max()
        e1 = float(np.abs(meshes["half"] - left).max() / scale); e2 = float(np.abs(mir - meshes["full"]).max() / scale)
        O["worst"] = max(O["worst"], e1, e2)
        desc = {"mesh": d, "design_variables": {k: (v[0].tolist() if isinstance(v, tuple) else v) for k, v in dv.items()}, "seed": seed, "it": it}
        bad = {}
        if e1 > 1e-10: bad["half mesh != left half of the full-span mesh"] = e1
        if e2 > 1e-10: bad["full-span mesh not mirror symmetric"] = e2
        if bad: _fail(O, "C04:Geometry(%s):half-vs-full" % "+".join(sorted(dv)), desc, errors=bad)
        else: O["ok"] += 1
        R.mark("c04g", it)


def oracle_inertial_loads(R, tier, seed):
    """the distributed inertial loads of a half model and of the mirrored full model, component by component: the loads on
    the modelled half agree (a half model carries half of the fuel INCLUDING the reserve, half of the structure)"""
    from openaerostruct.structures.fuel_loads import FuelLoads
    from openaerostruct.structures.wing_weight_loads import StructureWeightLoads
    O = R.oracle("FuelLoads+StructureWeightLoads.half-vs-full")
    rng = gen.stable_rng(seed, "c04loads")
    for it in range(3 if tier == "quick" else 10):
        ny = int(rng.choice([3, 4, 5]))
        m = gen.rand_mesh(rng, 2, ny, "left", offset=False); full = mirror_full(m)
        reserve = float(rng.choice([15000.0, 0.0, 4000.0])) if it else 15000.0
        sh = gen.wingbox_surface(m, symmetry=True, Wf_reserve=reserve); sf = gen.wingbox_surface(full, symmetry=False, Wf_reserve=reserve)
        nodes_h = 0.6 * m[0] + 0.4 * m[-1]; nodes_f = 0.6 * full[0] + 0.4 * full[-1]
        vols = rng.uniform(0.2, 2.0, ny - 1); vols_f = np.concatenate([vols, vols[::-1]])
        em = rng.uniform(20, 400, ny - 1); em_f = np.concatenate([em, em[::-1]])
        lf = float(rng.choice([1.0, 2.5])); fuel = float(rng.uniform(2e4, 8e4))
        bad = {}
        oh, _, _ = core.run_comp(FuelLoads(surface=sh), {"fuel_vols": vols, "nodes": nodes_h, "fuel_mass": fuel, "load_factor": lf}, want_J=False)
        of, _, _ = core.run_comp(FuelLoads(surface=sf), {"fuel_vols": vols_f, "nodes": nodes_f, "fuel_mass": fuel, "load_factor": lf}, want_J=False)
        a, b = oh["fuel_weight_loads"], of["fuel_weight_loads"][:ny]
        # the root node of the full model also receives the share of the first element of the other half
        if _rel(a[:-1], b[:-1]) > 1e-10: bad["fuel_weight_loads"] = _rel(a[:-1], b[:-1])
        tot_h, tot_f = a[:, 2].sum(), of["fuel_weight_loads"][:, 2].sum()
        if abs(2 * tot_h - tot_f) > 1e-9 * abs(tot_f): bad["total-fuel-weight(2 x half vs full)"] = [float(2 * tot_h), float(tot_f), -(fuel + reserve) * 9.80665 * lf]
        oh, _, _ = core.run_comp(StructureWeightLoads(surface=sh), {"element_mass": em, "nodes": nodes_h, "load_factor": lf}, want_J=False)
        of, _, _ = core.run_comp(StructureWeightLoads(surface=sf), {"element_mass": em_f, "nodes": nodes_f, "load_factor": lf}, want_J=False)
        a, b = oh["struct_weight_loads"], of["struct_weight_loads"][:ny]
        if _rel(a[:-1], b[:-1]) > 1e-10: bad["struct_weight_loads"] = _rel(a[:-1], b[:-1])
        O["cases"] += 1
        desc = {"ny": ny, "Wf_reserve": reserve, "fuel_mass": fuel, "load_factor": lf, "seed": seed, "it": it}
        if bad: _fail(O, "C04:%s-half-vs-full" % sorted(bad)[0], desc, errors=bad, mesh=m.tolist())
        else: O["ok"] += 1
        R.mark("c04loads", it)
