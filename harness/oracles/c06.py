"""Implementation-only oracle for C06: law-level pairs on AeroPoint."""
import numpy as np
from .. import core, gen, aero


def _fail(O, key, desc, **kw):
    O["failures"].append(dict(key=key, case=desc, **kw))


OUT = ["aero.CL", "aero.CD", "aero.CM"]


def _collect(p, surfs):
    d = {k: aero.g(p, k) for k in OUT}
    d["L"] = aero.g(p, "aero.total_perf.L"); d["D"] = aero.g(p, "aero.total_perf.D")
    for s in surfs:
        n = s["name"]
        d[n + "_F"] = aero.g(p, "aero.aero_states.%s_sec_forces" % n)
        for k in ("L", "D", "CL1", "CDi", "CDv", "CL"):
            d[n + "_" + k] = aero.g(p, "aero.%s_perf.%s" % (n, k))
        d[n + "_Cl"] = aero.g(p, "aero.%s_perf.Cl" % n)
        d[n + "_S"] = aero.g(p, "aero.%s.S_ref" % n)
    return d


def _cmp(a, b, scale_b, tol, keys=None):
    bad = {}
    for k in (keys or a.keys()):
        ref = b[k] * scale_b.get(k.split("_")[-1] if "_" in k else k.split(".")[-1], 1.0)
        sc = max(np.abs(ref).max(), 1e-300)
        e = np.abs(a[k] - ref).max() / sc
        if e > tol and np.abs(a[k] - ref).max() > 1e-13:
            bad[k] = float(e)
    return bad


def oracle_laws(R, tier, seed):
    O = R.oracle("AeroPoint.scaling-laws")
    rng = gen.stable_rng(seed, "c06")
    combos = [("full",), ("left",), ("right", "full_sym"), ("full", "full")]
    if tier != "quick":
        combos += [("left", "left"), ("full", "full", "full"), ("right",)]
    reps = 1 if tier == "quick" else 3
    from .vlm_ref import mirror_full
    for kinds in combos:
        for rep in range(reps):
            meshes, syms = [], []
            for si, kind in enumerate(kinds):
                nx, ny = [(2, 3), (3, 3), (2, 5), (3, 5)][int(rng.integers(0, 4))]
                if kind == "full_sym":
                    m = mirror_full(gen.rand_mesh(rng, nx, (ny + 1) // 2, "left", offset=False)); sym = False
                else:
                    m = gen.rand_mesh(rng, nx, ny, kind, offset=False); sym = kind != "full"
                m = m + np.array([5.0 * si, 0.0, 0.7 * si])
                meshes.append(m); syms.append(sym)
            all_full = not any(syms)
            alpha = float(rng.uniform(-10, 12)); beta = float(rng.uniform(-10, 10)) if all_full else 0.0
            v = float(rng.uniform(20, 250)); rho = float(rng.uniform(0.3, 1.3)); re = float(10 ** rng.uniform(5.5, 7)); cg = rng.normal(size=3)
            visc = bool(rng.integers(0, 2))

            def run(meshes_, v_=v, rho_=rho, re_=re, cg_=cg):
                surfs = [aero.aero_surface(m, name="s%d" % i, symmetry=s, with_viscous=visc) for i, (m, s) in enumerate(zip(meshes_, syms))]
                p = aero.run(aero.build_aero(surfs, v=v_, alpha=alpha, beta=beta, rho=rho_, re=re_, cg=cg_, Mach=0.3))
                return _collect(p, surfs)
            base = run(meshes)
            desc = {"surfaces": list(kinds), "shapes": [list(m.shape[:2]) for m in meshes], "alpha": alpha, "beta": beta, "v": v, "rho": rho, "re": re,
                    "viscous": visc, "seed": seed, "rep": rep}
            bad = {}
            coeff_keys = [k for k in base if k.split("_")[-1] in ("CL1", "CDi", "CL", "Cl") or k in OUT] + ([k for k in base if k.endswith("_CDv")] if True else [])
            # (1) density and speed (Reynolds number per length kept: viscous drag depends on it, so keep re fixed and compare inviscid coefficients + CDv)
            cr, cv = float(rng.uniform(0.3, 3)), float(rng.uniform(0.3, 3))
            r1 = run(meshes, v_=cv * v, rho_=cr * rho)
            sc = {"F": cr * cv * cv, "L": cr * cv * cv, "D": cr * cv * cv}
            b = _cmp(r1, base, sc, 1e-9)
            if b: bad["rho-v-scaling"] = b
            # (2) length scale k: meshes, cg scaled by k; re scaled by 1/k
            for k in ((0.01, 100.0) if rep == 0 else (float(10 ** rng.uniform(-2, 2)),)):
                r2 = run([m * k for m in meshes], re_=re / k, cg_=cg * k)
                sc = {"F": k * k, "L": k * k, "D": k * k, "S": k * k}
                b = _cmp(r2, base, sc, 1e-8)
                if b: bad["length-scaling-k=%g" % k] = b
            # (3) translation of everything (x, z only when a symmetric surface is present)
            t = rng.normal(size=3) * 20
            if not all_full: t[1] = 0.0
            r3 = run([m + t for m in meshes], cg_=cg + t)
            b = _cmp(r3, base, {}, 1e-8)
            if b: bad["translation"] = b
            # (4) lift and drag are components of the summed panel forces; totals are area weighted
            a, bb = np.deg2rad(alpha), np.deg2rad(beta)
            ldir = np.array([-np.sin(a), 0, np.cos(a)]); ddir = np.array([np.cos(a) * np.cos(bb), -np.sin(bb), np.sin(a) * np.cos(bb)])
            Ssum = 0.0; CLw = 0.0
            for i, sym in enumerate(syms):
                F = base["s%d_F" % i].sum(axis=(0, 1)) * (2.0 if sym else 1.0)
                Lr, Dr = F.dot(ldir), F.dot(ddir)
                fs = np.abs(base["s%d_F" % i]).sum()
                if abs(base["s%d_L" % i][0] - Lr) > 1e-10 * fs or abs(base["s%d_D" % i][0] - Dr) > 1e-10 * fs: bad["lift-drag-components-s%d" % i] = [float(base["s%d_L" % i][0]), float(Lr)]
                q = 0.5 * rho * v * v
                S = float(base["s%d_S" % i][0])
                if abs(base["s%d_CL1" % i][0] - Lr / (q * S)) > 1e-10 * max(1, abs(Lr / (q * S))): bad["CL=L/qS-s%d" % i] = 1
                Ssum += S; CLw += float(base["s%d_CL" % i][0]) * S
                # the sectional lift coefficient: free-stream-normal component of the chordwise-summed panel forces of strip j over
                # q * (mean chord of the strip) * (its width); and it integrates back to the surface's lift
                mesh_i = meshes[i]
                chords = np.linalg.norm(mesh_i[-1] - mesh_i[0], axis=1); cbar = 0.5 * (chords[1:] + chords[:-1])
                qc = 0.25 * mesh_i[-1] + 0.75 * mesh_i[0]; widths = np.sqrt((qc[1:, 1] - qc[:-1, 1]) ** 2 + (qc[1:, 2] - qc[:-1, 2]) ** 2)
                strip = base["s%d_F" % i].sum(axis=0)
                cl_ref = (strip @ ldir) / (q * cbar * widths)
                if np.abs(base["s%d_Cl" % i] - cl_ref).max() > 1e-9 * max(np.abs(cl_ref).max(), 1e-12): bad["sectional-Cl-s%d" % i] = float(np.abs(base["s%d_Cl" % i] - cl_ref).max())
                Lint = float((base["s%d_Cl" % i] * q * cbar * widths).sum()) * (2.0 if sym else 1.0)
                if abs(Lint - float(base["s%d_L" % i][0])) > 1e-9 * fs: bad["sectional-Cl-does-not-integrate-to-L-s%d" % i] = [Lint, float(base["s%d_L" % i][0])]
            if abs(base["aero.CL"][0] - CLw / Ssum) > 1e-10 * max(1.0, abs(CLw / Ssum)): bad["CL-area-weighted"] = [float(base["aero.CL"][0]), CLw / Ssum]
            if abs(base["L"][0] - 0.5 * rho * v * v * Ssum * base["aero.CL"][0]) > 1e-9 * abs(base["L"][0]) + 1e-9: bad["L=qSCL"] = 1
            O["cases"] += 1
            if bad: _fail(O, "C06:AeroPoint:" + sorted(bad)[0].split("-k=")[0], desc, errors=bad, meshes=[m.tolist() for m in meshes])
            else: O["ok"] += 1
            R.mark("c06", kinds, rep)
