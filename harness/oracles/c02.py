"""Implementation-only oracle for C02: total derivatives in forward mode, in reverse mode, and by Richardson-extrapolated
central differences of the converged analysis, for aero / struct / aerostruct / multipoint / multi-surface topologies,
option sets and linear solvers."""
import warnings, io, contextlib
import numpy as np
import openmdao.api as om
from .. import core, gen, aero, structs
from .c03 import _quiet, _mesh


def crm(num_y=5, num_x=2):
    from openaerostruct.geometry.utils import generate_mesh
    with warnings.catch_warnings():
        warnings.simplefilter("ignore")
        mesh, twist = generate_mesh({"num_y": num_y, "num_x": num_x, "wing_type": "CRM", "symmetry": True, "num_twist_cp": 3})
    return mesh


def tighten(prob):
    for s in prob.model.system_iter(recurse=True, include_self=True):
        nl = getattr(s, "_nonlinear_solver", None)
        if nl is not None and "atol" in nl.options:
            nl.options["atol"] = 1e-7; nl.options["rtol"] = 1e-11
            if "maxiter" in nl.options: nl.options["maxiter"] = max(nl.options["maxiter"], 200)


def set_linear(prob, which):
    """attach a supported linear solver to every coupled / top-level group that has one"""
    if which == "default":
        return
    for s in prob.model.system_iter(recurse=True, include_self=True, typ=om.Group):
        if s.name == "coupled" or s is prob.model and which != "LinearBlockGS-coupled":
            if which.startswith("LinearBlockGS"):
                s.linear_solver = om.LinearBlockGS(maxiter=500, atol=1e-14, rtol=1e-14, use_aitken=True, iprint=-1, err_on_non_converge=True)
            elif which == "ScipyKrylov":
                s.linear_solver = om.ScipyKrylov(maxiter=500, atol=1e-14, rtol=1e-14, iprint=-1, err_on_non_converge=True)
                s.linear_solver.precon = om.LinearRunOnce(iprint=-1)
            elif which == "Direct":
                s.linear_solver = om.DirectSolver(assemble_jac=True)


def topologies(tier):
    T = []
    common = dict(with_viscous=True, t_over_c_cp=np.array([0.12, 0.12]), twist_cp=np.array([2.0, 3.0]))

    def aero_one(**kw):
        def b(setup_kw):
            s = aero.aero_surface(_mesh(5, 3), "wing", True, with_viscous=True, with_wave=kw.get("wave", False), k_lam=0.05, twist_cp=np.array([1.0, 2.0]), t_over_c_cp=np.array([0.1, 0.12]),
                                  **({"groundplane": True} if kw.get("ground") else {}))
            return aero.build_aero([s], geom=True, compressible=kw.get("compressible", False), Mach=kw.get("Mach", 0.5), alpha=3.0, height_agl=15.0, setup_kw=setup_kw)
        return b
    T.append(("aero-1surf-viscous", aero_one(), ["aero.CL", "aero.CD", "aero.CM"], ["alpha", "Mach_number", "wing.twist_cp", "wing.t_over_c_cp", "re", "v", "rho"], ["default", "ScipyKrylov", "LinearBlockGS"], 1e-6))
    T.append(("aero-1surf-wave-compressible", aero_one(wave=True, compressible=True, Mach=0.88), ["aero.CL", "aero.CD", "aero.CM"], ["alpha", "Mach_number", "wing.twist_cp", "wing.t_over_c_cp"], ["default"], 1e-6))
    T.append(("aero-1surf-ground-effect", aero_one(ground=True), ["aero.CL", "aero.CD"], ["alpha", "height_agl", "wing.twist_cp"], ["default"], 1e-6))

    def aero_two(setup_kw):
        s1 = aero.aero_surface(_mesh(5, 2), "wing", True, with_viscous=True, with_wave=True, twist_cp=np.array([1.0, 2.0]))
        s2 = aero.aero_surface(_mesh(3, 2, span=4.0, chord=0.6, sym=False, x0=6.0, z0=0.5), "tail", False, with_viscous=True, twist_cp=np.array([0.5, -0.5, 0.5]))
        return aero.build_aero([s1, s2], geom=True, Mach=0.86, alpha=2.0, setup_kw=setup_kw)
    T.append(("aero-2surf-wave", aero_two, ["aero.CL", "aero.CD", "aero.CM"], ["alpha", "Mach_number", "wing.twist_cp", "tail.twist_cp"], ["default"], 1e-6))

    def struct_tube(setup_kw):
        m = crm()
        s = gen.tube_surface(m, symmetry=True, name="wing", thickness_cp=np.array([0.05, 0.06, 0.07]), struct_weight_relief=True)
        loads = np.zeros((m.shape[1], 6)); loads[:, 2] = 1e4 * np.linspace(0.2, 1.0, m.shape[1]); loads[:, 4] = 3e3
        return structs.build_struct(s, loads, load_factor=1.5, setup_kw=setup_kw)
    T.append(("struct-tube-weight-relief", struct_tube, ["wing.failure", "wing.structural_mass", "wing.thickness_intersects"], ["wing.thickness_cp", "wing.loads", "wing.load_factor"], ["default", "ScipyKrylov", "LinearBlockGS"], 1e-6))

    def struct_point_masses(setup_kw):
        # engines as point masses with thrust, placed BETWEEN structural nodes and below the beam (their nodal weighting and
        # moment arms then depend on the locations); ComputePointMassLoads / ComputeThrustLoads declare complex-step partials
        m = crm(num_y=7); y = m[0, :, 1]
        s = gen.tube_surface(m, symmetry=True, name="wing", thickness_cp=np.array([0.05, 0.06, 0.07]), struct_weight_relief=True, n_point_masses=2)
        loads = np.zeros((m.shape[1], 6)); loads[:, 2] = 1e4 * np.linspace(0.2, 1.0, m.shape[1])
        extra = {"point_masses": (np.array([[800.0, 300.0]]), "kg"),
                 "point_mass_locations": (np.array([[m[0, 1, 0] + 0.5, 0.55 * y[0] + 0.45 * y[1], -0.8], [m[0, 2, 0] + 1.0, 0.3 * y[1] + 0.7 * y[2], -0.5]]), "m"),
                 "engine_thrusts": (np.array([[4e4, 2e4]]), "N")}
        return structs.build_struct(s, loads, load_factor=1.7, extra=extra, setup_kw=setup_kw)
    T.append(("struct-tube-point-masses-thrust", struct_point_masses, ["wing.failure", "wing.structural_mass"],
              ["wing.point_mass_locations", "wing.point_masses", "wing.engine_thrusts", "wing.load_factor", "wing.thickness_cp"], ["default"], 1e-6))

    def struct_wingbox(setup_kw):
        m = crm()
        s = gen.wingbox_surface(m, symmetry=True, name="wing", spar_thickness_cp=np.array([0.006, 0.008]), skin_thickness_cp=np.array([0.012, 0.015]), struct_weight_relief=True, t_over_c_cp=np.array([0.12, 0.12]))
        loads = np.zeros((m.shape[1], 6)); loads[:, 2] = 1e5 * np.linspace(0.2, 1.0, m.shape[1]); loads[:, 4] = 3e4
        return structs.build_struct(s, loads, load_factor=1.0, setup_kw=setup_kw)
    T.append(("struct-wingbox", struct_wingbox, ["wing.failure", "wing.structural_mass"], ["wing.spar_thickness_cp", "wing.skin_thickness_cp", "wing.loads"], ["default"], 2e-5))

    def as_tube(npoints=1, two=False):
        def b(setup_kw):
            s = gen.tube_surface(crm(), symmetry=True, name="wing", struct_weight_relief=True, with_wave=False, thickness_cp=np.array([0.05, 0.05, 0.06]), **common)
            surfs = [s]
            if two:
                mt = _mesh(3, 2, span=8.0, chord=1.5, sym=True, x0=45.0, z0=1.0)
                surfs.append(gen.tube_surface(mt, symmetry=True, name="tail", thickness_cp=np.array([0.02, 0.02]), twist_cp=np.array([0.0, 0.0]), t_over_c_cp=np.array([0.1]), with_viscous=True))
            kw = dict(Mach=0.84, alpha=2.0) if npoints == 1 else dict(Mach=[0.84, 0.7], alpha=[2.0, 4.0], v=[248.136, 200.0], load_factor=[1.0, 2.5], rho=[0.38, 0.5], re=[1e6, 1e6], CT=[9.80665 * 17.0e-6] * 2, R=[11.165e6] * 2, W0=[0.4 * 3e5] * 2, a=[295.4] * 2)
            return structs.build_aerostruct(surfs, npoints=npoints, setup_kw=setup_kw, **kw)
        return b
    T.append(("aerostruct-tube", as_tube(), ["AS_point_0.fuelburn", "AS_point_0.CM", "AS_point_0.CL", "AS_point_0.CD", "AS_point_0.wing_perf.failure", "AS_point_0.L_equals_W", "wing.structural_mass"],
              ["alpha", "Mach_number", "wing.twist_cp", "wing.thickness_cp", "load_factor", "rho", "v"], ["default", "LinearBlockGS-coupled"], 1e-5))
    # two structural surfaces of very different mass in the quick tier too (cg / CM totals with respect to a variable of the FIRST
    # surface: a seeded change that used the last surface's mass in every surface's cg partial was missed without it)
    T.append(("aerostruct-tube-two-surfaces-cm", as_tube(two=True), ["AS_point_0.CM", "AS_point_0.fuelburn"], ["wing.thickness_cp", "tail.thickness_cp", "alpha"], ["default"], 1e-5))
    if tier != "quick":
        T.append(("aerostruct-tube-multipoint", as_tube(npoints=2), ["AS_point_0.fuelburn", "AS_point_1.wing_perf.failure", "AS_point_1.L_equals_W", "AS_point_0.CM"],
                  ["alpha", "wing.twist_cp", "wing.thickness_cp"], ["default"], 1e-5))
        T.append(("aerostruct-tube-two-surfaces", as_tube(two=True), ["AS_point_0.fuelburn", "AS_point_0.CM", "AS_point_0.tail_perf.failure", "AS_point_0.L_equals_W"],
                  ["alpha", "wing.twist_cp", "tail.thickness_cp"], ["default"], 1e-5))

    def as_wingbox(setup_kw):
        s = gen.wingbox_surface(crm(), symmetry=True, name="wing", struct_weight_relief=True, distributed_fuel_weight=True, with_wave=True,
                                spar_thickness_cp=np.array([0.006, 0.007]), skin_thickness_cp=np.array([0.012, 0.013]), **common)
        def fuel_volume_constraint(prob):
            # as in the package's wingbox examples: fuel-volume margin of the wing box
            from openaerostruct.structures.wingbox_fuel_vol_delta import WingboxFuelVolDelta
            prob.model.add_subsystem("fuel_vol_delta", WingboxFuelVolDelta(surface=s))
            prob.model.connect("wing.struct_setup.fuel_vols", "fuel_vol_delta.fuel_vols")
            prob.model.connect("AS_point_0.fuelburn", "fuel_vol_delta.fuelburn")
        return structs.build_aerostruct([s], Mach=0.85, v=0.85 * 295.07, alpha=1.0, rho=0.348, CT=0.53 / 3600, R=14.307e6, W0=148000 + 15000, a=295.07, setup_kw=setup_kw, pre_setup=fuel_volume_constraint)
    T.append(("aerostruct-wingbox-fuel-wave", as_wingbox, ["AS_point_0.fuelburn", "AS_point_0.CM", "AS_point_0.wing_perf.failure", "AS_point_0.L_equals_W", "wing.structural_mass", "fuel_vol_delta.fuel_vol_delta"],
              ["alpha", "fuel_mass", "wing.spar_thickness_cp", "wing.twist_cp"], ["default"], 2e-5))
    return T


def totals(build, mode, of, wrt, solver):
    prob = build({"mode": mode})
    set_linear(prob, solver)
    tighten(prob)
    _quiet(prob.run_model)
    return prob, _quiet(prob.compute_totals, of=of, wrt=wrt)


def fd_totals(build, of, wrt):
    prob = build({})
    tighten(prob)
    _quiet(prob.run_model)

    def f():
        return np.concatenate([np.ravel(prob.get_val(o)).astype(float) for o in of])
    out = {}
    for w in wrt:
        x0 = np.array(prob.get_val(w), dtype=float).copy(); flat = x0.ravel().copy()
        bm = float(np.abs(flat).max())
        cols = []
        idxs = range(flat.size) if flat.size <= 6 else [0, flat.size // 2, flat.size - 1]
        for i in idxs:
            sc = max(abs(flat[i]), 1e-2 * bm) if bm > 0 else 1.0
            h = 2e-3 * sc
            d = []
            for hh in (h, h / 2):
                xp = flat.copy(); xp[i] += hh; prob.set_val(w, xp.reshape(x0.shape)); _quiet(prob.run_model); fp = f()
                xm = flat.copy(); xm[i] -= hh; prob.set_val(w, xm.reshape(x0.shape)); _quiet(prob.run_model); fm = f()
                d.append((fp - fm) / (2 * hh))
            cols.append((4 * d[1] - d[0]) / 3)
        prob.set_val(w, x0)
        out[w] = (list(idxs), np.array(cols).T)
    sizes = [np.size(prob.get_val(o)) for o in of]
    return out, sizes


def oracle_totals(R, tier, seed):
    for name, build, of, wrt, solvers, tol in topologies(tier):
        O = R.oracle("totals." + name)
        ref = None
        for solver in solvers:
            res = {}
            for mode in ("fwd", "rev"):
                try:
                    prob, tot = totals(build, mode, of, wrt, solver)
                    res[mode] = tot
                except om.AnalysisError as e:
                    res[mode] = None
                    R.notes.append("%s/%s/%s: linear or nonlinear solver did not converge (outside the quantifier): %s" % (name, solver, mode, str(e)[:120]))
            O["cases"] += 1
            desc = {"topology": name, "linear_solver": solver, "of": of, "wrt": wrt, "seed": seed}
            if res["fwd"] is None or res["rev"] is None:
                O["ok"] += 1; continue
            scale_of = {o: max([float(np.abs(res["fwd"][(o, w)]).max()) for w in wrt] + [1e-300]) for o in of}
            # natural size of d o / d w: |o| / |w|.  A total that is analytically zero (CL does not depend on the density) comes out
            # as round-off (1e-16) in each mode and 1e-13 from differences: such values are compared on the natural scale
            nat = {}
            for o in of:
                for w in wrt:
                    wo = float(np.abs(np.asarray(prob.get_val(w), dtype=float)).max()); oo = float(np.abs(np.asarray(prob.get_val(o), dtype=float)).max())
                    nat[(o, w)] = oo / wo if wo > 0 else oo
            bad = {}
            for (o, w), v in res["fwd"].items():
                e = float(np.abs(v - res["rev"][(o, w)]).max()) / (max(float(np.abs(v).max()), float(np.abs(res["rev"][(o, w)]).max())) + 1e-8 * scale_of[o] + 1e-6 * nat[(o, w)] + 1e-300)
                O["worst"] = max(O["worst"], e)
                if e > 1e-7: bad["fwd-vs-rev d%s/d%s" % (o, w)] = e
            if ref is None:
                ref = res["fwd"]
                fd, sizes = fd_totals(build, of, wrt)
                for w, (idxs, Jfd) in fd.items():
                    row = 0
                    for o, n in zip(of, sizes):
                        a = np.asarray(res["fwd"][(o, w)]).reshape(n, -1)[:, idxs]; b = Jfd[row:row + n]; row += n
                        e = float(np.abs(a - b).max()) / (max(float(np.abs(a).max()), float(np.abs(b).max())) + 1e-6 * scale_of[o] + 1e-4 * nat[(o, w)] + 1e-300)
                        O["worst"] = max(O["worst"], min(e, 1e300))
                        if e > tol: bad["analytic-vs-finite-difference d%s/d%s" % (o, w)] = e
            else:
                for (o, w), v in res["fwd"].items():
                    e = float(np.abs(v - ref[(o, w)]).max()) / (max(float(np.abs(v).max()), float(np.abs(ref[(o, w)]).max())) + 1e-8 * scale_of[o] + 1e-6 * nat[(o, w)] + 1e-300)
                    if e > 1e-6: bad["%s-vs-default-solver d%s/d%s" % (solver, o, w)] = e
            if bad:
                # one failure per (relation, function of interest)
                groups = {}
                for k, e in bad.items():
                    rel, rest = k.split(" d", 1)
                    groups.setdefault((rel, rest.split("/d")[0]), {})[k] = e
                for (rel, o), errs in sorted(groups.items()):
                    O["failures"].append({"key": "C02:%s:%s:%s" % (name, rel, o), "case": desc, "errors": errs})
            else:
                O["ok"] += 1
        R.mark("c02", name)
