"""Implementation-only oracle for C20 (runtime part): admissible set-ups give finite outputs, the same outputs when the
analysis is repeated in the same process, by an independent Problem, or interleaved with an unrelated Problem, and the
user's mesh arrays (and every other array in the user's dictionaries) are never modified."""
import copy, hashlib, warnings
import numpy as np
import openmdao.api as om
from .. import core, gen, aero, structs
from .c03 import _quiet, _mesh
from .c02 import crm


def digest(d):
    h = hashlib.sha256()
    for k in sorted(d):
        v = d[k]
        if isinstance(v, np.ndarray):
            h.update(k.encode()); h.update(np.ascontiguousarray(v).tobytes()); h.update(str(v.dtype).encode()); h.update(str(v.shape).encode())
        elif isinstance(v, (list, tuple)) and v and isinstance(v[0], np.ndarray):
            for a in v: h.update(np.ascontiguousarray(a).tobytes())
        else:
            h.update(k.encode()); h.update(repr(v).encode())
    return h.hexdigest()


def setups():
    common = dict(with_viscous=True, t_over_c_cp=np.array([0.12, 0.12]), twist_cp=np.array([2.0, 3.0]))
    S = []
    S.append(("aero-rect-symmetric", lambda: [aero.aero_surface(_mesh(5, 3), "wing", True, with_viscous=True, with_wave=True, twist_cp=np.array([1.0, 2.0]), sweep=5.0, taper=0.8)],
              lambda ss: aero.build_aero(ss, geom=True, Mach=0.8, alpha=3.0), ["aero.CL", "aero.CD", "aero.CM"], ["alpha", "wing.twist_cp"]))
    S.append(("aero-two-surfaces-full-span", lambda: [aero.aero_surface(_mesh(5, 2, sym=False), "wing", False, with_viscous=True, twist_cp=np.array([1.0, 2.0, 1.0])),
                                                         aero.aero_surface(_mesh(3, 2, span=4.0, chord=0.6, sym=False, x0=6.0, z0=0.5), "tail", False, twist_cp=np.array([0.0, 0.0]))],
              lambda ss: aero.build_aero(ss, geom=True, Mach=0.5, alpha=2.0), ["aero.CL", "aero.CD"], ["alpha", "tail.twist_cp"]))
    S.append(("aero-ground-effect", lambda: [aero.aero_surface(_mesh(5, 2), "wing", True, with_viscous=True, groundplane=True, twist_cp=np.array([1.0, 2.0]))],
              lambda ss: aero.build_aero(ss, geom=True, Mach=0.6, alpha=3.0, height_agl=12.0), ["aero.CL", "aero.CD"], ["alpha", "height_agl"]))
    S.append(("aerostruct-tube", lambda: [gen.tube_surface(crm(), symmetry=True, name="wing", struct_weight_relief=True, thickness_cp=np.array([0.05, 0.05, 0.06]), **common)],
              lambda ss: structs.build_aerostruct(ss, Mach=0.84, alpha=2.0), ["AS_point_0.fuelburn", "AS_point_0.CM", "AS_point_0.wing_perf.failure"], ["alpha", "wing.thickness_cp"]))
    S.append(("aerostruct-wingbox", lambda: [gen.wingbox_surface(crm(), symmetry=True, name="wing", spar_thickness_cp=np.array([0.006, 0.007]), skin_thickness_cp=np.array([0.012, 0.013]), **common)],
              lambda ss: structs.build_aerostruct(ss, Mach=0.85, v=0.85 * 295.07, alpha=1.0, rho=0.348, CT=0.53 / 3600, R=14.307e6, W0=163000.0, a=295.07), ["AS_point_0.fuelburn", "AS_point_0.wing_perf.failure"], ["alpha", "wing.spar_thickness_cp"]))
    return S


def all_outputs(p):
    return {n: np.array(m["val"], dtype=float).copy() for n, m in p.model.list_outputs(out_stream=None, val=True, prom_name=False)}


def run_once(build, surfaces, of, wrt):
    p = build(surfaces); _quiet(p.run_model)
    tot = _quiet(p.compute_totals, of=of, wrt=wrt)
    return p, all_outputs(p), {k: np.array(v).copy() for k, v in tot.items()}


def oracle_runtime(R, tier, seed):
    O1 = R.oracle("finite-outputs"); O2 = R.oracle("repeatable-and-independent-of-other-problems"); O3 = R.oracle("user-dictionaries-not-modified")
    S = setups()
    for idx, (name, mk, build, of, wrt) in enumerate(S):
        surfaces = mk()
        before = [digest(s) for s in surfaces]
        keep = [copy.deepcopy(s) for s in surfaces]
        p, out, tot = run_once(build, surfaces, of, wrt)
        # (i) finite
        O1["cases"] += 1
        bad = [k for k, v in out.items() if not np.all(np.isfinite(v))] + ["total %s" % (k,) for k, v in tot.items() if not np.all(np.isfinite(v))]
        if bad: O1["failures"].append({"key": "C20:%s:non-finite-output" % name, "case": {"model": name}, "outputs": bad[:10]})
        else: O1["ok"] += 1
        # (iii) user data untouched: by the set-up, the run and the derivative computation
        O3["cases"] += 1
        after = [digest(s) for s in surfaces]
        changed = []
        for s, k0, b, a in zip(surfaces, keep, before, after):
            if a != b:
                for key in s:
                    if isinstance(s[key], np.ndarray) and not (s[key].shape == k0[key].shape and np.array_equal(s[key], k0[key])):
                        changed.append("%s['%s']" % (s["name"], key))
        if changed: O3["failures"].append({"key": "C20:%s:user-array-modified(%s)" % (name, changed[0]), "case": {"model": name}, "modified": changed})
        else: O3["ok"] += 1
        # (ii) repeat on the same Problem, on an independent Problem, and interleaved with an unrelated Problem
        O2["cases"] += 1
        diffs = {}
        _quiet(p.run_model); out2 = all_outputs(p)
        q, outq, totq = run_once(build, mk(), of, wrt)
        other = S[(idx + 1) % len(S)]
        r_surfs = mk(); r = build(r_surfs)                       # set up ...
        o_p, _, _ = run_once(other[2], other[1](), other[3], other[4])   # ... run something unrelated in between ...
        _quiet(r.run_model); outr = all_outputs(r)               # ... then run
        coupled = name.startswith("aerostruct")
        tol = 1e-9 if coupled else 1e-12
        for label, o in (("re-run on the same Problem", out2), ("independent Problem", outq), ("interleaved with an unrelated Problem", outr)):
            for k in out:
                a, b = out[k], o.get(k)
                e = 0.0 if b is not None and a.shape == b.shape and a.size == 0 else (float("inf") if b is None or a.shape != b.shape else float(np.abs(a - b).max() / (np.abs(a).max() + 1e-300)))
                if e > tol: diffs.setdefault(label, {})[k] = e
        for k in tot:
            e = float(np.abs(tot[k] - totq[k]).max() / (np.abs(tot[k]).max() + 1e-300)) if np.size(tot[k]) else 0.0
            if e > (1e-7 if coupled else 1e-11): diffs.setdefault("totals of an independent Problem", {})[str(k)] = e
        if diffs: O2["failures"].append({"key": "C20:%s:%s" % (name, sorted(diffs)[0].replace(" ", "-")), "case": {"model": name}, "differences": {k: dict(list(v.items())[:5]) for k, v in diffs.items()}})
        else: O2["ok"] += 1
        R.mark("c20", name)


def oracle_rejections(R, tier, seed):
    """the property's own list, stated directly on the implementation (no model): each unsupported or inconsistent input must
    raise, each unknown key must warn, and the corresponding well-formed input must be accepted"""
    import warnings as W
    from openaerostruct.geometry.utils import generate_mesh
    from openaerostruct.geometry.geometry_group import Geometry, build_sections
    from openaerostruct.aerodynamics.aero_groups import AeroPoint
    from openaerostruct.structures.struct_groups import SpatialBeamAlone
    from openaerostruct.integration.aerostruct_groups import AerostructGeometry
    O = R.oracle("documented-rejections-and-warnings")
    rng = gen.stable_rng(seed, "c20rej")
    mesh = gen.rand_mesh(rng, 2, 3, "left"); fullm = gen.rand_mesh(rng, 2, 3, "full")

    def outcome(fn):
        with W.catch_warnings(record=True) as w:
            W.simplefilter("always")
            try:
                fn(); return None, [str(x.message) for x in w]
            except Exception as e:      # noqa
                return type(e).__name__, [str(x.message) for x in w]

    def setup(group):
        def f():
            p = om.Problem(reports=False); p.model.add_subsystem("g", group()); p.setup()
        return f

    def wb(**kw):
        s = gen.wingbox_surface(mesh)
        for k in ("skin_thickness_cp", "spar_thickness_cp"): s.pop(k, None)
        s.update(kw); return s
    aero_s = lambda m, sym, ground: dict(aero.aero_surface(m, "w", sym), **({"groundplane": True} if ground else {}))
    sec = lambda n, **kw: dict({"name": "ms", "is_multi_section": True, "num_sections": n, "symmetry": True, "S_ref_type": "wetted", "root_chord": 1.0, "nx": 2, "meshes": "gen-meshes",
                                 "ny": np.array([3] * n), "taper": np.ones(n), "span": np.ones(n), "sweep": np.zeros(n), "sec_name": ["s%d" % i for i in range(n)]}, **kw)
    must_raise = [
        ("ground effect without symmetry", setup(lambda: AeroPoint(surfaces=[aero_s(fullm, False, True)]))),
        ("even num_y requested from the mesh generator", lambda: generate_mesh({"num_x": 2, "num_y": 6, "wing_type": "rect", "symmetry": True})),
        ("even num_y requested from the mesh generator, full span, rect", lambda: generate_mesh({"num_x": 2, "num_y": 6, "wing_type": "rect", "symmetry": False})),
        ("even num_y requested from the mesh generator, full span, CRM", lambda: generate_mesh({"num_x": 2, "num_y": 4, "wing_type": "CRM", "symmetry": False})),
        ("even num_y requested from the mesh generator, CRM variant", lambda: generate_mesh({"num_x": 3, "num_y": 8, "wing_type": "CRM:alpha_2.75", "symmetry": True})),
        ("unknown wing type", lambda: generate_mesh({"num_x": 2, "num_y": 5, "wing_type": "elliptical", "symmetry": True})),
        ("unknown wing type, full span", lambda: generate_mesh({"num_x": 2, "num_y": 5, "wing_type": "elliptical", "symmetry": False})),
        ("unknown structural model type (SpatialBeamAlone)", setup(lambda: SpatialBeamAlone(surface=dict(gen.tube_surface(mesh), fem_model_type="shell")))),
        ("unknown structural model type (AerostructGeometry)", setup(lambda: AerostructGeometry(surface=dict(gen.tube_surface(mesh), fem_model_type="shell")))),
        ("only the skin thickness distribution (SpatialBeamAlone)", setup(lambda: SpatialBeamAlone(surface=wb(skin_thickness_cp=np.array([0.01, 0.02]))))),
        ("only the spar thickness distribution (SpatialBeamAlone)", setup(lambda: SpatialBeamAlone(surface=wb(spar_thickness_cp=np.array([0.005, 0.01]))))),
        ("only the skin thickness distribution (AerostructGeometry)", setup(lambda: AerostructGeometry(surface=wb(skin_thickness_cp=np.array([0.01, 0.02]))))),
        ("only the spar thickness distribution (AerostructGeometry)", setup(lambda: AerostructGeometry(surface=wb(spar_thickness_cp=np.array([0.005, 0.01]))))),
        ("multi-section ny list of the wrong length", lambda: build_sections(sec(2, ny=np.array([3, 3, 3])))),
        ("multi-section taper list of the wrong length", lambda: build_sections(sec(2, taper=np.ones(1)))),
        ("multi-section span list of the wrong length", lambda: build_sections(sec(3, span=np.ones(2)))),
        ("multi-section sweep list of the wrong length", lambda: build_sections(sec(2, sweep=np.zeros(3)))),
        ("multi-section name list of the wrong length", lambda: build_sections(sec(2, sec_name=["a"]))),
    ]
    must_accept = [
        ("ground effect with symmetry", setup(lambda: AeroPoint(surfaces=[aero_s(mesh, True, True)]))),
        ("odd num_y, rect", lambda: generate_mesh({"num_x": 2, "num_y": 5, "wing_type": "rect", "symmetry": True})),
        ("CRM variant", lambda: generate_mesh({"num_x": 2, "num_y": 5, "wing_type": "CRM:alpha_2.75", "symmetry": True})),
        ("both thickness distributions (SpatialBeamAlone)", setup(lambda: SpatialBeamAlone(surface=wb(skin_thickness_cp=np.array([0.01, 0.02]), spar_thickness_cp=np.array([0.005, 0.01]))))),
        ("tube (AerostructGeometry)", setup(lambda: AerostructGeometry(surface=gen.tube_surface(mesh)))),
        ("multi-section lists of the right length", lambda: build_sections(sec(2))),
    ]
    must_warn = [
        ("unknown mesh-dict key", lambda: generate_mesh({"num_x": 2, "num_y": 5, "wing_type": "rect", "symmetry": True, "numy": 7}), "numy"),
        ("unknown surface key (Geometry)", setup(lambda: Geometry(surface=dict(gen.tube_surface(mesh), twist=np.zeros(2)))), "twist"),
        ("unknown surface key (AerostructGeometry)", setup(lambda: AerostructGeometry(surface=dict(gen.tube_surface(mesh), Thickness_cp=np.zeros(2)))), "Thickness_cp"),
    ]
    for what, fn in must_raise:
        exc, msgs = outcome(fn); O["cases"] += 1
        if exc is None: O["failures"].append({"key": "C20:accepted-silently:" + what, "case": {"input": what}, "observed": "no exception", "warnings": msgs[:3]})
        else: O["ok"] += 1
    for what, fn in must_accept:
        exc, msgs = outcome(fn); O["cases"] += 1
        if exc is not None: O["failures"].append({"key": "C20:valid-input-rejected:" + what, "case": {"input": what}, "observed": exc})
        else: O["ok"] += 1
    for what, fn, key in must_warn:
        exc, msgs = outcome(fn); O["cases"] += 1
        if not any(("`%s`" % key) in m for m in msgs): O["failures"].append({"key": "C20:no-warning:" + what, "case": {"input": what, "key": key}, "observed": [exc, msgs[:3]]})
        else: O["ok"] += 1
    R.mark("c20rej")


def oracle_multisection_user_meshes(R, tier, seed):
    """multi-section surface with USER-PROVIDED section meshes (each in its own local frame): the documented flow
    build_sections -> unify_mesh (twice, as when two problems are built from the same data) leaves the user's arrays bit for bit
    unchanged and returns the same unified mesh both times"""
    import hashlib
    from openaerostruct.geometry.geometry_group import build_sections
    from openaerostruct.geometry.geometry_unification import unify_mesh
    from openaerostruct.geometry.geometry_mesh_gen import generate_mesh as gen_sections
    O = R.oracle("multisection.user-meshes-untouched-and-repeatable")
    rng = gen.stable_rng(seed, "c20ms")
    for nsec in ((2, 3) if tier == "quick" else (2, 3, 4, 5)):
        nx = int(rng.integers(2, 4)); ny = rng.integers(2, 5, nsec)
        _, secs = gen_sections({"num_sections": nsec, "symmetry": True, "taper": rng.uniform(0.5, 1.0, nsec), "sweep": np.zeros(nsec), "span": rng.uniform(1, 3, nsec),
                                "root_chord": 2.0, "nx": nx, "ny": ny})
        user = [np.array(s) + (rng.normal(size=3) * 0.7 if i else 0.0) for i, s in enumerate(secs)]
        surface = {"name": "ms", "is_multi_section": True, "num_sections": nsec, "symmetry": True, "S_ref_type": "wetted", "meshes": user,
                   "sec_name": ["s%d" % i for i in range(nsec)]}
        dig = lambda: [hashlib.sha256(np.ascontiguousarray(u).tobytes()).hexdigest() for u in user]
        d0 = dig()
        u1 = unify_mesh(build_sections(surface)); d1 = dig()
        u2 = unify_mesh(build_sections(surface)); d2 = dig()
        O["cases"] += 1
        bad = {}
        if d1 != d0 or d2 != d0: bad["user-meshes-modified"] = [i for i, (a, b) in enumerate(zip(d0, d2)) if a != b]
        if u1.shape != u2.shape or np.abs(u1 - u2).max() != 0.0: bad["not-repeatable"] = float(np.abs(u1 - u2).max()) if u1.shape == u2.shape else "shape"
        if not np.all(np.isfinite(u1)): bad["non-finite"] = 1
        if bad: O["failures"].append({"key": "C20:unify_mesh:%s" % sorted(bad)[0], "case": {"num_sections": nsec, "nx": nx, "ny": ny.tolist(), "seed": seed}, "errors": bad})
        else: O["ok"] += 1
        R.mark("c20ms", nsec)
