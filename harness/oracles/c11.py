"""Implementation-only oracles for C11 (no model involved): the property statement itself,
evaluated on the real components.  Used as the failing-input search and run on every check."""
import numpy as np
from .. import core, gen


def _rel(a, b, scale):
    return float(np.max(np.abs(np.asarray(a) - np.asarray(b))) / max(scale, 1e-300))


def force_points(mesh):
    """independent statement of the panel quarter-chord mid points"""
    nx, ny, _ = mesh.shape
    fp = np.zeros((nx - 1, ny - 1, 3))
    for i in range(nx - 1):
        for j in range(ny - 1):
            qc_l = mesh[i, j] + 0.25 * (mesh[i + 1, j] - mesh[i, j])
            qc_r = mesh[i, j + 1] + 0.25 * (mesh[i + 1, j + 1] - mesh[i, j + 1])
            fp[i, j] = 0.5 * (qc_l + qc_r)
    return fp


def oracle_conservation(R, tier, seed):
    from openaerostruct.transfer.load_transfer import LoadTransfer
    from openaerostruct.aerodynamics.mesh_point_forces import MeshPointForces
    O1 = R.oracle("LoadTransfer.conservation")
    O2 = R.oracle("MeshPointForces.conservation")
    rng = gen.stable_rng(seed, "c11_conservation")
    reps = 2 if tier == "quick" else 8
    for kind in ("left", "right", "full"):
        for (nx, ny) in gen.sizes(tier, full=(kind == "full")):
            for rep in range(reps):
                mesh = gen.rand_mesh(rng, nx, ny, kind)
                w2 = float(rng.choice([0.35, 0.0, 1.0, rng.uniform(0, 1)]))
                surf = gen.tube_surface(mesh, symmetry=(kind != "full"), fem_origin=w2)
                F = rng.normal(size=(nx - 1, ny - 1, 3)) * 10 ** rng.uniform(0, 5)
                p = rng.normal(size=3) * 5
                fp = force_points(mesh)
                Ftot = F.sum(axis=(0, 1))
                Mtot = np.cross(fp - p, F).sum(axis=(0, 1))
                fs = max(np.abs(F).sum(), 1e-300)
                ms = max((np.abs(fp - p).max()) * np.abs(F).sum(), 1e-300)
                desc = {"kind": kind, "nx": nx, "ny": ny, "fem_origin": w2, "seed": seed, "rep": rep}
                # LoadTransfer
                # the nodal moments must be taken about the STRUCTURAL nodes, i.e. those ComputeNodes defines for the same surface
                # dictionary: tube (fem_origin), wing box (spar location from the section data), and a wing-box dictionary that
                # also carries a fem_origin entry (which a wing box ignores) - a seeded change that made LoadTransfer follow the
                # entry while ComputeNodes follows the model type was missed without the last variant
                from openaerostruct.structures.compute_nodes import ComputeNodes
                variants = [("tube", surf)]
                if rep == 0:
                    wb = gen.wingbox_surface(mesh, symmetry=(kind != "full"))
                    variants += [("wingbox", wb), ("wingbox+fem_origin-entry", dict(wb, fem_origin=float(rng.choice([0.35, 0.25, 0.5]))))]
                    # airfoil data whose lower-surface x stations differ from the upper ones (coordinates cropped from an airfoil
                    # file): every component must take the spar stations from the same array
                    variants += [("wingbox+lower-stations-differ", dict(wb, data_x_lower=(np.real(gen.WB_LOWER_X) * 1.04 + 0.036).astype(complex)))]
                for vname, sv in variants:
                    outs, _, _ = core.run_comp(LoadTransfer(surface=sv), {"def_mesh": mesh, "sec_forces": F}, want_J=False)
                    loads = outs["loads"]
                    nodes = core.run_comp(ComputeNodes(surface=sv), {"mesh": mesh}, want_J=False)[0]["nodes"]
                    e_f = _rel(loads[:, :3].sum(axis=0), Ftot, fs)
                    e_m = _rel((np.cross(nodes - p, loads[:, :3]) + loads[:, 3:]).sum(axis=0), Mtot, ms)
                    O1["cases"] += 1
                    O1["worst"] = max(O1["worst"], e_f, e_m)
                    if e_f > 1e-10 or e_m > 1e-10:
                        O1["failures"].append({"key": "C11:LoadTransfer(%s):total-force-moment" % vname, "case": dict(desc, structural_model=vname, fem_origin_entry=sv.get("fem_origin")),
                                               "force_err": e_f, "moment_err": e_m,
                                               "mesh": mesh.tolist(), "sec_forces": F.tolist(), "p": p.tolist()})
                    else:
                        O1["ok"] += 1
                # MeshPointForces
                outs, _, _ = core.run_comp(MeshPointForces(surfaces=[surf]), {"wing_sec_forces": F}, want_J=False)
                mpf = outs["wing_mesh_point_forces"]
                e_f = _rel(mpf.sum(axis=(0, 1)), Ftot, fs)
                e_m = _rel(np.cross(mesh - p, mpf).sum(axis=(0, 1)), Mtot, ms)
                O2["cases"] += 1
                O2["worst"] = max(O2["worst"], e_f, e_m)
                if e_f > 1e-10 or e_m > 1e-10:
                    O2["failures"].append({"key": "C11:MeshPointForces:total-force-moment", "case": desc,
                                           "force_err": e_f, "moment_err": e_m,
                                           "mesh": mesh.tolist(), "sec_forces": F.tolist(), "p": p.tolist()})
                else:
                    O2["ok"] += 1
                R.mark("c11cons", kind, nx, ny, rep)


def oracle_rigid_motion(R, tier, seed):
    from openaerostruct.transfer.displacement_transfer_group import DisplacementTransferGroup
    O = R.oracle("DisplacementTransferGroup.rigid-motion")
    rng = gen.stable_rng(seed, "c11_rigid")
    import openmdao.api as om
    for kind in ("left", "right", "full"):
        for (nx, ny) in gen.sizes(tier, full=(kind == "full")):
            mesh = gen.rand_mesh(rng, nx, ny, kind)
            w = float(rng.choice([0.35, 0.0, 1.0, rng.uniform(0, 1)]))
            surf = gen.tube_surface(mesh, symmetry=(kind != "full"), fem_origin=w)
            prob = om.Problem(reports=False)
            prob.model.add_subsystem("g", DisplacementTransferGroup(surface=surf), promotes=["*"])
            prob.model.set_input_defaults("disp", val=np.zeros((ny, 6)), units="m")
            prob.model.set_input_defaults("mesh", val=mesh, units="m")
            prob.setup()
            nodes = (1 - w) * mesh[0] + w * mesh[-1]

            def run(disp):
                prob.set_val("mesh", mesh)
                prob.set_val("nodes", nodes)
                prob.set_val("disp", disp)
                prob.run_model()
                return np.array(prob.get_val("def_mesh")).copy()
            desc = {"kind": kind, "nx": nx, "ny": ny, "fem_origin": w, "seed": seed}
            scale = np.abs(mesh).max()
            errs = {}
            errs["zero"] = _rel(run(np.zeros((ny, 6))), mesh, scale)
            d = np.zeros((ny, 6)); d[:, :3] = rng.normal(size=(ny, 3))
            errs["translation"] = _rel(run(d), mesh + d[None, :, :3], scale)
            r = rng.normal(size=(ny, 3))
            eps = 1e-6
            d = np.zeros((ny, 6)); d[:, 3:] = eps * r
            fo = (run(d) - mesh) / eps
            expect = np.cross(r[None, :, :], mesh - nodes[None, :, :])
            errs["rotation-first-order"] = _rel(fo, expect, max(np.abs(expect).max(), 1e-300))
            O["cases"] += 1
            bad = {k: v for k, v in errs.items() if v > (1e-12 if k != "rotation-first-order" else 1e-4)}
            O["worst"] = max(O["worst"], errs["zero"], errs["translation"])
            if bad:
                O["failures"].append({"key": "C11:DisplacementTransfer:" + sorted(bad)[0], "case": desc, "errors": bad,
                                      "mesh": mesh.tolist()})
            else:
                O["ok"] += 1
            R.mark("c11rigid", kind, nx, ny)


def oracle_group_mesh_point_forces(R, tier, seed):
    """inside AeroPoint (incompressible and Prandtl-Glauert states): the mesh-node forces exported to external solvers
    (<surf>_mesh_point_forces) carry the total force and the total moment of the sectional forces acting at the quarter-chord
    points of the (deformed) mesh - the WIRING of MeshPointForces inside the groups, which the component-level checks do
    not see"""
    from .. import aero as A
    O = R.oracle("AeroPoint.mesh-point-forces-conserve-force-and-moment")
    rng = gen.stable_rng(seed, "c11group")
    for it in range(4 if tier == "quick" else 12):
        comp = bool(it % 2)
        kind = ("left", "full", "right")[it % 3]
        nx, ny = [(2, 3), (3, 5), (4, 3)][int(rng.integers(0, 3))]
        mesh = gen.rand_mesh(rng, nx, ny, kind, offset=False)
        s = A.aero_surface(mesh, "w", kind != "full")
        alpha = float(rng.uniform(1, 8)); M = float(rng.uniform(0.3, 0.85))
        p = A.run(A.build_aero([s], alpha=alpha, Mach=M, compressible=comp, beta=(float(rng.uniform(-5, 5)) if kind == "full" else 0.0)))
        F = A.g(p, "aero.aero_states.w_sec_forces"); mpf = A.g(p, "aero.aero_states.w_mesh_point_forces")
        fp = 0.5 * (0.75 * mesh[:-1, :-1] + 0.25 * mesh[1:, :-1]) + 0.5 * (0.75 * mesh[:-1, 1:] + 0.25 * mesh[1:, 1:])
        pt = rng.normal(size=3)
        Ftot = F.sum(axis=(0, 1)); Mtot = np.cross(fp - pt, F).sum(axis=(0, 1))
        e_f = _rel(mpf.sum(axis=(0, 1)), Ftot, max(np.abs(F).sum(), 1e-300))
        e_m = _rel(np.cross(mesh - pt, mpf).sum(axis=(0, 1)), Mtot, max(np.abs(fp - pt).max() * np.abs(F).sum(), 1e-300))
        O["cases"] += 1; O["worst"] = max(O["worst"], e_f, e_m)
        if e_f > 1e-10 or e_m > 1e-10:
            O["failures"].append({"key": "C11:AeroPoint(%s):mesh-point-forces-total-force-moment" % ("compressible" if comp else "incompressible"),
                                  "case": {"kind": kind, "nx": nx, "ny": ny, "alpha": alpha, "Mach": M, "compressible": comp, "seed": seed, "it": it},
                                  "force_err": e_f, "moment_err": e_m, "mesh": mesh.tolist()})
        else:
            O["ok"] += 1
        R.mark("c11group", it)


def oracle_two_surface_aerostruct(R, tier, seed):
    """converged AerostructPoint with two surfaces of the same mesh shape but different structural reference lines: for EACH
    surface the nodal loads are statically equivalent to its sectional forces about ITS OWN structural nodes"""
    from .. import structs
    O = R.oracle("AerostructPoint(two surfaces).loads-equivalent-to-forces")
    p, surfs = structs.two_surface_aerostruct(seed)
    for s in surfs:
        n = s["name"]; pre = "AS_point_0.coupled."
        defm = structs.g(p, pre + n + ".def_mesh"); secf = structs.g(p, pre + "aero_states.%s_sec_forces" % n); loads = structs.g(p, pre + n + ".loads")
        w = s["fem_origin"]
        nd = (1 - w) * defm[0] + w * defm[-1]
        fp = 0.5 * (0.75 * defm[:-1, :-1] + 0.25 * defm[1:, :-1]) + 0.5 * (0.75 * defm[:-1, 1:] + 0.25 * defm[1:, 1:])
        Ftot = secf.sum(axis=(0, 1)); Mtot = np.cross(fp, secf).sum(axis=(0, 1))
        Fl = loads[:, :3].sum(axis=0); Ml = (np.cross(nd, loads[:, :3]) + loads[:, 3:]).sum(axis=0)
        e_f = _rel(Fl, Ftot, max(np.abs(secf).sum(), 1e-300)); e_m = _rel(Ml, Mtot, max(np.abs(fp).max() * np.abs(secf).sum(), 1e-300))
        O["cases"] += 1; O["worst"] = max(O["worst"], e_f, e_m)
        if e_f > 1e-10 or e_m > 1e-10:
            O["failures"].append({"key": "C11:AerostructPoint(two surfaces):%s-loads-not-equivalent-to-its-forces-about-its-nodes" % n,
                                  "case": {"surface": n, "fem_origin": w, "surfaces": [x["name"] for x in surfs], "seed": seed}, "force_err": e_f, "moment_err": e_m})
        else:
            O["ok"] += 1
    R.mark("c11two", seed)
