"""Implementation-only oracles for C17."""
import numpy as np
import openmdao.api as om
from .. import core, gen

G0 = 9.80665
R_AIR = 1716.49      # ft lbf / (slug degR)


def _fail(O, key, desc, **kw):
    O["failures"].append(dict(key=key, case=desc, **kw))


def oracle_functionals(R, tier, seed):
    from openaerostruct.functionals.total_lift_drag import TotalLiftDrag
    from openaerostruct.functionals.sum_areas import SumAreas
    from openaerostruct.functionals.equilibrium import Equilibrium
    from openaerostruct.functionals.breguet_range import BreguetRange
    from openaerostruct.functionals.center_of_gravity import CenterOfGravity
    from openaerostruct.functionals.moment_coefficient import MomentCoefficient
    O = R.oracle("functionals.identities")
    rng = gen.stable_rng(seed, "c17")
    reps = 4 if tier == "quick" else 20
    for ns in (1, 2, 3, 4):
        for rep in range(reps):
            surfs = [{"name": "s%d" % i, "mesh": np.zeros((2, 3, 3)), "symmetry": bool(rng.integers(0, 2))} for i in range(ns)]
            CLs = rng.uniform(-0.3, 1.4, ns); CDs = rng.uniform(0.005, 0.08, ns); Ss = rng.uniform(2, 400, ns)
            rho = float(rng.uniform(0.2, 1.3)); v = float(rng.uniform(20, 280))
            o, _, _ = core.run_comp(SumAreas(surfaces=surfs), {"s%d_S_ref" % i: Ss[i] for i in range(ns)}, want_J=False)
            S_tot = float(o["S_ref_total"].ravel()[0])
            if rep % 2: S_tot = float(rng.uniform(10, 500))       # user-specified reference area
            ins = {"S_ref_total": S_tot, "rho": rho, "v": v}
            for i in range(ns):
                ins["s%d_CL" % i] = CLs[i]; ins["s%d_CD" % i] = CDs[i]; ins["s%d_S_ref" % i] = Ss[i]
            o, _, _ = core.run_comp(TotalLiftDrag(surfaces=surfs), ins, want_J=False)
            CL, CD, L, D = (float(o[k].ravel()[0]) for k in ("CL", "CD", "L", "D"))
            q = 0.5 * rho * v * v
            bad = {}
            if rep % 2 == 0 and abs(S_tot - Ss.sum()) > 1e-12 * Ss.sum(): bad["sum-areas"] = S_tot
            if abs(CL - (CLs * Ss).sum() / S_tot) > 1e-12 * max(1, abs(CL)): bad["CL-area-weighted"] = CL
            if abs(CD - (CDs * Ss).sum() / S_tot) > 1e-12 * max(1, abs(CD)): bad["CD-area-weighted"] = CD
            if abs(L - q * S_tot * CL) > 1e-11 * abs(q * S_tot * CL) + 1e-300: bad["L=qSCL"] = [L, q * S_tot * CL]
            if abs(D - q * S_tot * CD) > 1e-11 * abs(q * S_tot * CD): bad["D=qSCD"] = [D, q * S_tot * CD]
            ms = rng.uniform(50, 5e4, ns); fb = float(rng.uniform(10, 1e5)); W0 = float(rng.uniform(10, 2e5)); lf = float(rng.choice([1.0, 2.5, 1.05]))
            ins = {"fuelburn": fb, "W0": W0, "load_factor": lf, "CL": CL, "S_ref_total": S_tot, "v": v, "rho": rho}
            for i in range(ns): ins["s%d_structural_mass" % i] = ms[i]
            o, _, _ = core.run_comp(Equilibrium(surfaces=surfs), ins, want_J=False)
            W = (W0 + ms.sum() + fb) * G0 * lf
            tw = float(o["total_weight"].ravel()[0]); lw = float(o["L_equals_W"].ravel()[0])
            if abs(tw - W) > 1e-12 * W: bad["total-weight"] = [tw, W]
            if abs(lw - (1 - L / W)) > 1e-11 * max(1, abs(1 - L / W)): bad["L_equals_W"] = [lw, 1 - L / W]
            # residual zero exactly when lift equals weight: choose CL so that L = W
            CLeq = W / (q * S_tot)
            ins["CL"] = CLeq
            o2, _, _ = core.run_comp(Equilibrium(surfaces=surfs), ins, want_J=False)
            if abs(float(o2["L_equals_W"].ravel()[0])) > 1e-12: bad["residual-zero-at-L=W"] = float(o2["L_equals_W"].ravel()[0])
            CT = float(rng.uniform(1e-5, 3e-4)); a = float(rng.uniform(290, 345)); Rg = float(rng.uniform(1e5, 1.5e7)); M = float(rng.uniform(0.2, 0.9))
            CLp = abs(CL) + 0.1
            ins = {"CT": CT, "CL": CLp, "CD": CD, "speed_of_sound": a, "R": Rg, "Mach_number": M, "W0": W0}
            for i in range(ns): ins["s%d_structural_mass" % i] = ms[i]
            o, _, _ = core.run_comp(BreguetRange(surfaces=surfs), ins, want_J=False)
            ref = (W0 + ms.sum()) * (np.exp(Rg * CT / (a * M) * CD / CLp) - 1)
            fbo = float(o["fuelburn"].ravel()[0])
            if abs(fbo - ref) > 1e-10 * abs(ref) or fbo < 0: bad["breguet"] = [fbo, ref]
            cg0 = rng.normal(size=3) * 5; cgs = rng.normal(size=(ns, 3)) * 5
            ins = {"total_weight": tw, "fuelburn": fb, "W0": W0, "load_factor": lf, "empty_cg": cg0}
            for i in range(ns):
                ins["s%d_structural_mass" % i] = ms[i]; ins["s%d_cg_location" % i] = cgs[i]
            o, _, _ = core.run_comp(CenterOfGravity(surfaces=surfs), ins, want_J=False)
            ref = (W0 * cg0 + (ms[:, None] * cgs).sum(axis=0)) / (W0 + ms.sum())
            if np.abs(o["cg"] - ref).max() > 1e-9 * max(1, np.abs(ref).max()): bad["cg-mass-weighted"] = [o["cg"].tolist(), ref.tolist()]
            # CM
            nx, ny = 3, 4
            ins = {}; Mref = np.zeros(3); mac0 = None
            cg = rng.normal(size=3)
            for i, s in enumerate(surfs):
                b = rng.normal(size=(nx - 1, ny, 3)) * 3; w = rng.uniform(0.2, 2, ny - 1); c = rng.uniform(0.5, 3, ny); Sr = float(rng.uniform(5, 100)); F = rng.normal(size=(nx - 1, ny - 1, 3)) * 1e3
                s["mesh"] = np.zeros((nx, ny, 3))
                ins.update({s["name"] + "_b_pts": b, s["name"] + "_widths": w, s["name"] + "_chords": c, s["name"] + "_S_ref": Sr, s["name"] + "_sec_forces": F})
                pts = 0.5 * (b[:, 1:] + b[:, :-1])
                m = np.cross(pts - cg, F).sum(axis=(0, 1))
                if s["symmetry"]: m = np.array([0.0, 2 * m[1], 0.0])
                Mref += m
                if i == 0:
                    pc = 0.5 * (c[1:] + c[:-1]); mac0 = (pc ** 2 * w).sum() / Sr * (2.0 if s["symmetry"] else 1.0)
            ins.update({"cg": cg, "v": v, "rho": rho, "S_ref_total": S_tot})
            o, _, _ = core.run_comp(MomentCoefficient(surfaces=surfs), ins, want_J=False)
            if np.abs(o["M"] - Mref).max() > 1e-10 * max(1.0, np.abs(Mref).max()): bad["M"] = [o["M"].tolist(), Mref.tolist()]
            CMref = Mref / (q * S_tot * mac0)
            if np.abs(o["CM"] - CMref).max() > 1e-10 * max(1e-12, np.abs(CMref).max()): bad["CM"] = [o["CM"].tolist(), CMref.tolist()]
            O["cases"] += 1
            desc = {"ns": ns, "rep": rep, "seed": seed}
            if bad: _fail(O, "C17:functionals:" + sorted(bad)[0], desc, errors=bad)
            else: O["ok"] += 1
            R.mark("c17f", ns, rep)


def oracle_atmosphere(R, tier, seed):
    """AtmosGroup: ideal gas, speed of sound, v = M a, Reynolds number, continuity in altitude."""
    from openaerostruct.common.atmos_group import AtmosGroup
    from openaerostruct.common.atmos_comp import USatm1976Data as D
    O = R.oracle("AtmosGroup.consistency")
    rng = gen.stable_rng(seed, "c17atm")
    p = om.Problem(reports=False); p.model.add_subsystem("a", AtmosGroup(), promotes=["*"]); p.setup()

    def at(h, M):
        p.set_val("altitude", h, units="ft"); p.set_val("Mach_number", M); p.run_model()
        return {k: float(p.get_val(k, units=u)[0]) for k, u in (("T", "degR"), ("P", "psi"), ("rho", "slug/ft**3"), ("speed_of_sound", "ft/s"), ("mu", "lbf*s/ft**2"), ("v", "ft/s"), ("re", "1/ft"))}
    knots = [float(h) for h in D.alt]
    n_rand = 40 if tier == "quick" else 400
    hs = knots + list(rng.uniform(-1000, 150000, n_rand))
    for idx, h in enumerate(hs):
        M = float(rng.uniform(0.05, 0.9))
        o = at(h, M)
        is_knot = idx < len(knots)
        tol = 2e-4 if is_knot else 3e-3          # table rounding at knots; separate interpolation of each column between knots
        bad = {}
        P = o["P"] * 144
        if not all(np.isfinite(list(o.values()))): bad["non-finite"] = o
        elif abs(P - o["rho"] * R_AIR * o["T"]) > tol * P: bad["ideal-gas"] = (P - o["rho"] * R_AIR * o["T"]) / P
        elif abs(o["speed_of_sound"] ** 2 - 1.4 * R_AIR * o["T"]) > tol * o["speed_of_sound"] ** 2: bad["speed-of-sound"] = 1
        elif abs(o["v"] - M * o["speed_of_sound"]) > 1e-12 * o["v"]: bad["v=Ma"] = 1
        elif abs(o["re"] - o["rho"] * o["v"] / o["mu"]) > 1e-12 * o["re"]: bad["reynolds"] = 1
        # continuity: a step of 1e-3 ft changes nothing by more than 1e-6 relative
        if not bad and h + 1e-3 <= 150000:
            o2 = at(h + 1e-3, M)
            for k in o:
                if abs(o2[k] - o[k]) > 1e-6 * abs(o[k]): bad["discontinuous-" + k] = [o[k], o2[k]]
        # the same altitude again with another Mach number on the same problem (a Mach sweep at fixed altitude): everything that
        # depends on the Mach number must follow it
        if not bad:
            o0 = at(h, M); o3 = at(h, 0.5 * M)
            if abs(o3["v"] - 0.5 * M * o3["speed_of_sound"]) > 1e-12 * abs(o0["v"]): bad["v=Ma-after-Mach-change-at-fixed-altitude"] = [o3["v"], 0.5 * M * o3["speed_of_sound"]]
            elif abs(o3["re"] - o3["rho"] * o3["v"] / o3["mu"]) > 1e-12 * o3["re"]: bad["reynolds-after-Mach-change-at-fixed-altitude"] = 1
            elif any(abs(o3[k] - o0[k]) > 0 for k in ("T", "P", "rho", "speed_of_sound", "mu")): bad["state-depends-on-Mach"] = 1
        O["cases"] += 1
        if bad: _fail(O, "C17:AtmosGroup:" + sorted(bad)[0], {"altitude_ft": h, "Mach": M, "knot": is_knot}, errors=bad, outputs=o)
        else: O["ok"] += 1
        R.mark("c17a", round(h, 3))
