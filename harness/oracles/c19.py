"""Implementation-only oracle for C19: surface order, splitting, distant surfaces, MPhys wrappers, mux/demux."""
import warnings
import numpy as np
import openmdao.api as om
from .. import core, gen, aero


def _fail(O, key, desc, **kw):
    O["failures"].append(dict(key=key, case=desc, **kw))


def _rel(a, b):
    a, b = np.asarray(a, float), np.asarray(b, float)
    return float(np.abs(a - b).max() / max(np.abs(b).max(), 1e-300))


def _run(meshes, names, syms, comp=False, **flow):
    surfs = [aero.aero_surface(m, name=n, symmetry=s, with_viscous=True) for m, n, s in zip(meshes, names, syms)]
    p = aero.run(aero.build_aero(surfs, compressible=comp, **flow))
    out = {"CL": aero.g(p, "aero.CL"), "CD": aero.g(p, "aero.CD"), "CM": aero.g(p, "aero.CM")}
    for n in names:
        out[n + "_F"] = aero.g(p, "aero.aero_states.%s_sec_forces" % n)
        for k in ("CL", "CDi", "CDv"):
            out[n + "_" + k] = aero.g(p, "aero.%s_perf.%s" % (n, k))
        out[n + "_S"] = aero.g(p, "aero.%s.S_ref" % n)
        out[n + "_MAC"] = None
    return out


def oracle_composition(R, tier, seed):
    O1 = R.oracle("AeroPoint.surface-permutation"); O2 = R.oracle("AeroPoint.spanwise-split"); O3 = R.oracle("AeroPoint.distant-surface")
    rng = gen.stable_rng(seed, "c19")
    for it in range(3 if tier == "quick" else 10):
        ns = 2 + it % 2
        meshes, syms = [], []
        for si in range(ns):
            nx, ny = [(2, 3), (3, 3), (2, 5), (3, 5)][int(rng.integers(0, 4))]
            meshes.append(gen.rand_mesh(rng, nx, ny, "full", offset=False) + np.array([4.5 * si, rng.uniform(-1, 1), 0.7 * si])); syms.append(False)
        names = ["s%d" % i for i in range(ns)]
        comp = bool(it % 2)
        flow = dict(alpha=float(rng.uniform(-5, 10)), beta=float(rng.uniform(-8, 8)), v=float(rng.uniform(50, 250)), rho=float(rng.uniform(0.3, 1.2)), Mach=float(rng.uniform(0.2, 0.8)), cg=rng.normal(size=3))
        base = _run(meshes, names, syms, comp, **flow)
        perm = list(rng.permutation(ns))
        if perm == list(range(ns)): perm = perm[::-1]
        pm = _run([meshes[i] for i in perm], [names[i] for i in perm], [syms[i] for i in perm], comp, **flow)
        bad = {}
        for n in names:
            for k in ("_F", "_CL", "_CDi", "_CDv", "_S"):
                if _rel(pm[n + k], base[n + k]) > 1e-8: bad[n + k] = _rel(pm[n + k], base[n + k])
        for k in ("CL", "CD"):
            if _rel(pm[k], base[k]) > 1e-8: bad[k] = _rel(pm[k], base[k])
        # CM is normalised by the MAC of the first listed surface (documented): compare the dimensional moment instead
        O1["cases"] += 1
        desc = {"nsurf": ns, "permutation": [int(i) for i in perm], "compressible": comp, "seed": seed, "it": it, **{k: (v.tolist() if hasattr(v, "tolist") else v) for k, v in flow.items()}}
        if bad: _fail(O1, "C19:AeroPoint:%s-depends-on-surface-order" % sorted(bad)[0].split("_")[-1], desc, errors=bad, meshes=[m.tolist() for m in meshes])
        else: O1["ok"] += 1
        # split the first surface at an interior spanwise station into two abutting surfaces
        m0 = meshes[0]; ny0 = m0.shape[1]
        if ny0 >= 3:
            cut = int(rng.integers(1, ny0 - 1))
            parts = [m0[:, :cut + 1].copy(), m0[:, cut:].copy()]
            sp = _run(parts + meshes[1:], ["a", "b"] + names[1:], [False, False] + syms[1:], comp, **flow)
            Fs = np.concatenate([sp["a_F"], sp["b_F"]], axis=1)
            bad = {}
            if _rel(Fs, base["s0_F"]) > 1e-8: bad["sec_forces"] = _rel(Fs, base["s0_F"])
            for n in names[1:]:
                if _rel(sp[n + "_F"], base[n + "_F"]) > 1e-8: bad[n + "_F"] = _rel(sp[n + "_F"], base[n + "_F"])
            for k in ("CL",):
                if _rel(sp[k], base[k]) > 1e-8: bad[k] = _rel(sp[k], base[k])
            # area-weighted recombination of the per-surface coefficients of the two parts
            Sa, Sb = float(sp["a_S"][0]), float(sp["b_S"][0])
            for k in ("CL", "CDi", "CDv"):
                comb = (float(sp["a_" + k][0]) * Sa + float(sp["b_" + k][0]) * Sb) / (Sa + Sb)
                if abs(comb - float(base["s0_" + k][0])) > 1e-8 * max(abs(float(base["s0_" + k][0])), 1e-6): bad["recombined_" + k] = [comb, float(base["s0_" + k][0])]
            O2["cases"] += 1
            if bad: _fail(O2, "C19:AeroPoint:%s-changes-when-surface-is-split" % sorted(bad)[0], dict(desc, cut=cut), errors=bad, meshes=[m.tolist() for m in meshes])
            else: O2["ok"] += 1
        # a surface far away (not in the wake plane direction: displaced laterally and vertically) has vanishing influence
        solo = _run(meshes[:1], names[:1], syms[:1], comp, **flow)
        devs = []
        for dist in (1e2, 1e4, 1e6):
            far = meshes[1] + np.array([0.0, dist, dist])
            two = _run([meshes[0], far], names[:2], syms[:2], comp, **flow)
            devs.append(_rel(two["s0_F"], solo["s0_F"]))
        O3["cases"] += 1
        if devs[-1] > 1e-9 or not (devs[0] >= devs[1] >= devs[2]): _fail(O3, "C19:AeroPoint:distant-surface-has-influence", desc, deviations=devs)
        else: O3["ok"] += 1
        R.mark("c19", it)


def oracle_mixed_handedness(R, tier, seed):
    """symmetric surfaces described by different halves in ONE model (a wing by its left half, a tail by its right half):
    the result does not depend on the order of the list and equals that of the all-left description of the same aircraft"""
    from .c07 import mirror_mesh
    O = R.oracle("AeroPoint.mixed-left-right-halves")
    rng = gen.stable_rng(seed, "c19mixed")
    for it in range(2 if tier == "quick" else 6):
        ns = 2 + it % 2
        lefts = []
        for si in range(ns):
            nx, ny = [(2, 3), (3, 4), (2, 4)][int(rng.integers(0, 3))]
            lefts.append(gen.rand_mesh(rng, nx, ny, "left", offset=False) + np.array([4.5 * si, 0.0, 0.7 * si]))
        hand = [("L", "R", "L")[(si + it) % 3] for si in range(ns)]
        if "R" not in hand: hand[-1] = "R"
        if "L" not in hand: hand[0] = "L"
        meshes = [m if h == "L" else mirror_mesh(m) for m, h in zip(lefts, hand)]
        names = ["s%d" % i for i in range(ns)]; syms = [True] * ns
        comp = bool(it % 2)
        flow = dict(alpha=float(rng.uniform(-3, 9)), beta=0.0, v=float(rng.uniform(50, 250)), rho=float(rng.uniform(0.3, 1.2)), Mach=float(rng.uniform(0.2, 0.8)), cg=np.array([rng.normal(), 0.0, rng.normal()]))
        base = _run(meshes, names, syms, comp, **flow)
        perm = list(range(ns))[::-1]
        pm = _run([meshes[i] for i in perm], [names[i] for i in perm], syms, comp, **flow)
        allleft = _run(lefts, names, syms, comp, **flow)
        bad = {}
        for n, h in zip(names, hand):
            for k in ("_CL", "_CDi", "_CDv", "_S"):
                if _rel(pm[n + k], base[n + k]) > 1e-8: bad["order:" + n + k] = _rel(pm[n + k], base[n + k])
                if _rel(allleft[n + k], base[n + k]) > 1e-8: bad["all-left:" + n + k] = _rel(allleft[n + k], base[n + k])
            if _rel(pm[n + "_F"], base[n + "_F"]) > 1e-8: bad["order:" + n + "_F"] = _rel(pm[n + "_F"], base[n + "_F"])
            Fl = allleft[n + "_F"]; Fb = base[n + "_F"] if h == "L" else base[n + "_F"][:, ::-1] * np.array([1.0, -1.0, 1.0])
            if _rel(Fl, Fb) > 1e-8: bad["all-left:" + n + "_F"] = _rel(Fl, Fb)
        for k in ("CL", "CD"):
            if _rel(pm[k], base[k]) > 1e-8: bad["order:" + k] = _rel(pm[k], base[k])
            if _rel(allleft[k], base[k]) > 1e-8: bad["all-left:" + k] = _rel(allleft[k], base[k])
        O["cases"] += 1
        desc = {"nsurf": ns, "halves": hand, "compressible": comp, "seed": seed, "it": it, **{k: (v.tolist() if hasattr(v, "tolist") else v) for k, v in flow.items()}}
        if bad: _fail(O, "C19:AeroPoint:mixed-left-and-right-halves-%s" % ("depend-on-surface-order" if any(k.startswith("order") for k in bad) else "differ-from-all-left-description"), desc, errors=bad, meshes=[m.tolist() for m in meshes])
        else: O["ok"] += 1
        R.mark("c19mixed", it)


def oracle_mphys(R, tier, seed):
    """MPhys wrapper groups vs the native AeroPoint; mux/demux exactness and adjoint consistency."""
    from mphys.core import MPhysVariables as MV
    from openaerostruct.mphys.aero_solver_group import AeroSolverGroup
    from openaerostruct.mphys.aero_funcs_group import AeroFuncsGroup
    from openaerostruct.mphys.demux_surface_mesh import DemuxSurfaceMesh
    from openaerostruct.mphys.mux_surface_forces import MuxSurfaceForces
    O1 = R.oracle("MPhys-wrappers.vs-AeroPoint"); O2 = R.oracle("MPhys.mux-demux")
    rng = gen.stable_rng(seed, "c19mphys")
    F = MV.Aerodynamics.FlowConditions
    for it in range(2 if tier == "quick" else 6):
        # three surfaces of different sizes in the quick tier too: the flattened-vector index maps of the wrappers (block offsets)
        # are only distinguishable from "offset = size of the previous surface" from the third surface on
        ns = [1, 3, 2, 3, 2, 4][it % 6]
        comp = bool(it % 2)
        meshes = []
        for si in range(ns):
            nx, ny = [(2, 3), (3, 5), (2, 5)][(int(rng.integers(0, 3)) + si) % 3]
            meshes.append(gen.rand_mesh(rng, nx, ny, "full", offset=False) + np.array([4.5 * si, 0.0, 0.7 * si]))
        names = ["s%d" % i for i in range(ns)]
        surfs = [aero.aero_surface(m, name=n, symmetry=False, with_viscous=True) for m, n in zip(meshes, names)]
        alpha = float(rng.uniform(-4, 8)); beta = float(rng.uniform(-5, 5)); v = float(rng.uniform(50, 250)); rho = float(rng.uniform(0.3, 1.2)); M = float(rng.uniform(0.2, 0.8)); re = 1e6; cg = rng.normal(size=3)
        nat = aero.run(aero.build_aero(surfs, alpha=alpha, beta=beta, v=v, rho=rho, Mach=M, re=re, cg=cg, compressible=comp))
        p = om.Problem(reports=False)
        ivc = p.model.add_subsystem("ivc", om.IndepVarComp(), promotes=["*"])
        ivc.add_output(F.ANGLE_OF_ATTACK, val=alpha, units="deg"); ivc.add_output(F.YAW_ANGLE, val=beta, units="deg"); ivc.add_output(F.MACH_NUMBER, val=M)
        ivc.add_output(F.REYNOLDS_NUMBER, val=re, units="1/m"); ivc.add_output("v", val=v, units="m/s"); ivc.add_output("rho", val=rho, units="kg/m**3"); ivc.add_output("cg", val=cg, units="m")
        x = np.concatenate([m.ravel() for m in meshes])
        ivc.add_output(MV.Aerodynamics.Surface.COORDINATES, val=x, units="m")
        p.model.add_subsystem("demux", DemuxSurfaceMesh(surfaces=surfs), promotes=["*"])
        p.model.add_subsystem("solver", AeroSolverGroup(surfaces=surfs, compressible=comp), promotes=["*"])
        p.model.add_subsystem("mux", MuxSurfaceForces(surfaces=surfs), promotes=["*"])
        p.model.add_subsystem("funcs", AeroFuncsGroup(surfaces=surfs, write_solution=False), promotes=["*"])
        for n in names:
            p.model.add_subsystem(n + "_toc", om.IndepVarComp(n + "_t_over_c_in", val=np.ones(surfs[0]["mesh"].shape[1] - 1) * 0.12))
        with warnings.catch_warnings():
            warnings.simplefilter("ignore")
            p.setup()
            for n, s in zip(names, surfs):
                p.set_val(n + ".t_over_c", np.ones(s["mesh"].shape[1] - 1) * 0.12)
            p.run_model()
        bad = {}
        for n in names:
            e = _rel(p.get_val(n + ".sec_forces"), aero.g(nat, "aero.aero_states.%s_sec_forces" % n))
            if e > 1e-9: bad[n + "_sec_forces"] = e
        for k in ("CL", "CD", "CM"):
            e = _rel(p.get_val(k), aero.g(nat, "aero." + k))
            if e > 1e-9 and np.abs(p.get_val(k) - aero.g(nat, "aero." + k)).max() > 1e-12: bad[k] = e
        O1["cases"] += 1
        desc = {"nsurf": ns, "compressible": comp, "alpha": alpha, "beta": beta, "Mach": M, "seed": seed, "it": it}
        if bad: _fail(O1, "C19:MPhys:%s-differs-from-native-groups" % sorted(bad)[0], desc, errors=bad)
        else: O1["ok"] += 1
        # mux / demux: exact inverse permutations and adjoint-consistent products
        loads = p.get_val(MV.Aerodynamics.Surface.LOADS)
        rec = np.concatenate([p.get_val(n + "_mesh_point_forces").ravel() for n in names])
        dm = np.concatenate([p.get_val(n + "_def_mesh").ravel() for n in names])
        bad = {}
        if np.abs(loads - rec).max() != 0.0: bad["mux-not-exact"] = float(np.abs(loads - rec).max())
        if np.abs(dm - x).max() != 0.0: bad["demux-not-exact"] = float(np.abs(dm - x).max())
        with warnings.catch_warnings():
            warnings.simplefilter("ignore")
            of = [MV.Aerodynamics.Surface.LOADS]; wrt = [MV.Aerodynamics.Surface.COORDINATES, F.ANGLE_OF_ATTACK]
            Jf = p.compute_totals(of=of, wrt=wrt, return_format="array")
            p2 = p  # same problem, reverse mode needs a new setup
        O2["cases"] += 1
        if bad: _fail(O2, "C19:MPhys:%s" % sorted(bad)[0], desc, errors=bad)
        else: O2["ok"] += 1
        R.mark("c19m", it)
