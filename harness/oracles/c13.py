"""Implementation-only oracle for C13: Geometry group defaults and documented effects of each design variable."""
import warnings
import numpy as np
import openmdao.api as om
from .. import core, gen


def _fail(O, key, desc, **kw):
    O["failures"].append(dict(key=key, case=desc, **kw))


def geometry(surface, setvals=None):
    from openaerostruct.geometry.geometry_group import Geometry
    p = om.Problem(reports=False)
    p.model.add_subsystem("g", Geometry(surface=surface), promotes=["*"])
    with warnings.catch_warnings():
        warnings.simplefilter("ignore")
        p.setup()
        for k, v in (setvals or {}).items():
            p.set_val(k, v)
        p.run_model()
    return p


def oracle_defaults(R, tier, seed):
    O = R.oracle("Geometry.defaults-leave-mesh-unchanged")
    rng = gen.stable_rng(seed, "c13def")
    for kind in ("left", "right", "full"):
        for family in ("flat", "pretwisted", "cambered", "dihedral", "cambered+dihedral"):
            for (nx, ny) in ([(2, 3), (3, 5)] if tier == "quick" else [(2, 3), (3, 5), (4, 7), (2, 9)]):
                m = gen.rand_mesh(rng, nx, ny, kind, plain=True, offset=False)
                if family in ("pretwisted", "cambered+dihedral"):
                    # a panel whose root is NOT on the plane y = 0 (wing attached at the fuselage side, outboard panel, off-centre
                    # full-span surface): "current span" is the extent of the mesh itself
                    shift = float(rng.uniform(0.5, 3.0)) * (-1.0 if kind == "left" else 1.0)
                    m[:, :, 1] += shift
                y = m[0, :, 1]; b = np.abs(y).max()
                chordx = (m[:, :, 0] - m[0, :, 0]) / (m[-1, :, 0] - m[0, :, 0])
                if "pretwisted" in family:
                    tw = np.deg2rad(5.0) * np.abs(y) / b
                    m[:, :, 2] += -(m[:, :, 0] - m[0, :, 0]) * np.tan(tw)
                if "cambered" in family:
                    m[:, :, 2] += 0.05 * 4 * chordx * (1 - chordx) * (m[-1, :, 0] - m[0, :, 0]) if nx > 2 else 0.0
                    if nx == 2: m[1, :, 2] += 0.03          # chord line inclined: trailing edge off the axis plane
                if "dihedral" in family:
                    m[:, :, 2] += np.abs(y) * np.tan(np.deg2rad(8.0))
                for rap in (0.25, 0.6):
                    surf = {"name": "w", "mesh": m, "symmetry": kind != "full", "ref_axis_pos": rap,
                            # every design variable present, at its documented default value
                            "taper": 1.0, "chord_cp": np.ones(3), "sweep": 0.0, "xshear_cp": np.zeros(3), "yshear_cp": np.zeros(3), "dihedral": 0.0,
                            "zshear_cp": np.zeros(3), "twist_cp": np.zeros(3)}
                    p = geometry(surf)
                    out = np.array(p.get_val("mesh"))
                    err = float(np.abs(out - m).max())
                    O["cases"] += 1
                    desc = {"kind": kind, "family": family, "nx": nx, "ny": ny, "ref_axis_pos": rap, "seed": seed}
                    if err > 1e-12 * max(1.0, np.abs(m).max()):
                        # attribute: which transformation moved it
                        comp = None
                        prev = m
                        for name in ["taper", "scale_x", "sweep", "shear_x", "stretch", "shear_y", "dihedral", "shear_z", "rotate"]:
                            cur = np.array(p.get_val("g.mesh." + name + ".mesh")) if name != "rotate" else out
                            if np.abs(cur - prev).max() > 1e-12 * max(1.0, np.abs(m).max()) and comp is None:
                                comp = name
                            prev = cur
                        if comp == "rotate" and family != "flat":
                            key = "C13:Rotate.compute:zero-twist-rotates-chord-offsets-about-x"
                        else:
                            key = "C13:Geometry:%s-not-noop-at-defaults" % comp
                        _fail(O, key, desc, max_abs_change_m=err, first_component_that_moves_the_mesh=comp)
                    else: O["ok"] += 1
                    R.mark("c13d", kind, family, nx, ny, rap)


def oracle_effects(R, tier, seed):
    """documented effect of each variable through the Geometry group (left-half and full-span flat meshes)"""
    O = R.oracle("Geometry.documented-effects")
    rng = gen.stable_rng(seed, "c13eff")
    for kind in ("left", "full"):
        for (nx, ny) in ([(2, 5), (3, 5)] if tier == "quick" else [(2, 5), (3, 5), (4, 7), (2, 9)]):
            m = gen.rand_mesh(rng, nx, ny, kind, plain=True, offset=False)
            m[:, :, 0] += np.abs(m[:, :, 1]) * 0.2           # some initial sweep
            sym = kind != "full"; rap = float(rng.choice([0.25, 0.6, 0.0, 1.0]))
            ra0 = rap * m[-1] + (1 - rap) * m[0]
            yroot = 0.0
            base = {"name": "w", "mesh": m, "symmetry": sym, "ref_axis_pos": rap}
            desc = {"kind": kind, "nx": nx, "ny": ny, "ref_axis_pos": rap, "seed": seed}
            bad = {}
            tol = 1e-10
            # sweep
            ang = float(rng.uniform(5, 30)); o = np.array(geometry(dict(base, sweep=ang)).get_val("mesh"))
            exp = m.copy(); exp[:, :, 0] += np.abs(m[0, :, 1] - yroot) * np.tan(np.deg2rad(ang))
            if np.abs(o - exp).max() > tol: bad["sweep"] = float(np.abs(o - exp).max())
            # dihedral
            ang = float(rng.uniform(2, 12)); o = np.array(geometry(dict(base, dihedral=ang)).get_val("mesh"))
            exp = m.copy(); exp[:, :, 2] += np.abs(m[0, :, 1] - yroot) * np.tan(np.deg2rad(ang))
            if np.abs(o - exp).max() > tol: bad["dihedral"] = float(np.abs(o - exp).max())
            # taper: chords scaled linearly from 1 at the root to t at the tip, about the reference axis
            t = float(rng.uniform(0.3, 0.9)); o = np.array(geometry(dict(base, taper=t)).get_val("mesh"))
            halfspan = np.abs(ra0[:, 1]).max()
            fac = 1 + (t - 1) * np.abs(ra0[:, 1]) / halfspan
            exp = (m - ra0) * fac[None, :, None] + ra0
            if np.abs(o - exp).max() > tol: bad["taper"] = float(np.abs(o - exp).max())
            # span: tip-to-tip extent
            sp = float(2 * halfspan * rng.uniform(0.6, 1.5)); o = np.array(geometry(dict(base, span=sp)).get_val("mesh"))
            rao = rap * o[-1] + (1 - rap) * o[0]
            ext = (rao[:, 1].max() - rao[:, 1].min()) * (2.0 if sym else 1.0)
            if abs(ext - sp) > tol * sp or np.abs(o[:, :, [0, 2]] - m[:, :, [0, 2]]).max() > tol: bad["span"] = [ext, sp]
            # constant spline distributions: chord scaling, twist about the axis (chord length preserved), shears translate
            c = float(rng.uniform(0.6, 1.4)); o = np.array(geometry(dict(base, chord_cp=np.ones(3) * c)).get_val("mesh"))
            exp = (m - ra0) * c + ra0
            if np.abs(o - exp).max() > tol: bad["chord"] = float(np.abs(o - exp).max())
            tw = float(rng.uniform(-8, 8)); p = geometry(dict(base, twist_cp=np.ones(4) * tw)); o = np.array(p.get_val("mesh"))
            if np.abs(np.array(p.get_val("twist")) - tw).max() > 1e-12: bad["constant-spline"] = float(np.abs(np.array(p.get_val("twist")) - tw).max())
            rao = rap * o[-1] + (1 - rap) * o[0]
            if np.abs(rao - ra0).max() > tol: bad["twist-moves-axis"] = float(np.abs(rao - ra0).max())
            if np.abs(np.linalg.norm(o[-1] - o[0], axis=1) - np.linalg.norm(m[-1] - m[0], axis=1)).max() > tol: bad["twist-changes-chord-length"] = 1
            # nose-up positive: leading edge rises
            if tw > 0.5 and not np.all(o[0, :, 2] > m[0, :, 2] - 1e-12): bad["twist-sign"] = 1
            for key, ax in (("xshear_cp", 0), ("yshear_cp", 1), ("zshear_cp", 2)):
                s = float(rng.normal() * 0.3); o = np.array(geometry(dict(base, **{key: np.ones(3) * s})).get_val("mesh"))
                exp = m.copy(); exp[:, :, ax] += s
                if np.abs(o - exp).max() > tol: bad[key] = float(np.abs(o - exp).max())
            O["cases"] += 1
            if bad: _fail(O, "C13:Geometry:%s-effect-not-as-documented" % sorted(bad)[0], desc, errors=bad, mesh=m.tolist())
            else: O["ok"] += 1
            R.mark("c13e", kind, nx, ny)
