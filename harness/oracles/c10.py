"""Implementation-only oracle for C10: SpatialBeamAlone against an independently assembled 3-D
Euler-Bernoulli frame (textbook element, direction cosines, direct stiffness, clamped root)."""
import numpy as np
from .. import core, gen, structs


def _fail(O, key, desc, **kw):
    O["failures"].append(dict(key=key, case=desc, **kw))


def frame_element(E, G, A, J, Iy, Iz, L):
    """textbook element, DOF order (u,v,w,rx,ry,rz) x 2 (Przemieniecki)"""
    k = np.zeros((12, 12))
    a = E * A / L; t = G * J / L
    for (i, j, s) in ((0, 0, 1), (0, 6, -1), (6, 0, -1), (6, 6, 1)):
        k[i, j] = a * s; k[i + 3, j + 3] = t * s
    bz = E * Iz / L ** 3 * np.array([[12, 6 * L, -12, 6 * L], [6 * L, 4 * L * L, -6 * L, 2 * L * L], [-12, -6 * L, 12, -6 * L], [6 * L, 2 * L * L, -6 * L, 4 * L * L]])
    by = E * Iy / L ** 3 * np.array([[12, -6 * L, -12, -6 * L], [-6 * L, 4 * L * L, 6 * L, 2 * L * L], [-12, 6 * L, 12, 6 * L], [-6 * L, 2 * L * L, 6 * L, 4 * L * L]])
    iz = [1, 5, 7, 11]; iy = [2, 4, 8, 10]
    for a_, p in enumerate(iz):
        for b_, q in enumerate(iz):
            k[p, q] = bz[a_, b_]
    for a_, p in enumerate(iy):
        for b_, q in enumerate(iy):
            k[p, q] = by[a_, b_]
    return k


def assemble(nodes, E, G, A, J, Iy, Iz):
    ny = nodes.shape[0]
    K = np.zeros((6 * ny, 6 * ny))
    for e in range(ny - 1):
        d = nodes[e + 1] - nodes[e]; L = np.linalg.norm(d)
        x = d / L; y = np.cross(x, [1.0, 0, 0]); y /= np.linalg.norm(y); z = np.cross(x, y)
        Rm = np.array([x, y, z])
        T = np.zeros((12, 12))
        for b in range(4):
            T[3 * b:3 * b + 3, 3 * b:3 * b + 3] = Rm
        ke = T.T @ frame_element(E, G, A[e], J[e], Iy[e], Iz[e], L) @ T
        idx = list(range(6 * e, 6 * e + 12))
        K[np.ix_(idx, idx)] += ke
    return K


def oracle_equilibrium(R, tier, seed):
    O = R.oracle("SpatialBeamAlone.vs-independent-frame"); O2 = R.oracle("SpatialBeamAlone.linearity-reciprocity")
    rng = gen.stable_rng(seed, "c10")
    nit = 6 if tier == "quick" else 24
    for it in range(nit + (2 if tier == "quick" else 6)):
        steep = it >= nit
        model = "tube" if (it % 3 != 2 and not steep) else "wingbox"
        kind = ["left", "full", "right"][it % 3]
        ny = int(rng.choice([2, 3, 4, 5])) if kind != "full" else int(rng.choice([3, 5]))
        mesh = gen.rand_mesh(rng, 2, ny, kind, offset=False)
        if steep:
            # steeply swept spar (65-78 degrees: element direction cosine along x up to 0.98) with a wing-box section
            # (Iy != Iz): the element frame is built from the element axis and the GLOBAL x axis whatever the sweep
            mesh[:, :, 0] += np.abs(mesh[:, :, 1]) * np.tan(np.deg2rad(float(rng.uniform(65, 78))))
        if kind == "full" and it % 2 == 1:
            # a full-span surface need not straddle y = 0 (tail off the centreline, translated wing): the clamped node is the
            # MIDDLE node whatever its y (a seeded change that clamped the node nearest y = 0 was missed without this)
            mesh = mesh + np.array([0.0, float(rng.uniform(3, 9)) * (1 if it % 4 == 1 else -1), 0.0])
        sym = kind != "full"
        mk = gen.tube_surface if model == "tube" else gen.wingbox_surface
        s = mk(mesh, symmetry=sym, struct_weight_relief=False, distributed_fuel_weight=False)
        loads = rng.normal(size=(ny, 6)) * np.array([1e3, 1e3, 1e4, 1e3, 1e3, 1e3])
        if it % 3 == 1:
            # loads of very different magnitude on the same beam (MN lift with N-size chordwise and spanwise components, all far
            # above the documented absolute 1e-6 cut-off): every one of them must be carried
            loads = rng.normal(size=(ny, 6)) * np.array([2.0, 1.5, 0.0, 0.8, 0.0, 1.0]); loads[:, 2] = 2.5e6 * rng.uniform(0.5, 1.0, ny); loads[:, 4] = -4e5
        p = structs.run(structs.build_struct(s, loads))
        nodes = structs.g(p, "wing.nodes"); disp = structs.g(p, "wing.disp")
        A = structs.g(p, "wing.A"); Iy = structs.g(p, "wing.Iy"); Iz = structs.g(p, "wing.Iz"); J = structs.g(p, "wing.J")
        K = assemble(nodes, s["E"], s["G"], A, J, Iy, Iz)
        root = ny - 1 if sym else (ny - 1) // 2
        if kind == "right": pass       # the code clamps the LAST node of any symmetric surface
        u = disp.ravel(); f = loads.ravel()
        free = [i for i in range(6 * ny) if not (6 * root <= i < 6 * root + 6)]
        res = K @ u - f
        scale = np.abs(K).max() * np.abs(u).max() + np.abs(f).max()
        bad = {}
        if np.abs(u[6 * root:6 * root + 6]).max() > 1e-9 * max(np.abs(u).max(), 1e-300): bad["root-not-clamped"] = float(np.abs(u[6 * root:6 * root + 6]).max() / np.abs(u).max())
        if np.abs(res[free]).max() > 1e-8 * scale: bad["equilibrium-residual"] = float(np.abs(res[free]).max() / scale)
        # row by row against the load of that row: a small load component must not be lost next to large ones
        small = [i for i in free if 1e-3 < abs(f[i]) < 1e-5 * np.abs(f).max()]
        if small:
            # what the stiffness terms of one row add up to is known to about 1e-12 of their sum of magnitudes
            noise = 1e-11 * (np.abs(K) @ np.abs(u))
            worst = max((abs(res[i]) - noise[i]) / abs(f[i]) for i in small)
            if worst > 1e-3: bad["small-load-components-not-carried"] = float(worst)
        # independent solve (well conditioned: eliminate the root)
        uf = np.linalg.solve(K[np.ix_(free, free)], f[free])
        if np.abs(u[free] - uf).max() > 1e-6 * np.abs(uf).max(): bad["displacements-differ"] = float(np.abs(u[free] - uf).max() / np.abs(uf).max())
        if it % 3 == 0 and not bad:
            # the loads are forces and moments: the same physical loads supplied in kN (and kN*m) give the same displacements
            pk = structs.run(structs.build_struct(s, loads / 1000.0, loads_units="kN"))
            dk = structs.g(pk, "wing.disp")
            if np.abs(dk - disp).max() > 1e-9 * np.abs(disp).max(): bad["loads-in-kN-give-other-displacements"] = float(np.abs(dk - disp).max() / np.abs(disp).max())
        O["cases"] += 1
        desc = {"model": model, "kind": kind, "ny": ny, "seed": seed, "it": it, "steeply_swept": steep}
        if bad: _fail(O, "C10:SpatialBeamAlone:" + sorted(bad)[0], desc, errors=bad, nodes=nodes.tolist(), loads=loads.tolist())
        else: O["ok"] += 1
        # linearity and reciprocity
        l2 = rng.normal(size=(ny, 6)) * np.array([1e3, 1e3, 1e4, 1e3, 1e3, 1e3])
        d2 = structs.g(structs.run(structs.build_struct(s, l2)), "wing.disp")
        a, b = float(rng.uniform(0.5, 2)), float(rng.uniform(-2, -0.5))
        d3 = structs.g(structs.run(structs.build_struct(s, a * loads + b * l2)), "wing.disp")
        bad = {}
        if np.abs(d3 - (a * disp + b * d2)).max() > 1e-7 * np.abs(d3).max(): bad["not-linear-in-loads"] = float(np.abs(d3 - (a * disp + b * d2)).max() / np.abs(d3).max())
        w12, w21 = float((loads * d2).sum()), float((l2 * disp).sum())
        if abs(w12 - w21) > 1e-7 * max(abs(w12), abs(w21)): bad["maxwell-betti"] = [w12, w21]
        O2["cases"] += 1
        if bad: _fail(O2, "C10:SpatialBeamAlone:" + sorted(bad)[0], desc, errors=bad)
        else: O2["ok"] += 1
        R.mark("c10", it)


def oracle_closed_forms(R, tier, seed):
    """straight cantilever of several collinear elements: nodal exactness of P L^3 / 3EI, P L^2 / 2EI, P L / EA, T L / GJ;
    tube: rotating structure and loads together rotates the response"""
    O = R.oracle("SpatialBeamAlone.cantilever-closed-forms"); O2 = R.oracle("SpatialBeamAlone.tube-rotation-covariance")
    rng = gen.stable_rng(seed, "c10cf")
    for it in range(4 if tier == "quick" else 12):
        ny = int(rng.choice([2, 3, 5, 9]))
        span = float(rng.uniform(3, 12)); chord = float(rng.uniform(0.5, 2))
        y = -np.sort(rng.uniform(0, 1, ny))[::-1] * span; y[-1] = 0.0; y[0] = -span
        mesh = np.zeros((2, ny, 3)); mesh[0, :, 1] = y; mesh[1, :, 1] = y; mesh[1, :, 0] = chord
        s = gen.tube_surface(mesh, symmetry=True, thickness_cp=np.array([0.02, 0.02]), t_over_c_cp=np.array([0.12]))
        P = float(rng.uniform(1e3, 1e5))
        bad = {}
        base = structs.run(structs.build_struct(s, np.zeros((ny, 6))))
        E, G = s["E"], s["G"]; A = structs.g(base, "wing.A")[0]; I = structs.g(base, "wing.Iy")[0]; J = structs.g(base, "wing.J")[0]
        for name, comp, dof, ref in (("tip-force-z", 2, 2, P * span ** 3 / (3 * E * I)), ("tip-force-x", 0, 0, P * span ** 3 / (3 * E * I)),
                                     ("axial", 1, 1, -P * span / (E * A)), ("torsion", 4, 4, -P * span / (G * J))):
            loads = np.zeros((ny, 6)); loads[0, comp] = P if name not in ("axial", "torsion") else -P
            d = structs.g(structs.run(structs.build_struct(s, loads)), "wing.disp")
            got = d[0, dof]
            if abs(got - ref) > 1e-6 * abs(ref): bad[name] = [float(got), float(ref)]
            if name == "tip-force-z":
                # nodal exactness along the beam: w(s) = P s^2 (3L - s) / 6EI measured from the root
                sfrom_root = -y
                wref = P * sfrom_root ** 2 * (3 * span - sfrom_root) / (6 * E * I)
                if np.abs(d[:, 2] - wref).max() > 1e-6 * abs(ref): bad["nodal-exactness"] = float(np.abs(d[:, 2] - wref).max() / abs(ref))
                slope_ref = P * span ** 2 / (2 * E * I)
                if abs(abs(d[0, 3]) - slope_ref) > 1e-6 * slope_ref: bad["tip-slope"] = [float(d[0, 3]), slope_ref]
        O["cases"] += 1
        desc = {"ny": ny, "span": span, "P": P, "seed": seed, "it": it}
        if bad: _fail(O, "C10:SpatialBeamAlone:cantilever-" + sorted(bad)[0], desc, errors=bad)
        else: O["ok"] += 1
        # rotation covariance (tube): rotate nodes and loads about the x axis by phi
        phi = float(rng.uniform(0.1, 1.2)); c, sn = np.cos(phi), np.sin(phi)
        Rx = np.array([[1, 0, 0], [0, c, -sn], [0, sn, c]])
        # flat-chord planform: the geometry group is then a no-op in both orientations (the zero-twist rotation of
        # cambered sections is a recorded C13 finding and must not leak into this comparison)
        m2 = gen.rand_mesh(rng, 2, ny, "left", plain=True, offset=False)
        m2[:, :, 0] += np.abs(m2[:, :, 1]) * 0.3
        s2 = gen.tube_surface(m2, symmetry=True, thickness_cp=np.array([0.02, 0.02]), t_over_c_cp=np.array([0.12]))
        loads = rng.normal(size=(ny, 6)) * 1e3
        d0 = structs.g(structs.run(structs.build_struct(s2, loads)), "wing.disp")
        m3 = m2 @ Rx.T
        s3 = gen.tube_surface(m3, symmetry=True, thickness_cp=np.array([0.02, 0.02]), t_over_c_cp=np.array([0.12]))
        l3 = np.hstack([loads[:, :3] @ Rx.T, loads[:, 3:] @ Rx.T])
        p3 = structs.run(structs.build_struct(s3, l3))
        d3 = structs.g(p3, "wing.disp")
        # the radius comes from the chord (rotation invariant); compare
        dref = np.hstack([d0[:, :3] @ Rx.T, d0[:, 3:] @ Rx.T])
        O2["cases"] += 1
        e = float(np.abs(d3 - dref).max() / np.abs(dref).max())
        if e > 1e-6: _fail(O2, "C10:SpatialBeamAlone:tube-not-rotation-covariant", {"ny": ny, "phi": phi, "seed": seed, "it": it}, rel_err=e)
        else: O2["ok"] += 1
        R.mark("c10cf", it)
