"""Implementation-only oracle for C05: AeroPoint against the independent solver vlm_ref, and the
flow-tangency residual recomputed from the implementation's own circulations."""
import numpy as np
from .. import core, gen, aero
from . import vlm_ref


def _fail(O, key, desc, **kw):
    O["failures"].append(dict(key=key, case=desc, **kw))


def configs(rng, tier):
    # three surfaces belong to the quick tier too: the per-surface offsets into the global panel index are cumulative
    # only from the third surface on (a seeded change that broke them for >= 3 surfaces was missed without it)
    combos = [("full",), ("left",), ("right",), ("full", "full"), ("left", "full"), ("left", "right"), ("full", "full", "full")]
    if tier != "quick":
        combos += [("left", "left", "full"), ("right", "full"), ("left", "full", "left", "full")]
    for kinds in combos:
        reps = 1 if tier == "quick" else 3
        for rep in range(reps):
            meshes = []
            for si, kind in enumerate(kinds):
                sizes = [(2, 3), (3, 3), (2, 5), (3, 5)] if tier == "quick" else [(2, 3), (3, 3), (2, 5), (3, 5), (4, 7), (2, 9), (5, 5)]
                nx, ny = sizes[int(rng.integers(0, len(sizes)))]
                if si >= 2 and nx < 3:
                    nx = 3 + int(rng.integers(0, 2))         # later surfaces with more than one chordwise panel
                if kind != "full" and rng.integers(0, 2):
                    ny = ny - 1 if ny > 2 else ny
                mixed = any(k != "full" for k in kinds)
                if kind == "full" and mixed:
                    # a symmetric half model is only meaningful in a mirror-symmetric configuration
                    m = vlm_ref.mirror_full(gen.rand_mesh(rng, nx, (ny + 1) // 2, "left", offset=False))
                else:
                    m = gen.rand_mesh(rng, nx, ny, kind, offset=False)
                m = m + np.array([5.0 * si + rng.uniform(-1, 1), 0.0, 0.8 * si + rng.uniform(-0.3, 0.3)])
                if kind == "full":
                    m[:, :, 1] += rng.uniform(-1, 1) if len(kinds) > 1 and all(k == "full" for k in kinds) else 0.0
                meshes.append(m)
            yield kinds, rep, meshes


def oracle_reference(R, tier, seed):
    O1 = R.oracle("AeroPoint.vs-independent-solver"); O2 = R.oracle("AeroPoint.flow-tangency")
    rng = gen.stable_rng(seed, "c05")
    for kinds, rep, meshes in configs(rng, tier):
        alpha = float(rng.uniform(-15, 15)); beta = float(rng.choice([0.0, rng.uniform(-15, 15)])) if all(k == "full" for k in kinds) else 0.0
        v = float(rng.uniform(10, 250)); rho = float(rng.uniform(0.3, 1.3))
        rotational = bool(rng.integers(0, 2)) and all(k == "full" for k in kinds)
        omega = (rng.normal(size=3) * 0.3) if rotational else None
        cg = rng.normal(size=3)
        surfs = [aero.aero_surface(m, name="s%d" % i, symmetry=(k != "full")) for i, (m, k) in enumerate(zip(meshes, kinds))]
        p = aero.run(aero.build_aero(surfs, v=v, alpha=alpha, beta=beta, rho=rho, cg=cg, rotational=rotational, omega=omega))
        # reference: every surface as an explicit full-span lattice
        full = [vlm_ref.mirror_full(m) if k != "full" else m for m, k in zip(meshes, kinds)]
        ref = vlm_ref.solve(full, alpha, beta, v, rho, omega=omega, cg=cg)
        desc = {"surfaces": list(kinds), "shapes": [list(m.shape[:2]) for m in meshes], "alpha": alpha, "beta": beta, "v": v, "rho": rho,
                "rotational": rotational, "seed": seed, "rep": rep}
        bad = {}
        circ = aero.g(p, "aero.aero_states.circulations")
        off = 0
        for i, (m, k) in enumerate(zip(meshes, kinds)):
            nx, ny = m.shape[:2]
            c_impl = circ[off:off + (nx - 1) * (ny - 1)].reshape(nx - 1, ny - 1); off += (nx - 1) * (ny - 1)
            F_impl = aero.g(p, "aero.aero_states.s%d_sec_forces" % i)
            c_ref, F_ref = ref["circ"][i], ref["forces"][i]
            if k != "full":       # the modelled half of the explicit full-span solution
                left = abs(m[0, 0, 1]) > abs(m[0, -1, 1])
                c_ref = c_ref[:, :ny - 1] if left else c_ref[:, ny - 1:]
                F_ref = F_ref[:, :ny - 1] if left else F_ref[:, ny - 1:]
            sc, sf = np.abs(c_ref).max(), np.abs(F_ref).max()
            if np.abs(c_impl - c_ref).max() > 1e-8 * sc: bad["circulations-s%d" % i] = float(np.abs(c_impl - c_ref).max() / sc)
            if np.abs(F_impl - F_ref).max() > 1e-8 * sf: bad["sec_forces-s%d" % i] = float(np.abs(F_impl - F_ref).max() / sf)
        O1["cases"] += 1
        if bad: _fail(O1, "C05:AeroPoint:" + sorted(bad)[0].split("-")[0] + "-differ-from-independent-solver", desc, errors=bad, meshes=[m.tolist() for m in meshes])
        else: O1["ok"] += 1
        # tangency from the implementation's own circulations (full-span surfaces only: direct statement)
        if all(k == "full" for k in kinds):
            lats = [vlm_ref.Lattice(m) for m in meshes]
            a = np.deg2rad(alpha); b = np.deg2rad(beta)
            u = np.array([np.cos(a), 0, np.sin(a)]); vinf = v * np.array([np.cos(a) * np.cos(b), -np.sin(b), np.sin(a) * np.cos(b)])
            worst = 0.0
            for s, L in enumerate(lats):
                for (i, j) in L.panels():
                    P = L.colloc(i, j); w = vinf.copy()
                    if rotational: w = w + np.cross(omega, P - cg)
                    q = 0
                    for s2, L2 in enumerate(lats):
                        for (i2, j2) in L2.panels():
                            w = w + circ[q] * L2.ring_velocity(P, i2, j2, u); q += 1
                    worst = max(worst, abs(w.dot(L.normal(i, j))) / v)
            O2["cases"] += 1; O2["worst"] = max(O2["worst"], worst)
            if worst > 1e-9: _fail(O2, "C05:AeroPoint:normal-velocity-nonzero", desc, normal_velocity_over_v=worst, meshes=[m.tolist() for m in meshes])
            else: O2["ok"] += 1
        R.mark("c05", kinds, rep)


def oracle_one_panel_signs(R, tier, seed):
    """The conclusions of the sign-pinning theorems (Real/SignPin.v: C05_one_panel_*) on the implementation: one flat
    rectangular panel, spanwise index increasing with y -> influence coefficient > 0, circulation = - v sin(a) cos(b) / AIC
    (negative at positive alpha), lift force positive at positive alpha."""
    O = R.oracle("AeroPoint.one-panel-sign-conventions")
    rng = gen.stable_rng(seed, "c05-signs")
    n = 6 if tier == "quick" else 40
    for k in range(n):
        c = float(10 ** rng.uniform(-1, 1)); b = float(10 ** rng.uniform(-1, 1.3))
        alpha = float(rng.uniform(0.05, 15)) * (1 if k % 3 else -1); beta = float(rng.choice([0.0, rng.uniform(-15, 15)]))
        v = float(rng.uniform(10, 250)); rho = float(rng.uniform(0.3, 1.3))
        mesh = np.zeros((2, 2, 3)); mesh[1, :, 0] = c; mesh[:, 1, 1] = b
        mesh = mesh + rng.normal(size=3) * [3, 0, 1] + [0, float(rng.uniform(-5, 5)), 0]       # anywhere in space (C06 translation invariance)
        p = aero.run(aero.build_aero([aero.aero_surface(mesh, name="s0", symmetry=False)], v=v, alpha=alpha, beta=beta, rho=rho))
        G = float(aero.g(p, "aero.aero_states.circulations")[0]); A = float(np.ravel(aero.g(p, "aero.aero_states.mtx"))[0])
        Fz = float(np.ravel(aero.g(p, "aero.aero_states.s0_sec_forces"))[2])
        a = np.deg2rad(alpha); bb = np.deg2rad(beta)
        desc = {"chord": c, "span": b, "alpha": alpha, "beta": beta, "v": v, "rho": rho, "circulation": G, "aic": A, "Fz": Fz, "mesh": mesh.tolist()}
        O["cases"] += 1
        bad = None
        if not A > 0: bad = "influence-coefficient-not-positive"
        elif abs(G - (-v * np.sin(a) * np.cos(bb) / A)) > 1e-9 * abs(G): bad = "circulation-is-not-minus-v-sin-alpha-over-aic"
        elif not (G * np.sin(a) < 0): bad = "circulation-sign"
        elif not (Fz * np.sin(a) > 0): bad = "lift-force-sign"
        if bad: _fail(O, "C05:AeroPoint:one-panel-" + bad, desc)
        else: O["ok"] += 1
        R.mark("c05-signs", alpha > 0, beta != 0)
