"""vlm_ref.py — an independently written vortex-lattice solver (textbook Biot-Savart, explicit loops,
no code shared with the implementation or with the Coq model).  Full-span surfaces only: symmetric
halves are mirrored explicitly, ground effect is an explicit image system."""
import numpy as np


def seg(P, A, B):
    """unit-strength straight vortex from A to B, induced velocity at P (Katz & Plotkin eq. 10.115)"""
    r1, r2 = P - A, P - B
    c = np.cross(r1, r2)
    cc = c.dot(c)
    n1, n2 = np.linalg.norm(r1), np.linalg.norm(r2)
    if cc < 1e-24 * max(n1 * n2, 1e-300) ** 2 or n1 < 1e-14 or n2 < 1e-14:
        return np.zeros(3)
    r0 = r1 - r2
    return c / cc * r0.dot(r1 / n1 - r2 / n2) / (4 * np.pi)


def leg_out(P, A, u):
    """unit-strength semi-infinite vortex leaving A along the unit vector u"""
    r = P - A
    c = np.cross(u, r)
    cc = c.dot(c)
    n = np.linalg.norm(r)
    if cc < 1e-24 * max(n, 1e-300) ** 2:
        return np.zeros(3)
    return c / cc * (1 + u.dot(r) / n) / (4 * np.pi)


class Lattice:
    def __init__(self, mesh, strength=1.0):
        self.mesh = np.asarray(mesh, dtype=float)
        self.nx, self.ny = self.mesh.shape[:2]
        self.strength = strength       # -1 for an image surface
        m = self.mesh
        vm = np.empty_like(m)
        for i in range(self.nx - 1):
            vm[i] = m[i] + 0.25 * (m[i + 1] - m[i])
        vm[-1] = m[-1]
        self.vm = vm

    def panels(self):
        return [(i, j) for i in range(self.nx - 1) for j in range(self.ny - 1)]

    def ring_velocity(self, P, i, j, u):
        vm = self.vm
        A, B, C, D = vm[i, j + 1], vm[i, j], vm[i + 1, j], vm[i + 1, j + 1]
        v = seg(P, A, B) + seg(P, B, C) + seg(P, D, A)
        if i == self.nx - 2:
            v = v + leg_out(P, C, u) - leg_out(P, D, u)      # out along the wake from C, back in to D
        else:
            v = v + seg(P, C, D)
        return v

    def colloc(self, i, j):
        m = self.mesh
        a = m[i, j] + 0.75 * (m[i + 1, j] - m[i, j]); b = m[i, j + 1] + 0.75 * (m[i + 1, j + 1] - m[i, j + 1])
        return 0.5 * (a + b)

    def forcept(self, i, j):
        m = self.mesh
        a = m[i, j] + 0.25 * (m[i + 1, j] - m[i, j]); b = m[i, j + 1] + 0.25 * (m[i + 1, j + 1] - m[i, j + 1])
        return 0.5 * (a + b)

    def bound(self, i, j):
        m = self.mesh
        a = m[i, j] + 0.25 * (m[i + 1, j] - m[i, j]); b = m[i, j + 1] + 0.25 * (m[i + 1, j + 1] - m[i, j + 1])
        return a - b

    def normal(self, i, j):
        m = self.mesh
        n = np.cross(m[i, j + 1] - m[i + 1, j], m[i, j] - m[i + 1, j + 1])
        return n / np.linalg.norm(n)


def solve(meshes, alpha_deg, beta_deg=0.0, v=1.0, rho=1.0, omega=None, cg=None, images=None, wake_alpha_deg=None):
    """meshes: list of full-span meshes (unknown circulations).
    images: optional list of (mesh, source_surface_index) whose ring (i,j) carries MINUS the circulation of
    ring (i,j) of the source surface (method of images).
    Returns dict with per-surface circulations [nx-1,ny-1], forces [nx-1,ny-1,3], AIC matrix, rhs, normal-velocity residual."""
    a, b = np.deg2rad(alpha_deg), np.deg2rad(beta_deg)
    wa = a if wake_alpha_deg is None else np.deg2rad(wake_alpha_deg)
    u = np.array([np.cos(wa), 0.0, np.sin(wa)])
    vinf = v * np.array([np.cos(a) * np.cos(b), -np.sin(b), np.sin(a) * np.cos(b)])
    lats = [Lattice(m) for m in meshes]
    imgs = [(Lattice(m, -1.0), src) for (m, src) in (images or [])]
    index = []
    for s, L in enumerate(lats):
        for (i, j) in L.panels():
            index.append((s, i, j))
    n = len(index)
    pos = {k: p for p, k in enumerate(index)}

    def onset(P):
        w = vinf.copy()
        if omega is not None:
            w = w + np.cross(np.asarray(omega, float), P - np.asarray(cg, float))
        return w

    def influence(P):
        """3 x n matrix of induced velocity per unit circulation of every unknown ring (images folded in)"""
        M = np.zeros((3, n))
        for q, (s, i, j) in enumerate(index):
            M[:, q] = lats[s].ring_velocity(P, i, j, u)
        for (L, src) in imgs:
            for (i, j) in L.panels():
                M[:, pos[(src, i, j)]] -= L.ring_velocity(P, i, j, u)
        return M
    A = np.zeros((n, n)); rhs = np.zeros(n)
    normals = np.zeros((n, 3)); cps = np.zeros((n, 3))
    for p, (s, i, j) in enumerate(index):
        P = lats[s].colloc(i, j); nv = lats[s].normal(i, j)
        cps[p], normals[p] = P, nv
        A[p] = nv @ influence(P)
        rhs[p] = -onset(P).dot(nv)
    G = np.linalg.solve(A, rhs)
    res = {"A": A, "rhs": rhs, "G": G, "index": index, "circ": [], "forces": [], "normals": normals, "coll_pts": cps}
    # residual normal velocity recomputed from scratch
    res["normal_velocity"] = np.array([(onset(cps[p]) + influence(cps[p]) @ G).dot(normals[p]) for p in range(n)])
    for s, L in enumerate(lats):
        c = np.zeros((L.nx - 1, L.ny - 1)); F = np.zeros((L.nx - 1, L.ny - 1, 3))
        for (i, j) in L.panels():
            c[i, j] = G[pos[(s, i, j)]]
        for (i, j) in L.panels():
            P = L.forcept(i, j)
            # the panel's onset velocity (free stream + rigid rotation taken at the panel's collocation point)
            # plus the induction at its quarter-chord point
            W = onset(L.colloc(i, j)) + influence(P) @ G
            ghs = c[i, j] - (c[i - 1, j] if i > 0 else 0.0)
            F[i, j] = rho * ghs * np.cross(W, L.bound(i, j))
        res["circ"].append(c); res["forces"].append(F)
    return res


def mirror_full(half, left=None):
    """explicit full-span mesh of a symmetric half mesh (root column on the symmetry plane)"""
    half = np.asarray(half, float)
    if left is None:
        left = abs(half[0, 0, 1]) > abs(half[0, -1, 1])
    if left:
        other = half[:, :-1][:, ::-1].copy(); other[:, :, 1] *= -1
        return np.concatenate([half, other], axis=1)
    other = half[:, 1:][:, ::-1].copy(); other[:, :, 1] *= -1
    return np.concatenate([other, half], axis=1)
