"""Implementation-only oracles for C16: conservation of mass / force / moment by first principles."""
import numpy as np
from .. import core, gen

G0 = 9.80665


def _fail(O, key, desc, **kw):
    O["failures"].append(dict(key=key, case=desc, **kw))


def _tot(loads, nodes):
    F = loads[:, :3].sum(axis=0)
    M = (np.cross(nodes, loads[:, :3]) + loads[:, 3:]).sum(axis=0)
    return F, M


def oracle_loads(R, tier, seed):
    from openaerostruct.structures.weight import Weight
    from openaerostruct.structures.structural_cg import StructuralCG
    from openaerostruct.structures.wing_weight_loads import StructureWeightLoads
    from openaerostruct.structures.fuel_loads import FuelLoads
    from openaerostruct.structures.fuel_vol import WingboxFuelVol
    from openaerostruct.structures.wingbox_fuel_vol_delta import WingboxFuelVolDelta
    from openaerostruct.structures.compute_point_mass_loads import ComputePointMassLoads
    from openaerostruct.structures.compute_thrust_loads import ComputeThrustLoads
    from openaerostruct.structures.total_loads import TotalLoads
    rng = gen.stable_rng(seed, "c16")
    nys = (2, 3, 5) if tier == "quick" else (2, 3, 4, 5, 7, 9, 13)
    reps = 2 if tier == "quick" else 6
    for kind in ("left", "right", "full"):
        for ny in nys:
            if kind == "full" and ny % 2 == 0:
                continue
            for rep in range(reps):
                mesh = gen.rand_mesh(rng, 2, ny, kind)
                nodes = 0.65 * mesh[0] + 0.35 * mesh[-1]
                sym = kind != "full"; ne = ny - 1; two = 2.0 if sym else 1.0
                desc = {"kind": kind, "ny": ny, "rep": rep, "seed": seed}
                surf = gen.wingbox_surface(mesh, symmetry=sym, mrho=float(rng.uniform(1e3, 8e3)), Wf_reserve=float(rng.choice([15000.0, 0.0])))
                A = rng.uniform(1e-3, 5e-2, ne)
                L = np.linalg.norm(nodes[1:] - nodes[:-1], axis=1)
                mid = 0.5 * (nodes[1:] + nodes[:-1])
                # ---- mass & cg
                O = R.oracle("Weight+StructuralCG.first-principles")
                o, _, _ = core.run_comp(Weight(surface=surf), {"A": A, "nodes": nodes}, want_J=False)
                em_ref = surf["mrho"] * A * L * surf["wing_weight_ratio"]
                M = float(o["structural_mass"].ravel()[0])
                bad = {}
                if abs(M - two * em_ref.sum()) > 1e-12 * M: bad["mass"] = [M, two * em_ref.sum()]
                if np.abs(o["element_mass"] - em_ref).max() > 1e-12 * em_ref.max(): bad["element_mass"] = 1
                o2, _, _ = core.run_comp(StructuralCG(surface=surf), {"nodes": nodes, "structural_mass": M, "element_mass": o["element_mass"]}, want_J=False)
                cg_ref = (mid * em_ref[:, None]).sum(axis=0) / em_ref.sum()
                if sym: cg_ref[1] = 0.0
                if np.abs(o2["cg_location"] - cg_ref).max() > 1e-12 * max(1.0, np.abs(cg_ref).max()): bad["cg"] = [o2["cg_location"].tolist(), cg_ref.tolist()]
                O["cases"] += 1
                if bad: _fail(O, "C16:Weight/StructuralCG:" + sorted(bad)[0], desc, errors=bad, nodes=nodes.tolist(), A=A.tolist())
                else: O["ok"] += 1
                # ---- structural weight loads
                O = R.oracle("StructureWeightLoads.conservation")
                lf = float(rng.choice([1.0, 2.5, -1.0]))
                em = o["element_mass"]
                o3, _, _ = core.run_comp(StructureWeightLoads(surface=surf), {"element_mass": em, "nodes": nodes, "load_factor": lf}, want_J=False)
                F, Mo = _tot(o3["struct_weight_loads"], nodes)
                w = em * G0 * lf
                F_ref = np.array([0, 0, -w.sum()]); M_ref = np.cross(mid, np.outer(w, [0, 0, -1.0])).sum(axis=0)
                sc = max(np.abs(w).sum(), 1e-300)
                O["cases"] += 1
                if np.abs(F - F_ref).max() > 1e-11 * sc or np.abs(Mo - M_ref).max() > 1e-11 * sc * max(1.0, np.abs(nodes).max()):
                    _fail(O, "C16:StructureWeightLoads:total-force-moment", desc, F=F.tolist(), F_ref=F_ref.tolist(), M=Mo.tolist(), M_ref=M_ref.tolist(), nodes=nodes.tolist())
                else: O["ok"] += 1
                # ---- fuel loads
                O = R.oracle("FuelLoads.conservation")
                vols = rng.uniform(0.05, 2.0, ne); fm = float(rng.uniform(1e3, 1e5))
                o4, _, _ = core.run_comp(FuelLoads(surface=surf), {"fuel_vols": vols, "nodes": nodes, "fuel_mass": fm, "load_factor": lf}, want_J=False)
                F, Mo = _tot(o4["fuel_weight_loads"], nodes)
                Wt = (fm + surf["Wf_reserve"]) * G0 * lf / two
                w = vols / vols.sum() * Wt
                F_ref = np.array([0, 0, -Wt]); M_ref = np.cross(mid, np.outer(w, [0, 0, -1.0])).sum(axis=0)
                sc = max(abs(Wt), 1e-300)
                O["cases"] += 1
                if np.abs(F - F_ref).max() > 1e-11 * sc or np.abs(Mo - M_ref).max() > 1e-11 * sc * max(1.0, np.abs(nodes).max()):
                    _fail(O, "C16:FuelLoads:total-force-moment", desc, F=F.tolist(), F_ref=F_ref.tolist(), M=Mo.tolist(), M_ref=M_ref.tolist(), nodes=nodes.tolist())
                else: O["ok"] += 1
                # ---- fuel volume & margin
                O = R.oracle("FuelVol.definitions")
                A_int = rng.uniform(0.01, 0.5, ne); fb = float(rng.uniform(1e3, 1e5))
                o5, _, _ = core.run_comp(WingboxFuelVol(surface=surf), {"nodes": nodes, "A_int": A_int}, want_J=False)
                o6, _, _ = core.run_comp(WingboxFuelVolDelta(surface=surf), {"fuelburn": fb, "fuel_vols": vols}, want_J=False)
                ref = vols.sum() - (fb + surf["Wf_reserve"]) / two / surf["fuel_density"]
                O["cases"] += 1
                if np.abs(o5["fuel_vols"] - L * A_int).max() > 1e-12 * (L * A_int).max() or abs(float(o6["fuel_vol_delta"].ravel()[0]) - ref) > 1e-12 * max(1.0, abs(ref)):
                    _fail(O, "C16:FuelVol:definition", desc, got=float(o6["fuel_vol_delta"].ravel()[0]), ref=ref)
                else: O["ok"] += 1
                # ---- point masses and thrusts
                O = R.oracle("PointMass+Thrust.conservation")
                npm = int(rng.integers(1, 4))
                s2 = gen.tube_surface(mesh, symmetry=sym, n_point_masses=npm)
                locs = np.zeros((npm, 3))
                for k in range(npm):
                    j = int(rng.integers(0, ny))
                    locs[k] = nodes[j] + np.array([rng.uniform(-1, 1), rng.uniform(0.05, 0.4) * rng.choice([-1, 1]), rng.uniform(-0.5, 0.5)])
                masses = rng.uniform(100, 5e3, npm); thr = rng.uniform(1e3, 1e5, npm)
                o7, _, _ = core.run_comp(ComputePointMassLoads(surface=s2), {"point_mass_locations": locs, "point_masses": masses, "nodes": nodes, "load_factor": lf}, want_J=False)
                o8, _, _ = core.run_comp(ComputeThrustLoads(surface=s2), {"point_mass_locations": locs, "engine_thrusts": thr, "nodes": nodes}, want_J=False)
                bad = {}
                if np.abs(o7["nodal_weightings"].sum(axis=1) - 1).max() > 1e-12 or o7["nodal_weightings"].min() < 0: bad["weights"] = 1
                F, Mo = _tot(o7["loads_from_point_masses"], nodes)
                fk = np.outer(masses * G0 * lf, [0, 0, -1.0])
                if np.abs(F - fk.sum(axis=0)).max() > 1e-11 * np.abs(fk).sum() or np.abs(Mo - np.cross(locs, fk).sum(axis=0)).max() > 1e-11 * np.abs(fk).sum() * max(1.0, np.abs(locs).max()):
                    bad["point-mass-force-moment"] = [F.tolist(), fk.sum(axis=0).tolist()]
                F, Mo = _tot(o8["loads_from_thrusts"], nodes)
                fk = np.outer(thr, [-1.0, 0, 0])
                if np.abs(F - fk.sum(axis=0)).max() > 1e-11 * np.abs(fk).sum() or np.abs(Mo - np.cross(locs, fk).sum(axis=0)).max() > 1e-11 * np.abs(fk).sum() * max(1.0, np.abs(locs).max()):
                    bad["thrust-force-moment"] = [F.tolist(), fk.sum(axis=0).tolist()]
                O["cases"] += 1
                if bad: _fail(O, "C16:PointLoads:" + sorted(bad)[0], desc, errors=bad, locs=locs.tolist(), nodes=nodes.tolist())
                else: O["ok"] += 1
                R.mark("c16", kind, ny, rep)


def oracle_total_loads_in_groups(R, tier, seed):
    """inside SpatialBeamAlone, with EVERY combination of the optional load sources switched on together (weight relief, point
    masses + thrust, wing-box fuel): the load vector that reaches the FEM is the applied loads plus every enabled source, and
    its net vertical force is the applied one minus (structure + fuel share + point masses) * g * load factor"""
    from .. import structs
    from .c02 import crm
    O = R.oracle("SpatialBeamAlone.total-loads-is-the-sum-of-all-enabled-sources")
    rng = gen.stable_rng(seed, "c16grp")
    m = crm(num_y=7); ny = m.shape[1]; y = m[0, :, 1]
    combos = [(True, True, False), (False, True, False), (True, False, False)] + ([(True, True, True), (True, False, True)] if True else [])
    for relief, pm, fuel in combos:
        if fuel:
            s = gen.wingbox_surface(m, symmetry=True, name="wing", struct_weight_relief=relief, distributed_fuel_weight=True, spar_thickness_cp=np.array([0.006, 0.007]), skin_thickness_cp=np.array([0.012, 0.013]), t_over_c_cp=np.array([0.12, 0.12]))
        else:
            s = gen.tube_surface(m, symmetry=True, name="wing", thickness_cp=np.array([0.05, 0.06, 0.07]), struct_weight_relief=relief)
        extra = None
        if pm:
            s["n_point_masses"] = 1
            extra = {"point_masses": (np.array([[800.0]]), "kg"), "point_mass_locations": (np.array([[m[0, 1, 0] + 0.5, 0.5 * (y[1] + y[2]), -0.8]]), "m"), "engine_thrusts": (np.array([[4e4]]), "N")}
        loads = rng.normal(size=(ny, 6)) * 1e3; lf = float(rng.choice([1.0, 2.5]))
        p = structs.build_struct(s, loads, load_factor=lf, extra=extra)
        import warnings
        with warnings.catch_warnings():
            warnings.simplefilter("ignore")
            p.final_setup()
            if fuel:
                for n, _ in p.model.list_inputs(out_stream=None, prom_name=True, val=False):
                    if n.endswith("fuel_mass"): p.set_val(n, 2.0e4)
        structs.run(p)
        g = lambda k: structs.g(p, "wing.struct_states." + k)
        total = g("total_loads"); parts = loads.copy(); names = ["loads"]
        for on, k in ((relief, "struct_weight_loads"), (pm, "loads_from_point_masses"), (pm, "loads_from_thrusts"), (fuel, "fuel_weight_loads")):
            if on: parts = parts + g(k); names.append(k)
        O["cases"] += 1
        err = float(np.abs(total - parts).max() / max(np.abs(parts).max(), 1e-300))
        if err > 1e-12:
            O["failures"].append({"key": "C16:SpatialBeamAlone:total_loads-is-not-the-sum-of-the-enabled-sources", "case": {"weight_relief": relief, "point_masses": pm, "fuel": fuel, "load_factor": lf, "seed": seed},
                                  "rel_err": err, "sources": names, "net_Fz_total": float(total[:, 2].sum()), "net_Fz_sum_of_sources": float(parts[:, 2].sum())})
        else: O["ok"] += 1
        R.mark("c16grp", relief, pm, fuel)
