"""Implementation-only oracle for C01: every Jacobian the code reported during the correspondence streams is compared
with Richardson-extrapolated central differences of the code's own compute (core.fd_check), at the same inputs.
This is the failing-input search of the property: no model is involved."""
from .. import core

FDTOL = 2e-6
KNOWN = {
    "ViscousDrag": ("re", "C01:ViscousDrag.compute_partials:dCDv/dre-zero-when-fully-laminar"),
    "Taper": ("taper", "C01:Taper.compute_partials:zero-at-taper-equal-one"),
    "WingboxFuelVolDelta": ("fuel_vols", "C01:WingboxFuelVolDelta.compute:input-halved-in-place"),
    "Rotate": ("in_mesh", "C01:Rotate.compute_partials:reference-axis-coupling-missing-without-x-rotation"),
}


def enable():
    core.FD_ENABLED = True
    core.FD_RESULTS.clear()


def oracle_fd(R, tier, seed):
    per = {}
    for rec in core.FD_RESULTS:
        O = R.oracle("finite-differences." + rec["comp"])
        O["cases"] += 1
        tol = 1e-4 if rec.get("fd_kind") else FDTOL
        bad = {k: e for k, e in rec["errs"].items() if not (e <= tol)}
        O["worst"] = max(O["worst"], min(rec["worst"], 1e300))
        if not bad:
            O["ok"] += 1
            continue
        key = "C01:%s.compute_partials:reported-jacobian-differs-from-finite-differences(%s)" % (rec["comp"], ",".join(sorted(bad)))
        if rec["comp"] in KNOWN and set(bad) == {KNOWN[rec["comp"]][0]}:
            key = KNOWN[rec["comp"]][1]
        O["failures"].append({"key": key, "case": {"comp": rec["comp"], "inputs": rec["inputs"]}, "errors": bad})
    if not core.FD_RESULTS:
        O = R.oracle("finite-differences"); O["cases"] += 1
        O["failures"].append({"key": "C01:oracle:no-jacobians-recorded", "case": "the streams recorded no Jacobian"})
