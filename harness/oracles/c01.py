"""Implementation-only oracle for C01: every Jacobian the code reported during the correspondence streams is compared
with Richardson-extrapolated central differences of the code's own compute (core.fd_check), at the same inputs.
This is the failing-input search of the property: no model is involved."""
from .. import core

FDTOL = 2e-6
KNOWN = {
    "ViscousDrag": ("re", "C01:ViscousDrag.compute_partials:dCDv/dre-zero-when-fully-laminar"),
    "Taper": ("taper", "C01:Taper.compute_partials:zero-at-taper-equal-one"),
    "WingboxFuelVolDelta": ("fuel_vols", "C01:WingboxFuelVolDelta.compute:input-halved-in-place"),
    "Rotate": ("in_mesh", "C01:Rotate.compute_partials:reference-axis-coupling-missing-without-x-rotation"),
}


def enable():
    core.FD_ENABLED = True
    core.FD_RESULTS.clear()


def oracle_fd(R, tier, seed):
    per = {}
    for rec in core.FD_RESULTS:
        O = R.oracle("finite-differences." + rec["comp"])
        O["cases"] += 1
        tol = 1e-4 if rec.get("fd_kind") else FDTOL
        bad = {k: e for k, e in rec["errs"].items() if not (e <= tol)}
        O["worst"] = max(O["worst"], min(rec["worst"], 1e300))
        if not bad:
            O["ok"] += 1
            continue
        key = "C01:%s.compute_partials:reported-jacobian-differs-from-finite-differences(%s)" % (rec["comp"], ",".join(sorted(bad)))
        if rec["comp"] in KNOWN and set(bad) == {KNOWN[rec["comp"]][0]}:
            key = KNOWN[rec["comp"]][1]
        O["failures"].append({"key": key, "case": {"comp": rec["comp"], "inputs": rec["inputs"]}, "errors": bad})
    if not core.FD_RESULTS:
        O = R.oracle("finite-differences"); O["cases"] += 1
        O["failures"].append({"key": "C01:oracle:no-jacobians-recorded", "case": "the streams recorded no Jacobian"})


def oracle_wingbox_untwisted(R, tier, seed):
    """WingboxGeometry at exactly untwisted sections (flat, unswept or swept planforms - the default meshes): the reported
    d fem_twists / d mesh compared with central differences of the code's own compute.  The theorem
    C01_WingboxGeometry_fem_twists needs every section twisted; this is the replay of its refutation at zero twist."""
    import numpy as np
    from .. import gen
    from openaerostruct.structures.wingbox_geometry import WingboxGeometry
    O = R.oracle("WingboxGeometry.untwisted-sections")
    rng = gen.stable_rng(seed, "c01wbflat")
    saved = core.FD_ENABLED; core.FD_ENABLED = False
    try:
        for kind in ("left", "full"):
            for (nx, ny) in (((2, 3),) if tier == "quick" else ((2, 3), (3, 5))):
                mesh = gen.rand_mesh(rng, nx, ny, kind, plain=True, offset=False)
                mesh[:, :, 0] += np.abs(mesh[:, :, 1]) * float(rng.uniform(0.0, 0.4))       # swept, still flat
                surf = gen.wingbox_surface(mesh, symmetry=(kind != "full"))
                o, J, p = core.run_comp(WingboxGeometry(surface=surf), {"mesh": mesh}, outputs=["fem_twists"])
                Jr = J[("fem_twists", "mesh")].reshape(ny - 1, nx, ny, 3)

                def f(m):
                    p.set_val("mesh", m); p.run_model(); return np.array(p.get_val("fem_twists")).copy()
                h = 1e-4 * float(np.abs(mesh[-1, :, 0] - mesh[0, :, 0]).min())
                cd = np.zeros_like(Jr)
                for i in (0, nx - 1):
                    for j in range(ny):
                        mp = mesh.copy(); mp[i, j, 2] += h; mm = mesh.copy(); mm[i, j, 2] -= h
                        cd[:, i, j, 2] = (f(mp) - f(mm)) / (2 * h)
                err = float(np.abs(Jr[:, [0, nx - 1], :, 2] - cd[:, [0, nx - 1], :, 2]).max())
                scale = float(np.abs(Jr[:, :, :, 2]).max())
                O["cases"] += 1; O["worst"] = max(O["worst"], err)
                if err > 1e-4 * max(scale, 1e-3):
                    O["failures"].append({"key": "C01:WingboxGeometry.compute:twist-measure-kink-at-zero-twist",
                                          "case": {"kind": kind, "nx": nx, "ny": ny, "mesh": mesh.tolist()},
                                          "reported_dtwist_dz_max": scale, "central_difference_max": float(np.abs(cd).max()),
                                          "note": "fem_twists = |twist| (arccosine): one-sided slopes +-1/c, no derivative; a rigid vertical translation of a section has reported sensitivity != 0"})
                else:
                    O["ok"] += 1
                R.mark("c01wbflat", kind, nx, ny)
    finally:
        core.FD_ENABLED = saved


def oracle_multi_surface(R, tier, seed):
    """every explicit component of a THREE-surface AeroPoint (surfaces of different sizes, one of them a right-hand half)
    that takes the list of surfaces is re-run on its own with the inputs it had in the converged model; the Jacobian it
    reports is recorded for the finite-difference oracle (which must run after this one).  The index arithmetic over
    the list of surfaces (offsets into the global panel / evaluation-point arrays) is only right or wrong from the
    third surface on: one- and two-surface set-ups cannot tell `offset = n` from `offset += n`."""
    import numpy as np, warnings
    import openmdao.api as om
    from .. import gen, aero as A
    O = R.oracle("three-surface-components.recorded")
    rng = gen.stable_rng(seed, "c01multi")
    configs = [(((2, 5), "left"), ((3, 3), "left"), ((3, 4), "right"))]
    if tier != "quick":
        configs.append((((3, 3), "left"), ((2, 3), "right"), ((2, 5), "full"), ((4, 3), "left")))
    for cfg in configs:
        surfs = []
        for k, ((nx, ny), kind) in enumerate(cfg):
            m = gen.rand_mesh(rng, nx, ny, kind)
            m[:, :, 0] += 6.0 * k; m[:, :, 2] += 0.8 * k
            surfs.append(A.aero_surface(m, "s%d" % k, kind != "full"))
        for rotational in (False, True):
            p = A.run(A.build_aero(surfs, geom=False, alpha=float(rng.uniform(1, 8)), beta=float(rng.uniform(-5, 5)) if any(k == "full" for _, k in cfg) else 0.0,
                                   rotational=rotational, omega=rng.normal(size=3) * 0.1 if rotational else None))
            for comp in p.model.system_iter(include_self=False, recurse=True, typ=om.ExplicitComponent):
                try:
                    sl = comp.options["surfaces"]
                except KeyError:
                    continue
                if len(sl) != len(cfg):
                    continue
                if type(comp).__name__ == "EvalVelMtx" and comp.options["eval_name"] == "force_pts":
                    # force points lie ON their own bound vortex, where the kernel is cut off: perturbing the vectors alone
                    # (which the model never does: they move with the mesh) crosses the cut-off, so a finite difference of
                    # the component on its own is meaningless there; the collocation-point instance is the same class
                    continue
                ins = {n: np.array(comp._inputs[n]).copy() for n in comp._var_rel_names["input"]}
                # integer / discrete inputs do not occur in these components
                opts = {k: comp.options[k] for k in comp.options if k not in ("assembled_jac_type", "distributed", "run_root_only", "always_opt", "use_jit", "default_shape", "derivs_method")}
                try:
                    new = type(comp)(**opts)
                    with warnings.catch_warnings():
                        warnings.simplefilter("ignore")
                        core.run_comp(new, ins)
                    O["cases"] += 1; O["ok"] += 1
                    R.mark("c01multi", type(comp).__name__, len(cfg), rotational)
                    R.count("multi-surface/%s" % type(comp).__name__)
                except Exception as e:
                    O["cases"] += 1
                    O["failures"].append({"key": "C01:oracle:three-surface-rerun-failed(%s)" % type(comp).__name__, "case": repr(e)[:300]})
