"""Implementation-only oracles for C18: switch semantics, sign, monotonicity, onset, mesh independence."""
import numpy as np
from .. import core, gen, aero


def _fail(O, key, desc, **kw):
    O["failures"].append(dict(key=key, case=desc, **kw))


def _strip(rng, ny):
    lengths = rng.uniform(0.6, 3.0, ny)
    widths = rng.uniform(0.3, 2.0, ny - 1)
    lsp = widths / np.cos(np.deg2rad(rng.uniform(0, 55, ny - 1)))
    toc = rng.uniform(0.04, 0.3, ny - 1)
    return lengths, widths, lsp, toc


def oracle_components(R, tier, seed):
    from openaerostruct.aerodynamics.viscous_drag import ViscousDrag
    from openaerostruct.aerodynamics.wave_drag import WaveDrag
    O1 = R.oracle("ViscousDrag.behaviour"); O2 = R.oracle("WaveDrag.behaviour")
    rng = gen.stable_rng(seed, "c18")
    nys = (2, 3, 5) if tier == "quick" else (2, 3, 4, 5, 7, 9, 13)
    reps = 2 if tier == "quick" else 6
    for ny in nys:
        for sym in (True, False):
            for k_lam in (0.0, 0.05, 0.5, 1.0):
                for rep in range(reps):
                    lengths, widths, lsp, toc = _strip(rng, ny)
                    # chord Reynolds numbers of both runs > 1e3 (the quantifier of the property)
                    re0 = float(10 ** rng.uniform(5.5, 7.5)); M = float(rng.uniform(0.1, 0.93)); Sref = float(rng.uniform(5, 200))
                    surf = gen.tube_surface(np.zeros((2, ny, 3)), symmetry=sym, k_lam=k_lam)

                    def cdv(re=re0, toc_=toc, wv=True):
                        o, _, _ = core.run_comp(ViscousDrag(surface=dict(surf, with_viscous=wv), with_viscous=wv),
                                                {"re": re, "Mach_number": M, "S_ref": Sref, "widths": widths, "lengths_spanwise": lsp, "lengths": lengths, "t_over_c": toc_}, want_J=False)
                        return float(o["CDv"].ravel()[0])
                    desc = {"ny": ny, "sym": sym, "k_lam": k_lam, "re": re0, "M": M, "seed": seed, "rep": rep}
                    bad = {}
                    c0 = cdv()
                    if cdv(wv=False) != 0.0: bad["nonzero-when-off"] = cdv(wv=False)
                    if not (c0 > 0 and np.isfinite(c0)): bad["not-positive"] = c0
                    res = [cdv(re=re0 * f) for f in (1.0, 1.5, 3.0, 10.0)]
                    if not all(a > b for a, b in zip(res, res[1:])): bad["not-decreasing-in-Re"] = res
                    tcs = [cdv(toc_=toc * f) for f in (0.5, 1.0, 1.2)]
                    if not all(a < b for a, b in zip(tcs, tcs[1:])): bad["not-increasing-in-toc"] = tcs
                    O1["cases"] += 1
                    if bad: _fail(O1, "C18:ViscousDrag:" + sorted(bad)[0], desc, errors=bad, lengths=lengths.tolist(), widths=widths.tolist(), toc=toc.tolist())
                    else: O1["ok"] += 1
                    R.mark("c18v", ny, sym, k_lam, rep)
            # continuity in the laminar fraction: a fine sweep of k_lam through small values (a seeded change that clamped
            # k_lam < 0.01 to fully turbulent at set-up was missed while k_lam was drawn from {0, 0.05, 0.5, 1}): the largest
            # increment between neighbours of a uniform sweep must shrink in proportion when the sweep is refined
            lengths, widths, lsp, toc = _strip(rng, ny); re0 = float(10 ** rng.uniform(6.0, 7.3)); M = float(rng.uniform(0.1, 0.9))

            def cdv_k(k):
                sf = gen.tube_surface(np.zeros((2, ny, 3)), symmetry=sym, k_lam=float(k))
                o, _, _ = core.run_comp(ViscousDrag(surface=dict(sf, with_viscous=True), with_viscous=True),
                                        {"re": re0, "Mach_number": M, "S_ref": 50.0, "widths": widths, "lengths_spanwise": lsp, "lengths": lengths, "t_over_c": toc}, want_J=False)
                return float(o["CDv"].ravel()[0])
            ks = np.linspace(0.002, 0.03, 15); coarse = np.array([cdv_k(k) for k in ks])
            kf = np.linspace(0.002, 0.03, 29); fine = np.array([cdv_k(k) for k in kf])
            jc, jf = np.abs(np.diff(coarse)).max(), np.abs(np.diff(fine)).max()
            O1["cases"] += 1
            if jf > 0.75 * jc and jc > 1e-9 * coarse.max():
                _fail(O1, "C18:ViscousDrag:discontinuous-in-laminar-fraction", {"ny": ny, "sym": sym, "re": re0, "M": M, "seed": seed},
                      largest_increment_15_points=float(jc), largest_increment_29_points=float(jf), k_lam=ks.tolist(), CDv=coarse.tolist())
            else: O1["ok"] += 1
            for rep in range(reps * 2):
                chords, widths, lsp, toc = _strip(rng, ny); toc = toc * 0.5
                CL = float(rng.uniform(0.0, 1.0))
                surf = gen.tube_surface(np.zeros((2, ny, 3)), symmetry=sym, with_wave=True)
                pa = 0.5 * (chords[:-1] + chords[1:]) * widths
                ac = float(((widths / lsp) * pa).sum() / pa.sum()); at = float((toc * pa).sum() / pa.sum())
                mcrit = 0.95 / ac - at / ac ** 2 - CL / (10 * ac ** 3) - (0.1 / 80.0) ** (1.0 / 3.0)

                def cdw(M, CL_=CL, ww=True):
                    o, _, _ = core.run_comp(WaveDrag(surface=dict(surf, with_wave=ww)),
                                            {"Mach_number": M, "widths": widths, "lengths_spanwise": lsp, "CL": CL_, "chords": chords, "t_over_c": toc}, want_J=False)
                    return float(o["CDw"].ravel()[0])
                desc = {"ny": ny, "sym": sym, "CL": CL, "Mcrit_ref": mcrit, "seed": seed, "rep": rep}
                bad = {}
                if cdw(mcrit + 0.1, ww=False) != 0.0: bad["nonzero-when-off"] = 1
                below = [cdw(mcrit - d) for d in (0.3, 0.05, 1e-3)]
                if any(b != 0.0 for b in below): bad["nonzero-below-onset"] = below
                above = [cdw(mcrit + d) for d in (1e-3, 1e-2, 0.05, 0.1, 0.2)]
                if not all(0 < a < b for a, b in zip(above, above[1:])): bad["not-increasing-in-M"] = above
                # smooth onset: CDw <= 2 * 20 d^4 (factor 2: the listed symmetric doubling is C04's matter, not smoothness)
                if above[0] > 2.2 * 20 * (1e-3 * 1.05) ** 4: bad["onset-not-smooth"] = above[0]
                lifts = [cdw(mcrit + 0.05, CL_=CL + d) for d in (0.0, 0.1, 0.3)]
                if not all(a < b for a, b in zip(lifts, lifts[1:])): bad["not-increasing-in-CL"] = lifts
                O2["cases"] += 1
                if bad: _fail(O2, "C18:WaveDrag:" + sorted(bad)[0], desc, errors=bad, chords=chords.tolist(), widths=widths.tolist(), lsp=lsp.tolist(), toc=toc.tolist())
                else: O2["ok"] += 1
                R.mark("c18w", ny, sym, rep)


def oracle_mesh_independence(R, tier, seed):
    """constant-chord untwisted wing through AeroPoint: CDv and CDw independent of num_x, num_y, spacing."""
    from openaerostruct.geometry.utils import generate_mesh
    O = R.oracle("AeroPoint.drag-mesh-independence")
    rng = gen.stable_rng(seed, "c18mesh")
    grids = [(2, 5), (3, 7), (2, 9), (4, 5)] if tier == "quick" else [(2, 5), (3, 7), (2, 9), (4, 5), (5, 11), (3, 13), (2, 21)]
    for sym in (True, False):
        for k_lam in (0.05, 0.0):
            ref = None
            span = float(rng.uniform(6, 14)); chord = float(rng.uniform(0.8, 2.0)); alpha = float(rng.uniform(0, 4))
            for (nx, ny) in grids:
                mesh = generate_mesh({"num_y": ny, "num_x": nx, "wing_type": "rect", "symmetry": sym, "span": span, "root_chord": chord,
                                      "span_cos_spacing": float(rng.choice([0.0, 0.5, 1.0])), "chord_cos_spacing": float(rng.choice([0.0, 1.0]))})
                # a user-supplied lift offset CL0 is part of the lift the Korn equation must see (reported CL = CL1 + CL0); it does
                # not enter the viscous drag
                cl0 = float(rng.choice([0.0, 0.15, 0.3]))
                s = aero.aero_surface(mesh, symmetry=sym, with_viscous=True, with_wave=True, k_lam=k_lam, t_over_c_cp=np.array([0.1]), CL0=cl0)
                p = aero.run(aero.build_aero([s], alpha=alpha, Mach=0.84, geom=True))
                cdv = float(aero.g(p, "aero.wing_perf.CDv")[0]); cdw = float(aero.g(p, "aero.wing_perf.CDw")[0]); cl = float(aero.g(p, "aero.wing_perf.CL")[0])
                # CDw depends on CL, which (slightly) depends on the mesh: compare CDw at the same CL via the component's formula
                mcrit = 0.95 - 0.1 - cl / 10 - (0.1 / 80.0) ** (1.0 / 3.0)
                cdw_ref = 20 * max(0.84 - mcrit, 0.0) ** 4
                O["cases"] += 1
                desc = {"sym": sym, "k_lam": k_lam, "nx": nx, "ny": ny, "span": span, "chord": chord, "CL0": cl0, "seed": seed}
                bad = {}
                if ref is None: ref = cdv
                if abs(cdv - ref) > 1e-10 * ref: bad["CDv-mesh-dependent"] = [cdv, ref]
                fac = cdw / cdw_ref if cdw_ref > 0 else 1.0
                # the coefficient may carry the listed symmetric factor 2 (C04 finding); anything else is a mesh dependence
                if cdw_ref > 1e-9 and not (abs(fac - 1.0) < 1e-8 or (sym and abs(fac - 2.0) < 1e-8)): bad["CDw-differs-from-Korn-estimate-at-the-reported-CL"] = [cdw, cdw_ref]
                if bad: _fail(O, "C18:AeroPoint:" + sorted(bad)[0], desc, errors=bad)
                else: O["ok"] += 1
                R.mark("c18m", sym, k_lam, nx, ny)


def oracle_option_combinations(R, tier, seed):
    """each drag estimate follows its OWN switch: the four combinations of with_viscous / with_wave through AeroPoint, above the
    critical Mach number: CDv is zero exactly when viscous drag is off, CDw is zero exactly when wave drag is off and otherwise
    the Korn estimate at the reported CL, and CD is the sum of its parts plus CD0"""
    from openaerostruct.geometry.utils import generate_mesh
    O = R.oracle("AeroPoint.drag-option-combinations")
    rng = gen.stable_rng(seed, "c18opt")
    for sym in (True, False):
        mesh = generate_mesh({"num_y": 7, "num_x": 2, "wing_type": "rect", "symmetry": sym, "span": float(rng.uniform(8, 12)), "root_chord": float(rng.uniform(1, 2))})
        alpha = float(rng.uniform(2, 4)); cd0 = float(rng.choice([0.0, 0.011]))
        for wv in (True, False):
            for ww in (True, False):
                s = aero.aero_surface(mesh, symmetry=sym, with_viscous=wv, with_wave=ww, t_over_c_cp=np.array([0.12]), CD0=cd0)
                p = aero.run(aero.build_aero([s], alpha=alpha, Mach=0.82, geom=True))
                g = lambda k: float(np.ravel(aero.g(p, "aero.wing_perf." + k))[0])
                cl, cdi, cdv, cdw, cd = g("CL"), g("CDi"), g("CDv"), g("CDw"), g("CD")
                mcrit = 0.95 - 0.12 - cl / 10 - (0.1 / 80.0) ** (1.0 / 3.0)
                korn = 20 * max(0.82 - mcrit, 0.0) ** 4
                bad = {}
                if (cdv != 0.0) != wv: bad["CDv-does-not-follow-with_viscous"] = cdv
                if not ww and cdw != 0.0: bad["CDw-nonzero-although-with_wave-is-off"] = cdw
                if ww and korn > 1e-9 and not (abs(cdw / korn - 1) < 1e-8 or (sym and abs(cdw / korn - 2) < 1e-8)): bad["CDw-does-not-follow-with_wave"] = [cdw, korn]
                if abs(cd - (cdi + cdv + cdw + cd0)) > 1e-12: bad["CD-is-not-the-sum-of-its-parts"] = [cd, cdi + cdv + cdw + cd0]
                O["cases"] += 1
                if bad: _fail(O, "C18:AeroPoint:" + sorted(bad)[0], {"sym": sym, "with_viscous": wv, "with_wave": ww, "alpha": alpha, "CD0": cd0, "seed": seed}, errors=bad)
                else: O["ok"] += 1
                R.mark("c18opt", sym, wv, ww)
