"""Implementation-only oracle for C09: compressible AeroPoint vs the explicit PG construction around the
incompressible solver, Mach-0 identity, continuity in Mach."""
import numpy as np
from .. import core, gen, aero


def _fail(O, key, desc, **kw):
    O["failures"].append(dict(key=key, case=desc, **kw))


def _Tw(a, b):
    ca, sa, cb, sb = np.cos(a), np.sin(a), np.cos(b), np.sin(b)
    return np.array([[cb * ca, -sb, cb * sa], [sb * ca, cb, sb * sa], [-sa, 0, ca]])


def oracle_pg(R, tier, seed):
    O1 = R.oracle("AeroPoint(compressible).vs-PG-construction"); O2 = R.oracle("AeroPoint(compressible).mach0-identity"); O3 = R.oracle("AeroPoint(compressible).continuity-in-Mach")
    rng = gen.stable_rng(seed, "c09")
    n = 4 if tier == "quick" else 16
    for it in range(n):
        nsurf = 1 + (it % 2)
        meshes, syms = [], []
        for si in range(nsurf):
            kind = "full" if it % 4 in (0, 1) else ["left", "right"][(it + si) % 2]
            nx, ny = [(2, 3), (3, 3), (2, 5)][int(rng.integers(0, 3))]
            if kind != "full" or nsurf == 1:
                m = gen.rand_mesh(rng, nx, ny, kind, offset=False)
            else:
                m = gen.rand_mesh(rng, nx, ny, "full", offset=False)
            meshes.append(m + np.array([4.5 * si, 0, 0.6 * si])); syms.append(kind != "full")
        all_full = not any(syms)
        if not all_full:       # symmetric surfaces need a mirror-symmetric configuration
            from .vlm_ref import mirror_full
            meshes = [m if s else mirror_full(gen.rand_mesh(rng, 2, 3, "left", offset=False)) + np.array([4.5 * i, 0, 0.6 * i]) for i, (m, s) in enumerate(zip(meshes, syms))]
        alpha = float(rng.uniform(-10, 12)); beta = float(rng.uniform(-10, 10)) if all_full else 0.0
        M = float(rng.uniform(0.1, 0.92)); v = float(rng.uniform(50, 250)); rho = float(rng.uniform(0.3, 1.2))
        names = ["s%d" % i for i in range(nsurf)]

        # every other full-span case also rotates (roll, pitch and yaw rates about a centre of gravity off the origin): the
        # Prandtl-Glauert scaling of the rotational onset velocity ([B^2, B, B] in wind axes) is what makes it the velocity field
        # of a rigid rotation omega' = diag(1, B, B) T omega about cg' = diag(1, B, B) T cg in the transformed domain
        rot = bool(all_full and it % 2 == 1)
        omega = rng.normal(size=3) * np.array([0.3, 0.4, 0.25]) if rot else None
        cg0 = rng.normal(size=3) * np.array([1.0, 0.2, 0.3]) if rot else np.zeros(3)

        def run(meshes_, comp, alpha_=alpha, beta_=beta, M_=M, omega_=omega, cg_=cg0):
            surfs = [aero.aero_surface(m, name=nm, symmetry=s) for m, nm, s in zip(meshes_, names, syms)]
            p = aero.run(aero.build_aero(surfs, v=v, alpha=alpha_, beta=beta_, Mach=M_, rho=rho, compressible=comp, rotational=rot, omega=omega_, cg=tuple(cg_)))
            return [aero.g(p, "aero.aero_states.%s_sec_forces" % nm) for nm in names], aero.g(p, "aero.CL")
        Fc, CLc = run(meshes, True)
        desc = {"surfaces": ["sym" if s else "full" for s in syms], "alpha": alpha, "beta": beta, "Mach": M, "seed": seed, "it": it,
                "omega_rad_s": (omega.tolist() if rot else None), "cg": cg0.tolist()}
        # explicit construction (full-span surfaces only: the rotated/stretched mesh of a symmetric half is still a valid half mesh only at beta = 0)
        if all_full:
            B = np.sqrt(1 - M * M); T = _Tw(np.deg2rad(alpha), np.deg2rad(beta))
            pgm = [(m @ T.T) * np.array([1, B, B]) for m in meshes]
            # normals must be transformed as (B,1,1)*T n, not recomputed from the stretched mesh: emulate by solving with the
            # implementation's own incompressible group on the PG mesh is NOT equivalent; so compare through the linear system instead:
            # the PG-domain solve uses transformed normals n_pg; an incompressible AeroPoint on the PG mesh uses recomputed normals n'.
            # n_pg is parallel to n' (a plane n.x = 0 maps to (B n_x, n_y, n_z)/B . x' = 0), so the tangency condition and hence
            # the circulations are the same up to the row scaling |n_pg|; forces in the PG domain are then identical.
            Sd = np.array([1.0, B, B])
            Fi, _ = run(pgm, False, alpha_=0.0, beta_=0.0, omega_=(Sd * (T @ omega) if rot else None), cg_=Sd * (T @ cg0))
            bad = {}
            for i in range(nsurf):
                Fb = Fi[i] * np.array([1 / B ** 4, 1 / B ** 3, 1 / B ** 3]) @ T      # row vectors: (T^T F^T)^T = F T
                e = float(np.abs(Fc[i] - Fb).max() / np.abs(Fb).max())
                if e > 1e-8: bad["sec_forces-s%d" % i] = e
            O1["cases"] += 1
            if bad: _fail(O1, "C09:CompressibleVLMStates:forces-differ-from-PG-construction", desc, errors=bad, meshes=[m.tolist() for m in meshes])
            else: O1["ok"] += 1
        # Mach 0, zero sideslip: compressible == incompressible
        F0c, CL0c = run(meshes, True, beta_=0.0, M_=0.0); F0i, CL0i = run(meshes, False, beta_=0.0, M_=0.0)
        e = max(float(np.abs(a - b).max() / np.abs(b).max()) for a, b in zip(F0c, F0i))
        O2["cases"] += 1
        if e > 1e-9: _fail(O2, "C09:CompressibleVLMStates:mach0-differs-from-incompressible", desc, rel_err=e)
        else: O2["ok"] += 1
        # continuity: M -> M + 1e-7 changes forces by O(1e-7)
        Fa, _ = run(meshes, True, M_=M); Fb2, _ = run(meshes, True, M_=M + 1e-7)
        e = max(float(np.abs(a - b).max() / np.abs(b).max()) for a, b in zip(Fb2, Fa))
        Fz, _ = run(meshes, True, beta_=0.0, M_=1e-8)
        e0 = max(float(np.abs(a - b).max() / np.abs(b).max()) for a, b in zip(Fz, F0c))
        O3["cases"] += 1
        if e > 1e-4 or e0 > 1e-9: _fail(O3, "C09:CompressibleVLMStates:discontinuous-in-Mach", desc, jump_at_M=e, jump_at_0=e0)
        else: O3["ok"] += 1
        R.mark("c09", it)
