"""Implementation-only oracle for C07: mirror-image configurations give mirror-image results."""
import numpy as np
from .. import core, gen, aero, structs
from .vlm_ref import mirror_full


def _fail(O, key, desc, **kw):
    O["failures"].append(dict(key=key, case=desc, **kw))


def _rel(a, b):
    a, b = np.asarray(a, float), np.asarray(b, float)
    return float(np.abs(a - b).max() / max(np.abs(b).max(), 1e-300))


def mirror_mesh(m):
    r = m[:, ::-1].copy(); r[:, :, 1] *= -1
    return r


def oracle_aero_mirror(R, tier, seed):
    """full-span asymmetric configurations with sideslip and rotation rates"""
    O = R.oracle("AeroPoint.full-span-mirror-pair")
    rng = gen.stable_rng(seed, "c07a")
    for it in range(4 if tier == "quick" else 16):
        nsurf = 1 + it % 2
        meshes = []
        for si in range(nsurf):
            nx, ny = [(2, 3), (3, 5), (2, 5)][int(rng.integers(0, 3))]
            meshes.append(gen.rand_mesh(rng, nx, ny, "full") + np.array([4.5 * si, 0.0, 0.6 * si]))
        alpha = float(rng.uniform(-8, 10)); beta = float(rng.uniform(-10, 10)); v = float(rng.uniform(30, 200)); rho = float(rng.uniform(0.4, 1.2))
        omega = rng.normal(size=3) * 0.2; cg = rng.normal(size=3)
        visc = bool(it % 2)

        def run(ms, beta_, omega_, cg_):
            surfs = [aero.aero_surface(m, name="s%d" % i, symmetry=False, with_viscous=visc) for i, m in enumerate(ms)]
            p = aero.run(aero.build_aero(surfs, v=v, alpha=alpha, beta=beta_, rho=rho, cg=cg_, rotational=True, omega=omega_, Mach=0.3))
            return {"CL": aero.g(p, "aero.CL"), "CD": aero.g(p, "aero.CD"), "CM": aero.g(p, "aero.CM"),
                    "F": [aero.g(p, "aero.aero_states.s%d_sec_forces" % i) for i in range(len(ms))]}
        a = run(meshes, beta, omega, cg)
        b = run([mirror_mesh(m) for m in meshes], -beta, omega * np.array([-1, 1, -1]), cg * np.array([1, -1, 1]))
        bad = {}
        if _rel(b["CL"], a["CL"]) > 1e-8: bad["CL"] = _rel(b["CL"], a["CL"])
        if _rel(b["CD"], a["CD"]) > 1e-8: bad["CD"] = _rel(b["CD"], a["CD"])
        if _rel(b["CM"], a["CM"] * np.array([-1, 1, -1])) > 1e-8: bad["CM"] = _rel(b["CM"], a["CM"] * np.array([-1, 1, -1]))
        for i in range(nsurf):
            Fm = a["F"][i][:, ::-1] * np.array([1, -1, 1])
            if _rel(b["F"][i], Fm) > 1e-8: bad["sec_forces-s%d" % i] = _rel(b["F"][i], Fm)
        O["cases"] += 1
        desc = {"nsurf": nsurf, "alpha": alpha, "beta": beta, "omega": omega.tolist(), "viscous": visc, "seed": seed, "it": it}
        if bad: _fail(O, "C07:AeroPoint:%s-not-mirror-covariant" % sorted(bad)[0].split("-")[0], desc, errors=bad, meshes=[m.tolist() for m in meshes])
        else: O["ok"] += 1
        R.mark("c07a", it)


def oracle_left_right(R, tier, seed):
    """the same wing as a left-half and as a right-half symmetric model: each geometry transformation component
    on mirrored meshes (attribution), then Geometry + AeroPoint end to end."""
    import openaerostruct.geometry.geometry_mesh_transformations as T
    O = R.oracle("geometry-transformations.left-vs-right-half")
    O2 = R.oracle("Geometry+AeroPoint.left-vs-right-half")
    rng = gen.stable_rng(seed, "c07lr")
    reps = 1 if tier == "quick" else 3
    for rep in range(reps):
        for plain in (True, False):
            nx, ny = [(2, 3), (3, 4), (2, 5)][int(rng.integers(0, 3))]
            left = gen.rand_mesh(rng, nx, ny, "left", plain=plain, offset=False); right = mirror_mesh(left)
            span_new = float(2 * np.abs(left[:, :, 1]).max() * 1.3)
            dist = rng.uniform(0.7, 1.3, ny); sh = rng.normal(size=ny) * 0.2; tw = rng.uniform(-5, 5, ny)
            comps = {
                "Taper": (lambda m: T.Taper(val=0.5, mesh=m, symmetry=True, ref_axis_pos=0.25), lambda m, rev: {"taper": 0.5}, False),
                "ScaleX": (lambda m: T.ScaleX(val=np.ones(ny), mesh_shape=m.shape, ref_axis_pos=0.25), lambda m, rev: {"in_mesh": m, "chord": dist[::-1] if rev else dist}, True),
                "Sweep": (lambda m: T.Sweep(val=0.0, mesh_shape=m.shape, symmetry=True), lambda m, rev: {"in_mesh": m, "sweep": 20.0}, True),
                "ShearX": (lambda m: T.ShearX(val=np.zeros(ny), mesh_shape=m.shape), lambda m, rev: {"in_mesh": m, "xshear": sh[::-1] if rev else sh}, True),
                "Stretch": (lambda m: T.Stretch(val=1.0, mesh_shape=m.shape, symmetry=True, ref_axis_pos=0.25), lambda m, rev: {"in_mesh": m, "span": span_new}, True),
                "ShearY": (lambda m: T.ShearY(val=np.zeros(ny), mesh_shape=m.shape), lambda m, rev: {"in_mesh": m, "yshear": (-sh[::-1]) if rev else sh}, True),
                "Dihedral": (lambda m: T.Dihedral(val=0.0, mesh_shape=m.shape, symmetry=True), lambda m, rev: {"in_mesh": m, "dihedral": 10.0}, True),
                "ShearZ": (lambda m: T.ShearZ(val=np.zeros(ny), mesh_shape=m.shape), lambda m, rev: {"in_mesh": m, "zshear": sh[::-1] if rev else sh}, True),
                "Rotate": (lambda m: T.Rotate(val=np.zeros(ny), mesh_shape=m.shape, symmetry=True, ref_axis_pos=0.25), lambda m, rev: {"in_mesh": m, "twist": tw[::-1] if rev else tw}, True),
            }
            for cname, (mk, ins, _) in comps.items():
                ol, _, _ = core.run_comp(mk(left), ins(left, False), want_J=False)
                orr, _, _ = core.run_comp(mk(right), ins(right, True), want_J=False)
                err = float(np.abs(orr["mesh"] - mirror_mesh(ol["mesh"])).max())
                O["cases"] += 1
                desc = {"component": cname, "plain_mesh": plain, "nx": nx, "ny": ny, "seed": seed, "rep": rep}
                if err > 1e-9:
                    _fail(O, "C07:geometry_mesh_transformations.%s:right-half-mesh-acts-with-wrong-sense" % cname, desc, max_abs_mesh_difference=err, left_mesh=left.tolist())
                else: O["ok"] += 1
                R.mark("c07lr", cname, plain, rep)
        # end to end on a flat mesh without sweep / dihedral / taper (the three transformations above that fail):
        nx, ny = 2, 4
        left = gen.rand_mesh(rng, nx, ny, "left", plain=True, offset=False); right = mirror_mesh(left)
        kw = {"chord_cp": np.array([1.2, 0.8]), "twist_cp": np.array([3.0, -1.0]), "span": float(2 * np.abs(left[:, :, 1]).max() * 1.2)}
        alpha = float(rng.uniform(1, 8))
        res = []
        for mesh, rev in ((left, False), (right, True)):
            k2 = {k: (v[::-1].copy() if rev and hasattr(v, "shape") else v) for k, v in kw.items()}
            p = aero.run(aero.build_aero([aero.aero_surface(mesh, name="w", symmetry=True, **k2)], alpha=alpha, Mach=0.3, geom=True))
            res.append({k: aero.g(p, "aero." + k) for k in ("CL", "CD", "CM")})
        O2["cases"] += 1
        bad = {k: _rel(res[1][k], res[0][k]) for k in res[0] if _rel(res[1][k], res[0][k]) > 1e-8 and np.abs(res[1][k] - res[0][k]).max() > 1e-11}
        if bad: _fail(O2, "C07:Geometry+AeroPoint:%s-left-vs-right-half" % sorted(bad)[0], {"alpha": alpha, "seed": seed, "rep": rep}, errors=bad)
        else: O2["ok"] += 1


def _mirror_loads_full(loads):
    r = loads[::-1].copy(); r[:, 1] *= -1; r[:, 3] *= -1; r[:, 5] *= -1
    return r


def oracle_struct_mirror(R, tier, seed):
    """full-span beams: mirror-symmetric model => mirror-symmetric response; mirror pair => mirrored response"""
    O = R.oracle("SpatialBeamAlone.full-span-mirror")
    rng = gen.stable_rng(seed, "c07s")
    for it in range(4 if tier == "quick" else 12):
        model = "tube" if it % 2 == 0 else "wingbox"
        nyh = int(rng.choice([2, 3, 4]))
        half = gen.rand_mesh(rng, 2, nyh, "left", offset=False)
        symmetric_case = it % 4 < 2
        mesh = mirror_full(half) if symmetric_case else gen.rand_mesh(rng, 2, 2 * nyh - 1, "full", offset=False)
        ny = mesh.shape[1]
        mk = gen.tube_surface if model == "tube" else gen.wingbox_surface
        extra = dict(struct_weight_relief=False, distributed_fuel_weight=False, t_over_c_cp=np.array([0.12, 0.12]), twist_cp=np.zeros(2))
        if model == "tube": extra.update(thickness_cp=np.array([0.02, 0.02, 0.02]))
        else: extra.update(spar_thickness_cp=np.array([0.006, 0.006]), skin_thickness_cp=np.array([0.01, 0.01]))
        loads = rng.normal(size=(ny, 6)) * np.array([1e3, 1e3, 1e4, 1e3, 1e3, 1e3])
        if symmetric_case:
            loads = 0.5 * (loads + _mirror_loads_full(loads))
        pa = structs.run(structs.build_struct(mk(mesh, symmetry=False, **extra), loads))
        if symmetric_case:
            da, va = structs.g(pa, "wing.disp"), structs.g(pa, "wing.vonmises")
            db, vb = da, va
        else:
            pb = structs.run(structs.build_struct(mk(mirror_mesh(mesh), symmetry=False, **extra), _mirror_loads_full(loads)))
            da, va = structs.g(pa, "wing.disp"), structs.g(pa, "wing.vonmises")
            db, vb = structs.g(pb, "wing.disp"), structs.g(pb, "wing.vonmises")
        bad = {}
        dm = da[::-1] * np.array([1, -1, 1, -1, 1, -1])
        if _rel(db, dm) > 1e-6: bad["disp"] = _rel(db, dm)
        vm = va[::-1]
        if model == "tube": vm = vm          # both recovery points see the same |stress| under mirroring
        if _rel(vb, vm) > 1e-6: bad["vonmises"] = _rel(vb, vm)
        O["cases"] += 1
        desc = {"model": model, "ny": ny, "mirror_symmetric_model": symmetric_case, "seed": seed, "it": it}
        if bad:
            if model == "wingbox" and list(bad) == ["vonmises"]:
                _fail(O, "C07:VonMisesWingbox.compute:moment-recovered-at-fixed-element-end", desc, errors=bad, mesh=mesh.tolist(), loads=loads.tolist())
            else:
                _fail(O, "C07:SpatialBeamAlone:%s-not-mirror-covariant" % sorted(bad)[0], desc, errors=bad, mesh=mesh.tolist(), loads=loads.tolist())
        else: O["ok"] += 1
        R.mark("c07s", it)


def oracle_wingbox_geometry_mirror(R, tier, seed):
    """WingboxGeometry (streamwise chords, FEM chords, FEM twists) of the mirror image = the reversed arrays, for
    twisted, swept, cambered meshes with 2..4 chordwise points (the theorem C07_wingbox_geometry_mirror on the code)"""
    from openaerostruct.structures.wingbox_geometry import WingboxGeometry
    O = R.oracle("WingboxGeometry.mirror")
    rng = gen.stable_rng(seed, "c07wg")
    for it in range(4 if tier == "quick" else 12):
        kind = ("left", "full")[it % 2]
        nx = int(rng.choice([2, 3, 4])); ny = int(rng.choice([3, 5]))
        mesh = gen.rand_mesh(rng, nx, ny, kind)
        outs = []
        for m in (mesh, mirror_mesh(mesh)):
            surf = gen.wingbox_surface(m, symmetry=(kind != "full"))
            o, _, _ = core.run_comp(WingboxGeometry(surface=surf), {"mesh": m}, outputs=["streamwise_chords", "fem_chords", "fem_twists"], want_J=False)
            outs.append(o)
        bad = {k: _rel(outs[1][k], outs[0][k][::-1]) for k in outs[0] if _rel(outs[1][k], outs[0][k][::-1]) > 1e-12}
        O["cases"] += 1
        if bad: _fail(O, "C07:WingboxGeometry:%s-not-mirror-invariant" % sorted(bad)[0], {"kind": kind, "nx": nx, "ny": ny, "seed": seed, "it": it}, errors=bad, mesh=mesh.tolist())
        else: O["ok"] += 1
        R.mark("c07wg", it)


def oracle_geometry_full_span(R, tier, seed):
    """full-span meshes (symmetry=False): every geometry transformation component applied to a mesh and to its mirror
    image (design variable distributions reversed, y-shear negated) gives mirror-image meshes; on a mirror-symmetric mesh
    with symmetric distributions the result is mirror-symmetric.  Then Geometry + AeroPoint end to end with every
    design variable set: coefficients of the mirror pair agree, rolling / yawing moments change sign."""
    import openaerostruct.geometry.geometry_mesh_transformations as T
    O = R.oracle("geometry-transformations.full-span-mirror")
    O2 = R.oracle("Geometry+AeroPoint.full-span-mirror")
    rng = gen.stable_rng(seed, "c07fs")
    reps = 1 if tier == "quick" else 3
    for rep in range(reps):
        for symmetric_mesh in (True, False):
            nx = int(rng.choice([2, 3])); nyh = int(rng.choice([2, 3, 4])); ny = 2 * nyh - 1
            if symmetric_mesh:
                a = mirror_full(gen.rand_mesh(rng, nx, nyh, "left", offset=False))
            else:
                a = gen.rand_mesh(rng, nx, ny, "full", offset=False)
            b = mirror_mesh(a)
            half = rng.uniform(0.7, 1.3, nyh); sh_h = rng.normal(size=nyh) * 0.2; tw_h = rng.uniform(-5, 5, nyh)
            if symmetric_mesh:
                dist = np.concatenate([half, half[-2::-1]]); sh = np.concatenate([sh_h, sh_h[-2::-1]]); tw = np.concatenate([tw_h, tw_h[-2::-1]])
                shy = np.concatenate([sh_h, -sh_h[-2::-1]]); shy[nyh - 1] = 0.0
            else:
                dist = rng.uniform(0.7, 1.3, ny); sh = rng.normal(size=ny) * 0.2; tw = rng.uniform(-5, 5, ny); shy = rng.normal(size=ny) * 0.05
            span_new = float((a[0, :, 1].max() - a[0, :, 1].min()) * 1.3)
            tval = float(rng.uniform(0.3, 0.8)); rap = float(rng.choice([0.25, 0.6]))
            comps = {
                "Taper": (lambda m: T.Taper(val=tval, mesh=m, symmetry=False, ref_axis_pos=rap), lambda m, rev: {"taper": tval}),
                "ScaleX": (lambda m: T.ScaleX(val=np.ones(ny), mesh_shape=m.shape, ref_axis_pos=rap), lambda m, rev: {"in_mesh": m, "chord": dist[::-1] if rev else dist}),
                "Sweep": (lambda m: T.Sweep(val=0.0, mesh_shape=m.shape, symmetry=False), lambda m, rev: {"in_mesh": m, "sweep": 20.0}),
                "ShearX": (lambda m: T.ShearX(val=np.zeros(ny), mesh_shape=m.shape), lambda m, rev: {"in_mesh": m, "xshear": sh[::-1] if rev else sh}),
                "Stretch": (lambda m: T.Stretch(val=1.0, mesh_shape=m.shape, symmetry=False, ref_axis_pos=rap), lambda m, rev: {"in_mesh": m, "span": span_new}),
                "ShearY": (lambda m: T.ShearY(val=np.zeros(ny), mesh_shape=m.shape), lambda m, rev: {"in_mesh": m, "yshear": (-shy[::-1]) if rev else shy}),
                "Dihedral": (lambda m: T.Dihedral(val=0.0, mesh_shape=m.shape, symmetry=False), lambda m, rev: {"in_mesh": m, "dihedral": 10.0}),
                "ShearZ": (lambda m: T.ShearZ(val=np.zeros(ny), mesh_shape=m.shape), lambda m, rev: {"in_mesh": m, "zshear": sh[::-1] if rev else sh}),
                "Rotate": (lambda m: T.Rotate(val=np.zeros(ny), mesh_shape=m.shape, symmetry=False, ref_axis_pos=rap), lambda m, rev: {"in_mesh": m, "twist": tw[::-1] if rev else tw}),
            }
            for cname, (mk, ins) in comps.items():
                oa, _, _ = core.run_comp(mk(a), ins(a, False), want_J=False)
                ob, _, _ = core.run_comp(mk(b), ins(b, True), want_J=False)
                err = float(np.abs(ob["mesh"] - mirror_mesh(oa["mesh"])).max())
                if symmetric_mesh:
                    err = max(err, float(np.abs(oa["mesh"] - mirror_mesh(oa["mesh"])).max()))
                O["cases"] += 1
                desc = {"component": cname, "mirror_symmetric_mesh": symmetric_mesh, "nx": nx, "ny": ny, "ref_axis_pos": rap, "seed": seed, "rep": rep}
                if err > 1e-9:
                    _fail(O, "C07:geometry_mesh_transformations.%s:full-span-mesh-not-mirror-covariant" % cname, desc, max_abs_mesh_difference=err, mesh=a.tolist())
                else: O["ok"] += 1
                R.mark("c07fs", cname, symmetric_mesh, rep)
        # end to end: an asymmetric full-span wing and its mirror image, all design variables active, sideslip reversed
        ny = 5
        a = gen.rand_mesh(rng, 2, ny, "full", plain=True, offset=False); b = mirror_mesh(a)
        kw = {"chord_cp": np.array([1.2, 0.9, 0.8]), "twist_cp": np.array([3.0, 1.0, -1.0]), "taper": 0.6, "sweep": 15.0, "dihedral": 5.0,
              "span": float((a[0, :, 1].max() - a[0, :, 1].min()) * 1.2)}
        alpha = float(rng.uniform(1, 8)); beta = float(rng.uniform(2, 8))
        res = []
        for mesh, rev in ((a, False), (b, True)):
            k2 = {k: (v[::-1].copy() if rev and hasattr(v, "shape") else v) for k, v in kw.items()}
            p = aero.run(aero.build_aero([aero.aero_surface(mesh, name="w", symmetry=False, **k2)], alpha=alpha, beta=(-beta if rev else beta), Mach=0.3, geom=True))
            res.append({k: aero.g(p, "aero." + k) for k in ("CL", "CD", "CM")})
        O2["cases"] += 1
        bad = {}
        for k in ("CL", "CD"):
            if _rel(res[1][k], res[0][k]) > 1e-8: bad[k] = _rel(res[1][k], res[0][k])
        cm_a, cm_b = np.ravel(res[0]["CM"]), np.ravel(res[1]["CM"])
        cm_m = cm_a * np.array([-1.0, 1.0, -1.0])
        if np.abs(cm_b - cm_m).max() > 1e-8 * max(np.abs(cm_a).max(), 1e-6): bad["CM"] = float(np.abs(cm_b - cm_m).max())
        if bad: _fail(O2, "C07:Geometry+AeroPoint:%s-full-span-mirror-pair" % sorted(bad)[0], {"alpha": alpha, "beta": beta, "seed": seed, "rep": rep}, errors=bad, mesh=a.tolist())
        else: O2["ok"] += 1


def oracle_element_mirror(R, tier, seed):
    """the hypothesis of C07_structure_assembled_system_mirror_covariant on the implementation: the transformed element
    matrix of the mirrored element ne-1-e equals that of element e with its two nodes exchanged and the signs
    (+,-,+,-,+,-) of the reflected DOFs applied to rows and columns; tube and wing box, swept / dihedral beams"""
    O = R.oracle("SpatialBeamAlone.element-matrices-mirror")
    rng = gen.stable_rng(seed, "c07elem")
    sg = np.array([1, -1, 1, -1, 1, -1] * 2, float); sw = np.array(list(range(6, 12)) + list(range(0, 6)))
    for it in range(4 if tier == "quick" else 12):
        model = "tube" if it % 2 == 0 else "wingbox"
        kind = ("full", "left")[it % 4 // 2]
        ny = int(rng.choice([3, 5])) if kind == "full" else int(rng.choice([2, 3, 4]))
        if kind == "full":
            m = gen.rand_mesh(rng, 2, ny, kind, offset=False)
        else:
            # half models: flat swept tapered meshes.  The geometry group's twist component, which is always present, moves the
            # sections of a wing with dihedral even at zero twist, and with the wrong sense on right-hand halves (recorded
            # findings F05-Rotate / F06, reported by their own oracles); this oracle is about the stiffness matrices of
            # geometries that ARE mirror images of each other
            m = gen.rand_mesh(rng, 2, ny, kind, plain=True, offset=False)
            yy = np.abs(m[:, :, 1]); b = yy.max()
            m[:, :, 0] += yy * float(rng.uniform(0.1, 0.6)); m[1, :, 0] -= (m[1, :, 0] - m[0, :, 0]) * 0.4 * yy[1] / b
        mm = mirror_mesh(m)
        mk = gen.tube_surface if model == "tube" else gen.wingbox_surface
        extra = dict(struct_weight_relief=False, distributed_fuel_weight=False, t_over_c_cp=np.array([0.12, 0.12]), twist_cp=np.zeros(2))
        if model == "tube": extra.update(thickness_cp=np.array([0.02, 0.02, 0.02]))
        else: extra.update(spar_thickness_cp=np.array([0.006, 0.006]), skin_thickness_cp=np.array([0.01, 0.01]))
        loads = np.zeros((ny, 6))
        pa = structs.run(structs.build_struct(mk(m, symmetry=(kind != "full"), **extra), loads))
        pb = structs.run(structs.build_struct(mk(mm, symmetry=(kind != "full"), **extra), loads))
        Ka = structs.g(pa, "wing.local_stiff_transformed"); Kb = structs.g(pb, "wing.local_stiff_transformed")
        ne = Ka.shape[0]; err = 0.0
        for e in range(ne):
            ref = (sg[:, None] * sg[None, :]) * Ka[e][np.ix_(sw, sw)]
            err = max(err, float(np.abs(Kb[ne - 1 - e] - ref).max() / np.abs(ref).max()))
        O["cases"] += 1; O["worst"] = max(O["worst"], err)
        if err > 1e-10: _fail(O, "C07:LocalStiffTransformed:element-matrix-not-mirror-covariant", {"model": model, "kind": kind, "ny": ny, "seed": seed, "it": it}, rel_err=err, mesh=m.tolist())
        else: O["ok"] += 1
        R.mark("c07elem", it)


def oracle_inertial_loads_mirror(R, tier, seed):
    """the distributed inertial / fuel / point-mass / thrust loads of a full-span beam and of its mirror image (node order
    reversed): every nodal force and moment is the mirror image; on a mirror-symmetric beam the loads are mirror-symmetric"""
    from openaerostruct.structures.fuel_loads import FuelLoads
    from openaerostruct.structures.wing_weight_loads import StructureWeightLoads
    from openaerostruct.structures.compute_point_mass_loads import ComputePointMassLoads
    from openaerostruct.structures.compute_thrust_loads import ComputeThrustLoads
    O = R.oracle("inertial-load-components.full-span-mirror")
    rng = gen.stable_rng(seed, "c07loads")
    sgn = np.array([1.0, -1.0, 1.0, -1.0, 1.0, -1.0])
    for it in range(3 if tier == "quick" else 9):
        nyh = int(rng.choice([2, 3, 4]))
        symmetric_case = it % 2 == 0
        m = mirror_full(gen.rand_mesh(rng, 2, nyh, "left", offset=False)) if symmetric_case else gen.rand_mesh(rng, 2, 2 * nyh - 1, "full", offset=False)
        ny = m.shape[1]; mm = mirror_mesh(m)
        nodes = 0.6 * m[0] + 0.4 * m[-1]; nodes_m = 0.6 * mm[0] + 0.4 * mm[-1]
        half = rng.uniform(0.2, 2.0, nyh - 1)
        vols = np.concatenate([half, half[::-1]]) if symmetric_case else rng.uniform(0.2, 2.0, ny - 1)
        em = np.concatenate([half, half[::-1]]) * 100 if symmetric_case else rng.uniform(20, 400, ny - 1)
        lf = float(rng.choice([1.0, 2.5])); fuel = float(rng.uniform(2e4, 8e4))
        sa = gen.wingbox_surface(m, symmetry=False); sb = gen.wingbox_surface(mm, symmetry=False)
        pl = np.array([[nodes[1, 0] + 0.5, 0.5 * (nodes[0, 1] + nodes[1, 1]), -0.6]]); plm = pl * np.array([1.0, -1.0, 1.0])
        cases = [
            ("FuelLoads", FuelLoads, "fuel_weight_loads", lambda nd, rev: {"fuel_vols": vols[::-1] if rev else vols, "nodes": nd, "fuel_mass": fuel, "load_factor": lf}, {}),
            ("StructureWeightLoads", StructureWeightLoads, "struct_weight_loads", lambda nd, rev: {"element_mass": em[::-1] if rev else em, "nodes": nd, "load_factor": lf}, {}),
            ("ComputePointMassLoads", ComputePointMassLoads, "loads_from_point_masses", lambda nd, rev: {"point_mass_locations": plm if rev else pl, "point_masses": np.array([[500.0]]), "nodes": nd, "load_factor": lf}, {"n_point_masses": 1}),
            ("ComputeThrustLoads", ComputeThrustLoads, "loads_from_thrusts", lambda nd, rev: {"point_mass_locations": plm if rev else pl, "engine_thrusts": np.array([3e4]), "nodes": nd}, {"n_point_masses": 1}),
        ]
        for cname, cls, out, ins, extra in cases:
            if symmetric_case and extra:
                continue        # one engine on one side is not a mirror-symmetric configuration
            oa, _, _ = core.run_comp(cls(surface=dict(sa, **extra)), ins(nodes, False), want_J=False)
            ob, _, _ = core.run_comp(cls(surface=dict(sb, **extra)), ins(nodes_m, True), want_J=False)
            la, lb = oa[out], ob[out]
            sc = max(np.abs(la).max(), 1e-300)
            err = float(np.abs(lb - la[::-1] * sgn).max() / sc)
            if symmetric_case:
                err = max(err, float(np.abs(la - la[::-1] * sgn).max() / sc))
            O["cases"] += 1
            if err > 1e-10:
                _fail(O, "C07:%s:loads-not-mirror-covariant" % cname, {"component": cname, "mirror_symmetric_beam": symmetric_case, "ny": ny, "seed": seed, "it": it}, rel_err=err, nodes=nodes.tolist(), loads=la.tolist())
            else: O["ok"] += 1
        R.mark("c07loads", it)
