#!/venv/bin/python
"""Self-test of the binary64 elementary functions of coq/Float/Fops.v against Python's math.
Prints max relative error per function; exit 1 if any exceeds 2e-13."""
import math, os, subprocess, sys, re
import numpy as np

HERE = os.path.dirname(os.path.abspath(__file__))
ROOT = os.path.dirname(HERE)
WORK = os.path.join(ROOT, "_work")

def fl(x):
    x = float(x)
    if x != x:
        return "nan"
    if x == math.inf:
        return "infinity"
    if x == -math.inf:
        return "neg_infinity"
    h = x.hex()
    return "(%s)" % h

def main():
    os.makedirs(WORK, exist_ok=True)
    rng = np.random.default_rng(12345)
    tests = {
        "fexp": (math.exp, list(rng.uniform(-50, 50, 200)) + [0.0, 1.0, -1.0, 1e-10, 700.0, -700.0]),
        "fln": (math.log, list(np.exp(rng.uniform(-40, 40, 200))) + [1.0, 2.0, 0.5, 10.0, 1e6, 1e-6]),
        "fsin": (math.sin, list(rng.uniform(-20, 20, 200)) + [0.0, 0.5, 1.0, 3.0, -3.0]),
        "fcos": (math.cos, list(rng.uniform(-20, 20, 200)) + [0.0, 0.5, 1.0, 3.0, -3.0]),
        "ftan": (math.tan, list(rng.uniform(-1.5, 1.5, 200))),
        "fatan": (math.atan, list(rng.uniform(-50, 50, 200)) + list(rng.uniform(-1, 1, 100)) + [0.0, 1.0, -1.0, 1e8]),
        "facos": (math.acos, list(rng.uniform(-1, 1, 200)) + [1.0, -1.0, 0.0, 0.999999, -0.999999]),
    }
    lines = ["From Coq Require Import ZArith List PrimFloat.",
             "From OAS Require Import Scalar Fops.", "Import ListNotations.", "Open Scope float_scope.",
             "Definition rel (a b : float) := abs (a - b) / fmax 0x1p-1000 (fmax (abs a) (abs b)).",
             "Fixpoint worst (f : float -> float) (l : list (float * float)) : float :=",
             "  match l with [] => 0 | (x, y) :: r => fmax (rel (f x) y) (worst f r) end."]
    for name, (fn, xs) in tests.items():
        pairs = "; ".join("(%s, %s)" % (fl(x), fl(fn(x))) for x in xs)
        lines.append("Eval vm_compute in worst %s [%s]." % (name, pairs))
    # pow
    xs = np.exp(rng.uniform(-5, 12, 200)); ys = rng.uniform(-4, 4, 200)
    pairs = "; ".join("((%s, %s), %s)" % (fl(x), fl(y), fl(x ** y)) for x, y in zip(xs, ys))
    lines.append("Fixpoint worst2 (l : list ((float * float) * float)) : float :=")
    lines.append("  match l with [] => 0 | ((x, y), z) :: r => fmax (rel (fpow x y) z) (worst2 r) end.")
    lines.append("Eval vm_compute in worst2 [%s]." % pairs)
    # ofrac exactness: decimal literals equal Python's parse
    decs = [(455, 1000), (144, 1000), (258, 100), (65, 100), (1328, 1000), (1, 10), (34, 100), (27, 10), (95, 100), (375, 1000)]
    pairs = "; ".join("(@ofrac float Fops %d %d, %s)" % (n, d, fl(float("%d" % n) / d if False else float(repr(n / d)))) for n, d in decs)
    lines.append("Eval vm_compute in forallb (fun p => eqb (fst p) (snd p)) [%s]." % pairs)
    path = os.path.join(WORK, "selftest.v")
    open(path, "w").write("\n".join(lines) + "\n")
    r = subprocess.run(["timeout", "120", "coqc", "-Q", os.path.join(ROOT, "coq/Model"), "OAS", "-Q", os.path.join(ROOT, "coq/Float"), "OAS", "-w", "-inexact-float", path],
                       capture_output=True, text=True)
    if r.returncode != 0:
        print(r.stdout[-2000:], r.stderr[-2000:]); print("SELFTEST BROKEN: coqc failed"); return 1
    vals = re.findall(r"=\s*(\S+)", r.stdout)
    names = list(tests) + ["fpow", "ofrac_exact"]
    ok = True
    for n, v in zip(names, vals):
        print("selftest %-12s %s" % (n, v))
        if n == "ofrac_exact":
            ok &= (v == "true")
        else:
            ok &= (float(v) <= 2e-13)
    if len(vals) != len(names):
        ok = False
    print("SELFTEST", "OK" if ok else "FAILED")
    return 0 if ok else 1

if __name__ == "__main__":
    sys.exit(main())
