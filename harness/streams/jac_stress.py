"""C01 correspondence for Model/Stress.v: reported Jacobians vs the dual-number evaluation of the model."""
import numpy as np
from .. import core, gen
from ..core import fl, arr, nat, boolc, CoqCases, judge
from ..dualj import DJ
from .stress import _nodes

IMPORTS = "Stress"
JTOL = 1e-8


def finish(cc, meta, **kw):
    res, errs = cc.run(**kw)
    first = None
    for cid, S, labels, desc in meta:
        judge(S, res.get(cid), labels, desc, tol=JTOL)
        first = first or S
    if first is not None:
        first["coq_errors"] = errs


def stream_vonmises_jac(R, tier, seed):
    from openaerostruct.structures.vonmises_tube import VonMisesTube
    from openaerostruct.structures.vonmises_wingbox import VonMisesWingbox
    S1 = R.stream("VonMisesTube.jacobian"); S2 = R.stream("VonMisesWingbox.jacobian")
    cc = CoqCases("jvonmises", IMPORTS); meta = []
    rng = gen.stable_rng(seed, "jvonmises")
    nys = (2, 3) if tier == "quick" else (2, 3, 4, 5)
    for kind in ("left", "right", "full"):
        for ny in nys:
            if kind == "full" and ny % 2 == 0:
                continue
            for rep in range(2 if tier == "quick" else 4):
                mesh, nodes = _nodes(rng, ny, kind)
                disp = rng.normal(size=(ny, 6)) * 10 ** rng.uniform(-4, 0)
                radius = rng.uniform(0.02, 0.4, ny - 1)
                surf = gen.tube_surface(mesh, symmetry=(kind != "full"))
                ins = {"nodes": nodes, "radius": radius, "disp": disp}
                o, J, _ = core.run_comp(VonMisesTube(surface=surf), ins)
                D = DJ().lit("ne", nat(ny - 1)).par("E", surf["E"]).par("G", surf["G"]).inp("nodes", nodes).inp("radius", radius).inp("disp", disp)
                out = "T2 {ne} 2 (fun e s => vm_tube {nodes} {disp} e {E} {G} {radius} s)"
                je, jl = D.jac_errs(out, J, ["vonmises"])
                cid = cc.add("(re (%s) %s :: %s)" % (D.vals(out), arr(o["vonmises"]), je))
                meta.append((cid, S1, ["vonmises"] + jl, {"comp": "VonMisesTube", "kind": kind, "ny": ny, "rep": rep, "inputs": core.jsonable(ins)}))
                wsurf = gen.wingbox_surface(mesh, symmetry=(kind != "full"), strength_factor_for_upper_skin=float(rng.choice([1.0, 1.3])))
                ins = {"nodes": nodes, "disp": disp}
                for k, lo, hi in (("Qz", 1e-4, 1e-2), ("J", 1e-4, 1e-2), ("A_enc", 0.05, 0.5), ("spar_thickness", 0.002, 0.02),
                                  ("htop", 0.05, 0.3), ("hbottom", 0.05, 0.3), ("hfront", 0.1, 0.6), ("hrear", 0.1, 0.6)):
                    ins[k] = rng.uniform(lo, hi, ny - 1)
                o, J, _ = core.run_comp(VonMisesWingbox(surface=wsurf), ins)
                D = DJ().lit("ne", nat(ny - 1)).par("E", wsurf["E"]).par("G", wsurf["G"]).par("tssf", wsurf["strength_factor_for_upper_skin"])
                for k in ins: D.inp(k, ins[k])
                out = "T2 {ne} 4 (fun e s => vm_wingbox {nodes} {disp} e {E} {G} {tssf} {Qz} {J} {A_enc} {spar_thickness} {htop} {hbottom} {hfront} {hrear} s)"
                je, jl = D.jac_errs(out, J, ["vonmises"])
                cid = cc.add("(re (%s) %s :: %s)" % (D.vals(out), arr(o["vonmises"]), je))
                meta.append((cid, S2, ["vonmises"] + jl, {"comp": "VonMisesWingbox", "kind": kind, "ny": ny, "rep": rep, "inputs": core.jsonable(ins)}))
                R.count("jvonmises/%s" % kind); R.mark("jvm", kind, ny, rep)
    finish(cc, meta)


def stream_elementwise_jac(R, tier, seed):
    from openaerostruct.structures.failure_exact import FailureExact
    from openaerostruct.structures.non_intersecting_thickness import NonIntersectingThickness
    from openaerostruct.structures.section_properties_tube import SectionPropertiesTube
    S2 = R.stream("FailureExact.jacobian"); S3 = R.stream("NonIntersectingThickness.jacobian"); S4 = R.stream("SectionPropertiesTube.jacobian")
    cc = CoqCases("jelem", IMPORTS); meta = []
    rng = gen.stable_rng(seed, "jelem")
    for ny in ((2, 3, 5) if tier == "quick" else (2, 3, 4, 5, 7, 9)):
        mesh = gen.rand_mesh(rng, 2, ny, "left"); n = ny - 1
        surf = gen.tube_surface(mesh)
        vm = rng.uniform(0, 1, (n, 2)) * 10 ** rng.uniform(0, 10)
        o, J, _ = core.run_comp(FailureExact(surface=surf), {"vonmises": vm})
        D = DJ().lit("n", nat(2 * n)).par("sigma", surf["yield"]).inp("vm", vm.ravel(), "vonmises")
        je, jl = D.jac_errs("T1 {n} (failure_exact {sigma} {vm})", J, ["failure"])
        meta.append((cc.add(je), S2, jl, {"comp": "FailureExact", "ny": ny}))
        th = rng.uniform(0.001, 0.1, n); rad = rng.uniform(0.05, 0.5, n)
        o, J, _ = core.run_comp(NonIntersectingThickness(surface=surf), {"thickness": th, "radius": rad})
        D = DJ().lit("n", nat(n)).inp("th", th, "thickness").inp("rad", rad, "radius")
        je, jl = D.jac_errs("T1 {n} (thickness_intersects {th} {rad})", J, ["thickness_intersects"])
        meta.append((cc.add(je), S3, jl, {"comp": "NonIntersectingThickness", "ny": ny}))
        o, J, _ = core.run_comp(SectionPropertiesTube(surface=surf), {"thickness": th, "radius": rad})
        out = "T1 {n} (fun i => tube_A ({rad} i) ({th} i)) ++ T1 {n} (fun i => tube_Iy ({rad} i) ({th} i)) ++ T1 {n} (fun i => tube_Iy ({rad} i) ({th} i)) ++ T1 {n} (fun i => tube_J ({rad} i) ({th} i))"
        je, jl = D.jac_errs(out, J, ["A", "Iy", "Iz", "J"])
        meta.append((cc.add(je), S4, jl, {"comp": "SectionPropertiesTube", "ny": ny, "radius": rad.tolist(), "thickness": th.tolist()}))
        R.mark("jelem", ny)
    finish(cc, meta)
