"""C01 correspondence for Model/Beam.v, Model/PG.v, Model/Misc.v: reported Jacobians vs the dual-number evaluation
of the model; for the implicit components (FEM, SolveMatrix) the linearisation of the residual."""
import warnings
import numpy as np
import openmdao.api as om
from .. import core, gen
from ..core import fl, arr, nat, boolc, CoqCases, judge
from ..dualj import DJ
from .jac_stress import finish, JTOL
from .beam import real_kloc

IMPORTS = "Beam BeamTables Stress PG Misc Aero"


def implicit_partials(comp, inputs, outputs):
    """the dense sub-Jacobians d residual / d (inputs and outputs) that an implicit component reports"""
    prob = om.Problem(reports=False)
    prob.model.add_subsystem("comp", comp, promotes=["*"])
    with warnings.catch_warnings():
        warnings.simplefilter("ignore")
        prob.setup()
        for k, v in inputs.items(): prob.set_val(k, v)
        prob.run_model()
        vals = {o: np.array(prob.get_val(o)).copy() for o in outputs}
        data = prob.check_partials(out_stream=None, compact_print=True)
    d = data["comp"]
    J = {}
    # (OpenMDAO's own forward differences with an absolute step of 1e-6 are useless here - stiffness entries are
    # 1e9 - so no finite-difference record is made for the implicit residuals: they are bilinear, the exact dual
    # comparison of the stream is the check, and C02 differences the converged solution)
    for (of, wrt), rec in d.items():
        J[(of, wrt)] = np.atleast_2d(np.asarray(rec["J_fwd"]))
    return vals, J


def stream_element_jac(R, tier, seed):
    from openaerostruct.structures.length import Length
    from openaerostruct.structures.local_stiff import LocalStiff
    from openaerostruct.structures.local_stiff_permuted import LocalStiffPermuted
    from openaerostruct.structures.transform import Transform
    from openaerostruct.structures.local_stiff_transformed import LocalStiffTransformed
    from openaerostruct.structures.create_rhs import CreateRHS
    from openaerostruct.structures.disp import Disp
    from openaerostruct.structures.energy import Energy
    names = ("Length", "LocalStiff", "LocalStiffPermuted", "Transform", "LocalStiffTransformed", "CreateRHS", "Disp", "Energy")
    S = {k: R.stream(k + ".jacobian") for k in names}
    cc = CoqCases("jbeam_elem", IMPORTS); meta = []
    rng = gen.stable_rng(seed, "jbeam_elem")
    for kind in ("left", "right", "full"):
        for ny in ((2, 3) if tier == "quick" else (2, 3, 4, 5)):
            if kind == "full" and ny % 2 == 0: continue
            mesh = gen.rand_mesh(rng, 2, ny, kind)
            if kind == "full":
                mesh = mesh + np.array([0.0, float(rng.uniform(3, 9)), 0.0])     # off the centreline: the clamp is the middle node, not the one nearest y = 0
            nodes = 0.65 * mesh[0] + 0.35 * mesh[-1]
            surf = gen.tube_surface(mesh, symmetry=(kind != "full"))
            ne = ny - 1
            desc = {"kind": kind, "ny": ny}
            o, J, _ = core.run_comp(Length(surface=surf), {"nodes": nodes})
            L = o["element_lengths"]
            D = DJ().lit("ne", nat(ne)).inp("nodes", nodes)
            je, jl = D.jac_errs("T1 {ne} (elem_length {nodes})", J, ["element_lengths"])
            meta.append((cc.add(je), S["Length"], jl, dict(desc, comp="Length", nodes=nodes.tolist())))
            A = rng.uniform(1e-3, 5e-2, ne); Jt = rng.uniform(1e-6, 1e-3, ne); Iy = rng.uniform(1e-6, 1e-3, ne); Iz = rng.uniform(1e-6, 1e-3, ne)
            ins = {"A": A, "J": Jt, "Iy": Iy, "Iz": Iz, "element_lengths": L}
            o, J, _ = core.run_comp(LocalStiff(surface=surf), ins)
            D = DJ().lit("ne", nat(ne)).par("E", surf["E"]).par("G", surf["G"]).inp("A", A).inp("J", Jt).inp("Iy", Iy).inp("Iz", Iz).inp("L", L, "element_lengths")
            je, jl = D.jac_errs("T3 {ne} 12 12 (fun e => local_stiff {E} {G} ({A} e) ({J} e) ({Iy} e) ({Iz} e) ({L} e))", J, ["local_stiff"])
            meta.append((cc.add(je), S["LocalStiff"], jl, dict(desc, comp="LocalStiff", inputs=core.jsonable(ins))))
            if ny == 2:
                Kr = rng.normal(size=(ne, 12, 12))
                o, J, _ = core.run_comp(LocalStiffPermuted(surface=surf), {"local_stiff": Kr})
                D = DJ().lit("ne", nat(ne)).inp("K", Kr, "local_stiff")
                je, jl = D.jac_errs("T3 {ne} 12 12 (fun e => permuted ({K} e))", J, ["local_stiff_permuted"])
                meta.append((cc.add(je), S["LocalStiffPermuted"], jl, dict(desc, comp="LocalStiffPermuted")))
                Tm = core.run_comp(Transform(surface=surf), {"nodes": nodes}, want_J=False)[0]["transform"]
                o, J, _ = core.run_comp(LocalStiffTransformed(surface=surf), {"transform": Tm, "local_stiff_permuted": Kr})
                D = DJ().lit("ne", nat(ne)).inp("T", Tm, "transform").inp("K", Kr, "local_stiff_permuted")
                # 144 x 288 entries: a fixed sample of 10 output entries (all inputs) keeps the literal small
                sel = [(0, 0), (3, 7), (11, 11), (5, 2), (8, 9), (1, 10), (6, 6), (2, 4), (9, 0), (7, 3)]
                je, jl = D.jac_errs("map (fun jk => transformed ({T} 0%%nat) ({K} 0%%nat) (fst jk) (snd jk)) [%s]" % "; ".join("(%d%%nat, %d%%nat)" % jk for jk in sel),
                                    J, ["local_stiff_transformed"], rows=[j * 12 + k for j, k in sel])
                meta.append((cc.add(je), S["LocalStiffTransformed"], jl, dict(desc, comp="LocalStiffTransformed")))
            o, J, _ = core.run_comp(Transform(surface=surf), {"nodes": nodes})
            D = DJ().lit("ne", nat(ne)).inp("nodes", nodes)
            je, jl = D.jac_errs("T3 {ne} 12 12 (transform {nodes})", J, ["transform"])
            meta.append((cc.add(je), S["Transform"], jl, dict(desc, comp="Transform", nodes=nodes.tolist())))
            loads = rng.normal(size=(ny, 6)) * np.array([1e3, 1e3, 1e4, 1e3, 1e3, 1e3])
            # the Jacobian is compared off the documented non-smooth region |load| < 1e-6 (there the code zeroes the value
            # while reporting slope 1; the value stream covers that region, C01's statement exempts it)
            loads[0, 0] = 3.0; loads[-1, 4] = -0.5
            o, J, _ = core.run_comp(CreateRHS(surface=surf), {"total_loads": loads})
            D = DJ().lit("n", nat(6 * ny + 6)).lit("ny", nat(ny)).inp("loads", loads, "total_loads")
            je, jl = D.jac_errs("T1 {n} (create_rhs {ny} {loads})", J, ["forces"])
            meta.append((cc.add(je), S["CreateRHS"], jl, dict(desc, comp="CreateRHS", total_loads=loads.tolist())))
            u = rng.normal(size=6 * ny + 6)
            o, J, _ = core.run_comp(Disp(surface=surf), {"disp_aug": u})
            D = DJ().lit("ny", nat(ny)).inp("u", u, "disp_aug")
            je, jl = D.jac_errs("T2 {ny} 6 (disp_of {u})", J, ["disp"])
            meta.append((cc.add(je), S["Disp"], jl, dict(desc, comp="Disp")))
            dsp = rng.normal(size=(ny, 6)) * 0.1
            o, J, _ = core.run_comp(Energy(surface=surf), {"disp": dsp, "loads": loads})
            D = DJ().lit("ny", nat(ny)).inp("disp", dsp).inp("loads", loads)
            je, jl = D.jac_errs("[energy {ny} {disp} {loads}]", J, ["energy"])
            meta.append((cc.add(je), S["Energy"], jl, dict(desc, comp="Energy")))
            R.count("jbeam/%s" % kind); R.mark("jbe", kind, ny)
    finish(cc, meta, shard=4)


def stream_implicit_jac(R, tier, seed):
    """FEM and SolveMatrix: d residual / d (everything), as reported by linearize"""
    from openaerostruct.structures.fem import FEM
    from openaerostruct.aerodynamics.solve_matrix import SolveMatrix
    S1 = R.stream("FEM.linearize"); S2 = R.stream("SolveMatrix.linearize")
    cc = CoqCases("jimplicit", IMPORTS); meta = []
    rng = gen.stable_rng(seed, "jimplicit")
    for kind in ("left", "right", "full"):
        for ny in ((2, 3) if tier == "quick" else (2, 3, 4, 5)):
            if kind == "full" and ny % 2 == 0: continue
            mesh = gen.rand_mesh(rng, 2, ny, kind)
            if kind == "full":
                mesh = mesh + np.array([0.0, float(rng.uniform(3, 9)), 0.0])     # off the centreline: the clamp is the middle node, not the one nearest y = 0
            nodes = 0.65 * mesh[0] + 0.35 * mesh[-1]
            sym = kind != "full"; ne = ny - 1
            surf = gen.tube_surface(mesh, symmetry=sym)
            kloc = real_kloc(rng, nodes, surf)
            forces = np.concatenate([rng.normal(size=6 * ny) * 1e3, np.zeros(6)])
            vals, J = implicit_partials(FEM(surface=surf), {"local_stiff_transformed": kloc, "forces": forces}, ["disp_aug"])
            u = vals["disp_aug"]
            D = DJ().lit("n", nat(6 * ny + 6)).lit("ne", nat(ne)).lit("sym", boolc(sym)).inp("K", kloc, "local_stiff_transformed").inp("f", forces, "forces").inp("u", u, "disp_aug")
            je, jl = D.jac_errs("T1 {n} (fem_residual {ne} (root_index {sym} {ne}) {K} {f} {u})", J, ["disp_aug"])
            meta.append((cc.add(je), S1, jl, {"comp": "FEM", "kind": kind, "ny": ny}))
            R.mark("jfem", kind, ny)
        n = 3 if kind == "left" else (4 if kind == "right" else 6)
        s = {"name": "w", "mesh": np.zeros((2, n + 1, 3)), "symmetry": False}
        A = rng.normal(size=(n, n)) + 3 * np.eye(n); b = rng.normal(size=n) * 10
        vals, J = implicit_partials(SolveMatrix(surfaces=[s]), {"mtx": A, "rhs": b}, ["circulations"])
        c = vals["circulations"]
        D = DJ().lit("n", nat(n)).inp("A", A, "mtx").inp("b", b, "rhs").inp("c", c, "circulations")
        je, jl = D.jac_errs("T1 {n} (solve_residual {n} {A} {b} {c})", J, ["circulations"])
        meta.append((cc.add(je), S2, jl, {"comp": "SolveMatrix", "n": n}))
    finish(cc, meta, shard=2)


def stream_pg_jac(R, tier, seed):
    from openaerostruct.aerodynamics.pg_wind_rotation import RotateToWindFrame, RotateFromWindFrame
    from openaerostruct.aerodynamics.pg_scale import ScaleToPrandtlGlauert, ScaleFromPrandtlGlauert
    names = ("RotateToWindFrame", "ScaleToPrandtlGlauert", "ScaleFromPrandtlGlauert", "RotateFromWindFrame")
    S = {k: R.stream(k + ".jacobian") for k in names}
    cc = CoqCases("jpg", IMPORTS); meta = []
    rng = gen.stable_rng(seed, "jpg")
    for kind in ("left", "full"):
        for (nx, ny) in ([(2, 3)] if tier == "quick" else [(2, 3), (3, 3), (2, 5)]):
            for rep in range(2):
                mesh = gen.rand_mesh(rng, nx, ny, kind)
                s = {"name": "w", "mesh": mesh, "symmetry": kind != "full"}
                n = (nx - 1) * (ny - 1)
                a = float(np.deg2rad(rng.uniform(-15, 15))); b = float(np.deg2rad(rng.choice([0.0, rng.uniform(-15, 15)])))
                M = float(rng.choice([0.0, rng.uniform(0.1, 0.9)])) if rep == 0 else float(rng.uniform(0.1, 0.9))
                cp = rng.normal(size=(n, 3)); fp = rng.normal(size=(n, 3)); bv = rng.normal(size=(n, 3)); rv = rng.normal(size=(n, 3))
                normals = rng.normal(size=(nx - 1, ny - 1, 3))
                ins = {"alpha": a, "beta": b, "coll_pts": cp, "force_pts": fp, "bound_vecs": bv, "rotational_velocities": rv, "w_def_mesh": mesh, "w_normals": normals}
                o, J, _ = core.run_comp(RotateToWindFrame(surfaces=[s], rotational=True), ins)
                D = DJ().lit("n", nat(n)).lit("nx", nat(nx)).lit("ny", nat(ny)).lit("npx", nat(nx - 1)).lit("npy", nat(ny - 1)).scal("a", a, "alpha").scal("b", b, "beta")
                D.inp("cp", cp, "coll_pts").inp("fp", fp, "force_pts").inp("bv", bv, "bound_vecs").inp("rv", rv, "rotational_velocities").inp("m", mesh, "w_def_mesh").inp("nn", normals, "w_normals")
                out = " ++ ".join("T2 {n} 3 (fun p => to_wind {a} {b} ({%s} p))" % k for k in ("cp", "fp", "bv", "rv")) + \
                      " ++ T3 {nx} {ny} 3 (fun i j => to_wind {a} {b} ({m} i j)) ++ T3 {npx} {npy} 3 (fun i j => to_wind {a} {b} ({nn} i j))"
                je, jl = D.jac_errs(out, J, ["coll_pts_w_frame", "force_pts_w_frame", "bound_vecs_w_frame", "rotational_velocities_w_frame", "w_def_mesh_w_frame", "w_normals_w_frame"])
                meta.append((cc.add(je), S["RotateToWindFrame"], jl, {"comp": "RotateToWindFrame", "alpha": a, "beta": b, "nx": nx, "ny": ny}))
                ins2 = {"Mach_number": M, "coll_pts_w_frame": cp, "force_pts_w_frame": fp, "bound_vecs_w_frame": bv, "rotational_velocities_w_frame": rv,
                        "w_def_mesh_w_frame": mesh, "w_normals_w_frame": normals}
                o, J, _ = core.run_comp(ScaleToPrandtlGlauert(surfaces=[s], rotational=True), ins2)
                D = DJ().lit("n", nat(n)).lit("nx", nat(nx)).lit("ny", nat(ny)).lit("npx", nat(nx - 1)).lit("npy", nat(ny - 1)).scal("M", M, "Mach_number")
                D.inp("cp", cp, "coll_pts_w_frame").inp("fp", fp, "force_pts_w_frame").inp("bv", bv, "bound_vecs_w_frame").inp("rv", rv, "rotational_velocities_w_frame").inp("m", mesh, "w_def_mesh_w_frame").inp("nn", normals, "w_normals_w_frame")
                out = " ++ ".join("T2 {n} 3 (fun p => pg_point {M} ({%s} p))" % k for k in ("cp", "fp", "bv")) + " ++ T2 {n} 3 (fun p => pg_rotvel {M} ({rv} p))" + \
                      " ++ T3 {nx} {ny} 3 (fun i j => pg_point {M} ({m} i j)) ++ T3 {npx} {npy} 3 (fun i j => pg_normal {M} ({nn} i j))"
                je, jl = D.jac_errs(out, J, ["coll_pts_pg", "force_pts_pg", "bound_vecs_pg", "rotational_velocities_pg", "w_def_mesh_pg", "w_normals_pg"])
                meta.append((cc.add(je), S["ScaleToPrandtlGlauert"], jl, {"comp": "ScaleToPrandtlGlauert", "Mach": M, "nx": nx, "ny": ny}))
                F = rng.normal(size=(nx - 1, ny - 1, 3)) * 1e3
                o, J, _ = core.run_comp(ScaleFromPrandtlGlauert(surfaces=[s]), {"Mach_number": M, "w_sec_forces_pg": F})
                D = DJ().lit("npx", nat(nx - 1)).lit("npy", nat(ny - 1)).scal("M", M, "Mach_number").inp("F", F, "w_sec_forces_pg")
                je, jl = D.jac_errs("T3 {npx} {npy} 3 (fun i j => pg_force_back {M} ({F} i j))", J, ["w_sec_forces_w_frame"])
                meta.append((cc.add(je), S["ScaleFromPrandtlGlauert"], jl, {"comp": "ScaleFromPrandtlGlauert", "Mach": M}))
                o, J, _ = core.run_comp(RotateFromWindFrame(surfaces=[s]), {"alpha": a, "beta": b, "w_sec_forces_w_frame": F})
                D = DJ().lit("npx", nat(nx - 1)).lit("npy", nat(ny - 1)).scal("a", a, "alpha").scal("b", b, "beta").inp("F", F, "w_sec_forces_w_frame")
                je, jl = D.jac_errs("T3 {npx} {npy} 3 (fun i j => from_wind {a} {b} ({F} i j))", J, ["w_sec_forces"])
                meta.append((cc.add(je), S["RotateFromWindFrame"], jl, {"comp": "RotateFromWindFrame", "alpha": a, "beta": b}))
                R.count("jpg/%s" % kind); R.mark("jpg", kind, nx, ny, rep)
    finish(cc, meta, shard=2)
