"""Correspondence streams for Model/Beam.v (the structural chain)."""
import numpy as np
from .. import core, gen
from ..core import fl, arr, nat, boolc, CoqCases, judge

IMPORTS = "Beam BeamTables Stress"


def _nys(tier):
    return (2, 3, 4, 5) if tier == "quick" else (2, 3, 4, 5, 6, 7, 9, 13)


def stream_element(R, tier, seed):
    from openaerostruct.structures.length import Length
    from openaerostruct.structures.local_stiff import LocalStiff
    from openaerostruct.structures.local_stiff_permuted import LocalStiffPermuted
    from openaerostruct.structures.transform import Transform
    from openaerostruct.structures.local_stiff_transformed import LocalStiffTransformed
    S = {k: R.stream(k) for k in ("Length", "LocalStiff", "LocalStiffPermuted", "Transform", "LocalStiffTransformed")}
    cc = CoqCases("beam_elem", IMPORTS); meta = []
    rng = gen.stable_rng(seed, "beam_elem")
    for kind in ("left", "right", "full"):
        for ny in _nys(tier):
            if kind == "full" and ny % 2 == 0: continue
            mesh = gen.rand_mesh(rng, 2, ny, kind)
            if kind == "full":
                mesh = mesh + np.array([0.0, float(rng.uniform(3, 9)), 0.0])     # off the centreline: the clamp is the middle node, not the one nearest y = 0
            nodes = 0.65 * mesh[0] + 0.35 * mesh[-1]
            surf = gen.tube_surface(mesh, symmetry=(kind != "full"))
            ne = ny - 1
            o, J, _ = core.run_comp(Length(surface=surf), {"nodes": nodes})
            pre = "let nodes := a2 3 %s in " % arr(nodes)
            L = o["element_lengths"]
            # d L_e / d nodes[n,d] = (+-) delta_d / L
            eJ = ("re (t3 %s %s 3 (fun e n d => (if (n =? S e)%%nat then 1 else if (n =? e)%%nat then -1 else 0) * (nodes (S e) d - nodes e d) / elem_length nodes e)) %s") % (
                nat(ne), nat(ny), arr(J[("element_lengths", "nodes")]))
            cid = cc.add(pre + "[re (t1 %s (elem_length nodes)) %s; %s]" % (nat(ne), arr(L), eJ))
            meta.append((cid, S["Length"], ["element_lengths", "J_nodes"], {"comp": "Length", "kind": kind, "ny": ny}))
            A = rng.uniform(1e-3, 5e-2, ne); Jt = rng.uniform(1e-6, 1e-3, ne); Iy = rng.uniform(1e-6, 1e-3, ne); Iz = rng.uniform(1e-6, 1e-3, ne)
            o, _, _ = core.run_comp(LocalStiff(surface=surf), {"A": A, "J": Jt, "Iy": Iy, "Iz": Iz, "element_lengths": L}, want_J=False)
            ls = o["local_stiff"]
            e = "re (t3 %s 12 12 (fun e => local_stiff %s %s (a1 %s e) (a1 %s e) (a1 %s e) (a1 %s e) (a1 %s e))) %s" % (
                nat(ne), fl(surf["E"]), fl(surf["G"]), arr(A), arr(Jt), arr(Iy), arr(Iz), arr(L), arr(ls))
            cid = cc.add("[" + e + "]"); meta.append((cid, S["LocalStiff"], ["local_stiff"], {"comp": "LocalStiff", "kind": kind, "ny": ny}))
            Kr = rng.normal(size=(ne, 12, 12))
            o, _, _ = core.run_comp(LocalStiffPermuted(surface=surf), {"local_stiff": Kr}, want_J=False)
            e = "re (t3 %s 12 12 (fun e => permuted (a3 12 12 %s e))) %s" % (nat(ne), arr(Kr), arr(o["local_stiff_permuted"]))
            cid = cc.add("[" + e + "]"); meta.append((cid, S["LocalStiffPermuted"], ["permuted"], {"comp": "LocalStiffPermuted", "ny": ny}))
            o, _, _ = core.run_comp(Transform(surface=surf), {"nodes": nodes}, want_J=False)
            Tm = o["transform"]
            e = "re (t3 %s 12 12 (transform nodes)) %s" % (nat(ne), arr(Tm))
            cid = cc.add(pre + "[" + e + "]"); meta.append((cid, S["Transform"], ["transform"], {"comp": "Transform", "kind": kind, "ny": ny}))
            o, _, _ = core.run_comp(LocalStiffTransformed(surface=surf), {"transform": Tm, "local_stiff_permuted": Kr}, want_J=False)
            e = "re (t3 %s 12 12 (fun e => transformed (a3 12 12 %s e) (a3 12 12 %s e))) %s" % (nat(ne), arr(Tm), arr(Kr), arr(o["local_stiff_transformed"]))
            cid = cc.add("[" + e + "]"); meta.append((cid, S["LocalStiffTransformed"], ["transformed"], {"comp": "LocalStiffTransformed", "ny": ny}))
            R.count("beam_elem/%s" % kind); R.mark("be", kind, ny)
    # element directions far from the usual spanwise ones: steeply swept (direction cosine along x up to 0.98), near-vertical
    # (winglet-like) and general; the local frame is built from the element axis and the GLOBAL x axis for every one of them
    for rep in range(3 if tier == "quick" else 8):
        ny = int(rng.choice([3, 4, 6])); ne = ny - 1
        dirs = rng.normal(size=(ne, 3)); dirs /= np.linalg.norm(dirs, axis=1)[:, None]
        for e in range(ne):
            if e % 2 == 0:
                cx = float(rng.uniform(0.85, 0.98)) * float(rng.choice([-1, 1])); rest = rng.normal(size=2); rest *= np.sqrt(1 - cx * cx) / np.linalg.norm(rest)
                dirs[e] = [cx, rest[0], rest[1]]
        nodes = np.vstack([np.zeros(3), np.cumsum(dirs * rng.uniform(0.5, 3.0, (ne, 1)), axis=0)])
        mesh = np.stack([nodes - [0.3, 0, 0], nodes + [0.7, 0, 0]])
        surf = gen.tube_surface(mesh, symmetry=True)
        o, _, _ = core.run_comp(Transform(surface=surf), {"nodes": nodes}, want_J=False)
        e = "re (t3 %s 12 12 (transform nodes)) %s" % (nat(ne), arr(o["transform"]))
        cid = cc.add("let nodes := a2 3 %s in " % arr(nodes) + "[" + e + "]")
        meta.append((cid, S["Transform"], ["transform"], {"comp": "Transform", "kind": "extreme-directions", "ny": ny, "nodes": nodes.tolist()}))
        R.count("beam_elem/extreme-directions"); R.mark("be-x", rep)
    R.sample({"component": "beam element chain", "example": meta[0][3]})
    res, errs = cc.run(shard=10)
    for cid, St, labels, desc in meta:
        judge(St, res.get(cid), labels, desc)
    S["Length"]["coq_errors"] = errs


def real_kloc(rng, nodes, surf):
    """a physically meaningful set of element matrices, from the implementation's own upstream chain"""
    from openaerostruct.structures.assemble_k_group import AssembleKGroup
    import openmdao.api as om, warnings
    ne = nodes.shape[0] - 1
    p = om.Problem(reports=False); p.model.add_subsystem("k", AssembleKGroup(surface=surf), promotes=["*"])
    with warnings.catch_warnings():
        warnings.simplefilter("ignore"); p.setup()
        r = rng.uniform(0.05, 0.3, ne); t = r * rng.uniform(0.05, 0.3, ne)
        A = np.pi * (r ** 2 - (r - t) ** 2); I = np.pi * (r ** 4 - (r - t) ** 4) / 4
        p.set_val("nodes", nodes); p.set_val("A", A); p.set_val("Iy", I); p.set_val("Iz", I); p.set_val("J", 2 * I); p.run_model()
        return np.array(p.get_val("local_stiff_transformed")).copy()


def stream_fem(R, tier, seed):
    from openaerostruct.structures.fem import FEM
    from openaerostruct.structures.create_rhs import CreateRHS
    from openaerostruct.structures.disp import Disp
    S1 = R.stream("FEM"); S2 = R.stream("CreateRHS"); S3 = R.stream("Disp")
    cc = CoqCases("beam_fem", IMPORTS); meta = []
    rng = gen.stable_rng(seed, "beam_fem")
    for kind in ("left", "right", "full"):
        for ny in _nys(tier):
            if kind == "full" and ny % 2 == 0: continue
            mesh = gen.rand_mesh(rng, 2, ny, kind)
            if kind == "full":
                mesh = mesh + np.array([0.0, float(rng.uniform(3, 9)), 0.0])     # off the centreline: the clamp is the middle node, not the one nearest y = 0
            nodes = 0.65 * mesh[0] + 0.35 * mesh[-1]
            sym = kind != "full"
            surf = gen.tube_surface(mesh, symmetry=sym)
            ne = ny - 1
            kloc = real_kloc(rng, nodes, surf)
            loads = rng.normal(size=(ny, 6)) * np.array([1e3, 1e3, 1e4, 1e3, 1e3, 1e3])
            loads[0, 0] = 1e-9; loads[-1, 4] = -5e-7; loads[0, 1] = 0.0       # below the zeroing threshold
            o, _, _ = core.run_comp(CreateRHS(surface=surf), {"total_loads": loads}, want_J=False)
            forces = o["forces"]
            e = "re (t1 %s (create_rhs %s (a2 6 %s))) %s" % (nat(6 * ny + 6), nat(ny), arr(loads), arr(forces))
            cid = cc.add("[" + e + "]"); meta.append((cid, S2, ["forces"], {"comp": "CreateRHS", "ny": ny}))
            o, _, _ = core.run_comp(FEM(surface=surf), {"local_stiff_transformed": kloc, "forces": forces}, want_J=False)
            u = o["disp_aug"]
            # backward error of the implementation's solution in the model's assembled system
            e = ("let kloc := a3 12 12 %s in let f := a1 %s in let u := a1 %s in "
                 "[maxabs (t1 %s (fem_residual %s (root_index %s %s) kloc f u)) / (maxabs %s * maxabs %s + maxabs %s)]") % (
                arr(kloc), arr(forces), arr(u), nat(6 * ny + 6), nat(ne), boolc(sym), nat(ne), arr(kloc), arr(u[:6 * ny]), arr(forces))
            cid = cc.add(e); meta.append((cid, S1, ["backward_error"], {"comp": "FEM", "kind": kind, "ny": ny}))
            o, _, _ = core.run_comp(Disp(surface=surf), {"disp_aug": u}, want_J=False)
            e = "re (t2 %s 6 (disp_of (a1 %s))) %s" % (nat(ny), arr(u), arr(o["disp"]))
            cid = cc.add("[" + e + "]"); meta.append((cid, S3, ["disp"], {"comp": "Disp", "ny": ny}))
            R.count("beam_fem/%s" % kind); R.mark("bf", kind, ny)
    res, errs = cc.run(shard=6)
    for cid, St, labels, desc in meta:
        judge(St, res.get(cid), labels, desc, tol={"backward_error": 1e-9})
    S1["coq_errors"] = errs
