"""Correspondence streams for Model/Geom.v: the nine mesh transformations and the GeometryMesh chain."""
import numpy as np
from .. import core, gen
from ..core import fl, arr, nat, boolc, CoqCases, judge

IMPORTS = "Geom"


def stream_transformations(R, tier, seed):
    import openaerostruct.geometry.geometry_mesh_transformations as T
    names = ["Taper", "ScaleX", "Sweep", "ShearX", "Stretch", "ShearY", "Dihedral", "ShearZ", "Rotate"]
    S = {n: R.stream(n) for n in names}
    cc = CoqCases("geom", IMPORTS); meta = []
    rng = gen.stable_rng(seed, "geom")
    sizes = [(2, 2), (2, 3), (3, 4), (2, 5)] if tier == "quick" else gen.sizes(tier)
    for kind in ("left", "right", "full"):
        for (nx, ny) in sizes:
            if kind == "full" and ny % 2 == 0: continue
            for plain in (False, True):
                m = gen.rand_mesh(rng, nx, ny, kind, plain=plain)
                sym = kind != "full"; npx, npy = nx - 1, ny - 1
                rap = float(rng.choice([0.25, 0.0, 1.0, rng.uniform(0, 1)]))
                M = "(a3 %s 3 %s)" % (nat(ny), arr(m)); pre = "let m := %s in " % M
                dist = rng.uniform(0.6, 1.4, ny); sh = rng.normal(size=ny) * 0.3; tw = rng.uniform(-8, 8, ny)
                desc = {"kind": kind, "nx": nx, "ny": ny, "plain": plain, "ref_axis_pos": rap}

                def out(e): return "re (t3 %s %s 3 (%s)) " % (nat(nx), nat(ny), e)
                for tval in (float(rng.uniform(0.2, 1.5)), 1.0):
                    o, _, _ = core.run_comp(T.Taper(val=1.0, mesh=m, symmetry=sym, ref_axis_pos=rap), {"taper": tval}, want_J=False)
                    cid = cc.add(pre + "[" + out("taper_mesh %s %s %s %s %s m" % (nat(npx), nat(npy), boolc(sym), fl(rap), fl(tval))) + arr(o["mesh"]) + "]")
                    meta.append((cid, S["Taper"], ["mesh"], dict(desc, comp="Taper", taper=tval)))
                o, _, _ = core.run_comp(T.ScaleX(val=np.ones(ny), mesh_shape=m.shape, ref_axis_pos=rap), {"in_mesh": m, "chord": dist}, want_J=False)
                cid = cc.add(pre + "[" + out("scalex_mesh %s %s (a1 %s) m" % (nat(npx), fl(rap), arr(dist))) + arr(o["mesh"]) + "]")
                meta.append((cid, S["ScaleX"], ["mesh"], dict(desc, comp="ScaleX")))
                for cls, fn, ang in ((T.Sweep, "sweep_mesh", float(rng.uniform(-20, 35))), (T.Dihedral, "dihedral_mesh", float(rng.uniform(-10, 15)))):
                    key = "sweep" if cls is T.Sweep else "dihedral"
                    o, _, _ = core.run_comp(cls(val=0.0, mesh_shape=m.shape, symmetry=sym), {"in_mesh": m, key: ang}, want_J=False)
                    cid = cc.add(pre + "[" + out("%s %s %s %s m" % (fn, nat(npy), boolc(sym), fl(ang))) + arr(o["mesh"]) + "]")
                    meta.append((cid, S[cls.__name__], ["mesh"], dict(desc, comp=cls.__name__, angle=ang)))
                for cls, axis, key in ((T.ShearX, 0, "xshear"), (T.ShearY, 1, "yshear"), (T.ShearZ, 2, "zshear")):
                    o, _, _ = core.run_comp(cls(val=np.zeros(ny), mesh_shape=m.shape), {"in_mesh": m, key: sh}, want_J=False)
                    cid = cc.add(pre + "[" + out("shear_mesh %s (a1 %s) m" % (nat(axis), arr(sh))) + arr(o["mesh"]) + "]")
                    meta.append((cid, S[cls.__name__], ["mesh"], dict(desc, comp=cls.__name__)))
                span = float(rng.uniform(3, 20))
                o, _, _ = core.run_comp(T.Stretch(val=1.0, mesh_shape=m.shape, symmetry=sym, ref_axis_pos=rap), {"in_mesh": m, "span": span}, want_J=False)
                cid = cc.add(pre + "[" + out("stretch_mesh %s %s %s %s %s m" % (nat(npx), nat(npy), boolc(sym), fl(rap), fl(span))) + arr(o["mesh"]) + "]")
                meta.append((cid, S["Stretch"], ["mesh"], dict(desc, comp="Stretch", span=span)))
                for twv in (tw, np.zeros(ny)):
                    for rx in (True, False):
                        o, _, _ = core.run_comp(T.Rotate(val=np.zeros(ny), mesh_shape=m.shape, symmetry=sym, ref_axis_pos=rap, rotate_x=rx), {"in_mesh": m, "twist": twv}, want_J=False)
                        cid = cc.add(pre + "[" + out("rotate_mesh %s %s %s %s %s (a1 %s) m" % (nat(npx), nat(npy), boolc(sym), boolc(rx), fl(rap), arr(twv))) + arr(o["mesh"]) + "]")
                        meta.append((cid, S["Rotate"], ["mesh"], dict(desc, comp="Rotate", rotate_x=rx, zero_twist=bool(np.all(twv == 0)))))
                R.count("geom/%s/plain=%s" % (kind, plain)); R.mark("geom", kind, nx, ny, plain)
    R.sample({"component": "mesh transformations", "example": meta[0][3]})
    res, errs = cc.run(shard=30)
    for cid, St, labels, desc in meta:
        judge(St, res.get(cid), labels, desc)
    S["Taper"]["coq_errors"] = errs


def stream_chain(R, tier, seed):
    """GeometryMesh: the whole chain with every design variable supplied directly (no splines)"""
    from openaerostruct.geometry.geometry_mesh import GeometryMesh
    S = R.stream("GeometryMesh")
    cc = CoqCases("geom_chain", IMPORTS); meta = []
    rng = gen.stable_rng(seed, "geom_chain")
    for kind in ("left", "right", "full"):
        for (nx, ny) in ([(2, 3), (3, 5)] if tier == "quick" else [(2, 3), (3, 5), (2, 7), (4, 5)]):
            for defaults in (False, True):
                m = gen.rand_mesh(rng, nx, ny, kind, plain=False)
                # the end points 0 (leading edge) and 1 (trailing edge) of the documented range belong to the sample: a seeded change
                # that read `surface.get("ref_axis_pos") or 0.25` (0.0 is falsy) was missed when only interior values were drawn
                sym = kind != "full"; rap = float([0.0, 0.25, 1.0, 0.6][len(meta) % 4])
                ra = rap * m[-1] + (1 - rap) * m[0]
                cur_span = (ra[:, 1].max() - ra[:, 1].min()) * (2.0 if sym else 1.0)
                if defaults:
                    dv = dict(taper=1.0, chord=np.ones(ny), sweep=0.0, xshear=np.zeros(ny), span=cur_span, yshear=np.zeros(ny), dihedral=0.0, zshear=np.zeros(ny), twist=np.zeros(ny))
                else:
                    dv = dict(taper=float(rng.uniform(0.3, 1.2)), chord=rng.uniform(0.7, 1.3, ny), sweep=float(rng.uniform(-10, 30)), xshear=rng.normal(size=ny) * 0.2,
                              span=float(cur_span * rng.uniform(0.7, 1.4)), yshear=rng.normal(size=ny) * 0.05, dihedral=float(rng.uniform(-5, 10)), zshear=rng.normal(size=ny) * 0.2,
                              twist=rng.uniform(-6, 6, ny))
                surf = {"name": "w", "mesh": m, "symmetry": sym, "ref_axis_pos": rap, "taper": 1.0, "chord_cp": np.ones(2), "sweep": 0.0, "xshear_cp": np.zeros(2), "span": cur_span,
                        "yshear_cp": np.zeros(2), "dihedral": 0.0, "zshear_cp": np.zeros(2), "twist_cp": np.zeros(2)}
                o, _, _ = core.run_comp(GeometryMesh(surface=surf), dv, want_J=False, outputs=["mesh"])
                e = ("re (t3 %s %s 3 (geometry_mesh %s %s %s %s (@mkDVs float %s (a1 %s) %s (a1 %s) %s (a1 %s) %s (a1 %s) (a1 %s)) (a3 %s 3 %s))) %s") % (
                    nat(nx), nat(ny), nat(nx - 1), nat(ny - 1), boolc(sym), fl(rap), fl(dv["taper"]), arr(dv["chord"]), fl(dv["sweep"]), arr(dv["xshear"]), fl(dv["span"]),
                    arr(dv["yshear"]), fl(dv["dihedral"]), arr(dv["zshear"]), arr(dv["twist"]), nat(ny), arr(m), arr(o["mesh"]))
                cid = cc.add("[" + e + "]")
                meta.append((cid, ["mesh"], {"comp": "GeometryMesh", "kind": kind, "nx": nx, "ny": ny, "defaults": defaults, "ref_axis_pos": rap}))
                R.count("geom_chain/%s/defaults=%s" % (kind, defaults)); R.mark("gchain", kind, nx, ny, defaults)
    res, errs = cc.run(shard=6)
    for cid, labels, desc in meta:
        judge(S, res.get(cid), labels, desc)
    S["coq_errors"] = errs
