"""Correspondence streams for Model/Aero.v (the vortex-lattice chain), component by component."""
import numpy as np
from .. import core, gen
from ..core import fl, arr, nat, boolc, CoqCases, judge

IMPORTS = "Aero"


def _surf(mesh, kind, name="wing", ground=False, **kw):
    s = {"name": name, "mesh": mesh, "symmetry": kind != "full", "S_ref_type": "wetted"}
    if ground:
        s["groundplane"] = True
    s.update(kw)
    return s


def _kinds():
    return ("left", "right", "full")


def stream_points_and_mesh(R, tier, seed):
    """CollocationPoints, VortexMesh (incl. ground effect), GetVectors"""
    from openaerostruct.aerodynamics.collocation_points import CollocationPoints
    from openaerostruct.aerodynamics.vortex_mesh import VortexMesh
    from openaerostruct.aerodynamics.get_vectors import GetVectors
    S1 = R.stream("CollocationPoints"); S2 = R.stream("VortexMesh"); S3 = R.stream("GetVectors")
    cc = CoqCases("aero_points", IMPORTS); meta = []
    rng = gen.stable_rng(seed, "aero_points")
    for kind in _kinds():
        for (nx, ny) in gen.sizes(tier, full=(kind == "full")):
            mesh0 = gen.rand_mesh(rng, nx, ny, kind)
            defm = mesh0 + rng.normal(size=mesh0.shape) * 0.01
            npx, npy = nx - 1, ny - 1
            s = _surf(mesh0, kind)
            o, J, _ = core.run_comp(CollocationPoints(surfaces=[s]), {"wing_def_mesh": defm})
            pre = "let m := a3 %s 3 %s in " % (nat(ny), arr(defm))
            es = ["re (t3 %s %s 3 (coll_pts m)) %s" % (nat(npx), nat(npy), arr(o["coll_pts"])),
                  "re (t3 %s %s 3 (force_pts_c m)) %s" % (nat(npx), nat(npy), arr(o["force_pts"])),
                  "re (t3 %s %s 3 (bound_vecs m)) %s" % (nat(npx), nat(npy), arr(o["bound_vecs"])),
                  "re (t6 %s %s 3 %s %s 3 (fun i j d i' j' d' => coll_pts (delta3 i' j' d') i j d)) %s" % (nat(npx), nat(npy), nat(nx), nat(ny), arr(J[("coll_pts", "wing_def_mesh")])),
                  "re (t6 %s %s 3 %s %s 3 (fun i j d i' j' d' => force_pts_c (delta3 i' j' d') i j d)) %s" % (nat(npx), nat(npy), nat(nx), nat(ny), arr(J[("force_pts", "wing_def_mesh")])),
                  "re (t6 %s %s 3 %s %s 3 (fun i j d i' j' d' => bound_vecs (delta3 i' j' d') i j d)) %s" % (nat(npx), nat(npy), nat(nx), nat(ny), arr(J[("bound_vecs", "wing_def_mesh")]))]
            cid = cc.add(pre + "[" + "; ".join(es) + "]")
            meta.append((cid, S1, ["coll_pts", "force_pts", "bound_vecs", "J_coll", "J_force", "J_bound"], {"comp": "CollocationPoints", "kind": kind, "nx": nx, "ny": ny}))
            for ground in ((False, True) if kind != "full" else (False,)):
                s = _surf(mesh0, kind, ground=ground)
                ins = {"wing_def_mesh": defm}
                alpha = float(np.deg2rad(rng.uniform(-10, 12))); h = float(10 ** rng.uniform(-0.5, 3))
                if ground:
                    ins["alpha"] = alpha; ins["height_agl"] = h
                o, J, _ = core.run_comp(VortexMesh(surfaces=[s]), ins)
                vm = o["wing_vortex_mesh"]
                left = abs(mesh0[0, 0, 1]) > abs(mesh0[0, -1, 1])
                args = "%s %s %s %s %s %s %s" % (nat(npx), nat(npy), boolc(kind != "full"), boolc(ground), boolc(left), fl(alpha), fl(h))
                es = ["re (t3 %s %s 3 (vortex_mesh %s m)) %s" % (nat(vm.shape[0]), nat(vm.shape[1]), args, arr(vm)),
                      # the vortex mesh is affine in the mesh (constant part = ground-plane offset): J = f(delta) - f(0)
                      "re (t6 %s %s 3 %s %s 3 (fun i j d i' j' d' => vortex_mesh %s (delta3 i' j' d') i j d - vortex_mesh %s zero3 i j d)) %s" % (
                          nat(vm.shape[0]), nat(vm.shape[1]), nat(nx), nat(ny), args, args, arr(J[("wing_vortex_mesh", "wing_def_mesh")]))]
                cid = cc.add(pre + "[" + "; ".join(es) + "]")
                meta.append((cid, S2, ["vortex_mesh", "J_mesh"], {"comp": "VortexMesh", "kind": kind, "nx": nx, "ny": ny, "ground": ground, "alpha_rad": alpha, "h": h}))
                # get vectors with a few evaluation points
                ne = 3
                pts = rng.normal(size=(ne, 3)) * 3
                o2, _, _ = core.run_comp(GetVectors(surfaces=[s], num_eval_points=ne, eval_name="coll_pts"), {"coll_pts": pts, "wing_vortex_mesh": vm}, want_J=False)
                e = "re (t4 %s %s %s 3 (get_vectors (a2 3 %s) (a3 %s 3 %s))) %s" % (nat(ne), nat(vm.shape[0]), nat(vm.shape[1]), arr(pts), nat(vm.shape[1]), arr(vm), arr(o2["wing_coll_pts_vectors"]))
                cid = cc.add("[" + e + "]")
                meta.append((cid, S3, ["vectors"], {"comp": "GetVectors", "kind": kind, "nx": nx, "ny": ny, "ground": ground}))
                R.count("aero_points/%s/ground=%s" % (kind, ground)); R.mark("ap", kind, nx, ny, ground)
    res, errs = cc.run()
    for cid, S, labels, desc in meta:
        judge(S, res.get(cid), labels, desc, tol={"J_mesh": 1e-9})
    S1["coq_errors"] = errs


def stream_eval_mtx(R, tier, seed):
    """EvalVelMtx on vectors produced by the real upstream components (so no degenerate geometry)."""
    from openaerostruct.aerodynamics.vortex_mesh import VortexMesh
    from openaerostruct.aerodynamics.eval_mtx import EvalVelMtx
    S = R.stream("EvalVelMtx")
    cc = CoqCases("eval_mtx", IMPORTS); meta = []
    rng = gen.stable_rng(seed, "eval_mtx")
    sizes = gen.sizes(tier)
    if tier == "quick":
        sizes = [(2, 2), (2, 3), (3, 3), (3, 4), (2, 5)]
    for kind in _kinds():
        for (nx, ny) in (sizes if kind != "full" else [s for s in sizes if s[1] % 2 == 1]):
            for ground in ((False, True) if kind != "full" else (False,)):
                if (nx - 1) * (ny - 1) > (12 if ground else 18):
                    continue        # the lattice is evaluated inside Coq entry by entry: larger ones took over 25 CPU-minutes each
                mesh0 = gen.rand_mesh(rng, nx, ny, kind)
                if ground:
                    mesh0 = mesh0 - [0, 0, mesh0[:, :, 2].min()]        # keep the geometry above the plane through the origin offset h
                npx, npy = nx - 1, ny - 1
                s = _surf(mesh0, kind, ground=ground)
                alpha_deg = float(rng.uniform(-8, 12)); h = float(10 ** rng.uniform(0.3, 2.5))
                ins = {"wing_def_mesh": mesh0}
                if ground:
                    ins["alpha"] = np.deg2rad(alpha_deg); ins["height_agl"] = h
                vm = core.run_comp(VortexMesh(surfaces=[s]), ins, want_J=False)[0]["wing_vortex_mesh"]
                # evaluation points: the surface's own collocation points plus two detached points
                cp = (0.125 * (mesh0[:-1, :-1] + mesh0[:-1, 1:]) + 0.375 * (mesh0[1:, :-1] + mesh0[1:, 1:])).reshape(-1, 3)
                pts = np.vstack([cp, rng.normal(size=(2, 3)) * 2 + [0.3, 0.5, 0.7]])
                ne = pts.shape[0]
                vec = pts[:, None, None, :] - vm[None, :, :, :]
                o, _, _ = core.run_comp(EvalVelMtx(surfaces=[s], num_eval_points=ne, eval_name="coll_pts"), {"alpha": alpha_deg, "wing_coll_pts_vectors": vec}, want_J=False)
                right = abs(mesh0[0, 0, 1]) < abs(mesh0[0, -1, 1])
                e = "re (t4 %s %s %s 3 (vel_mtx %s %s %s %s %s %s (a4 %s %s 3 %s))) %s" % (
                    nat(ne), nat(npx), nat(npy), nat(npx), nat(npy), boolc(kind != "full"), boolc(ground), boolc(right), fl(alpha_deg),
                    nat(vm.shape[0]), nat(vm.shape[1]), arr(vec), arr(o["wing_coll_pts_vel_mtx"]))
                cid = cc.add("[" + e + "]")
                meta.append((cid, ["vel_mtx"], {"comp": "EvalVelMtx", "kind": kind, "nx": nx, "ny": ny, "ground": ground, "alpha_deg": alpha_deg, "h": h}))
                R.count("eval_mtx/%s/ground=%s" % (kind, ground)); R.mark("evm", kind, nx, ny, ground)
                R.sample({"component": "EvalVelMtx", "kind": kind, "nx": nx, "ny": ny, "ground": ground, "alpha_deg": alpha_deg})
    res, errs = cc.run(shard=(6 if tier == "quick" else 1))      # thorough: the big lattices one per file, so that they run in parallel
    for cid, labels, desc in meta:
        judge(S, res.get(cid), labels, desc)
    S["coq_errors"] = errs


def _two_surfaces(rng, tier, kinds):
    surfs, meshes = [], []
    for si, kind in enumerate(kinds):
        nx, ny = [(2, 3), (3, 3), (2, 5), (3, 5)][int(rng.integers(0, 4))] if kind != "full" else [(2, 3), (3, 3), (2, 5)][int(rng.integers(0, 3))]
        if si >= 2:
            nx = 3          # a third surface with two chordwise panels: exercises the cumulative offsets of every per-surface block
        mesh = gen.rand_mesh(rng, nx, ny, kind) + np.array([4.0 * si, 0.0, 0.6 * si])
        surfs.append(_surf(mesh, kind, name="s%d" % si)); meshes.append(mesh)
    return surfs, meshes


def stream_geometry_and_flow(R, tier, seed):
    """VLMGeometry, ConvertVelocity, RotationalVelocity, LiftDrag, Coeffs, TotalLift"""
    from openaerostruct.aerodynamics.geometry import VLMGeometry
    from openaerostruct.aerodynamics.convert_velocity import ConvertVelocity
    from openaerostruct.aerodynamics.rotational_velocity import RotationalVelocity
    from openaerostruct.aerodynamics.lift_drag import LiftDrag
    from openaerostruct.aerodynamics.coeffs import Coeffs
    from openaerostruct.aerodynamics.total_lift import TotalLift
    SG = R.stream("VLMGeometry"); SC = R.stream("ConvertVelocity"); SR = R.stream("RotationalVelocity"); SL = R.stream("LiftDrag"); SK = R.stream("Coeffs+TotalLift")
    cc = CoqCases("aero_geom", IMPORTS); meta = []
    rng = gen.stable_rng(seed, "aero_geom")
    for kind in _kinds():
        for (nx, ny) in gen.sizes(tier, full=(kind == "full")):
            for proj in (False, True):
                mesh = gen.rand_mesh(rng, nx, ny, kind)
                npx, npy = nx - 1, ny - 1
                s = _surf(mesh, kind, S_ref_type="projected" if proj else "wetted")
                o, _, _ = core.run_comp(VLMGeometry(surface=s), {"def_mesh": mesh}, want_J=False)
                pre = "let m := a3 %s 3 %s in " % (nat(ny), arr(mesh))
                es = ["re (t3 %s %s 3 (g_bpts m)) %s" % (nat(npx), nat(ny), arr(o["b_pts"])),
                      "re (t1 %s (g_widths %s m)) %s" % (nat(npy), nat(npx), arr(o["widths"])),
                      "re (t1 %s (g_lengths_spanwise %s m)) %s" % (nat(npy), nat(npx), arr(o["lengths_spanwise"])),
                      "re (t1 %s (g_lengths %s m)) %s" % (nat(ny), nat(npx), arr(o["lengths"])),
                      "re (t1 %s (g_chords %s m)) %s" % (nat(ny), nat(npx), arr(o["chords"])),
                      "re (t3 %s %s 3 (g_normals m)) %s" % (nat(npx), nat(npy), arr(o["normals"])),
                      "re [g_Sref %s %s %s %s m] %s" % (nat(npx), nat(npy), boolc(kind != "full"), boolc(proj), arr(o["S_ref"]))]
                cid = cc.add(pre + "[" + "; ".join(es) + "]")
                meta.append((cid, SG, ["b_pts", "widths", "lengths_spanwise", "lengths", "chords", "normals", "S_ref"], {"comp": "VLMGeometry", "kind": kind, "nx": nx, "ny": ny, "projected": proj}))
                R.count("VLMGeometry/%s" % kind); R.mark("geo", kind, nx, ny, proj)
            # flow components on this surface
            s = _surf(mesh, kind)
            n = npx * npy
            alpha = float(rng.uniform(-15, 15)); beta = float(rng.choice([0.0, rng.uniform(-15, 15)])); v = float(rng.uniform(5, 300))
            rotv = rng.normal(size=(n, 3)) * 10
            for rot in (False, True):
                ins = {"alpha": alpha, "beta": beta, "v": v}
                if rot: ins["rotational_velocities"] = rotv
                o, _, _ = core.run_comp(ConvertVelocity(surfaces=[s], rotational=rot), ins, want_J=False)
                e = "re (t2 %s 3 (fun p d => freestream %s %s %s d %s)) %s" % (nat(n), fl(alpha), fl(beta), fl(v), ("+ a2 3 %s p d" % arr(rotv)) if rot else "", arr(o["freestream_velocities"]))
                cid = cc.add("[" + e + "]"); meta.append((cid, SC, ["freestream"], {"comp": "ConvertVelocity", "rotational": rot, "alpha": alpha, "beta": beta}))
            cp = rng.normal(size=(n, 3)) * 3; om_ = rng.normal(size=3) * 0.3; cg = rng.normal(size=3)
            o, _, _ = core.run_comp(RotationalVelocity(surfaces=[s]), {"coll_pts": cp, "omega": om_, "cg": cg}, want_J=False)
            e = "re (t2 %s 3 (fun p d => rot_vel (a1 %s) (a1 %s) (a2 3 %s p) d)) %s" % (nat(n), arr(om_), arr(cg), arr(cp), arr(o["rotational_velocities"]))
            cid = cc.add("[" + e + "]"); meta.append((cid, SR, ["rotational_velocities"], {"comp": "RotationalVelocity", "kind": kind, "nx": nx, "ny": ny}))
            F = rng.normal(size=(npx, npy, 3)) * 1e3
            o, _, _ = core.run_comp(LiftDrag(surface=s), {"sec_forces": F, "alpha": alpha, "beta": beta}, want_J=False)
            e = "re [lift %s %s %s (a2 3 %s); drag %s %s %s %s (a2 3 %s)] %s" % (nat(n), boolc(kind != "full"), fl(alpha), arr(F), nat(n), boolc(kind != "full"), fl(alpha), fl(beta), arr(F), arr([o["L"], o["D"]]))
            cid = cc.add("[" + e + "]"); meta.append((cid, SL, ["L,D"], {"comp": "LiftDrag", "kind": kind, "nx": nx, "ny": ny, "alpha": alpha, "beta": beta}))
            L, D = float(o["L"].ravel()[0]), float(o["D"].ravel()[0]); rho = float(rng.uniform(0.2, 1.3)); Sr = float(rng.uniform(5, 200))
            o, _, _ = core.run_comp(Coeffs(), {"S_ref": Sr, "L": L, "D": D, "v": v, "rho": rho}, want_J=False)
            CL0 = float(rng.choice([0.0, 0.2]))
            o2, _, _ = core.run_comp(TotalLift(surface=dict(s, CL0=CL0)), {"CL1": float(o["CL1"].ravel()[0])}, want_J=False)
            e = "re [coeff %s %s %s %s; coeff %s %s %s %s; total_lift_coeff (coeff %s %s %s %s) %s] %s" % (
                fl(L), fl(rho), fl(v), fl(Sr), fl(D), fl(rho), fl(v), fl(Sr), fl(L), fl(rho), fl(v), fl(Sr), fl(CL0), arr([o["CL1"], o["CDi"], o2["CL"]]))
            cid = cc.add("[" + e + "]"); meta.append((cid, SK, ["CL1,CDi,CL"], {"comp": "Coeffs/TotalLift"}))
    res, errs = cc.run()
    for cid, S, labels, desc in meta:
        judge(S, res.get(cid), labels, desc)
    SG["coq_errors"] = errs


def stream_system(R, tier, seed):
    """VLMMtxRHSComp, SolveMatrix (backward error), HorseshoeCirculations, EvalVelocities, PanelForces,
    PanelForcesSurf on one and two surfaces (global flat panel index with ind_1/ind_2 offsets)."""
    from openaerostruct.aerodynamics.mtx_rhs import VLMMtxRHSComp
    from openaerostruct.aerodynamics.solve_matrix import SolveMatrix
    from openaerostruct.aerodynamics.horseshoe_circulations import HorseshoeCirculations
    from openaerostruct.aerodynamics.eval_velocities import EvalVelocities
    from openaerostruct.aerodynamics.panel_forces import PanelForces
    from openaerostruct.aerodynamics.panel_forces_surf import PanelForcesSurf
    SM = R.stream("VLMMtxRHSComp"); SS = R.stream("SolveMatrix"); SH = R.stream("HorseshoeCirculations"); SE = R.stream("EvalVelocities"); SP = R.stream("PanelForces+Surf")
    cc = CoqCases("aero_system", IMPORTS); meta = []
    rng = gen.stable_rng(seed, "aero_system")
    combos = [("left",), ("full",), ("right",), ("left", "full"), ("full", "right"), ("left", "left"), ("left", "full", "right")]
    reps = 1 if tier == "quick" else 4
    for kinds in combos:
        for rep in range(reps):
            surfs, meshes = _two_surfaces(rng, tier, kinds)
            shapes = [(m.shape[0] - 1, m.shape[1] - 1) for m in meshes]
            nums = [a * b for a, b in shapes]; n = sum(nums)
            velm = {s["name"]: rng.normal(size=(n, a, b, 3)) for s, (a, b) in zip(surfs, shapes)}
            normals = {}
            for s, (a, b) in zip(surfs, shapes):
                nn = rng.normal(size=(a, b, 3)); normals[s["name"]] = nn / np.linalg.norm(nn, axis=2, keepdims=True)
            fs = rng.normal(size=(n, 3)) * 50
            ins = {"freestream_velocities": fs}
            for s in surfs:
                ins[s["name"] + "_coll_pts_vel_mtx"] = velm[s["name"]]; ins[s["name"] + "_normals"] = normals[s["name"]]
            o, _, _ = core.run_comp(VLMMtxRHSComp(surfaces=surfs), ins, want_J=False)
            mtx, rhs = o["mtx"], o["rhs"]
            # global arrays through the model's flat lookup over surface blocks
            vblocks = "[" + "; ".join("(%s, by_panel %s (fun i j => (fun p d => a4 %s %s 3 %s p i j d)))" % (nat(nm), nat(b), nat(a), nat(b), arr(velm[s["name"]]))
                                        for s, (a, b), nm in zip(surfs, shapes, nums)) + "]"
            nblocks = "[" + "; ".join("(%s, by_panel %s (fun i j => (fun d => a3 %s 3 %s i j d)))" % (nat(nm), nat(b), nat(b), arr(normals[s["name"]]))
                                        for s, (a, b), nm in zip(surfs, shapes, nums)) + "]"
            pre = ("let n := %s in let velm := fun p q d => flat_lookup (fun _ _ => 0) %s q p d in "
                   "let nrm_ := fun p d => flat_lookup (fun _ => 0) %s p d in let fs := a2 3 %s in ") % (nat(n), vblocks, nblocks, arr(fs))
            es = ["re (t2 n n (aic_mtx velm nrm_)) %s" % arr(mtx), "re (t1 n (aic_rhs fs nrm_)) %s" % arr(rhs)]
            cid = cc.add(pre + "[" + "; ".join(es) + "]")
            meta.append((cid, SM, ["mtx", "rhs"], {"comp": "VLMMtxRHSComp", "surfaces": list(kinds), "shapes": shapes}))
            # SolveMatrix on a well-conditioned random system: backward error of the implementation's solution in the model's residual
            A = rng.normal(size=(n, n)) + 3 * np.eye(n); b = rng.normal(size=n) * 10
            o, _, _ = core.run_comp(SolveMatrix(surfaces=surfs), {"mtx": A, "rhs": b}, want_J=False)
            circ = o["circulations"]
            e = ("let A := a2 %s %s in let c := a1 %s in let b := a1 %s in "
                 "[maxabs (t1 %s (solve_residual %s A b c)) / (maxabs %s * maxabs %s + maxabs %s)]") % (nat(n), arr(A), arr(circ), arr(b), nat(n), nat(n), arr(A), arr(circ), arr(b))
            cid = cc.add(e); meta.append((cid, SS, ["backward_error"], {"comp": "SolveMatrix", "n": n}))
            # horseshoe circulations
            o, _, _ = core.run_comp(HorseshoeCirculations(surfaces=surfs), {"circulations": circ}, want_J=False)
            off = 0; hexprs = []
            for (a, b2), nm in zip(shapes, nums):
                hexprs.append("(%s, by_panel %s (horseshoe %s (fun i j => a1 %s (%s + i * %s + j)%%nat)))" % (nat(nm), nat(b2), nat(b2), arr(circ), nat(off), nat(b2)))
                off += nm
            e = "re (t1 %s (flat_lookup 0 [%s])) %s" % (nat(n), "; ".join(hexprs), arr(o["horseshoe_circulations"]))
            cid = cc.add("[" + e + "]"); meta.append((cid, SH, ["horseshoe"], {"comp": "HorseshoeCirculations", "surfaces": list(kinds), "shapes": shapes}))
            # eval velocities (force points: num_eval = n)
            ins = {"freestream_velocities": fs, "circulations": circ}
            for s in surfs:
                ins[s["name"] + "_force_pts_vel_mtx"] = velm[s["name"]]
            o, _, _ = core.run_comp(EvalVelocities(surfaces=surfs, eval_name="force_pts", num_eval_points=n), ins, want_J=False)
            vel = o["force_pts_velocities"]
            e = "re (t2 n 3 (eval_velocity n fs velm (a1 %s))) %s" % (arr(circ), arr(vel))
            cid = cc.add(pre + "[" + e + "]"); meta.append((cid, SE, ["velocities"], {"comp": "EvalVelocities", "surfaces": list(kinds)}))
            # panel forces + split per surface
            hs = rng.normal(size=n) * 5; bv = rng.normal(size=(n, 3)); rho = float(rng.uniform(0.2, 1.3))
            o, _, _ = core.run_comp(PanelForces(surfaces=surfs), {"rho": rho, "horseshoe_circulations": hs, "force_pts_velocities": vel, "bound_vecs": bv}, want_J=False)
            pf = o["panel_forces"]
            o2, _, _ = core.run_comp(PanelForcesSurf(surfaces=surfs), {"panel_forces": pf}, want_J=False)
            es = ["re (t2 %s 3 (panel_force %s (a1 %s) (a2 3 %s) (a2 3 %s))) %s" % (nat(n), fl(rho), arr(hs), arr(vel), arr(bv), arr(pf))]
            off = 0
            for s, (a, b2), nm in zip(surfs, shapes, nums):
                es.append("re (t3 %s %s 3 (fun i j d => a2 3 %s (%s + i * %s + j)%%nat d)) %s" % (nat(a), nat(b2), arr(pf), nat(off), nat(b2), arr(o2[s["name"] + "_sec_forces"])))
                off += nm
            cid = cc.add("[" + "; ".join(es) + "]"); meta.append((cid, SP, ["panel_forces"] + ["sec_forces_%d" % i for i in range(len(surfs))], {"comp": "PanelForces", "surfaces": list(kinds)}))
            R.count("aero_system/%s" % "+".join(kinds)); R.mark("sys", kinds, rep)
    res, errs = cc.run(shard=4)
    for cid, S, labels, desc in meta:
        judge(S, res.get(cid), labels, desc)
    SM["coq_errors"] = errs


def stream_chain(R, tier, seed):
    """the wiring of VLMStates up to the linear system, one surface: def_mesh, alpha, beta, v -> AIC matrix, right-hand side,
    and the residual of the implementation's circulations in the MODEL's system (Model/Aero.v Section Chain)"""
    from .. import aero as A
    S = R.stream("VLMStates.chain(mesh->AIC,rhs,residual)")
    cc = CoqCases("aero_chain", IMPORTS); meta = []
    rng = gen.stable_rng(seed, "aero_chain")
    sizes = [(2, 2), (2, 3), (3, 3)] if tier == "quick" else [(2, 2), (2, 3), (3, 3), (3, 4), (2, 5), (4, 3)]
    for kind in _kinds():
        for (nx, ny) in [s for s in sizes if kind != "full" or s[1] % 2 == 1]:
            mesh = gen.rand_mesh(rng, nx, ny, kind)
            alpha = float(rng.uniform(-8, 12)); beta = 0.0 if kind != "full" else float(rng.choice([0.0, rng.uniform(-10, 10)])); v = float(rng.uniform(20, 250))
            s = A.aero_surface(mesh, "wing", kind != "full")
            p = A.run(A.build_aero([s], geom=False, alpha=alpha, beta=beta, v=v))
            mtx = A.g(p, "aero.aero_states.mtx"); rhs = A.g(p, "aero.aero_states.rhs"); circ = A.g(p, "aero.aero_states.circulations")
            npx, npy = nx - 1, ny - 1; n = npx * npy
            left = kind != "right"
            args = "%s %s %s %s" % (nat(npx), nat(npy), boolc(kind != "full"), boolc(left))
            pre = "let m := a3 %s 3 %s in " % (nat(ny), arr(mesh))
            es = ["re (t2 %s %s (chain_aic %s %s m)) %s" % (nat(n), nat(n), args, fl(alpha), arr(mtx)),
                  "re (t1 %s (chain_rhs %s %s %s %s m)) %s" % (nat(n), nat(npy), fl(alpha), fl(beta), fl(v), arr(rhs)),
                  "maxabs (t1 %s (chain_residual %s %s %s %s m (a1 %s))) / (maxabs %s * maxabs %s + maxabs %s)" % (nat(n), args, fl(alpha), fl(beta), fl(v), arr(circ), arr(mtx), arr(circ), arr(rhs))]
            cid = cc.add(pre + "[" + "; ".join(es) + "]")
            meta.append((cid, ["AIC", "rhs", "residual of the code's circulations"], {"group": "AeroPoint/VLMStates", "kind": kind, "nx": nx, "ny": ny, "alpha": alpha, "beta": beta, "v": v}))
            R.count("aero_chain/%s" % kind); R.mark("chain", kind, nx, ny)
    res, errs = cc.run(shard=2)
    for cid, labels, desc in meta:
        judge(S, res.get(cid), labels, desc)
    S["coq_errors"] = errs
