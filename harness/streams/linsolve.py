"""C02 correspondence: the linear solves the two implicit components override (solve_linear, forward and reverse
mode), observed through Problem.compute_totals on a one-component problem, checked by backward error in the MODEL's
assembled system (Model/Aero.v solve_residual, Model/Beam.v fem_residual)."""
import warnings
import numpy as np
import openmdao.api as om
from .. import core, gen
from ..core import fl, arr, nat, boolc, CoqCases, judge
from .beam import real_kloc

IMPORTS = "Aero Beam BeamTables Stress"


def totals_mode(comp, inputs, of, wrt, mode):
    prob = om.Problem(reports=False)
    prob.model.add_subsystem("comp", comp, promotes=["*"])
    with warnings.catch_warnings():
        warnings.simplefilter("ignore")
        prob.setup(mode=mode)
        for k, v in inputs.items(): prob.set_val(k, v)
        prob.run_model()
        J = prob.compute_totals(of=[of], wrt=[wrt])[(of, wrt)]
    return np.array(J)


def stream_linear_solves(R, tier, seed):
    from openaerostruct.aerodynamics.solve_matrix import SolveMatrix
    from openaerostruct.structures.fem import FEM
    S1 = R.stream("SolveMatrix.solve_linear(fwd,rev)"); S2 = R.stream("FEM.solve_linear(fwd,rev)")
    cc = CoqCases("linsolve", IMPORTS); meta = []
    rng = gen.stable_rng(seed, "linsolve")
    for n in ((3, 6) if tier == "quick" else (3, 6, 10, 15)):
        s = {"name": "w", "mesh": np.zeros((2, n + 1, 3)), "symmetry": False}
        A = rng.normal(size=(n, n)) + 3 * np.eye(n); b = rng.normal(size=n) * 10
        es = []
        for mode in ("fwd", "rev"):
            J = totals_mode(SolveMatrix(surfaces=[s]), {"mtx": A, "rhs": b}, "circulations", "rhs", mode)
            # column k of J solves A x = e_k (the residual is A x - rhs)
            es.append("maxabs (t2 %s %s (fun p k => solve_residual %s (a2 %s %s) (fun q => if (q =? k)%%nat then 1 else 0) (fun q => a2 %s %s q k) p)) / (maxabs %s * maxabs %s)" % (
                nat(n), nat(n), nat(n), nat(n), arr(A), nat(n), arr(J), arr(A), arr(J)))
        meta.append((cc.add("[" + "; ".join(es) + "]"), S1, ["fwd backward error", "rev backward error"], {"comp": "SolveMatrix", "n": n}))
        R.mark("ls-sm", n)
    for kind in ("left", "right", "full"):
        for ny in ((2, 3) if tier == "quick" else (2, 3, 4, 5)):
            if kind == "full" and ny % 2 == 0: continue
            mesh = gen.rand_mesh(rng, 2, ny, kind)
            if kind == "full":
                mesh = mesh + np.array([0.0, float(rng.uniform(3, 9)), 0.0])     # off the centreline: the clamp is the middle node, not the one nearest y = 0
            nodes = 0.65 * mesh[0] + 0.35 * mesh[-1]
            sym = kind != "full"; ne = ny - 1; N = 6 * ny + 6
            surf = gen.tube_surface(mesh, symmetry=sym)
            kloc = real_kloc(rng, nodes, surf)
            forces = np.concatenate([rng.normal(size=6 * ny) * 1e3, np.zeros(6)])
            es = []
            for mode in ("fwd", "rev"):
                J = totals_mode(FEM(surface=surf), {"local_stiff_transformed": kloc, "forces": forces}, "disp_aug", "forces", mode)
                es.append(("let kloc := a3 12 12 %s in maxabs (t2 %s %s (fun p k => fem_residual %s (root_index %s %s) kloc (fun q => if (q =? k)%%nat then 1 else 0) (fun q => a2 %s %s q k) p)) / (maxabs %s * maxabs %s)") % (
                    arr(kloc), nat(N), nat(N), nat(ne), boolc(sym), nat(ne), nat(N), arr(J), arr(kloc), arr(J)))
            meta.append((cc.add("[" + "; ".join(es) + "]"), S2, ["fwd backward error", "rev backward error"], {"comp": "FEM", "kind": kind, "ny": ny}))
            R.mark("ls-fem", kind, ny)
    res, errs = cc.run(shard=2)
    for cid, S, labels, desc in meta:
        judge(S, res.get(cid), labels, desc, tol=1e-9)
    S1["coq_errors"] = errs
