"""Correspondence streams for Model/Stress.v."""
import numpy as np
from .. import core, gen
from ..core import fl, arr, nat, CoqCases, judge

IMPORTS = "Stress"


def _nodes(rng, ny, kind):
    mesh = gen.rand_mesh(rng, 2, ny, kind)
    w = 0.35
    return mesh, (1 - w) * mesh[0] + w * mesh[-1]


def stream_vonmises(R, tier, seed):
    from openaerostruct.structures.vonmises_tube import VonMisesTube
    from openaerostruct.structures.vonmises_wingbox import VonMisesWingbox
    S1 = R.stream("VonMisesTube"); S2 = R.stream("VonMisesWingbox")
    cc = CoqCases("vonmises", IMPORTS)
    meta = []
    rng = gen.stable_rng(seed, "vonmises")
    nys = (2, 3, 4, 5) if tier == "quick" else (2, 3, 4, 5, 6, 7, 9, 13)
    reps = 2 if tier == "quick" else 6
    for kind in ("left", "right", "full"):
        for ny in nys:
            if kind == "full" and ny % 2 == 0:
                continue
            for rep in range(reps):
                mesh, nodes = _nodes(rng, ny, kind)
                disp = rng.normal(size=(ny, 6)) * 10 ** rng.uniform(-4, 0)
                radius = rng.uniform(0.02, 0.4, ny - 1)
                surf = gen.tube_surface(mesh, symmetry=(kind != "full"))
                o, _, _ = core.run_comp(VonMisesTube(surface=surf), {"nodes": nodes, "radius": radius, "disp": disp}, want_J=False)
                pre = "let nodes := a2 3 %s in let disp := a2 6 %s in let radius := a1 %s in " % (arr(nodes), arr(disp), arr(radius))
                e = "re (t2 %s 2 (fun e s => vm_tube nodes disp e %s %s radius s)) %s" % (nat(ny - 1), fl(surf["E"]), fl(surf["G"]), arr(o["vonmises"]))
                cid = cc.add(pre + "[%s]" % e)
                meta.append((cid, S1, ["vonmises"], {"comp": "VonMisesTube", "kind": kind, "ny": ny, "rep": rep}))
                # wingbox
                wsurf = gen.wingbox_surface(mesh, symmetry=(kind != "full"), strength_factor_for_upper_skin=float(rng.choice([1.0, 1.3])))
                ins = {"nodes": nodes, "disp": disp}
                for k, lo, hi in (("Qz", 1e-4, 1e-2), ("J", 1e-4, 1e-2), ("A_enc", 0.05, 0.5), ("spar_thickness", 0.002, 0.02),
                                  ("htop", 0.05, 0.3), ("hbottom", 0.05, 0.3), ("hfront", 0.1, 0.6), ("hrear", 0.1, 0.6)):
                    ins[k] = rng.uniform(lo, hi, ny - 1)
                o, _, _ = core.run_comp(VonMisesWingbox(surface=wsurf), ins, want_J=False)
                pre = "let nodes := a2 3 %s in let disp := a2 6 %s in " % (arr(nodes), arr(disp))
                e = ("re (t2 %s 4 (fun e s => vm_wingbox nodes disp e %s %s %s (a1 %s) (a1 %s) (a1 %s) (a1 %s) (a1 %s) (a1 %s) (a1 %s) (a1 %s) s)) %s") % (
                    nat(ny - 1), fl(wsurf["E"]), fl(wsurf["G"]), fl(wsurf["strength_factor_for_upper_skin"]),
                    arr(ins["Qz"]), arr(ins["J"]), arr(ins["A_enc"]), arr(ins["spar_thickness"]), arr(ins["htop"]), arr(ins["hbottom"]),
                    arr(ins["hfront"]), arr(ins["hrear"]), arr(o["vonmises"]))
                cid = cc.add(pre + "[%s]" % e)
                meta.append((cid, S2, ["vonmises"], {"comp": "VonMisesWingbox", "kind": kind, "ny": ny, "rep": rep}))
                R.count("vonmises/%s" % kind); R.mark("vm", kind, ny, rep)
                R.sample({"component": "VonMisesTube/Wingbox", "kind": kind, "ny": ny, "nodes[0]": nodes[0].tolist(), "disp[0]": disp[0].tolist()})
    res, errs = cc.run()
    for cid, S, labels, desc in meta:
        judge(S, res.get(cid), labels, desc)
    S1["coq_errors"] = errs


def stream_failure(R, tier, seed):
    from openaerostruct.structures.failure_ks import FailureKS
    from openaerostruct.structures.failure_exact import FailureExact
    from openaerostruct.structures.non_intersecting_thickness import NonIntersectingThickness
    from openaerostruct.structures.section_properties_tube import SectionPropertiesTube
    S1 = R.stream("FailureKS"); S2 = R.stream("FailureExact"); S3 = R.stream("NonIntersectingThickness"); S4 = R.stream("SectionPropertiesTube")
    cc = CoqCases("failure", IMPORTS)
    meta = []
    rng = gen.stable_rng(seed, "failure")
    nys = (2, 3, 4, 5) if tier == "quick" else (2, 3, 4, 5, 7, 9, 13)
    reps = 3 if tier == "quick" else 10
    for ny in nys:
        for model, ncrit in (("tube", 2), ("wingbox", 4)):
            for rep in range(reps):
                mesh = gen.rand_mesh(rng, 2, ny, "left")
                surf = gen.tube_surface(mesh) if model == "tube" else gen.wingbox_surface(mesh)
                sigma = surf["yield"]
                mag = 10 ** rng.uniform(0, 12)
                vm = rng.uniform(0, 1, (ny - 1, ncrit)) * mag
                if rep == 0:
                    vm[:] = 0.0
                if rep == 1:
                    vm[:] = vm.flat[0]      # all equal: ties in the arg-max
                rho = float(rng.choice([100.0, 50.0, 10.0, 500.0]))
                o, J, _ = core.run_comp(FailureKS(surface=surf, rho=rho), {"vonmises": vm})
                N = (ny - 1) * ncrit
                pre = "let vm := a1 %s in " % arr(vm)
                e = "re [failure_ks %s %s %s vm] %s" % (nat(N - 1), fl(rho), fl(sigma), arr(o["failure"]))
                eJ = "re (t1 %s (ks_J %s %s %s vm)) %s" % (nat(N), nat(N - 1), fl(rho), fl(sigma), arr(J[("failure", "vonmises")]))
                cid = cc.add(pre + "[%s; %s]" % (e, eJ))
                meta.append((cid, S1, ["failure", "J"], {"comp": "FailureKS", "ny": ny, "model": model, "rho": rho, "magnitude": mag, "rep": rep}))
                o, J, _ = core.run_comp(FailureExact(surface=surf), {"vonmises": vm})
                e = "re (t1 %s (failure_exact %s vm)) %s" % (nat(N), fl(sigma), arr(o["failure"]))
                eJ = "re (t2 %s %s (fun i k => if (i =? k)%%nat then 1 / %s else 0)) %s" % (nat(N), nat(N), fl(sigma), arr(J[("failure", "vonmises")]))
                cid = cc.add(pre + "[%s; %s]" % (e, eJ))
                meta.append((cid, S2, ["failure", "J"], {"comp": "FailureExact", "ny": ny, "model": model, "rep": rep}))
                R.count("failure/%s" % model); R.mark("ks", ny, model, rep)
                if rep == 2:
                    R.sample({"component": "FailureKS", "ny": ny, "model": model, "rho": rho, "vonmises": vm.ravel().tolist()[:6]})
        mesh = gen.rand_mesh(rng, 2, ny, "left")
        surf = gen.tube_surface(mesh)
        th = rng.uniform(0.001, 0.1, ny - 1); rad = rng.uniform(0.05, 0.5, ny - 1)
        o, J, _ = core.run_comp(NonIntersectingThickness(surface=surf), {"thickness": th, "radius": rad})
        pre = "let th := a1 %s in let rad := a1 %s in " % (arr(th), arr(rad))
        n = ny - 1
        e = "re (t1 %s (thickness_intersects th rad)) %s" % (nat(n), arr(o["thickness_intersects"]))
        eJ1 = "re (t2 %s %s (fun i k => if (i =? k)%%nat then 1 else 0)) %s" % (nat(n), nat(n), arr(J[("thickness_intersects", "thickness")]))
        eJ2 = "re (t2 %s %s (fun i k => if (i =? k)%%nat then -1 else 0)) %s" % (nat(n), nat(n), arr(J[("thickness_intersects", "radius")]))
        cid = cc.add(pre + "[%s; %s; %s]" % (e, eJ1, eJ2))
        meta.append((cid, S3, ["out", "J_thickness", "J_radius"], {"comp": "NonIntersectingThickness", "ny": ny}))
        o, J, _ = core.run_comp(SectionPropertiesTube(surface=surf), {"thickness": th, "radius": rad})
        es = []
        labels = []
        for out, fn, dr, dt in (("A", "tube_A", "tube_dA_dr", "tube_dA_dt"), ("Iy", "tube_Iy", "tube_dIy_dr", "tube_dIy_dt"),
                                ("Iz", "tube_Iy", "tube_dIy_dr", "tube_dIy_dt"), ("J", "tube_J", "tube_dJ_dr", "tube_dJ_dt")):
            es.append("re (t1 %s (fun i => %s (rad i) (th i))) %s" % (nat(n), fn, arr(o[out])))
            es.append("re (t2 %s %s (fun i k => if (i =? k)%%nat then %s (rad i) (th i) else 0)) %s" % (nat(n), nat(n), dr, arr(J[(out, "radius")])))
            es.append("re (t2 %s %s (fun i k => if (i =? k)%%nat then %s (rad i) (th i) else 0)) %s" % (nat(n), nat(n), dt, arr(J[(out, "thickness")])))
            labels += [out, "J_%s_radius" % out, "J_%s_thickness" % out]
        cid = cc.add(pre + "[%s]" % "; ".join(es))
        meta.append((cid, S4, labels, {"comp": "SectionPropertiesTube", "ny": ny}))
    res, errs = cc.run()
    for cid, S, labels, desc in meta:
        judge(S, res.get(cid), labels, desc)
    S1["coq_errors"] = errs
