"""C01 correspondence for Model/Geom.v and Model/Misc.v (geometry part)."""
import numpy as np
from .. import core, gen
from ..core import fl, arr, nat, boolc, CoqCases, judge
from ..dualj import DJ
from .jac_stress import JTOL

IMPORTS = "Geom Misc"
KEY_F01 = "C01:Taper.compute_partials:zero-at-taper-equal-one"


def stream_transformations_jac(R, tier, seed):
    import openaerostruct.geometry.geometry_mesh_transformations as T
    from openaerostruct.geometry.radius_comp import RadiusComp
    from openaerostruct.geometry.monotonic_constraint import MonotonicConstraint
    names = ["Taper", "ScaleX", "Sweep", "ShearX", "Stretch", "ShearY", "Dihedral", "ShearZ", "Rotate", "RadiusComp", "MonotonicConstraint"]
    S = {n: R.stream(n + ".jacobian") for n in names}
    cc = CoqCases("jgeom", IMPORTS); meta = []
    rng = gen.stable_rng(seed, "jgeom")
    sizes = [(2, 2), (2, 3), (3, 3)] if tier == "quick" else [(2, 2), (2, 3), (3, 3), (3, 4), (2, 5)]
    for kind in ("left", "right", "full"):
        for (nx, ny) in sizes:
            if kind == "full" and ny % 2 == 0: continue
            m = gen.rand_mesh(rng, nx, ny, kind, plain=False)
            sym = kind != "full"; npx, npy = nx - 1, ny - 1
            rap = float(rng.choice([0.25, 0.0, 1.0, rng.uniform(0, 1)]))
            dist = rng.uniform(0.6, 1.4, ny); sh = rng.normal(size=ny) * 0.3; tw = rng.uniform(-8, 8, ny)
            desc = {"kind": kind, "nx": nx, "ny": ny, "ref_axis_pos": rap, "mesh": m.tolist()}
            base = lambda: DJ().lit("nx", nat(nx)).lit("ny", nat(ny)).lit("npx", nat(npx)).lit("npy", nat(npy)).lit("sym", boolc(sym)).par("rap", rap)
            for tval in (float(rng.uniform(0.2, 1.5)), 1.0):
                o, J, _ = core.run_comp(T.Taper(val=1.0, mesh=m, symmetry=sym, ref_axis_pos=rap), {"taper": tval})
                D = base().par("m", m).scal("t", tval, "taper")
                je, jl = D.jac_errs("T3 {nx} {ny} 3 (taper_mesh {npx} {npy} {sym} {rap} {t} {m})", J, ["mesh"])
                meta.append((cc.add(je), S["Taper"], jl, dict(desc, comp="Taper", taper=tval, reported_norm=float(np.abs(J[("mesh", "taper")]).max()))))
            o, J, _ = core.run_comp(T.ScaleX(val=np.ones(ny), mesh_shape=m.shape, ref_axis_pos=rap), {"in_mesh": m, "chord": dist})
            D = base().inp("m", m, "in_mesh").inp("c", dist, "chord")
            je, jl = D.jac_errs("T3 {nx} {ny} 3 (scalex_mesh {npx} {rap} {c} {m})", J, ["mesh"])
            meta.append((cc.add(je), S["ScaleX"], jl, dict(desc, comp="ScaleX")))
            for cls, fn, ang in ((T.Sweep, "sweep_mesh", float(rng.uniform(-20, 35))), (T.Dihedral, "dihedral_mesh", float(rng.uniform(-10, 15))), (T.Sweep, "sweep_mesh", 0.0)):
                key = "sweep" if cls is T.Sweep else "dihedral"
                o, J, _ = core.run_comp(cls(val=0.0, mesh_shape=m.shape, symmetry=sym), {"in_mesh": m, key: ang})
                D = base().inp("m", m, "in_mesh").scal("a", ang, key)
                je, jl = D.jac_errs("T3 {nx} {ny} 3 (%s {npy} {sym} {a} {m})" % fn, J, ["mesh"])
                meta.append((cc.add(je), S[cls.__name__], jl, dict(desc, comp=cls.__name__, angle=ang)))
            for cls, axis, key in ((T.ShearX, 0, "xshear"), (T.ShearY, 1, "yshear"), (T.ShearZ, 2, "zshear")):
                o, J, _ = core.run_comp(cls(val=np.zeros(ny), mesh_shape=m.shape), {"in_mesh": m, key: sh})
                D = base().inp("m", m, "in_mesh").inp("s", sh, key)
                je, jl = D.jac_errs("T3 {nx} {ny} 3 (shear_mesh %d%%nat {s} {m})" % axis, J, ["mesh"])
                meta.append((cc.add(je), S[cls.__name__], jl, dict(desc, comp=cls.__name__)))
            span = float(rng.uniform(3, 20))
            o, J, _ = core.run_comp(T.Stretch(val=1.0, mesh_shape=m.shape, symmetry=sym, ref_axis_pos=rap), {"in_mesh": m, "span": span})
            D = base().inp("m", m, "in_mesh").scal("sp", span, "span")
            je, jl = D.jac_errs("T3 {nx} {ny} 3 (stretch_mesh {npx} {npy} {sym} {rap} {sp} {m})", J, ["mesh"])
            meta.append((cc.add(je), S["Stretch"], jl, dict(desc, comp="Stretch", span=span)))
            for twv, rx in ((tw, True), (np.zeros(ny), True), (tw, False)):
                o, J, _ = core.run_comp(T.Rotate(val=np.zeros(ny), mesh_shape=m.shape, symmetry=sym, ref_axis_pos=rap, rotate_x=rx), {"in_mesh": m, "twist": twv})
                D = base().lit("rx", boolc(rx)).inp("m", m, "in_mesh").inp("tw", twv, "twist")
                je, jl = D.jac_errs("T3 {nx} {ny} 3 (rotate_mesh {npx} {npy} {sym} {rx} {rap} {tw} {m})", J, ["mesh"])
                meta.append((cc.add(je), S["Rotate"], jl, dict(desc, comp="Rotate", rotate_x=rx, twist=twv.tolist())))
            surf = {"name": "w", "mesh": m, "symmetry": sym}
            toc = rng.uniform(0.05, 0.2, npy)
            o, J, _ = core.run_comp(RadiusComp(surface=surf), {"mesh": m, "t_over_c": toc})
            D = base().inp("m", m, "mesh").inp("toc", toc, "t_over_c")
            je, jl = D.jac_errs("T1 {npy} (radius_comp {npx} {m} {toc})", J, ["radius"])
            meta.append((cc.add(je), S["RadiusComp"], jl, dict(desc, comp="RadiusComp")))
            x = rng.normal(size=ny)
            o, J, _ = core.run_comp(MonotonicConstraint(var_name="chord", surface=surf), {"chord": x})
            D = base().inp("x", x, "chord")
            je, jl = D.jac_errs("T1 {npy} (monotonic {npy} {sym} {x})", J, ["monotonic_chord"])
            meta.append((cc.add("re (%s) %s :: %s" % (D.vals("T1 {npy} (monotonic {npy} {sym} {x})"), arr(o["monotonic_chord"]), je)), S["MonotonicConstraint"], ["value"] + jl, dict(desc, comp="MonotonicConstraint", x=x.tolist())))
            R.count("jgeom/%s" % kind); R.mark("jgeom", kind, nx, ny)
    res, errs = cc.run(shard=6)
    hit = 0
    for cid, St, labels, desc in meta:
        r = res.get(cid)
        if desc["comp"] == "Taper" and desc["taper"] == 1.0 and r is not None and len(r) == len(labels):
            bad = [l for l, e in zip(labels, r) if not (e <= JTOL)]
            if bad == ["J:d/dtaper"] and desc["reported_norm"] == 0.0:
                # exactly the recorded defect: at taper == 1.0 the component reports a zero derivative
                hit += 1; St["cases"] += 1
                St.setdefault("known_mismatch", []).append({"kind": desc["kind"], "nx": desc["nx"], "ny": desc["ny"], "reported": 0.0, "relerr": r[labels.index("J:d/dtaper")]})
                continue
        judge(St, r, labels, desc, tol=JTOL)
    if hit:
        R.known_hits.append(KEY_F01)
    S["Taper"]["coq_errors"] = errs


def stream_multisection_jac(R, tier, seed):
    """GeomMultiUnification and GeomMultiJoin: values and (constant) Jacobians vs Model/MultiSec.v"""
    from openaerostruct.geometry.geometry_unification import GeomMultiUnification
    from openaerostruct.geometry.geometry_multi_join import GeomMultiJoin
    S1 = R.stream("GeomMultiUnification.jacobian"); S2 = R.stream("GeomMultiJoin.jacobian")
    cc = CoqCases("jmultisec", "MultiSec"); meta = []
    rng = gen.stable_rng(seed, "jmultisec")
    for nsec in (2, 3, 4):
        for shift in (True, False):
            nx = int(rng.integers(2, 4))
            nys = [int(rng.integers(2, 4)) for _ in range(nsec)]
            meshes = [rng.normal(size=(nx, ny, 3)) for ny in nys]
            sections = [{"name": "s%d" % i, "mesh": meshes[i], "symmetry": True} for i in range(nsec)]
            ins = {"s%d_def_mesh" % i: meshes[i] for i in range(nsec)}
            o, J, _ = core.run_comp(GeomMultiUnification(sections=sections, surface_name="w", shift_uni_mesh=shift), ins)
            D = DJ().lit("nx", nat(nx)).lit("shift", boolc(shift))
            for i in range(nsec): D.inp("m%d" % i, meshes[i], "s%d_def_mesh" % i)
            uny = o["w_uni_mesh"].shape[1]
            secs = "[" + "; ".join("(%s, {m%d})" % (nat(nys[i]), i) for i in range(nsec)) + "]"
            out = "T3 {nx} %s 3 (fst (unify {shift} %s))" % (nat(uny), secs)
            je, jl = D.jac_errs(out, J, ["w_uni_mesh"])
            cid = cc.add("(re (%s) %s :: %s)" % (D.vals(out), arr(o["w_uni_mesh"]), je))
            meta.append((cid, S1, ["uni_mesh"] + jl, {"comp": "GeomMultiUnification", "sections": nsec, "nx": nx, "ny": nys, "shift_uni_mesh": shift}))
            # joining constraint along x (default) and along all axes
            # the same axes on every shared edge, and DIFFERENT axes from edge to edge (each edge has its own mask: a seeded change
            # that masked a middle section's left edge with the mask of its right edge was missed while all masks were equal)
            choices = [[[0]] * (nsec - 1), [[0, 1, 2]] * (nsec - 1)]
            if nsec >= 3:
                choices += [[[0], [1]] + [[2]] * (nsec - 3), [[0, 2], [1, 2]] + [[0, 1]] * (nsec - 3)]
            for per_edge in choices:
                dims = per_edge
                dim_constr = [np.array([1 if d in per_edge[e] else 0 for d in range(3)]) for e in range(nsec - 1)]
                ins2 = {"s%d_join_mesh" % i: meshes[i] for i in range(nsec)}
                o2, J2, _ = core.run_comp(GeomMultiJoin(sections=sections, dim_constr=dim_constr), ins2)
                D2 = DJ().lit("npx", nat(nx - 1))
                for i in range(nsec): D2.inp("m%d" % i, meshes[i], "s%d_join_mesh" % i)
                terms = []
                for e in range(nsec - 1):
                    for r in (0, 1):
                        for d in per_edge[e]:
                            terms.append("join_sep {npx} %s {m%d} {m%d} %d%%nat %d%%nat" % (nat(nys[e]), e, e + 1, r, d))
                out2 = "[" + "; ".join(terms) + "]"
                je2, jl2 = D2.jac_errs(out2, J2, ["section_separation"])
                cid = cc.add("(re (%s) %s :: %s)" % (D2.vals(out2), arr(o2["section_separation"]), je2))
                meta.append((cid, S2, ["section_separation"] + jl2, {"comp": "GeomMultiJoin", "sections": nsec, "dims": dims}))
            R.mark("jms", nsec, shift)
    res, errs = cc.run(shard=4)
    for cid, St, labels, desc in meta:
        judge(St, res.get(cid), labels, desc, tol=JTOL)
    S1["coq_errors"] = errs
