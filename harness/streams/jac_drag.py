"""C01 correspondence: the Jacobian the code reports vs the dual-number evaluation of Model/Drag.v."""
import numpy as np
from .. import core, gen
from ..core import fl, arr, nat, boolc, CoqCases, judge
from ..dualj import DJ
from .drag import _strip, K_LAMS

IMPORTS = "Drag"
JTOL = 1e-8


def stream_viscous_jac(R, tier, seed):
    from openaerostruct.aerodynamics.viscous_drag import ViscousDrag
    S = R.stream("ViscousDrag.jacobian")
    cc = CoqCases("jviscous", IMPORTS); meta = []
    rng = gen.stable_rng(seed, "jviscous")
    nys = (2, 3, 5) if tier == "quick" else (2, 3, 4, 5, 7, 9)
    for ny in nys:
        for sym in (True, False):
            for k_lam in K_LAMS + [1.3]:
                lengths, widths, lsp, toc = _strip(rng, ny)
                re = float(10 ** rng.uniform(5.5, 7.5)); M = float(rng.uniform(0.1, 0.93)); Sref = float(rng.uniform(5, 200))
                surf = gen.tube_surface(np.zeros((2, ny, 3)), symmetry=sym, k_lam=k_lam, with_viscous=True, c_max_t=float(rng.choice([0.303, 0.38])))
                ins = {"re": re, "Mach_number": M, "S_ref": Sref, "widths": widths, "lengths_spanwise": lsp, "lengths": lengths, "t_over_c": toc}
                o, J, _ = core.run_comp(ViscousDrag(surface=surf, with_viscous=True), ins)
                D = DJ().lit("np", nat(ny - 1)).lit("sym", boolc(sym)).par("k", k_lam).par("cmax", surf["c_max_t"])
                D.scal("re", re).scal("M", M, "Mach_number").scal("S", Sref, "S_ref").inp("w", widths, "widths").inp("lsp", lsp, "lengths_spanwise").inp("len", lengths, "lengths").inp("toc", toc, "t_over_c")
                out = "[viscous_CDv {np} {sym} {k} {cmax} {re} {M} {S} {w} {lsp} {len} {toc} true]"
                je, jl = D.jac_errs(out, J, ["CDv"])
                cid = cc.add("(re (%s) %s :: %s)" % (D.vals(out), arr(o["CDv"]), je))
                meta.append((cid, ["CDv"] + jl, {"comp": "ViscousDrag", "ny": ny, "sym": sym, "k_lam": k_lam, "re": re, "M": M, "inputs": {k: np.asarray(v).tolist() for k, v in ins.items()}}))
                R.count("jviscous/k_lam=%g" % k_lam); R.mark("jvisc", ny, sym, k_lam)
    res, errs = cc.run()
    lam_bad = 0
    for cid, labels, desc in meta:
        r = res.get(cid)
        if r is not None and len(r) == len(labels) and desc["k_lam"] >= 1.0:
            bad = [l for l, e in zip(labels, r) if not (e <= JTOL)]
            if bad == ["J:d/dre"]:
                # exactly the recorded defect: every other column and the value agree, only dCDv/dre differs
                lam_bad += 1; S["cases"] += 1
                S.setdefault("known_mismatch", []).append({"k_lam": desc["k_lam"], "ny": desc["ny"], "d/dre relerr": r[labels.index("J:d/dre")]})
                continue
        judge(S, r, labels, desc, tol=JTOL)
    if lam_bad:
        R.known_hits.append("C01:ViscousDrag.compute_partials:dCDv/dre-zero-when-fully-laminar")
        S["ok"] += 0
    S["coq_errors"] = errs


def stream_wave_jac(R, tier, seed):
    from openaerostruct.aerodynamics.wave_drag import WaveDrag
    from openaerostruct.aerodynamics.total_drag import TotalDrag
    S = R.stream("WaveDrag.jacobian"); S2 = R.stream("TotalDrag.jacobian")
    cc = CoqCases("jwave", IMPORTS); meta = []
    rng = gen.stable_rng(seed, "jwave")
    nys = (2, 3, 5) if tier == "quick" else (2, 3, 4, 5, 7, 9)
    for ny in nys:
        for sym in (True, False):
            for rep in range(4 if tier == "quick" else 8):
                chords, widths, lsp, toc = _strip(rng, ny)
                toc = toc * 0.5
                CL = float(rng.uniform(0.0, 1.0))
                pa = 0.5 * (chords[:-1] + chords[1:]) * widths
                ac = float(((widths / lsp) * pa).sum() / pa.sum()); at = float((toc * pa).sum() / pa.sum())
                mcrit = 0.95 / ac - at / ac ** 2 - CL / (10 * ac ** 3) - (0.1 / 80.0) ** (1.0 / 3.0)
                M = float(mcrit + rng.uniform(0.01, 0.2)) if rep % 4 != 3 else float(mcrit - rng.uniform(0.01, 0.3))
                M = min(max(M, 0.05), 0.99)
                surf = gen.tube_surface(np.zeros((2, ny, 3)), symmetry=sym, with_wave=True)
                ins = {"Mach_number": M, "widths": widths, "lengths_spanwise": lsp, "CL": CL, "chords": chords, "t_over_c": toc}
                o, J, _ = core.run_comp(WaveDrag(surface=surf), ins)
                D = DJ().lit("np", nat(ny - 1)).lit("sym", boolc(sym))
                D.scal("M", M, "Mach_number").scal("CL", CL).inp("w", widths, "widths").inp("lsp", lsp, "lengths_spanwise").inp("ch", chords, "chords").inp("toc", toc, "t_over_c")
                # the member of the family the code is (symmetric doubling) is decided by the value stream; use the same here
                outs = ["[wave_CDw {np} {sym} {M} {CL} {w} {lsp} {ch} {toc} %s true]" % sd for sd in ("true", "false")]
                es = []
                for out in outs:
                    je, jl = D.jac_errs(out, J, ["CDw"])
                    es += ["[re (%s) %s; maxabs (%s)]" % (D.vals(out), arr(o["CDw"]), je)]
                cid = cc.add(" ++ ".join(es))
                meta.append((cid, {"comp": "WaveDrag", "ny": ny, "sym": sym, "M": M, "Mcrit": mcrit, "CL": CL, "inputs": {k: np.asarray(v).tolist() for k, v in ins.items()}}))
                R.count("jwave/%s" % ("above-onset" if M > mcrit else "below-onset")); R.mark("jwave", ny, sym, rep)
        CDi, CDv, CDw = rng.uniform(0, 0.05, 3); CD0 = float(rng.choice([0.0, 0.015]))
        surf = gen.tube_surface(np.zeros((2, ny, 3)), CD0=CD0)
        o, J, _ = core.run_comp(TotalDrag(surface=surf), {"CDi": CDi, "CDv": CDv, "CDw": CDw})
        D = DJ().scal("a", CDi, "CDi").scal("b", CDv, "CDv").scal("c", CDw, "CDw").par("d", CD0)
        je, jl = D.jac_errs("[total_drag {a} {b} {c} {d}]", J, ["CD"])
        cid = cc.add("[maxabs (%s)]" % je)
        meta.append((cid, {"comp": "TotalDrag"}))
    res, errs = cc.run()
    for cid, desc in meta:
        r = res.get(cid)
        if desc["comp"] == "TotalDrag":
            judge(S2, r, ["J"], desc, tol={"J": JTOL}); continue
        S["cases"] += 1
        if r is None or len(r) != 4:
            S["failures"].append({"case": desc, "bad": [("model-evaluation-failed", "inf")]}); continue
        # value matches member a (doubling) or b (repaired); the Jacobian must match the same member
        ok = (r[0] <= 1e-9 and r[1] <= JTOL) or (r[2] <= 1e-9 and r[3] <= JTOL) or (desc["M"] < desc["Mcrit"] and max(r[1], r[3]) <= JTOL)
        if ok: S["ok"] += 1; S["worst"] = max(S["worst"], min(r[1], r[3]))
        else: S["failures"].append({"case": desc, "bad": [("J matches no member", r)]})
    S["coq_errors"] = errs
