"""Correspondence streams for the transfer components (Model/Transfer.v)."""
import numpy as np
from .. import core, gen
from ..core import fl, arr, nat, CoqCases, judge

IMPORTS = "Transfer Constants"


def _kinds(tier):
    return ["left", "right", "full"]


def stream_load_transfer(R, tier, seed):
    from openaerostruct.transfer.load_transfer import LoadTransfer
    S = R.stream("LoadTransfer")
    cc = CoqCases("load_transfer", IMPORTS)
    meta = []
    rng = gen.stable_rng(seed, "load_transfer")
    reps = 1 if tier == "quick" else 3
    for kind in _kinds(tier):
        for (nx, ny) in gen.sizes(tier, full=(kind == "full")):
            for rep in range(reps):
                mesh = gen.rand_mesh(rng, nx, ny, kind)
                w2 = float(rng.choice([0.35, 0.0, 1.0, rng.uniform(0, 1)]))
                surf = gen.tube_surface(mesh, symmetry=(kind != "full"), fem_origin=w2)
                F = rng.normal(size=(nx - 1, ny - 1, 3)) * 10 ** rng.uniform(0, 5)
                if rep == 0 and nx == 2 and ny == 2:
                    F[:] = 0.0
                outs, J, _ = core.run_comp(LoadTransfer(surface=surf), {"def_mesh": mesh, "sec_forces": F})
                npx, npy = nx - 1, ny - 1
                pre = "let mesh := a3 %s 3 %s in let F := a3 %s 3 %s in let w1 := @gen_lt_w1 float Fops in let w2 := %s in " % (
                    nat(ny), arr(mesh), nat(npy), arr(F), fl(w2))
                e_out = "re (t2 %s 6 (lt_loads %s %s w1 w2 mesh F)) %s" % (nat(ny), nat(npx), nat(npy), arr(outs["loads"]))
                e_JF = "re (t5 %s 6 %s %s 3 (fun j c i' j' d' => lt_loads %s %s w1 w2 mesh (delta3 i' j' d') j c)) %s" % (
                    nat(ny), nat(npx), nat(npy), nat(npx), nat(npy), arr(J[("loads", "sec_forces")]))
                e_Jm = "re (t5 %s 6 %s %s 3 (fun j c i' j' d' => if (c <? 3)%%nat then 0 else lt_moment %s %s w1 w2 (delta3 i' j' d') F j (c - 3))) %s" % (
                    nat(ny), nat(nx), nat(ny), nat(npx), nat(npy), arr(J[("loads", "def_mesh")]))
                cid = cc.add(pre + "[%s; %s; %s]" % (e_out, e_JF, e_Jm))
                desc = {"comp": "LoadTransfer", "kind": kind, "nx": nx, "ny": ny, "fem_origin": w2}
                meta.append((cid, desc))
                if rep == 0 and (nx, ny) in ((2, 3), (3, 3)):
                    # wing box: the spar location comes from the section data, whether or not the dictionary also has a fem_origin entry
                    for extra in ({}, {"fem_origin": 0.25}):
                        wb = gen.wingbox_surface(mesh, symmetry=(kind != "full"), **extra)
                        o2, _, _ = core.run_comp(LoadTransfer(surface=wb), {"def_mesh": mesh, "sec_forces": F}, want_J=False)
                        xu, yu, yl = np.real(wb["data_x_upper"]), np.real(wb["data_y_upper"]), np.real(wb["data_y_lower"])
                        pre2 = "let mesh := a3 %s 3 %s in let F := a3 %s 3 %s in let w1 := @gen_lt_w1 float Fops in let w2 := wingbox_fem_origin %s %s %s %s %s %s in " % (
                            nat(ny), arr(mesh), nat(npy), arr(F), fl(xu[0]), fl(yu[0]), fl(yl[0]), fl(xu[-1]), fl(yu[-1]), fl(yl[-1]))
                        cid = cc.add(pre2 + "[re (t2 %s 6 (lt_loads %s %s w1 w2 mesh F)) %s; 0; 0]" % (nat(ny), nat(npx), nat(npy), arr(o2["loads"])))
                        meta.append((cid, {"comp": "LoadTransfer(wingbox)", "kind": kind, "nx": nx, "ny": ny, "fem_origin_entry": extra.get("fem_origin")}))
                R.count("LoadTransfer/%s" % kind)
                R.mark("LT", kind, nx, ny, rep)
                R.sample({"component": "LoadTransfer", **desc, "def_mesh[0,0]": mesh[0, 0].tolist(), "sec_forces[0,0]": F[0, 0].tolist()})
    res, errs = cc.run()
    for cid, desc in meta:
        judge(S, res.get(cid), ["loads", "J_sec_forces", "J_def_mesh"], desc)
    S["coq_errors"] = errs


def stream_disp_transfer(R, tier, seed):
    from openaerostruct.transfer.displacement_transfer import DisplacementTransfer
    from openaerostruct.transfer.compute_transformation_matrix import ComputeTransformationMatrix
    from openaerostruct.structures.compute_nodes import ComputeNodes
    S1 = R.stream("ComputeTransformationMatrix")
    S2 = R.stream("DisplacementTransfer")
    S3 = R.stream("ComputeNodes")
    cc = CoqCases("disp_transfer", IMPORTS)
    meta = []
    rng = gen.stable_rng(seed, "disp_transfer")
    for kind in _kinds(tier):
        for (nx, ny) in gen.sizes(tier, full=(kind == "full")):
            mesh = gen.rand_mesh(rng, nx, ny, kind)
            w = float(rng.choice([0.35, 0.0, 1.0, rng.uniform(0, 1)]))
            surf = gen.tube_surface(mesh, symmetry=(kind != "full"), fem_origin=w)
            disp = rng.normal(size=(ny, 6)) * np.array([0.3, 0.3, 0.3, 0.2, 0.2, 0.2])
            special = rng.integers(0, 4)
            if special == 0:
                disp[:] = 0.0
            elif special == 1:
                disp[:, 3:] = 0.0
            desc = {"kind": kind, "nx": nx, "ny": ny, "fem_origin": w, "disp": ["zero", "translation", "general", "general"][special]}
            # --- transformation matrix
            o1, J1, _ = core.run_comp(ComputeTransformationMatrix(surface=surf), {"disp": disp})
            pre = "let disp := a2 6 %s in " % arr(disp)
            e1 = "re (t3 %s 3 3 (transf_mtx disp)) %s" % (nat(ny), arr(o1["transformation_matrix"]))
            e1J = ("re (t5 %s 3 3 %s 6 (fun j a b j' c => if ((j =? j') && (3 <=? c))%%nat%%bool then "
                   "transf_d (disp j 3%%nat) (disp j 4%%nat) (disp j 5%%nat) a b (c - 3) else 0)) %s") % (
                nat(ny), nat(ny), arr(J1[("transformation_matrix", "disp")]))
            cid = cc.add(pre + "[%s; %s]" % (e1, e1J))
            meta.append((cid, S1, ["T", "J_disp"], dict(desc, comp="ComputeTransformationMatrix")))
            # --- nodes
            o3, J3, _ = core.run_comp(ComputeNodes(surface=surf), {"mesh": mesh})
            pre = "let mesh := a3 %s 3 %s in let w := %s in " % (nat(ny), arr(mesh), fl(w))
            e3 = "re (t2 %s 3 (nodes %s w mesh)) %s" % (nat(ny), nat(nx - 1), arr(o3["nodes"]))
            e3J = "re (t5 %s 3 %s %s 3 (nodes_J %s w)) %s" % (nat(ny), nat(nx), nat(ny), nat(nx - 1), arr(J3[("nodes", "mesh")]))
            cid = cc.add(pre + "[%s; %s]" % (e3, e3J))
            meta.append((cid, S3, ["nodes", "J_mesh"], dict(desc, comp="ComputeNodes")))
            # wing box: the nodes sit at the shear-centre chord fraction computed from the corner points of the section data,
            # with the x stations of the UPPER surface (as LoadTransfer and WingboxGeometry do); second variant: airfoil data
            # whose lower-surface stations differ from the upper ones (coordinates cropped from an airfoil file)
            for cropped in (False, True):
                extra = {}
                if cropped:
                    xl_ = np.real(gen.WB_LOWER_X) * 1.04 + 0.036
                    extra = {"data_x_lower": xl_.astype(complex)}
                wb = gen.wingbox_surface(mesh, symmetry=(kind != "full"), **extra)
                o4, J4, _ = core.run_comp(ComputeNodes(surface=wb), {"mesh": mesh})
                xu, yu, yl = np.real(wb["data_x_upper"]), np.real(wb["data_y_upper"]), np.real(wb["data_y_lower"])
                pre = "let mesh := a3 %s 3 %s in let w := wingbox_fem_origin %s %s %s %s %s %s in " % (
                    nat(ny), arr(mesh), fl(xu[0]), fl(yu[0]), fl(yl[0]), fl(xu[-1]), fl(yu[-1]), fl(yl[-1]))
                e4 = "re (t2 %s 3 (nodes %s w mesh)) %s" % (nat(ny), nat(nx - 1), arr(o4["nodes"]))
                e4J = "re (t5 %s 3 %s %s 3 (nodes_J %s w)) %s" % (nat(ny), nat(nx), nat(ny), nat(nx - 1), arr(J4[("nodes", "mesh")]))
                cid = cc.add(pre + "[%s; %s]" % (e4, e4J))
                meta.append((cid, S3, ["nodes", "J_mesh"], dict(desc, comp="ComputeNodes(wingbox)", lower_stations_differ=cropped)))
            # --- displacement transfer with independent random inputs
            Tm = rng.normal(size=(ny, 3, 3))
            nds = rng.normal(size=(ny, 3))
            o2, J2, _ = core.run_comp(DisplacementTransfer(surface=surf),
                                      {"mesh": mesh, "disp": disp, "transformation_matrix": Tm, "nodes": nds})
            pre = "let mesh := a3 %s 3 %s in let disp := a2 6 %s in let Tm := a3 3 3 %s in let nds := a2 3 %s in " % (
                nat(ny), arr(mesh), arr(disp), arr(Tm), arr(nds))
            e2 = "re (t3 %s %s 3 (def_mesh mesh disp Tm nds)) %s" % (nat(nx), nat(ny), arr(o2["def_mesh"]))
            # def_mesh is affine in each input separately: J = model evaluated on unit arrays
            e2Jd = ("re (t5 %s %s 3 %s 6 (fun i j d j' c => def_mesh zero3 (delta2 j' c) zero3 zero2 i j d)) %s") % (
                nat(nx), nat(ny), nat(ny), arr(J2[("def_mesh", "disp")]))
            e2Jn = ("re (t5 %s %s 3 %s 3 (fun i j d j' k => def_mesh zero3 zero2 Tm (delta2 j' k) i j d)) %s") % (
                nat(nx), nat(ny), nat(ny), arr(J2[("def_mesh", "nodes")]))
            e2Jm = ("re (t6 %s %s 3 %s %s 3 (fun i j d i' j' k => def_mesh (delta3 i' j' k) zero2 Tm zero2 i j d)) %s") % (
                nat(nx), nat(ny), nat(nx), nat(ny), arr(J2[("def_mesh", "mesh")]))
            e2JT = ("re (t6 %s %s 3 %s 3 3 (fun i j d j' a b => def_mesh_rot mesh (delta3 j' a b) nds i j d)) %s") % (
                nat(nx), nat(ny), nat(ny), arr(J2[("def_mesh", "transformation_matrix")]))
            cid = cc.add(pre + "[%s; %s; %s; %s; %s]" % (e2, e2Jd, e2Jn, e2Jm, e2JT))
            meta.append((cid, S2, ["def_mesh", "J_disp", "J_nodes", "J_mesh", "J_T"], dict(desc, comp="DisplacementTransfer")))
            R.count("DispTransfer/%s/%s" % (kind, desc["disp"]))
            R.mark("DT", kind, nx, ny)
    res, errs = cc.run()
    for cid, S, labels, desc in meta:
        judge(S, res.get(cid), labels, desc)
    S1["coq_errors"] = errs


def stream_mesh_point_forces(R, tier, seed):
    from openaerostruct.aerodynamics.mesh_point_forces import MeshPointForces
    S = R.stream("MeshPointForces")
    cc = CoqCases("mesh_point_forces", IMPORTS)
    meta = []
    rng = gen.stable_rng(seed, "mesh_point_forces")
    for (nx, ny) in gen.sizes(tier):
        mesh = gen.rand_mesh(rng, nx, ny, "left")
        surf = gen.tube_surface(mesh)
        F = rng.normal(size=(nx - 1, ny - 1, 3)) * 10 ** rng.uniform(0, 5)
        comp = MeshPointForces(surfaces=[surf])
        outs, J, _ = core.run_comp(comp, {"wing_sec_forces": F})
        le, te = comp.options["le_wt"], comp.options["te_wt"]
        pre = "let F := a3 %s 3 %s in let le := %s in let te := %s in " % (nat(ny - 1), arr(F), fl(le), fl(te))
        e = "re (t3 %s %s 3 (mesh_point_forces %s %s le te F)) %s" % (nat(nx), nat(ny), nat(nx - 1), nat(ny - 1), arr(outs["wing_mesh_point_forces"]))
        eJ = "re (t6 %s %s 3 %s %s 3 (fun i j d i' j' d' => mesh_point_forces %s %s le te (delta3 i' j' d') i j d)) %s" % (
            nat(nx), nat(ny), nat(nx - 1), nat(ny - 1), nat(nx - 1), nat(ny - 1), arr(J[("wing_mesh_point_forces", "wing_sec_forces")]))
        # the weights the conservation theorem needs: le = 0.375, te = 0.125 exactly
        ew = "abs (le - gen_mpf_le_wt) + abs (te - gen_mpf_te_wt)"
        cid = cc.add(pre + "[%s; %s; %s]" % (e, eJ, ew))
        desc = {"comp": "MeshPointForces", "nx": nx, "ny": ny, "le_wt": le, "te_wt": te}
        meta.append((cid, desc))
        R.count("MeshPointForces")
        R.mark("MPF", nx, ny)
    res, errs = cc.run()
    for cid, desc in meta:
        judge(S, res.get(cid), ["mesh_point_forces", "J", "weights"], desc)
    S["coq_errors"] = errs
