"""C01 correspondence for Model/Functionals.v: reported Jacobians vs the dual-number evaluation of the model."""
import numpy as np
from .. import core, gen
from ..core import fl, arr, nat, boolc, CoqCases, judge
from ..dualj import DJ
from .functionals import _surfs, clist
from .jac_stress import finish, JTOL

IMPORTS = "Functionals Constants"


def stream_scalar_functionals_jac(R, tier, seed):
    from openaerostruct.functionals.total_lift_drag import TotalLiftDrag
    from openaerostruct.functionals.sum_areas import SumAreas
    from openaerostruct.functionals.equilibrium import Equilibrium
    from openaerostruct.functionals.breguet_range import BreguetRange
    from openaerostruct.functionals.center_of_gravity import CenterOfGravity
    from openaerostruct.common.reynolds_comp import ReynoldsComp
    S = {k: R.stream(k + ".jacobian") for k in ("TotalLiftDrag", "SumAreas", "Equilibrium", "BreguetRange", "CenterOfGravity", "ReynoldsComp")}
    cc = CoqCases("jfunctionals", IMPORTS); meta = []
    rng = gen.stable_rng(seed, "jfunctionals")
    G = "(pd0 (@gen_grav_constant float Fops))"
    for ns in (1, 2, 3):
        for rep in range(2 if tier == "quick" else 8):
            surfs = _surfs(ns)
            CLs = rng.uniform(-0.3, 1.4, ns); CDs = rng.uniform(0.005, 0.08, ns); Ss = rng.uniform(2, 400, ns)
            rho = float(rng.uniform(0.2, 1.3)); v = float(rng.uniform(20, 280)); S_tot = float(rng.choice([Ss.sum(), rng.uniform(10, 500)]))
            ins = {"S_ref_total": S_tot, "rho": rho, "v": v}
            D = DJ().scal("St", S_tot, "S_ref_total").scal("rho", rho).scal("v", v)
            for i in range(ns):
                ins["s%d_CL" % i] = CLs[i]; ins["s%d_CD" % i] = CDs[i]; ins["s%d_S_ref" % i] = Ss[i]
                D.scal("CL%d" % i, CLs[i], "s%d_CL" % i).scal("CD%d" % i, CDs[i], "s%d_CD" % i).scal("S%d" % i, Ss[i], "s%d_S_ref" % i)
            o, J, _ = core.run_comp(TotalLiftDrag(surfaces=surfs), ins)
            cl = clist("({CL%d}, {S%d})" % (i, i) for i in range(ns)); cd = clist("({CD%d}, {S%d})" % (i, i) for i in range(ns))
            out = "[tld_coeff %s {St}; tld_coeff %s {St}; tld_force %s {rho} {v}; tld_force %s {rho} {v}]" % (cl, cd, cl, cd)
            je, jl = D.jac_errs(out, J, ["CL", "CD", "L", "D"])
            meta.append((cc.add(je), S["TotalLiftDrag"], jl, {"comp": "TotalLiftDrag", "ns": ns, "inputs": core.jsonable(ins)}))
            D = DJ()
            for i in range(ns): D.scal("S%d" % i, Ss[i], "s%d_S_ref" % i)
            o, J, _ = core.run_comp(SumAreas(surfaces=surfs), {"s%d_S_ref" % i: Ss[i] for i in range(ns)})
            je, jl = D.jac_errs("[sum_areas %s]" % clist("{S%d}" % i for i in range(ns)), J, ["S_ref_total"])
            meta.append((cc.add(je), S["SumAreas"], jl, {"comp": "SumAreas", "ns": ns}))
            ms = rng.uniform(50, 5e4, ns); fb = float(rng.uniform(10, 1e5)); W0 = float(rng.uniform(10, 2e5)); lf = float(rng.choice([1.0, 2.5, 1.05])); CL = float(rng.uniform(0.1, 1.2))
            ins = {"fuelburn": fb, "W0": W0, "load_factor": lf, "CL": CL, "S_ref_total": S_tot, "v": v, "rho": rho}
            D = DJ().scal("fb", fb, "fuelburn").scal("W0", W0).scal("lf", lf, "load_factor").scal("CL", CL).scal("St", S_tot, "S_ref_total").scal("v", v).scal("rho", rho)
            for i in range(ns):
                ins["s%d_structural_mass" % i] = ms[i]; D.scal("m%d" % i, ms[i], "s%d_structural_mass" % i)
            o, J, _ = core.run_comp(Equilibrium(surfaces=surfs), ins)
            ml = clist("{m%d}" % i for i in range(ns))
            out = "[eq_LW %s {lf} {W0} {fb} %s {rho} {v} {St} {CL}; eq_total_weight %s {lf} {W0} {fb} %s]" % (G, ml, G, ml)
            je, jl = D.jac_errs(out, J, ["L_equals_W", "total_weight"])
            meta.append((cc.add(je), S["Equilibrium"], jl, {"comp": "Equilibrium", "ns": ns, "inputs": core.jsonable(ins)}))
            CT = float(rng.uniform(1e-5, 3e-4)); a = float(rng.uniform(290, 345)); Rg = float(rng.uniform(1e5, 1.5e7)); M = float(rng.uniform(0.2, 0.9)); CD = float(rng.uniform(0.01, 0.06))
            ins = {"CT": CT, "CL": CL, "CD": CD, "speed_of_sound": a, "R": Rg, "Mach_number": M, "W0": W0}
            D = DJ().scal("CT", CT).scal("CL", CL).scal("CD", CD).scal("a", a, "speed_of_sound").scal("R", Rg).scal("M", M, "Mach_number").scal("W0", W0)
            for i in range(ns):
                ins["s%d_structural_mass" % i] = ms[i]; D.scal("m%d" % i, ms[i], "s%d_structural_mass" % i)
            o, J, _ = core.run_comp(BreguetRange(surfaces=surfs), ins)
            je, jl = D.jac_errs("[breguet {CT} {a} {R} {M} {W0} {CL} {CD} %s]" % ml, J, ["fuelburn"])
            meta.append((cc.add(je), S["BreguetRange"], jl, {"comp": "BreguetRange", "ns": ns, "inputs": core.jsonable(ins)}))
            tw = float(rng.uniform(1e5, 3e6)); cg0 = rng.normal(size=3) * 5; cgs = rng.normal(size=(ns, 3)) * 5
            ins = {"total_weight": tw, "fuelburn": fb / 50, "W0": W0, "load_factor": lf, "empty_cg": cg0}
            D = DJ().scal("tw", tw, "total_weight").scal("fb", fb / 50, "fuelburn").scal("W0", W0).scal("lf", lf, "load_factor").inp("ecg", cg0, "empty_cg")
            for i in range(ns):
                ins["s%d_structural_mass" % i] = ms[i]; ins["s%d_cg_location" % i] = cgs[i]
                D.scal("m%d" % i, ms[i], "s%d_structural_mass" % i).inp("cg%d" % i, cgs[i], "s%d_cg_location" % i)
            o, J, _ = core.run_comp(CenterOfGravity(surfaces=surfs), ins)
            sl = clist("({m%d}, {cg%d})" % (i, i) for i in range(ns))
            je, jl = D.jac_errs("T1 3 (cog %s {lf} {W0} {fb} {tw} {ecg} %s)" % (G, sl), J, ["cg"])
            meta.append((cc.add(je), S["CenterOfGravity"], jl, {"comp": "CenterOfGravity", "ns": ns, "inputs": core.jsonable(ins)}))
            mu = float(rng.uniform(1e-7, 5e-7)); rh = float(rng.uniform(1e-4, 3e-3)); vv = float(rng.uniform(50, 900))
            o, J, _ = core.run_comp(ReynoldsComp(), {"rho": rh, "mu": mu, "v": vv})
            D = DJ().scal("rho", rh).scal("mu", mu).scal("v", vv)
            je, jl = D.jac_errs("[reynolds {rho} {v} {mu}]", J, ["re"])
            meta.append((cc.add(je), S["ReynoldsComp"], jl, {"comp": "ReynoldsComp"}))
            R.mark("jfun", ns, rep)
    finish(cc, meta)


def stream_moment_jac(R, tier, seed):
    from openaerostruct.functionals.moment_coefficient import MomentCoefficient
    S = R.stream("MomentCoefficient.jacobian")
    cc = CoqCases("jmoment", IMPORTS); meta = []
    rng = gen.stable_rng(seed, "jmoment")
    combos = [("left",), ("full",), ("right",), ("left", "full")] + ([] if tier == "quick" else [("full", "left"), ("left", "right", "full")])
    for kinds in combos:
        for (nx, ny) in ([(2, 3)] if tier == "quick" else [(2, 3), (3, 5)]):
            surfs, ins, recs = [], {}, []
            D = DJ()
            for si, kind in enumerate(kinds):
                mesh = gen.rand_mesh(rng, nx, ny, kind)
                name = "s%d" % si
                surfs.append({"name": name, "mesh": mesh, "symmetry": kind != "full"})
                b = rng.normal(size=(nx - 1, ny, 3)) * 3; w = rng.uniform(0.2, 2, ny - 1); c = rng.uniform(0.5, 3, ny); Sr = float(rng.uniform(5, 100)); F = rng.normal(size=(nx - 1, ny - 1, 3)) * 1e3
                ins.update({name + "_b_pts": b, name + "_widths": w, name + "_chords": c, name + "_S_ref": Sr, name + "_sec_forces": F})
                D.inp("b%d" % si, b, name + "_b_pts").inp("w%d" % si, w, name + "_widths").inp("c%d" % si, c, name + "_chords").scal("S%d" % si, Sr, name + "_S_ref").inp("F%d" % si, F, name + "_sec_forces")
                recs.append("mkMSurf %s %s %s {b%d} {w%d} {c%d} {S%d} {F%d}" % (nat(nx - 1), nat(ny - 1), boolc(kind != "full"), si, si, si, si, si))
            cg = rng.normal(size=3) * 3; v = float(rng.uniform(20, 250)); rho = float(rng.uniform(0.3, 1.3)); St = float(rng.uniform(20, 300))
            ins.update({"cg": cg, "v": v, "rho": rho, "S_ref_total": St})
            D.inp("cg", cg).scal("v", v).scal("rho", rho).scal("St", St, "S_ref_total")
            # a fresh problem, linearised once (repeated linearisation is C03's subject)
            o, J, _ = core.run_comp(MomentCoefficient(surfaces=surfs), ins)
            out = "let ss := %s in T1 3 (moment_M ss {cg}) ++ T1 3 (moment_CM ss {cg} {rho} {v} {St})" % clist(recs)
            je, jl = D.jac_errs(out, J, ["M", "CM"])
            meta.append((cc.add(je), S, jl, {"comp": "MomentCoefficient", "surfaces": list(kinds), "nx": nx, "ny": ny, "inputs": core.jsonable(ins)}))
            R.count("jmoment/%s" % "+".join(kinds)); R.mark("jmom", kinds, nx, ny)
    finish(cc, meta)
