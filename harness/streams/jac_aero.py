"""C01 correspondence for Model/Aero.v: reported Jacobians vs the dual-number evaluation of the model."""
import numpy as np
from .. import core, gen
from ..core import fl, arr, nat, boolc, CoqCases, judge
from ..dualj import DJ
from .aero import _surf
from .jac_stress import finish, JTOL

IMPORTS = "Aero Misc"


def _sizes(tier, kind):
    s = [(2, 2), (2, 3), (3, 3)] if tier == "quick" else [(2, 2), (2, 3), (3, 3), (3, 4), (2, 5), (4, 3)]
    return [x for x in s if kind != "full" or x[1] % 2 == 1]


def stream_points_mesh_jac(R, tier, seed):
    from openaerostruct.aerodynamics.collocation_points import CollocationPoints
    from openaerostruct.aerodynamics.vortex_mesh import VortexMesh
    from openaerostruct.aerodynamics.get_vectors import GetVectors
    S1 = R.stream("CollocationPoints.jacobian"); S2 = R.stream("VortexMesh.jacobian"); S3 = R.stream("GetVectors.jacobian")
    cc = CoqCases("jaero_points", IMPORTS); meta = []
    rng = gen.stable_rng(seed, "jaero_points")
    for kind in ("left", "right", "full"):
        for (nx, ny) in _sizes(tier, kind):
            mesh0 = gen.rand_mesh(rng, nx, ny, kind)
            defm = mesh0 + rng.normal(size=mesh0.shape) * 0.01
            npx, npy = nx - 1, ny - 1
            s = _surf(mesh0, kind)
            o, J, _ = core.run_comp(CollocationPoints(surfaces=[s]), {"wing_def_mesh": defm})
            D = DJ().lit("npx", nat(npx)).lit("npy", nat(npy)).inp("m", defm, "wing_def_mesh")
            je, jl = D.jac_errs("T3 {npx} {npy} 3 (coll_pts {m}) ++ T3 {npx} {npy} 3 (force_pts_c {m}) ++ T3 {npx} {npy} 3 (bound_vecs {m})", J, ["coll_pts", "force_pts", "bound_vecs"])
            meta.append((cc.add(je), S1, jl, {"comp": "CollocationPoints", "kind": kind, "nx": nx, "ny": ny}))
            for ground in ((False, True) if kind != "full" else (False,)):
                s = _surf(mesh0, kind, ground=ground)
                ins = {"wing_def_mesh": defm}
                alpha = float(np.deg2rad(rng.uniform(-10, 12))); h = float(10 ** rng.uniform(-0.5, 2))
                left = abs(mesh0[0, 0, 1]) > abs(mesh0[0, -1, 1])
                D = DJ().lit("npx", nat(npx)).lit("npy", nat(npy)).lit("sym", boolc(kind != "full")).lit("gr", boolc(ground)).lit("left", boolc(left)).inp("m", defm, "wing_def_mesh")
                if ground:
                    ins["alpha"] = alpha; ins["height_agl"] = h
                    D.scal("alpha", alpha).scal("h", h, "height_agl")
                else:
                    D.par("alpha", alpha).par("h", h)
                o, J, _ = core.run_comp(VortexMesh(surfaces=[s]), ins)
                vm = o["wing_vortex_mesh"]
                D.lit("r", nat(vm.shape[0])).lit("c", nat(vm.shape[1]))
                je, jl = D.jac_errs("T3 {r} {c} 3 (vortex_mesh {npx} {npy} {sym} {gr} {left} {alpha} {h} {m})", J, ["wing_vortex_mesh"])
                meta.append((cc.add(je), S2, jl, {"comp": "VortexMesh", "kind": kind, "nx": nx, "ny": ny, "ground": ground, "alpha_rad": alpha, "h": h, "def_mesh": defm.tolist()}))
                ne = 2
                pts = rng.normal(size=(ne, 3)) * 3
                o2, J2, _ = core.run_comp(GetVectors(surfaces=[s], num_eval_points=ne, eval_name="coll_pts"), {"coll_pts": pts, "wing_vortex_mesh": vm})
                D = DJ().lit("ne", nat(ne)).lit("r", nat(vm.shape[0])).lit("c", nat(vm.shape[1])).inp("pts", pts, "coll_pts").inp("vm", vm, "wing_vortex_mesh")
                je, jl = D.jac_errs("T4 {ne} {r} {c} 3 (get_vectors {pts} {vm})", J2, ["wing_coll_pts_vectors"])
                meta.append((cc.add(je), S3, jl, {"comp": "GetVectors", "kind": kind, "nx": nx, "ny": ny, "ground": ground}))
                R.count("jaero_points/%s/ground=%s" % (kind, ground)); R.mark("jap", kind, nx, ny, ground)
    finish(cc, meta, shard=8)


def stream_eval_mtx_jac(R, tier, seed):
    from openaerostruct.aerodynamics.vortex_mesh import VortexMesh
    from openaerostruct.aerodynamics.eval_mtx import EvalVelMtx
    S = R.stream("EvalVelMtx.jacobian")
    cc = CoqCases("jeval_mtx", IMPORTS); meta = []
    rng = gen.stable_rng(seed, "jeval_mtx")
    sizes = [(2, 2), (2, 3), (3, 3)] if tier == "quick" else [(2, 2), (2, 3), (3, 3), (3, 4), (2, 5)]
    for kind in ("left", "right", "full"):
        for (nx, ny) in [s for s in sizes if kind != "full" or s[1] % 2 == 1]:
            for ground in ((False, True) if kind != "full" else (False,)):
                if ground and (nx, ny) == (3, 3) and tier == "quick": continue
                mesh0 = gen.rand_mesh(rng, nx, ny, kind)
                if ground: mesh0 = mesh0 - [0, 0, mesh0[:, :, 2].min()]
                npx, npy = nx - 1, ny - 1
                s = _surf(mesh0, kind, ground=ground)
                alpha_deg = float(rng.uniform(-8, 12)); h = float(10 ** rng.uniform(0.3, 1.5))
                ins = {"wing_def_mesh": mesh0}
                if ground: ins["alpha"] = np.deg2rad(alpha_deg); ins["height_agl"] = h
                vm = core.run_comp(VortexMesh(surfaces=[s]), ins, want_J=False)[0]["wing_vortex_mesh"]
                cp = (0.125 * (mesh0[:-1, :-1] + mesh0[:-1, 1:]) + 0.375 * (mesh0[1:, :-1] + mesh0[1:, 1:])).reshape(-1, 3)
                pts = np.vstack([cp[:1], rng.normal(size=(1, 3)) * 2 + [0.3, 0.5, 0.7]])
                ne = pts.shape[0]
                vec = pts[:, None, None, :] - vm[None, :, :, :]
                o, J, _ = core.run_comp(EvalVelMtx(surfaces=[s], num_eval_points=ne, eval_name="coll_pts"), {"alpha": alpha_deg, "wing_coll_pts_vectors": vec})
                right = abs(mesh0[0, 0, 1]) < abs(mesh0[0, -1, 1])
                D = DJ().lit("ne", nat(ne)).lit("npx", nat(npx)).lit("npy", nat(npy)).lit("sym", boolc(kind != "full")).lit("gr", boolc(ground)).lit("right", boolc(right))
                D.scal("alpha", alpha_deg).inp("vec", vec, "wing_coll_pts_vectors")
                je, jl = D.jac_errs("T4 {ne} {npx} {npy} 3 (vel_mtx {npx} {npy} {sym} {gr} {right} {alpha} {vec})", J, ["wing_coll_pts_vel_mtx"])
                meta.append((cc.add(je), S, jl, {"comp": "EvalVelMtx", "kind": kind, "nx": nx, "ny": ny, "ground": ground, "alpha_deg": alpha_deg, "vectors": vec.tolist()}))
                R.count("jeval_mtx/%s/ground=%s" % (kind, ground)); R.mark("jevm", kind, nx, ny, ground)
    # the alpha partial of EvalVelMtx is declared complex-step in the code
    finish(cc, meta, shard=1)


def stream_geometry_flow_jac(R, tier, seed):
    from openaerostruct.aerodynamics.geometry import VLMGeometry
    from openaerostruct.aerodynamics.convert_velocity import ConvertVelocity
    from openaerostruct.aerodynamics.rotational_velocity import RotationalVelocity
    from openaerostruct.aerodynamics.lift_drag import LiftDrag
    from openaerostruct.aerodynamics.coeffs import Coeffs
    from openaerostruct.aerodynamics.total_lift import TotalLift
    from openaerostruct.aerodynamics.lift_coeff_2D import LiftCoeff2D
    names = ("VLMGeometry", "ConvertVelocity", "RotationalVelocity", "LiftDrag", "Coeffs", "TotalLift", "LiftCoeff2D")
    S = {k: R.stream(k + ".jacobian") for k in names}
    cc = CoqCases("jaero_geom", IMPORTS); meta = []
    rng = gen.stable_rng(seed, "jaero_geom")
    for kind in ("left", "right", "full"):
        for (nx, ny) in _sizes(tier, kind):
            npx, npy = nx - 1, ny - 1; n = npx * npy
            for proj in (False, True):
                mesh = gen.rand_mesh(rng, nx, ny, kind)
                s = _surf(mesh, kind, S_ref_type="projected" if proj else "wetted")
                o, J, _ = core.run_comp(VLMGeometry(surface=s), {"def_mesh": mesh})
                D = DJ().lit("npx", nat(npx)).lit("npy", nat(npy)).lit("ny", nat(ny)).lit("sym", boolc(kind != "full")).lit("proj", boolc(proj)).inp("m", mesh, "def_mesh")
                out = ("T3 {npx} {ny} 3 (g_bpts {m}) ++ T1 {npy} (g_widths {npx} {m}) ++ T1 {npy} (g_lengths_spanwise {npx} {m}) ++ T1 {ny} (g_lengths {npx} {m}) ++ "
                       "T1 {ny} (g_chords {npx} {m}) ++ T3 {npx} {npy} 3 (g_normals {m}) ++ [g_Sref {npx} {npy} {sym} {proj} {m}]")
                je, jl = D.jac_errs(out, J, ["b_pts", "widths", "lengths_spanwise", "lengths", "chords", "normals", "S_ref"])
                meta.append((cc.add(je), S["VLMGeometry"], jl, {"comp": "VLMGeometry", "kind": kind, "nx": nx, "ny": ny, "projected": proj, "def_mesh": mesh.tolist()}))
            s = _surf(mesh, kind)
            alpha = float(rng.uniform(-15, 15)); beta = float(rng.choice([0.0, rng.uniform(-15, 15)])); v = float(rng.uniform(5, 300))
            rotv = rng.normal(size=(n, 3)) * 10
            for rot in (False, True):
                ins = {"alpha": alpha, "beta": beta, "v": v}
                D = DJ().lit("n", nat(n)).scal("alpha", alpha).scal("beta", beta).scal("v", v)
                if rot: ins["rotational_velocities"] = rotv; D.inp("rv", rotv, "rotational_velocities")
                o, J, _ = core.run_comp(ConvertVelocity(surfaces=[s], rotational=rot), ins)
                out = "T2 {n} 3 (fun p d => freestream {alpha} {beta} {v} d %s)" % ("+! {rv} p d" if rot else "")
                je, jl = D.jac_errs(out, J, ["freestream_velocities"])
                meta.append((cc.add(je), S["ConvertVelocity"], jl, {"comp": "ConvertVelocity", "rotational": rot, "alpha": alpha, "beta": beta, "v": v}))
            cp = rng.normal(size=(n, 3)) * 3; om_ = rng.normal(size=3) * 0.3; cg = rng.normal(size=3)
            o, J, _ = core.run_comp(RotationalVelocity(surfaces=[s]), {"coll_pts": cp, "omega": om_, "cg": cg})
            D = DJ().lit("n", nat(n)).inp("cp", cp, "coll_pts").inp("om", om_, "omega").inp("cg", cg)
            je, jl = D.jac_errs("T2 {n} 3 (fun p d => rot_vel {om} {cg} ({cp} p) d)", J, ["rotational_velocities"])
            meta.append((cc.add(je), S["RotationalVelocity"], jl, {"comp": "RotationalVelocity", "kind": kind, "nx": nx, "ny": ny}))
            F = rng.normal(size=(npx, npy, 3)) * 1e3
            o, J, _ = core.run_comp(LiftDrag(surface=s), {"sec_forces": F, "alpha": alpha, "beta": beta})
            D = DJ().lit("n", nat(n)).lit("sym", boolc(kind != "full")).inp("F", F.reshape(n, 3), "sec_forces").scal("alpha", alpha).scal("beta", beta)
            je, jl = D.jac_errs("[lift {n} {sym} {alpha} {F}; drag {n} {sym} {alpha} {beta} {F}]", J, ["L", "D"])
            meta.append((cc.add(je), S["LiftDrag"], jl, {"comp": "LiftDrag", "kind": kind, "nx": nx, "ny": ny, "alpha": alpha, "beta": beta}))
            L, Dr = float(o["L"].ravel()[0]), float(o["D"].ravel()[0]); rho = float(rng.uniform(0.2, 1.3)); Sr = float(rng.uniform(5, 200))
            o, J, _ = core.run_comp(Coeffs(), {"S_ref": Sr, "L": L, "D": Dr, "v": v, "rho": rho})
            D = DJ().scal("S", Sr, "S_ref").scal("L", L).scal("D", Dr).scal("v", v).scal("rho", rho)
            je, jl = D.jac_errs("[coeff {L} {rho} {v} {S}; coeff {D} {rho} {v} {S}]", J, ["CL1", "CDi"])
            meta.append((cc.add(je), S["Coeffs"], jl, {"comp": "Coeffs"}))
            CL0 = float(rng.choice([0.0, 0.2])); CL1 = float(rng.uniform(0, 1))
            o, J, _ = core.run_comp(TotalLift(surface=dict(s, CL0=CL0)), {"CL1": CL1})
            D = DJ().scal("c1", CL1, "CL1").par("c0", CL0)
            je, jl = D.jac_errs("[total_lift_coeff {c1} {c0}]", J, ["CL"])
            meta.append((cc.add(je), S["TotalLift"], jl, {"comp": "TotalLift"}))
            widths = rng.uniform(0.3, 2, npy); chords = rng.uniform(0.5, 3, ny)
            ins = {"alpha": alpha, "sec_forces": F, "widths": widths, "chords": chords, "v": v, "rho": rho}
            o, J, _ = core.run_comp(LiftCoeff2D(surface=s), ins)
            D = DJ().lit("npx", nat(npx)).lit("npy", nat(npy)).scal("alpha", alpha).inp("F", F, "sec_forces").inp("w", widths, "widths").inp("c", chords, "chords").scal("v", v).scal("rho", rho)
            je, jl = D.jac_errs("T1 {npy} (lift_coeff_2d {npx} {alpha} {rho} {v} {F} {w} {c})", J, ["Cl"])
            meta.append((cc.add(je), S["LiftCoeff2D"], jl, {"comp": "LiftCoeff2D", "kind": kind, "nx": nx, "ny": ny, "inputs": core.jsonable(ins)}))
            R.count("jaero_geom/%s" % kind); R.mark("jgeo", kind, nx, ny)
    finish(cc, meta, shard=8)


def stream_system_jac(R, tier, seed):
    from openaerostruct.aerodynamics.mtx_rhs import VLMMtxRHSComp
    from openaerostruct.aerodynamics.horseshoe_circulations import HorseshoeCirculations
    from openaerostruct.aerodynamics.eval_velocities import EvalVelocities
    from openaerostruct.aerodynamics.panel_forces import PanelForces
    names = ("VLMMtxRHSComp", "HorseshoeCirculations", "EvalVelocities", "PanelForces")
    S = {k: R.stream(k + ".jacobian") for k in names}
    cc = CoqCases("jaero_system", IMPORTS); meta = []
    rng = gen.stable_rng(seed, "jaero_system")
    for kind in ("left", "full", "right"):
        for (nx, ny) in ([(2, 3), (3, 3)] if tier == "quick" else [(2, 3), (3, 3), (2, 5), (3, 4)]):
            if kind == "full" and ny % 2 == 0: continue
            mesh = gen.rand_mesh(rng, nx, ny, kind)
            s = _surf(mesh, kind, name="s0")
            a, b = nx - 1, ny - 1; n = a * b
            velm = rng.normal(size=(n, a, b, 3)); nn = rng.normal(size=(a, b, 3)); nn /= np.linalg.norm(nn, axis=2, keepdims=True)
            fs = rng.normal(size=(n, 3)) * 50
            ins = {"freestream_velocities": fs, "s0_coll_pts_vel_mtx": velm, "s0_normals": nn}
            o, J, _ = core.run_comp(VLMMtxRHSComp(surfaces=[s]), ins)
            D = DJ().lit("n", nat(n)).lit("b", nat(b)).inp("fs", fs, "freestream_velocities").inp("velm", velm, "s0_coll_pts_vel_mtx").inp("nn", nn, "s0_normals")
            out = ("let vm := fun p q d => {velm} p (q / {b})%nat (q mod {b})%nat d in let nm := fun p d => {nn} (p / {b})%nat (p mod {b})%nat d in "
                   "T2 {n} {n} (aic_mtx vm nm) ++ T1 {n} (aic_rhs {fs} nm)")
            je, jl = D.jac_errs(out, J, ["mtx", "rhs"])
            meta.append((cc.add(je), S["VLMMtxRHSComp"], jl, {"comp": "VLMMtxRHSComp", "kind": kind, "nx": nx, "ny": ny}))
            circ = rng.normal(size=n) * 5
            o, J, _ = core.run_comp(HorseshoeCirculations(surfaces=[s]), {"circulations": circ})
            D = DJ().lit("a", nat(a)).lit("b", nat(b)).inp("c", circ, "circulations")
            je, jl = D.jac_errs("T2 {a} {b} (horseshoe {b} (fun i j => {c} (i * {b} + j)%nat))", J, ["horseshoe_circulations"])
            meta.append((cc.add(je), S["HorseshoeCirculations"], jl, {"comp": "HorseshoeCirculations", "nx": nx, "ny": ny}))
            ins = {"freestream_velocities": fs, "circulations": circ, "s0_force_pts_vel_mtx": velm}
            o, J, _ = core.run_comp(EvalVelocities(surfaces=[s], eval_name="force_pts", num_eval_points=n), ins)
            D = DJ().lit("n", nat(n)).lit("b", nat(b)).inp("fs", fs, "freestream_velocities").inp("c", circ, "circulations").inp("velm", velm, "s0_force_pts_vel_mtx")
            je, jl = D.jac_errs("T2 {n} 3 (eval_velocity {n} {fs} (fun p q d => {velm} p (q / {b})%nat (q mod {b})%nat d) {c})", J, ["force_pts_velocities"])
            meta.append((cc.add(je), S["EvalVelocities"], jl, {"comp": "EvalVelocities", "nx": nx, "ny": ny}))
            hs = rng.normal(size=n) * 5; bv = rng.normal(size=(n, 3)); vel = rng.normal(size=(n, 3)) * 30; rho = float(rng.uniform(0.2, 1.3))
            o, J, _ = core.run_comp(PanelForces(surfaces=[s]), {"rho": rho, "horseshoe_circulations": hs, "force_pts_velocities": vel, "bound_vecs": bv})
            D = DJ().lit("n", nat(n)).scal("rho", rho).inp("hs", hs, "horseshoe_circulations").inp("vel", vel, "force_pts_velocities").inp("bv", bv, "bound_vecs")
            je, jl = D.jac_errs("T2 {n} 3 (panel_force {rho} {hs} {vel} {bv})", J, ["panel_forces"])
            meta.append((cc.add(je), S["PanelForces"], jl, {"comp": "PanelForces", "nx": nx, "ny": ny}))
            R.count("jaero_system/%s" % kind); R.mark("jsys", kind, nx, ny)
    finish(cc, meta, shard=4)
