"""C01 correspondence for Model/Transfer.v: reported Jacobians vs the dual-number evaluation of the model."""
import numpy as np
from .. import core, gen
from ..core import fl, arr, nat, boolc, CoqCases, judge
from ..dualj import DJ
from .jac_stress import finish, JTOL

IMPORTS = "Transfer Constants"


def stream_transfer_jac(R, tier, seed):
    from openaerostruct.transfer.load_transfer import LoadTransfer
    from openaerostruct.transfer.displacement_transfer import DisplacementTransfer
    from openaerostruct.transfer.compute_transformation_matrix import ComputeTransformationMatrix
    from openaerostruct.structures.compute_nodes import ComputeNodes
    from openaerostruct.aerodynamics.mesh_point_forces import MeshPointForces
    S = {k: R.stream(k + ".jacobian") for k in ("LoadTransfer", "ComputeTransformationMatrix", "ComputeNodes", "DisplacementTransfer", "MeshPointForces")}
    cc = CoqCases("jtransfer", IMPORTS); meta = []
    rng = gen.stable_rng(seed, "jtransfer")
    sizes = [(2, 2), (2, 3), (3, 3)] if tier == "quick" else [(2, 2), (2, 3), (3, 3), (3, 4), (4, 5)]
    for kind in ("left", "right", "full"):
        for (nx, ny) in sizes:
            if kind == "full" and ny % 2 == 0: continue
            mesh = gen.rand_mesh(rng, nx, ny, kind)
            w = float(rng.choice([0.35, 0.0, 1.0, rng.uniform(0, 1)]))
            surf = gen.tube_surface(mesh, symmetry=(kind != "full"), fem_origin=w)
            F = rng.normal(size=(nx - 1, ny - 1, 3)) * 10 ** rng.uniform(0, 5)
            desc = {"kind": kind, "nx": nx, "ny": ny, "fem_origin": w}
            o, J, _ = core.run_comp(LoadTransfer(surface=surf), {"def_mesh": mesh, "sec_forces": F})
            D = DJ().lit("npx", nat(nx - 1)).lit("npy", nat(ny - 1)).lit("ny", nat(ny)).lit("w1", "(pd0 (@gen_lt_w1 float Fops))").par("w2", w).inp("mesh", mesh, "def_mesh").inp("F", F, "sec_forces")
            je, jl = D.jac_errs("T2 {ny} 6 (lt_loads {npx} {npy} {w1} {w2} {mesh} {F})", J, ["loads"])
            meta.append((cc.add(je), S["LoadTransfer"], jl, dict(desc, comp="LoadTransfer", def_mesh=mesh.tolist(), sec_forces=F.tolist())))
            disp = rng.normal(size=(ny, 6)) * np.array([0.3, 0.3, 0.3, 0.2, 0.2, 0.2])
            sp = int(rng.integers(0, 3))
            if sp == 0: disp[:] = 0.0
            o, J, _ = core.run_comp(ComputeTransformationMatrix(surface=surf), {"disp": disp})
            D = DJ().lit("ny", nat(ny)).inp("disp", disp)
            je, jl = D.jac_errs("T3 {ny} 3 3 (transf_mtx {disp})", J, ["transformation_matrix"])
            meta.append((cc.add(je), S["ComputeTransformationMatrix"], jl, dict(desc, comp="ComputeTransformationMatrix", disp=disp.tolist())))
            o, J, _ = core.run_comp(ComputeNodes(surface=surf), {"mesh": mesh})
            D = DJ().lit("ny", nat(ny)).lit("npx", nat(nx - 1)).par("w", w).inp("mesh", mesh)
            je, jl = D.jac_errs("T2 {ny} 3 (nodes {npx} {w} {mesh})", J, ["nodes"])
            meta.append((cc.add(je), S["ComputeNodes"], jl, dict(desc, comp="ComputeNodes")))
            Tm = rng.normal(size=(ny, 3, 3)); nds = rng.normal(size=(ny, 3))
            ins = {"mesh": mesh, "disp": disp, "transformation_matrix": Tm, "nodes": nds}
            o, J, _ = core.run_comp(DisplacementTransfer(surface=surf), ins)
            D = DJ().lit("nx", nat(nx)).lit("ny", nat(ny)).inp("mesh", mesh).inp("disp", disp).inp("Tm", Tm, "transformation_matrix").inp("nds", nds, "nodes")
            je, jl = D.jac_errs("T3 {nx} {ny} 3 (def_mesh {mesh} {disp} {Tm} {nds})", J, ["def_mesh"])
            meta.append((cc.add(je), S["DisplacementTransfer"], jl, dict(desc, comp="DisplacementTransfer", inputs=core.jsonable(ins))))
            comp = MeshPointForces(surfaces=[surf])
            o, J, _ = core.run_comp(comp, {"wing_sec_forces": F})
            D = DJ().lit("nx", nat(nx)).lit("ny", nat(ny)).lit("npx", nat(nx - 1)).lit("npy", nat(ny - 1)).par("le", comp.options["le_wt"]).par("te", comp.options["te_wt"]).inp("F", F, "wing_sec_forces")
            je, jl = D.jac_errs("T3 {nx} {ny} 3 (mesh_point_forces {npx} {npy} {le} {te} {F})", J, ["wing_mesh_point_forces"])
            meta.append((cc.add(je), S["MeshPointForces"], jl, dict(desc, comp="MeshPointForces")))
            R.count("jtransfer/%s" % kind); R.mark("jtr", kind, nx, ny)
    finish(cc, meta)
