"""Correspondence streams for Model/PG.v."""
import numpy as np
from .. import core, gen
from ..core import fl, arr, nat, boolc, CoqCases, judge

IMPORTS = "PG"


def stream_pg(R, tier, seed):
    from openaerostruct.aerodynamics.pg_wind_rotation import RotateToWindFrame, RotateFromWindFrame
    from openaerostruct.aerodynamics.pg_scale import ScaleToPrandtlGlauert, ScaleFromPrandtlGlauert
    S1 = R.stream("RotateToWindFrame"); S2 = R.stream("ScaleToPrandtlGlauert"); S3 = R.stream("ScaleFromPrandtlGlauert"); S4 = R.stream("RotateFromWindFrame")
    cc = CoqCases("pg", IMPORTS); meta = []
    rng = gen.stable_rng(seed, "pg")
    reps = 2 if tier == "quick" else 6
    for kind in ("left", "full"):
        for (nx, ny) in [(2, 3), (3, 3), (2, 5)] if tier == "quick" else gen.sizes(tier, full=(kind == "full")):
            for rep in range(reps):
                mesh = gen.rand_mesh(rng, nx, ny, kind)
                s = {"name": "w", "mesh": mesh, "symmetry": kind != "full"}
                n = (nx - 1) * (ny - 1)
                a = float(np.deg2rad(rng.uniform(-15, 15))); b = float(np.deg2rad(rng.choice([0.0, rng.uniform(-15, 15)])))
                M = float(rng.choice([0.0, 1e-8, rng.uniform(0, 0.95)]))
                cp = rng.normal(size=(n, 3)); fp = rng.normal(size=(n, 3)); bv = rng.normal(size=(n, 3)); rv = rng.normal(size=(n, 3))
                normals = rng.normal(size=(nx - 1, ny - 1, 3))
                ins = {"alpha": a, "beta": b, "coll_pts": cp, "force_pts": fp, "bound_vecs": bv, "rotational_velocities": rv, "w_def_mesh": mesh, "w_normals": normals}
                o, _, _ = core.run_comp(RotateToWindFrame(surfaces=[s], rotational=True), ins, want_J=False)
                es = []
                for name, arr_ in (("coll_pts", cp), ("force_pts", fp), ("bound_vecs", bv), ("rotational_velocities", rv)):
                    es.append("re (t2 %s 3 (fun p => to_wind %s %s (a2 3 %s p))) %s" % (nat(n), fl(a), fl(b), arr(arr_), arr(o[name + "_w_frame"])))
                es.append("re (t3 %s %s 3 (fun i j => to_wind %s %s (a3 %s 3 %s i j))) %s" % (nat(nx), nat(ny), fl(a), fl(b), nat(ny), arr(mesh), arr(o["w_def_mesh_w_frame"])))
                es.append("re (t3 %s %s 3 (fun i j => to_wind %s %s (a3 %s 3 %s i j))) %s" % (nat(nx - 1), nat(ny - 1), fl(a), fl(b), nat(ny - 1), arr(normals), arr(o["w_normals_w_frame"])))
                cid = cc.add("[" + "; ".join(es) + "]")
                meta.append((cid, S1, ["coll", "force", "bound", "rotvel", "mesh", "normals"], {"comp": "RotateToWindFrame", "alpha": a, "beta": b, "nx": nx, "ny": ny}))
                ins2 = {"Mach_number": M, "coll_pts_w_frame": cp, "force_pts_w_frame": fp, "bound_vecs_w_frame": bv, "rotational_velocities_w_frame": rv,
                        "w_def_mesh_w_frame": mesh, "w_normals_w_frame": normals}
                o, _, _ = core.run_comp(ScaleToPrandtlGlauert(surfaces=[s], rotational=True), ins2, want_J=False)
                es = []
                for name, arr_ in (("coll_pts", cp), ("force_pts", fp), ("bound_vecs", bv)):
                    es.append("re (t2 %s 3 (fun p => pg_point %s (a2 3 %s p))) %s" % (nat(n), fl(M), arr(arr_), arr(o[name + "_pg"])))
                es.append("re (t2 %s 3 (fun p => pg_rotvel %s (a2 3 %s p))) %s" % (nat(n), fl(M), arr(rv), arr(o["rotational_velocities_pg"])))
                es.append("re (t3 %s %s 3 (fun i j => pg_point %s (a3 %s 3 %s i j))) %s" % (nat(nx), nat(ny), fl(M), nat(ny), arr(mesh), arr(o["w_def_mesh_pg"])))
                es.append("re (t3 %s %s 3 (fun i j => pg_normal %s (a3 %s 3 %s i j))) %s" % (nat(nx - 1), nat(ny - 1), fl(M), nat(ny - 1), arr(normals), arr(o["w_normals_pg"])))
                cid = cc.add("[" + "; ".join(es) + "]")
                meta.append((cid, S2, ["coll", "force", "bound", "rotvel", "mesh", "normals"], {"comp": "ScaleToPrandtlGlauert", "Mach": M, "nx": nx, "ny": ny}))
                F = rng.normal(size=(nx - 1, ny - 1, 3)) * 1e3
                o, _, _ = core.run_comp(ScaleFromPrandtlGlauert(surfaces=[s]), {"Mach_number": M, "w_sec_forces_pg": F}, want_J=False)
                e = "re (t3 %s %s 3 (fun i j => pg_force_back %s (a3 %s 3 %s i j))) %s" % (nat(nx - 1), nat(ny - 1), fl(M), nat(ny - 1), arr(F), arr(o["w_sec_forces_w_frame"]))
                cid = cc.add("[" + e + "]"); meta.append((cid, S3, ["forces"], {"comp": "ScaleFromPrandtlGlauert", "Mach": M}))
                o, _, _ = core.run_comp(RotateFromWindFrame(surfaces=[s]), {"alpha": a, "beta": b, "w_sec_forces_w_frame": F}, want_J=False)
                e = "re (t3 %s %s 3 (fun i j => from_wind %s %s (a3 %s 3 %s i j))) %s" % (nat(nx - 1), nat(ny - 1), fl(a), fl(b), nat(ny - 1), arr(F), arr(o["w_sec_forces"]))
                cid = cc.add("[" + e + "]"); meta.append((cid, S4, ["forces"], {"comp": "RotateFromWindFrame", "alpha": a, "beta": b}))
                R.count("pg/%s" % kind); R.mark("pg", kind, nx, ny, rep)
    R.sample({"component": "PG transform", "example": meta[0][3]})
    res, errs = cc.run()
    for cid, S, labels, desc in meta:
        judge(S, res.get(cid), labels, desc)
    S1["coq_errors"] = errs
