"""Correspondence streams for Model/Functionals.v and Model/Atmos.v."""
import numpy as np
from .. import core, gen
from ..core import fl, arr, nat, boolc, CoqCases, judge

IMPORTS = "Functionals Constants Atmos AtmosTable"


def _surfs(n):
    return [{"name": "s%d" % i, "mesh": np.zeros((2, 3, 3))} for i in range(n)]


def clist(vals):
    return "[" + "; ".join(vals) + "]"


def stream_scalar_functionals(R, tier, seed):
    from openaerostruct.functionals.total_lift_drag import TotalLiftDrag
    from openaerostruct.functionals.sum_areas import SumAreas
    from openaerostruct.functionals.equilibrium import Equilibrium
    from openaerostruct.functionals.breguet_range import BreguetRange
    from openaerostruct.functionals.center_of_gravity import CenterOfGravity
    from openaerostruct.common.reynolds_comp import ReynoldsComp
    S = {k: R.stream(k) for k in ("TotalLiftDrag", "SumAreas", "Equilibrium", "BreguetRange", "CenterOfGravity", "ReynoldsComp")}
    cc = CoqCases("functionals", IMPORTS); meta = []
    rng = gen.stable_rng(seed, "functionals")
    reps = 3 if tier == "quick" else 12
    for ns in (1, 2, 3):
        for rep in range(reps):
            surfs = _surfs(ns)
            CLs = rng.uniform(-0.3, 1.4, ns); CDs = rng.uniform(0.005, 0.08, ns); Ss = rng.uniform(2, 400, ns)
            rho = float(rng.uniform(0.2, 1.3)); v = float(rng.uniform(20, 280)); S_tot = float(rng.choice([Ss.sum(), rng.uniform(10, 500)]))
            ins = {"S_ref_total": S_tot, "rho": rho, "v": v}
            for i in range(ns):
                ins["s%d_CL" % i] = CLs[i]; ins["s%d_CD" % i] = CDs[i]; ins["s%d_S_ref" % i] = Ss[i]
            o, J, _ = core.run_comp(TotalLiftDrag(surfaces=surfs), ins)
            cl = clist("(%s, %s)" % (fl(CLs[i]), fl(Ss[i])) for i in range(ns)); cd = clist("(%s, %s)" % (fl(CDs[i]), fl(Ss[i])) for i in range(ns))
            es = ["re [tld_coeff %s %s; tld_coeff %s %s; tld_force %s %s %s; tld_force %s %s %s] %s" % (
                cl, fl(S_tot), cd, fl(S_tot), cl, fl(rho), fl(v), cd, fl(rho), fl(v), arr([o["CL"], o["CD"], o["L"], o["D"]]))]
            labels = ["outputs"]
            es.append("re [tld_dforce_drho %s %s; tld_dforce_dv %s %s %s; tld_dcoeff_dStot %s %s; tld_dforce_drho %s %s; tld_dforce_dv %s %s %s; tld_dcoeff_dStot %s %s] %s" % (
                cl, fl(v), cl, fl(rho), fl(v), cl, fl(S_tot), cd, fl(v), cd, fl(rho), fl(v), cd, fl(S_tot),
                arr([J[("L", "rho")], J[("L", "v")], J[("CL", "S_ref_total")], J[("D", "rho")], J[("D", "v")], J[("CD", "S_ref_total")]])))
            labels.append("J_flow")
            per = []
            ref = []
            for i in range(ns):
                per += ["tld_dcoeff_dC %s %s" % (fl(Ss[i]), fl(S_tot)), "tld_dcoeff_dS %s %s" % (fl(CLs[i]), fl(S_tot)),
                        "tld_dforce_dC %s %s %s" % (fl(Ss[i]), fl(rho), fl(v)), "tld_dforce_dS %s %s %s" % (fl(CLs[i]), fl(rho), fl(v)),
                        "tld_dcoeff_dS %s %s" % (fl(CDs[i]), fl(S_tot)), "tld_dforce_dS %s %s %s" % (fl(CDs[i]), fl(rho), fl(v))]
                ref += [J[("CL", "s%d_CL" % i)], J[("CL", "s%d_S_ref" % i)], J[("L", "s%d_CL" % i)], J[("L", "s%d_S_ref" % i)],
                        J[("CD", "s%d_S_ref" % i)], J[("D", "s%d_S_ref" % i)]]
            es.append("re %s %s" % (clist(per), arr(ref))); labels.append("J_surfaces")
            # cross terms that must be exactly zero
            zero = max(float(np.abs(J[(a, b)]).max()) for (a, b) in (("CL", "rho"), ("CL", "v"), ("CD", "rho"), ("L", "S_ref_total"), ("D", "S_ref_total"), ("CL", "s0_CD"), ("L", "s0_CD"), ("CD", "s0_CL"), ("D", "s0_CL")))
            es.append(fl(zero)); labels.append("J_structural_zeros")
            cid = cc.add(clist(es)); meta.append((cid, S["TotalLiftDrag"], labels, {"comp": "TotalLiftDrag", "ns": ns, "rep": rep}))
            # SumAreas
            o, J, _ = core.run_comp(SumAreas(surfaces=surfs), {"s%d_S_ref" % i: Ss[i] for i in range(ns)})
            cid = cc.add("[re [sum_areas %s] %s; %s]" % (clist(fl(s) for s in Ss), arr(o["S_ref_total"]), fl(max(abs(float(v2.ravel()[0]) - 1.0) for v2 in J.values()))))
            meta.append((cid, S["SumAreas"], ["S_ref_total", "J_ones"], {"comp": "SumAreas", "ns": ns}))
            # Equilibrium
            ms = rng.uniform(50, 5e4, ns); fb = float(rng.uniform(10, 1e5)); W0 = float(rng.uniform(10, 2e5)); lf = float(rng.choice([1.0, 2.5, 1.05])); CL = float(rng.uniform(0.1, 1.2))
            ins = {"fuelburn": fb, "W0": W0, "load_factor": lf, "CL": CL, "S_ref_total": S_tot, "v": v, "rho": rho}
            for i in range(ns): ins["s%d_structural_mass" % i] = ms[i]
            o, J, _ = core.run_comp(Equilibrium(surfaces=surfs), ins)
            ml = clist(fl(m) for m in ms)
            args = "gen_grav_constant %s %s %s %s %s %s %s %s" % (fl(lf), fl(W0), fl(fb), ml, fl(rho), fl(v), fl(S_tot), fl(CL))
            twargs = "gen_grav_constant %s %s %s %s" % (fl(lf), fl(W0), fl(fb), ml)
            es = ["re [eq_LW %s; eq_total_weight %s] %s" % (args, twargs, arr([o["L_equals_W"], o["total_weight"]])),
                  "re [eq_dLW_dmass %s; eq_dLW_dmass %s; eq_dLW_dmass %s; eq_dLW_dlf %s; eq_dLW_drho %s; eq_dLW_dv %s; eq_dLW_dCL %s; eq_dLW_dS %s] %s" % (
                      args, args, args, args, args, args, args, args,
                      arr([J[("L_equals_W", "fuelburn")], J[("L_equals_W", "W0")], J[("L_equals_W", "s0_structural_mass")], J[("L_equals_W", "load_factor")],
                           J[("L_equals_W", "rho")], J[("L_equals_W", "v")], J[("L_equals_W", "CL")], J[("L_equals_W", "S_ref_total")]])),
                  "re [gen_grav_constant * %s; gen_grav_constant * %s; gen_grav_constant * %s; eq_dtw_dlf gen_grav_constant %s %s %s] %s" % (
                      fl(lf), fl(lf), fl(lf), fl(W0), fl(fb), ml,
                      arr([J[("total_weight", "fuelburn")], J[("total_weight", "W0")], J[("total_weight", "s%d_structural_mass" % (ns - 1))], J[("total_weight", "load_factor")]])),
                  fl(max(float(np.abs(J[("total_weight", k)]).max()) for k in ("CL", "rho", "v", "S_ref_total")))]
            cid = cc.add(clist(es)); meta.append((cid, S["Equilibrium"], ["outputs", "J_LW", "J_tw", "J_zero"], {"comp": "Equilibrium", "ns": ns, "rep": rep}))
            # Breguet
            CT = float(rng.uniform(1e-5, 3e-4)); a = float(rng.uniform(290, 345)); Rg = float(rng.uniform(1e5, 1.5e7)); M = float(rng.uniform(0.2, 0.9)); CD = float(rng.uniform(0.01, 0.06))
            ins = {"CT": CT, "CL": CL, "CD": CD, "speed_of_sound": a, "R": Rg, "Mach_number": M, "W0": W0}
            for i in range(ns): ins["s%d_structural_mass" % i] = ms[i]
            o, J, _ = core.run_comp(BreguetRange(surfaces=surfs), ins)
            ba = "%s %s %s %s %s %s %s %s" % (fl(CT), fl(a), fl(Rg), fl(M), fl(W0), fl(CL), fl(CD), ml)
            es = ["re [breguet %s] %s" % (ba, arr(o["fuelburn"])),
                  "re [br_dCL %s; br_dCD %s; br_dCT %s; br_dR %s; br_da %s; br_dM %s; br_dW %s %s %s %s %s %s; br_dW %s %s %s %s %s %s] %s" % (
                      ba, ba, ba, ba, ba, ba, fl(CT), fl(a), fl(Rg), fl(M), fl(CL), fl(CD), fl(CT), fl(a), fl(Rg), fl(M), fl(CL), fl(CD),
                      arr([J[("fuelburn", k)] for k in ("CL", "CD", "CT", "R", "speed_of_sound", "Mach_number", "W0", "s%d_structural_mass" % (ns - 1))]))]
            cid = cc.add(clist(es)); meta.append((cid, S["BreguetRange"], ["fuelburn", "J"], {"comp": "BreguetRange", "ns": ns, "rep": rep}))
            # CenterOfGravity (independent inputs)
            tw = float(rng.uniform(1e5, 3e6)); cg0 = rng.normal(size=3) * 5; cgs = rng.normal(size=(ns, 3)) * 5
            ins = {"total_weight": tw, "fuelburn": fb / 50, "W0": W0, "load_factor": lf, "empty_cg": cg0}
            for i in range(ns):
                ins["s%d_structural_mass" % i] = ms[i]; ins["s%d_cg_location" % i] = cgs[i]
            o, J, _ = core.run_comp(CenterOfGravity(surfaces=surfs), ins)
            sl = clist("(%s, a1 %s)" % (fl(ms[i]), arr(cgs[i])) for i in range(ns))
            e = "re (t1 3 (cog gen_grav_constant %s %s %s %s (a1 %s) %s)) %s" % (fl(lf), fl(W0), fl(fb / 50), fl(tw), arr(cg0), sl, arr(o["cg"]))
            cid = cc.add(clist([e])); meta.append((cid, S["CenterOfGravity"], ["cg"], {"comp": "CenterOfGravity", "ns": ns, "rep": rep}))
            # Reynolds
            mu = float(rng.uniform(1e-7, 5e-7)); rh = float(rng.uniform(1e-4, 3e-3)); vv = float(rng.uniform(50, 900))
            o, J, _ = core.run_comp(ReynoldsComp(), {"rho": rh, "mu": mu, "v": vv})
            e = "re [reynolds %s %s %s; %s / %s; %s / %s; - %s * %s / (%s * %s)] %s" % (fl(rh), fl(vv), fl(mu), fl(vv), fl(mu), fl(rh), fl(mu), fl(rh), fl(vv), fl(mu), fl(mu),
                                                                                 arr([o["re"], J[("re", "rho")], J[("re", "v")], J[("re", "mu")]]))
            cid = cc.add(clist([e])); meta.append((cid, S["ReynoldsComp"], ["re+J"], {"comp": "ReynoldsComp"}))
            R.count("functionals/ns=%d" % ns); R.mark("fun", ns, rep)
            if rep == 0:
                R.sample({"component": "Equilibrium/Breguet", "ns": ns, "masses": ms.tolist(), "W0": W0, "fuelburn": fb, "CL": CL, "CD": CD, "R": Rg, "CT": CT})
    res, errs = cc.run()
    for cid, St, labels, desc in meta:
        judge(St, res.get(cid), labels, desc)
    S["TotalLiftDrag"]["coq_errors"] = errs


def stream_moment(R, tier, seed):
    from openaerostruct.functionals.moment_coefficient import MomentCoefficient
    S = R.stream("MomentCoefficient")
    cc = CoqCases("moment", IMPORTS); meta = []
    rng = gen.stable_rng(seed, "moment")
    combos = [("left",), ("full",), ("right",), ("left", "full"), ("full", "left"), ("left", "right", "full")]
    if tier == "quick":
        combos = combos[:5]
    for kinds in combos:
        for (nx, ny) in ([(2, 3), (3, 5)] if tier == "quick" else [(2, 3), (3, 5), (2, 5), (4, 7)]):
            surfs, ins, recs = [], {}, []
            for si, kind in enumerate(kinds):
                mesh = gen.rand_mesh(rng, nx, ny, kind)
                name = "s%d" % si
                surfs.append({"name": name, "mesh": mesh, "symmetry": kind != "full"})
                b = rng.normal(size=(nx - 1, ny, 3)) * 3; w = rng.uniform(0.2, 2, ny - 1); c = rng.uniform(0.5, 3, ny); Sr = float(rng.uniform(5, 100)); F = rng.normal(size=(nx - 1, ny - 1, 3)) * 1e3
                ins.update({name + "_b_pts": b, name + "_widths": w, name + "_chords": c, name + "_S_ref": Sr, name + "_sec_forces": F})
                recs.append("@mkMSurf float %s %s %s (a3 %s 3 %s) (a1 %s) (a1 %s) %s (a3 %s 3 %s)" % (
                    nat(nx - 1), nat(ny - 1), boolc(kind != "full"), nat(ny), arr(b), arr(w), arr(c), fl(Sr), nat(ny - 1), arr(F)))
            cg = rng.normal(size=3) * 3; v = float(rng.uniform(20, 250)); rho = float(rng.uniform(0.3, 1.3)); St = float(rng.uniform(20, 300))
            ins.update({"cg": cg, "v": v, "rho": rho, "S_ref_total": St})
            o, _, _ = core.run_comp(MomentCoefficient(surfaces=surfs), ins, want_J=False)
            pre = "let ss := %s in let cg := a1 %s in " % (clist(recs), arr(cg))
            es = ["re (t1 3 (moment_M ss cg)) %s" % arr(o["M"]), "re (t1 3 (moment_CM ss cg %s %s %s)) %s" % (fl(rho), fl(v), fl(St), arr(o["CM"]))]
            cid = cc.add(pre + clist(es))
            meta.append((cid, ["M", "CM"], {"comp": "MomentCoefficient", "surfaces": list(kinds), "nx": nx, "ny": ny}))
            R.count("moment/%s" % "+".join(kinds)); R.mark("mom", kinds, nx, ny)
    res, errs = cc.run()
    for cid, labels, desc in meta:
        judge(S, res.get(cid), labels, desc)
    S["coq_errors"] = errs


def stream_atmos(R, tier, seed):
    from openaerostruct.common.atmos_comp import AtmosComp
    S = R.stream("AtmosComp")
    cc = CoqCases("atmos", IMPORTS); meta = []
    rng = gen.stable_rng(seed, "atmos")
    n = 24 if tier == "quick" else 120
    hs = list(rng.uniform(-1000, 150000, n)) + [-1000.0, 0.0, 150000.0, 19000.0, 35000.0, 36089.0, 19000.0 + 1e-6, 18999.5, 104999.0, 105000.0, 149999.0, 500.0]
    pre_defs = ("let n := atm_n in let X := @ofl float Fops atm_alt in ")
    for h in hs:
        M = float(rng.uniform(0.1, 0.9))
        o, J, _ = core.run_comp(AtmosComp(), {"altitude": h, "Mach_number": M})
        vals, ders = [], []
        for col in ("T", "P", "rho", "a", "mu"):
            vals.append("akima X (@ofl float Fops atm_%s) n %s" % (col, fl(h)))
            ders.append("akima_der X (@ofl float Fops atm_%s) n %s" % (col, fl(h)))
        ref = [o["T"], o["P"], o["rho"], o["speed_of_sound"], o["mu"]]
        dref = [J[("T", "altitude")], J[("P", "altitude")], J[("rho", "altitude")], J[("speed_of_sound", "altitude")], J[("mu", "altitude")]]
        es = []
        for vexp, r in zip(vals, ref):
            es.append("re [%s] %s" % (vexp, arr(r)))
        for dexp, r in zip(ders, dref):
            es.append("re [%s] %s" % (dexp, arr(r)))
        es.append("re [speed (akima X (@ofl float Fops atm_a) n %s) %s] %s" % (fl(h), fl(M), arr(o["v"])))
        cid = cc.add(pre_defs + clist(es))
        meta.append((cid, ["T", "P", "rho", "a", "mu", "dT", "dP", "drho", "da", "dmu", "v"], {"comp": "AtmosComp", "altitude_ft": h, "Mach": M}))
        R.count("atmos"); R.mark("atm", round(h, 6))
    R.sample({"component": "AtmosComp", "altitudes_ft": [float(h) for h in hs[:5]]})
    res, errs = cc.run(shard=6)
    # derivative of mu / values near flat stretches are tiny: relative error against the value scale is what matters
    for cid, labels, desc in meta:
        judge(S, res.get(cid), labels, desc, tol={"dmu": 1e-6, "dT": 1e-7, "dP": 1e-7, "drho": 1e-7, "da": 1e-7})
    S["coq_errors"] = errs
