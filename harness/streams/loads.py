"""Correspondence streams for Model/Loads.v."""
import numpy as np
from .. import core, gen
from ..core import fl, arr, nat, boolc, CoqCases, judge

IMPORTS = "Loads Constants"


def _setup(rng, ny, kind):
    mesh = gen.rand_mesh(rng, 2, ny, kind)
    nodes = 0.65 * mesh[0] + 0.35 * mesh[-1]
    return mesh, nodes


def _nys(tier):
    return (2, 3, 4, 5) if tier == "quick" else (2, 3, 4, 5, 6, 7, 9, 13)


def stream_weight_cg(R, tier, seed):
    from openaerostruct.structures.weight import Weight
    from openaerostruct.structures.structural_cg import StructuralCG
    S1 = R.stream("Weight"); S2 = R.stream("StructuralCG")
    cc = CoqCases("weight_cg", IMPORTS); meta = []
    rng = gen.stable_rng(seed, "weight_cg")
    for kind in ("left", "right", "full"):
        for ny in _nys(tier):
            if kind == "full" and ny % 2 == 0:
                continue
            mesh, nodes = _setup(rng, ny, kind)
            sym = kind != "full"
            surf = gen.tube_surface(mesh, symmetry=sym, mrho=float(rng.uniform(1e3, 8e3)), wing_weight_ratio=float(rng.choice([1.0, 2.0, 1.25])))
            A = rng.uniform(1e-3, 5e-2, ny - 1)
            ne = ny - 1
            o, J, _ = core.run_comp(Weight(surface=surf), {"A": A, "nodes": nodes})
            pre = "let nodes := a2 3 %s in let A := a1 %s in let mrho := %s in let wwr := %s in " % (arr(nodes), arr(A), fl(surf["mrho"]), fl(surf["wing_weight_ratio"]))
            es = ["re (t1 %s (element_mass nodes mrho wwr A)) %s" % (nat(ne), arr(o["element_mass"])),
                  "re [structural_mass nodes %s %s mrho wwr A] %s" % (nat(ne), boolc(sym), arr(o["structural_mass"])),
                  "re (t2 %s %s (element_mass_dA nodes mrho wwr)) %s" % (nat(ne), nat(ne), arr(J[("element_mass", "A")])),
                  "re (t3 %s %s 3 (element_mass_dnodes nodes mrho wwr A)) %s" % (nat(ne), nat(ny), arr(J[("element_mass", "nodes")])),
                  "re (t1 %s (structural_mass_dA nodes %s %s mrho wwr)) %s" % (nat(ne), nat(ne), boolc(sym), arr(J[("structural_mass", "A")])),
                  "re (t2 %s 3 (structural_mass_dnodes nodes %s %s mrho wwr A)) %s" % (nat(ny), nat(ne), boolc(sym), arr(J[("structural_mass", "nodes")]))]
            cid = cc.add(pre + "[%s]" % "; ".join(es))
            meta.append((cid, S1, ["element_mass", "structural_mass", "J_em_A", "J_em_nodes", "J_M_A", "J_M_nodes"], {"comp": "Weight", "kind": kind, "ny": ny}))
            em = o["element_mass"]; M = o["structural_mass"]
            # cg with independent inputs
            em2 = rng.uniform(1, 50, ne); M2 = float(rng.uniform(100, 500))
            o2, J2, _ = core.run_comp(StructuralCG(surface=surf), {"nodes": nodes, "structural_mass": M2, "element_mass": em2})
            pre = "let nodes := a2 3 %s in let em := a1 %s in let M := %s in " % (arr(nodes), arr(em2), fl(M2))
            es = ["re (t1 3 (cg_location nodes %s %s M em)) %s" % (nat(ne), boolc(sym), arr(o2["cg_location"])),
                  "re (t1 3 (cg_dM nodes %s %s M em)) %s" % (nat(ne), boolc(sym), arr(J2[("cg_location", "structural_mass")])),
                  "re (t2 3 %s (cg_dem nodes %s M)) %s" % (nat(ne), boolc(sym), arr(J2[("cg_location", "element_mass")])),
                  "re (t3 3 %s 3 (cg_dnodes %s %s M em)) %s" % (nat(ny), nat(ne), boolc(sym), arr(J2[("cg_location", "nodes")]))]
            cid = cc.add(pre + "[%s]" % "; ".join(es))
            meta.append((cid, S2, ["cg", "J_M", "J_em", "J_nodes"], {"comp": "StructuralCG", "kind": kind, "ny": ny}))
            R.count("weight_cg/%s" % kind); R.mark("wcg", kind, ny)
            R.sample({"component": "Weight", "kind": kind, "ny": ny, "A": A.tolist()[:3], "nodes[0]": nodes[0].tolist()})
    res, errs = cc.run()
    for cid, S, labels, desc in meta:
        judge(S, res.get(cid), labels, desc)
    S1["coq_errors"] = errs


def stream_dist_loads(R, tier, seed):
    from openaerostruct.structures.wing_weight_loads import StructureWeightLoads
    from openaerostruct.structures.fuel_loads import FuelLoads
    from openaerostruct.structures.fuel_vol import WingboxFuelVol
    from openaerostruct.structures.wingbox_fuel_vol_delta import WingboxFuelVolDelta
    S1 = R.stream("StructureWeightLoads"); S2 = R.stream("FuelLoads"); S3 = R.stream("WingboxFuelVol"); S4 = R.stream("WingboxFuelVolDelta")
    cc = CoqCases("dist_loads", IMPORTS); meta = []
    rng = gen.stable_rng(seed, "dist_loads")
    for kind in ("left", "right", "full"):
        for ny in _nys(tier):
            if kind == "full" and ny % 2 == 0:
                continue
            mesh, nodes = _setup(rng, ny, kind)
            sym = kind != "full"; ne = ny - 1
            surf = gen.wingbox_surface(mesh, symmetry=sym, Wf_reserve=float(rng.choice([15000.0, 0.0, 500.0])))
            em = rng.uniform(1, 200, ne); lf = float(rng.choice([1.0, 2.5, -1.0]))
            o, _, _ = core.run_comp(StructureWeightLoads(surface=surf), {"element_mass": em, "nodes": nodes, "load_factor": lf}, want_J=False)
            pre = "let nodes := a2 3 %s in let em := a1 %s in " % (arr(nodes), arr(em))
            es = ["re (t2 %s 6 (struct_weight_loads nodes %s gen_grav_constant %s em)) %s" % (nat(ny), nat(ne), fl(lf), arr(o["struct_weight_loads"])),
]   # the declared output element_lengths is never assigned by compute (stays 0) and is unconnected: not compared
            cid = cc.add(pre + "[%s]" % "; ".join(es))
            meta.append((cid, S1, ["struct_weight_loads"], {"comp": "StructureWeightLoads", "kind": kind, "ny": ny, "load_factor": lf}))
            vols = rng.uniform(0.05, 2.0, ne); fm = float(rng.uniform(1e3, 1e5))
            o, _, _ = core.run_comp(FuelLoads(surface=surf), {"fuel_vols": vols, "nodes": nodes, "fuel_mass": fm, "load_factor": lf}, want_J=False)
            pre = "let nodes := a2 3 %s in let vols := a1 %s in " % (arr(nodes), arr(vols))
            e = "re (t2 %s 6 (fuel_weight_loads nodes %s %s gen_grav_constant %s %s %s vols)) %s" % (
                nat(ny), nat(ne), boolc(sym), fl(lf), fl(fm), fl(surf["Wf_reserve"]), arr(o["fuel_weight_loads"]))
            cid = cc.add(pre + "[%s]" % e)
            meta.append((cid, S2, ["fuel_weight_loads"], {"comp": "FuelLoads", "kind": kind, "ny": ny, "reserve": surf["Wf_reserve"]}))
            A_int = rng.uniform(0.01, 0.5, ne)
            o, _, _ = core.run_comp(WingboxFuelVol(surface=surf), {"nodes": nodes, "A_int": A_int}, want_J=False)
            e = "re (t1 %s (fuel_vols (a2 3 %s) (a1 %s))) %s" % (nat(ne), arr(nodes), arr(A_int), arr(o["fuel_vols"]))
            cid = cc.add("[%s]" % e)
            meta.append((cid, S3, ["fuel_vols"], {"comp": "WingboxFuelVol", "kind": kind, "ny": ny}))
            fb = float(rng.uniform(1e3, 1e5))
            o, _, _ = core.run_comp(WingboxFuelVolDelta(surface=surf), {"fuelburn": fb, "fuel_vols": vols}, want_J=False)
            e = "re [fuel_vol_delta %s %s %s %s %s (a1 %s)] %s" % (nat(ne), boolc(sym), fl(fb), fl(surf["Wf_reserve"]), fl(surf["fuel_density"]), arr(vols), arr(o["fuel_vol_delta"]))
            cid = cc.add("[%s]" % e)
            meta.append((cid, S4, ["fuel_vol_delta"], {"comp": "WingboxFuelVolDelta", "kind": kind, "ny": ny}))
            R.count("dist_loads/%s" % kind); R.mark("dl", kind, ny)
    res, errs = cc.run()
    for cid, S, labels, desc in meta:
        judge(S, res.get(cid), labels, desc)
    S1["coq_errors"] = errs


def stream_point_loads(R, tier, seed):
    from openaerostruct.structures.compute_point_mass_loads import ComputePointMassLoads
    from openaerostruct.structures.compute_thrust_loads import ComputeThrustLoads
    from openaerostruct.structures.total_loads import TotalLoads
    S1 = R.stream("ComputePointMassLoads"); S2 = R.stream("ComputeThrustLoads"); S3 = R.stream("TotalLoads")
    cc = CoqCases("point_loads", IMPORTS); meta = []
    rng = gen.stable_rng(seed, "point_loads")
    for kind in ("left", "right", "full"):
        for ny in _nys(tier):
            if kind == "full" and ny % 2 == 0:
                continue
            mesh, nodes = _setup(rng, ny, kind)
            sym = kind != "full"; ne = ny - 1
            npm = int(rng.integers(1, 4))
            surf = gen.tube_surface(mesh, symmetry=sym, n_point_masses=npm)
            # point masses near (but not exactly at) the beam, keeping y-distances away from 0 by > 1e-3
            locs = np.zeros((npm, 3))
            for k in range(npm):
                j = int(rng.integers(0, ny))
                locs[k] = nodes[j] + np.array([rng.uniform(-1, 1), rng.uniform(0.05, 0.4) * rng.choice([-1, 1]), rng.uniform(-0.5, 0.5)])
            masses = rng.uniform(100, 5e3, npm); thrusts = rng.uniform(1e3, 1e5, npm); lf = float(rng.choice([1.0, 2.5]))
            o, _, _ = core.run_comp(ComputePointMassLoads(surface=surf), {"point_mass_locations": locs, "point_masses": masses, "nodes": nodes, "load_factor": lf}, want_J=False)
            pre = "let nodes := a2 3 %s in let locs := a2 3 %s in " % (arr(nodes), arr(locs))
            es = ["re (t2 %s %s (fun k j => nodal_weighting nodes %s (locs k) j)) %s" % (nat(npm), nat(ny), nat(ne), arr(o["nodal_weightings"])),
                  "re (t2 %s 6 (loads_from_point_masses nodes %s %s gen_grav_constant %s locs (a1 %s))) %s" % (nat(ny), nat(ne), nat(npm), fl(lf), arr(masses), arr(o["loads_from_point_masses"])),
                  "abs (gen_pm_eps - pm_eps) + abs (gen_pm_power - 10)"]
            cid = cc.add(pre + "[%s]" % "; ".join(es))
            meta.append((cid, S1, ["nodal_weightings", "loads", "constants"], {"comp": "ComputePointMassLoads", "kind": kind, "ny": ny, "npm": npm}))
            o, _, _ = core.run_comp(ComputeThrustLoads(surface=surf), {"point_mass_locations": locs, "engine_thrusts": thrusts, "nodes": nodes}, want_J=False)
            es = ["re (t2 %s %s (fun k j => nodal_weighting nodes %s (locs k) j)) %s" % (nat(npm), nat(ny), nat(ne), arr(o["nodal_weightings"])),
                  "re (t2 %s 6 (loads_from_thrusts nodes %s %s locs (a1 %s))) %s" % (nat(ny), nat(ne), nat(npm), arr(thrusts), arr(o["loads_from_thrusts"])),
                  "abs (gen_th_eps - pm_eps) + abs (gen_th_power - 10)"]
            cid = cc.add(pre + "[%s]" % "; ".join(es))
            meta.append((cid, S2, ["nodal_weightings", "loads", "constants"], {"comp": "ComputeThrustLoads", "kind": kind, "ny": ny, "npm": npm}))
            # total loads, every option combination
            for sw in (False, True):
                for flw in (False, True):
                    for pm in (False, True):
                        s2 = gen.tube_surface(mesh, symmetry=sym, struct_weight_relief=sw, distributed_fuel_weight=flw)
                        if pm:
                            s2["n_point_masses"] = 1
                        arrs = {k: rng.normal(size=(ny, 6)) * 1e3 for k in ("loads", "struct_weight_loads", "fuel_weight_loads", "loads_from_point_masses", "loads_from_thrusts")}
                        ins = {"loads": arrs["loads"]}
                        if sw: ins["struct_weight_loads"] = arrs["struct_weight_loads"]
                        if flw: ins["fuel_weight_loads"] = arrs["fuel_weight_loads"]
                        if pm:
                            ins["loads_from_point_masses"] = arrs["loads_from_point_masses"]; ins["loads_from_thrusts"] = arrs["loads_from_thrusts"]
                        o, J, _ = core.run_comp(TotalLoads(surface=s2), ins)
                        e = "re (t2 %s 6 (total_loads %s %s %s (a2 6 %s) (a2 6 %s) (a2 6 %s) (a2 6 %s) (a2 6 %s))) %s" % (
                            nat(ny), boolc(sw), boolc(flw), boolc(pm), arr(arrs["loads"]), arr(arrs["struct_weight_loads"]), arr(arrs["fuel_weight_loads"]),
                            arr(arrs["loads_from_point_masses"]), arr(arrs["loads_from_thrusts"]), arr(o["total_loads"]))
                        eye = np.eye(ny * 6)
                        jerr = max(float(np.abs(v - eye).max()) for v in J.values())
                        cid = cc.add("[%s; %s]" % (e, fl(jerr)))
                        meta.append((cid, S3, ["total_loads", "J_identity"], {"comp": "TotalLoads", "ny": ny, "sw": sw, "fuel": flw, "pm": pm}))
            R.count("point_loads/%s" % kind); R.mark("pl", kind, ny)
            R.sample({"component": "ComputePointMassLoads", "kind": kind, "ny": ny, "locs": locs.tolist(), "masses": masses.tolist()})
    res, errs = cc.run()
    for cid, S, labels, desc in meta:
        judge(S, res.get(cid), labels, desc)
    S1["coq_errors"] = errs
