"""C01 correspondence for Model/Wingbox.v: WingboxGeometry (fd-declared) and SectionPropertiesWingbox (cs-declared):
outputs vs the binary64 model, and the Jacobian the framework reports (its approximation of the code's compute)
vs the dual-number evaluation of the model."""
import numpy as np
from .. import core, gen
from ..core import fl, arr, nat, boolc, CoqCases, judge
from ..dualj import DJ

IMPORTS = "Wingbox"
OUTS = ["A", "A_enc", "A_int", "Iy", "Qz", "Iz", "J", "htop", "hbottom", "hfront", "hrear"]


def _airfoil(rng, variant):
    """wing-box part of an airfoil: ns+1 points each side; variant 0 = the example data of the repository's tests"""
    if variant == 0:
        return tuple(np.real(a).astype(float) for a in (gen.WB_UPPER_X, gen.WB_UPPER_Y, gen.WB_LOWER_X, gen.WB_LOWER_Y))
    ns = int(rng.integers(2, 9))
    x = np.sort(rng.uniform(0.1, 0.65, ns + 1)); x += np.arange(ns + 1) * 1e-3
    yu = 0.03 + 0.04 * np.sin(np.pi * (x - 0.05) / 0.8) + rng.normal(size=ns + 1) * 0.002
    yl = -0.025 - 0.03 * np.sin(np.pi * (x - 0.02) / 0.75) + rng.normal(size=ns + 1) * 0.002
    xl = x.copy() if variant == 1 else x + rng.normal(size=ns + 1) * 1e-4   # the code uses upper x for the spars, lower x for the lower skin
    return x, yu, xl, yl


def stream_section_properties_wingbox(R, tier, seed):
    from openaerostruct.structures.section_properties_wingbox import SectionPropertiesWingbox
    S = R.stream("SectionPropertiesWingbox.outputs+jacobian")
    cc = CoqCases("jwbsec", IMPORTS); meta = []
    rng = gen.stable_rng(seed, "jwbsec")
    for variant in ((0, 1, 2) if tier == "quick" else (0, 1, 2, 1, 2, 2)):
        for ny in ((2, 4) if tier == "quick" else (2, 3, 5)):
            n = ny - 1
            xu, yu, xl, yl = _airfoil(rng, variant)
            mesh = gen.rand_mesh(rng, 2, ny, "left")
            toc0 = float(rng.choice([0.12, 0.1, 0.14]))
            surf = gen.wingbox_surface(mesh, data_x_upper=np.array(xu), data_y_upper=np.array(yu), data_x_lower=np.array(xl), data_y_lower=np.array(yl),
                                       original_wingbox_airfoil_t_over_c=toc0)
            sw = rng.uniform(1.0, 8.0, n)
            ins = {"streamwise_chords": sw, "fem_chords": sw * rng.uniform(0.75, 1.0, n),
                   "fem_twists": rng.uniform(-0.12, 0.15, n) * (0.0 if (variant == 1 and ny == 2) else 1.0),
                   "spar_thickness": rng.uniform(0.002, 0.02, n), "skin_thickness": rng.uniform(0.002, 0.02, n),
                   "t_over_c": rng.uniform(0.07, 0.16, n)}
            o, J, _ = core.run_comp(SectionPropertiesWingbox(surface=surf), ins, outputs=OUTS)
            ns = len(xu) - 1
            D = DJ().lit("ne", nat(n)).lit("ns", nat(ns)).par("xu", xu).par("yu", yu).par("xl", xl).par("yl", yl).par("toc0", toc0)
            for k in ("fem_chords", "spar_thickness", "skin_thickness", "t_over_c", "streamwise_chords", "fem_twists"):
                D.inp(k, ins[k])
            out = ("T2 11 {ne} (fun k e => wb_out {ns} {xu} {yu} {xl} {yl} {toc0} ({fem_chords} e) ({spar_thickness} e) ({skin_thickness} e) "
                   "({t_over_c} e) ({streamwise_chords} e) ({fem_twists} e) k)")
            je, jl = D.jac_errs(out, J, OUTS)
            code = np.concatenate([np.asarray(o[k]).ravel() for k in OUTS])
            vt = ("re (T1 {ne} (fun e => wb_out {ns} {xu} {yu} {xl} {yl} {toc0} ({fem_chords} e) ({spar_thickness} e) ({skin_thickness} e) "
                  "({t_over_c} e) ({streamwise_chords} e) ({fem_twists} e) KK)) ").format(**D.f)
            vals = "; ".join(vt.replace("KK", nat(k)) + arr(o[OUTS[k]]) for k in range(11))
            cid = cc.add("([%s] ++ %s)" % (vals, je))
            meta.append((cid, OUTS + jl, {"comp": "SectionPropertiesWingbox", "airfoil": variant, "ns": ns, "ny": ny, "inputs": core.jsonable(ins),
                                          "data": core.jsonable({"xu": xu, "yu": yu, "xl": xl, "yl": yl, "toc0": toc0})}))
            R.count("jwbsec/airfoil%d" % variant); R.mark("jwbsec", variant, ny)
    res, errs = cc.run(shard=4)
    for cid, labels, desc in meta:
        judge(S, res.get(cid), labels, desc, tol=1e-8)
    S["coq_errors"] = errs


def stream_wingbox_geometry(R, tier, seed):
    """fd-declared (forward differences, OpenMDAO's default step 1e-6): the reported Jacobian is compared with the true
    derivative of the model to the accuracy of that approximation"""
    from openaerostruct.structures.wingbox_geometry import WingboxGeometry
    S = R.stream("WingboxGeometry.outputs+jacobian")
    cc = CoqCases("jwbgeo", IMPORTS); meta = []
    rng = gen.stable_rng(seed, "jwbgeo")
    for kind in ("left", "right", "full"):
        for (nx, ny) in (((2, 3), (3, 4)) if tier == "quick" else ((2, 2), (2, 3), (3, 4), (4, 5), (2, 7))):
            if kind == "full" and ny % 2 == 0: ny += 1
            mesh = gen.rand_mesh(rng, nx, ny, kind)
            # every section twisted (the component's twist measure has a kink at zero twist: see the theorem's hypothesis)
            c = mesh[-1, :, 0] - mesh[0, :, 0]
            mesh[-1, :, 2] = mesh[0, :, 2] - c * np.tan(np.deg2rad(rng.uniform(1.0, 6.0, ny)) * rng.choice([-1.0, 1.0], ny))
            for i in range(1, nx - 1):
                mesh[i, :, 2] = mesh[0, :, 2] + (mesh[-1, :, 2] - mesh[0, :, 2]) * i / (nx - 1)
            xu, yu, xl, yl = _airfoil(rng, int(rng.integers(0, 3)))
            surf = gen.wingbox_surface(mesh, symmetry=(kind != "full"), data_x_upper=np.array(xu), data_y_upper=np.array(yu), data_x_lower=np.array(xl), data_y_lower=np.array(yl))
            o, J, _ = core.run_comp(WingboxGeometry(surface=surf), {"mesh": mesh}, outputs=["streamwise_chords", "fem_chords", "fem_twists"])
            n = ny - 1
            D = DJ().lit("ne", nat(n)).lit("nx1", nat(nx - 1)).inp("mesh", mesh)
            for k, v in (("xu0", xu[0]), ("yu0", yu[0]), ("yl0", yl[0]), ("xun", xu[-1]), ("yun", yu[-1]), ("yln", yl[-1])):
                D.par(k, float(v))
            corners = "{xu0} {yu0} {yl0} {xun} {yun} {yln}"
            out = ("(T1 {ne} (wg_sw {nx1} {mesh}) ++ T1 {ne} (wg_fem_chord {nx1} {mesh} " + corners + ") ++ T1 {ne} (wg_fem_twist {nx1} {mesh} " + corners + "))")
            je, jl = D.jac_errs(out, J, ["streamwise_chords", "fem_chords", "fem_twists"])
            code = np.concatenate([o["streamwise_chords"], o["fem_chords"], o["fem_twists"]])
            cid = cc.add("(re (%s) %s :: %s)" % (D.vals(out), arr(code), je))
            meta.append((cid, ["outputs"] + jl, {"comp": "WingboxGeometry", "kind": kind, "nx": nx, "ny": ny, "mesh": mesh.tolist()}))
            R.count("jwbgeo/%s" % kind); R.mark("jwbgeo", kind, nx, ny)
    res, errs = cc.run(shard=2)
    for cid, labels, desc in meta:
        # value to round-off; Jacobian to the accuracy of a forward difference with relative step 1e-6
        r = res.get(cid)
        judge(S, r, labels, desc, tol=dict({l: 2e-5 for l in labels}, **{"outputs": 1e-9, "J:shape": 0.0}))
    S["coq_errors"] = errs


def stream_small_components(R, tier, seed):
    """SparWithinWing, TotalLift, MultiCD, PanelForcesSurf (three surfaces of different sizes): outputs and Jacobians"""
    from openaerostruct.structures.spar_within_wing import SparWithinWing
    from openaerostruct.aerodynamics.total_lift import TotalLift
    from openaerostruct.integration.multipoint_comps import MultiCD
    from openaerostruct.aerodynamics.panel_forces_surf import PanelForcesSurf
    S = {k: R.stream(k + ".outputs+jacobian") for k in ("SparWithinWing", "TotalLift", "MultiCD", "PanelForcesSurf")}
    cc = CoqCases("jsmall", "Wingbox Small"); meta = []
    rng = gen.stable_rng(seed, "jsmall")
    for kind in ("left", "right", "full"):
        for (nx, ny) in (((2, 3), (3, 4)) if tier == "quick" else ((2, 2), (2, 3), (3, 4), (4, 5))):
            if kind == "full" and ny % 2 == 0: ny += 1
            mesh = gen.rand_mesh(rng, nx, ny, kind); n = ny - 1
            surf = gen.tube_surface(mesh, symmetry=(kind != "full"))
            ins = {"mesh": mesh, "radius": rng.uniform(0.05, 0.3, n), "t_over_c": rng.uniform(0.06, 0.16, n)}
            o, J, _ = core.run_comp(SparWithinWing(surface=surf), ins)
            D = DJ().lit("ne", nat(n)).lit("nx1", nat(nx - 1)).inp("mesh", mesh).inp("radius", ins["radius"]).inp("t_over_c", ins["t_over_c"])
            out = "T1 {ne} (spar_within_wing {nx1} {mesh} {radius} {t_over_c})"
            je, jl = D.jac_errs(out, J, ["spar_within_wing"])
            cid = cc.add("(re (%s) %s :: %s)" % (D.vals(out), arr(o["spar_within_wing"]), je))
            meta.append((cid, S["SparWithinWing"], ["spar_within_wing"] + jl, {"comp": "SparWithinWing", "kind": kind, "nx": nx, "ny": ny}))
            R.count("jsmall/spar/%s" % kind)
    for cl0 in (0.0, 0.2, -0.05):
        surf = gen.tube_surface(gen.rand_mesh(rng, 2, 3, "left"), CL0=cl0)
        cl1 = float(rng.uniform(-0.3, 1.0))
        o, J, _ = core.run_comp(TotalLift(surface=surf), {"CL1": cl1})
        D = DJ().par("CL0", cl0).scal("CL1", cl1)
        out = "[total_lift {CL0} {CL1}]"
        je, jl = D.jac_errs(out, J, ["CL"])
        cid = cc.add("(re (%s) %s :: %s)" % (D.vals(out), arr(o["CL"]), je))
        meta.append((cid, S["TotalLift"], ["CL"] + jl, {"comp": "TotalLift", "CL0": cl0, "CL1": cl1}))
    for npts in (1, 2, 4):
        cds = rng.uniform(0.005, 0.05, npts)
        o, J, _ = core.run_comp(MultiCD(n_points=npts), {"%d_CD" % i: cds[i] for i in range(npts)})
        D = DJ().lit("n", nat(npts))
        for i in range(npts): D.scal("cd%d" % i, cds[i], "%d_CD" % i)
        out = "[multi_cd {n} (fun i => nth i [" + "; ".join("{cd%d}" % i for i in range(npts)) + "] o0)]"
        je, jl = D.jac_errs(out, J, ["CD"])
        cid = cc.add("(re (%s) %s :: %s)" % (D.vals(out), arr(o["CD"]), je))
        meta.append((cid, S["MultiCD"], ["CD"] + jl, {"comp": "MultiCD", "n_points": npts}))
    for sizes in (((2, 3), (3, 4), (3, 3)), ((3, 3), (2, 5))) if tier == "quick" else (((2, 3), (3, 4), (3, 3)), ((3, 3), (2, 5)), ((2, 2), (4, 3), (2, 4), (3, 5))):
        surfs = [aero_surface_(rng, nx, ny, "s%d" % k) for k, (nx, ny) in enumerate(sizes)]
        tot = sum((nx - 1) * (ny - 1) for nx, ny in sizes)
        pf = rng.normal(size=(tot, 3)) * 100
        names = ["s%d_sec_forces" % k for k in range(len(sizes))]
        o, J, _ = core.run_comp(PanelForcesSurf(surfaces=surfs), {"panel_forces": pf}, outputs=names)
        D = DJ().inp("pf", pf, "panel_forces")
        parts = []; off = 0
        for (nx, ny) in sizes:
            parts.append("T3 %s %s 3 (panel_forces_surf %s %s {pf})" % (nat(nx - 1), nat(ny - 1), nat(off), nat(ny - 1))); off += (nx - 1) * (ny - 1)
        out = "(" + " ++ ".join(parts) + ")"
        je, jl = D.jac_errs(out, J, names)
        code = np.concatenate([np.asarray(o[k]).ravel() for k in names])
        cid = cc.add("(re (%s) %s :: %s)" % (D.vals(out), arr(code), je))
        meta.append((cid, S["PanelForcesSurf"], ["sec_forces"] + jl, {"comp": "PanelForcesSurf", "sizes": list(sizes)}))
    res, errs = cc.run(shard=2)
    for cid, Sx, labels, desc in meta:
        judge(Sx, res.get(cid), labels, desc, tol=1e-8)
    S["SparWithinWing"]["coq_errors"] = errs


def aero_surface_(rng, nx, ny, name):
    from .. import aero as A
    return A.aero_surface(gen.rand_mesh(rng, nx, ny, "left"), name, True)
