"""Correspondence streams for Model/Mphys.v (DemuxSurfaceMesh, MuxSurfaceForces incl. matrix-free products in both modes)."""
import numpy as np
from .. import core, gen
from ..core import fl, arr, nat, boolc, CoqCases, judge

IMPORTS = "Mphys"


def stream_mux_demux(R, tier, seed):
    from mphys.core import MPhysVariables as MV
    from openaerostruct.mphys.demux_surface_mesh import DemuxSurfaceMesh
    from openaerostruct.mphys.mux_surface_forces import MuxSurfaceForces
    S1 = R.stream("DemuxSurfaceMesh"); S2 = R.stream("MuxSurfaceForces")
    cc = CoqCases("mphys", IMPORTS); meta = []
    rng = gen.stable_rng(seed, "mphys")
    X_NAME = MV.Aerodynamics.Surface.COORDINATES; L_NAME = MV.Aerodynamics.Surface.LOADS
    for ns in (1, 2, 3):
        for rep in range(1 if tier == "quick" else 3):
            surfs = []
            for si in range(ns):
                nx, ny = [(2, 2), (2, 3), (3, 2), (3, 4)][int(rng.integers(0, 4))]
                surfs.append({"name": "s%d" % si, "mesh": np.zeros((nx, ny, 3))})
            sizes = [s["mesh"].size for s in surfs]; N = sum(sizes)
            szl = "[" + "; ".join(nat(z) for z in sizes) + "]"
            x = rng.normal(size=N)
            for mode in ("fwd", "rev"):
                o, J, _ = core.run_comp(DemuxSurfaceMesh(surfaces=surfs), {X_NAME: x}, mode=mode)
                es = []; labels = []
                for si, s in enumerate(surfs):
                    es.append("re (t1 %s (demux %s (a1 %s) %s)) %s" % (nat(sizes[si]), szl, arr(x), nat(si), arr(o["s%d_def_mesh" % si])))
                    es.append("re (t2 %s %s (fun k p => if (p =? src_index %s %s k)%%nat then 1 else 0)) %s" % (nat(sizes[si]), nat(N), szl, nat(si), arr(J[("s%d_def_mesh" % si, X_NAME)])))
                    labels += ["def_mesh_%d" % si, "J_%d_%s" % (si, mode)]
                cid = cc.add("[" + "; ".join(es) + "]"); meta.append((cid, S1, labels, {"comp": "DemuxSurfaceMesh", "sizes": sizes, "mode": mode}))
                blocks = [rng.normal(size=s["mesh"].shape) for s in surfs]
                o, J, _ = core.run_comp(MuxSurfaceForces(surfaces=surfs), {"s%d_mesh_point_forces" % i: b for i, b in enumerate(blocks)}, mode=mode)
                bl = "(fun s => match s with " + " | ".join("%d%%nat => a1 %s" % (i, arr(b)) for i, b in enumerate(blocks)) + " | _ => (fun _ => 0) end)"
                es = ["re (t1 %s (mux %s %s)) %s" % (nat(N), szl, bl, arr(o[L_NAME]))]; labels = ["loads"]
                for si in range(ns):
                    es.append("re (t2 %s %s (fun p k => if (p =? src_index %s %s k)%%nat then 1 else 0)) %s" % (nat(N), nat(sizes[si]), szl, nat(si), arr(J[(L_NAME, "s%d_mesh_point_forces" % si)])))
                    labels.append("J_%d_%s" % (si, mode))
                cid = cc.add("[" + "; ".join(es) + "]"); meta.append((cid, S2, labels, {"comp": "MuxSurfaceForces", "sizes": sizes, "mode": mode}))
            R.count("mphys/ns=%d" % ns); R.mark("mphys", ns, rep)
    R.sample({"component": "Mux/Demux", "example": meta[0][3]})
    res, errs = cc.run()
    for cid, S, labels, desc in meta:
        judge(S, res.get(cid), labels, desc)
    S1["coq_errors"] = errs
