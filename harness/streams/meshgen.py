"""Correspondence streams for Model/MeshGen.v (mesh generators: plain functions, no OpenMDAO)."""
import warnings
import numpy as np
from .. import core, gen
from ..core import fl, arr, nat, boolc, CoqCases, judge

IMPORTS = "MeshGen"


def stream_rect(R, tier, seed):
    from openaerostruct.geometry.utils import generate_mesh, getFullMesh, add_chordwise_panels
    S1 = R.stream("generate_mesh(rect)"); S2 = R.stream("getFullMesh"); S3 = R.stream("add_chordwise_panels")
    cc = CoqCases("meshgen", IMPORTS); meta = []
    rng = gen.stable_rng(seed, "meshgen")
    nxs = (2, 3, 5) if tier == "quick" else (2, 3, 4, 5, 7)
    nys = (3, 5, 7) if tier == "quick" else (3, 5, 7, 9, 13, 21)
    for num_x in nxs:
        for num_y in nys:
            for scs in (0.0, 1.0, 2.0, float(rng.uniform(0, 1))):
                ccs = float(rng.choice([0.0, 1.0, rng.uniform(0, 1)]))
                span = float(rng.uniform(2, 30)); chord = float(rng.uniform(0.3, 4)); off = rng.normal(size=3) * float(rng.choice([0.0, 3.0]))
                h = (num_y + 1) // 2 - 1
                for sym in (False, True):
                    with warnings.catch_warnings():
                        warnings.simplefilter("ignore")
                        m = generate_mesh({"num_x": num_x, "num_y": num_y, "wing_type": "rect", "symmetry": sym, "span": span, "root_chord": chord,
                                           "span_cos_spacing": scs, "chord_cos_spacing": ccs, "offset": off})
                    ny_out = m.shape[1]
                    e = "re (t3 %s %s 3 (with_offset (a1 %s) (rect_mesh %s %s %s %s %s %s))) %s" % (
                        nat(num_x), nat(ny_out), arr(off), nat(num_x), nat(h), fl(span), fl(chord), fl(scs), fl(ccs), arr(m))
                    shape_ok = fl(0.0 if m.shape == (num_x, (h + 1) if sym else num_y, 3) else 1.0)
                    cid = cc.add("[%s; %s]" % (e, shape_ok))
                    meta.append((cid, S1, ["mesh", "shape"], {"fn": "generate_mesh", "num_x": num_x, "num_y": num_y, "symmetry": sym, "span_cos_spacing": scs, "chord_cos_spacing": ccs}))
                    if sym:
                        full = getFullMesh(left_mesh=m)
                        e = "re (t3 %s %s 3 (full_from_left %s (a3 %s 3 %s))) %s" % (nat(num_x), nat(2 * ny_out - 1), nat(ny_out - 1), nat(ny_out), arr(m), arr(full))
                        right = m[:, ::-1].copy(); right[:, :, 1] *= -1
                        full2 = getFullMesh(right_mesh=right)
                        e2 = "re (t3 %s %s 3 (full_from_right %s (a3 %s 3 %s))) %s" % (nat(num_x), nat(2 * ny_out - 1), nat(ny_out - 1), nat(ny_out), arr(right), arr(full2))
                        cid = cc.add("[%s; %s]" % (e, e2)); meta.append((cid, S2, ["from_left", "from_right"], {"fn": "getFullMesh", "num_x": num_x, "ny_half": ny_out}))
                R.count("rect/scs=%s" % ("2.0" if scs == 2.0 else ("0" if scs == 0 else ("1" if scs == 1 else "blend")))); R.mark("rect", num_x, num_y, scs)
            le = rng.normal(size=(num_y, 3)); te = le + [rng.uniform(0.5, 2), 0, 0]
            two = np.stack([le, te])
            nx_new = int(rng.integers(3, 7)); ccs = float(rng.uniform(0, 1))
            out = add_chordwise_panels(two, nx_new, ccs)
            e = "re (t3 %s %s 3 (add_chordwise %s %s (a2 3 %s) (a2 3 %s))) %s" % (nat(nx_new), nat(num_y), nat(nx_new), fl(ccs), arr(le), arr(te), arr(out))
            cid = cc.add("[%s]" % e); meta.append((cid, S3, ["mesh"], {"fn": "add_chordwise_panels", "num_x": nx_new, "num_y": num_y}))
    R.sample({"function": "generate_mesh", "example": meta[0][3]})
    res, errs = cc.run(shard=30)
    for cid, S, labels, desc in meta:
        judge(S, res.get(cid), labels, desc)
    S1["coq_errors"] = errs


def stream_sections(R, tier, seed):
    """multi-section generator, symmetric branch: per-section meshes"""
    from openaerostruct.geometry.geometry_mesh_gen import generate_mesh as gen_sections
    S = R.stream("multisection.generate_mesh(symmetric)")
    cc = CoqCases("sections", IMPORTS); meta = []
    rng = gen.stable_rng(seed, "sections")
    for nsec in (1, 2, 3, 4):
        for rep in range(2 if tier == "quick" else 5):
            nx = int(rng.integers(2, 5)); ny = rng.integers(2, 6, nsec)
            taper = rng.uniform(0.4, 1.1, nsec); span = rng.uniform(0.5, 4, nsec); sweep = np.deg2rad(rng.uniform(-10, 30, nsec)); rc = float(rng.uniform(0.5, 3))
            if rep == 0: taper[:] = 1.0; sweep[:] = 0.0
            surface = {"num_sections": nsec, "symmetry": True, "taper": taper, "sweep": sweep, "span": span, "root_chord": rc, "nx": nx, "ny": ny}
            mesh, secs = gen_sections(surface)
            # model: sections generated from the root (last) outwards
            edge = "(root_edge %s)" % fl(rc)
            es = []; labels = []
            for sec in range(nsec - 1, -1, -1):
                s = "(@mkSec float %s %s %s)" % (fl(taper[sec]), fl(span[sec]), fl(sweep[sec]))
                nys = int(ny[sec])
                # output_oas_mesh reverses the chordwise index
                es.append("re (t2 %s %s (fun i j => sec_x %s %s %s (%s - 1 - i) (sec_y %s %s %s j))) %s" % (
                    nat(nx), nat(nys), nat(nx), edge, s, nat(nx), edge, s, nat(nys), arr(secs[sec][:, :, 0])))
                es.append("re (t1 %s (sec_y %s %s %s)) %s" % (nat(nys), edge, s, nat(nys), arr(secs[sec][0, :, 1])))
                labels += ["x_sec%d" % sec, "y_sec%d" % sec]
                edge = "(next_edge %s %s %s)" % (nat(nx), edge, s)
            cid = cc.add("[" + "; ".join(es) + "]")
            meta.append((cid, labels, {"fn": "multisection generate_mesh", "sections": nsec, "nx": nx, "ny": ny.tolist(), "taper": taper.tolist(), "sweep_rad": sweep.tolist()}))
            R.count("sections/n=%d" % nsec); R.mark("sec", nsec, rep)
    res, errs = cc.run(shard=8)
    for cid, labels, desc in meta:
        judge(S, res.get(cid), labels, desc)
    S["coq_errors"] = errs


def stream_sections_asymmetric(R, tier, seed):
    """multi-section generator, asymmetric branch (sections on both sides of a named root section), as repaired by 6265a26"""
    from openaerostruct.geometry.geometry_mesh_gen import generate_mesh as gen_sections
    S = R.stream("multisection.generate_mesh(asymmetric)")
    cc = CoqCases("sections_asym", IMPORTS); meta = []
    rng = gen.stable_rng(seed, "sections_asym")
    for nsec in (2, 3, 4):
        for root in range(nsec):
            for rep in range(1 if tier == "quick" else 3):
                nx = int(rng.integers(2, 5)); ny = rng.integers(2, 6, nsec)
                taper = rng.uniform(0.4, 1.0, nsec); span = rng.uniform(0.5, 4, nsec); sweep = np.deg2rad(rng.uniform(-10, 30, nsec)); rc = float(rng.uniform(0.5, 3))
                surface = {"num_sections": nsec, "symmetry": False, "root_section": root, "taper": taper, "sweep": sweep, "span": span, "root_chord": rc, "nx": nx, "ny": ny}
                try:
                    mesh, secs = gen_sections(surface)
                except Exception as e:
                    S["cases"] += 1; S["failures"].append({"case": {"sections": nsec, "root_section": root}, "bad": [("exception", "%s: %s" % (type(e).__name__, e))]}); continue
                es = []; labels = []
                edge = "(root_edge %s)" % fl(rc)
                for sec in range(root, -1, -1):
                    s_ = "(@mkSec float %s %s %s)" % (fl(taper[sec]), fl(span[sec]), fl(sweep[sec])); nys = int(ny[sec])
                    es.append("re (t2 %s %s (fun i j => sec_x %s %s %s (%s - 1 - i) (sec_y %s %s %s j))) %s" % (nat(nx), nat(nys), nat(nx), edge, s_, nat(nx), edge, s_, nat(nys), arr(secs[sec][:, :, 0])))
                    es.append("re (t1 %s (sec_y %s %s %s)) %s" % (nat(nys), edge, s_, nat(nys), arr(secs[sec][0, :, 1])))
                    labels += ["x_sec%d" % sec, "y_sec%d" % sec]
                    edge = "(next_edge %s %s %s)" % (nat(nx), edge, s_)
                edge = "(root_right_edge %s)" % fl(rc)
                for sec in range(root + 1, nsec):
                    s_ = "(@mkSec float %s %s %s)" % (fl(taper[sec]), fl(span[sec]), fl(sweep[sec])); nys = int(ny[sec])
                    es.append("re (t2 %s %s (fun i j => sec_x_right %s %s %s (%s - 1 - i) (sec_y_right %s %s %s j))) %s" % (nat(nx), nat(nys), nat(nx), edge, s_, nat(nx), edge, s_, nat(nys), arr(secs[sec][:, :, 0])))
                    es.append("re (t1 %s (sec_y_right %s %s %s)) %s" % (nat(nys), edge, s_, nat(nys), arr(secs[sec][0, :, 1])))
                    labels += ["x_sec%d(right)" % sec, "y_sec%d(right)" % sec]
                    edge = "(next_edge_right %s %s %s)" % (nat(nx), edge, s_)
                cid = cc.add("[" + "; ".join(es) + "]")
                meta.append((cid, labels, {"fn": "multisection generate_mesh (asymmetric)", "sections": nsec, "root_section": root, "nx": nx, "ny": ny.tolist(), "taper": taper.tolist(), "sweep_rad": sweep.tolist(), "span": span.tolist()}))
                R.count("sections_asym/n=%d/root=%d" % (nsec, root)); R.mark("seca", nsec, root, rep)
    res, errs = cc.run(shard=8)
    for cid, labels, desc in meta:
        judge(S, res.get(cid), labels, desc)
    S["coq_errors"] = errs
