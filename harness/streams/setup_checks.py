"""C20 correspondence: a structured enumeration of malformed and well-formed variants of the documented dictionaries is
run through the implementation (generate_mesh, Problem.setup of the public groups, build_sections); the exception class
and the ordered list of warnings are compared with Model/Setup.v evaluated inside Coq."""
import warnings
import numpy as np
import openmdao.api as om
from .. import core, gen
from ..core import CoqCases, judge

IMPORTS = "Setup SetupKeys"
CODES = {None: 0, "ValueError": 1, "NameError": 2, "Exception": 3}


def cs(s):
    return '"%s"%%string' % s


def clist(xs):
    return "[" + "; ".join(xs) + "]"


def observe(fn):
    """-> (exception class name or None, [warning messages in order])"""
    with warnings.catch_warnings(record=True) as w:
        warnings.simplefilter("always")
        try:
            fn(); exc = None
        except (ValueError, NameError) as e:
            exc = type(e).__name__
        except Exception as e:     # noqa
            exc = "Exception" if type(e) is Exception else "other:" + type(e).__name__ + ":" + str(e)[:80]
    return exc, [str(x.message) for x in w if issubclass(x.category, RuntimeWarning)]


def parse_warnings(msgs):
    out = []
    for m in msgs:
        if m.startswith("Key `") and "mesh_dict is not implemented" in m:
            out.append("KeyNotImplemented " + cs(m.split("`")[1]))
        elif m.startswith("Missing `"):
            out.append("KeyMissing " + cs(m.split("`")[1]))
        elif m.startswith("`span` and `root_chord`"):
            out.append("CRMIgnoresSpanChord")
        elif m.startswith("Key `") and "surface dict" in m:
            out.append("SurfaceKeyNotSupported " + cs(m.split("`")[1]))
        else:
            out.append("KeyNotImplemented " + cs("<unparsed: %s>" % m[:40].replace('"', "'")))
    return out


def stream_generate_mesh(R, tier, seed):
    from openaerostruct.geometry.utils import generate_mesh
    S = R.stream("generate_mesh.checks")
    cc = CoqCases("setup_gm", IMPORTS); meta = []
    base = {"num_x": 2, "num_y": 5, "wing_type": "rect", "symmetry": True}
    variants = []
    for num_y in (5, 4, 7, 2, 3, 6):
        for wt in ("rect", "CRM", "CRM:alpha_2.75", "uCRM_based", "crm", "elliptic", "", "rectangular", "Rect"):
            variants.append(dict(base, num_y=num_y, wing_type=wt))
            # the parity check does not depend on the symmetry flag (a seeded change that applied it only to symmetric
            # requests was missed while every variant had symmetry True)
            variants.append(dict(base, num_y=num_y, wing_type=wt, symmetry=False))
    for missing in ("num_x", "num_y", "wing_type", "symmetry"):
        d = dict(base); del d[missing]; variants.append(d)
        d2 = dict(base, wing_type="CRM"); d2.pop(missing, None); variants.append(d2)
    for extra in ({"span": 12.0}, {"root_chord": 2.0}, {"span": 12.0, "root_chord": 2.0}, {"num_twist_cp": 3}, {"offset": np.zeros(3)}, {"span_cos_spacing": 0.5, "chord_cos_spacing": 1.0}):
        for wt in ("rect", "CRM", "CRM:alpha_2.75"):
            variants.append(dict(base, wing_type=wt, **extra))
    for typo in ("num_Y", "wingtype", "sym", "taper", "sweep", "mesh", "numy", "Span"):
        variants.append(dict(base, **{typo: 3}))
        variants.append(dict({typo: 3}, **base))
        d = dict(base); d.pop("num_y"); d[typo] = 4; variants.append(d)
    variants.append({}); variants.append({"wing_type": "CRM"}); variants.append({"num_y": 6}); variants.append({"foo": 1, "bar": 2, "num_y": 8, "wing_type": "oval"})
    dflt = {"num_x": 3, "num_y": 5, "wing_type": "rect", "symmetry": True}     # get_default_geo_dict values that the checks look at
    for d in variants:
        exc, msgs = observe(lambda: generate_mesh(dict(d)))
        num_y = d.get("num_y", dflt["num_y"]); wt = d.get("wing_type", dflt["wing_type"])
        keys = clist(cs(k) for k in d.keys())
        e = "[if agree (gm_outcome (%d)%%Z %s) (gm_warnings %s %s) %d%%nat %s then 0 else 1]" % (num_y, cs(wt), keys, cs(wt), CODES.get(exc, 9), clist(parse_warnings(msgs)))
        meta.append((cc.add(e), {"call": "generate_mesh", "dict": {k: (v.tolist() if hasattr(v, "tolist") else v) for k, v in d.items()}, "implementation": [exc, msgs]}))
        R.count("generate_mesh/%s" % (exc or "accepted")); R.mark("gm", repr(sorted(d.items(), key=lambda kv: kv[0])) if False else len(meta))
    res, errs = cc.run(shard=60)
    for cid, desc in meta:
        judge(S, res.get(cid), ["model-vs-implementation"], desc, tol=0.5)
    S["coq_errors"] = errs


def _mesh():
    return gen.rand_mesh(gen.stable_rng(0, "setupmesh"), 2, 3, "left")


def stream_group_setup(R, tier, seed):
    from openaerostruct.geometry.geometry_group import Geometry, build_sections
    from openaerostruct.aerodynamics.aero_groups import AeroPoint
    from openaerostruct.structures.struct_groups import SpatialBeamAlone
    from openaerostruct.integration.aerostruct_groups import AerostructGeometry, AerostructPoint
    from openaerostruct.geometry.geometry_mesh_gen import generate_mesh as gen_sections
    S1 = R.stream("surface-dict-keys.warnings"); S2 = R.stream("VortexMesh.ground-effect-check"); S3 = R.stream("structural-model.checks"); S4 = R.stream("multi-section.checks")
    cc = CoqCases("setup_groups", IMPORTS); meta = []

    def setup_of(group):
        def f():
            p = om.Problem(reports=False); p.model.add_subsystem("g", group()); p.setup()
        return f
    # --- unknown / documented surface keys (Geometry and AerostructGeometry call the key check)
    for extra in ({}, {"twist": np.zeros(2)}, {"Twist_cp": np.zeros(2)}, {"thickness": 0.1, "radius": 1.0}, {"with_Viscous": True}, {"k_lam": 0.05, "c_max_t": 0.3}, {"foo": 1, "bar": 2},
                  {"struct_weight_relief": False, "distributed_fuel_weight": False, "exact_failure_constraint": False}, {"num_x": 2, "num_y": 5}):
        for which in ("Geometry", "AerostructGeometry"):
            s = gen.tube_surface(_mesh())
            s.update(extra)
            exc, msgs = observe(setup_of(lambda: (Geometry(surface=s) if which == "Geometry" else AerostructGeometry(surface=s))))
            ks = clist(cs(k) for k in s.keys())
            # AerostructGeometry validates the dictionary itself and again through the Geometry group it contains
            model_w = "(surface_warnings %s)" % ks if which == "Geometry" else "(surface_warnings %s ++ surface_warnings %s)" % (ks, ks)
            e = "[if agree Accepted %s %d%%nat %s then 0 else 1]" % (model_w, CODES.get(exc, 9), clist(parse_warnings(msgs)))
            meta.append((cc.add(e), S1, {"group": which, "extra_keys": sorted(extra), "implementation": [exc, msgs]}))
            R.count("surface-keys/%s" % which)
    # --- ground effect x symmetry over one and two surfaces
    for combo in ([(True, True)], [(True, False)], [(False, True)], [(False, False)], [(True, True), (False, False)], [(True, False), (False, True)], [(False, True), (True, True)], [(True, True), (True, True)]):
        surfs = []
        for i, (sym, ground) in enumerate(combo):
            m = gen.rand_mesh(gen.stable_rng(i, "gs"), 2, 3, "left" if sym else "full")
            sd = {"name": "s%d" % i, "mesh": m, "symmetry": sym, "S_ref_type": "wetted", "CL0": 0.0, "CD0": 0.0, "k_lam": 0.05, "t_over_c_cp": np.array([0.12]), "c_max_t": 0.3, "with_viscous": False, "with_wave": False}
            if ground: sd["groundplane"] = True
            surfs.append(sd)
        exc, msgs = observe(setup_of(lambda: AeroPoint(surfaces=surfs)))
        e = "[if agree (vortex_mesh_outcome %s) [] %d%%nat [] then 0 else 1]" % (clist("(%s, %s)" % (core.boolc(a), core.boolc(b)) for a, b in combo), CODES.get(exc, 9))
        meta.append((cc.add(e), S2, {"surfaces (symmetry, groundplane)": combo, "implementation": [exc, msgs]}))
        R.count("ground/%s" % (exc or "accepted"))
    # --- structural model type and thickness distributions
    for fem in ("tube", "wingbox", "Tube", "beam", "", "wing_box"):
        for skin, spar in ((True, True), (True, False), (False, True), (False, False)):
            for which in ("SpatialBeamAlone", "AerostructGeometry"):
                s = gen.wingbox_surface(_mesh()) if fem == "wingbox" else gen.tube_surface(_mesh())
                s["fem_model_type"] = fem
                for k in ("skin_thickness_cp", "spar_thickness_cp"): s.pop(k, None)
                if skin: s["skin_thickness_cp"] = np.array([0.01, 0.02])
                if spar: s["spar_thickness_cp"] = np.array([0.005, 0.01])
                exc, msgs = observe(setup_of(lambda: (SpatialBeamAlone(surface=s) if which == "SpatialBeamAlone" else AerostructGeometry(surface=s))))
                e = "[if Nat.eqb (exn_code (struct_outcome %s %s %s)) %d%%nat then 0 else 1]" % (cs(fem), core.boolc(skin), core.boolc(spar), CODES.get(exc, 9))
                meta.append((cc.add(e), S3, {"group": which, "fem_model_type": fem, "skin_thickness_cp": skin, "spar_thickness_cp": spar, "implementation": [exc, msgs[:2]]}))
                R.count("struct/%s" % (exc or "accepted"))
        # the point group: with wing-box section data in the dictionary an unknown type reaches the NameError; with a tube-style
        # dictionary the load transfer's non-tube branch fails earlier on the missing section data (KeyError) - also loud
        s = gen.tube_surface(_mesh()) if fem == "tube" else gen.wingbox_surface(_mesh())
        s = dict(s); s["fem_model_type"] = fem
        exc, msgs = observe(setup_of(lambda: AerostructPoint(surfaces=[s])))
        e = "[if Nat.eqb (exn_code (perf_outcome %s)) %d%%nat then 0 else 1]" % (cs(fem), CODES.get(exc, 9))
        meta.append((cc.add(e), S3, {"group": "AerostructPoint (dictionary with wing-box section data)", "fem_model_type": fem, "implementation": [exc]}))
        if fem not in ("tube", "wingbox"):
            s = dict(gen.tube_surface(_mesh())); s["fem_model_type"] = fem
            exc, msgs = observe(setup_of(lambda: AerostructPoint(surfaces=[s])))
            e = "[if Nat.eqb (exn_code (perf_outcome %s)) 0%%nat then 1 else %d]" % (cs(fem), 0 if exc is not None else 1)
            meta.append((cc.add(e), S3, {"group": "AerostructPoint (tube-style dictionary): any exception", "fem_model_type": fem, "implementation": [exc]}))
    # --- multi-section surface lists
    rng = gen.stable_rng(seed, "sections")
    for n in (1, 2, 3):
        full = {"ny": [3] * n, "taper": [1.0] * n, "span": [1.0] * n, "sweep": [0.0] * n, "sec_name": ["s%d" % i for i in range(n)]}
        variants = [dict(full)]
        for k in full:
            for delta in (-1, 1):
                v = dict(full); v[k] = (full[k] + full[k][:1])[: n + delta] if n + delta >= 0 else []
                variants.append(v)
        for v in variants:
            surf = {"name": "ms", "is_multi_section": True, "num_sections": n, "symmetry": True, "S_ref_type": "wetted", "root_chord": 1.0, "nx": 2, "meshes": "gen-meshes",
                    "ny": np.array(v["ny"], dtype=int), "taper": np.array(v["taper"]), "span": np.array(v["span"]), "sweep": np.array(v["sweep"]), "sec_name": v["sec_name"]}
            exc, msgs = observe(lambda: build_sections(surf))
            e = "[if Nat.eqb (exn_code (sections_outcome %d%%nat true %d%%nat %d%%nat %d%%nat %d%%nat 0%%nat %d%%nat)) %d%%nat then 0 else 1]" % (
                n, len(v["ny"]), len(v["taper"]), len(v["span"]), len(v["sweep"]), len(v["sec_name"]), CODES.get(exc, 9))
            meta.append((cc.add(e), S4, {"call": "build_sections(gen-meshes)", "num_sections": n, "lengths": {k: len(x) for k, x in v.items()}, "implementation": [exc]}))
        for nm, nn in ((n, n), (n + 1, n), (max(n - 1, 0), n), (n, n + 1)):
            meshes = [gen.rand_mesh(rng, 2, 3, "left") for _ in range(nm)]
            surf = {"name": "ms", "is_multi_section": True, "num_sections": n, "symmetry": True, "S_ref_type": "wetted", "meshes": meshes, "sec_name": ["s%d" % i for i in range(nn)]}
            exc, msgs = observe(lambda: build_sections(surf))
            e = "[if Nat.eqb (exn_code (sections_outcome %d%%nat false 0%%nat 0%%nat 0%%nat 0%%nat %d%%nat %d%%nat)) %d%%nat then 0 else 1]" % (n, nm, nn, CODES.get(exc, 9))
            meta.append((cc.add(e), S4, {"call": "build_sections(user meshes)", "num_sections": n, "meshes": nm, "names": nn, "implementation": [exc]}))
        for sym in (True, False):
            for has_root in (True, False):
                surf = {"num_sections": n, "symmetry": sym, "taper": np.ones(n), "sweep": np.zeros(n), "span": np.ones(n), "root_chord": 1.0, "nx": 2, "ny": np.array([3] * n)}
                if has_root: surf["root_section"] = 0
                exc, msgs = observe(lambda: gen_sections(surf))
                if exc is not None and exc.startswith("other:TypeError") and not sym:
                    exc = None      # the asymmetric generator's own defect (finding F08 of C14) happens after the check
                e = "[if Nat.eqb (exn_code (root_section_outcome %s %d%%nat %s)) %d%%nat then 0 else 1]" % (core.boolc(sym), n, core.boolc(has_root), CODES.get(exc, 9))
                meta.append((cc.add(e), S4, {"call": "geometry_mesh_gen.generate_mesh", "num_sections": n, "symmetry": sym, "root_section given": has_root, "implementation": [exc]}))
    res, errs = cc.run(shard=80)
    for cid, S, desc in meta:
        judge(S, res.get(cid), ["model-vs-implementation"], desc, tol=0.5)
    S1["coq_errors"] = errs
