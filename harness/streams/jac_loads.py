"""C01 correspondence for Model/Loads.v: reported Jacobians vs the dual-number evaluation of the model."""
import numpy as np
from .. import core, gen
from ..core import fl, arr, nat, boolc, CoqCases, judge
from ..dualj import DJ
from .loads import _setup
from .jac_stress import finish, JTOL

IMPORTS = "Loads Constants"
G = "(pd0 (@gen_grav_constant float Fops))"
KEY_F09 = "C01:WingboxFuelVolDelta.compute:input-halved-in-place"


def stream_loads_jac(R, tier, seed):
    from openaerostruct.structures.weight import Weight
    from openaerostruct.structures.structural_cg import StructuralCG
    from openaerostruct.structures.wing_weight_loads import StructureWeightLoads
    from openaerostruct.structures.fuel_loads import FuelLoads
    from openaerostruct.structures.fuel_vol import WingboxFuelVol
    from openaerostruct.structures.wingbox_fuel_vol_delta import WingboxFuelVolDelta
    from openaerostruct.structures.compute_point_mass_loads import ComputePointMassLoads
    from openaerostruct.structures.compute_thrust_loads import ComputeThrustLoads
    from openaerostruct.structures.total_loads import TotalLoads
    names = ("Weight", "StructuralCG", "StructureWeightLoads", "FuelLoads", "WingboxFuelVol", "WingboxFuelVolDelta", "ComputePointMassLoads", "ComputeThrustLoads", "TotalLoads")
    S = {k: R.stream(k + ".jacobian") for k in names}
    cc = CoqCases("jloads", IMPORTS); meta = []
    rng = gen.stable_rng(seed, "jloads")
    nys = (2, 3) if tier == "quick" else (2, 3, 4, 5)
    for kind in ("left", "right", "full"):
        for ny in nys:
            if kind == "full" and ny % 2 == 0: continue
            mesh, nodes = _setup(rng, ny, kind)
            sym = kind != "full"; ne = ny - 1
            desc = {"kind": kind, "ny": ny}
            base = lambda: DJ().lit("ne", nat(ne)).lit("ny", nat(ny)).lit("sym", boolc(sym))
            surf = gen.tube_surface(mesh, symmetry=sym, mrho=float(rng.uniform(1e3, 8e3)), wing_weight_ratio=float(rng.choice([1.0, 2.0, 1.25])))
            A = rng.uniform(1e-3, 5e-2, ne)
            o, J, _ = core.run_comp(Weight(surface=surf), {"A": A, "nodes": nodes})
            D = base().par("mrho", surf["mrho"]).par("wwr", surf["wing_weight_ratio"]).inp("A", A).inp("nodes", nodes)
            je, jl = D.jac_errs("T1 {ne} (element_mass {nodes} {mrho} {wwr} {A}) ++ [structural_mass {nodes} {ne} {sym} {mrho} {wwr} {A}]", J, ["element_mass", "structural_mass"])
            meta.append((cc.add(je), S["Weight"], jl, dict(desc, comp="Weight", A=A.tolist(), nodes=nodes.tolist())))
            em = rng.uniform(1, 50, ne); M2 = float(rng.uniform(100, 500))
            o, J, _ = core.run_comp(StructuralCG(surface=surf), {"nodes": nodes, "structural_mass": M2, "element_mass": em})
            D = base().inp("nodes", nodes).scal("M", M2, "structural_mass").inp("em", em, "element_mass")
            je, jl = D.jac_errs("T1 3 (cg_location {nodes} {ne} {sym} {M} {em})", J, ["cg_location"])
            meta.append((cc.add(je), S["StructuralCG"], jl, dict(desc, comp="StructuralCG")))
            wsurf = gen.wingbox_surface(mesh, symmetry=sym, Wf_reserve=float(rng.choice([15000.0, 0.0, 500.0])))
            lf = float(rng.choice([1.0, 2.5, -1.0]))
            ins = {"element_mass": em, "nodes": nodes, "load_factor": lf}
            o, J, _ = core.run_comp(StructureWeightLoads(surface=wsurf), ins, outputs=["struct_weight_loads"])
            D = base().inp("em", em, "element_mass").inp("nodes", nodes).scal("lf", lf, "load_factor")
            je, jl = D.jac_errs("T2 {ny} 6 (struct_weight_loads {nodes} {ne} %s {lf} {em})" % G, J, ["struct_weight_loads"])
            meta.append((cc.add(je), S["StructureWeightLoads"], jl, dict(desc, comp="StructureWeightLoads", inputs=core.jsonable(ins))))
            vols = rng.uniform(0.05, 2.0, ne); fm = float(rng.uniform(1e3, 1e5))
            ins = {"fuel_vols": vols, "nodes": nodes, "fuel_mass": fm, "load_factor": lf}
            o, J, _ = core.run_comp(FuelLoads(surface=wsurf), ins)
            D = base().inp("vols", vols, "fuel_vols").inp("nodes", nodes).scal("fm", fm, "fuel_mass").scal("lf", lf, "load_factor").par("rs", wsurf["Wf_reserve"])
            je, jl = D.jac_errs("T2 {ny} 6 (fuel_weight_loads {nodes} {ne} {sym} %s {lf} {fm} {rs} {vols})" % G, J, ["fuel_weight_loads"])
            meta.append((cc.add(je), S["FuelLoads"], jl, dict(desc, comp="FuelLoads", inputs=core.jsonable(ins))))
            A_int = rng.uniform(0.01, 0.5, ne)
            o, J, _ = core.run_comp(WingboxFuelVol(surface=wsurf), {"nodes": nodes, "A_int": A_int})
            D = base().inp("nodes", nodes).inp("A", A_int, "A_int")
            je, jl = D.jac_errs("T1 {ne} (fuel_vols {nodes} {A})", J, ["fuel_vols"])
            meta.append((cc.add(je), S["WingboxFuelVol"], jl, dict(desc, comp="WingboxFuelVol")))
            fb = float(rng.uniform(1e3, 1e5))
            o, J, _ = core.run_comp(WingboxFuelVolDelta(surface=wsurf), {"fuelburn": fb, "fuel_vols": vols})
            D = base().scal("fb", fb, "fuelburn").inp("vols", vols, "fuel_vols").par("rs", wsurf["Wf_reserve"]).par("dens", wsurf["fuel_density"])
            je, jl = D.jac_errs("[fuel_vol_delta {ne} {sym} {fb} {rs} {dens} {vols}]", J, ["fuel_vol_delta"])
            meta.append((cc.add(je), S["WingboxFuelVolDelta"], jl, dict(desc, comp="WingboxFuelVolDelta", fuelburn=fb, fuel_vols=vols.tolist(), reported=np.asarray(J[("fuel_vol_delta", "fuel_vols")]).ravel().tolist())))
            npm = int(rng.integers(1, 3))
            psurf = gen.tube_surface(mesh, symmetry=sym, n_point_masses=npm)
            locs = np.zeros((npm, 3))
            for k in range(npm):
                j = int(rng.integers(0, ny))
                locs[k] = nodes[j] + np.array([rng.uniform(-1, 1), rng.uniform(0.05, 0.4) * rng.choice([-1, 1]), rng.uniform(-0.5, 0.5)])
            masses = rng.uniform(100, 5e3, npm); thrusts = rng.uniform(1e3, 1e5, npm)
            lf2 = float(rng.choice([1.0, 2.5]))
            ins = {"point_mass_locations": locs, "point_masses": masses, "nodes": nodes, "load_factor": lf2}
            o, J, _ = core.run_comp(ComputePointMassLoads(surface=psurf), ins, outputs=["loads_from_point_masses"])
            D = base().lit("npm", nat(npm)).inp("locs", locs, "point_mass_locations").inp("ms", masses, "point_masses").inp("nodes", nodes).scal("lf", lf2, "load_factor")
            je, jl = D.jac_errs("T2 {ny} 6 (loads_from_point_masses {nodes} {ne} {npm} %s {lf} {locs} {ms})" % G, J, ["loads_from_point_masses"])
            meta.append((cc.add(je), S["ComputePointMassLoads"], jl, dict(desc, comp="ComputePointMassLoads", inputs=core.jsonable(ins))))
            ins = {"point_mass_locations": locs, "engine_thrusts": thrusts, "nodes": nodes}
            o, J, _ = core.run_comp(ComputeThrustLoads(surface=psurf), ins, outputs=["loads_from_thrusts"])
            D = base().lit("npm", nat(npm)).inp("locs", locs, "point_mass_locations").inp("th", thrusts, "engine_thrusts").inp("nodes", nodes)
            je, jl = D.jac_errs("T2 {ny} 6 (loads_from_thrusts {nodes} {ne} {npm} {locs} {th})", J, ["loads_from_thrusts"])
            meta.append((cc.add(je), S["ComputeThrustLoads"], jl, dict(desc, comp="ComputeThrustLoads", inputs=core.jsonable(ins))))
            for sw, flw, pm in ((False, False, False), (True, True, True), (True, False, True), (False, True, False)):
                s2 = gen.tube_surface(mesh, symmetry=sym, struct_weight_relief=sw, distributed_fuel_weight=flw)
                if pm: s2["n_point_masses"] = 1
                arrs = {k: rng.normal(size=(ny, 6)) * 1e3 for k in ("loads", "struct_weight_loads", "fuel_weight_loads", "loads_from_point_masses", "loads_from_thrusts")}
                ins = {"loads": arrs["loads"]}
                D = base().lit("sw", boolc(sw)).lit("fl", boolc(flw)).lit("pm", boolc(pm)).inp("loads", arrs["loads"])
                for k, on in (("struct_weight_loads", sw), ("fuel_weight_loads", flw), ("loads_from_point_masses", pm), ("loads_from_thrusts", pm)):
                    if on: ins[k] = arrs[k]; D.inp(k, arrs[k])
                    else: D.par(k, arrs[k])
                o, J, _ = core.run_comp(TotalLoads(surface=s2), ins)
                je, jl = D.jac_errs("T2 {ny} 6 (total_loads {sw} {fl} {pm} {loads} {struct_weight_loads} {fuel_weight_loads} {loads_from_point_masses} {loads_from_thrusts})", J, ["total_loads"])
                meta.append((cc.add(je), S["TotalLoads"], jl, dict(desc, comp="TotalLoads", sw=sw, fuel=flw, pm=pm)))
            R.count("jloads/%s" % kind); R.mark("jl", kind, ny)
    # WingboxFuelVolDelta: the recorded defect (compute halves the input view in place under complex step) shows as
    # a fuel_vols column of 1 + 2^-k instead of 1; anything else is judged normally
    res, errs = cc.run()
    hit = 0
    for cid, St, labels, desc in meta:
        r = res.get(cid)
        if desc["comp"] == "WingboxFuelVolDelta" and r is not None and len(r) == len(labels):
            bad = [l for l, e in zip(labels, r) if not (e <= JTOL)]
            rep = np.array(desc["reported"])
            if bad == ["J:d/dfuel_vols"] and desc["kind"] != "full" and np.all(rep > 1.0) and np.all(rep < 1.001):
                hit += 1; St["cases"] += 1
                St.setdefault("known_mismatch", []).append({"ny": desc["ny"], "reported d/dfuel_vols": rep.tolist()})
                continue
        judge(St, r, labels, desc, tol=JTOL)
    if hit:
        R.known_hits.append(KEY_F09)
    S["Weight"]["coq_errors"] = errs
