"""Correspondence streams for Model/Drag.v (ViscousDrag, WaveDrag, TotalDrag).
The model is a family indexed by two defect switches; the stream determines which member the
current code is (listed member first, repaired member second)."""
import numpy as np
from .. import core, gen
from ..core import fl, arr, nat, boolc, CoqCases, judge

IMPORTS = "Drag"

K_LAMS = [0.0, 0.004, 0.05, 0.5, 0.999, 1.0, 1.0]     # 0.004: a small laminar fraction is not 'no laminar flow'


def _strip(rng, ny):
    lengths = rng.uniform(0.6, 3.0, ny)
    widths = rng.uniform(0.3, 2.0, ny - 1)
    lsp = widths / np.cos(np.deg2rad(rng.uniform(0, 55, ny - 1)))
    toc = rng.uniform(0.04, 0.3, ny - 1)
    return lengths, widths, lsp, toc


def stream_viscous(R, tier, seed, known=None):
    from openaerostruct.aerodynamics.viscous_drag import ViscousDrag
    S = R.stream("ViscousDrag")
    cc = CoqCases("viscous", IMPORTS); meta = []
    rng = gen.stable_rng(seed, "viscous")
    nys = (2, 3, 4, 5) if tier == "quick" else (2, 3, 4, 5, 7, 9, 13)
    for ny in nys:
        for sym in (True, False):
            for k_lam in K_LAMS:
                for wv in ((True,) if k_lam not in (0.05,) else (True, False)):
                    lengths, widths, lsp, toc = _strip(rng, ny)
                    re = float(10 ** rng.uniform(5.5, 7.5)); M = float(rng.uniform(0.1, 0.93)); Sref = float(rng.uniform(5, 200))
                    surf = gen.tube_surface(np.zeros((2, ny, 3)), symmetry=sym, k_lam=k_lam, with_viscous=wv, c_max_t=float(rng.choice([0.303, 0.38])))
                    ins = {"re": re, "Mach_number": M, "S_ref": Sref, "widths": widths, "lengths_spanwise": lsp, "lengths": lengths, "t_over_c": toc}
                    o, J, _ = core.run_comp(ViscousDrag(surface=surf, with_viscous=wv), ins)
                    args = "%s %s %s %s %s %s %s (a1 %s) (a1 %s) (a1 %s) (a1 %s)" % (
                        nat(ny - 1), boolc(sym), fl(k_lam), fl(surf["c_max_t"]), fl(re), fl(M), fl(Sref), arr(widths), arr(lsp), arr(lengths), arr(toc))
                    e = "re [viscous_CDv %s %s] %s" % (args, boolc(wv), arr(o["CDv"]))
                    es = [e]
                    labels = ["CDv"]
                    if wv:
                        jre = J[("CDv", "re")]
                        # both members of the family: [listed defect member; repaired member]; scaled by |dCDv/dre| of the repaired member
                        es.append("abs (viscous_dCDv_dre %s true - %s) / abs (viscous_dCDv_dre %s false)" % (args, fl(jre.ravel()[0]), args))
                        es.append("abs (viscous_dCDv_dre %s false - %s) / abs (viscous_dCDv_dre %s false)" % (args, fl(jre.ravel()[0]), args))
                        labels += ["dre_member_laminar_zero", "dre_member_repaired"]
                    cid = cc.add("[" + "; ".join(es) + "]")
                    meta.append((cid, labels, {"comp": "ViscousDrag", "ny": ny, "sym": sym, "k_lam": k_lam, "with_viscous": wv, "re": re, "M": M}))
                    R.count("viscous/k_lam=%g" % k_lam); R.mark("visc", ny, sym, k_lam, wv)
    R.sample({"component": "ViscousDrag", "k_lam_values": K_LAMS, "example": meta[5][2]})
    res, errs = cc.run()
    member = {"laminar_zero": 0, "repaired": 0, "neither": 0, "both": 0}
    for cid, labels, desc in meta:
        r = res.get(cid)
        if r is None or len(r) != len(labels):
            judge(S, None, labels, desc); continue
        ok_out = judge(S, r[:1], labels[:1], desc)
        if len(r) == 3:
            a, b = r[1] <= 1e-9, r[2] <= 1e-9
            if a and b: member["both"] += 1
            elif a: member["laminar_zero"] += 1
            elif b: member["repaired"] += 1
            else:
                member["neither"] += 1
                S["failures"].append({"case": desc, "bad": [("dCDv/dre matches no member of the model family", [r[1], r[2]])]})
    S["member"] = member
    if member["laminar_zero"] > 0 and member["neither"] == 0:
        # the current code is the member with the listed defect; only k_lam >= 1 cases can tell them apart
        R.known_hits.append("C01:ViscousDrag.compute_partials:dCDv/dre-zero-when-fully-laminar")
    S["coq_errors"] = errs


def stream_wave(R, tier, seed):
    from openaerostruct.aerodynamics.wave_drag import WaveDrag
    from openaerostruct.aerodynamics.total_drag import TotalDrag
    S = R.stream("WaveDrag"); S2 = R.stream("TotalDrag")
    cc = CoqCases("wave", IMPORTS); meta = []
    rng = gen.stable_rng(seed, "wave")
    nys = (2, 3, 4, 5) if tier == "quick" else (2, 3, 4, 5, 7, 9, 13)
    reps = 3 if tier == "quick" else 8
    for ny in nys:
        for sym in (True, False):
            for rep in range(reps):
                for ww in ((True,) if rep else (True, False)):
                    chords, widths, lsp, toc = _strip(rng, ny)
                    toc = toc * 0.5
                    CL = float(rng.uniform(0.0, 1.0))
                    # independent statement of the Korn relation, only used to place M on a chosen side of the onset
                    pa = 0.5 * (chords[:-1] + chords[1:]) * widths
                    ac = float(((widths / lsp) * pa).sum() / pa.sum()); at = float((toc * pa).sum() / pa.sum())
                    mcrit = 0.95 / ac - at / ac ** 2 - CL / (10 * ac ** 3) - (0.1 / 80.0) ** (1.0 / 3.0)
                    M = float(mcrit + rng.uniform(0.01, 0.2)) if rep % 3 != 2 else float(mcrit - rng.uniform(0.01, 0.3))
                    M = min(max(M, 0.05), 0.99)
                    surf = gen.tube_surface(np.zeros((2, ny, 3)), symmetry=sym, with_wave=ww)
                    ins = {"Mach_number": M, "widths": widths, "lengths_spanwise": lsp, "CL": CL, "chords": chords, "t_over_c": toc}
                    o, _, _ = core.run_comp(WaveDrag(surface=surf), ins, want_J=False)
                    args = "%s %s %s %s (a1 %s) (a1 %s) (a1 %s) (a1 %s)" % (nat(ny - 1), boolc(sym), fl(M), fl(CL), arr(widths), arr(lsp), arr(chords), arr(toc))
                    cdw = float(o["CDw"].ravel()[0])
                    # margin: keep M away from Mcrit so that a 1-ulp difference cannot flip the branch
                    es = ["abs (wave_CDw %s true %s - %s)" % (args, boolc(ww), fl(cdw)), "abs (wave_CDw %s false %s - %s)" % (args, boolc(ww), fl(cdw)),
                          "abs (%s - wd_Mcrit %s %s (a1 %s) (a1 %s) (a1 %s) (a1 %s))" % (fl(M), nat(ny - 1), fl(CL), arr(widths), arr(lsp), arr(chords), arr(toc)),
                          "wave_CDw %s false %s" % (args, boolc(ww))]
                    cid = cc.add("[" + "; ".join(es) + "]")
                    meta.append((cid, {"comp": "WaveDrag", "ny": ny, "sym": sym, "with_wave": ww, "M": M, "CL": CL}))
                    R.count("wave/sym=%s" % sym); R.mark("wave", ny, sym, rep, ww)
        CDi, CDv, CDw = rng.uniform(0, 0.05, 3); CD0 = float(rng.choice([0.0, 0.015]))
        surf = gen.tube_surface(np.zeros((2, ny, 3)), CD0=CD0)
        o, J, _ = core.run_comp(TotalDrag(surface=surf), {"CDi": CDi, "CDv": CDv, "CDw": CDw})
        cid = cc.add("[re [total_drag %s %s %s %s] %s; %s]" % (fl(CDi), fl(CDv), fl(CDw), fl(CD0), arr(o["CD"]), fl(max(abs(float(v.ravel()[0]) - 1) for v in J.values()))))
        meta.append((cid, {"comp": "TotalDrag", "ny": ny}))
    res, errs = cc.run()
    member = {"sym_double": 0, "repaired": 0, "both": 0, "neither": 0, "near_onset_skipped": 0}
    for cid, desc in meta:
        r = res.get(cid)
        if desc["comp"] == "TotalDrag":
            judge(S2, r, ["CD", "J_ones"], desc); continue
        S["cases"] += 1
        if r is None or len(r) != 4:
            S["failures"].append({"case": desc, "bad": [("model-evaluation-failed", "inf")]}); continue
        if r[2] < 1e-6:
            member["near_onset_skipped"] += 1; S["ok"] += 1; continue
        tol = 1e-9 * max(r[3], 1e-12) + 1e-300
        a, b = r[0] <= tol, r[1] <= tol
        if a and b: member["both"] += 1; S["ok"] += 1
        elif a: member["sym_double"] += 1; S["ok"] += 1
        elif b: member["repaired"] += 1; S["ok"] += 1
        else:
            member["neither"] += 1
            S["failures"].append({"case": desc, "bad": [("CDw matches no member of the model family", [r[0], r[1], r[3]])]})
    S["member"] = member
    if member["sym_double"] > 0 and member["neither"] == 0 and member["repaired"] == 0:
        R.known_hits.append("C04:WaveDrag.compute:symmetric-coefficient-doubled")
    elif member["sym_double"] > 0 and member["repaired"] > 0:
        S["failures"].append({"case": "family", "bad": [("code matches different members on different cases", member)]})
    S["coq_errors"] = errs
