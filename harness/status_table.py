"""status_table.py — rewrite the per-property table of DESIGN.md section A.1 (between the markers) from evidence/*.json,
so that the numbers quoted there are the ones the last run on the unchanged tree produced."""
import json, os, re
ROOT = os.path.dirname(os.path.dirname(os.path.abspath(__file__)))
KF = {f["key"]: f["id"] for f in json.load(open(os.path.join(ROOT, "KNOWN_FINDINGS.json")))["findings"]}


def main():
    rows = ["| id | theorems | streams (cases) | oracle cases | wall s | printed known findings |",
            "|----|---------:|----------------:|-------------:|-------:|------------------------|"]
    for k in range(1, 21):
        pid = "C%02d" % k
        d = json.load(open(os.path.join(ROOT, "evidence", pid + ".json")))
        c = d["coverage"]
        st = c.get("correspondence_streams", {})
        ncases = sum(v.get("cases", 0) for v in st.values())
        norac = sum(v.get("cases", 0) for v in c.get("oracles", {}).values())
        kf = {}
        for key in c.get("known_findings_observed", []):
            kf[KF.get(key, key)] = kf.get(KF.get(key, key), 0) + 1
        kfs = ", ".join(sorted(i if n == 1 else "%s x%d" % (i, n) for i, n in kf.items()))
        streams = "%d (%d)" % (len(st), ncases)
        if pid == "C03":
            streams = "translator: write programs of all component classes"
        rows.append("| %s | %d | %s | %d | %.0f | %s |" % (pid, len(c.get("theorems", [])), streams, norac, d.get("wall_s", 0), kfs))
    p = os.path.join(ROOT, "DESIGN.md"); s = open(p).read()
    a, b = "<!-- status-table:begin -->", "<!-- status-table:end -->"
    new = a + "\n" + "\n".join(rows) + "\n" + b
    if a in s:
        s = re.sub(re.escape(a) + r".*?" + re.escape(b), lambda m: new, s, flags=re.S)
    else:
        raise SystemExit("markers missing")
    open(p, "w").write(s)
    print("\n".join(rows))


if __name__ == "__main__":
    main()
