"""aero.py — building and running the public aero / aerostructural groups of the implementation."""
import warnings
import numpy as np
import openmdao.api as om
from . import core


def aero_surface(mesh, name="wing", symmetry=True, **kw):
    s = {"name": name, "symmetry": symmetry, "S_ref_type": "wetted", "mesh": mesh,
         "twist_cp": None, "CL0": 0.0, "CD0": 0.0, "k_lam": 0.05, "t_over_c_cp": np.array([0.12]),
         "c_max_t": 0.303, "with_viscous": False, "with_wave": False}
    s.update(kw)
    if s["twist_cp"] is None:
        del s["twist_cp"]
    return s


def build_aero(surfaces, v=248.136, alpha=5.0, beta=0.0, Mach=0.84, re=1.0e6, rho=0.38, cg=(0.0, 0.0, 0.0),
               compressible=False, rotational=False, omega=None, height_agl=8000.0, geom=False, S_ref_total=None, setup_kw=None, height_units="m"):
    """An AeroPoint fed by Geometry groups (geom=True) or directly by def_mesh/t_over_c (geom=False)."""
    from openaerostruct.geometry.geometry_group import Geometry
    from openaerostruct.aerodynamics.aero_groups import AeroPoint
    prob = om.Problem(reports=False)
    ivc = om.IndepVarComp()
    ivc.add_output("v", val=v, units="m/s")
    ivc.add_output("alpha", val=alpha, units="deg")
    ivc.add_output("beta", val=beta, units="deg")
    ivc.add_output("Mach_number", val=Mach)
    ivc.add_output("re", val=re, units="1/m")
    ivc.add_output("rho", val=rho, units="kg/m**3")
    ivc.add_output("cg", val=np.array(cg, dtype=float), units="m")
    if any(s.get("groundplane", False) for s in surfaces):
        ivc.add_output("height_agl", val=height_agl, units=height_units)
    if rotational:
        ivc.add_output("omega", val=np.array(omega if omega is not None else [0.0, 0.0, 0.0]), units="rad/s")
    prob.model.add_subsystem("flow", ivc, promotes=["*"])
    for s in surfaces:
        name = s["name"]
        if geom:
            prob.model.add_subsystem(name, Geometry(surface=s))
        else:
            ny = s["mesh"].shape[1]
            ivc.add_output(name + "_def_mesh", val=np.array(s["mesh"], dtype=float), units="m")
            toc = s.get("t_over_c_cp", np.array([0.12]))
            ivc.add_output(name + "_t_over_c", val=np.ones(ny - 1) * float(np.real(np.asarray(toc).ravel()[0])))
    kw = {}
    if compressible:
        kw["compressible"] = True
    if rotational:
        kw["rotational"] = True
    if S_ref_total is not None:
        kw["user_specified_Sref"] = True
    prob.model.add_subsystem("aero", AeroPoint(surfaces=surfaces, **kw),
                             promotes_inputs=["v", "alpha", "beta", "Mach_number", "re", "rho", "cg"] + (["omega"] if rotational else [])
                             + (["height_agl"] if any(s.get("groundplane", False) for s in surfaces) else []))
    for s in surfaces:
        name = s["name"]
        if geom:
            prob.model.connect(name + ".mesh", "aero." + name + ".def_mesh")
            prob.model.connect(name + ".mesh", "aero.aero_states." + name + "_def_mesh")
            prob.model.connect(name + ".t_over_c", "aero." + name + "_perf.t_over_c")
        else:
            prob.model.connect(name + "_def_mesh", "aero." + name + ".def_mesh")
            prob.model.connect(name + "_def_mesh", "aero.aero_states." + name + "_def_mesh")
            prob.model.connect(name + "_t_over_c", "aero." + name + "_perf.t_over_c")
    if S_ref_total is not None:
        ivc.add_output("S_ref_total", val=S_ref_total, units="m**2")
        prob.model.connect("S_ref_total", "aero.S_ref_total")
    with warnings.catch_warnings():
        warnings.simplefilter("ignore")
        prob.setup(**(setup_kw or {}))
    return prob


def run(prob):
    with warnings.catch_warnings():
        warnings.simplefilter("ignore")
        prob.run_model()
    return prob


def g(prob, name):
    return np.array(prob.get_val(name)).copy()
