from ..streams import aero as aero_streams, stress, jac_wingbox
from ..oracles import c07

MODELS = ["Aero", "Stress", "Wingbox", "Beam", "BeamTables"]
STREAMS = [aero_streams.stream_points_and_mesh, aero_streams.stream_eval_mtx, aero_streams.stream_geometry_and_flow, stress.stream_vonmises, jac_wingbox.stream_wingbox_geometry]
ORACLES = [c07.oracle_aero_mirror, c07.oracle_left_right, c07.oracle_struct_mirror, c07.oracle_wingbox_geometry_mirror, c07.oracle_geometry_full_span, c07.oracle_element_mirror, c07.oracle_inertial_loads_mirror]
UNPROVED = ["structure: the element-level mirror covariance of the stiffness matrix is now proved from the element model (C07_structure_element_matrices_mirror_covariant) and with it the system-level statement without hypothesis (C07_structure_mirrored_beam_gives_mirrored_forces); the oracle element-matrices-mirror still checks it on the implementation; load-source mirror covariance: oracle only",
            "the end-to-end statement 'all circulations / forces / coefficients of the mirrored configuration are the mirrored ones' is assembled from the proved building blocks by the oracle's mirror pairs, not as one theorem",
            "sweep/dihedral/taper/rotate on right-half meshes: refuted on the real code by the oracle (recorded findings); their Gallina models live under C13"]
ASSUMPTIONS = ["five recorded findings: wingbox stress recovery end (F04) and Sweep / Dihedral / Taper / Rotate on right-half meshes (F05-*)"]
