from ..streams import aero as aero_streams, stress, jac_wingbox
from ..oracles import c07

MODELS = ["Aero", "Stress", "Wingbox", "Beam", "BeamTables"]
STREAMS = [aero_streams.stream_points_and_mesh, aero_streams.stream_eval_mtx, aero_streams.stream_geometry_and_flow, stress.stream_vonmises, jac_wingbox.stream_wingbox_geometry]
ORACLES = [c07.oracle_aero_mirror, c07.oracle_left_right, c07.oracle_struct_mirror, c07.oracle_wingbox_geometry_mirror, c07.oracle_geometry_full_span, c07.oracle_element_mirror, c07.oracle_inertial_loads_mirror]
UNPROVED = ["the ELEMENT-level mirror covariance of the stiffness matrix is validated on the implementation (oracle element-matrices-mirror); from it the system-level covariance is proved (C07_structure_assembled_system_mirror_covariant); load-source mirror covariance: oracle only",
            "the end-to-end statement 'all circulations / forces / coefficients of the mirrored configuration are the mirrored ones' is assembled from the proved building blocks by the oracle's mirror pairs, not as one theorem",
            "sweep/dihedral/taper/rotate on right-half meshes: refuted on the real code by the oracle (recorded findings); their Gallina models live under C13"]
ASSUMPTIONS = ["five recorded findings: wingbox stress recovery end (F04) and Sweep / Dihedral / Taper / Rotate on right-half meshes (F05-*)"]
