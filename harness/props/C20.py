from ..streams import setup_checks
from ..oracles import c20

MODELS = ["Setup", "SetupKeys"]
STREAMS = [setup_checks.stream_generate_mesh, setup_checks.stream_group_setup]
ORACLES = [c20.oracle_runtime, c20.oracle_rejections, c20.oracle_multisection_user_meshes]
UNPROVED = ["absence of hidden global state, of NaN / inf outside the sampled configurations and of in-place edits of user data are runtime truths: monitored on every run (five topologies: repeat on the same Problem, independent Problem, interleaved with an unrelated Problem; digests of every array of the user's dictionaries before / after set-up, run and compute_totals), not proved",
            "that the decision logic in the code is the modelled one is tied by the enumeration (245 variants), not by translation; the three key lists the theorems quantify over ARE regenerated from the source"]
ASSUMPTIONS = ["observations recorded in DESIGN.md (not violations): AerostructGeometry emits every unknown-key warning twice; AerostructPoint with an unknown fem_model_type and a tube-style dictionary fails with KeyError('data_y_upper') before reaching its NameError; ground effect combined with compressible=True fails at setup with OpenMDAO's RuntimeError (height_agl not promoted)"]
