from ..oracles import c03

MODELS = ["Writes", "WriteProgs"]
STREAMS = []
ORACLES = [c03.oracle_component_repeat, c03.oracle_histories]
UNPROVED = ["the values a statement writes are modelled as functions of the call's inputs only; where they read a self.* cache the analysis demands that the cache was assigned earlier in the same compute -> linearize round (Read obligation), which is what justifies the modelling",
            "a linearize repeated WITHOUT an intervening compute is covered by the oracle (linearize twice / three times), not by the theorem, whose calls are whole rounds",
            "OpenMDAO's own caching (relevance reduction in compute_totals, approximation schemes, solver warm start, LU factors of DirectSolver) is outside the model; it is exercised by the live-vs-fresh histories only; coupled models agree to solver tolerance (1e-5 outputs, 1e-4 partials)",
            "hand-justified facts (coq/Generated/WriteProgs.v comments, harness/write_facts.json): region inclusions, loops that tile an array, the alias of self.del__dnodes.data, base_name = name of surface 0; each is a hypothesis [envok]/[assumed] of the theorem, validated on every run by the repeated-linearisation oracle"]
ASSUMPTIONS = ["the translator harness/translate_writes.py (Python ast -> Writes programs) is trusted: aliasing through numpy views (reshape, .T, plain subscripts), hoisting of a whole-array assignment present on both sides of an input-dependent branch, classification of conditions as option- or input-dependent by taint",
               "the framework calls compute before linearize at the same point (OpenMDAO run_model -> linearize ordering)"]
