from ..streams import pg, aero as aero_streams
from ..oracles import c09

MODELS = ["PG", "Aero"]
STREAMS = [pg.stream_pg, aero_streams.stream_eval_mtx]
ORACLES = [c09.oracle_pg]
UNPROVED = ["the full pipeline identity compressible = rot^-1 . unscale . incompressible(alpha=beta=0) . scale . rot is assembled by the oracle's explicit construction, not stated as one theorem over the group wiring",
            "continuity of the solved forces in Mach (continuity of the linear solve) is validated by the oracle; continuity of beta_PG and of the scalings follows from C09_prandtl_glauert_scalings"]
ASSUMPTIONS = ["0 <= M < 1; zero sideslip for the Mach-0 identity (C09_sideslip_wake_differs shows why)"]
