from ..streams import geom
from ..oracles import c13

MODELS = ["Geom", "Aero"]
STREAMS = [geom.stream_transformations, geom.stream_chain]
ORACLES = [c13.oracle_defaults, c13.oracle_effects]
UNPROVED = ["B-spline partition of unity (equal control points give a constant distribution) is OpenMDAO's SplineComp: checked per instance by the oracle, not proved",
            "dihedral keeps planform area / chord scaling about the axis for full-span surfaces follow the proved left-half statements (the full-span taper profile itself is proved: C13_taper_full_span_linear_from_centre_to_both_tips)"]
ASSUMPTIONS = ["one recorded finding (F06): at default twist the Rotate component rotates cambered / pre-twisted sections about x on any wing whose reference axis has a spanwise slope",
               "default span is a no-op only for meshes whose chordwise lines have constant y (proved necessary: Stretch assigns one y to a whole chord line)"]
