from ..streams import stress
from ..oracles import c15

STREAMS = [stress.stream_vonmises, stress.stream_failure]
ORACLES = [c15.oracle_ks, c15.oracle_vonmises, c15.oracle_wingbox_closed_form, c15.oracle_two_surface_aerostruct]
UNPROVED = ["wingbox closed forms in terms of htop/Qz/J/A_enc are definitional in the model (wb_top = E/L^2 * Mz * htop ...) and not restated as separate theorems",
            "the Jacobians of VonMisesTube / VonMisesWingbox are theorems of C01 (C01_VonMisesTube, C01_VonMisesWingbox), not restated here"]
ASSUMPTIONS = [
    "theorems over R; model tied to VonMisesTube/VonMisesWingbox/FailureKS/FailureExact/NonIntersectingThickness/SectionPropertiesTube by differential execution, stresses up to 1e12 Pa, N up to 48 (thorough 96)",
    "rigid-rotation theorems need an element of non-zero length not parallel to the global x axis (the code's own restriction)",
]
