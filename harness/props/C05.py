from ..streams import aero as aero_streams
from ..oracles import c05

MODELS = ["Aero"]
STREAMS = [aero_streams.stream_points_and_mesh, aero_streams.stream_eval_mtx, aero_streams.stream_geometry_and_flow, aero_streams.stream_system, aero_streams.stream_chain]
ORACLES = [c05.oracle_reference, c05.oracle_one_panel_signs]
UNPROVED = ["sign conventions are pinned by theorems on the one-panel rectangular wing only (C05_one_panel_*: AIC > 0, circulation = - v sin a cos b / AIC < 0 and F_z > 0 at positive alpha, any chord, span, |alpha| < 90 deg); for general lattices the signs are those of the independent solver (oracle)",
            "invertibility of the influence matrix is a hypothesis (the theorem is an equivalence between 'residual = 0' and 'tangent')"]
ASSUMPTIONS = [
    "theorems over R; the Gallina models of all fourteen VLM components are executed against the implementation (1-3 surfaces, left/right/full, ground images, random swept/tapered/twisted/cambered meshes): EvalVelMtx agrees to round-off",
    "LAPACK's LU is modelled by its specification (A x = b); SolveMatrix is compared by backward error",
    "rigid-rotation onset velocity is taken at each panel's collocation point also for the force (the property's wording: 'the panel's onset velocity'); the independent solver does the same",
]
