from ..streams import transfer
from ..oracles import c11

STREAMS = [transfer.stream_load_transfer, transfer.stream_disp_transfer, transfer.stream_mesh_point_forces]
ORACLES = [c11.oracle_conservation, c11.oracle_rigid_motion, c11.oracle_group_mesh_point_forces, c11.oracle_two_surface_aerostruct]
UNPROVED = ["second-order defect of the rotation map T(r) - [r]x is not bounded by a theorem (the property only asks first order)"]
ASSUMPTIONS = [
    "theorems are over R; the implementation is binary64 (agreement 1e-9 relative on sampled inputs)",
    "the models lt_loads, mesh_point_forces, transf_mtx, def_mesh, nodes are tied to the code by differential execution on sizes nx in 2..3 (quick) / 2..5 (thorough), ny in 2..5 / 2..9, left/right/full meshes, fem_origin in {0, 0.35, 1, random}",
]
