from ..oracles import c12
from ..streams import transfer

MODELS = ["Transfer", "Constants"]
STREAMS = [transfer.stream_load_transfer, transfer.stream_disp_transfer]
ORACLES = [c12.oracle_consistency, c12.oracle_solver_independence, c12.oracle_multipoint, c12.oracle_stiff_limit]
UNPROVED = ["that the aerostructural coupling map of a given configuration IS a contraction (the quantifier restricts to convergent couplings); uniqueness and the tolerance bound are proved under that hypothesis",
            "the coupled group is the composition of component models already tied to the code one by one (C01/C05/C10/C11 streams); its wiring is checked on the implementation by recomputing each discipline separately from the other's converged output; that every feedback connection lies inside the group the nonlinear solver iterates is a theorem on the regenerated data-flow graphs (C12_all_feedback_is_inside_the_coupled_group)",
            "convergence and accuracy of OpenMDAO's nonlinear and linear solvers themselves are runtime truths: exercised (block Gauss-Seidel with / without Aitken, Newton with Direct / LinearBlockGS / ScipyKrylov), non-convergence is recorded as outside the quantifier"]
ASSUMPTIONS = ["user scripts connect load_factor to <point>.coupled.load_factor when weight relief / fuel / point masses are used, as the package's examples do (the coupled group exposes it as a separate promoted input)"]
