from ..streams import aero as aero_streams
from ..oracles import c08

MODELS = ["Aero"]
STREAMS = [aero_streams.stream_points_and_mesh, aero_streams.stream_eval_mtx]
ORACLES = [c08.oracle_images, c08.oracle_rejection]
UNPROVED = ["far-field limit |AIC_ground - AIC_free| <= C / h^2 (decay bound of the kernel) is validated by the oracle's convergence table only",
            "the decision rule 'ground effect without symmetry is rejected' is covered by the oracle here and modelled under C20"]
ASSUMPTIONS = ["zero sideslip (the ground plane is parallel to the angle-of-attack direction only)",
               "streams: VortexMesh (with ground images, left/right halves) and EvalVelMtx (image block, strength -1) models executed against the code"]
