from ..streams import aero as aero_streams
from ..oracles import c08

MODELS = ["Aero"]
STREAMS = [aero_streams.stream_points_and_mesh, aero_streams.stream_eval_mtx]
ORACLES = [c08.oracle_images, c08.oracle_rejection]
UNPROVED = ["far-field limit: every image segment / wake leg contributes at most 1 / (2 pi distance) (C08_image_segment_induction_bounded_by_inverse_distance, C08_image_wake_leg_...: proved, so the image block tends to zero); the sharper rate C / h^2 of the whole image ring (cancellation between its four sides) and the passage from the influence matrix to the solved coefficients (continuity of the linear solve) are validated by the oracle's convergence table",
            "the decision rule 'ground effect without symmetry is rejected' is covered by the oracle here and modelled under C20"]
ASSUMPTIONS = ["zero sideslip (the ground plane is parallel to the angle-of-attack direction only)",
               "streams: VortexMesh (with ground images, left/right halves) and EvalVelMtx (image block, strength -1) models executed against the code"]
