from ..streams import loads, jac_wingbox
from ..oracles import c16

STREAMS = [loads.stream_weight_cg, loads.stream_dist_loads, loads.stream_point_loads, jac_wingbox.stream_section_properties_wingbox]
ORACLES = [c16.oracle_loads, c16.oracle_total_loads_in_groups]
UNPROVED = []
ASSUMPTIONS = [
    "theorems over R; models tied to Weight, StructuralCG, StructureWeightLoads, FuelLoads, WingboxFuelVol, WingboxFuelVolDelta, ComputePointMassLoads, ComputeThrustLoads, TotalLoads by differential execution (left/right/full beams, ny 2..5 quick / 2..13 thorough, all 8 TotalLoads option sets)",
    "StructureWeightLoads declares an output element_lengths that compute never assigns (stays 0, unconnected): observed, outside the property, not compared",
    "WingboxFuelVolDelta is modelled as the pure function of its inputs; its in-place halving of the input vector is a history effect handled under C03/C01",
]
