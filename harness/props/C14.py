from ..streams import meshgen, jac_geom
from ..oracles import c14

MODELS = ["MeshGen", "MultiSec"]
STREAMS = [meshgen.stream_rect, meshgen.stream_sections, meshgen.stream_sections_asymmetric, jac_geom.stream_multisection_jac]
ORACLES = [c14.oracle_generate_mesh, c14.oracle_sections, c14.oracle_join_component]
UNPROVED = ["CRM / uCRM planforms are table data interpolated by numpy: their ordering, symmetry, half/full and offset properties are checked per instance by the oracle, not proved",
            "monotone stations are proved for blending factors 0 <= span_cos_spacing, chord_cos_spacing <= 1 (C14_rect_y_strictly_increasing, C14_rect_x_strictly_increasing); the special branch span_cos_spacing == 2 is modelled and compared with the code by the stream but not covered by the monotonicity theorem",
            "GeomMultiUnification without the leading-edge shift reproduces the stitched surface: proved (C14_unification_reproduces_the_sections, C14_unification_keeps_shared_edges); with the shift, and the plain-python unify_mesh, by the oracle"]
ASSUMPTIONS = ["finding F08 (the asymmetric multi-section branch did not join sections right of the root) is fixed in /repo (6265a26); the repaired branch is modelled, proved to join and executed against the code"]
