from ..streams import meshgen, jac_geom
from ..oracles import c14

MODELS = ["MeshGen", "MultiSec"]
STREAMS = [meshgen.stream_rect, meshgen.stream_sections, meshgen.stream_sections_asymmetric, jac_geom.stream_multisection_jac]
ORACLES = [c14.oracle_generate_mesh, c14.oracle_sections, c14.oracle_join_component]
UNPROVED = ["CRM / uCRM planforms are table data interpolated by numpy: their ordering, symmetry, half/full and offset properties are checked per instance by the oracle, not proved",
            "cosine-blended spacing is proved monotone only through the rectangular model's hypothesis that the blended spanwise stations are strictly increasing (a convex combination of two increasing station lists); the station lists themselves are compared with the code by the stream",
            "unify_mesh / GeomMultiUnification reproduce the stitched surface: oracle only"]
ASSUMPTIONS = ["finding F08 (the asymmetric multi-section branch did not join sections right of the root) is fixed in /repo (6265a26); the repaired branch is modelled, proved to join and executed against the code"]
