from ..streams import mphys, aero as aero_streams
from ..oracles import c19

MODELS = ["Mphys", "Aero"]
STREAMS = [mphys.stream_mux_demux, aero_streams.stream_system]
ORACLES = [c19.oracle_composition, c19.oracle_mphys, c19.oracle_mixed_handedness]
UNPROVED = ["far surface: each segment / wake leg of the far surface induces at most 1 / (2 pi distance) (C19_far_surface_*: proved; the wake leg bound is in the PERPENDICULAR distance, which is why the oracle places the far surface outside the wake plane); the effect on the solved coefficients is validated by the oracle (1e2 .. 1e6 m)",
            "that splitting a surface yields the same rings (shared cut column) is checked end to end by the oracle; the theorem covers the re-indexing step",
            "the isomorphism of the MPhys wrapper wiring with AeroPoint is a theorem on the two connection graphs of the canonical models (C19_mphys_wiring_is_aeropoint_wiring, by computation; the graphs are regenerated from the live problems on every run); for other surface lists it is validated by running both (oracle)"]
ASSUMPTIONS = ["CM is normalised by the MAC of the first listed surface (documented): permutation pairs compare forces, CL, CD and per-surface coefficients",
               "wave drag is per surface by construction and is excluded from the split pairs"]
