from ..streams import drag
from ..oracles import c18

MODELS = ["Drag"]
STREAMS = [drag.stream_viscous, drag.stream_wave]
ORACLES = [c18.oracle_components, c18.oracle_mesh_independence, c18.oracle_option_combinations]
UNPROVED = ["CDv decreasing in Reynolds number for mixed laminar/turbulent surfaces (0 < k_lam < 1): proved only for k_lam = 0 and k_lam = 1 (C18_CDv_decreasing_in_Re_partial); the mixed case is validated by the oracle's Reynolds sweeps"]
ASSUMPTIONS = [
    "theorems over R with Rpower for x**y; models tied to ViscousDrag / WaveDrag / TotalDrag by differential execution over k_lam in {0, 0.05, 0.5, 0.999, 1}, symmetric and not, options on/off, M placed on both sides of the onset with a 1e-2 margin",
    "the model family has two defect switches (dCDv/dre = 0 for k_lam >= 1; CDw doubled for symmetric surfaces); which member the code is, is decided by the stream on every run; both are findings of C01 / C04, not of C18 (positivity, monotonicity, onset and mesh independence hold for both members)",
]
