from ..streams import drag
from ..oracles import c18

MODELS = ["Drag"]
STREAMS = [drag.stream_viscous, drag.stream_wave]
ORACLES = [c18.oracle_components, c18.oracle_mesh_independence, c18.oracle_option_combinations]
UNPROVED = ["the mixed case 0 < k_lam < 1 of 'CDv decreases with Reynolds number' is proved (mean value theorem, Real/DragMixed.v) under ln(Re_c k_lam) >= 3.58, i.e. a laminar-run chord Reynolds number above about 36; the property quantifies over > 1e3 (C18_mixed_hypothesis_met_at_1e3); below that bound the statement is not decided"]
ASSUMPTIONS = [
    "theorems over R with Rpower for x**y; models tied to ViscousDrag / WaveDrag / TotalDrag by differential execution over k_lam in {0, 0.05, 0.5, 0.999, 1}, symmetric and not, options on/off, M placed on both sides of the onset with a 1e-2 margin",
    "the model family has two defect switches (dCDv/dre = 0 for k_lam >= 1; CDw doubled for symmetric surfaces); which member the code is, is decided by the stream on every run; both are findings of C01 / C04, not of C18 (positivity, monotonicity, onset and mesh independence hold for both members)",
]
