from ..streams import jac_drag, jac_stress, jac_functionals, jac_transfer, jac_loads, jac_aero, jac_beam, jac_geom, jac_wingbox
from ..oracles import c01

c01.enable()      # every Jacobian the streams obtain is also checked against finite differences of the code's compute

MODELS = ["Drag", "Stress", "Functionals", "Transfer", "Loads", "Aero", "PG", "Beam", "BeamTables", "Geom", "Misc", "MultiSec", "Wingbox", "Small", "Constants"]
STREAMS = [jac_drag.stream_viscous_jac, jac_drag.stream_wave_jac, jac_stress.stream_vonmises_jac, jac_stress.stream_elementwise_jac,
           jac_functionals.stream_scalar_functionals_jac, jac_functionals.stream_moment_jac, jac_transfer.stream_transfer_jac,
           jac_loads.stream_loads_jac, jac_aero.stream_points_mesh_jac, jac_aero.stream_eval_mtx_jac, jac_aero.stream_geometry_flow_jac,
           jac_aero.stream_system_jac, jac_beam.stream_element_jac, jac_beam.stream_implicit_jac, jac_beam.stream_pg_jac,
           jac_geom.stream_transformations_jac, jac_geom.stream_multisection_jac,
           jac_wingbox.stream_section_properties_wingbox, jac_wingbox.stream_wingbox_geometry, jac_wingbox.stream_small_components]
ORACLES = [c01.oracle_multi_surface, c01.oracle_fd, c01.oracle_wingbox_untwisted]
UNPROVED = ["FailureKS: its theorem is C15_ks_reported_derivative (Props/C15.v); AtmosComp's spline derivative: C17 (akima_der stream)",
            "WingboxGeometry.fem_twists at an exactly untwisted section: refuted (C01_WingboxGeometry_twist_measure_refuted_at_zero_twist), known finding F13",
            "joint (Frechet) differentiability is not formalised: the theorems give the derivative along every differentiable curve of the inputs, which contains all coordinate partials and all chain-rule compositions"]
ASSUMPTIONS = ["the Jacobian the framework reports for a cs/fd-declared partial is OpenMDAO's approximation of the code's compute (trusted)",
               "admissible points as stated in each theorem (non-degenerate panels/elements, subsonic, off the wave-drag onset, off the load-zeroing threshold, non-zero stresses)"]
REPLAY_NEEDS_STREAMS = True
