from ..streams import linsolve, mphys
from ..oracles import c02

MODELS = ["Aero", "Beam", "BeamTables", "Stress", "Mphys", "Transfer"]
STREAMS = [linsolve.stream_linear_solves, mphys.stream_mux_demux]
ORACLES = [c02.oracle_totals]
UNPROVED = ["that OpenMDAO implements the unified derivatives equation (assembly of the component partials into the coupled linear system, the cs / fd approximation schemes) is trusted; it is exercised by the forward / reverse / finite-difference comparison of every topology on every run",
            "iterative linear solvers are equivalent to the direct one only up to their tolerance and only where they converge (they are run with err_on_non_converge=True; a non-converged solve is recorded in the evidence notes as outside the quantifier, never as agreement): ScipyKrylov and LinearBlockGS are exercised on aero-only and struct-only models, LinearBlockGS on the coupled group of the tube aerostructural point",
            "the coupled systems (1e3 unknowns) are not solved inside Coq: the theorems are about arbitrary matrices, the tie to the code is the component-level streams (linear solves of FEM / SolveMatrix in both modes, mux / demux products) plus C01's Jacobian streams"]
ASSUMPTIONS = ["one recorded finding (F09): the fuel-volume margin's total derivative inherits the wrong complex-step partial of WingboxFuelVolDelta",
               "convergent coupling; nonlinear solver tolerances tightened for the finite-difference comparison"]
