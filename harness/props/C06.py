from ..streams import aero as aero_streams, functionals
from ..oracles import c06

MODELS = ["Aero", "Functionals", "Constants", "Atmos", "AtmosTable"]
STREAMS = [aero_streams.stream_eval_mtx, aero_streams.stream_geometry_and_flow, aero_streams.stream_system, aero_streams.stream_chain, functionals.stream_scalar_functionals, functionals.stream_moment]
ORACLES = [c06.oracle_laws]
UNPROVED = ["the laws are proved per stage (kernel / ring / right-hand side / solution / local velocity / force / coefficient) and, for the assembled tangency system of one surface, as whole-chain theorems (speed, translation, length scaling: C06_assembled_system_*); the force / coefficient stages on top of the solved system and multi-surface compositions are exercised by the law-level pairs of the oracle",
            "MAC and moment-coefficient invariance under length scaling: proved for the MomentCoefficient model given forces ~ c^2 (C06_moment_coefficient_invariant_under_length_scaling); the composition with the force stage is exercised by the oracle"]
ASSUMPTIONS = [
    "length scaling holds under the explicit guard that no kernel denominator crosses the absolute tolerance 1e-10 at either scale (C06_absolute_tolerance_breaks_scaling shows the guard is needed); the oracle uses k in [1e-2, 1e2] on metre-sized wings",
    "translations in y are excluded when a symmetric surface is present",
]
