from ..streams import beam, transfer
from ..oracles import c10

MODELS = ["Beam", "BeamTables", "Stress", "Transfer", "Constants"]
STREAMS = [beam.stream_element, beam.stream_fem, transfer.stream_disp_transfer]
ORACLES = [c10.oracle_equilibrium, c10.oracle_closed_forms]
UNPROVED = ["nodal exactness for any number of collinear elements is proved for the assembled element equations in the element's own frame (C10_cantilever_nodal_exact_any_number_of_elements, uniform section); its transport through the direction-cosine matrix to an arbitrary orientation, and non-uniform sections, are validated by the oracle",
            "tube rotation covariance is validated by the oracle only",
            "existence / uniqueness of the solution (invertibility of the augmented matrix) is a hypothesis: theorems are about any solution"]
ASSUMPTIONS = ["element not parallel to the global x axis, non-zero length (the code's own restriction)",
               "SuperLU's factorisation is modelled by its specification; FEM is compared by backward error of the implementation's solution in the model's assembled system (1e-9); closed forms to 1e-6 (the penalty-clamped matrix has condition number ~1e12)"]
