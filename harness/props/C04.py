from ..streams import aero as aero_streams, drag, loads, beam
from ..oracles import c04

MODELS = ["Aero", "Drag", "Loads", "Beam", "BeamTables", "Constants"]
STREAMS = [aero_streams.stream_points_and_mesh, aero_streams.stream_eval_mtx, aero_streams.stream_geometry_and_flow, drag.stream_wave, drag.stream_viscous, loads.stream_weight_cg, beam.stream_fem]
ORACLES = [c04.oracle_aero, c04.oracle_offplane, c04.oracle_struct, c04.oracle_aerostruct, c04.oracle_geometry, c04.oracle_inertial_loads]
UNPROVED = ["structure half = full: the equilibrium rows of the modelled half are proved identical (C04_structure_left_half_rows_of_full_model_are_the_half_model_rows) and the inertial load sources too; that the full beam's solution under mirror-symmetric loads restricted to the left half IS the half beam's solution additionally needs uniqueness (invertibility of the clamped matrix), which is a hypothesis throughout: the end-to-end equality is validated by the SpatialBeamAlone half/full oracle",
            "aerodynamics half = full is assembled into one theorem on the model's stages (C04_half_model_solution_is_the_full_model_solution: ghost lattice, collocation points, normals, symmetric code path, zero sideslip, any sizes); existence / uniqueness of the solution is a hypothesis; ground images are covered by the folding lemma for the kernel (C04_symmetric_influence_folds_mirror_panel) and the oracle, not by the assembled theorem",
            "CDv / CM / cg / fuel half-vs-full equalities are validated by the oracle (the factor-2 statements proved are lift/drag and mass)"]
ASSUMPTIONS = [
    "mirror-symmetric configuration at zero sideslip; spline control-point distributions constant along the span in the half/full oracle pairs (a B-spline over the full span is not the mirror image of one over the half span)",
    "two recorded findings: wave-drag coefficient doubled for symmetric surfaces; ghost mesh wrong when the root edge is off the symmetry plane (KNOWN_FINDINGS.json)",
]
