from ..streams import functionals
from ..oracles import c17

MODELS = ["Functionals", "Constants", "Atmos", "AtmosTable"]
STREAMS = [functionals.stream_scalar_functionals, functionals.stream_moment, functionals.stream_atmos]
ORACLES = [c17.oracle_functionals, c17.oracle_atmosphere]
UNPROVED = ["ideal-gas / speed-of-sound consistency BETWEEN knots is validated numerically only (each column is interpolated separately); at the knots it is proved exhaustively",
            "the partials of TotalLiftDrag / Equilibrium / Breguet / CenterOfGravity / Reynolds are theorems of C01 (dual-number evaluation); here the hand-written formula models are only compared with the code"]
ASSUMPTIONS = [
    "theorems over R (and exact Q for the table); models tied to TotalLiftDrag, SumAreas, Equilibrium, BreguetRange, CenterOfGravity, ReynoldsComp, MomentCoefficient, AtmosComp by differential execution (1-3 surfaces; Akima model vs scipy at random altitudes, all knots' neighbours)",
    "scipy's Akima1DInterpolator is modelled from its source (method='akima', no extrapolation)",
]
