"""translate_writes.py — fail-closed translator from the components' source (Python ast) to the storage-discipline
programs of coq/Model/Writes.v: for every OpenMDAO component class of /repo/openaerostruct, the order of writes into
storage that persists between calls (Jacobian sub-arrays `partials[...]`, `outputs[...]`, `residuals[...]`, `self.*`
caches, and in-place edits of `inputs[...]` through aliases), with the control flow (option- vs input-dependent
conditions, loops).  Output: coq/Generated/WriteProgs.v.  Anything it does not understand is an error for that class
(listed in FAILED, which breaks that class's obligation), never a guess."""
import ast, os, sys, json, re

REPO = os.environ.get("OAS_REPO", "/repo")
HERE = os.path.dirname(os.path.abspath(__file__))
OUT = os.path.join(os.path.dirname(HERE), "coq", "Generated", "WriteProgs.v")
FACTS = json.load(open(os.path.join(HERE, "write_facts.json")))

ROUND = [("compute", "solve_nonlinear", "apply_nonlinear"), ("compute_partials", "linearize")]
STORAGE_PARAMS = {"compute": {1: "inputs", 2: "outputs"}, "solve_nonlinear": {1: "inputs", 2: "outputs"},
                  "apply_nonlinear": {1: "inputs", 2: "outputs", 3: "residuals"},
                  "compute_partials": {1: "inputs", 2: "partials"}, "linearize": {1: "inputs", 2: "outputs", 3: "partials"}}
WHOLE = {"", "[:]", "[:, :]", "[...]", "[:, :, :]"}


class Unsupported(Exception):
    pass


def names_in(node):
    return {n.id for n in ast.walk(node) if isinstance(n, ast.Name)}


class MethodTranslator:
    def __init__(self, cls, fn, cache_attrs, tab):
        self.cls, self.fn, self.cache, self.tab = cls, fn, cache_attrs, tab
        args = [a.arg for a in fn.args.args]
        self.roots = {}
        for pos, role in STORAGE_PARAMS[fn.name].items():
            if pos < len(args):
                self.roots[args[pos]] = role
        self.tainted = set(self.roots)          # names whose value depends on the call's inputs
        self.alias = {}                         # local name -> (role, key text)
        self.loop_assigned = []                 # stack of (loop id, names assigned inside that enclosing loop)

    # ---- storage references -------------------------------------------------------------------
    VIEW_METHODS = ("reshape", "view", "squeeze", "transpose", "swapaxes")

    def ref(self, node):
        """(role, key_text, region_text) if node denotes (part of) a persistent array, else None"""
        # numpy views of storage are storage: x.reshape(...), x.T, x.real
        if isinstance(node, ast.Call):
            if isinstance(node.func, ast.Attribute) and node.func.attr in self.VIEW_METHODS:
                r = self.ref(node.func.value)
                return None if r is None else (r[0], r[1], r[2] + ".view" if r[2] else "")
            return None
        if isinstance(node, ast.Attribute) and node.attr in ("T", "real", "imag", "flat"):
            r = self.ref(node.value)
            if r is not None:
                return (r[0], r[1], r[2] + ".view" if r[2] else "")
        subs = []
        n = node
        while True:
            if isinstance(n, ast.Subscript):
                subs.append(n); n = n.value
            elif isinstance(n, ast.Attribute) and not (isinstance(n.value, ast.Name) and n.value.id == "self"):
                subs.append(n); n = n.value
            else:
                break
        subs.reverse()
        if isinstance(n, ast.Name) and n.id in self.roots:
            if not subs or not isinstance(subs[0], ast.Subscript):
                return None
            role = self.roots[n.id]
            key = role + "[" + ast.unparse(subs[0].slice) + "]"
            rest = subs[1:]
        elif isinstance(n, ast.Attribute) and isinstance(n.value, ast.Name) and n.value.id == "self" and n.attr in self.cache:
            role, key, rest = "self", "self." + n.attr, subs
            # attribute chains like self.m.data belong to the key
            while rest and isinstance(rest[0], ast.Attribute):
                key += "." + rest[0].attr; rest = rest[1:]
        elif isinstance(n, ast.Name) and n.id in self.alias:
            role, key = self.alias[n.id]
            rest = subs
        else:
            return None
        region = ""
        for s in rest:
            if isinstance(s, ast.Subscript):
                region += "[" + ast.unparse(s.slice) + "]"
            else:
                region += "." + s.attr
        if region in WHOLE or (region.startswith("[") and region.count("[") == 1 and
                               all(x.strip() in (":", "...") for x in region[1:-1].strip("()").split(","))):
            region = ""
        return role, key, region

    def variant(self, text_node_names):
        """ids of the enclosing loops inside which a text with these names changes"""
        return {lid for lid, s in self.loop_assigned if text_node_names & s}

    def key_id(self, key, names):
        return self.tab.key(key, self.variant(names))

    def region_id(self, region, names):
        return 0 if region == "" else self.tab.region(region, self.variant(names))

    # ---- expressions: reads of caches / Jacobian storage, taint --------------------------------
    SHAPE_ONLY = ("zeros_like", "ones_like", "empty_like", "shape", "len", "size", "ndim")

    def walk_values(self, expr):
        """sub-expressions whose VALUE matters (np.zeros_like(x), x.shape, len(x) only use the shape)"""
        stack = [expr]
        while stack:
            n = stack.pop()
            if isinstance(n, ast.Call):
                fname = n.func.attr if isinstance(n.func, ast.Attribute) else (n.func.id if isinstance(n.func, ast.Name) else "")
                if fname in self.SHAPE_ONLY:
                    continue
            if isinstance(n, ast.Attribute) and n.attr in self.SHAPE_ONLY:
                continue
            yield n
            stack.extend(ast.iter_child_nodes(n))

    def reads(self, expr, out):
        for n in self.walk_values(expr):
            if isinstance(n, ast.Attribute) and isinstance(n.value, ast.Name) and n.value.id == "self" and n.attr in self.cache and isinstance(n.ctx, ast.Load):
                out.append(("Read", self.tab.key("self." + n.attr, set()), 0))
            if isinstance(n, ast.Subscript) and isinstance(n.value, ast.Name) and self.roots.get(n.value.id) in ("partials", "residuals") and isinstance(n.ctx, ast.Load):
                key = self.roots[n.value.id] + "[" + ast.unparse(n.slice) + "]"
                out.append(("Read", self.key_id(key, names_in(n.slice)), 0))

    def is_tainted(self, expr):
        for n in ast.walk(expr):
            if isinstance(n, ast.Name) and n.id in self.tainted:
                return True
            if isinstance(n, ast.Attribute) and isinstance(n.value, ast.Name) and n.value.id == "self" and n.attr in self.cache:
                return True
        return False

    # ---- statements -------------------------------------------------------------------------------
    def block(self, stmts):
        out = []
        for s in stmts:
            out += self.stmt(s)
        return out

    def assigned_names(self, stmts):
        res = set()
        for s in stmts:
            for n in ast.walk(s):
                if isinstance(n, ast.Name) and isinstance(n.ctx, ast.Store):
                    res.add(n.id)
        return res

    def write(self, target, mode, value, out):
        r = self.ref(target)
        if r is None:
            return False
        role, key, region = r
        if role == "inputs" and mode == "Set" and isinstance(target, ast.Name):
            return False
        tnames = names_in(target)
        # the key's own loop dependence: names inside the key text / region text
        knames = {w for w in re.findall(r"[A-Za-z_][A-Za-z_0-9]*", key)}
        rnames = {w for w in re.findall(r"[A-Za-z_][A-Za-z_0-9]*", region)}
        if value is not None and isinstance(value, ast.Constant) and mode == "Mul" and value.value in (0, 0.0):
            mode = "Set"
        out.append(("Write", self.key_id(key, knames), self.region_id(region, rnames), "MSet" if mode == "Set" else "MUpd", self.tab.new_id(ast.unparse(target), mode)))
        return True

    def stmt(self, s):
        out = []
        if isinstance(s, (ast.Expr,)):
            if isinstance(s.value, ast.Constant):
                return out
            self.reads(s.value, out)
            # in-place method calls on storage (x.fill(0), np.add.at(x, ...)) are not understood
            for n in ast.walk(s.value):
                if isinstance(n, ast.Call) and isinstance(n.func, ast.Attribute) and n.func.attr in ("fill", "sort", "resize", "put", "itemset", "at", "setfield"):
                    tgt = n.func.value if n.func.attr != "at" else (n.args[0] if n.args else None)
                    if tgt is not None and self.ref(tgt) is not None:
                        raise Unsupported("in-place method call on storage: " + ast.unparse(s))
            return out
        if isinstance(s, ast.Assign):
            is_alias = (len(s.targets) == 1 and isinstance(s.targets[0], ast.Name) and isinstance(s.value, (ast.Subscript, ast.Attribute, ast.Name, ast.Call))
                        and self.ref(s.value) is not None and self.ref(s.value)[2] == "")
            if not is_alias:
                self.reads(s.value, out)
            for t in s.targets:
                targets = t.elts if isinstance(t, (ast.Tuple, ast.List)) else [t]
                for tt in targets:
                    if isinstance(tt, ast.Name):
                        # alias of storage (a numpy view: no copy) or a fresh value
                        r = self.ref(s.value) if isinstance(s.value, (ast.Subscript, ast.Attribute, ast.Name, ast.Call)) and len(targets) == 1 else None
                        if r is not None and r[2] == "":
                            self.alias[tt.id] = (r[0], r[1])
                        else:
                            self.alias.pop(tt.id, None)
                        if self.is_tainted(s.value) or r is not None:
                            self.tainted.add(tt.id)
                        else:
                            self.tainted.discard(tt.id)
                    else:
                        if not self.write(tt, "Set", s.value, out):
                            # assignment into a local array: taint follows the value
                            base = tt
                            while isinstance(base, (ast.Subscript, ast.Attribute)):
                                base = base.value
                            if isinstance(base, ast.Name) and self.is_tainted(s.value):
                                self.tainted.add(base.id)
            return out
        if isinstance(s, ast.AugAssign):
            self.reads(s.value, out)
            mode = "Mul" if isinstance(s.op, ast.Mult) else "Upd"
            if isinstance(s.target, ast.Name):
                if s.target.id in self.alias:
                    role, key = self.alias[s.target.id]
                    zero = isinstance(s.op, ast.Mult) and isinstance(s.value, ast.Constant) and s.value.value in (0, 0.0)
                    out.append(("Write", self.key_id(key, set(re.findall(r"[A-Za-z_][A-Za-z_0-9]*", key))), 0, "MSet" if zero else "MUpd", self.tab.new_id(s.target.id + " (alias of " + key + ")", "in-place " + type(s.op).__name__)))
                elif self.is_tainted(s.value):
                    self.tainted.add(s.target.id)
                return out
            if not self.write(s.target, mode, s.value, out):
                base = s.target
                while isinstance(base, (ast.Subscript, ast.Attribute)):
                    base = base.value
                if isinstance(base, ast.Name) and self.is_tainted(s.value):
                    self.tainted.add(base.id)
            return out
        if isinstance(s, ast.If):
            self.reads(s.test, out)
            dyn = self.is_tainted(s.test)
            cid = self.tab.new_cond(ast.unparse(s.test), dyn)
            saved_alias, saved_taint = dict(self.alias), set(self.tainted)
            t = self.block(s.body)
            a1, t1 = self.alias, self.tainted
            self.alias, self.tainted = dict(saved_alias), set(saved_taint)
            e = self.block(s.orelse)
            self.alias = {k: v for k, v in a1.items() if self.alias.get(k) == v}
            self.tainted = t1 | self.tainted
            for ctext, key, why in self.tab.else_facts:
                if ctext == ast.unparse(s.test):
                    e = [("Assume", self.tab.key(key, set()), 0)] + e
            if dyn and t and e:
                tops = lambda items: {(it[1], it[2]) for it in items if it[0] == "Write" and it[3] == "MSet" and it[2] == 0}
                for (k, r) in sorted(tops(t) & tops(e)):
                    # both sides overwrite the whole array: equivalent, for the discipline, to assigning it before the branch
                    out.append(("Write", k, r, "MSet", self.tab.new_id("(hoisted) " + self.tab.keys[k], "Set on both sides of an input-dependent branch")))
            if t or e:
                out.append(("If", cid, dyn, t, e))
            return out
        if isinstance(s, (ast.For, ast.While)):
            if isinstance(s, ast.For):
                self.reads(s.iter, out)
                if self.is_tainted(s.iter):
                    for n in names_in(s.target): self.tainted.add(n)
            body_names = self.assigned_names(s.body) | (names_in(s.target) if isinstance(s, ast.For) else set())
            lid = self.tab.new_loop(ast.unparse(s.target) if isinstance(s, ast.For) else "while")
            self.loop_assigned.append((lid, body_names))
            b = self.block(s.body)
            self.loop_assigned.pop()
            if s.orelse:
                raise Unsupported("loop else")
            if b:
                out.append(("Loop", lid, b))
            return out
        if isinstance(s, ast.With):
            return self.block(s.body)
        if isinstance(s, ast.Try):
            raise Unsupported("try")
        if isinstance(s, ast.Return):
            if s.value is not None:
                self.reads(s.value, out)
            self.returned = True
            return out
        if isinstance(s, (ast.Pass, ast.Import, ast.ImportFrom, ast.Assert, ast.Delete, ast.Global, ast.Raise)):
            return out
        if isinstance(s, (ast.FunctionDef, ast.ClassDef)):
            raise Unsupported("nested definition")
        if isinstance(s, ast.AnnAssign):
            raise Unsupported("annotated assignment")
        raise Unsupported(type(s).__name__)


class Tables:
    def __init__(self, alias=None):
        self.keys, self.kvar, self.regions, self.rvar = ["<none>"], [set()], ["<whole>"], [set()]
        self.ids, self.conds, self.loops = [], [], []
        self.alias = alias or {}
        self.else_facts = []

    def key(self, text, var):
        text = self.alias.get(text, text)
        if text in self.keys:
            i = self.keys.index(text); self.kvar[i] |= set(var); return i
        self.keys.append(text); self.kvar.append(set(var)); return len(self.keys) - 1

    def region(self, text, var):
        if text in self.regions:
            i = self.regions.index(text); self.rvar[i] |= set(var); return i
        self.regions.append(text); self.rvar.append(set(var)); return len(self.regions) - 1

    def new_id(self, text, mode):
        self.ids.append((text, mode)); return len(self.ids) - 1

    def new_cond(self, text, dyn):
        self.conds.append((text, dyn)); return len(self.conds) - 1

    def new_loop(self, text):
        self.loops.append(text); return len(self.loops) - 1


def has_midway_return(fn):
    body = fn.body
    for i, s in enumerate(body):
        for n in ast.walk(s):
            if isinstance(n, ast.Return) and not (s is body[-1] and n is s):
                return True
    return False


def coq_stmt(items, ind="  "):
    if not items:
        return "Skip"
    parts = []
    for it in items:
        if it[0] == "Write":
            parts.append("Write %d %d %s %d" % (it[1], it[2], it[3], it[4]))
        elif it[0] == "Read":
            parts.append("Read %d %d" % (it[1], it[2]))
        elif it[0] == "Assume":
            parts.append("Assume %d %d" % (it[1], it[2]))
        elif it[0] == "If":
            parts.append("If %d %s (%s) (%s)" % (it[1], "true" if it[2] else "false", coq_stmt(it[3], ind + "  "), coq_stmt(it[4], ind + "  ")))
        elif it[0] == "Loop":
            parts.append("Loop %d (%s)" % (it[1], coq_stmt(it[2], ind + "  ")))
    return "seq [" + (";\n" + ind).join(parts) + "]"


def translate_class(path, cls):
    methods = {f.name: f for f in cls.body if isinstance(f, ast.FunctionDef)}
    round_methods = []
    for group in ROUND:
        for m in group:
            if m in methods:
                round_methods.append(methods[m])
    if not round_methods:
        return None
    # cache attributes: self.x assigned in any method of the round (not only in setup / initialize / __init__)
    cache = set()
    for f in round_methods:
        for n in ast.walk(f):
            if isinstance(n, ast.Attribute) and isinstance(n.value, ast.Name) and n.value.id == "self" and isinstance(n.ctx, ast.Store):
                cache.add(n.attr)
            if isinstance(n, (ast.Subscript, ast.Attribute)) and isinstance(n.ctx, ast.Store):
                b = n
                while isinstance(b, (ast.Subscript, ast.Attribute)) and not (isinstance(b, ast.Attribute) and isinstance(b.value, ast.Name) and b.value.id == "self"):
                    b = b.value
                if isinstance(b, ast.Attribute) and isinstance(b.value, ast.Name) and b.value.id == "self":
                    cache.add(b.attr)
    rel = os.path.relpath(path, REPO)
    fk = FACTS.get(rel + "::" + cls.name, {})
    tab = Tables({a: b for a, b, why in fk.get("alias", [])})
    tab.else_facts = fk.get("assume_in_else_of", [])
    progs = []
    for f in round_methods:
        if has_midway_return(f):
            raise Unsupported("return before the end of " + f.name)
        mt = MethodTranslator(cls, f, cache, tab)
        items = mt.block(f.body)
        for m, key, region, why in fk.get("assume_end_of_method", []):
            if m == f.name:
                items.append(("Assume", tab.key(key, set()), 0 if region == "" else tab.region(region, set())))
        for key, why in fk.get("tiled_by_loop", []):
            if key in tab.keys:
                k = tab.keys.index(key)
                new = []
                for it in items:
                    new.append(it)
                    if it[0] == "Loop" and sets_key(it[2], k):
                        new.append(("Assume", k, 0))
                items = new
        progs.append((f.name, items))
    return tab, progs, sorted(cache)


def sets_key(items, k):
    for it in items:
        if it[0] == "Write" and it[1] == k and it[3] == "MSet":
            return True
        if it[0] == "If" and (sets_key(it[3], k) or sets_key(it[4], k)):
            return True
        if it[0] == "Loop" and sets_key(it[2], k):
            return True
    return False


def facts_of(fk, tab):
    facts = []
    for a, b, why in fk.get("covers", []):
        if all(x in tab.regions for x in a) and b in tab.regions:
            facts.append(([tab.regions.index(x) for x in a], tab.regions.index(b)))
    return facts


def main():
    root = os.path.join(REPO, "openaerostruct")
    entries, failed = [], []
    for dp, dn, fn in sorted(os.walk(root)):
        dn[:] = sorted(d for d in dn if d not in ("tests", "docs", "examples", "__pycache__"))
        for f in sorted(fn):
            if not f.endswith(".py"):
                continue
            path = os.path.join(dp, f)
            rel = os.path.relpath(path, REPO)
            try:
                tree = ast.parse(open(path, encoding="utf-8").read())
            except SyntaxError as e:
                failed.append((rel, "*", "syntax error")); continue
            for cls in [n for n in tree.body if isinstance(n, ast.ClassDef)]:
                try:
                    r = translate_class(path, cls)
                except Unsupported as e:
                    failed.append((rel, cls.name, str(e))); continue
                if r is None:
                    continue
                entries.append((rel, cls.name) + r)
    lines = ["(* GENERATED by harness/translate_writes.py from %s/openaerostruct - do not edit.\n   One storage-discipline program per component class: the writes of one compute -> linearize round. *)" % REPO,
             "From Coq Require Import List Arith Bool.", "From OAS Require Import Writes.", "Import ListNotations.", ""]
    names = []
    index = {}
    for rel, cname, tab, progs, cache in entries:
        ident = re.sub(r"[^A-Za-z0-9]", "_", rel[len("openaerostruct/"):-3]) + "__" + cname
        fk = FACTS.get(rel + "::" + cname, {})
        facts = facts_of(fk, tab)
        # key alias facts: two texts that denote the same array -> the translator merges them
        lines.append("(* %s :: %s" % (rel, cname))
        for i, k in enumerate(tab.keys[1:], 1):
            lines.append("     key %d = %s%s" % (i, k, "" if not tab.kvar[i] else "   (varies in loops %s)" % sorted(tab.kvar[i])))
        for i, r in enumerate(tab.regions[1:], 1):
            lines.append("     region %d = %s%s" % (i, r.replace("*)", "* )"), "" if not tab.rvar[i] else "   (varies in loops %s)" % sorted(tab.rvar[i])))
        for i, (t, d) in enumerate(tab.conds):
            lines.append("     cond %d = %s%s" % (i, t.replace("*)", "* )"), "   (input-dependent)" if d else ""))
        if cache:
            lines.append("     caches: " + ", ".join(cache))
        lines.append("*)")
        nl = len(tab.loops)
        ktab = "; ".join("[" + "; ".join("false" if l in tab.kvar[k] else "true" for k in range(len(tab.keys))) + "]" for l in range(nl))
        rtab = "; ".join("[" + "; ".join("false" if l in tab.rvar[r] else "true" for r in range(len(tab.regions))) + "]" for l in range(nl))
        lines.append("Definition wi_%s : info := mkInfo (fun l k => nth k (nth l [%s] []) true) (fun l r => nth r (nth l [%s] []) true) [%s]." % (
            ident, ktab, rtab, "; ".join("([%s], %d)" % ("; ".join(str(x) for x in rs), r) for rs, r in facts)))
        for a, b, why in fk.get("covers", []):
            lines.append("(* hand fact: region %s lies within the union of %s -- %s *)" % (b.replace("*)", "* )"), str(a).replace("*)", "* )"), why))
        for m, key, region, why in fk.get("assume_end_of_method", []):
            lines.append("(* hand fact: at the end of %s every cell of %s%s has been assigned -- %s *)" % (m, key, region, why))
        for ctext, key, why in fk.get("assume_in_else_of", []):
            lines.append("(* hand fact: in the else branch of `if %s` every cell of %s has been assigned -- %s *)" % (ctext, key, why))
        for key, why in fk.get("tiled_by_loop", []):
            lines.append("(* hand fact: the loop that assigns slices of %s assigns every cell of it -- %s *)" % (key, why))
        for a, b, why in fk.get("alias", []):
            lines.append("(* hand fact: %s denotes the same array as %s -- %s *)" % (a.replace("*)", "* )"), b.replace("*)", "* )"), why))
        for mname, items in progs:
            lines.append("Definition wp_%s_%s : stmt :=\n  %s." % (ident, mname, coq_stmt(items)))
        lines.append("Definition wp_%s : stmt := seq [%s]." % (ident, "; ".join("wp_%s_%s" % (ident, m) for m, _ in progs)))
        lines.append("Definition wd_%s (c : nat) : bool := existsb (Nat.eqb c) [%s]." % (ident, "; ".join(str(i) for i, (t, d) in enumerate(tab.conds) if d)))
        lines.append("")
        names.append(ident)
        index[ident] = {"file": rel, "class": cname, "keys": tab.keys, "regions": tab.regions, "writes": tab.ids, "conds": tab.conds, "methods": [m for m, _ in progs]}
    expected = FACTS.get("_expected_undisciplined", {})
    exp_ids = [n for n in names if (index[n]["file"] + "::" + index[n]["class"]) in expected]
    ok_ids = [n for n in names if n not in exp_ids]
    lines.append("(* every component class of the package except the ones listed below *)")
    lines.append("Definition checked_components : list (info * stmt * (nat -> bool)) :=\n  [%s]." % ";\n   ".join("(wi_%s, wp_%s, wd_%s)" % (n, n, n) for n in ok_ids))
    for n in exp_ids:
        lines.append("(* expected to violate the discipline: %s -- %s *)" % (n, expected[index[n]["file"] + "::" + index[n]["class"]]))
    lines.append("Definition expected_undisciplined : list (info * stmt * (nat -> bool)) :=\n  [%s]." % ";\n   ".join("(wi_%s, wp_%s, wd_%s)" % (n, n, n) for n in exp_ids))
    lines.append("Definition all_components : list (info * stmt * (nat -> bool)) := checked_components ++ expected_undisciplined.")
    lines.append("Definition component_names_count : nat := %d." % len(names))
    os.makedirs(os.path.dirname(OUT), exist_ok=True)
    new = "\n".join(lines) + "\n"
    if not os.path.exists(OUT) or open(OUT).read() != new:
        open(OUT, "w").write(new)
    json.dump({"components": index, "order": names, "failed": failed}, open(os.path.join(os.path.dirname(HERE), "_work", "writeprogs_index.json"), "w"), indent=1)
    return names, failed


if __name__ == "__main__":
    names, failed = main()
    print("components:", len(names), "failed:", failed)
