"""dev-time helper (not part of any check): writes coq/Props/<file>.v with one fully spelled-out theorem per
listed library lemma.  The statement is printed by Coq itself (Check), so what the Props file claims is exactly
what the library proves; the file is committed and from then on only compiled."""
import subprocess, re, sys, os
COQ = os.environ.get("OAS_COQ") or os.path.join(os.path.dirname(os.path.dirname(os.path.abspath(__file__))), "coq")      # OAS_COQ: a scratch copy of coq/ (dev time)
Q = []
for d in ("Model", "Float", "Real", "Spec", "Generated", "Props"):
    Q += ["-Q", os.path.join(COQ, d), "OAS"]


SCOPE = "Open Scope R_scope."
PRELUDE = "From Coq Require Import Reals ZArith Lra Lia Arith Bool List String.\nFrom Coquelicot Require Import Coquelicot."


def gen(outfile, header_comment, imports, items):
    """items: list of (theorem_name, lemma, comment)"""
    src = "%s\nFrom OAS Require Import %s.\n%s\nSet Printing Width 118.\n" % (PRELUDE, imports, SCOPE)
    for _, lem, _ in items:
        src += "Check %s.\n" % lem
    tmp = "/tmp/genprops_%d.v" % os.getpid()
    open(tmp, "w").write(src)
    out = subprocess.run(["coqc"] + Q + ["-w", "-all", tmp], capture_output=True, text=True, cwd="/tmp")
    if out.returncode != 0:
        print(out.stdout[-2000:], out.stderr[-2000:]); sys.exit(1)
    txt = out.stdout
    blocks = re.split(r"^(?=[A-Za-z_0-9']+\n     : )", txt, flags=re.M)
    stmts = {}
    for b in blocks:
        m = re.match(r"([A-Za-z_0-9']+)\n     : (.*)", b, re.S)
        if m:
            stmts[m.group(1)] = m.group(2).rstrip()
    body = "(* %s *)\n%s\nFrom OAS Require Import %s.\n%s\n\n" % (header_comment, PRELUDE, imports, SCOPE)
    for name, lem, comment in items:
        st = stmts[lem]
        st = "\n".join("  " + l[7:] if l.startswith("       ") else "  " + l for l in st.split("\n"))
        if comment:
            body += "(* %s *)\n" % comment
        body += "Theorem %s :\n%s.\nProof. exact %s. Qed.\nPrint Assumptions %s.\n\n" % (name, st, lem, name)
    open(os.path.join(COQ, "Props", outfile), "w").write(body)
    os.remove(tmp)
    for f in (tmp[:-2] + ".vo", tmp[:-2] + ".glob", tmp[:-2] + ".vok", tmp[:-2] + ".vos"):
        if os.path.exists(f): os.remove(f)


def c02():
    imports = ("Scalar Rops Sums Deriv Dual DualProofs Adjoint AdjointProofs Beam BeamTables BeamProofs BeamDeriv Aero AeroDeriv Mphys ComposeProofs Transfer TransferDeriv")
    items = [
        ("C02_forward_and_reverse_totals_coincide", "fwd_eq_rev", "for ANY solutions Phi of A Phi = -B and Psi of A^T Psi = C^T (any sizes; no inverse needed): D + C Phi = D - Psi^T B"),
        ("C02_exact_linear_solves_are_unique", "solution_unique", "solver independence: whatever linear solver produced an exact solution, it is THE solution (left inverse suffices)"),
        ("C02_forward_solve_is_derivative_of_converged_analysis", "implicit_linear_derivative", "if A(t) u(t) = b(t) for all t, then u' solves A u' = b' - A' u: what the forward mode computes for SolveMatrix and FEM"),
        ("C02_SolveMatrix_partials", "solve_residual_DR", "the linearisation of the two implicit components (C01)"),
        ("C02_FEM_partials", "fem_residual_DR", None),
        ("C02_element_stiffness_symmetric", "permuted_local_stiff_symmetric", "symmetry of the stiffness matrix, from the GENERATED coefficient tables, through permutation, congruence and assembly"),
        ("C02_congruence_preserves_symmetry", "transformed_symmetric", None),
        ("C02_assembled_stiffness_symmetric", "K_aug_symmetric", None),
        ("C02_FEM_reverse_solve_with_forward_factorisation_is_correct", "fem_rev_correct", "FEM.solve_linear re-uses the factorisation of K in reverse mode: correct because K is symmetric"),
        ("C02_FEM_reverse_solve_would_be_wrong_without_symmetry", "fem_rev_refuted_if_unsym", "the dependence on symmetry is real: any edit that breaks the symmetry of K breaks the obligation above"),
        ("C02_mux_then_demux", "demux_mux", "the matrix-free MPhys components: index maps are mutually inverse and adjoint"),
        ("C02_demux_then_mux", "mux_demux", None),
        ("C02_mux_demux_adjoint", "mux_adjoint", None),
        ("C02_chain_of_components_example", "def_mesh_group_DR", "chain rule: a derivative theorem of C01 takes ARBITRARY differentiable input curves, so it applies to the outputs of upstream components; e.g. nodes -> transformation matrix -> deformed mesh"),
        ("C02_chain_VLMStates_to_linear_system", "chain_residual_DR", "the whole VLMStates wiring up to the linear system (deformed mesh, alpha, beta, v, circulations -> residual of the aerodynamic system) composed from the component theorems; any panel count"),
    ]
    gen("C02.v", "C02 - coupled total derivatives are correct and identical in forward and reverse mode.  Property theorems only (statements printed by Coq from Real/AdjointProofs.v, BeamProofs.v, ComposeProofs.v, *Deriv.v)", imports, items)


def c12():
    imports = ("Scalar Rops Sums Coupling CouplingProofs Transfer TransferProofs")
    items = [
        ("C12_fixed_point_of_the_sweep_is_consistent_in_both_disciplines", "fixed_point_is_consistent", "u = S(A(u)) iff (loads = A(u) and u = S(loads)): at convergence the loads are those of the flow about the mesh deformed by u, and u is the response to these loads"),
        ("C12_fixed_point_unique_hence_path_independent", "fixed_point_unique", "a contractive coupling has at most one fixed point, whatever solver, initial guess or history found it (state vectors of any size)"),
        ("C12_converged_states_agree_to_tolerance", "converged_states_agree", "two states converged to tolerance eps (block Gauss-Seidel with / without Aitken, Newton, any linear solver) differ by at most 2 eps / (1 - q)"),
        ("C12_flight_points_isolated", "multipoint_isolated", "the state of a flight point is a function of that point's inputs alone"),
        ("C12_stiffness_scaling", "stiff_structure_small_displacement", "scaling the stiffness by k scales the displacements by 1/k ..."),
        ("C12_stiff_limit", "stiff_limit", "... which vanish as k grows; with zero displacement the displacement transfer is the identity (C11_disp_zero_identity), i.e. the rigid analysis"),
    ]
    gen("C12.v", "C12 - the coupled aerostructural state is a consistent, path-independent fixed point.  Property theorems only (Real/CouplingProofs.v)", imports, items)


def c20():
    imports = ("SetupKeys Setup SetupProofs RaiseSites RaiseSitesReviewed RaiseSitesProofs")
    items = [
        ("C20_even_num_y_rejected", "even_num_y_rejected", "generate_mesh"),
        ("C20_unknown_wing_type_rejected", "unknown_wing_type_rejected", None),
        ("C20_valid_mesh_request_accepted", "valid_mesh_request_accepted", None),
        ("C20_unknown_mesh_key_warns", "unknown_mesh_key_warns", "over the key list GENERATED from get_default_geo_dict"),
        ("C20_known_mesh_keys_do_not_warn", "known_mesh_keys_do_not_warn", None),
        ("C20_missing_important_key_warns", "missing_important_key_warns", None),
        ("C20_unknown_surface_key_warns", "unknown_surface_key_warns", "over the key list GENERATED from check_surface_dict_keys"),
        ("C20_documented_surface_keys_do_not_warn", "documented_surface_keys_do_not_warn", None),
        ("C20_ground_effect_without_symmetry_rejected", "ground_effect_without_symmetry_rejected", "for any list of surfaces"),
        ("C20_ground_effect_with_symmetry_accepted", "ground_effect_with_symmetry_accepted", None),
        ("C20_unknown_structural_model_rejected", "unknown_structural_model_rejected", None),
        ("C20_only_one_wingbox_thickness_rejected", "only_one_wingbox_thickness_rejected", None),
        ("C20_valid_structural_models_accepted", "valid_structural_models_accepted", None),
        ("C20_wrong_length_section_lists_rejected", "wrong_length_section_lists_rejected", "multi-section surfaces, any number of sections"),
        ("C20_right_length_section_lists_accepted", "right_length_section_lists_accepted", None),
        ("C20_asymmetric_sections_need_root", "asymmetric_sections_need_root", None),
        ("C20_rejection_guards_are_the_reviewed_ones", "raise_sites_reviewed", "translator tie: every raise statement of the package with the chain of conditions guarding it, REGENERATED from /repo on every run, equals the list the decision model was written from (Model/RaiseSitesReviewed.v); any edit of a guard breaks this obligation"),
        ("C20_parity_guard_does_not_depend_on_symmetry_or_wing_type", "parity_guard_alone", None),
    ]
    gen("C20.v", "C20 - invalid set-ups are rejected loudly; valid ones are accepted; unknown keys warn.  Property theorems only (Real/SetupProofs.v over Model/Setup.v and the generated key lists)", imports, items)


if __name__ == "__main__":
    which = sys.argv[1]
    if which == "C20":
        SCOPE = "Open Scope string_scope."
        PRELUDE = "From Coq Require Import ZArith Lia Arith Bool List String.\nImport ListNotations."
        c20(); sys.exit(0)
    if which == "C12":
        c12(); sys.exit(0)
    if which == "C02":
        c02(); sys.exit(0)
    if which == "C01":
        imports = ("Scalar Rops Sums Deriv Dual DualProofs Drag DragDeriv Stress StressDeriv StressProofs Transfer TransferDeriv Loads LoadsDeriv "
                   "Functionals FunctionalsDeriv Aero AeroDeriv PG PGDeriv Beam BeamTables BeamDeriv Geom GeomDeriv Misc MiscDeriv MultiSec MultiSecDeriv Wingbox WingboxDeriv Small SmallDeriv Mphys MphysDeriv")
        items = [
            ("C01_dual_number_tangent_is_the_partial_derivative", "DR_partial", "the meaning of every statement below: the tangent part of the dual-number evaluation is the coordinate partial derivative"),
            ("C01_seeded_coordinate", "DR_upd1", None),
            ("C01_ViscousDrag", "viscous_CDv_DR", "aerodynamics/viscous_drag.py (k, cmax are options of the surface)"),
            ("C01_WaveDrag", "wave_CDw_DR", "aerodynamics/wave_drag.py, off the onset M = Mcrit"),
            ("C01_TotalDrag", "total_drag_DR", None),
            ("C01_VonMisesTube", "vm_tube_DR", "structures/vonmises_tube.py, off zero bending rotation / zero stress"),
            ("C01_VonMisesWingbox", "vm_wingbox_DR", "structures/vonmises_wingbox.py (partials declared by complex step in the code)"),
            ("C01_FailureExact", "failure_exact_DR", "structures/failure_exact.py; FailureKS is C15_ks_reported_derivative"),
            ("C01_NonIntersectingThickness", "thickness_intersects_DR", None),
            ("C01_SectionPropertiesTube", "tube_section_DR", None),
            ("C01_ComputeNodes", "nodes_DR", None),
            ("C01_LoadTransfer", "lt_loads_DR", "transfer/load_transfer.py"),
            ("C01_ComputeTransformationMatrix", "transf_mtx_DR", None),
            ("C01_DisplacementTransfer", "def_mesh_DR", None),
            ("C01_DisplacementTransferGroup", "def_mesh_group_DR", "the chain nodes -> transformation matrix -> deformed mesh"),
            ("C01_MeshPointForces", "mesh_point_forces_DR", None),
            ("C01_Weight_element", "element_mass_DR", None),
            ("C01_Weight_total", "structural_mass_DR", None),
            ("C01_StructuralCG", "cg_location_DR", None),
            ("C01_StructureWeightLoads", "struct_weight_loads_DR", None),
            ("C01_FuelLoads", "fuel_weight_loads_DR", "partials declared by complex step in the code"),
            ("C01_WingboxFuelVols", "fuel_vols_DR", None),
            ("C01_WingboxFuelVolDelta_pure_member", "fuel_vol_delta_DR", "the pure function; the code's in-place halving of its input is recorded finding F09"),
            ("C01_ComputePointMassLoads", "loads_from_point_masses_DR", None),
            ("C01_ComputeThrustLoads", "loads_from_thrusts_DR", None),
            ("C01_TotalLoads", "total_loads_DR", None),
            ("C01_SumAreas", "sum_areas_DR", None),
            ("C01_TotalLiftDrag_force", "tld_force_DR", None),
            ("C01_TotalLiftDrag_coefficient", "tld_coeff_DR", None),
            ("C01_Equilibrium_total_weight", "eq_total_weight_DR", None),
            ("C01_Equilibrium_L_equals_W", "eq_LW_DR", None),
            ("C01_BreguetRange", "breguet_DR", None),
            ("C01_CenterOfGravity", "cog_DR", None),
            ("C01_ReynoldsComp", "reynolds_DR", None),
            ("C01_AtmosComp_speed", "speed_DR", None),
            ("C01_MomentCoefficient_M", "moment_M_DR", None),
            ("C01_MomentCoefficient_CM", "moment_CM_DR", None),
            ("C01_CollocationPoints_coll_pts", "coll_pts_DR", None),
            ("C01_CollocationPoints_force_pts", "force_pts_c_DR", None),
            ("C01_CollocationPoints_bound_vecs", "bound_vecs_DR", None),
            ("C01_VortexMesh", "vortex_mesh_DR", "ghost (left / right) and ground image, alpha and height included"),
            ("C01_GetVectors", "get_vectors_DR", None),
            ("C01_vortex_segment_kernel", "fv_DR", None),
            ("C01_semi_infinite_filament_kernel", "semi_DR", None),
            ("C01_EvalVelMtx", "vel_mtx_DR", "aerodynamics/eval_mtx.py: symmetric folding, ground image, right-wing flip, wake direction alpha"),
            ("C01_VLMGeometry_lengths_spanwise", "g_lengths_spanwise_DR", None),
            ("C01_VLMGeometry_widths", "g_widths_DR", None),
            ("C01_VLMGeometry_lengths", "g_lengths_DR", None),
            ("C01_VLMGeometry_chords", "g_chords_DR", None),
            ("C01_VLMGeometry_normals", "g_normals_DR", None),
            ("C01_VLMGeometry_S_ref", "g_Sref_DR", "wetted or projected"),
            ("C01_ConvertVelocity", "freestream_DR", None),
            ("C01_RotationalVelocity", "rot_vel_DR", None),
            ("C01_VLMMtxRHSComp_mtx", "aic_mtx_DR", None),
            ("C01_VLMMtxRHSComp_rhs", "aic_rhs_DR", None),
            ("C01_SolveMatrix_residual", "solve_residual_DR", "implicit component: the linearisation of the residual"),
            ("C01_VLMStates_chain_to_residual", "chain_residual_DR", "the composed wiring mesh -> vectors -> influence matrix, right-hand side -> residual"),
            ("C01_HorseshoeCirculations", "horseshoe_DR", None),
            ("C01_EvalVelocities", "eval_velocity_DR", None),
            ("C01_PanelForces", "panel_force_DR", None),
            ("C01_LiftDrag_lift", "lift_DR", None),
            ("C01_LiftDrag_drag", "drag_DR", None),
            ("C01_Coeffs", "coeff_DR", None),
            ("C01_LiftCoeff2D", "lift_coeff_2d_DR", None),
            ("C01_RotateToWindFrame", "to_wind_DR", "PG components: partials declared by complex step in the code"),
            ("C01_RotateFromWindFrame", "from_wind_DR", None),
            ("C01_ScaleToPrandtlGlauert_points", "pg_point_DR", None),
            ("C01_ScaleToPrandtlGlauert_normals", "pg_normal_DR", None),
            ("C01_ScaleToPrandtlGlauert_rotational_velocities", "pg_rotvel_DR", None),
            ("C01_ScaleFromPrandtlGlauert_forces", "pg_force_back_DR", None),
            ("C01_Length", "elem_length_DR", None),
            ("C01_LocalStiff", "local_stiff_DR", None),
            ("C01_LocalStiffPermuted", "permuted_DR", None),
            ("C01_Transform", "transform_DR", None),
            ("C01_LocalStiffTransformed", "transformed_DR", None),
            ("C01_FEM_residual", "fem_residual_DR", "implicit component: dR/du = K_aug, dR/dK_e, dR/dforces"),
            ("C01_CreateRHS", "create_rhs_DR", "off the tiny-load zeroing threshold"),
            ("C01_Disp", "disp_of_DR", None),
            ("C01_Taper", "taper_mesh_DR", "geometry transformations; the mesh is an option of Taper"),
            ("C01_Taper_partial_at_one_is_not_zero", "taper_partial_at_one_nonzero", "what the special case of the unrepaired compute_partials returned (0) was wrong (fixed finding F01)"),
            ("C01_ScaleX", "scalex_mesh_DR", None),
            ("C01_Sweep", "sweep_mesh_DR", None),
            ("C01_Dihedral", "dihedral_mesh_DR", None),
            ("C01_ShearXYZ", "shear_mesh_DR", None),
            ("C01_Stretch", "stretch_mesh_DR", None),
            ("C01_Rotate", "rotate_mesh_DR", None),
            ("C01_RadiusComp", "radius_comp_DR", None),
            ("C01_MonotonicConstraint", "monotonic_DR", None),
            ("C01_Energy", "energy_DR", None),
            ("C01_GeomMultiUnification", "unify_DR", "multi-section wings: any number of sections, with and without the leading-edge shift"),
            ("C01_GeomMultiJoin", "join_sep_DR", None),
            ("C01_SectionPropertiesWingbox", "wb_out_DR", "structures/section_properties_wingbox.py (partials declared by complex step): all eleven outputs, any number of airfoil points, at every admissible point (record wb_admissible: what the formulas divide by or take the root of)"),
            ("C01_SectionPropertiesWingbox_admissible_points_exist", "wb_admissible_box", "non-vacuity: a rectangular box satisfies wb_admissible"),
            ("C01_SectionPropertiesWingbox_extreme_fibre_needs_no_unique_maximum", "ks_max_DR", "htop / hbottom: the max-shift of the KS function is immaterial (lse_shift), so ties in the airfoil ordinates are not a non-smooth point"),
            ("C01_WingboxGeometry_streamwise_chords", "wg_sw_DR", "structures/wingbox_geometry.py (partials declared by finite differences)"),
            ("C01_WingboxGeometry_fem_chords", "wg_fem_chord_DR", None),
            ("C01_WingboxGeometry_fem_twists", "wg_fem_twist_DR", "only where both end sections are twisted (wg_twisted): the arccosine twist measure has a kink at zero twist - finding F13"),
            ("C01_SparWithinWing", "spar_within_wing_DR", "structures/spar_within_wing.py: mesh, radius AND t_over_c"),
            ("C01_SparWithinWing_t_over_c_partial_is_not_zero", "spar_within_wing_toc_partial_nonzero", "what the unrepaired component reported (no declared partial, i.e. zero) was wrong: fixed finding F14"),
            ("C01_TotalLift", "total_lift_DR", None),
            ("C01_MultiCD", "multi_cd_DR", "integration/multipoint_comps.py, any number of flight points"),
            ("C01_PanelForcesSurf", "panel_forces_surf_DR", "the block of the global panel-force array of one surface (offset = panels of the surfaces before it)"),
            ("C01_DemuxSurfaceMesh", "demux_DR", "mphys/demux_surface_mesh.py (matrix-free: the forward product applies the same gather to the perturbation; reverse mode = transpose is C19_mux_demux_adjoint)"),
            ("C01_MuxSurfaceForces", "mux_DR", "mphys/mux_surface_forces.py, any number of surfaces"),
            ("C01_WingboxGeometry_twist_measure_refuted_at_zero_twist", "wg_theta_not_differentiable_at_zero_twist", "the hypothesis wg_twisted cannot be dropped: at an untwisted section (the default mesh) the twist measure is |twist|, which has no derivative; the code nevertheless reports one (finding F13, replayed on the implementation by the oracle WingboxGeometry.untwisted-sections)"),
        ]
        hdr = "C01 - analytic component derivatives equal the true derivatives.  Property theorems only (statements printed by Coq from the libraries Real/*Deriv.v).  DR g t0 p  :=  g t0 = fst p /\\ is_derive g t0 (snd p);  every theorem says: along ANY differentiable curve of the inputs, the dual-number evaluation of the component model gives the value and the derivative - hence every partial derivative (C01_dual_number_tangent_is_the_partial_derivative) and, by composition, every chain of components"
        old = [f for f in os.listdir(os.path.join(COQ, "Props")) if f.startswith("C01")]
        for f in old: os.remove(os.path.join(COQ, "Props", f))
        n = 12
        for k in range(0, len(items), n):
            gen("C01_%s.v" % chr(ord("a") + k // n), hdr + " (part %d)" % (k // n + 1), imports, items[k:k + n])
