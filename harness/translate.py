"""translate.py — fail-closed translator  /repo source  ->  coq/Generated/*.v

Regenerated on every check run.  It extracts, with Python's `ast`, the numeric constants, tables and
branch literals the theorems depend on, and writes them as Gallina definitions polymorphic in Ops.
Lemmas in coq/Real/*Proofs.v and coq/Props/*.v that mention them are re-checked by `make` against
what the code says now.  Anything of an unexpected shape is an error (never a guess)."""
import ast, os, sys, re
from fractions import Fraction
from decimal import Decimal

REPO = os.environ.get("OAS_REPO", "/repo")
HERE = os.path.dirname(os.path.abspath(__file__))
ROOT = os.path.dirname(HERE)
GEN = os.path.join(ROOT, "coq", "Generated")


class Refuse(Exception):
    pass


_trees = {}


def tree(relpath):
    if relpath not in _trees:
        p = os.path.join(REPO, relpath)
        src = open(p, encoding="utf-8").read()
        _trees[relpath] = (ast.parse(src), src)
    return _trees[relpath]


def find_class(t, name):
    for n in t.body:
        if isinstance(n, ast.ClassDef) and n.name == name:
            return n
    raise Refuse("class %s not found" % name)


def find_func(scope, name):
    for n in scope.body:
        if isinstance(n, ast.FunctionDef) and n.name == name:
            return n
    raise Refuse("function %s not found" % name)


def num_text(node, src):
    seg = ast.get_source_segment(src, node)
    if seg is None:
        raise Refuse("no source segment")
    return seg.strip()


def coq_of_const_expr(node, src):
    """constant arithmetic -> Coq term over Ops (exact decimal fractions)"""
    if isinstance(node, ast.Constant) and isinstance(node.value, (int, float)) and not isinstance(node.value, bool):
        txt = num_text(node, src).replace("_", "")
        fr = Fraction(Decimal(txt))
        if fr.denominator == 1:
            return "#(%d)" % fr.numerator
        # keep the decimal denominator (a power of ten) so that the float instance divides two exact integers
        d = Decimal(txt)
        exp = -d.as_tuple().exponent
        if exp <= 0:
            return "#(%d)" % int(d)
        den = 10 ** exp
        num = int(d * den)
        return "(ofrac (%d) (%d))" % (num, den)
    if isinstance(node, ast.UnaryOp) and isinstance(node.op, ast.USub):
        return "(oopp %s)" % coq_of_const_expr(node.operand, src)
    if isinstance(node, ast.BinOp):
        a, b = coq_of_const_expr(node.left, src), coq_of_const_expr(node.right, src)
        op = {ast.Add: "+!", ast.Sub: "-!", ast.Mult: "*!", ast.Div: "/!"}.get(type(node.op))
        if op is None:
            raise Refuse("unsupported operator in constant expression: %s" % ast.dump(node.op))
        return "(%s %s %s)" % (a, op, b)
    raise Refuse("not a constant arithmetic expression: %s" % ast.dump(node)[:200])


def value_of_const_expr(node, src):
    if isinstance(node, ast.Constant) and isinstance(node.value, (int, float)) and not isinstance(node.value, bool):
        return Fraction(Decimal(num_text(node, src).replace("_", "")))
    if isinstance(node, ast.UnaryOp) and isinstance(node.op, ast.USub):
        return -value_of_const_expr(node.operand, src)
    if isinstance(node, ast.BinOp):
        a, b = value_of_const_expr(node.left, src), value_of_const_expr(node.right, src)
        if isinstance(node.op, ast.Add): return a + b
        if isinstance(node.op, ast.Sub): return a - b
        if isinstance(node.op, ast.Mult): return a * b
        if isinstance(node.op, ast.Div): return a / b
    raise Refuse("not constant")


# ---- locators ---------------------------------------------------------------------------------
def option_default(relpath, cls, opt):
    t, src = tree(relpath)
    c = find_class(t, cls)
    f = find_func(c, "initialize")
    for n in ast.walk(f):
        if isinstance(n, ast.Call) and isinstance(n.func, ast.Attribute) and n.func.attr == "declare" \
                and n.args and isinstance(n.args[0], ast.Constant) and n.args[0].value == opt:
            for kw in n.keywords:
                if kw.arg == "default":
                    return kw.value, src
    raise Refuse("%s: option %s of %s has no literal default" % (relpath, opt, cls))


def self_attr_assign(relpath, cls, method, attr):
    t, src = tree(relpath)
    f = find_func(find_class(t, cls), method)
    hits = []
    for n in ast.walk(f):
        if isinstance(n, ast.Assign):
            for tg in n.targets:
                if isinstance(tg, ast.Attribute) and isinstance(tg.value, ast.Name) and tg.value.id == "self" and tg.attr == attr:
                    hits.append(n.value)
                if isinstance(tg, ast.Tuple):
                    pass
    if len(hits) != 1:
        raise Refuse("%s: expected exactly one assignment self.%s in %s.%s, found %d" % (relpath, attr, cls, method, len(hits)))
    return hits[0], src


def module_assign(relpath, name):
    t, src = tree(relpath)
    hits = [n.value for n in t.body if isinstance(n, ast.Assign) and any(isinstance(tg, ast.Name) and tg.id == name for tg in n.targets)]
    if len(hits) != 1:
        raise Refuse("%s: expected exactly one module-level assignment of %s, found %d" % (relpath, name, len(hits)))
    return hits[0], src


def local_assign(relpath, cls, method, name, index=None):
    t, src = tree(relpath)
    scope = find_class(t, cls) if cls else t
    f = find_func(scope, method)
    hits = []
    for n in ast.walk(f):
        if isinstance(n, ast.Assign):
            for tg in n.targets:
                if isinstance(tg, ast.Name) and tg.id == name:
                    hits.append(n.value)
    if index is None:
        if len(hits) != 1:
            raise Refuse("%s: expected exactly one assignment of %s in %s.%s, found %d" % (relpath, name, cls, method, len(hits)))
        return hits[0], src
    return hits[index], src


# ---- the table of scalar constants ---------------------------------------------------------------
# (coq name, properties that depend on it, locator)
SCALARS = [
    ("gen_mpf_le_wt", ["C11"], lambda: option_default("openaerostruct/aerodynamics/mesh_point_forces.py", "MeshPointForces", "le_wt")),
    ("gen_mpf_te_wt", ["C11"], lambda: option_default("openaerostruct/aerodynamics/mesh_point_forces.py", "MeshPointForces", "te_wt")),
    ("gen_lt_w1", ["C11"], lambda: self_attr_assign("openaerostruct/transfer/load_transfer.py", "LoadTransfer", "setup", "w1")),
]

def consts_in_local_assign(relpath, cls, method, name, expect):
    """the numeric literals appearing in the (single) assignment `name = ...` of a method, in order"""
    node, src = local_assign(relpath, cls, method, name)
    cs = [n for n in ast.walk(node) if isinstance(n, ast.Constant) and isinstance(n.value, (int, float)) and not isinstance(n.value, bool)]
    cs.sort(key=lambda n: (n.lineno, n.col_offset))
    if len(cs) != expect:
        raise Refuse("%s: %s.%s `%s = ...` has %d numeric literals, expected %d" % (relpath, cls, method, name, len(cs), expect))
    return cs, src


def pick(fn, k):
    def f():
        cs, src = fn()
        return cs[k], src
    return f


SCALARS += [
    ("gen_grav_constant", ["C16", "C17"], lambda: module_assign("openaerostruct/utils/constants.py", "grav_constant")),
    ("gen_pm_eps", ["C16"], pick(lambda: consts_in_local_assign("openaerostruct/structures/compute_point_mass_loads.py", "ComputePointMassLoads", "compute", "inv_dist10", 2), 1)),
    ("gen_pm_power", ["C16"], pick(lambda: consts_in_local_assign("openaerostruct/structures/compute_point_mass_loads.py", "ComputePointMassLoads", "compute", "dist10", 1), 0)),
    ("gen_th_eps", ["C16"], pick(lambda: consts_in_local_assign("openaerostruct/structures/compute_thrust_loads.py", "ComputeThrustLoads", "compute", "inv_dist10", 2), 1)),
    ("gen_th_power", ["C16"], pick(lambda: consts_in_local_assign("openaerostruct/structures/compute_thrust_loads.py", "ComputeThrustLoads", "compute", "dist10", 1), 0)),
]

FAILED = []      # (name, props, message) of items the translator refused on this run
TABLES = []      # filled by later sections (name, props, function returning coq text)
EXTRA = []       # (filename, props, function returning full file text)


def gen_constants():
    lines = ["(* GENERATED by harness/translate.py from %s — do not edit *)" % REPO,
             "From Coq Require Import ZArith List.", "From OAS Require Import Scalar.", "Import ListNotations.", "",
             "Section Gen.", "  Context {T : Type} {K : Ops T}."]
    for name, props, loc in SCALARS:
        try:
            node, src = loc()
            lines.append("  Definition %s : T := %s.   (* %s *)" % (name, coq_of_const_expr(node, src), num_text(node, src)))
        except (Refuse, SyntaxError, OSError, IndexError, KeyError, ValueError) as e:
            FAILED.append((name, props, "%s: %s" % (type(e).__name__, e)))
    for name, props, fn in TABLES:
        try:
            lines.append(fn())
        except (Refuse, SyntaxError, OSError, IndexError, KeyError, ValueError) as e:
            FAILED.append((name, props, "%s: %s" % (type(e).__name__, e)))
    lines.append("End Gen.")
    return "\n".join(lines) + "\n"


def write_if_changed(path, text):
    old = open(path).read() if os.path.exists(path) else None
    if old != text:
        with open(path, "w") as f:
            f.write(text)
        return True
    return False


def run():
    """returns (ok, log)"""
    _trees.clear()
    del FAILED[:]
    try:
        os.makedirs(GEN, exist_ok=True)
        changed = []
        if write_if_changed(os.path.join(GEN, "Constants.v"), gen_constants()):
            changed.append("Constants.v")
        for fname, props, fn in EXTRA:
            try:
                txt = fn()
            except (Refuse, SyntaxError, OSError, IndexError, KeyError, ValueError) as e:
                FAILED.append((fname, props, "%s: %s" % (type(e).__name__, e)))
                continue
            if write_if_changed(os.path.join(GEN, fname), txt):
                changed.append(fname)
        return True, "generated; changed: %s" % (", ".join(changed) or "nothing")
    except Refuse as e:
        return False, str(e)
    except (SyntaxError, OSError, IndexError, KeyError, ValueError) as e:
        return False, "%s: %s" % (type(e).__name__, e)


def obligations_for(prop):
    obl = [n for n, props, _ in SCALARS if prop in props]
    obl += [n for n, props, _ in TABLES if prop in props]
    obl += [n for n, props, _ in EXTRA if prop in props]
    return obl




# ---- key lists of the set-up checks (geometry/utils.py, utils/check_surface_dict.py) ----------------
def _str_list(node):
    if not isinstance(node, (ast.List, ast.Tuple)) or not all(isinstance(e, ast.Constant) and isinstance(e.value, str) for e in node.elts):
        raise Refuse("expected a list of string literals")
    return [e.value for e in node.elts]


def gen_setup_keys():
    t, src = tree("openaerostruct/geometry/utils.py")
    f = find_func(t, "get_default_geo_dict")
    dflt = None
    for n in ast.walk(f):
        if isinstance(n, ast.Assign) and isinstance(n.value, ast.Dict) and len(n.targets) == 1 and isinstance(n.targets[0], ast.Name) and n.targets[0].id == "defaults":
            if not all(isinstance(k, ast.Constant) and isinstance(k.value, str) for k in n.value.keys):
                raise Refuse("default geo dict keys are not string literals")
            dflt = [k.value for k in n.value.keys]
    if dflt is None:
        raise Refuse("defaults dict not found in get_default_geo_dict")
    g = find_func(t, "generate_mesh")
    important = None
    for n in ast.walk(g):
        if isinstance(n, ast.For) and isinstance(n.iter, ast.List) and isinstance(n.target, ast.Name) and n.target.id == "key":
            important = _str_list(n.iter)
    if important is None:
        raise Refuse("list of important keys not found in generate_mesh")
    t2, src2 = tree("openaerostruct/utils/check_surface_dict.py")
    c = find_func(t2, "check_surface_dict_keys")
    impl = None
    for n in ast.walk(c):
        if isinstance(n, ast.Assign) and len(n.targets) == 1 and isinstance(n.targets[0], ast.Name) and n.targets[0].id == "keys_implemented":
            impl = _str_list(n.value)
    if impl is None:
        raise Refuse("keys_implemented not found")

    def lst(xs):
        return "[" + "; ".join('"%s"' % x for x in xs) + "]"
    return ("(* GENERATED by harness/translate.py - do not edit *)\nFrom Coq Require Import String List.\nImport ListNotations.\nOpen Scope string_scope.\n"
            "Definition gen_mesh_dict_keys : list string := %s.\nDefinition gen_mesh_dict_important : list string := %s.\nDefinition gen_surface_keys_implemented : list string := %s.\n" % (lst(dflt), lst(important), lst(impl)))


# ---- atmosphere tables (common/atmos_comp.py) --------------------------------------------------
def _attr_array_assign(relpath, obj, attr):
    t, src = tree(relpath)
    hits = []
    for n in t.body:
        if isinstance(n, ast.Assign) and len(n.targets) == 1:
            tg = n.targets[0]
            if isinstance(tg, ast.Attribute) and isinstance(tg.value, ast.Name) and tg.value.id == obj and tg.attr == attr:
                hits.append(n.value)
    if len(hits) != 1:
        raise Refuse("%s: expected exactly one assignment %s.%s, found %d" % (relpath, obj, attr, len(hits)))
    v = hits[0]
    if not (isinstance(v, ast.Call) and isinstance(v.func, ast.Attribute) and v.func.attr == "array" and len(v.args) == 1
            and isinstance(v.args[0], ast.List)):
        raise Refuse("%s: %s.%s is not np.array([...])" % (relpath, obj, attr))
    out = []
    for e in v.args[0].elts:
        neg = False
        if isinstance(e, ast.UnaryOp) and isinstance(e.op, ast.USub):
            neg, e = True, e.operand
        if not (isinstance(e, ast.Constant) and isinstance(e.value, (int, float)) and not isinstance(e.value, bool)):
            raise Refuse("%s: non-literal entry in %s.%s" % (relpath, obj, attr))
        d = Decimal(num_text(e, src).replace("_", ""))
        if neg:
            d = -d
        exp = max(0, -d.as_tuple().exponent)
        den = 10 ** exp
        out.append((int(d * den), den))
    return out


def gen_atmos_table():
    rel = "openaerostruct/common/atmos_comp.py"
    cols = [("alt", "alt"), ("T", "T"), ("P", "P"), ("rho", "rho"), ("a", "a"), ("mu", "viscosity")]
    lines = ["(* GENERATED by harness/translate.py from %s/%s — do not edit *)" % (REPO, rel),
             "From Coq Require Import ZArith QArith List.", "From OAS Require Import Scalar.", "Import ListNotations.", "Local Open Scope Z_scope.", ""]
    n = None
    for cname, attr in cols:
        data = _attr_array_assign(rel, "USatm1976Data", attr)
        if n is None:
            n = len(data)
        if len(data) != n:
            raise Refuse("atmosphere table columns have different lengths")
        lines.append("Definition atm_%s_zz : list (Z * Z) := [%s]." % (cname, "; ".join("(%d, %d)" % p for p in data)))
    lines.append("Definition atm_n : nat := %d%%nat." % n)
    lines.append("")
    lines.append("Definition zz2q (p : Z * Z) : Q := Qmake (fst p) (Z.to_pos (snd p)).")
    for cname, _ in cols:
        lines.append("Definition atm_%s_q : list Q := map zz2q atm_%s_zz." % (cname, cname))
    lines.append("Section Poly.")
    lines.append("  Context {T : Type} {K : Ops T}.")
    lines.append("  Definition zz2t (p : Z * Z) : T := ofrac (fst p) (snd p).")
    for cname, _ in cols:
        lines.append("  Definition atm_%s : list T := map zz2t atm_%s_zz." % (cname, cname))
    lines.append("End Poly.")
    return "\n".join(lines) + "\n"


EXTRA.append(("AtmosTable.v", ["C17"], gen_atmos_table))
EXTRA.append(("SetupKeys.v", ["C20"], gen_setup_keys))


# ---- beam element tables (structures/local_stiff.py, local_stiff_permuted.py) -----------------
def _module_array(relpath, name):
    node, src = module_assign(relpath, name)
    if not (isinstance(node, ast.Call) and isinstance(node.func, ast.Attribute) and node.func.attr == "array" and len(node.args) == 1):
        raise Refuse("%s: %s is not np.array(...)" % (relpath, name))
    return node.args[0], src


def _zz(e, src):
    neg = False
    if isinstance(e, ast.UnaryOp) and isinstance(e.op, ast.USub):
        neg, e = True, e.operand
    if not (isinstance(e, ast.Constant) and isinstance(e.value, (int, float)) and not isinstance(e.value, bool)):
        raise Refuse("non-literal table entry")
    d = Decimal(num_text(e, src).replace("_", ""))
    if neg:
        d = -d
    fr = Fraction(d)
    return fr.numerator, fr.denominator


def gen_beam_tables():
    rel = "openaerostruct/structures/local_stiff.py"
    lines = ["(* GENERATED by harness/translate.py from %s/openaerostruct/structures/local_stiff*.py — do not edit *)" % REPO,
             "From Coq Require Import ZArith List.", "From OAS Require Import Scalar.", "Import ListNotations.", "Local Open Scope Z_scope.", ""]
    for name, n in (("coeffs_2", 2), ("coeffs_y", 4), ("coeffs_z", 4)):
        lst, src = _module_array(rel, name)
        if not (isinstance(lst, ast.List) and len(lst.elts) == n and all(isinstance(r, ast.List) and len(r.elts) == n for r in lst.elts)):
            raise Refuse("%s is not a %dx%d literal" % (name, n, n))
        rows = []
        for r in lst.elts:
            vals = [_zz(e, src) for e in r.elts]
            if any(d != 1 for _, d in vals):
                raise Refuse("%s has a non-integer entry" % name)
            rows.append("[" + "; ".join(str(v) for v, _ in vals) + "]")
        lines.append("Definition gen_%s : list (list Z) := [%s]." % (name, "; ".join(rows)))
    lst, src = _module_array("openaerostruct/structures/local_stiff_permuted.py", "col_indices")
    if not (isinstance(lst, ast.List) and len(lst.elts) == 12):
        raise Refuse("col_indices is not a list of 12")
    cols = [_zz(e, src)[0] for e in lst.elts]
    lines.append("Definition gen_col_indices : list nat := [%s]%%nat." % "; ".join(str(c) for c in cols))
    # the Lagrange weight of the clamping rows and the zeroing threshold of CreateRHS
    t, src = tree("openaerostruct/structures/fem.py")
    f = find_func(find_class(t, "FEM"), "assemble_CSC_K")
    w = [n for n in ast.walk(f) if isinstance(n, ast.Call) and isinstance(n.func, ast.Attribute) and n.func.attr == "full"]
    if len(w) != 1 or not isinstance(w[0].args[1], ast.Constant):
        raise Refuse("fem.py: constraint weight np.full((6,), <literal>) not found")
    lines.append("Section GenBeam.\n  Context {T : Type} {K : Ops T}.")
    lines.append("  Definition gen_clamp_weight : T := %s.   (* %s *)" % (coq_of_const_expr(w[0].args[1], src), num_text(w[0].args[1], src)))
    t, src = tree("openaerostruct/structures/create_rhs.py")
    f = find_func(find_class(t, "CreateRHS"), "compute")
    cmp_ = [n for n in ast.walk(f) if isinstance(n, ast.Compare)]
    if len(cmp_) != 1 or not isinstance(cmp_[0].ops[0], ast.Lt) or not isinstance(cmp_[0].comparators[0], ast.Constant):
        raise Refuse("create_rhs.py: threshold comparison not found")
    lines.append("  Definition gen_rhs_threshold : T := %s.   (* %s *)" % (coq_of_const_expr(cmp_[0].comparators[0], src), num_text(cmp_[0].comparators[0], src)))
    lines.append("End GenBeam.")
    return "\n".join(lines) + "\n"


EXTRA.append(("BeamTables.v", ["C10", "C02"], gen_beam_tables))




# ---- every `raise` of the package with the chain of conditions that guards it (C20) ---------------------------------
RAISE_EXCLUDE = ("openaerostruct/utils/testing.py", "openaerostruct/docs", "openaerostruct/examples", "openaerostruct/tests")


def _guards(path_to_raise):
    """path_to_raise: list of (node, field, index) from the function body down to the raise statement"""
    out = []
    for node, field in path_to_raise:
        if isinstance(node, ast.If):
            txt = ast.unparse(node.test)
            out.append(txt if field == "body" else "not (%s)" % txt)
        elif isinstance(node, (ast.For, ast.While)):
            out.append("loop: " + (ast.unparse(node.target) + " in " + ast.unparse(node.iter) if isinstance(node, ast.For) else ast.unparse(node.test)))
        elif isinstance(node, ast.Try):
            out.append("try/" + field)
        elif isinstance(node, ast.With):
            out.append("with")
    return out


def gen_raise_sites():
    root = os.path.join(REPO, "openaerostruct")
    files = []
    for d, _, fs in os.walk(root):
        for f in fs:
            if f.endswith(".py"):
                rel = os.path.relpath(os.path.join(d, f), REPO)
                if not any(rel.startswith(x) for x in RAISE_EXCLUDE):
                    files.append(rel)
    sites = []
    for rel in sorted(files):
        t, src = tree(rel)

        def walk(node, qual, path):
            for field, value in ast.iter_fields(node):
                items = value if isinstance(value, list) else [value]
                for ch in items:
                    if not isinstance(ch, ast.AST):
                        continue
                    if isinstance(ch, (ast.FunctionDef, ast.AsyncFunctionDef, ast.ClassDef)):
                        walk(ch, qual + [ch.name], [])
                    elif isinstance(ch, ast.Raise):
                        exc = ch.exc
                        if exc is None:
                            name = "(re-raise)"
                        elif isinstance(exc, ast.Call):
                            name = ast.unparse(exc.func)
                        else:
                            name = ast.unparse(exc)
                        sites.append((rel.replace("openaerostruct/", ""), ".".join(qual) or "<module>", name, _guards(path + [(node, field)])))
                    else:
                        walk(ch, qual, path + [(node, field)])
        walk(t, [], [])

    def q(s):
        return '"' + s.replace('"', '""') + '"'
    rows = ["  (%s, %s, %s, [%s])" % (q(f), q(fn), q(e), "; ".join(q(g) for g in gs)) for f, fn, e, gs in sites]
    return ("(* GENERATED by harness/translate.py - do not edit: every raise statement of the package (outside utils/testing.py,\n   docs, examples) with the chain of conditions that guards it, as source text *)\n"
            "From Coq Require Import String List.\nImport ListNotations.\nOpen Scope string_scope.\n"
            "Definition gen_raise_sites : list (string * string * string * list string) := [\n%s\n].\n" % ";\n".join(rows))


# ---- declared units of every input and output of every component (the unit contract; C06, C08, C17) ----------------
def gen_io_units():
    root = os.path.join(REPO, "openaerostruct")
    files = []
    for d, _, fs in os.walk(root):
        for f in fs:
            if f.endswith(".py"):
                rel = os.path.relpath(os.path.join(d, f), REPO)
                if not any(rel.startswith(x) for x in RAISE_EXCLUDE):
                    files.append(rel)
    rows = []
    for rel in sorted(files):
        t, src = tree(rel)
        for cls in [n for n in ast.walk(t) if isinstance(n, ast.ClassDef)]:
            for call in [n for n in ast.walk(cls) if isinstance(n, ast.Call) and isinstance(n.func, ast.Attribute) and n.func.attr in ("add_input", "add_output")
                         and isinstance(n.func.value, ast.Name) and n.func.value.id in ("self", "ivc", "indep_var_comp")]:
                if not call.args:
                    name = next((ast.unparse(k.value) for k in call.keywords if k.arg == "name"), "?")
                else:
                    name = ast.unparse(call.args[0])
                units = next((ast.unparse(k.value) for k in call.keywords if k.arg == "units"), "-")
                rows.append((rel.replace("openaerostruct/", ""), cls.name, call.func.attr[4:], name, units))

    def q(x):
        return '"' + x.replace('"', '""') + '"'
    body = ";\n".join("  (%s, %s, %s, %s, %s)" % tuple(q(x) for x in r) for r in rows)
    return ("(* GENERATED by harness/translate.py - do not edit: the declared units of every add_input / add_output of every class of the\n   package, as source text (\"-\" = no units keyword) *)\n"
            "From Coq Require Import String List.\nImport ListNotations.\nOpen Scope string_scope.\n"
            "Definition gen_io_units : list (string * string * string * string * string) := [\n%s\n].\n" % body)


EXTRA.append(("IOUnits.v", ["C05", "C06", "C08", "C09", "C10", "C11", "C13", "C14", "C15", "C16", "C17", "C18"], gen_io_units))
# ---- declared defaults of every option of every class (C13: "defaults leave the mesh unchanged"; C15: KS parameter; ...) -------------
def gen_option_defaults():
    root = os.path.join(REPO, "openaerostruct")
    files = []
    for d, _, fs in os.walk(root):
        for f in fs:
            if f.endswith(".py"):
                rel = os.path.relpath(os.path.join(d, f), REPO)
                if not any(rel.startswith(x) for x in RAISE_EXCLUDE):
                    files.append(rel)
    rows = []
    for rel in sorted(files):
        t, src = tree(rel)
        for cls in [n for n in ast.walk(t) if isinstance(n, ast.ClassDef)]:
            for call in [n for n in ast.walk(cls) if isinstance(n, ast.Call) and isinstance(n.func, ast.Attribute) and n.func.attr == "declare"
                         and isinstance(n.func.value, ast.Attribute) and n.func.value.attr == "options"]:
                name = ast.unparse(call.args[0]) if call.args else next((ast.unparse(k.value) for k in call.keywords if k.arg == "name"), "?")
                if len(call.args) > 1:
                    default = ast.unparse(call.args[1])
                else:
                    default = next((ast.unparse(k.value) for k in call.keywords if k.arg == "default"), "(required)")
                rows.append((rel.replace("openaerostruct/", ""), cls.name, name, default))

    def q(x):
        return '"' + x.replace('"', '""') + '"'
    body = ";\n".join("  (%s, %s, %s, %s)" % tuple(q(x) for x in r) for r in rows)
    return ("(* GENERATED by harness/translate.py - do not edit: every options.declare of every class of the package with its default,\n   as source text (\"(required)\" = no default) *)\n"
            "From Coq Require Import String List.\nImport ListNotations.\nOpen Scope string_scope.\n"
            "Definition gen_option_defaults : list (string * string * string * string) := [\n%s\n].\n" % body)


EXTRA.append(("OptionDefaults.v", ["C05", "C09", "C11", "C13", "C14", "C15", "C16", "C19"], gen_option_defaults))
EXTRA.append(("RaiseSites.v", ["C20"], gen_raise_sites))


if __name__ == "__main__":
    ok, log = run()
    print(log)
    for f in FAILED:
        print("REFUSED", f)
    sys.exit(0 if ok else 1)
