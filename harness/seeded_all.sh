#!/bin/sh
# re-evaluate every seeded change of seeded/ against the current machinery (its own property's quick check), in a scratch clone of
# /repo (default /tmp/repo_seed, created if missing and removed afterwards unless KEEP_CLONE=1); one line per seed
cd "$(dirname "$0")/.."
CL=${OAS_REPO:-/tmp/repo_seed}
[ -d "$CL/.git" ] || git clone -q /repo "$CL"
git -C "$CL" fetch -q /repo main 2>/dev/null; git -C "$CL" checkout -q -f FETCH_HEAD 2>/dev/null || true
export OAS_REPO="$CL"
for d in seeded/*/; do
  id=$(basename "$d"); pid=$(echo "$id" | cut -c1-3)
  out=$(/venv/bin/python -m harness.seeded "$id" "$d" "$pid" 2>&1 | tail -1)
  echo "$id :: $out"
done
[ "$KEEP_CLONE" = "1" ] || rm -rf "$CL"
