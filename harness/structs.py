"""structs.py — building SpatialBeamAlone and AerostructPoint problems of the implementation."""
import warnings, io, contextlib
import numpy as np
import openmdao.api as om
from . import core, gen


def build_struct(surface, loads, load_factor=1.0, extra=None, setup_kw=None, loads_units="N"):
    """SpatialBeamAlone fed by constant loads [ny,6]"""
    from openaerostruct.structures.struct_groups import SpatialBeamAlone
    prob = om.Problem(reports=False)
    ny = surface["mesh"].shape[1]
    ivc = om.IndepVarComp()
    ivc.add_output("loads", val=np.array(loads, dtype=float), units=loads_units)
    ivc.add_output("load_factor", val=load_factor)
    for k, (v, u) in (extra or {}).items():
        ivc.add_output(k, val=v, units=u)
    g = SpatialBeamAlone(surface=surface)
    g.add_subsystem("indep_vars", ivc, promotes=["*"])
    prob.model.add_subsystem(surface["name"], g)
    with warnings.catch_warnings():
        warnings.simplefilter("ignore")
        prob.setup(**(setup_kw or {}))
    return prob


def build_aerostruct(surfaces, v=248.136, alpha=5.0, beta=0.0, Mach=0.84, re=1.0e6, rho=0.38, CT=9.80665 * 17.0e-6, R=11.165e6,
                     W0=0.4 * 3e5, a=295.4, load_factor=1.0, empty_cg=(0, 0, 0), npoints=1, compressible=False, point_kw=None, solver=None, setup_kw=None, pre_setup=None,
                     point_masses=None, point_mass_locations=None, engine_thrusts=None):
    from openaerostruct.integration.aerostruct_groups import AerostructGeometry, AerostructPoint
    prob = om.Problem(reports=False)
    ivc = om.IndepVarComp()
    for k, val, u in (("v", v, "m/s"), ("alpha", alpha, "deg"), ("beta", beta, "deg"), ("Mach_number", Mach, None), ("re", re, "1/m"), ("rho", rho, "kg/m**3"),
                      ("CT", CT, "1/s"), ("R", R, "m"), ("W0", W0, "kg"), ("speed_of_sound", a, "m/s"), ("load_factor", load_factor, None)):
        vals = val if isinstance(val, (list, tuple, np.ndarray)) and npoints > 1 and np.ndim(val) == 1 and len(val) == npoints else None
        ivc.add_output(k, val=np.array(vals if vals is not None else [val] * npoints, dtype=float) if npoints > 1 else val, units=u)
    ivc.add_output("empty_cg", val=np.array(empty_cg, dtype=float), units="m")
    any_pm = any("n_point_masses" in s for s in surfaces)
    if any_pm:
        # as in the package's point-load examples: one set of point masses (engines) for the surfaces that declare n_point_masses
        ivc.add_output("point_masses", val=np.array(point_masses, dtype=float), units="kg")
        ivc.add_output("point_mass_locations", val=np.array(point_mass_locations, dtype=float), units="m")
        if engine_thrusts is not None:
            ivc.add_output("engine_thrusts", val=np.array(engine_thrusts, dtype=float), units="N")
    prob.model.add_subsystem("prob_vars", ivc, promotes=["*"])
    if any(s.get("distributed_fuel_weight", False) for s in surfaces):
        # (before the points: an independent variable placed after its consumers would be a feedback connection,
        #  which the top-level run-once solvers do not differentiate through)
        prob.model.add_subsystem("fuel", om.IndepVarComp("fuel_mass", val=10000.0, units="kg"), promotes=["*"])
    for s in surfaces:
        prob.model.add_subsystem(s["name"], AerostructGeometry(surface=s))
    for i in range(npoints):
        pn = "AS_point_%d" % i
        prob.model.add_subsystem(pn, AerostructPoint(surfaces=surfaces, compressible=compressible, **(point_kw or {})))
        idx = {"src_indices": [i]} if npoints > 1 else {}
        for k in ("v", "alpha", "beta", "Mach_number", "re", "rho", "CT", "R", "W0", "speed_of_sound", "load_factor"):
            prob.model.connect(k, pn + "." + k, **idx)
        prob.model.connect("empty_cg", pn + ".empty_cg")
        if any(s.get("struct_weight_relief", False) or s.get("distributed_fuel_weight", False) or "n_point_masses" in s for s in surfaces):
            # as the package's examples do: the coupled group's own load_factor input is a separate promoted variable
            prob.model.connect("load_factor", pn + ".coupled.load_factor", **idx)
        for s in surfaces:
            name = s["name"]; com = pn + "." + name + "_perf."
            prob.model.connect(name + ".local_stiff_transformed", pn + ".coupled." + name + ".local_stiff_transformed")
            prob.model.connect(name + ".nodes", pn + ".coupled." + name + ".nodes")
            prob.model.connect(name + ".mesh", pn + ".coupled." + name + ".mesh")
            prob.model.connect(name + ".nodes", com + "nodes")
            prob.model.connect(name + ".cg_location", pn + ".total_perf." + name + "_cg_location")
            prob.model.connect(name + ".structural_mass", pn + ".total_perf." + name + "_structural_mass")
            prob.model.connect(name + ".t_over_c", com + "t_over_c")
            if s["fem_model_type"] == "tube":
                prob.model.connect(name + ".radius", com + "radius")
                prob.model.connect(name + ".thickness", com + "thickness")
            else:
                for q in ("Qz", "J", "A_enc", "htop", "hbottom", "hfront", "hrear", "spar_thickness"):
                    prob.model.connect(name + "." + q, com + q)
            if "n_point_masses" in s:
                prob.model.connect("point_masses", pn + ".coupled." + name + ".point_masses")
                prob.model.connect("point_mass_locations", pn + ".coupled." + name + ".point_mass_locations")
                if engine_thrusts is not None:
                    prob.model.connect("engine_thrusts", pn + ".coupled." + name + ".engine_thrusts")
            if s.get("struct_weight_relief", False):
                prob.model.connect(name + ".element_mass", pn + ".coupled." + name + ".element_mass")
            if s.get("distributed_fuel_weight", False):
                prob.model.connect(name + ".struct_setup.fuel_vols", pn + ".coupled." + name + ".struct_states.fuel_vols")
                prob.model.connect("fuel_mass", pn + ".coupled." + name + ".struct_states.fuel_mass")
    if pre_setup is not None:
        pre_setup(prob)
    with warnings.catch_warnings():
        warnings.simplefilter("ignore")
        prob.setup(**(setup_kw or {}))
    for i in range(npoints):
        if solver is not None:
            solver(getattr(prob.model, "AS_point_%d" % i))          # solvers are swapped after setup, before final_setup
        getattr(prob.model, "AS_point_%d" % i).coupled.nonlinear_solver.options["iprint"] = -1
    return prob


def run(prob):
    with warnings.catch_warnings():
        warnings.simplefilter("ignore")
        with contextlib.redirect_stdout(io.StringIO()):
            prob.run_model()
    return prob


def g(prob, name):
    return np.array(prob.get_val(name)).copy()


def two_surface_aerostruct(seed=0, exact=(True, False)):
    """wing + tail with the SAME mesh shape but different structural reference line (fem_origin), material (E, G, yield) and
    failure aggregation: what a per-surface component built from another surface's dictionary gets wrong without any error"""
    from . import gen
    rng = np.random.default_rng(seed)
    from openaerostruct.geometry.utils import generate_mesh
    with warnings.catch_warnings():
        warnings.simplefilter("ignore")
        mw, _ = generate_mesh({"num_y": 7, "num_x": 2, "wing_type": "CRM", "symmetry": True, "num_twist_cp": 3})
        mt = generate_mesh({"num_y": 7, "num_x": 2, "wing_type": "rect", "symmetry": True, "span": 20.0, "root_chord": 4.0, "offset": np.array([50.0, 0.0, 2.0])})
    common = dict(with_viscous=True, with_wave=False, struct_weight_relief=False)
    wing = gen.tube_surface(mw, symmetry=True, name="wing", fem_origin=0.35, E=70.0e9, G=30.0e9, **{"yield": 2.0e8}, exact_failure_constraint=exact[0],
                            thickness_cp=np.array([0.05, 0.06, 0.07]), twist_cp=np.array([2.0, 3.0]), t_over_c_cp=np.array([0.12, 0.12]), **common)
    tail = gen.tube_surface(mt, symmetry=True, name="tail", fem_origin=0.6, E=120.0e9, G=20.0e9, **{"yield": 1.2e8}, exact_failure_constraint=exact[1],
                            thickness_cp=np.array([0.02, 0.02]), twist_cp=np.array([0.0, 0.0]), t_over_c_cp=np.array([0.1]), **common)
    p = build_aerostruct([wing, tail], Mach=0.7, alpha=3.0)
    return run(p), [wing, tail]
