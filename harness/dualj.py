"""dualj.py — builds, for one model call, the Coq expressions of (a) the model's outputs over binary64 and
(b) the model's dense Jacobian obtained by evaluating the same model over dual numbers (Float/DRun.v),
together with the implementation's dense Jacobian arranged in the same order."""
import numpy as np
from .core import fl, arr


class DJ:
    def __init__(self):
        self.f = {}; self.d = {}; self.names = []; self.sizes = {}; self.off = 0; self.invals = []

    def _dims(self, v):
        v = np.asarray(np.real(v), dtype=float)
        return v, v.shape

    def inp(self, name, val, key=None):
        """a differentiated input; key = the implementation's input name (default: name)"""
        v, sh = self._dims(val)
        off = self.off
        if v.ndim == 0 or v.size == 1 and v.ndim <= 1 and key is not None and key.startswith("scalar:"):
            self.f[name] = fl(v.ravel()[0]); self.d[name] = "(sd0 %s %d%%nat g)" % (fl(v.ravel()[0]), off)
        else:
            r = v.ndim
            dims = " ".join("%d%%nat" % n for n in sh[1:])
            self.f[name] = "(a%d %s %s)" % (r, dims, arr(v)) if r > 1 else "(a1 %s)" % arr(v)
            self.d[name] = "(sd%d %s %s %d%%nat g)" % (r, dims, arr(v), off) if r > 1 else "(sd1 %s %d%%nat g)" % (arr(v), off)
        self.names.append((name, (key or name).replace("scalar:", ""), v.size)); self.off += v.size
        self.invals.append(v.ravel())
        return self

    def scal(self, name, val, key=None):
        """a differentiated scalar input (implementation arrays of shape (1,) included)"""
        x = float(np.real(np.asarray(val).ravel()[0]))
        self.f[name] = fl(x); self.d[name] = "(sd0 %s %d%%nat g)" % (fl(x), self.off)
        self.names.append((name, key or name, 1)); self.off += 1
        self.invals.append(np.array([x]))
        return self

    def par(self, name, val):
        """a real parameter that is not differentiated (an option)"""
        v, sh = self._dims(val)
        if v.ndim == 0:
            self.f[name] = fl(v); self.d[name] = "(pd0 %s)" % fl(v)
        else:
            r = v.ndim; dims = " ".join("%d%%nat" % n for n in sh[1:])
            self.f[name] = "(a%d %s %s)" % (r, dims, arr(v)) if r > 1 else "(a1 %s)" % arr(v)
            self.d[name] = "(pd%d %s %s)" % (r, dims, arr(v)) if r > 1 else "(pd1 %s)" % arr(v)
        return self

    @staticmethod
    def _scale(v):
        """per-coordinate scale of an input block: |x|, but not below 1e-3 of the block's largest entry; 1 for a zero block"""
        m = float(np.abs(v).max()) if v.size else 0.0
        if m == 0.0:
            return np.ones(v.size)
        return np.maximum(np.abs(v), 1e-3 * m)

    def lit(self, name, s):
        self.f[name] = s; self.d[name] = s
        return self

    def render(self, tmpl):
        return tmpl.format(**self.f), tmpl.format(**self.d)

    def jac(self, out_tmpl):
        """out_tmpl: Coq expression (with {placeholders}) of the flat list of outputs of the model"""
        return "jac %d%%nat (fun g => %s)" % (self.off, out_tmpl.format(**self.d))

    def vals(self, out_tmpl):
        return "vals (fun g => %s)" % out_tmpl.format(**self.d)

    def code_jac(self, J, ofs, rows=None):
        """the implementation's dense Jacobian, column-major over (all outputs) x (all inputs in registration order)"""
        rows_ = []
        for of in ofs:
            blocks = []
            for _, key, size in self.names:
                b = np.asarray(np.real(J[(of, key)]), dtype=float)
                blocks.append(b.reshape(-1, size))
            rows_.append(np.concatenate(blocks, axis=1))
        full = np.concatenate(rows_, axis=0)
        return full if rows is None else full[list(rows)]

    def jac_err(self, out_tmpl, J, ofs):
        full = self.code_jac(J, ofs)
        return "re (%s) %s" % (self.jac(out_tmpl), arr(full.T)), full

    def jac_errs(self, out_tmpl, J, ofs, rows=None):
        """-> (Coq expression of a list of errors, labels): entry 0 is the length check, then one relative
        error per input variable (scaled by that variable's own block of the Jacobian)"""
        full = self.code_jac(J, ofs, rows)
        nout = full.shape[0]
        lens = "[" + "; ".join("%d%%nat" % (nout * size) for _, _, size in self.names) + "]"
        scales = np.concatenate([self._scale(v) for v in self.invals])
        expr = "blockerrs_s %s (jac_scaled %d%%nat %s (fun g => %s)) %s" % (lens, self.off, arr(scales), out_tmpl.format(**self.d), arr((full * scales[None, :]).T))
        labels = ["J:shape"] + ["J:d/d" + key for _, key, _ in self.names]
        return expr, labels
