"""dev helper: python -m harness.dev_run module.func [tier]"""
import sys, importlib, json
from . import core
def main():
    modfn = sys.argv[1]; tier = sys.argv[2] if len(sys.argv) > 2 else "quick"
    mod, fn = modfn.rsplit(".", 1)
    m = importlib.import_module("harness." + mod)
    R = core.Results("dev", tier, 0)
    getattr(m, fn)(R, tier, 0)
    for k, v in list(R.streams.items()) + list(R.oracles.items()):
        print(k, {a: b for a, b in v.items() if a not in ("failures", "coq_errors")})
        for f in v["failures"][:5]:
            print("   FAIL", json.dumps(core.jsonable(f))[:600])
        for e in v.get("coq_errors", [])[:2]:
            print("   COQERR", e[0], e[1][-800:])
main()
