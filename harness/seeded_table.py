"""fills the table of seeded changes in DESIGN.md (section A.8) from seeded/*/meta.json and result.json"""
import json, os, glob, re
ROOT = os.path.dirname(os.path.dirname(os.path.abspath(__file__)))
rows = ["| seed | property | changed file | what it needs to show | demo (unchanged / changed) | caught by | note |", "|---|---|---|---|---|---|---|"]
for d in sorted(glob.glob(os.path.join(ROOT, "seeded", "*"))):
    if not os.path.exists(os.path.join(d, "result.json")):
        continue
    r = json.load(open(os.path.join(d, "result.json")))
    m = json.load(open(os.path.join(d, "meta.json"))) if os.path.exists(os.path.join(d, "meta.json")) else {}
    trig = re.sub(r"\s+", " ", str(m.get("trigger", "")))[:220].replace("|", "/")
    rows.append("| %s | %s | %s | %s | %s / %s | %s | %s |" % (
        os.path.basename(d), m.get("property", "?"), str(m.get("file", "?")).replace("/tmp/wt_%s/" % m.get("property", ""), "").replace("openaerostruct/", ""), trig,
        (r.get("demo_on_unchanged") or {}).get("exit"), (r.get("demo_on_changed") or {}).get("exit"),
        ", ".join(r.get("caught_by", [])) or "**nothing**", re.sub(r"\s+", " ", r.get("history", ""))[:300].replace("|", "/")))
p = os.path.join(ROOT, "DESIGN.md"); s = open(p).read()
start = s.index("## A.8 Seeded changes and the checks that catch them")
s = s[:start] + "## A.8 Seeded changes and the checks that catch them\n\nEach change was made by a fresh sub-agent that saw only the property text and a scratch worktree of /repo; it compiles, leaves the test suite at 174 passed + the 3 baseline failures, and needs something specific to show. `python -m harness.seeded <id> <dir> <checks>` applies it to /repo, confirms the demo, runs the checks and undoes it.\n\n" + "\n".join(rows) + "\n"
open(p, "w").write(s)
print("\n".join(rows))
