"""seeded.py — evaluate a seeded change: `python -m harness.seeded <id> <dir with SEED_patch.diff, SEED_demo.py, SEED_meta.json> <checks...>`
copies the artefacts to /verif/seeded/<id>/, applies the patch to /repo with `git apply`, confirms the demo, runs the given
checks (quick tier; `--thorough` adds the thorough tier of the property's own check), records what each printed, and
undoes the change with `git -C /repo checkout -- .`.  Never commits anything in /repo."""
import sys, os, json, shutil, subprocess, time

ROOT = os.path.dirname(os.path.dirname(os.path.abspath(__file__)))
REPO = os.environ.get("OAS_REPO", "/repo")     # a scratch clone can be used while /repo itself is busy


def sh(cmd, cwd=None, timeout=3600, env=None):
    p = subprocess.run(cmd, cwd=cwd, capture_output=True, text=True, timeout=timeout, env=env)
    return p.returncode, p.stdout + p.stderr


def main():
    sid, src = sys.argv[1], sys.argv[2]
    checks = [a for a in sys.argv[3:] if not a.startswith("--")]
    thorough = "--thorough" in sys.argv
    dst = os.path.join(ROOT, "seeded", sid)
    os.makedirs(dst, exist_ok=True)
    for a, b in (("SEED_patch.diff", "patch.diff"), ("SEED_demo.py", "demo.py"), ("SEED_meta.json", "meta.json")):
        if os.path.exists(os.path.join(src, a)):
            shutil.copy(os.path.join(src, a), os.path.join(dst, b))
    rc, out = sh(["git", "-C", REPO, "status", "--porcelain", "--untracked-files=no"])
    if out.strip():
        print("refusing: %s has local modifications:\n" % REPO + out); return 2
    res = {"id": sid, "applied": False, "demo_on_changed": None, "demo_on_unchanged": None, "checks": {}}
    if os.path.exists(os.path.join(dst, "result.json")):
        try:
            res["history"] = json.load(open(os.path.join(dst, "result.json"))).get("history", "")      # notes of earlier evaluations are kept
        except Exception:
            pass
    env = dict(os.environ, PYTHONPATH=REPO, OPENMDAO_REPORTS="0")
    rc0, out0 = sh(["/venv/bin/python", os.path.join(dst, "demo.py")], cwd="/tmp", env=env)
    res["demo_on_unchanged"] = {"exit": rc0, "tail": out0[-600:]}
    rc, out = sh(["git", "-C", REPO, "apply", os.path.join(dst, "patch.diff")])
    if rc != 0:
        res["apply_error"] = out[-800:]
        json.dump(res, open(os.path.join(dst, "result.json"), "w"), indent=1); print("patch does not apply:", out[-400:]); return 1
    res["applied"] = True
    try:
        rc1, out1 = sh(["/venv/bin/python", os.path.join(dst, "demo.py")], cwd="/tmp", env=env)
        res["demo_on_changed"] = {"exit": rc1, "tail": out1[-600:]}
        for c in checks:
            for tier in (["quick", "thorough"] if thorough and c == checks[0] else ["quick"]):
                t = time.time()
                rc, out = sh([os.path.join(ROOT, "check"), c, "--tier", tier], cwd=ROOT, timeout=7200)
                lines = [l for l in out.splitlines() if l.startswith("VIOLATION") or l.startswith("KNOWN-FINDING") or l.startswith(c + " tier=")]
                res["checks"]["%s/%s" % (c, tier)] = {"exit": rc, "wall_s": round(time.time() - t, 1), "lines": [l[:300] for l in lines]}
                print(c, tier, "exit", rc, [l[:160] for l in lines if l.startswith("VIOLATION")])
    finally:
        sh(["git", "-C", REPO, "checkout", "--", "."])
        # the evidence / replay files written while the change was applied describe the changed tree: drop the replays
        shutil.rmtree(os.path.join(ROOT, "replays"), ignore_errors=True)
        # ... and the generated Coq files were regenerated from the changed tree: put back the ones generated from /repo (committed)
        sh(["git", "-C", ROOT, "checkout", "--", "coq/Generated"])
    res["caught_by"] = sorted(k for k, v in res["checks"].items() if v["exit"] != 0 and any(l.startswith("VIOLATION") for l in v["lines"]))
    json.dump(res, open(os.path.join(dst, "result.json"), "w"), indent=1)
    print("demo unchanged exit", rc0, "changed exit", res["demo_on_changed"]["exit"], "caught by", res["caught_by"])
    return 0


if __name__ == "__main__":
    sys.exit(main())
