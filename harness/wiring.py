"""wiring.py — regenerates coq/Generated/Wiring.v: for a fixed set of canonical models built from the public groups, the data-flow
graph as OpenMDAO itself resolves it after setup (every input with the output it is connected to; inputs that nothing feeds are
listed as unconnected).  The groups' `promotes` / `connect` statements are the only place where "which number goes where" is
decided, and no component-level check sees them: a changed or dropped promotion leaves every component correct and silently
feeds a different (or a default) value.  Props/C05, C09, C11, C12, C18, C19 state that the regenerated graph is the reviewed one."""
import os, sys, warnings, json
import numpy as np

ROOT = os.path.dirname(os.path.dirname(os.path.abspath(__file__)))
GEN = os.path.join(ROOT, "coq", "Generated")


def _graph(prob):
    model = prob.model
    conns = model._conn_global_abs_in2out
    rows = []
    for tgt in sorted(conns):
        src = conns[tgt]
        rows.append((tgt, "(unconnected: keeps its default or the value the user sets)" if src.startswith("_auto_ivc.") else src))
    return rows


def models():
    import openmdao.api as om
    from . import gen, aero as A, structs
    rng = np.random.default_rng(0)
    out = []
    m1 = gen.rand_mesh(rng, 3, 3, "left"); m2 = gen.rand_mesh(rng, 2, 3, "left") + np.array([5.0, 0, 0.5])
    w = lambda **kw: A.aero_surface(m1, "wing", True, with_viscous=True, with_wave=True, **kw)
    t = lambda **kw: A.aero_surface(m2, "tail", True, with_viscous=True, **kw)
    out.append(("AeroPoint: wing+tail, viscous and wave drag", A.build_aero([w(), t()], geom=False)))
    out.append(("AeroPoint: compressible", A.build_aero([w()], geom=False, compressible=True)))
    out.append(("AeroPoint: rotational", A.build_aero([w()], geom=False, rotational=True, omega=[0.1, 0.2, 0.05])))
    out.append(("AeroPoint: compressible and rotational", A.build_aero([w()], geom=False, compressible=True, rotational=True, omega=[0.1, 0.2, 0.05])))
    out.append(("AeroPoint: ground effect, Geometry group", A.build_aero([A.aero_surface(m1, "wing", True, groundplane=True, twist_cp=np.zeros(2))], geom=True, height_agl=10.0)))
    from .oracles.c02 import crm
    st = gen.tube_surface(crm(), symmetry=True, name="wing", struct_weight_relief=True, with_viscous=True, t_over_c_cp=np.array([0.12, 0.12]), twist_cp=np.array([2.0, 3.0]), thickness_cp=np.array([0.05, 0.05, 0.06]))
    out.append(("AerostructPoint: tube, weight relief", structs.build_aerostruct([st])))
    out.append(("AerostructPoint: tube, compressible", structs.build_aerostruct([st], compressible=True)))
    out.append(("AerostructPoint: tube, rotational", structs.build_aerostruct([st], point_kw={"rotational": True})))
    st2 = dict(gen.tube_surface(crm(), symmetry=True, name="tail", struct_weight_relief=True, with_viscous=True, t_over_c_cp=np.array([0.1]), twist_cp=np.array([0.0, 0.0]), thickness_cp=np.array([0.02, 0.02])))
    st2["mesh"] = st2["mesh"] + np.array([40.0, 0.0, 2.0])
    out.append(("AerostructPoint: two tube surfaces", structs.build_aerostruct([st, st2])))
    sw = gen.wingbox_surface(crm(), symmetry=True, name="wing", struct_weight_relief=True, distributed_fuel_weight=True, with_wave=True, with_viscous=True,
                             t_over_c_cp=np.array([0.12, 0.12]), twist_cp=np.array([2.0, 3.0]), spar_thickness_cp=np.array([0.006, 0.007]), skin_thickness_cp=np.array([0.012, 0.013]))
    out.append(("AerostructPoint: wing box, fuel and weight relief", structs.build_aerostruct([sw])))
    sp = dict(st, n_point_masses=1)
    out.append(("AerostructPoint: tube, point mass and thrust", structs.build_aerostruct([sp], point_masses=[[1000.0]], point_mass_locations=[[25.0, -10.0, 0.0]], engine_thrusts=[[1e4]])))
    out.append(("SpatialBeamAlone: tube", structs.build_struct(st, np.zeros((st["mesh"].shape[1], 6)))))
    out.append(("SpatialBeamAlone: wing box", structs.build_struct(dict(sw, distributed_fuel_weight=False), np.zeros((sw["mesh"].shape[1], 6)))))
    # MPhys wrappers
    try:
        from mphys.core import MPhysVariables as MV
        from openaerostruct.mphys.aero_solver_group import AeroSolverGroup
        from openaerostruct.mphys.aero_funcs_group import AeroFuncsGroup
        from openaerostruct.mphys.demux_surface_mesh import DemuxSurfaceMesh
        from openaerostruct.mphys.mux_surface_forces import MuxSurfaceForces
        for comp in (False, True):
            surfs = [A.aero_surface(gen.rand_mesh(rng, 2, 3, "full"), "wing", False, with_viscous=True), A.aero_surface(gen.rand_mesh(rng, 3, 3, "full") + np.array([5.0, 0, 0.5]), "tail", False, with_viscous=True)]
            p = om.Problem(reports=False)
            F = MV.Aerodynamics.FlowConditions
            ivc = p.model.add_subsystem("ivc", om.IndepVarComp(), promotes=["*"])
            ivc.add_output(F.ANGLE_OF_ATTACK, val=3.0, units="deg"); ivc.add_output(F.YAW_ANGLE, val=0.0, units="deg"); ivc.add_output(F.MACH_NUMBER, val=0.5)
            ivc.add_output(F.REYNOLDS_NUMBER, val=1e6, units="1/m"); ivc.add_output("v", val=100.0, units="m/s"); ivc.add_output("rho", val=1.0, units="kg/m**3"); ivc.add_output("cg", val=np.zeros(3), units="m")
            ivc.add_output(MV.Aerodynamics.Surface.COORDINATES, val=np.concatenate([sf["mesh"].ravel() for sf in surfs]), units="m")
            p.model.add_subsystem("demux", DemuxSurfaceMesh(surfaces=surfs), promotes=["*"])
            p.model.add_subsystem("solver", AeroSolverGroup(surfaces=surfs, compressible=comp), promotes=["*"])
            p.model.add_subsystem("mux", MuxSurfaceForces(surfaces=surfs), promotes=["*"])
            p.model.add_subsystem("funcs", AeroFuncsGroup(surfaces=surfs, write_solution=False), promotes=["*"])
            with warnings.catch_warnings():
                warnings.simplefilter("ignore"); p.setup()
            out.append(("MPhys: demux + solver + mux + functions, %s" % ("compressible" if comp else "incompressible"), p))
    except ImportError:
        pass
    return out


def generate():
    rows = []
    with warnings.catch_warnings():
        warnings.simplefilter("ignore")
        for name, prob in models():
            prob.final_setup()
            rows.append((name, _graph(prob)))

    def q(s):
        return '"' + s.replace('"', '""') + '"'
    body = ";\n".join("  (%s, [\n%s\n  ])" % (q(n), ";\n".join("    (%s, %s)" % (q(t), q(s)) for t, s in g)) for n, g in rows)
    return ("(* GENERATED by harness/wiring.py - do not edit: the data-flow graph of canonical models of the public groups, as OpenMDAO resolves\n   it after setup: (input, the output it is connected to) *)\n"
            "From Coq Require Import String List.\nImport ListNotations.\nOpen Scope string_scope.\n"
            "Definition gen_wiring : list (string * list (string * string)) := [\n%s\n].\n" % body)


def run():
    txt = generate()
    path = os.path.join(GEN, "Wiring.v")
    old = open(path).read() if os.path.exists(path) else None
    if old != txt:
        open(path, "w").write(txt)
    return path


if __name__ == "__main__":
    print(run())
