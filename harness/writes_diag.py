"""Python mirror of Model/Writes.v `an`, only to NAME the first statement that violates the discipline (diagnostics and
replay files); the verdict itself is Coq's."""
import json, os, sys
from . import translate_writes as tw


def covered(facts, A, k, r):
    if (k, 0) in A or (k, r) in A:
        return True
    return any(r2 == r and all((k, r1) in A for r1 in rs) for rs, r2 in facts)


def an(items, A, indyn, info, trace):
    for it in items:
        if it[0] == "Write":
            _, k, r, m, wid = it
            if m == "MSet":
                if indyn and not covered(info["facts"], A, k, r):
                    trace.append(("set-under-input-dependent-condition-not-preassigned", k, r, wid)); return None
                A = A + [(k, r)]
            else:
                if not covered(info["facts"], A, k, r):
                    trace.append(("update-before-assignment", k, r, wid)); return None
        elif it[0] == "Read":
            _, k, r = it
            if not covered(info["facts"], A, k, r):
                trace.append(("read-before-assignment", k, r, None)); return None
        elif it[0] == "Assume":
            A = A + [(it[1], it[2])]
        elif it[0] == "If":
            _, c, dyn, t, e = it
            A1 = an(t, A, indyn or dyn, info, trace)
            if A1 is None: return None
            A2 = an(e, A, indyn or dyn, info, trace)
            if A2 is None: return None
            A = [p for p in A1 if p in A2]
        elif it[0] == "Loop":
            l = it[1]
            inv = [(k, r) for (k, r) in A if l not in info["kvar"][k] and l not in info["rvar"][r]]
            if an(it[2], inv, indyn, info, trace) is None: return None
    return A


def diagnose():
    import ast
    root = os.path.join(tw.REPO, "openaerostruct")
    res = {}
    for dp, dn, fn in sorted(os.walk(root)):
        dn[:] = sorted(d for d in dn if d not in ("tests", "docs", "examples", "__pycache__"))
        for f in sorted(fn):
            if not f.endswith(".py"): continue
            path = os.path.join(dp, f); rel = os.path.relpath(path, tw.REPO)
            tree = ast.parse(open(path, encoding="utf-8").read())
            for cls in [n for n in tree.body if isinstance(n, ast.ClassDef)]:
                try:
                    r = tw.translate_class(path, cls)
                except tw.Unsupported as e:
                    res[rel + "::" + cls.name] = ("unsupported", str(e)); continue
                if r is None: continue
                tab, progs, cache = r
                fk = tw.FACTS.get(rel + "::" + cls.name, {})
                facts = tw.facts_of(fk, tab)
                info = {"facts": facts, "kvar": tab.kvar, "rvar": tab.rvar}
                items = []
                for m, its in progs: items += its
                trace = []
                if an(items, [], False, info, trace) is None:
                    kind, k, r_, wid = trace[0]
                    res[rel + "::" + cls.name] = (kind, tab.keys[k], tab.regions[r_], tab.ids[wid] if wid is not None else None)
    return res


if __name__ == "__main__":
    for k, v in diagnose().items():
        print(k, "->", v)
