#!/bin/sh
# Build the framework from files on disk only (offline): translator -> full .vo build -> float self-test.
set -e
cd "$(dirname "$0")"
export PYTHONHASHSEED=0 PYTHONPATH=/repo
mkdir -p _work evidence
/venv/bin/python harness/translate.py
OPENMDAO_REPORTS=0 /venv/bin/python -W ignore -m harness.wiring > /dev/null
cd coq
coq_makefile -f _CoqProject -o Makefile > /dev/null
timeout 7200 make -j16 > ../_work/setup_make.log 2>&1 || { tail -50 ../_work/setup_make.log; exit 1; }
cd ..
/venv/bin/python harness/selftest.py
