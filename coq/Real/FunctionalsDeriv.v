(* FunctionalsDeriv.v — C01 for SumAreas, TotalLiftDrag, Equilibrium, BreguetRange, CenterOfGravity,
   ReynoldsComp, the speed of AtmosComp, MomentCoefficient.  Surfaces are lists of any length. *)
From Coq Require Import Reals ZArith Lra Lia Arith Bool List.
From Coquelicot Require Import Coquelicot.
From OAS Require Import Scalar Rops Sums Deriv Dual DualProofs Functionals.
Import ListNotations.
Open Scope R_scope.

Lemma DR_fold {A A'} (l : list A) (l' : list A') (f : R -> A -> R) (f' : A' -> dual R) t0 Acc acc :
  DR Acc t0 acc -> Forall2 (fun a a' => DR (fun t => f t a) t0 (f' a')) l l' ->
  DR (fun t => fold_left (fun s x => @oadd R Rops s (f t x)) l (Acc t)) t0 (fold_left (fun s x => @oadd _ DOPS s (f' x)) l' acc).
Proof.
  intros HA HF. revert Acc acc HA. induction HF as [|a a' l l' Ha HF IH]; intros Acc acc HA; cbn [fold_left].
  - exact HA.
  - apply (IH (fun t => Acc t +! f t a) (acc +! f' a')). apply DR_add; assumption.
Qed.
Lemma DR_lsum {A A'} (l : list A) (l' : list A') (f : R -> A -> R) (f' : A' -> dual R) t0 :
  Forall2 (fun a a' => DR (fun t => f t a) t0 (f' a')) l l' ->
  DR (fun t => @lsum R Rops A l (f t)) t0 (@lsum _ DOPS A' l' f').
Proof. intros H. unfold lsum. apply (DR_fold l l' f f' t0 (fun _ => 0) (@o0 _ DOPS)); [apply DR_o0 | exact H]. Qed.
Lemma lsum_map {T} {K : Ops T} {A B} (g : A -> B) (l : list A) (f : B -> T) : lsum (map g l) f = lsum l (fun a => f (g a)).
Proof. unfold lsum. generalize (@o0 T K). induction l as [|a l IH]; intros acc; cbn [map fold_left]; [reflexivity | apply IH]. Qed.

(* a list of scalar curves and their duals *)
Definition DRl (cs : list (R -> R)) t0 (ds : list (dual R)) := Forall2 (fun c d => DR c t0 d) cs ds.
Definition at_ (t : R) (cs : list (R -> R)) : list R := map (fun c => c t) cs.
Lemma sum_areas_DR cs t0 ds : DRl cs t0 ds -> DR (fun t => sum_areas (at_ t cs)) t0 (sum_areas ds).
Proof.
  intros H. unfold sum_areas, at_. apply (DR_ext (fun t => lsum cs (fun c => c t))); [intros t; rewrite lsum_map; reflexivity|].
  apply (DR_lsum cs ds (fun t c => c t) (fun d => d)). exact H.
Qed.

(* pairs (coefficient, area) per surface *)
Definition DRl2 (cs : list ((R -> R) * (R -> R))) t0 (ds : list (dual R * dual R)) :=
  Forall2 (fun c d => DR (fst c) t0 (fst d) /\ DR (snd c) t0 (snd d)) cs ds.
Definition at2 (t : R) (cs : list ((R -> R) * (R -> R))) : list (R * R) := map (fun c => (fst c t, snd c t)) cs.
Lemma weighted_DR cs t0 ds : DRl2 cs t0 ds -> DR (fun t => weighted (at2 t cs)) t0 (weighted ds).
Proof.
  intros H. unfold weighted, at2. apply (DR_ext (fun t => lsum cs (fun c => fst c t *! snd c t))); [intros t; rewrite lsum_map; reflexivity|].
  apply (DR_lsum cs ds (fun t c => fst c t *! snd c t) (fun d => fst d *! snd d)).
  induction H as [|c d cs' ds' [H1 H2] H IH]; constructor; [apply DR_mul; assumption | exact IH].
Qed.
Lemma tld_force_DR cs Rho V t0 ds rho v : DRl2 cs t0 ds -> DR Rho t0 rho -> DR V t0 v ->
  DR (fun t => tld_force (at2 t cs) (Rho t) (V t)) t0 (tld_force ds rho v).
Proof. intros H H1 H2. unfold tld_force. dr. apply weighted_DR; exact H. Qed.
Lemma tld_coeff_DR cs S t0 ds s : DRl2 cs t0 ds -> DR S t0 s -> S t0 <> 0 ->
  DR (fun t => tld_coeff (at2 t cs) (S t)) t0 (tld_coeff ds s).
Proof. intros H H1 Hn. unfold tld_coeff. dr; [apply weighted_DR; exact H | exact Hn]. Qed.

Lemma lsum_id_DR ms t0 ds : DRl ms t0 ds -> DR (fun t => lsum (at_ t ms) (fun m => m)) t0 (lsum ds (fun m => m)).
Proof. exact (sum_areas_DR ms t0 ds). Qed.

Section Equilibrium.
  Variables (G0 Lf W0 Fb Rho V S CL : R -> R) (ms : list (R -> R)) (t0 : R).
  Variables (g0 lf w0 fb rho v s cl : dual R) (ds : list (dual R)).
  Hypotheses (H1 : DR G0 t0 g0) (H2 : DR Lf t0 lf) (H3 : DR W0 t0 w0) (H4 : DR Fb t0 fb) (H5 : DR Rho t0 rho)
             (H6 : DR V t0 v) (H7 : DR S t0 s) (H8 : DR CL t0 cl) (Hm : DRl ms t0 ds).
  Lemma eq_total_weight_DR : DR (fun t => eq_total_weight (G0 t) (Lf t) (W0 t) (Fb t) (at_ t ms)) t0 (eq_total_weight g0 lf w0 fb ds).
  Proof. unfold eq_total_weight. dr. apply lsum_id_DR; exact Hm. Qed.
  Lemma eq_LW_DR : eq_total_weight (G0 t0) (Lf t0) (W0 t0) (Fb t0) (at_ t0 ms) <> 0 ->
    DR (fun t => eq_LW (G0 t) (Lf t) (W0 t) (Fb t) (at_ t ms) (Rho t) (V t) (S t) (CL t)) t0 (eq_LW g0 lf w0 fb ds rho v s cl).
  Proof. intros Hn. unfold eq_LW, eq_lift. dr; [apply eq_total_weight_DR | exact Hn]. Qed.
End Equilibrium.

Section Breguet.
  Variables (CT A Rg M W0 CL CD : R -> R) (ms : list (R -> R)) (t0 : R) (ct a rg m w0 cl cd : dual R) (ds : list (dual R)).
  Hypotheses (H1 : DR CT t0 ct) (H2 : DR A t0 a) (H3 : DR Rg t0 rg) (H4 : DR M t0 m) (H5 : DR W0 t0 w0) (H6 : DR CL t0 cl)
             (H7 : DR CD t0 cd) (Hm : DRl ms t0 ds).
  Lemma breguet_DR : A t0 <> 0 -> M t0 <> 0 -> CL t0 <> 0 ->
    DR (fun t => breguet (CT t) (A t) (Rg t) (M t) (W0 t) (CL t) (CD t) (at_ t ms)) t0 (breguet ct a rg m w0 cl cd ds).
  Proof. intros Ha Hmn Hc. unfold breguet, br_arg. dr; try assumption. apply lsum_id_DR; exact Hm. Qed.
End Breguet.

Lemma reynolds_DR Rho V Mu t0 rho v mu : DR Rho t0 rho -> DR V t0 v -> DR Mu t0 mu -> Mu t0 <> 0 ->
  DR (fun t => reynolds (Rho t) (V t) (Mu t)) t0 (reynolds rho v mu).
Proof. intros. unfold reynolds. dr. assumption. Qed.
Lemma speed_DR A M t0 a m : DR A t0 a -> DR M t0 m -> DR (fun t => speed (A t) (M t)) t0 (speed a m).
Proof. intros. unfold speed. dr. Qed.

(* CenterOfGravity: per surface (structural mass, cg location) *)
Definition DRlc (ss : list ((R -> R) * (R -> nat -> R))) t0 (ds : list (dual R * (nat -> dual R))) :=
  Forall2 (fun c d => DR (fst c) t0 (fst d) /\ DRv (snd c) t0 (snd d)) ss ds.
Definition atc (t : R) (ss : list ((R -> R) * (R -> nat -> R))) : list (R * (nat -> R)) := map (fun c => (fst c t, snd c t)) ss.
Lemma cog_DR G0 Lf W0 Fb Tw Ecg ss t0 g0 lf w0 fb tw ecg ds d :
  DR G0 t0 g0 -> DR Lf t0 lf -> DR W0 t0 w0 -> DR Fb t0 fb -> DR Tw t0 tw -> DRv Ecg t0 ecg -> DRlc ss t0 ds ->
  G0 t0 * Lf t0 <> 0 -> Tw t0 / (G0 t0 * Lf t0) - Fb t0 <> 0 ->
  DR (fun t => cog (G0 t) (Lf t) (W0 t) (Fb t) (Tw t) (Ecg t) (atc t ss) d) t0 (cog g0 lf w0 fb tw ecg ds d).
Proof.
  intros H1 H2 H3 H4 H5 H6 Hs Hn1 Hn2. unfold cog. dr; cbv beta; try assumption.
  unfold atc. apply (DR_ext (fun t => lsum ss (fun c => snd c t d *! fst c t))); [intros t; rewrite lsum_map; reflexivity|].
  apply (DR_lsum ss ds (fun t c => snd c t d *! fst c t) (fun c => snd c d *! fst c)).
  induction Hs as [|c c' ss' ds' [Ha Hb] Hs IH]; constructor; [apply DR_mul; [apply Hb | exact Ha] | exact IH].
Qed.

(* MomentCoefficient *)
Record MSrel (Sr : R -> @MSurf R) (t0 : R) (sd : @MSurf (dual R)) : Prop := mkMSrel {
  msr_npx : forall t, ms_npx (Sr t) = ms_npx sd; msr_npy : forall t, ms_npy (Sr t) = ms_npy sd;
  msr_sym : forall t, ms_sym (Sr t) = ms_sym sd;
  msr_bpts : DR3 (fun t => ms_bpts (Sr t)) t0 (ms_bpts sd); msr_w : DR1 (fun t => ms_widths (Sr t)) t0 (ms_widths sd);
  msr_c : DR1 (fun t => ms_chords (Sr t)) t0 (ms_chords sd); msr_S : DR (fun t => ms_Sref (Sr t)) t0 (ms_Sref sd);
  msr_F : DR3 (fun t => ms_F (Sr t)) t0 (ms_F sd) }.

Lemma ms_MAC_DR Sr t0 sd : MSrel Sr t0 sd -> ms_Sref (Sr t0) <> 0 -> DR (fun t => ms_MAC (Sr t)) t0 (ms_MAC sd).
Proof.
  intros [h1 h2 h3 h4 h5 h6 h7 h8] Hn. unfold ms_MAC. cbv zeta.
  apply (DR_ext (fun t => if ms_sym sd then
      (o1 /! ms_Sref (Sr t) *! rsum (ms_npy sd) (fun j => osq ((ms_chords (Sr t) (S j) +! ms_chords (Sr t) j) *! ohalf) *! ms_widths (Sr t) j)) *! o2
    else o1 /! ms_Sref (Sr t) *! rsum (ms_npy sd) (fun j => osq ((ms_chords (Sr t) (S j) +! ms_chords (Sr t) j) *! ohalf) *! ms_widths (Sr t) j))).
  { intros t. rewrite h2, h3. reflexivity. }
  destruct (ms_sym sd); dr; exact Hn.
Qed.
Lemma ms_moment_DR Sr Cg t0 sd cg d : MSrel Sr t0 sd -> DRv Cg t0 cg -> DR (fun t => ms_moment (Sr t) (Cg t) d) t0 (ms_moment sd cg d).
Proof.
  intros [h1 h2 h3 h4 h5 h6 h7 h8] HC. unfold ms_moment, ms_moment_raw.
  assert (Hraw : DR (fun t => rsum (ms_npy sd) (fun j => rsum (ms_npx sd) (fun i =>
                    cross (fun k => ms_pts (Sr t) i j k -! Cg t k) (ms_F (Sr t) i j) d))) t0
                  (@sumn _ DOPS (ms_npy sd) (fun j => @sumn _ DOPS (ms_npx sd) (fun i => cross (fun k => ms_pts sd i j k -! cg k) (ms_F sd i j) d)))).
  { apply DR_sumn; intros j Hj. apply DR_sumn; intros i Hi.
    apply (DRv_cross (fun t k => ms_pts (Sr t) i j k -! Cg t k) (fun t => ms_F (Sr t) i j)).
    - intros k. unfold ms_pts. dr.
    - intros k. apply h8. }
  apply (DR_ext (fun t => if ms_sym sd then (if (d =? 1)%nat then
        rsum (ms_npy sd) (fun j => rsum (ms_npx sd) (fun i => cross (fun k => ms_pts (Sr t) i j k -! Cg t k) (ms_F (Sr t) i j) d)) *! o2 else o0)
      else rsum (ms_npy sd) (fun j => rsum (ms_npx sd) (fun i => cross (fun k => ms_pts (Sr t) i j k -! Cg t k) (ms_F (Sr t) i j) d)))).
  { intros t. rewrite h1, h2, h3. reflexivity. }
  destruct (ms_sym sd); [destruct (d =? 1)%nat|]; [apply DR_mul; [exact Hraw | apply DR_o2] | apply DR_o0 | exact Hraw].
Qed.
Definition DRls (ss : list (R -> @MSurf R)) t0 (ds : list (@MSurf (dual R))) := Forall2 (fun c d => MSrel c t0 d) ss ds.
Definition ats (t : R) (ss : list (R -> @MSurf R)) : list (@MSurf R) := map (fun c => c t) ss.
Lemma moment_M_DR ss Cg t0 ds cg d : DRls ss t0 ds -> DRv Cg t0 cg -> DR (fun t => moment_M (ats t ss) (Cg t) d) t0 (moment_M ds cg d).
Proof.
  intros Hs HC. unfold moment_M, ats.
  apply (DR_ext (fun t => lsum ss (fun c => ms_moment (c t) (Cg t) d))); [intros t; rewrite lsum_map; reflexivity|].
  apply (DR_lsum ss ds (fun t c => ms_moment (c t) (Cg t) d) (fun s => ms_moment s cg d)).
  induction Hs as [|c c' ss' ds' Ha Hs IH]; constructor; [apply ms_moment_DR; assumption | exact IH].
Qed.
(* admissible: non-zero dynamic pressure x area x MAC, non-zero S_ref of the first surface *)
Lemma moment_CM_DR s0 ss Cg Rho V St t0 d0 ds cg rho v st d :
  DRls (s0 :: ss) t0 (d0 :: ds) -> DRv Cg t0 cg -> DR Rho t0 rho -> DR V t0 v -> DR St t0 st ->
  ms_Sref (s0 t0) <> 0 -> ohalf * Rho t0 * (V t0 * V t0) * St t0 * ms_MAC (s0 t0) <> 0 ->
  DR (fun t => moment_CM (ats t (s0 :: ss)) (Cg t) (Rho t) (V t) (St t) d) t0 (moment_CM (d0 :: ds) cg rho v st d).
Proof.
  intros Hs HC H1 H2 H3 Hn Hq. unfold moment_CM. cbv zeta.
  assert (H0 : MSrel s0 t0 d0) by (inversion Hs; assumption).
  apply DR_div.
  - apply (moment_M_DR (s0 :: ss) Cg t0 (d0 :: ds)); assumption.
  - cbn [ats map]. dr. apply ms_MAC_DR; assumption.
  - cbn [ats map]. exact Hq.
Qed.
