(* IOUnitsProofs.v — the unit contract regenerated from /repo is the reviewed one (finite comparison, by computation). *)
From Coq Require Import String List.
From OAS Require Import IOUnits IOUnitsReviewed.
Import ListNotations.

Lemma io_units_reviewed : gen_io_units = reviewed_io_units.
Proof. reflexivity. Qed.

Lemma height_above_ground_is_a_length_in_metres :
  In ("aerodynamics/vortex_mesh.py", "VortexMesh", "input", "'height_agl'", "'m'")%string gen_io_units.
Proof. rewrite io_units_reviewed. unfold reviewed_io_units. repeat (first [left; reflexivity | right]). Qed.
