(* WingboxProofs.v — structural facts about the wing-box models used by C07 (mirror images) and C16 (areas):
   WingboxGeometry gives the mirrored wing the same element quantities; closed forms for a rectangular box. *)
From Coq Require Import Reals ZArith Lra Lia Arith Bool.
From OAS Require Import Scalar Rops Sums Wingbox.
Open Scope R_scope.

Section Mirror.
  Variables (nx1 : nat) (m m' : nat -> nat -> nat -> R) (xu0 yu0 yl0 xun yun yln : R) (e e' : nat).
  (* m' is the mirror image of m about y = 0 with the spanwise node order reversed: node e'+1 of m' is node e of m and
     node e' of m' is node e+1 of m (leading- and trailing-edge rows; the component reads no other row) *)
  Definition mirrored_node (j' j : nat) : Prop :=
    forall i, (i = 0%nat \/ i = nx1) ->
      m' i j' 0%nat = m i j 0%nat /\ m' i j' 1%nat = - m i j 1%nat /\ m' i j' 2%nat = m i j 2%nat.
  Hypotheses (H1 : mirrored_node (S e') e) (H0 : mirrored_node e' (S e)).

  Ltac pick H := destruct (H 0%nat (or_introl eq_refl)) as (?a & ?b & ?c); destruct (H nx1 (or_intror eq_refl)) as (?a & ?b & ?c).

  Lemma wg_chord_node_mirror j' j : mirrored_node j' j -> wg_chord_node nx1 m' j' = wg_chord_node nx1 m j.
  Proof.
    intros H. pick H. unfold wg_chord_node, nrm, dot, wg_vec; rops.
    repeat match goal with E : m' _ _ _ = _ |- _ => rewrite E; clear E end. f_equal. ring.
  Qed.
  Lemma wg_cos_twist_mirror j' j : mirrored_node j' j -> wg_cos_twist nx1 m' j' = wg_cos_twist nx1 m j.
  Proof.
    intros H. pick H. unfold wg_cos_twist, nrm, dot, mk3, wg_vec; rops.
    repeat match goal with E : m' _ _ _ = _ |- _ => rewrite E; clear E end. f_equal; f_equal; ring.
  Qed.
  Lemma wg_theta_mirror j' j : mirrored_node j' j -> wg_theta nx1 m' j' = wg_theta nx1 m j.
  Proof. intros H. unfold wg_theta. rewrite (wg_cos_twist_mirror j' j H). reflexivity. Qed.
  Lemma wg_sw_mirror : wg_sw nx1 m' e' = wg_sw nx1 m e.
  Proof.
    unfold wg_sw. rewrite (wg_chord_node_mirror _ _ H1), (wg_chord_node_mirror _ _ H0). rops. ring.
  Qed.
  Lemma wg_cos_sweep_mirror :
    wg_cos_sweep nx1 m' xu0 yu0 yl0 xun yun yln e' = wg_cos_sweep nx1 m xu0 yu0 yl0 xun yun yln e.
  Proof.
    pick H1. pick H0. unfold wg_cos_sweep, nrm, dot, mk3, wg_elem, vsub, wg_node; rops.
    repeat match goal with E : m' _ _ _ = _ |- _ => rewrite E; clear E end. f_equal; f_equal; ring.
  Qed.

  (* the three outputs of WingboxGeometry for the mirrored element are those of the original element *)
  Theorem wingbox_geometry_mirror :
    wg_sw nx1 m' e' = wg_sw nx1 m e /\
    wg_fem_chord nx1 m' xu0 yu0 yl0 xun yun yln e' = wg_fem_chord nx1 m xu0 yu0 yl0 xun yun yln e /\
    wg_fem_twist nx1 m' xu0 yu0 yl0 xun yun yln e' = wg_fem_twist nx1 m xu0 yu0 yl0 xun yun yln e.
  Proof.
    assert (Hc : wg_fem_chord nx1 m' xu0 yu0 yl0 xun yun yln e' = wg_fem_chord nx1 m xu0 yu0 yl0 xun yun yln e).
    { unfold wg_fem_chord. rewrite wg_sw_mirror, wg_cos_sweep_mirror. reflexivity. }
    split; [apply wg_sw_mirror | split; [exact Hc|]].
    unfold wg_fem_twist. rewrite Hc, wg_sw_mirror, (wg_theta_mirror _ _ H1), (wg_theta_mirror _ _ H0). rops.
    f_equal. f_equal. f_equal. ring.
  Qed.
End Mirror.

(* ---------- a rectangular box: upper skin at yu, lower skin at yl, between x0 and x1 (one segment), untwisted ---------- *)
Section Box.
  Variables (x0 x1 yu yl toc0 chord spar skin toc sw : R).
  Hypotheses (Hc : chord <> 0) (Ht : toc0 <> 0).
  Let bx : nat -> R := fun i => match i with O => x0 | _ => x1 end.
  Let w := chord * (x1 - x0).                                   (* box width *)
  Let h := chord * (toc / toc0 * sw / chord) * (yu - yl).       (* box height: scaled by the streamwise t/c *)

  (* material area: two skins over the full width, two spars between the skins *)
  Theorem box_area :
    wb_A 1 bx (fun _ => yu) bx (fun _ => yl) toc0 chord spar skin toc sw 0 = 2 * skin * w + 2 * (h - 2 * skin) * spar.
  Proof.
    unfold wb_A, st_A, area_spars, hfi, hri, hf, hr, xud, xld, XU1, YU1, XL1, YL1, XU0, YU0, XL0, YL0, wb_yscale, o2, w, h, bx;
      cbn [sumn]; rops. rewrite cos_0, sin_0. field. split; assumption.
  Qed.
  (* the internal (fuel) area the code uses: width times the height between the skins, minus both spars over the FULL height *)
  Theorem box_internal_area :
    wb_A_int 1 bx (fun _ => yu) bx (fun _ => yl) toc0 chord spar skin toc sw = w * (h - 2 * skin) - 2 * h * spar.
  Proof.
    unfold wb_A_int, st_A_int, hf, hr, xud, xld, yua, yla, XU0, YU0, XL0, YL0, wb_yscale, o2, w, h, bx; cbn [sumn]; rops.
    field. split; assumption.
  Qed.
End Box.
