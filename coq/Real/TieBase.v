(* TieBase.v — decidable equality of the regenerated structural facts (lists of tuples of strings), evaluated by vm_compute: when the
   regenerated list differs from the reviewed one the obligation must FAIL AT ONCE (a failing `reflexivity` between two large
   closed lists can make the unifier run for hours). *)
From Coq Require Import String List Bool.
Import ListNotations.

Fixpoint list_eqb {A : Type} (eqb : A -> A -> bool) (l1 l2 : list A) : bool :=
  match l1, l2 with
  | [], [] => true
  | a :: r, b :: s => eqb a b && list_eqb eqb r s
  | _, _ => false
  end.
Lemma list_eqb_eq {A : Type} (eqb : A -> A -> bool) :
  (forall a b, eqb a b = true -> a = b) -> forall l1 l2, list_eqb eqb l1 l2 = true -> l1 = l2.
Proof.
  intros H l1. induction l1 as [|a r IH]; intros [|b s] E; cbn in E; try discriminate; [reflexivity|].
  apply andb_true_iff in E. destruct E as [E1 E2]. rewrite (H _ _ E1), (IH _ E2). reflexivity.
Qed.
Definition pair_eqb {A B : Type} (ea : A -> A -> bool) (eb : B -> B -> bool) (p q : A * B) : bool := ea (fst p) (fst q) && eb (snd p) (snd q).
Lemma pair_eqb_eq {A B : Type} (ea : A -> A -> bool) (eb : B -> B -> bool) :
  (forall a b, ea a b = true -> a = b) -> (forall a b, eb a b = true -> a = b) -> forall p q, pair_eqb ea eb p q = true -> p = q.
Proof.
  intros Ha Hb [a1 b1] [a2 b2] E. unfold pair_eqb in E; cbn in E. apply andb_true_iff in E. destruct E as [E1 E2].
  rewrite (Ha _ _ E1), (Hb _ _ E2). reflexivity.
Qed.
Lemma str_eqb_eq (a b : string) : String.eqb a b = true -> a = b.
Proof. apply String.eqb_eq. Qed.

(* group wiring: list (model name, list (input, source)) *)
Definition conn_eqb := pair_eqb String.eqb String.eqb.
Definition graph_eqb := pair_eqb String.eqb (list_eqb conn_eqb).
Definition wiring_eqb := list_eqb graph_eqb.
Lemma wiring_eqb_sound w1 w2 : wiring_eqb w1 w2 = true -> w1 = w2.
Proof.
  apply list_eqb_eq. apply pair_eqb_eq; [exact str_eqb_eq|]. apply list_eqb_eq. apply pair_eqb_eq; exact str_eqb_eq.
Qed.

(* unit contract / option defaults: list of 5-tuples, resp. 4-tuples of strings *)
Definition tup5_eqb := pair_eqb (pair_eqb (pair_eqb (pair_eqb String.eqb String.eqb) String.eqb) String.eqb) String.eqb.
Definition units_eqb := list_eqb tup5_eqb.
Lemma units_eqb_sound u1 u2 : units_eqb u1 u2 = true -> u1 = u2.
Proof. apply list_eqb_eq. repeat (apply pair_eqb_eq; try exact str_eqb_eq). Qed.
Definition tup4_eqb := pair_eqb (pair_eqb (pair_eqb String.eqb String.eqb) String.eqb) String.eqb.
Definition opts_eqb := list_eqb tup4_eqb.
Lemma opts_eqb_sound u1 u2 : opts_eqb u1 u2 = true -> u1 = u2.
Proof. apply list_eqb_eq. repeat (apply pair_eqb_eq; try exact str_eqb_eq). Qed.

(* rejection guards: list (file, function, exception, list of guards) *)
Definition site_eqb := pair_eqb (pair_eqb (pair_eqb String.eqb String.eqb) String.eqb) (list_eqb String.eqb).
Definition sites_eqb := list_eqb site_eqb.
Lemma sites_eqb_sound s1 s2 : sites_eqb s1 s2 = true -> s1 = s2.
Proof. apply list_eqb_eq. apply pair_eqb_eq; [repeat (apply pair_eqb_eq; try exact str_eqb_eq) | apply list_eqb_eq; exact str_eqb_eq]. Qed.
