(* PGProofs.v — Prandtl-Glauert transformation identities (C09). *)
From Coq Require Import Reals ZArith Lra Lia Arith Bool Nsatz.
From OAS Require Import Scalar Rops Sums Stress Vec3 Aero VLM AeroProofs PG.
Open Scope R_scope.

Lemma sc1 x : sin x * sin x + cos x * cos x = 1.
Proof. pose proof (sin2_cos2 x) as H. unfold Rsqr in H. exact H. Qed.

(* Tw is orthogonal: rotating back undoes rotating to the wind frame *)
Lemma from_wind_to_wind a b (v : nat -> R) l : (l < 3)%nat -> from_wind a b (to_wind a b v) l = v l.
Proof.
  intros Hl. pose proof (sc1 a) as Ha. pose proof (sc1 b) as Hb.
  unfold from_wind, to_wind. cbn [sumn]. rops.
  destruct l as [|[|[|l]]]; try lia; unfold Tw; rops; nsatz.
Qed.
Lemma to_wind_from_wind a b (v : nat -> R) l : (l < 3)%nat -> to_wind a b (from_wind a b v) l = v l.
Proof.
  intros Hl. pose proof (sc1 a) as Ha. pose proof (sc1 b) as Hb.
  unfold from_wind, to_wind. cbn [sumn]. rops.
  destruct l as [|[|[|l]]]; try lia; unfold Tw; rops; nsatz.
Qed.
Lemma to_wind_isometry a b (u v : nat -> R) : dot (to_wind a b u) (to_wind a b v) = dot u v.
Proof.
  pose proof (sc1 a) as Ha. pose proof (sc1 b) as Hb.
  unfold dot, to_wind. cbn [sumn]. unfold Tw; rops. nsatz.
Qed.

(* the free-stream direction is mapped onto the x axis *)
Lemma Tw_stream_to_x a b l : (l < 3)%nat ->
  to_wind a b (mk3 (cos a * cos b) (- sin b) (sin a * cos b)) l = match l with 0%nat => 1 | _ => 0 end.
Proof.
  intros Hl. pose proof (sc1 a) as Ha. pose proof (sc1 b) as Hb.
  unfold to_wind. cbn [sumn]. unfold Tw, mk3; rops.
  destruct l as [|[|[|l]]]; try lia; nsatz.
Qed.

(* at zero sideslip the wake direction of the incompressible solver is mapped onto the wake
   direction of the PG-domain solve (alpha_pg = 0) ... *)
Lemma Tw_wake_to_x a l : (l < 3)%nat ->
  to_wind a 0 (mk3 (cos a) 0 (sin a)) l = match l with 0%nat => 1 | _ => 0 end.
Proof.
  intros Hl. pose proof (sc1 a) as Ha.
  unfold to_wind. cbn [sumn]. unfold Tw, mk3; rops. rewrite cos_0, sin_0.
  destruct l as [|[|[|l]]]; try lia; nsatz.
Qed.
(* ... but not with sideslip: the incompressible path's wake ignores beta *)
Lemma Tw_wake_with_sideslip a b :
  to_wind a b (mk3 (cos a) 0 (sin a)) 0%nat = cos b /\ to_wind a b (mk3 (cos a) 0 (sin a)) 1%nat = sin b.
Proof.
  pose proof (sc1 a) as Ha. unfold to_wind. cbn [sumn]. unfold Tw, mk3; rops. split; nsatz.
Qed.

(* Mach 0: every scaling is the identity *)
Lemma betaPG_0 : @betaPG R Rops 0 = 1.
Proof. unfold betaPG; rops. replace (1 - 0 * 0) with 1 by ring. apply sqrt_1. Qed.
Lemma pg_scalings_identity_at_mach0 (v : nat -> R) d :
  pg_point 0 v d = v d /\ pg_normal 0 v d = v d /\ pg_rotvel 0 v d = v d /\ pg_force_back 0 v d = v d.
Proof.
  unfold pg_point, pg_normal, pg_rotvel, pg_force_back, p3b, osq. rewrite betaPG_0. rops.
  destruct (d =? 0)%nat; repeat split; field.
Qed.
Lemma betaPG_range M : 0 <= M < 1 -> 0 < @betaPG R Rops M <= 1.
Proof.
  intros [H0 H1]. unfold betaPG; rops.
  assert (HM : M * M < 1) by (apply Rle_lt_trans with (M * 1); [apply Rmult_le_compat_l; lra | lra]).
  assert (0 <= M * M) by (apply Rmult_le_pos; lra).
  split.
  - apply sqrt_lt_R0. lra.
  - rewrite <- sqrt_1 at 2. apply sqrt_le_1; lra.
Qed.
(* continuity in Mach: betaPG is continuous on [0,1) (sqrt of a positive polynomial) *)
Lemma betaPG_sq M : 0 <= M < 1 -> betaPG M * betaPG M = 1 - M * M.
Proof.
  intros [H0 H1]. unfold betaPG; rops. apply sqrt_sqrt.
  assert (M * M < 1) by (apply Rle_lt_trans with (M * 1); [apply Rmult_le_compat_l; lra | lra]). lra.
Qed.

(* ---- rotation covariance of the vortex kernels (proper rotations about the y axis) ---- *)
Definition roty (c s : R) (v : nat -> R) : nat -> R := mk3 (c * v 0%nat + s * v 2%nat) (v 1%nat) (- s * v 0%nat + c * v 2%nat).
Lemma to_wind_is_roty a (v : nat -> R) l : (l < 3)%nat -> to_wind a 0 v l = roty (cos a) (sin a) v l.
Proof.
  intros Hl. unfold to_wind, roty. cbn [sumn]. unfold Tw, mk3; rops. rewrite cos_0, sin_0.
  destruct l as [|[|[|l]]]; try lia; ring.
Qed.
Section Roty.
  Variables c s : R.
  Hypothesis Hcs : s * s + c * c = 1.
  Lemma roty_dot a b : dot (roty c s a) (roty c s b) = dot a b.
  Proof. unfold roty, dot; cbn [mk3]; rops. nsatz. Qed.
  Lemma roty_nrm a : nrm (roty c s a) = nrm a.
  Proof. unfold nrm; rops. rewrite roty_dot. reflexivity. Qed.
  Lemma roty_cross a b d : (d < 3)%nat -> cross (roty c s a) (roty c s b) d = roty c s (cross a b) d.
  Proof.
    intros Hd. destruct d as [|[|[|d]]]; try lia; unfold roty, cross; cbn [mk3]; rops; try ring.
    replace (a 2%nat * b 0%nat - a 0%nat * b 2%nat) with ((a 2%nat * b 0%nat - a 0%nat * b 2%nat) * (s * s + c * c)) by (rewrite Hcs; ring).
    ring.
  Qed.
  Lemma roty_linear k a d : (d < 3)%nat -> roty c s (fun i => k * a i) d = k * roty c s a d.
  Proof. intros Hd. destruct d as [|[|[|d]]]; try lia; unfold roty; cbn [mk3]; rops; ring. Qed.

  (* proper rotation: the kernels rotate with the geometry (no sign change) *)
  Lemma fv_roty r1 r2 d : (d < 3)%nat -> fv (roty c s r1) (roty c s r2) d = roty c s (fv r1 r2) d.
  Proof.
    intros Hd. unfold fv. rops. rewrite !roty_nrm, roty_dot.
    destruct (Rltb vtol (Rabs (nrm r1 * nrm r2 + dot r1 r2))).
    - rewrite roty_cross by exact Hd.
      set (k := (1 / nrm r1 + 1 / nrm r2)). set (den := (nrm r1 * nrm r2 + dot r1 r2) * 4 * PI).
      transitivity (roty c s (fun i => k / den * cross r1 r2 i) d).
      + rewrite roty_linear by exact Hd. unfold Rdiv. ring.
      + destruct d as [|[|[|d]]]; try lia; unfold roty; cbn [mk3]; rops; unfold Rdiv; ring.
    - destruct d as [|[|[|d]]]; try lia; unfold roty; cbn [mk3]; rops; ring.
  Qed.
  Lemma semi_roty u r d : (d < 3)%nat -> semi (roty c s u) (roty c s r) d = roty c s (semi u r) d.
  Proof.
    intros Hd. unfold semi. rops. rewrite roty_nrm, roty_dot, roty_cross by exact Hd.
    set (den := nrm r * (nrm r - dot u r)).
    transitivity (roty c s (fun i => / den / 4 / PI * cross u r i) d).
    - rewrite roty_linear by exact Hd. unfold Rdiv. ring.
    - destruct d as [|[|[|d]]]; try lia; unfold roty; cbn [mk3]; rops; unfold Rdiv; ring.
  Qed.
End Roty.

(* C09: the scaling (B^2, B, B) that ScaleToPrandtlGlauert applies to the rigid-rotation onset velocity omega x (r - cg)
   (expressed in wind axes) makes it, in the Prandtl-Glauert domain, the velocity field of a rigid rotation again: about the
   transformed point, with rate (omega_x, B omega_y, B omega_z).  Any other choice of the three factors (e.g. B for all
   components) does not. *)
Lemma pg_rotvel_is_rigid_rotation M (w r : nat -> R) d : (d < 3)%nat ->
  pg_rotvel M (cross w r) d = cross (pg_point M w) (pg_point M r) d.
Proof.
  intros Hd. unfold pg_rotvel, pg_point, cross, mk3; rops.
  destruct d as [|[|[|d]]]; try lia; cbn [Nat.eqb]; ring.
Qed.

Lemma uniform_scaling_is_not M : betaPG M <> 0 -> betaPG M <> 1 ->
  exists (w r : nat -> R), cross w r 0%nat * betaPG M <> cross (pg_point M w) (pg_point M r) 0%nat.
Proof.
  intros H0 H1. exists (mk3 0 1 0), (mk3 0 0 1). unfold cross, pg_point, mk3; rops. cbn [Nat.eqb].
  intros E. apply H1. assert (betaPG M * (betaPG M - 1) = 0) by nra.
  apply Rmult_integral in H. destruct H; [contradiction | lra].
Qed.
