(* Rops.v — the real-number instance of Ops, used in every theorem. *)
From Coq Require Import Reals ZArith Lra.
From OAS Require Import Scalar.
Open Scope R_scope.

Definition Rltb (a b : R) : bool := if Rlt_dec a b then true else false.
Definition Rleb (a b : R) : bool := if Rle_dec a b then true else false.
Definition Reqb (a b : R) : bool := if Req_EM_T a b then true else false.

#[export] Instance Rops : Ops R :=
  mkOps R 0 1 Rplus Rminus Rmult Rdiv Ropp Rabs sqrt exp ln sin cos tan atan acos Rpower
        IZR PI Rltb Rleb Reqb.

Lemma Rltb_true a b : Rltb a b = true <-> a < b.
Proof. unfold Rltb; destruct (Rlt_dec a b); split; auto; discriminate. Qed.
Lemma Rltb_false a b : Rltb a b = false <-> b <= a.
Proof. unfold Rltb; destruct (Rlt_dec a b); split; intros; auto; try discriminate; lra. Qed.
Lemma Rleb_true a b : Rleb a b = true <-> a <= b.
Proof. unfold Rleb; destruct (Rle_dec a b); split; auto; discriminate. Qed.
Lemma Rleb_false a b : Rleb a b = false <-> b < a.
Proof. unfold Rleb; destruct (Rle_dec a b); split; intros; auto; try discriminate; lra. Qed.
Lemma Reqb_true a b : Reqb a b = true <-> a = b.
Proof. unfold Reqb; destruct (Req_EM_T a b); split; auto; discriminate. Qed.
Lemma Reqb_false a b : Reqb a b = false <-> a <> b.
Proof. unfold Reqb; destruct (Req_EM_T a b); split; intros; auto; try discriminate; contradiction. Qed.

(* expose the real operations inside generic model terms *)
Ltac rops :=
  cbn [o0 o1 oadd osub omul odiv oopp oabs osqrt oexp oln osin ocos otan oatan oacos opow oofZ opi
       oltb oleb oeqb Rops] in *.
Ltac runfold :=
  unfold ofrac, onat, o2, ohalf, osq, vadd, vsub, vscal, vopp, dot, cross, nrm, vzero, mk3, deg2rad in *;
  rops.

Notation rsum := (@sumn R Rops).
