(* Deriv.v — derivative vocabulary (Coquelicot) for the C01 theorems. *)
From Coq Require Import Reals ZArith Lra Lia Arith.
From Coquelicot Require Import Coquelicot.
From OAS Require Import Scalar Rops Sums.
Open Scope R_scope.

(* replace one coordinate of an input array *)
Definition upd1 (x : nat -> R) (c : nat) (t : R) : nat -> R := fun i => if (i =? c)%nat then t else x i.


Lemma upd1_eq x c t : upd1 x c t c = t.
Proof. unfold upd1. rewrite Nat.eqb_refl. reflexivity. Qed.
Lemma upd1_neq x c t i : i <> c -> upd1 x c t i = x i.
Proof. unfold upd1. intros H. apply Nat.eqb_neq in H. rewrite H. reflexivity. Qed.

(* derivative of a finite sum *)
Lemma is_derive_rsum n (f : nat -> R -> R) (df : nat -> R) x :
  (forall i, (i < n)%nat -> is_derive (f i) x (df i)) ->
  is_derive (fun t => rsum n (fun i => f i t)) x (rsum n df).
Proof.
  induction n as [|n IH]; intros H.
  - cbn [sumn]. rops. apply (is_derive_const (K := R_AbsRing) (V := R_NormedModule)).
  - cbn [sumn]. rops.
    apply (is_derive_plus (K := R_AbsRing) (V := R_NormedModule)).
    + apply IH. intros; apply H; lia.
    + apply H; lia.
Qed.

(* an affine function of t:  a + b * t  *)
Lemma is_derive_affine a b x : is_derive (fun t => a + b * t) x b.
Proof. auto_derive; [exact I | ring]. Qed.

(* extensionality of is_derive in the function *)
Lemma is_derive_ext' (f g : R -> R) x l : (forall t, f t = g t) -> is_derive f x l -> is_derive g x l.
Proof. intros H. apply is_derive_ext. exact H. Qed.

Ltac derive_solve := auto_derive; [ repeat split; auto | rops; try field; try ring ].
