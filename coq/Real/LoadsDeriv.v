(* LoadsDeriv.v — C01 for Weight, StructuralCG, StructureWeightLoads, FuelLoads, WingboxFuelVols,
   WingboxFuelVolDelta (pure member), ComputePointMassLoads, ComputeThrustLoads, TotalLoads. *)
From Coq Require Import Reals ZArith Lra Lia Arith Bool.
From Coquelicot Require Import Coquelicot.
From OAS Require Import Scalar Rops Sums Deriv Dual DualProofs Loads.
Open Scope R_scope.

Lemma sym2_DR sym X t0 x : DR X t0 x -> DR (fun t => sym2 sym (X t)) t0 (sym2 sym x).
Proof. intros; unfold sym2; destruct sym; dr. Qed.
Lemma symhalf_DR sym X t0 x : DR X t0 x -> DR (fun t => symhalf sym (X t)) t0 (symhalf sym x).
Proof. intros; unfold symhalf; destruct sym; dr. unfold o2; rops; lra. Qed.
Lemma o2_neq0 : @o2 R Rops <> 0. Proof. unfold o2; rops; lra. Qed.

Section Beam.
  Variables (N : R -> nat -> nat -> R) (t0 : R) (n : nat -> nat -> dual R).
  Hypothesis HN : DR2 N t0 n.
  (* admissible: elements of non-zero length (and non-zero horizontal projection where it is used) *)
  Definition elen_pos (e : nat) : Prop := 0 < osq (delta (N t0) e 0) + osq (delta (N t0) e 1) + osq (delta (N t0) e 2).
  Definition hlen_pos (e : nat) : Prop := 0 < osq (delta (N t0) e 0) + osq (delta (N t0) e 1).

  Lemma delta_DR e d : DR (fun t => delta (N t) e d) t0 (delta n e d).
  Proof. unfold delta; dr. Qed.
  Lemma elen_DR e : elen_pos e -> DR (fun t => elen (N t) e) t0 (elen n e).
  Proof. intros Hp. unfold elen. apply DR_sqrt; [| exact Hp]. dr; apply delta_DR. Qed.
  Lemma elen_neq0 e : elen_pos e -> elen (N t0) e <> 0.
  Proof. intros Hp. unfold elen; rops. apply Rgt_not_eq, sqrt_lt_R0. exact Hp. Qed.
  Lemma hlen_DR e : hlen_pos e -> DR (fun t => hlen (N t) e) t0 (hlen n e).
  Proof. intros Hp. unfold hlen. apply DR_sqrt; [| exact Hp]. dr; apply delta_DR. Qed.
  Lemma emid_DR e d : DR (fun t => emid (N t) e d) t0 (emid n e d).
  Proof. unfold emid; dr. exact o2_neq0. Qed.

  Lemma element_mass_DR Mr Ww A mr ww a e : DR Mr t0 mr -> DR Ww t0 ww -> DR1 A t0 a -> elen_pos e ->
    DR (fun t => element_mass (N t) (Mr t) (Ww t) (A t) e) t0 (element_mass n mr ww a e).
  Proof. intros H1 H2 HA Hp. unfold element_mass. dr. apply elen_DR; exact Hp. Qed.
  Lemma structural_mass_DR ne sym Mr Ww A mr ww a : DR Mr t0 mr -> DR Ww t0 ww -> DR1 A t0 a -> (forall e, (e < ne)%nat -> elen_pos e) ->
    DR (fun t => structural_mass (N t) ne sym (Mr t) (Ww t) (A t)) t0 (structural_mass n ne sym mr ww a).
  Proof.
    intros H1 H2 HA Hp. unfold structural_mass. apply sym2_DR. apply DR_sumn; intros e He.
    apply element_mass_DR; auto.
  Qed.

  Lemma cg_location_DR ne sym M Em m em d : DR M t0 m -> DR1 Em t0 em -> M t0 <> 0 ->
    DR (fun t => cg_location (N t) ne sym (M t) (Em t) d) t0 (cg_location n ne sym m em d).
  Proof.
    intros HM HE Hn. unfold cg_location. cbv zeta.
    destruct sym; [destruct (d =? 1)%nat|]; dr; cbv beta; try apply emid_DR; exact Hn.
  Qed.

  (* w, zm need only be differentiable on the elements of the beam *)
  Lemma dist_loads_DR ne W Zm w zm j c :
    (forall e, (e < ne)%nat -> DR (fun t => W t e) t0 (w e)) -> (forall e, (e < ne)%nat -> DR (fun t => Zm t e) t0 (zm e)) ->
    (forall e, (e < ne)%nat -> elen_pos e) -> (j <= ne)%nat ->
    DR (fun t => dist_loads (N t) ne (W t) (Zm t) j c) t0 (dist_loads n ne w zm j c).
  Proof.
    intros HW HZ Hp Hj. unfold dist_loads. cbv zeta.
    assert (Hlo : (j <? ne)%nat = true -> (j < ne)%nat) by (apply Nat.ltb_lt).
    assert (Hhi : (0 <? j)%nat = true -> (j - 1 < ne)%nat) by (intros E; apply Nat.ltb_lt in E; lia).
    destruct c as [|[|[|[|[|c]]]]]; try apply DR_o0;
      unfold iff0; destruct (j <? ne)%nat eqn:E1; destruct (0 <? j)%nat eqn:E2; dr; cbv beta;
        try exact o2_neq0; try apply delta_DR; try (apply elen_DR; apply Hp; auto); try (apply elen_neq0; apply Hp; auto);
        try (apply HW; auto); try (apply HZ; auto); try (apply Hlo; reflexivity); try (apply Hhi; reflexivity).
  Qed.

  Lemma struct_weight_loads_DR ne G Lf Em g lf em j c : DR G t0 g -> DR Lf t0 lf -> DR1 Em t0 em ->
    (forall e, (e < ne)%nat -> elen_pos e /\ hlen_pos e) -> (j <= ne)%nat ->
    DR (fun t => struct_weight_loads (N t) ne (G t) (Lf t) (Em t) j c) t0 (struct_weight_loads n ne g lf em j c).
  Proof.
    intros HG HL HE Hp Hj. unfold struct_weight_loads.
    apply (dist_loads_DR ne (fun t => sw_weight (G t) (Lf t) (Em t)) (fun t => sw_zm (N t) (G t) (Lf t) (Em t))); try assumption.
    - intros e He. unfold sw_weight. dr.
    - intros e He. unfold sw_zm, sw_weight. dr; [rops; lra | apply hlen_DR; apply Hp; exact He].
    - intros e He; apply Hp; exact He.
  Qed.

  Lemma fuel_total_DR sym G Lf Fm Rs g lf fm rs : DR G t0 g -> DR Lf t0 lf -> DR Fm t0 fm -> DR Rs t0 rs ->
    DR (fun t => fuel_total sym (G t) (Lf t) (Fm t) (Rs t)) t0 (fuel_total sym g lf fm rs).
  Proof. intros. unfold fuel_total. apply symhalf_DR. dr. Qed.
  Lemma fuel_weight_loads_DR ne sym G Lf Fm Rs V g lf fm rs v j c :
    DR G t0 g -> DR Lf t0 lf -> DR Fm t0 fm -> DR Rs t0 rs -> DR1 V t0 v ->
    (forall e, (e < ne)%nat -> elen_pos e /\ hlen_pos e) -> rsum ne (V t0) <> 0 -> (j <= ne)%nat ->
    DR (fun t => fuel_weight_loads (N t) ne sym (G t) (Lf t) (Fm t) (Rs t) (V t) j c) t0 (fuel_weight_loads n ne sym g lf fm rs v j c).
  Proof.
    intros HG HL HF HR HV Hp Hs Hj. unfold fuel_weight_loads. cbv zeta.
    pose proof (fuel_total_DR sym G Lf Fm Rs g lf fm rs HG HL HF HR) as Hft.
    assert (Hw : forall e, DR (fun t => fl_weight ne (fuel_total sym (G t) (Lf t) (Fm t) (Rs t)) (V t) e) t0 (fl_weight ne (fuel_total sym g lf fm rs) v e)).
    { intros e. unfold fl_weight. dr. exact Hs. }
    apply (dist_loads_DR ne (fun t => fl_weight ne (fuel_total sym (G t) (Lf t) (Fm t) (Rs t)) (V t))
             (fun t => fl_zm (N t) ne (fuel_total sym (G t) (Lf t) (Fm t) (Rs t)) (V t))); try assumption.
    - intros e He; apply Hw.
    - intros e He. unfold fl_zm. dr; cbv beta; try apply Hw; try (apply elen_DR; apply Hp; exact He);
        try (apply hlen_DR; apply Hp; exact He); try (apply elen_neq0; apply Hp; exact He). rops; lra.
    - intros e He; apply Hp; exact He.
  Qed.

  Lemma fuel_vols_DR A a e : DR1 A t0 a -> elen_pos e -> DR (fun t => fuel_vols (N t) (A t) e) t0 (fuel_vols n a e).
  Proof. intros HA Hp. unfold fuel_vols. dr. apply elen_DR; exact Hp. Qed.

  (* point masses / thrusts: smooth everywhere (the 10th power plus 1e-10 never vanishes) *)
  Lemma p10_nonneg x : 0 <= p10 x.
  Proof. unfold p10. cbv zeta. rops. assert (H : 0 <= x * x) by nra. assert (H4 : 0 <= x * x * (x * x)) by nra.
    assert (H8 : 0 <= x * x * (x * x) * (x * x * (x * x))) by nra. nra. Qed.
  Lemma pm_inv_DR Loc loc j : DR1 Loc t0 loc -> DR (fun t => pm_inv (N t) (Loc t) j) t0 (pm_inv n loc j).
  Proof.
    intros HL. unfold pm_inv. apply DR_div; [dr | |].
    - unfold p10, pm_eps. cbv zeta. dr.
    - cbv beta. pose proof (p10_nonneg (Loc t0 1%nat -! N t0 j 1%nat)). unfold pm_eps, ofrac; rops. rops. 
      assert (0 < 1 / 10000000000) by lra. rops. lra.
  Qed.
End Beam.

Section PointLoads.
  Variables (N : R -> nat -> nat -> R) (t0 : R) (n : nat -> nat -> dual R).
  Hypothesis HN : DR2 N t0 n.
  Lemma pm_inv_pos loc j : 0 < pm_inv (N t0) loc j.
  Proof.
    unfold pm_inv. pose proof (p10_nonneg (loc 1%nat -! N t0 j 1%nat)) as Hp.
    unfold pm_eps, ofrac in *; rops. rops. apply Rdiv_lt_0_compat; lra.
  Qed.
  Lemma rsum_pos_S m f : (forall i, 0 < f i) -> 0 < rsum (S m) f.
  Proof. intros H. induction m as [|m IH]; cbn [sumn] in *; rops; [specialize (H 0%nat); lra | specialize (H (S m)); lra]. Qed.
  Lemma nodal_weighting_DR ne Loc loc j : DR1 Loc t0 loc -> DR (fun t => nodal_weighting (N t) ne (Loc t) j) t0 (nodal_weighting n ne loc j).
  Proof.
    intros HL. unfold nodal_weighting. apply DR_div.
    - apply pm_inv_DR; assumption.
    - apply DR_sumn; intros i Hi. apply pm_inv_DR; assumption.
    - cbv beta. apply Rgt_not_eq. apply rsum_pos_S. intros i. apply pm_inv_pos.
  Qed.
  Lemma pm_force_DRv ne Loc Dir S loc dir s j : DR1 Loc t0 loc -> DRv Dir t0 dir -> DR S t0 s ->
    DRv (fun t => pm_force (N t) ne (Loc t) (Dir t) (S t) j) t0 (pm_force n ne loc dir s j).
  Proof. intros HL HD HS d. unfold pm_force. dr. apply nodal_weighting_DR; assumption. Qed.
  Lemma pm_loads1_DR ne Loc Dir S loc dir s j c : DR1 Loc t0 loc -> DRv Dir t0 dir -> DR S t0 s ->
    DR (fun t => pm_loads1 (N t) ne (Loc t) (Dir t) (S t) j c) t0 (pm_loads1 n ne loc dir s j c).
  Proof.
    intros HL HD HS. unfold pm_loads1. destruct (c <? 3)%nat.
    - apply pm_force_DRv; assumption.
    - apply DRv_cross; [| apply pm_force_DRv; assumption]. intros d. unfold pm_dist. dr.
  Qed.
  Lemma down_DRv : DRv (fun _ => @down R Rops) t0 (@down _ DOPS). Proof. unfold down. apply DRv_mk3; dr. Qed.
  Lemma fwd_DRv : DRv (fun _ => @fwd R Rops) t0 (@fwd _ DOPS). Proof. unfold fwd. apply DRv_mk3; dr. Qed.
  Lemma loads_from_point_masses_DR ne npm G Lf Locs Ms g lf locs ms j c : DR G t0 g -> DR Lf t0 lf -> DR2 Locs t0 locs -> DR1 Ms t0 ms ->
    DR (fun t => loads_from_point_masses (N t) ne npm (G t) (Lf t) (Locs t) (Ms t) j c) t0 (loads_from_point_masses n ne npm g lf locs ms j c).
  Proof.
    intros HG HL HLo HM. unfold loads_from_point_masses. apply DR_sumn; intros k Hk.
    apply (pm_loads1_DR ne (fun t => Locs t k) (fun _ => down) (fun t => G t *! Lf t *! Ms t k)); [intros d; apply HLo | apply down_DRv | dr].
  Qed.
  Lemma loads_from_thrusts_DR ne npm Locs Th locs th j c : DR2 Locs t0 locs -> DR1 Th t0 th ->
    DR (fun t => loads_from_thrusts (N t) ne npm (Locs t) (Th t) j c) t0 (loads_from_thrusts n ne npm locs th j c).
  Proof.
    intros HLo HT. unfold loads_from_thrusts. apply DR_sumn; intros k Hk.
    apply (pm_loads1_DR ne (fun t => Locs t k) (fun _ => fwd) (fun t => Th t k)); [intros d; apply HLo | apply fwd_DRv | apply HT].
  Qed.
End PointLoads.

Lemma fuel_vol_delta_DR ne sym Fb Rs Dn V t0 fb rs dn v : DR Fb t0 fb -> DR Rs t0 rs -> DR Dn t0 dn -> DR1 V t0 v -> Dn t0 <> 0 ->
  DR (fun t => fuel_vol_delta ne sym (Fb t) (Rs t) (Dn t) (V t)) t0 (fuel_vol_delta ne sym fb rs dn v).
Proof. intros H1 H2 H3 H4 Hn. unfold fuel_vol_delta. dr; try (apply symhalf_DR; assumption). exact Hn. Qed.
Lemma total_loads_DR sw fl pm L Sw Fw Lp Lt t0 l sw' fw lp lt j c : DR2 L t0 l -> DR2 Sw t0 sw' -> DR2 Fw t0 fw -> DR2 Lp t0 lp -> DR2 Lt t0 lt ->
  DR (fun t => total_loads sw fl pm (L t) (Sw t) (Fw t) (Lp t) (Lt t) j c) t0 (total_loads sw fl pm l sw' fw lp lt j c).
Proof. intros. unfold total_loads. cbv zeta. destruct sw, fl, pm; dr. Qed.
