(* AeroProofs.v — the VLM model against the textbook Spec (C05) and related identities. *)
From Coq Require Import Reals ZArith Lra Lia Arith Bool.
From OAS Require Import Scalar Rops Sums Stress Vec3 Aero VLM.
Open Scope R_scope.

(* ---------------- kernels ---------------- *)
Lemma fv_antisym r1 r2 d : (d < 3)%nat -> fv r1 r2 d = - fv r2 r1 d.
Proof.
  intros Hd. unfold fv. rops.
  rewrite (dot_comm r2 r1), (Rmult_comm (nrm r2) (nrm r1)).
  destruct (Rltb vtol (Rabs (nrm r1 * nrm r2 + dot r1 r2))).
  - rewrite (cross_anticomm r1 r2 d Hd). unfold Rdiv. ring.
  - ring.
Qed.

Lemma dot_sub_l a b c : dot (vsub a b) c = dot a c - dot b c.
Proof. v3. ring. Qed.

(* the code's segment kernel is the textbook Biot-Savart segment, away from the line of the segment *)
Lemma fv_eq_textbook (P A B : nat -> R) d : (d < 3)%nat ->
  let r1 := vsub P A in let r2 := vsub P B in
  0 < dot r1 r1 -> 0 < dot r2 r2 ->
  0 < dot (cross r1 r2) (cross r1 r2) ->
  vtol < Rabs (nrm r1 * nrm r2 + dot r1 r2) ->
  fv r1 r2 d = bs_segment P A B d.
Proof.
  intros Hd r1 r2 H1 H2 Hc Hden. unfold fv, bs_segment. fold r1 r2. rops.
  replace (Rltb vtol (Rabs (nrm r1 * nrm r2 + dot r1 r2))) with true by (symmetry; apply Rltb_true; exact Hden).
  pose proof (nrm_pos r1 H1) as Ha. pose proof (nrm_pos r2 H2) as Hb.
  pose proof (nrm_sq r1) as Ea. pose proof (nrm_sq r2) as Eb.
  set (a := nrm r1) in *. set (b := nrm r2) in *. set (s := dot r1 r2) in *.
  assert (Hcc : dot (cross r1 r2) (cross r1 r2) = (a * b - s) * (a * b + s)).
  { rewrite cross_norm_sq. fold s. rewrite <- Ea, <- Eb. ring. }
  assert (Hne : a * b + s <> 0).
  { intro E. rewrite E, Rabs_R0 in Hden. unfold vtol, ofrac in Hden; rops. lra. }
  assert (Hne2 : a * b - s <> 0).
  { intro E. rewrite Hcc, E in Hc. lra. }
  assert (Hr0 : dot (vsub r1 r2) (fun k => r1 k / a - r2 k / b) = (a + b) * (a * b - s) / (a * b)).
  { transitivity ((dot r1 r1) / a - s / b - s / a + (dot r2 r2) / b).
    - unfold dot, vsub, s, dot; rops. field. lra.
    - rewrite <- Ea, <- Eb. field. lra. }
  rewrite Hr0, Hcc. set (cd := cross r1 r2 d). field. repeat split; try lra. apply PI_neq0.
Qed.

(* wake direction is a unit vector *)
Lemma wake_u_unit a : dot (@wake_u R Rops a) (wake_u a) = 1.
Proof.
  unfold wake_u, dot, mk3; rops. set (t := a * PI / 180).
  pose proof (sin2_cos2 t) as H. unfold Rsqr in H. lra.
Qed.

Lemma semi_eq_textbook (P A u : nat -> R) d : (d < 3)%nat ->
  let r := vsub P A in
  dot u u = 1 -> 0 < dot r r -> 0 < dot (cross u r) (cross u r) ->
  semi u r d = bs_semi_out P A u d.
Proof.
  intros Hd r Hu Hr Hc. unfold semi, bs_semi_out. fold r. rops.
  pose proof (nrm_pos r Hr) as Hn. pose proof (nrm_sq r) as En.
  set (n := nrm r) in *. set (s := dot u r) in *.
  assert (Hcc : dot (cross u r) (cross u r) = (n - s) * (n + s)).
  { rewrite cross_norm_sq, Hu. fold s. rewrite <- En. ring. }
  assert (n - s <> 0) by (intro E; rewrite Hcc, E in Hc; lra).
  assert (n + s <> 0) by (intro E; rewrite Hcc, E in Hc; lra).
  rewrite Hcc. set (cd := cross u r d). field. repeat split; try lra. apply PI_neq0.
Qed.

(* ---------------- ring structure ---------------- *)
Section Ring.
  Variables (npx npy : nat) (alpha_deg : R) (vec : nat -> nat -> nat -> nat -> R).

  (* last chordwise row: the rear segment C->D and the added segment D->C cancel, leaving the
     bound segment, the two side segments and two trailing legs: a horseshoe closed at infinity *)
  Lemma last_row_is_horseshoe e j d : (d < 3)%nat -> (0 < npx)%nat ->
    let i := (npx - 1)%nat in
    let A := vtx npx vec 0 e i (S j) in let B := vtx npx vec 0 e i j in
    let C := vtx npx vec 0 e (S i) j in let D := vtx npx vec 0 e (S i) (S j) in
    vel_mtx npx npy false false false alpha_deg vec e i j d
    = fv A B d + fv B C d + fv D A d - semi (wake_u alpha_deg) D d + semi (wake_u alpha_deg) C d.
  Proof.
    intros Hd Hn i A B C D. unfold vel_mtx, vel_mtx_unflipped, block_contrib. cbn [andb].
    replace (S i =? npx)%nat with true by (symmetry; apply Nat.eqb_eq; unfold i; lia).
    unfold ring_raw, t1_raw, t2_raw, t3_raw. rops.
    replace (S i) with npx in * by (unfold i; lia).
    fold A B. unfold C, D. replace (S i) with npx by (unfold i; lia).
    set (C' := vtx npx vec 0 e npx j). set (D' := vtx npx vec 0 e npx (S j)).
    rewrite (fv_antisym D' C' d Hd). ring.
  Qed.

  (* any other row: a closed ring of four segments *)
  Lemma inner_row_is_ring e i j d : (S i <> npx)%nat ->
    vel_mtx npx npy false false false alpha_deg vec e i j d
    = fv (vtx npx vec 0 e i (S j)) (vtx npx vec 0 e i j) d
      + fv (vtx npx vec 0 e i j) (vtx npx vec 0 e (S i) j) d
      + fv (vtx npx vec 0 e (S i) j) (vtx npx vec 0 e (S i) (S j)) d
      + fv (vtx npx vec 0 e (S i) (S j)) (vtx npx vec 0 e i (S j)) d.
  Proof.
    intros Hi. unfold vel_mtx, vel_mtx_unflipped, block_contrib. cbn [andb].
    replace (S i =? npx)%nat with false by (symmetry; apply Nat.eqb_neq; exact Hi).
    unfold ring_raw. rops. ring.
  Qed.

  (* symmetric surfaces: the mirrored (ghost) panel is folded onto the real one *)
  Lemma symmetric_fold e i j d : (S i <> npx)%nat ->
    vel_mtx npx npy true false false alpha_deg vec e i j d
    = ring_raw npx vec 0 e i j d + ring_raw npx vec 0 e i (mirror_j npy j) d.
  Proof.
    intros Hi. unfold vel_mtx, vel_mtx_unflipped, block_contrib. cbn [andb].
    replace (S i =? npx)%nat with false by (symmetry; apply Nat.eqb_neq; exact Hi). rops. ring.
  Qed.

  (* ground effect: the image block enters with strength -1 *)
  Lemma ground_image_strength e i j d : (S i <> npx)%nat ->
    vel_mtx npx npy true true false alpha_deg vec e i j d
    = (ring_raw npx vec 0 e i j d + ring_raw npx vec 0 e i (mirror_j npy j) d)
      - (ring_raw npx vec 1 e i j d + ring_raw npx vec 1 e i (mirror_j npy j) d).
  Proof.
    intros Hi. unfold vel_mtx, vel_mtx_unflipped, block_contrib. cbn [andb].
    replace (S i =? npx)%nat with false by (symmetry; apply Nat.eqb_neq; exact Hi). rops. ring.
  Qed.
End Ring.

(* ---------------- the linear system and the boundary condition ---------------- *)
Lemma rsum3 (f : nat -> R) : rsum 3 f = f 0%nat + f 1%nat + f 2%nat.
Proof. cbn [sumn]. rops. ring. Qed.

Lemma solution_is_tangent n (velm : nat -> nat -> nat -> R) (fs normals : nat -> nat -> R) (G : nat -> R) :
  (forall p, (p < n)%nat -> solve_residual n (aic_mtx velm normals) (aic_rhs fs normals) G p = 0) ->
  tangent n velm fs normals G.
Proof.
  intros H p Hp. specialize (H p Hp). unfold solve_residual, aic_mtx, aic_rhs in H. rops.
  rewrite rsum3 in H.
  rewrite (rsum_ext n _ (fun q => velm p q 0%nat * G q * normals p 0%nat + velm p q 1%nat * G q * normals p 1%nat
                                   + velm p q 2%nat * G q * normals p 2%nat)) in H
    by (intros q Hq; rewrite rsum3; ring).
  rewrite !rsum_plus, !rsum_scal_r in H.
  unfold dot; rops. lra.
Qed.

(* and conversely *)
Lemma tangent_is_solution n (velm : nat -> nat -> nat -> R) (fs normals : nat -> nat -> R) (G : nat -> R) :
  tangent n velm fs normals G ->
  forall p, (p < n)%nat -> solve_residual n (aic_mtx velm normals) (aic_rhs fs normals) G p = 0.
Proof.
  intros H p Hp. specialize (H p Hp). unfold solve_residual, aic_mtx, aic_rhs. rops.
  rewrite rsum3.
  rewrite (rsum_ext n _ (fun q => velm p q 0%nat * G q * normals p 0%nat + velm p q 1%nat * G q * normals p 1%nat
                                   + velm p q 2%nat * G q * normals p 2%nat))
    by (intros q Hq; rewrite rsum3; ring).
  rewrite !rsum_plus, !rsum_scal_r.
  unfold dot in H; rops. lra.
Qed.

(* the velocity the force is computed with is onset + induction, and the force is Kutta-Joukowski *)
Lemma panel_force_is_KJ n rho (hs : nat -> R) (fs : nat -> nat -> R) (velm : nat -> nat -> nat -> R) (G : nat -> R)
      (bv : nat -> nat -> R) p d :
  panel_force rho hs (eval_velocity n fs velm G) bv p d
  = kutta_joukowski rho (hs p) (fun k => fs p k + rsum n (fun q => velm p q k * G q)) (bv p) d.
Proof. reflexivity. Qed.

(* ---------------- geometry of the lattice ---------------- *)
(* collocation point: mid point of the two 3/4-chord points; force point: of the 1/4-chord points;
   bound vector: from the right to the left quarter-chord point *)
Lemma coll_pts_three_quarter (m : nat -> nat -> nat -> R) i j d :
  coll_pts m i j d = 1 / 2 * ((m i j d + 3 / 4 * (m (S i) j d - m i j d))
                            + (m i (S j) d + 3 / 4 * (m (S i) (S j) d - m i (S j) d))).
Proof. unfold coll_pts, c025, c075, ohalf, ofrac; rops. field. Qed.
Lemma force_pts_quarter (m : nat -> nat -> nat -> R) i j d :
  force_pts_c m i j d = 1 / 2 * ((m i j d + 1 / 4 * (m (S i) j d - m i j d))
                               + (m i (S j) d + 1 / 4 * (m (S i) (S j) d - m i (S j) d))).
Proof. unfold force_pts_c, c025, c075, ohalf, ofrac; rops. field. Qed.
Lemma bound_vec_quarter (m : nat -> nat -> nat -> R) i j d :
  bound_vecs m i j d = (m i j d + 1 / 4 * (m (S i) j d - m i j d))
                     - (m i (S j) d + 1 / 4 * (m (S i) (S j) d - m i (S j) d)).
Proof. unfold bound_vecs, c025, c075, ofrac; rops. field. Qed.
Lemma vortex_lattice_quarter npx (m : nat -> nat -> nat -> R) i j d :
  qc_rows npx m i j d = if (i <? npx)%nat then m i j d + 1 / 4 * (m (S i) j d - m i j d) else m npx j d.
Proof. unfold qc_rows, c025, c075, ofrac; rops. destruct (i <? npx)%nat; [field | reflexivity]. Qed.

Lemma normals_unit (m : nat -> nat -> nat -> R) i j :
  0 < dot (g_ncross m i j) (g_ncross m i j) -> dot (g_normals m i j) (g_normals m i j) = 1.
Proof.
  intros H. unfold g_normals, g_nnorm, osq. rops.
  set (c := g_ncross m i j) in *.
  change (c 0%nat * c 0%nat + c 1%nat * c 1%nat + c 2%nat * c 2%nat) with (dot c c).
  change (dot (fun d => c d / sqrt (dot c c)) (fun d => c d / sqrt (dot c c)) = 1).
  pose proof (dot_vunit_vunit c H) as E. unfold vunit, nrm in E. rops. exact E.
Qed.

(* ---------------- horseshoe strengths ---------------- *)
Lemma horseshoe_def npy (circ : nat -> nat -> R) i j :
  horseshoe npy circ i j = circ i j - (if (i =? 0)%nat then 0 else circ (i - 1)%nat j).
Proof. destruct i as [|i']; unfold horseshoe; rops; [cbn; ring | cbn [Nat.eqb]; replace (S i' - 1)%nat with i' by lia; reflexivity]. Qed.

(* ================= scaling, translation and reflection laws (C06, C04, C07, C08) ================= *)
Lemma nrm_scal k (r : nat -> R) : 0 <= k -> nrm (vscal k r) = k * nrm r.
Proof.
  intros Hk. unfold nrm; rops.
  replace (dot (vscal k r) (vscal k r)) with (k * k * dot r r) by (v3; ring).
  rewrite sqrt_mult by (try apply dot_self_nonneg; nra).
  replace (k * k) with (Rsqr k) by reflexivity. rewrite sqrt_Rsqr by exact Hk. reflexivity.
Qed.

(* the segment kernel is homogeneous of degree -1 (when both scales are above the absolute tolerance) *)
Lemma fv_homogeneous k (r1 r2 : nat -> R) d : 0 < k ->
  vtol < Rabs (nrm r1 * nrm r2 + dot r1 r2) ->
  vtol < Rabs (k * k * (nrm r1 * nrm r2 + dot r1 r2)) ->
  0 < nrm r1 -> 0 < nrm r2 ->
  fv (vscal k r1) (vscal k r2) d = fv r1 r2 d / k.
Proof.
  intros Hk H1 H2 Hn1 Hn2. unfold fv. rops.
  rewrite !nrm_scal by lra.
  replace (dot (vscal k r1) (vscal k r2)) with (k * k * dot r1 r2) by (v3; ring).
  replace (k * nrm r1 * (k * nrm r2) + k * k * dot r1 r2) with (k * k * (nrm r1 * nrm r2 + dot r1 r2)) by ring.
  replace (Rltb vtol (Rabs (k * k * (nrm r1 * nrm r2 + dot r1 r2)))) with true by (symmetry; apply Rltb_true; exact H2).
  replace (Rltb vtol (Rabs (nrm r1 * nrm r2 + dot r1 r2))) with true by (symmetry; apply Rltb_true; exact H1).
  assert (Hd : nrm r1 * nrm r2 + dot r1 r2 <> 0).
  { intro E. rewrite E, Rabs_R0 in H1. unfold vtol, ofrac in H1; rops. lra. }
  replace (cross (vscal k r1) (vscal k r2) d) with (k * k * cross r1 r2 d).
  2:{ destruct d as [|[|[|d]]]; v3; ring. }
  field. repeat split; try lra. apply PI_neq0.
Qed.

(* the tolerance guard is needed: a geometry whose kernel denominator is above the tolerance can
   fall below it after shrinking, and the kernel is then replaced by 0 *)
Lemma fv_below_tol (r1 r2 : nat -> R) d :
  Rabs (nrm r1 * nrm r2 + dot r1 r2) <= vtol -> fv r1 r2 d = 0.
Proof.
  intros H. unfold fv; rops.
  replace (Rltb vtol (Rabs (nrm r1 * nrm r2 + dot r1 r2))) with false by (symmetry; apply Rltb_false; exact H).
  reflexivity.
Qed.

Lemma semi_homogeneous k (u r : nat -> R) d : 0 < k -> 0 < nrm r -> nrm r - dot u r <> 0 ->
  semi u (vscal k r) d = semi u r d / k.
Proof.
  intros Hk Hn Hd. unfold semi. rops. rewrite nrm_scal by lra.
  replace (dot u (vscal k r)) with (k * dot u r) by (v3; ring).
  replace (cross u (vscal k r) d) with (k * cross u r d).
  2:{ destruct d as [|[|[|d]]]; v3; ring. }
  assert (k * nrm r - k * dot u r <> 0).
  { replace (k * nrm r - k * dot u r) with (k * (nrm r - dot u r)) by ring. apply Rmult_integral_contrapositive_currified; lra. }
  field. repeat split; try lra; try assumption. apply PI_neq0.
Qed.

(* translation: the influence only sees differences of points *)
Lemma get_vectors_translation (pts : nat -> nat -> R) (vm : nat -> nat -> nat -> R) (t : nat -> R) e i j d :
  get_vectors (fun e d => pts e d + t d) (fun i j d => vm i j d + t d) e i j d = get_vectors pts vm e i j d.
Proof. unfold get_vectors; rops. ring. Qed.

(* the lattice, collocation and force points translate with the mesh; bound vectors and normals do not change *)
Lemma lattice_translation npx (m : nat -> nat -> nat -> R) (t : nat -> R) i j d :
  qc_rows npx (fun i j d => m i j d + t d) i j d = qc_rows npx m i j d + t d /\
  coll_pts (fun i j d => m i j d + t d) i j d = coll_pts m i j d + t d /\
  force_pts_c (fun i j d => m i j d + t d) i j d = force_pts_c m i j d + t d /\
  bound_vecs (fun i j d => m i j d + t d) i j d = bound_vecs m i j d.
Proof.
  unfold qc_rows, coll_pts, force_pts_c, bound_vecs, c025, c075, ohalf, ofrac; rops.
  repeat split; try field. destruct (i <? npx)%nat; field.
Qed.
Lemma ncross_translation (m : nat -> nat -> nat -> R) (t : nat -> R) i j d : (d < 3)%nat ->
  g_ncross (fun i j d => m i j d + t d) i j d = g_ncross m i j d.
Proof. intros Hd. unfold g_ncross. destruct d as [|[|[|d]]]; try lia; v3; ring. Qed.

(* ---- dynamic pressure: the system is linear in the onset velocity, forces in rho ---- *)
Lemma freestream_linear_v (a b v c : R) d : freestream a b (c * v) d = c * freestream a b v d.
Proof. unfold freestream; rops. ring. Qed.

Lemma rhs_linear (fs normals : nat -> nat -> R) c p :
  aic_rhs (fun p d => c * fs p d) normals p = c * aic_rhs fs normals p.
Proof. unfold aic_rhs; rops. rewrite !rsum3. ring. Qed.

(* if G solves the system for onset velocities fs, then c G solves it for c fs (same matrix) *)
Lemma solution_scales_with_onset n (mtx : nat -> nat -> R) (rhs G : nat -> R) c :
  (forall p, (p < n)%nat -> solve_residual n mtx rhs G p = 0) ->
  forall p, (p < n)%nat -> solve_residual n mtx (fun p => c * rhs p) (fun q => c * G q) p = 0.
Proof.
  intros H p Hp. specialize (H p Hp). unfold solve_residual in *. rops.
  rewrite (rsum_ext n _ (fun q => c * (mtx p q * G q))) by (intros; ring). rewrite rsum_scal. nra.
Qed.

Lemma eval_velocity_scales n (fs : nat -> nat -> R) velm (G : nat -> R) c p d :
  eval_velocity n (fun p d => c * fs p d) velm (fun q => c * G q) p d = c * eval_velocity n fs velm G p d.
Proof.
  unfold eval_velocity; rops.
  rewrite (rsum_ext n _ (fun q => c * (velm p q d * G q))) by (intros; ring). rewrite rsum_scal. ring.
Qed.

(* forces: linear in rho, quadratic in the speed factor *)
Lemma panel_force_scaling rho (hs : nat -> R) (vel bv : nat -> nat -> R) cr cv p d : (d < 3)%nat ->
  panel_force (cr * rho) (fun p => cv * hs p) (fun p d => cv * vel p d) bv p d
  = cr * (cv * cv) * panel_force rho hs vel bv p d.
Proof. intros Hd. unfold panel_force; rops. destruct d as [|[|[|d]]]; try lia; v3; ring. Qed.

(* length scale k: horseshoe strength k, same local velocity, bound vectors k => forces k^2 *)
Lemma panel_force_length_scaling rho (hs : nat -> R) (vel bv : nat -> nat -> R) k p d : (d < 3)%nat ->
  panel_force rho (fun p => k * hs p) vel (fun p d => k * bv p d) p d = k * k * panel_force rho hs vel bv p d.
Proof. intros Hd. unfold panel_force; rops. destruct d as [|[|[|d]]]; try lia; v3; ring. Qed.

(* the coefficient normalisation q S removes both *)
Lemma coeff_invariant X rho v S cr cv k :
  cr <> 0 -> cv <> 0 -> k <> 0 -> rho <> 0 -> v <> 0 -> S <> 0 ->
  coeff (cr * (cv * cv) * (k * k) * X) (cr * rho) (cv * v) (k * k * S) = coeff X rho v S.
Proof. intros. unfold coeff, ohalf, ofrac; rops. field. repeat split; assumption. Qed.

(* ---- lift and drag are the components of the summed panel forces normal to / along the free stream ---- *)
Definition lift_dir (a : R) : nat -> R := mk3 (- sin a) 0 (cos a).
Definition drag_dir (a b : R) : nat -> R := mk3 (cos a * cos b) (- sin b) (sin a * cos b).
Lemma wind_axes_orthonormal a b :
  dot (lift_dir a) (lift_dir a) = 1 /\ dot (drag_dir a b) (drag_dir a b) = 1 /\ dot (lift_dir a) (drag_dir a b) = 0.
Proof.
  unfold lift_dir, drag_dir, dot, mk3; rops.
  pose proof (sin2_cos2 a) as Ha. pose proof (sin2_cos2 b) as Hb. unfold Rsqr in *.
  repeat split; nra.
Qed.
Lemma drag_dir_is_freestream a_deg b_deg v d : (d < 3)%nat ->
  freestream a_deg b_deg v d = v * drag_dir (a_deg * PI / 180) (b_deg * PI / 180) d.
Proof. intros Hd. unfold freestream, drag_dir; rops. reflexivity. Qed.
Lemma lift_is_component np a_deg (F : nat -> nat -> R) :
  lift np false a_deg F = dot (fun d => rsum np (fun p => F p d)) (lift_dir (a_deg * PI / 180)).
Proof.
  unfold lift, lift_dir, dot, mk3; rops. set (a := a_deg * PI / 180).
  rewrite <- !rsum_scal_r, <- !rsum_plus. apply rsum_ext; intros; ring.
Qed.
Lemma drag_is_component np a_deg b_deg (F : nat -> nat -> R) :
  drag np false a_deg b_deg F
  = dot (fun d => rsum np (fun p => F p d)) (drag_dir (a_deg * PI / 180) (b_deg * PI / 180)).
Proof.
  unfold drag, drag_dir, dot, mk3; rops. set (a := a_deg * PI / 180). set (b := b_deg * PI / 180).
  rewrite <- !rsum_scal_r, <- !rsum_plus. apply rsum_ext; intros; ring.
Qed.
Lemma symmetric_lift_drag_doubled np a b (F : nat -> nat -> R) :
  lift np true a F = 2 * lift np false a F /\ drag np true a b F = 2 * drag np false a b F.
Proof. unfold lift, drag, o2; rops. split; ring. Qed.

(* a whole ring (hence every influence coefficient built from rings) scales like 1/k *)
Definition seg_ok (k : R) (r1 r2 : nat -> R) : Prop :=
  vtol < Rabs (nrm r1 * nrm r2 + dot r1 r2) /\ vtol < Rabs (k * k * (nrm r1 * nrm r2 + dot r1 r2)) /\
  0 < nrm r1 /\ 0 < nrm r2.

Lemma ring_raw_homogeneous npx (vec : nat -> nat -> nat -> nat -> R) k b e i j d : 0 < k ->
  let A := vtx npx vec b e i (S j) in let B := vtx npx vec b e i j in
  let C := vtx npx vec b e (S i) j in let D := vtx npx vec b e (S i) (S j) in
  seg_ok k A B -> seg_ok k B C -> seg_ok k C D -> seg_ok k D A ->
  ring_raw npx (fun e i j d => k * vec e i j d) b e i j d = ring_raw npx vec b e i j d / k.
Proof.
  intros Hk A B C D [a1 [a2 [a3 a4]]] [b1 [b2 [b3 b4]]] [c1 [c2 [c3 c4]]] [d1 [d2 [d3 d4]]].
  unfold ring_raw. rops.
  change (vtx npx (fun e i j d => k * vec e i j d) b e i (S j)) with (vscal k A).
  change (vtx npx (fun e i j d => k * vec e i j d) b e i j) with (vscal k B).
  change (vtx npx (fun e i j d => k * vec e i j d) b e (S i) j) with (vscal k C).
  change (vtx npx (fun e i j d => k * vec e i j d) b e (S i) (S j)) with (vscal k D).
  fold A B C D.
  rewrite !fv_homogeneous by assumption. field. lra.
Qed.
