(* Tie_wiring_MPhys.v - GENERATED once by harness/gen_ties.py: the data-flow graphs of the canonical "MPhys" models regenerated from the live
   groups are the reviewed ones (finite comparison of lists of strings, by computation). *)
From Coq Require Import String List Bool.
From OAS Require Import TieBase Wiring WiringReviewed.
Import ListNotations.
Open Scope string_scope.
Definition wiring_family_MPhys (w : list (string * list (string * string))) := filter (fun p => prefix "MPhys" (fst p)) w.
Lemma wiring_MPhys_reviewed : wiring_family_MPhys gen_wiring = wiring_family_MPhys reviewed_wiring.
Proof. apply wiring_eqb_sound. vm_compute. reflexivity. Qed.
Lemma wiring_MPhys_nonempty : wiring_family_MPhys reviewed_wiring <> [].
Proof. discriminate. Qed.
