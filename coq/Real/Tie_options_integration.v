(* Tie_options_integration.v - GENERATED once by harness/gen_ties.py: the declared option defaults of the classes of openaerostruct/integration/,
   regenerated from the source, are the reviewed ones (by computation). *)
From Coq Require Import String List Bool.
From OAS Require Import TieBase OptionDefaults OptionDefaultsReviewed.
Import ListNotations.
Open Scope string_scope.
Definition options_dir_integration (u : list (string * string * string * string)) :=
  filter (fun r => match r with (f, _, _, _) => prefix "integration/" f end) u.
Lemma options_integration_reviewed : options_dir_integration gen_option_defaults = options_dir_integration reviewed_option_defaults.
Proof. apply opts_eqb_sound. vm_compute. reflexivity. Qed.
Lemma options_integration_nonempty : options_dir_integration reviewed_option_defaults <> [].
Proof. discriminate. Qed.
