(* Sums.v — lemma library for finite sums over R, stated directly on the generic model term
   [sumn Rops] so no bridging is needed under binders. *)
From Coq Require Import Reals ZArith Lra Lia Arith.
From OAS Require Import Scalar Rops.
Open Scope R_scope.

Lemma rsum_0 f : rsum 0 f = 0.
Proof. reflexivity. Qed.

Lemma rsum_S n f : rsum (S n) f = rsum n f + f n.
Proof. reflexivity. Qed.

Lemma rsum_ext n f g : (forall i, (i < n)%nat -> f i = g i) -> rsum n f = rsum n g.
Proof.
  induction n as [|n IH]; intros H; [reflexivity|].
  rewrite !rsum_S, IH, (H n); auto with arith.
Qed.

Lemma rsum_zero n f : (forall i, (i < n)%nat -> f i = 0) -> rsum n f = 0.
Proof.
  induction n as [|n IH]; intros H; [reflexivity|].
  rewrite rsum_S, IH, (H n); auto with arith; lra.
Qed.

Lemma rsum_plus n f g : rsum n (fun i => f i + g i) = rsum n f + rsum n g.
Proof. induction n as [|n IH]; [rewrite !rsum_0; lra|]. rewrite !rsum_S, IH; lra. Qed.

Lemma rsum_minus n f g : rsum n (fun i => f i - g i) = rsum n f - rsum n g.
Proof. induction n as [|n IH]; [rewrite !rsum_0; lra|]. rewrite !rsum_S, IH; lra. Qed.

Lemma rsum_opp n f : rsum n (fun i => - f i) = - rsum n f.
Proof. induction n as [|n IH]; [rewrite !rsum_0; lra|]. rewrite !rsum_S, IH; lra. Qed.

Lemma rsum_scal n c f : rsum n (fun i => c * f i) = c * rsum n f.
Proof. induction n as [|n IH]; [rewrite !rsum_0; lra|]. rewrite !rsum_S, IH; lra. Qed.

Lemma rsum_scal_r n c f : rsum n (fun i => f i * c) = rsum n f * c.
Proof. induction n as [|n IH]; [rewrite !rsum_0; lra|]. rewrite !rsum_S, IH; lra. Qed.

Lemma rsum_const n c : rsum n (fun _ => c) = INR n * c.
Proof.
  induction n as [|n IH]; [rewrite rsum_0; simpl; lra|].
  rewrite rsum_S, IH, S_INR; lra.
Qed.

(* first term split off *)
Lemma rsum_shift n f : rsum (S n) f = f O + rsum n (fun i => f (S i)).
Proof.
  induction n as [|n IH]; [rewrite !rsum_S, !rsum_0; lra|].
  rewrite rsum_S, IH, rsum_S; lra.
Qed.

(* sum_{j<n} (f j + f (j+1)) = 2 sum_{j<=n} f j - f 0 - f n *)
Lemma rsum_adjacent n f :
  rsum n (fun j => f j + f (S j)) = 2 * rsum (S n) f - f O - f n.
Proof.
  induction n as [|n IH]; [rewrite rsum_S, !rsum_0; lra|].
  rewrite rsum_S, IH, !rsum_S; lra.
Qed.

(* reversal *)
Lemma rsum_rev n : forall f, rsum n f = rsum n (fun i => f (n - 1 - i)%nat).
Proof.
  induction n as [|n IH]; intros f; [reflexivity|].
  rewrite rsum_shift. rewrite (rsum_S n (fun i => f (S n - 1 - i)%nat)).
  replace (S n - 1 - n)%nat with O by lia.
  rewrite (IH (fun i => f (S i))). rewrite Rplus_comm. f_equal.
  apply rsum_ext; intros i Hi. f_equal; lia.
Qed.

(* exchange of double sums *)
Lemma rsum_exchange n m (f : nat -> nat -> R) :
  rsum n (fun i => rsum m (fun j => f i j)) = rsum m (fun j => rsum n (fun i => f i j)).
Proof.
  induction n as [|n IH].
  - rewrite rsum_0. symmetry. apply rsum_zero; intros; apply rsum_0.
  - rewrite rsum_S, IH, <- rsum_plus. apply rsum_ext; intros; rewrite rsum_S; reflexivity.
Qed.

(* splitting a range *)
Lemma rsum_split n m f : rsum (n + m) f = rsum n f + rsum m (fun i => f (n + i)%nat).
Proof.
  induction m as [|m IH].
  - rewrite Nat.add_0_r, rsum_0; lra.
  - rewrite Nat.add_succ_r, !rsum_S, IH; lra.
Qed.

(* a single non-zero term *)
Lemma rsum_single n k f : (k < n)%nat -> (forall i, (i < n)%nat -> i <> k -> f i = 0) ->
  rsum n f = f k.
Proof.
  induction n as [|n IH]; intros Hk H; [lia|].
  rewrite rsum_S. destruct (Nat.eq_dec k n) as [->|Hne].
  - rewrite rsum_zero; [lra|]. intros i Hi; apply H; lia.
  - rewrite IH, (H n); try lra; try lia. intros i Hi Hik; apply H; lia.
Qed.

Lemma rsum_nonneg n f : (forall i, (i < n)%nat -> 0 <= f i) -> 0 <= rsum n f.
Proof.
  induction n as [|n IH]; intros H; [rewrite rsum_0; lra|].
  rewrite rsum_S. assert (0 <= f n) by (apply H; lia).
  assert (0 <= rsum n f) by (apply IH; intros; apply H; lia). lra.
Qed.

Lemma rsum_le n f g : (forall i, (i < n)%nat -> f i <= g i) -> rsum n f <= rsum n g.
Proof.
  induction n as [|n IH]; intros H; [rewrite !rsum_0; lra|].
  rewrite !rsum_S. assert (f n <= g n) by (apply H; lia).
  assert (rsum n f <= rsum n g) by (apply IH; intros; apply H; lia). lra.
Qed.

Lemma rsum_pos n f : (0 < n)%nat -> (forall i, (i < n)%nat -> 0 < f i) -> 0 < rsum n f.
Proof.
  intros Hn H. destruct n as [|n]; [lia|]. rewrite rsum_S.
  assert (0 <= rsum n f) by (apply rsum_nonneg; intros; apply Rlt_le, H; lia).
  assert (0 < f n) by (apply H; lia). lra.
Qed.

(* one term is at most the sum of non-negative terms *)
Lemma rsum_term_le n f k : (k < n)%nat -> (forall i, (i < n)%nat -> 0 <= f i) -> f k <= rsum n f.
Proof.
  induction n as [|n IH]; intros Hk H; [lia|].
  rewrite rsum_S. destruct (Nat.eq_dec k n) as [->|Hne].
  - assert (0 <= rsum n f) by (apply rsum_nonneg; intros; apply H; lia). lra.
  - assert (f k <= rsum n f) by (apply IH; [lia|intros; apply H; lia]).
    assert (0 <= f n) by (apply H; lia). lra.
Qed.

(* node sums re-organised as panel sums *)
Lemma node_to_panel n (A B : nat -> R) :
  rsum (S n) (fun j => iff0 (j <? n) (A j) + iff0 (0 <? j) (B (j - 1)%nat))
  = rsum n (fun j => A j + B j).
Proof.
  rewrite rsum_plus, (rsum_plus n).
  f_equal.
  - rewrite rsum_S. rewrite Nat.ltb_irrefl. unfold iff0 at 2. rewrite Rplus_0_r.
    apply rsum_ext; intros i Hi. apply Nat.ltb_lt in Hi. rewrite Hi. reflexivity.
  - rewrite rsum_shift. cbn [Nat.ltb Nat.leb iff0]. rewrite Rplus_0_l.
    apply rsum_ext; intros i Hi. cbn [Nat.ltb Nat.leb iff0 Nat.sub]. rewrite Nat.sub_0_r. reflexivity.
Qed.


Lemma rsum_lt n f g : (0 < n)%nat -> (forall i, (i < n)%nat -> f i < g i) -> rsum n f < rsum n g.
Proof.
  intros Hn H. assert (0 < rsum n (fun i => g i - f i)) by (apply rsum_pos; [exact Hn | intros i Hi; specialize (H i Hi); lra]).
  rewrite rsum_minus in H0. lra.
Qed.
