(* ChainLaws.v — C06 through the whole VLMStates wiring of one surface (Model/Aero.v, Section Chain: mesh -> lattice ->
   vectors -> influence matrix, normals, right-hand side -> residual): speed scaling and translation invariance of the
   assembled linear system, composed from the stage lemmas. *)
From Coq Require Import Reals ZArith Lra Lia Arith Bool List FunctionalExtensionality.
From OAS Require Import Scalar Rops Sums Aero AeroProofs.
Open Scope R_scope.

(* C06 through the whole VLMStates wiring (one surface; Model/Aero.v Section Chain): laws of the assembled system *)
Section ChainLaws.
  Variables (npx npy : nat) (sym left : bool).

  (* dynamic pressure: the matrix does not see the speed, the right-hand side is linear in it, so the circulations are *)
  Theorem chain_speed_scaling al be v c (m : nat -> nat -> nat -> R) (G : nat -> R) p :
    chain_residual npx npy sym left al be (c * v) m (fun q => c * G q) p = c * chain_residual npx npy sym left al be v m G p.
  Proof.
    unfold chain_residual, solve_residual, chain_rhs; rops.
    rewrite (rsum_ext _ _ (fun q => c * (chain_aic npx npy sym left al m p q * G q))) by (intros; ring).
    rewrite rsum_scal.
    replace (aic_rhs (fun (_ : nat) (d : nat) => freestream al be (c * v) d) (chain_normals npy m) p)
      with (c * aic_rhs (fun (_ : nat) (d : nat) => freestream al be v d) (chain_normals npy m) p).
    - ring.
    - rewrite <- rhs_linear. f_equal. extensionality p'. extensionality d. symmetry. apply freestream_linear_v.
  Qed.
  Corollary chain_solution_scales_with_speed al be v c m G :
    (forall p, (p < npx * npy)%nat -> chain_residual npx npy sym left al be v m G p = 0) ->
    forall p, (p < npx * npy)%nat -> chain_residual npx npy sym left al be (c * v) m (fun q => c * G q) p = 0.
  Proof. intros H p Hp. rewrite chain_speed_scaling, (H p Hp). ring. Qed.

  (* translation of the whole configuration (not across the symmetry plane for a symmetric model): same system *)
  Definition shifted (m : nat -> nat -> nat -> R) (t : nat -> R) : nat -> nat -> nat -> R := fun i j d => m i j d + t d.

  Lemma ghost_shift (m : nat -> nat -> nat -> R) t : t 1%nat = 0 ->
    ghost_mesh npy left (shifted m t) = shifted (ghost_mesh npy left m) t.
  Proof.
    intros Ht. extensionality i. extensionality j. extensionality d. unfold ghost_mesh, shifted, flipy; rops.
    destruct left; [destruct (j <=? npy)%nat | destruct (npy <=? j)%nat]; try reflexivity;
      destruct (Nat.eqb_spec d 1) as [->|Hd]; try reflexivity; rewrite Ht; ring.
  Qed.
  Lemma qc_shift (m : nat -> nat -> nat -> R) t : qc_rows npx (shifted m t) = shifted (qc_rows npx m) t.
  Proof. extensionality i. extensionality j. extensionality d. apply (lattice_translation npx m t i j d). Qed.
  Lemma coll_shift (m : nat -> nat -> nat -> R) t i j d : coll_pts (shifted m t) i j d = coll_pts m i j d + t d.
  Proof. apply (lattice_translation npx m t i j d). Qed.

  Lemma chain_vectors_shift m t : (sym = false \/ t 1%nat = 0) ->
    chain_vectors npx npy sym left (shifted m t) = chain_vectors npx npy sym left m.
  Proof.
    intros Hs. extensionality e. extensionality i. extensionality j. extensionality d.
    unfold chain_vectors, vortex_mesh.
    assert (Hv : qc_rows npx (if sym then ghost_mesh npy left (shifted m t) else shifted m t)
                 = shifted (qc_rows npx (if sym then ghost_mesh npy left m else m)) t).
    { destruct sym; [destruct Hs as [Hs|Hs]; [discriminate|]; rewrite (ghost_shift m t Hs)|]; apply qc_shift. }
    rewrite Hv.
    unfold get_vectors. rewrite coll_shift. unfold shifted; rops. ring.
  Qed.

  Lemma chain_normals_shift m t : chain_normals npy (shifted m t) = chain_normals npy m.
  Proof.
    extensionality p. extensionality d. unfold chain_normals, g_normals, g_nnorm.
    assert (Hc : g_ncross (shifted m t) (p / npy) (p mod npy) = g_ncross m (p / npy) (p mod npy)).
    { extensionality k. unfold g_ncross, cross, mk3, shifted; rops. destruct k as [|[|k]]; ring. }
    rewrite Hc. reflexivity.
  Qed.

  Theorem chain_translation al be v m t : (sym = false \/ t 1%nat = 0) ->
    (forall p q, chain_aic npx npy sym left al (shifted m t) p q = chain_aic npx npy sym left al m p q) /\
    (forall p, chain_rhs npy al be v (shifted m t) p = chain_rhs npy al be v m p) /\
    (forall G p, chain_residual npx npy sym left al be v (shifted m t) G p = chain_residual npx npy sym left al be v m G p).
  Proof.
    intros Hs.
    assert (Ha : chain_aic npx npy sym left al (shifted m t) = chain_aic npx npy sym left al m).
    { unfold chain_aic, chain_velm. rewrite (chain_vectors_shift m t Hs), chain_normals_shift. reflexivity. }
    assert (Hr : chain_rhs npy al be v (shifted m t) = chain_rhs npy al be v m).
    { unfold chain_rhs. rewrite chain_normals_shift. reflexivity. }
    split; [intros; rewrite Ha; reflexivity | split; [intros; rewrite Hr; reflexivity|]].
    intros G p. unfold chain_residual. rewrite Ha, Hr. reflexivity.
  Qed.
End ChainLaws.
