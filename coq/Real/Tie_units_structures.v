(* Tie_units_structures.v - GENERATED once by harness/gen_ties.py: the declared units of every input and output of the classes of
   openaerostruct/structures/, regenerated from the source, are the reviewed ones (by computation). *)
From Coq Require Import String List Bool.
From OAS Require Import TieBase IOUnits IOUnitsReviewed.
Import ListNotations.
Open Scope string_scope.
Definition units_dir_structures (u : list (string * string * string * string * string)) :=
  filter (fun r => match r with (f, _, _, _, _) => prefix "structures/" f end) u.
Lemma units_structures_reviewed : units_dir_structures gen_io_units = units_dir_structures reviewed_io_units.
Proof. apply units_eqb_sound. vm_compute. reflexivity. Qed.
Lemma units_structures_nonempty : units_dir_structures reviewed_io_units <> [].
Proof. discriminate. Qed.
