(* AtmosProofs.v — continuity of the piecewise cubic Hermite interpolant (any table, any knot
   derivatives) and exhaustive consistency checks of the generated 1976 table at its knots. *)
From Coq Require Import Reals ZArith QArith Lra Lia Arith List Bool.
From OAS Require Import Scalar Rops Atmos AtmosTable.
Import ListNotations.

Section Hermite.
  Open Scope R_scope.
  Variables (x y t : nat -> R) (k : nat).
  Hypothesis Hdx : x (S k) <> x k.

  Lemma hp_val_left : hp_val x y t k (x k) = y k.
  Proof. unfold hp_val; rops. ring. Qed.
  Lemma hp_der_left : hp_der x y t k (x k) = t k.
  Proof. unfold hp_der; rops. ring. Qed.
  Lemma hp_val_right : hp_val x y t k (x (S k)) = y (S k).
  Proof. unfold hp_val, hp_c0, hp_c1, hp_dx, ak_slope, o2; rops. field. lra. Qed.
  Lemma hp_der_right : hp_der x y t k (x (S k)) = t (S k).
  Proof. unfold hp_der, hp_c0, hp_c1, hp_dx, ak_slope, o2; rops. field. lra. Qed.
End Hermite.

(* C1 at every interior knot: the piece ending at knot k+1 and the piece starting there agree in
   value and derivative *)
Lemma hermite_C1_at_knot (x y t : nat -> R) k : x (S k) <> x k ->
  hp_val x y t k (x (S k)) = hp_val x y t (S k) (x (S k)) /\
  hp_der x y t k (x (S k)) = hp_der x y t (S k) (x (S k)).
Proof.
  intros H. rewrite hp_val_right, hp_der_right, hp_val_left, hp_der_left by exact H. split; reflexivity.
Qed.

(* ---------- the generated table, checked exhaustively at its knots (exact rational arithmetic) ---------- *)
Open Scope Q_scope.
Definition qnth (l : list Q) (k : nat) : Q := nth k l 0.
Definition Qabsq (q : Q) : Q := if Qle_bool 0 q then q else - q.

(* altitude grid strictly increasing *)
Fixpoint increasing (l : list Q) : bool :=
  match l with
  | a :: ((b :: _) as r) => negb (Qle_bool b a) && increasing r
  | _ => true
  end.
(* gas constant of air in ft lbf / (slug degR), psi -> lbf/ft^2 *)
Definition R_air : Q := Qmake 171649 100.
Definition ideal_gas_ok (tol : Q) (k : nat) : bool :=
  let P := qnth atm_P_q k * 144 in
  Qle_bool (Qabsq (P - qnth atm_rho_q k * R_air * qnth atm_T_q k)) (tol * P).
Definition sound_ok (tol : Q) (k : nat) : bool :=
  let a2 := qnth atm_a_q k * qnth atm_a_q k in
  Qle_bool (Qabsq (a2 - (Qmake 14 10) * R_air * qnth atm_T_q k)) (tol * a2).
Definition positive_ok (k : nat) : bool :=
  negb (Qle_bool (qnth atm_T_q k) 0) && negb (Qle_bool (qnth atm_P_q k) 0) &&
  negb (Qle_bool (qnth atm_rho_q k) 0) && negb (Qle_bool (qnth atm_a_q k) 0) && negb (Qle_bool (qnth atm_mu_q k) 0).
(* pressure and density decrease with altitude *)
Fixpoint decreasing (l : list Q) : bool :=
  match l with
  | a :: ((b :: _) as r) => negb (Qle_bool a b) && decreasing r
  | _ => true
  end.

Lemma atm_lengths :
  (length atm_alt_zz = atm_n /\ length atm_T_zz = atm_n /\ length atm_P_zz = atm_n /\
   length atm_rho_zz = atm_n /\ length atm_a_zz = atm_n /\ length atm_mu_zz = atm_n)%nat.
Proof. repeat split; vm_compute; reflexivity. Qed.

Lemma atm_grid_increasing : increasing atm_alt_q = true.
Proof. vm_compute. reflexivity. Qed.

Lemma atm_positive : forallb positive_ok (seq 0 atm_n) = true.
Proof. vm_compute. reflexivity. Qed.

(* ideal gas P = rho R T within 2e-4 (table rounding) at every knot *)
Lemma atm_ideal_gas_knots : forallb (ideal_gas_ok (Qmake 2 10000)) (seq 0 atm_n) = true.
Proof. vm_compute. reflexivity. Qed.

(* a^2 = gamma R T within 2e-4 at every knot *)
Lemma atm_sound_speed_knots : forallb (sound_ok (Qmake 2 10000)) (seq 0 atm_n) = true.
Proof. vm_compute. reflexivity. Qed.

Lemma atm_P_rho_decreasing : decreasing atm_P_q = true /\ decreasing atm_rho_q = true.
Proof. split; vm_compute; reflexivity. Qed.
