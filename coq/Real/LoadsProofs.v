(* LoadsProofs.v — conservation lemmas for mass, cg and distributed / point loads (C16). *)
From Coq Require Import Reals ZArith Lra Lia Arith.
From OAS Require Import Scalar Rops Sums Loads.
Open Scope R_scope.

Section Beam.
  Variable nodes : nat -> nat -> R.
  Variable ne : nat.

  (* ---------- mass and cg ---------- *)
  Lemma mass_formula sym mrho wwr A :
    structural_mass nodes ne sym mrho wwr A
    = (if sym then 2 else 1) * (mrho * wwr * rsum ne (fun e => elen nodes e * A e)).
  Proof.
    unfold structural_mass, sym2, element_mass, o2; rops.
    rewrite <- rsum_scal.
    rewrite (rsum_ext ne (fun i => mrho * wwr * (elen nodes i * A i)) (fun e => elen nodes e * A e * mrho * wwr))
      by (intros; ring).
    destruct sym; ring.
  Qed.

  Lemma cg_is_centroid sym mrho wwr A d :
    let em := element_mass nodes mrho wwr A in
    let M := structural_mass nodes ne sym mrho wwr A in
    rsum ne em <> 0 ->
    cg_location nodes ne sym M em d
    = if (sym && (d =? 1)%nat)%bool then 0
      else rsum ne (fun e => emid nodes e d * em e) / rsum ne em.
  Proof.
    intros em M Hm. unfold cg_location, M, structural_mass, sym2, o2. fold em. rops.
    destruct sym; cbn [andb].
    - destruct (d =? 1)%nat; [ring | field; exact Hm].
    - reflexivity.
  Qed.

  (* ---------- distributed loads ---------- *)
  Section Dist.
    Variables w zm : nat -> R.

    Lemma dist_loads_force_xy j c : (c < 2)%nat -> dist_loads nodes ne w zm j c = 0.
    Proof. intros Hc. destruct c as [|[|c]]; try lia; reflexivity. Qed.

    Lemma dist_loads_total_force_z :
      rsum (S ne) (fun j => dist_loads nodes ne w zm j 2) = - rsum ne w.
    Proof.
      unfold dist_loads, o2. rops.
      rewrite (node_to_panel ne (fun j => - (w j / 2)) (fun j => - (w j / 2))).
      rewrite <- rsum_opp. apply rsum_ext; intros; field.
    Qed.

    (* total moment about the origin = moment of the element weights acting at the element mid points *)
    Lemma dist_loads_total_moment d : (d < 3)%nat ->
      rsum (S ne) (fun j =>
          cross (nodes j) (fun c => dist_loads nodes ne w zm j c) d
          + dist_loads nodes ne w zm j (3 + d))
      = rsum ne (fun e => cross (emid nodes e) (mk3 0 0 (- w e)) d).
    Proof.
      intros Hd. destruct d as [|[|[|d]]]; try lia; unfold cross, mk3; cbn [Nat.add]; rops.
      - (* x component: y * Fz + M3 *)
        transitivity (rsum (S ne) (fun j =>
            iff0 (j <? ne) (nodes j 1%nat * - (w j / 2) - zm j * delta nodes j 1 / elen nodes j)
          + iff0 (0 <? j) (nodes (S (j - 1)) 1%nat * - (w (j - 1)%nat / 2)
                           + zm (j - 1)%nat * delta nodes (j - 1) 1 / elen nodes (j - 1)))).
        { apply rsum_ext; intros j Hj. unfold dist_loads, o2; rops.
          destruct j as [|j']; [replace (0 <? 0) with false by reflexivity
                               | replace (0 <? S j') with true by reflexivity;
                                 replace (S j' - 1)%nat with j' by lia];
            destruct (_ <? ne); unfold iff0; rops; ring. }
        rewrite (node_to_panel ne
          (fun j => nodes j 1%nat * - (w j / 2) - zm j * delta nodes j 1 / elen nodes j)
          (fun j => nodes (S j) 1%nat * - (w j / 2) + zm j * delta nodes j 1 / elen nodes j)).
        apply rsum_ext; intros e He. unfold emid, o2; rops. unfold Rdiv; ring.
      - (* y component: -x * Fz + M4 *)
        transitivity (rsum (S ne) (fun j =>
            iff0 (j <? ne) (- (nodes j 0%nat * - (w j / 2)) - zm j * delta nodes j 0 / elen nodes j)
          + iff0 (0 <? j) (- (nodes (S (j - 1)) 0%nat * - (w (j - 1)%nat / 2))
                           + zm (j - 1)%nat * delta nodes (j - 1) 0 / elen nodes (j - 1)))).
        { apply rsum_ext; intros j Hj. unfold dist_loads, o2; rops.
          destruct j as [|j']; [replace (0 <? 0) with false by reflexivity
                               | replace (0 <? S j') with true by reflexivity;
                                 replace (S j' - 1)%nat with j' by lia];
            destruct (_ <? ne); unfold iff0; rops; ring. }
        rewrite (node_to_panel ne
          (fun j => - (nodes j 0%nat * - (w j / 2)) - zm j * delta nodes j 0 / elen nodes j)
          (fun j => - (nodes (S j) 0%nat * - (w j / 2)) + zm j * delta nodes j 0 / elen nodes j)).
        apply rsum_ext; intros e He. unfold emid, o2; rops. unfold Rdiv; ring.
      - (* z component: nothing *)
        rewrite rsum_zero; [symmetry; apply rsum_zero; intros; ring|].
        intros j Hj. unfold dist_loads; rops. ring.
    Qed.
  End Dist.

  Lemma struct_weight_total_force g lf em :
    rsum (S ne) (fun j => struct_weight_loads nodes ne g lf em j 2) = - (g * lf * rsum ne em).
  Proof.
    unfold struct_weight_loads. rewrite dist_loads_total_force_z. f_equal.
    rewrite <- rsum_scal. apply rsum_ext; intros; unfold sw_weight; rops; ring.
  Qed.

  Lemma fuel_weights_sum fw vols : rsum ne vols <> 0 -> rsum ne (fl_weight ne fw vols) = fw.
  Proof.
    intros H. unfold fl_weight; rops.
    rewrite (rsum_ext _ _ (fun e => vols e * (fw / rsum ne vols))) by (intros; unfold Rdiv; ring).
    rewrite rsum_scal_r. field. exact H.
  Qed.

  Lemma fuel_total_force sym g lf fm res vols : rsum ne vols <> 0 ->
    rsum (S ne) (fun j => fuel_weight_loads nodes ne sym g lf fm res vols j 2)
    = - ((if sym then 1 / 2 else 1) * ((fm + res) * g * lf)).
  Proof.
    intros H. unfold fuel_weight_loads. rewrite dist_loads_total_force_z, fuel_weights_sum by exact H.
    unfold fuel_total, symhalf, o2; rops. destruct sym; field.
  Qed.

  (* ---------- point masses / thrusts ---------- *)
  Lemma p10_nonneg x : 0 <= @p10 R Rops x.
  Proof.
    unfold p10; rops. set (x2 := x * x). assert (0 <= x2) by (unfold x2; nra).
    set (x4 := x2 * x2). assert (0 <= x4 * x4) by nra. apply Rmult_le_pos; assumption.
  Qed.

  Lemma pm_inv_pos loc j : 0 < pm_inv nodes loc j.
  Proof.
    unfold pm_inv, pm_eps, ofrac; rops.
    pose proof (p10_nonneg (loc 1%nat - nodes j 1%nat)) as H.
    apply Rdiv_lt_0_compat; lra.
  Qed.

  Lemma weights_sum_one loc : rsum (S ne) (nodal_weighting nodes ne loc) = 1.
  Proof.
    unfold nodal_weighting; rops.
    assert (0 < rsum (S ne) (pm_inv nodes loc)) by (apply rsum_pos; [lia | intros; apply pm_inv_pos]).
    rewrite (rsum_ext _ _ (fun j => pm_inv nodes loc j * / rsum (S ne) (pm_inv nodes loc))) by (intros; reflexivity).
    rewrite rsum_scal_r. field. lra.
  Qed.

  Lemma weights_nonneg loc j : 0 <= nodal_weighting nodes ne loc j.
  Proof.
    unfold nodal_weighting; rops.
    assert (0 < rsum (S ne) (pm_inv nodes loc)) by (apply rsum_pos; [lia | intros; apply pm_inv_pos]).
    left. apply Rdiv_lt_0_compat; [apply pm_inv_pos | assumption].
  Qed.

  Lemma pm_total_force loc dir s c : (c < 3)%nat ->
    rsum (S ne) (fun j => pm_loads1 nodes ne loc dir s j c) = dir c * s.
  Proof.
    intros Hc. unfold pm_loads1. apply Nat.ltb_lt in Hc. rewrite Hc. unfold pm_force; rops.
    rewrite (rsum_ext _ _ (fun j => nodal_weighting nodes ne loc j * (dir c * s))) by (intros; ring).
    rewrite rsum_scal_r, weights_sum_one. ring.
  Qed.

  (* total moment about the origin = loc x (total force): the load acts at the point-mass location *)
  Lemma pm_total_moment loc dir s d : (d < 3)%nat ->
    rsum (S ne) (fun j =>
        cross (nodes j) (fun c => pm_loads1 nodes ne loc dir s j c) d
        + pm_loads1 nodes ne loc dir s j (3 + d))
    = cross loc (fun c => dir c * s) d.
  Proof.
    intros Hd.
    transitivity (rsum (S ne) (fun j => nodal_weighting nodes ne loc j * cross loc (fun c => dir c * s) d)).
    { apply rsum_ext; intros j Hj. unfold pm_loads1.
      replace (3 + d <? 3)%nat with false by (symmetry; apply Nat.ltb_ge; lia).
      replace (3 + d - 3)%nat with d by lia.
      destruct d as [|[|[|d]]]; try lia; unfold cross, mk3, pm_force, pm_dist; cbn [Nat.ltb Nat.leb]; rops; ring. }
    rewrite rsum_scal_r, weights_sum_one. ring.
  Qed.
End Beam.

Lemma total_loads_is_sum sw fl pm loads swl fwl lpm lth j c :
  total_loads sw fl pm loads swl fwl lpm lth j c
  = loads j c + (if sw then swl j c else 0) + (if fl then fwl j c else 0)
    + (if pm then lpm j c + lth j c else 0).
Proof. unfold total_loads; rops. destruct sw, fl, pm; ring. Qed.

Lemma fuel_vol_delta_def ne sym fb res rho vols :
  fuel_vol_delta ne sym fb res rho vols
  = rsum ne vols - (if sym then (fb + res) / 2 else fb + res) / rho.
Proof. unfold fuel_vol_delta, symhalf, o2; rops. destruct sym; unfold Rdiv; ring. Qed.

(* the literals of the source (coq/Generated/Constants.v) are the ones the model uses *)
From OAS Require Import Constants.
Lemma gen_pm_consts :
  @gen_pm_eps R Rops = pm_eps /\ @gen_pm_power R Rops = 10 /\
  @gen_th_eps R Rops = pm_eps /\ @gen_th_power R Rops = 10.
Proof. unfold gen_pm_eps, gen_pm_power, gen_th_eps, gen_th_power, pm_eps; rops. repeat split; reflexivity. Qed.
Lemma gen_grav_pos : 0 < @gen_grav_constant R Rops.
Proof. unfold gen_grav_constant, ofrac; rops. lra. Qed.

(* C04, inertial loads: on the modelled half (every node but the root / centre node) the distributed fuel-weight loads of the half
   model are those of the full-span model of the mirrored wing - half the fuel INCLUDING the reserve in half the tank volume -
   and the structural-weight loads are the same element by element. *)
Lemma dist_loads_left nodes ne nf (w zm w' zm' : nat -> R) j c : (j < ne)%nat -> (ne <= nf)%nat ->
  (forall e, (e < ne)%nat -> w' e = w e /\ zm' e = zm e) ->
  dist_loads nodes nf w' zm' j c = dist_loads nodes ne w zm j c.
Proof.
  intros Hj Hn H. unfold dist_loads.
  replace (j <? nf)%nat with true by (symmetry; apply Nat.ltb_lt; lia).
  replace (j <? ne)%nat with true by (symmetry; apply Nat.ltb_lt; lia).
  destruct (H j Hj) as [E1 E2]. rewrite E1, E2.
  destruct (Nat.ltb_spec 0 j) as [H0|H0].
  - destruct (H (j - 1)%nat ltac:(lia)) as [E3 E4]. rewrite E3, E4. reflexivity.
  - unfold iff0. destruct c as [|[|[|[|[|c]]]]]; reflexivity.
Qed.

Theorem fuel_loads_half_is_left_half_of_full nodes ne g lf fm res (vols : nat -> R) j c :
  (j < ne)%nat -> rsum ne vols <> 0 -> rsum (2 * ne) vols = 2 * rsum ne vols ->
  fuel_weight_loads nodes (2 * ne) false g lf fm res vols j c = fuel_weight_loads nodes ne true g lf fm res vols j c.
Proof.
  intros Hj Hs Hm. unfold fuel_weight_loads. apply dist_loads_left; [exact Hj | lia |].
  intros e He. unfold fl_zm, fl_weight, fuel_total, symhalf, o2. rops. rewrite Hm.
  assert (E : vols e * ((fm + res) * g * lf) / (2 * rsum ne vols) = vols e * ((fm + res) * g * lf / 2) / rsum ne vols) by (field; exact Hs).
  split; [exact E | rewrite E; reflexivity].
Qed.

Theorem struct_weight_loads_half_is_left_half_of_full nodes ne nf g lf (em : nat -> R) j c :
  (j < ne)%nat -> (ne <= nf)%nat ->
  struct_weight_loads nodes nf g lf em j c = struct_weight_loads nodes ne g lf em j c.
Proof. intros Hj Hn. unfold struct_weight_loads. apply dist_loads_left; [exact Hj | exact Hn | intros; split; reflexivity]. Qed.
