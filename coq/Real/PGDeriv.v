(* PGDeriv.v — C01 for the Prandtl-Glauert components (rotate to / from the wind frame, scale to / from the
   PG domain): the code declares these partials by complex step; the model's dual evaluation is the derivative. *)
From Coq Require Import Reals ZArith Lra Lia Arith Bool.
From Coquelicot Require Import Coquelicot.
From OAS Require Import Scalar Rops Sums Deriv Dual DualProofs PG.
Open Scope R_scope.

Lemma Tw_DR A B t0 a b r c : DR A t0 a -> DR B t0 b -> DR (fun t => Tw (A t) (B t) r c) t0 (Tw a b r c).
Proof. intros. unfold Tw. cbv zeta. destruct r as [|[|[|r]]]; destruct c as [|[|[|c]]]; dr. Qed.
Lemma to_wind_DR A B V t0 a b v l : DR A t0 a -> DR B t0 b -> DRv V t0 v -> DR (fun t => to_wind (A t) (B t) (V t) l) t0 (to_wind a b v l).
Proof. intros H1 H2 H3. unfold to_wind. dr; first [apply Tw_DR; assumption | apply H3]. Qed.
Lemma from_wind_DR A B V t0 a b v l : DR A t0 a -> DR B t0 b -> DRv V t0 v -> DR (fun t => from_wind (A t) (B t) (V t) l) t0 (from_wind a b v l).
Proof. intros H1 H2 H3. unfold from_wind. dr; first [apply Tw_DR; assumption | apply H3]. Qed.
(* subsonic: 1 - M^2 > 0 *)
Lemma betaPG_DR M t0 m : DR M t0 m -> 0 < 1 - M t0 * M t0 -> DR (fun t => betaPG (M t)) t0 (betaPG m).
Proof. intros H Hp. unfold betaPG. dr. exact Hp. Qed.
Lemma betaPG_neq0 M : 0 < 1 - M * M -> betaPG M <> 0.
Proof. intros Hp. unfold betaPG; rops. apply Rgt_not_eq, sqrt_lt_R0. exact Hp. Qed.
Section Scale.
  Variables (M : R -> R) (V : R -> nat -> R) (t0 : R) (m : dual R) (v : nat -> dual R).
  Hypotheses (HM : DR M t0 m) (HV : DRv V t0 v) (Hsub : 0 < 1 - M t0 * M t0).
  Lemma pg_point_DR d : DR (fun t => pg_point (M t) (V t) d) t0 (pg_point m v d).
  Proof. unfold pg_point. destruct (d =? 0)%nat; dr; first [apply HV | apply betaPG_DR; assumption]. Qed.
  Lemma pg_normal_DR d : DR (fun t => pg_normal (M t) (V t) d) t0 (pg_normal m v d).
  Proof. unfold pg_normal. destruct (d =? 0)%nat; dr; first [apply HV | apply betaPG_DR; assumption]. Qed.
  Lemma pg_rotvel_DR d : DR (fun t => pg_rotvel (M t) (V t) d) t0 (pg_rotvel m v d).
  Proof. unfold pg_rotvel. destruct (d =? 0)%nat; dr; first [apply HV | apply betaPG_DR; assumption]. Qed.
  Lemma pg_force_back_DR d : DR (fun t => pg_force_back (M t) (V t) d) t0 (pg_force_back m v d).
  Proof.
    unfold pg_force_back, p3b. cbv zeta. pose proof (betaPG_neq0 (M t0) Hsub) as Hb.
    destruct (d =? 0)%nat; dr; cbv beta; try apply HV; try (apply betaPG_DR; assumption);
      unfold osq; rops; repeat apply Rmult_integral_contrapositive_currified; exact Hb.
  Qed.
End Scale.
