(* SignPin.v — C05: the sign conventions pinned on the simplest wing: one flat rectangular panel (chord c, span b,
   spanwise index increasing with y, not symmetric).  Influence coefficient > 0, circulation of the sign of - sin(alpha),
   i.e. NEGATIVE at positive angle of attack with this ordering, as the implementation returns. *)
From Coq Require Import Reals ZArith Lra Lia Arith Bool.
From OAS Require Import Scalar Rops Sums Vec3 Aero AeroProofs.
Open Scope R_scope.

Lemma dot_ge_neg_norms (a b : nat -> R) : - (nrm a * nrm b) <= dot a b.
Proof.
  pose proof (cross_norm_sq a b) as E. pose proof (dot_self_nonneg (cross a b)) as Hc.
  rewrite <- (nrm_sq a), <- (nrm_sq b) in E.
  pose proof (nrm_nonneg a). pose proof (nrm_nonneg b).
  assert (P : 0 <= nrm a * nrm b) by (apply Rmult_le_pos; assumption).
  destruct (Rle_dec (- (nrm a * nrm b)) (dot a b)) as [|N]; [assumption|]. exfalso. apply Rnot_le_lt in N. nra.
Qed.

Lemma inv_nonneg x : 0 <= x -> 0 <= 1 / x.
Proof.
  intros [H|H]; [left; apply Rdiv_lt_0_compat; lra | rewrite <- H; unfold Rdiv; rewrite Rinv_0; lra].
Qed.

Lemma fv_comp_nonneg (r1 r2 : nat -> R) d : 0 <= cross r1 r2 d -> 0 <= fv r1 r2 d.
Proof.
  intros Hc. unfold fv, vtol, ofrac; rops.
  destruct (Rltb (1 / 10000000000) (Rabs (nrm r1 * nrm r2 + dot r1 r2))) eqn:E; [|lra].
  apply Rltb_true in E. pose proof (dot_ge_neg_norms r1 r2) as Hd.
  assert (Hden : 0 < nrm r1 * nrm r2 + dot r1 r2).
  { destruct (Rle_lt_or_eq_dec _ _ Hd) as [H|H]; [lra|]. rewrite <- H in E. replace (nrm r1 * nrm r2 + - (nrm r1 * nrm r2)) with 0 in E by ring.
    rewrite Rabs_R0 in E. lra. }
  pose proof (inv_nonneg _ (nrm_nonneg r1)). pose proof (inv_nonneg _ (nrm_nonneg r2)).
  assert (Hpi : 0 < PI) by apply PI_RGT_0.
  apply Rmult_le_pos; [apply Rmult_le_pos; [lra | exact Hc]|]. left. apply Rinv_0_lt_compat.
  apply Rmult_lt_0_compat; [apply Rmult_lt_0_compat; lra | lra].
Qed.

(* a trailing leg in the x-z plane direction u (u_y = 0, u_x > 0) seen from a point displaced in y: sign of the z velocity *)
Lemma semi_z_sign (u r : nat -> R) : dot u u = 1 -> u 1%nat = 0 -> 0 < u 0%nat -> r 1%nat <> 0 ->
  semi u r 2 = (u 0%nat * r 1%nat) * / (nrm r * (nrm r - dot u r) * 4 * PI) /\ 0 < nrm r * (nrm r - dot u r) * 4 * PI.
Proof.
  intros Hu Hu1 Hu0 Hr.
  assert (Hpi : 0 < PI) by apply PI_RGT_0.
  assert (Hrr : 0 < dot r r).
  { unfold dot; rops. assert (0 < r 1%nat * r 1%nat) by (apply (Rsqr_pos_lt _ Hr)). pose proof (Rle_0_sqr (r 0%nat)). pose proof (Rle_0_sqr (r 2%nat)). unfold Rsqr in *. lra. }
  pose proof (nrm_pos r Hrr) as Hn. pose proof (nrm_sq r) as Hn2.
  pose proof (cross_norm_sq u r) as E. rewrite Hu, Rmult_1_l in E.
  assert (Hcz : cross u r 2 = u 0%nat * r 1%nat) by (unfold cross, mk3; rops; rewrite Hu1; ring).
  assert (Hc : 0 < dot (cross u r) (cross u r)).
  { unfold dot; rops. rewrite Hcz. assert (0 < (u 0%nat * r 1%nat) * (u 0%nat * r 1%nat)) by (apply (Rsqr_pos_lt (u 0%nat * r 1%nat)); apply Rmult_integral_contrapositive_currified; lra).
    pose proof (Rle_0_sqr (cross u r 0%nat)). pose proof (Rle_0_sqr (cross u r 1%nat)). unfold Rsqr in *. lra. }
  assert (Hs : 0 < nrm r - dot u r).
  { set (n := nrm r) in *. set (s := dot u r) in *.
    destruct (Rlt_dec 0 (n - s)) as [|N]; [assumption|]. exfalso. apply Rnot_lt_le in N. nra. }
  split.
  - unfold semi; rops. rewrite Hcz. field. repeat split; lra.
  - apply Rmult_lt_0_compat; [apply Rmult_lt_0_compat; [apply Rmult_lt_0_compat; assumption | lra] | lra].
Qed.

Lemma fv_comp_zero (r1 r2 : nat -> R) d : cross r1 r2 d = 0 -> fv r1 r2 d = 0.
Proof.
  intros Hc. unfold fv; rops. rewrite Hc. destruct (Rltb _ _); [|reflexivity]. unfold Rdiv. ring.
Qed.

Lemma semi_form (u r : nat -> R) : dot u u = 1 -> u 1%nat = 0 -> 0 < u 0%nat -> r 1%nat <> 0 ->
  0 < nrm r * (nrm r - dot u r) * 4 * PI /\ forall d, semi u r d = cross u r d * / (nrm r * (nrm r - dot u r) * 4 * PI).
Proof.
  intros Hu Hu1 Hu0 Hr. destruct (semi_z_sign u r Hu Hu1 Hu0 Hr) as (_ & HK). split; [exact HK|].
  intros d. unfold semi; rops.
  assert (Hpi : 0 < PI) by apply PI_RGT_0.
  set (n := nrm r) in *. set (s := dot u r) in *.
  assert (n <> 0 /\ n - s <> 0).
  { split; intros E; rewrite E in HK; lra. }
  field. repeat split; try lra; tauto.
Qed.

Section OnePanel.
  Variables (c b : R).
  Hypotheses (Hc : 0 < c) (Hb : 0 < b).
  Definition rect (i j d : nat) : R :=
    match d with O => (match i with O => 0 | _ => c end) | S O => (match j with O => 0 | _ => b end) | _ => 0 end.

  Variable alpha : R.               (* degrees *)
  Let a := alpha * PI / 180.
  Hypothesis Hcos : 0 < cos a.

  Definition vel_z : R := chain_velm 1 1 false true alpha rect 0 0 2.

  Lemma normals_up : chain_normals 1 rect 0 0 = 0 /\ chain_normals 1 rect 0 1 = 0 /\ chain_normals 1 rect 0 2 = 1.
  Proof.
    assert (G : forall d, (d < 3)%nat -> chain_normals 1 rect 0 d = match d with 2%nat => 1 | _ => 0 end); [|repeat split; apply G; lia].
    intros d Hd. unfold chain_normals, g_normals, g_nnorm, g_ncross, cross, mk3, osq; rops. cbn [Nat.div Nat.modulo Nat.divmod fst snd rect Nat.sub].
    assert (H2 : 0 < 2 * c * b) by (apply Rmult_lt_0_compat; lra).
    match goal with |- context [sqrt ?x] => replace x with ((2 * c * b) * (2 * c * b)) by ring end.
    rewrite sqrt_square by lra. destruct d as [|[|[|d]]]; [field; lra | field; lra | field; lra | lia].
  Qed.

  Notation V := (vtx 1 (chain_vectors 1 1 false true rect) 0 0).
  Lemma V_comp i j : (i <= 1)%nat -> (j <= 1)%nat ->
    V i j 0%nat = 3 * c / 4 - (match i with O => c / 4 | _ => c end) /\
    V i j 1%nat = b / 2 - (match j with O => 0 | _ => b end) /\
    V i j 2%nat = 0.
  Proof.
    intros Hi Hj. unfold vtx, chain_vectors, get_vectors, coll_pts, vortex_mesh, qc_rows, c025, c075, ohalf, ofrac; rops.
    cbn [Nat.div Nat.modulo Nat.divmod fst snd Nat.sub Nat.add Nat.mul].
    destruct i as [|[|i]]; [| |lia]; (destruct j as [|[|j]]; [| |lia]); cbn [Nat.ltb Nat.leb rect Nat.add]; repeat split; field.
  Qed.

  Lemma vel_z_horseshoe :
    vel_z = fv (V 0 1)%nat (V 0 0)%nat 2 + fv (V 0 0)%nat (V 1 0)%nat 2 + fv (V 1 1)%nat (V 0 1)%nat 2
            - semi (wake_u alpha) (V 1 1)%nat 2 + semi (wake_u alpha) (V 1 0)%nat 2.
  Proof.
    unfold vel_z, chain_velm. cbn [negb Nat.div Nat.modulo Nat.divmod fst snd Nat.sub].
    pose proof (last_row_is_horseshoe 1 1 alpha (chain_vectors 1 1 false true rect) 0 0 2 ltac:(lia) ltac:(lia)) as H.
    cbn [Nat.sub] in H. exact H.
  Qed.

  Lemma wake_u_comp : wake_u alpha 0%nat = cos a /\ wake_u alpha 1%nat = 0.
  Proof. unfold wake_u, mk3; rops. fold a. split; reflexivity. Qed.

  Theorem vel_z_pos : 0 < vel_z.
  Proof.
    rewrite vel_z_horseshoe.
    destruct (V_comp 0 0 ltac:(lia) ltac:(lia)) as (B0 & B1 & B2).
    destruct (V_comp 0 1 ltac:(lia) ltac:(lia)) as (A0 & A1 & A2).
    destruct (V_comp 1 0 ltac:(lia) ltac:(lia)) as (C0 & C1 & C2).
    destruct (V_comp 1 1 ltac:(lia) ltac:(lia)) as (D0 & D1 & D2).
    assert (Hcb : 0 < c * b) by (apply Rmult_lt_0_compat; assumption).
    assert (F1 : 0 <= fv (V 0 1)%nat (V 0 0)%nat 2).
    { apply fv_comp_nonneg. unfold cross, mk3; rops. rewrite A0, A1, B0, B1. nra. }
    assert (F2 : 0 <= fv (V 0 0)%nat (V 1 0)%nat 2).
    { apply fv_comp_nonneg. unfold cross, mk3; rops. rewrite B0, B1, C0, C1. nra. }
    assert (F3 : 0 <= fv (V 1 1)%nat (V 0 1)%nat 2).
    { apply fv_comp_nonneg. unfold cross, mk3; rops. rewrite D0, D1, A0, A1. nra. }
    destruct wake_u_comp as (U0 & U1).
    destruct (semi_z_sign (wake_u alpha) (V 1 1)%nat (wake_u_unit alpha) U1 ltac:(rewrite U0; exact Hcos) ltac:(rewrite D1; lra)) as (S1 & P1).
    destruct (semi_z_sign (wake_u alpha) (V 1 0)%nat (wake_u_unit alpha) U1 ltac:(rewrite U0; exact Hcos) ltac:(rewrite C1; lra)) as (S2 & P2).
    rewrite S1, S2, U0, D1, C1.
    assert (T1 : 0 < - (cos a * (b / 2 - b) * / (nrm (V 1 1)%nat * (nrm (V 1 1)%nat - dot (wake_u alpha) (V 1 1)%nat) * 4 * PI))).
    { apply Rinv_0_lt_compat in P1. assert (0 < cos a * (b / 2)) by (apply Rmult_lt_0_compat; lra). nra. }
    assert (T2 : 0 < cos a * (b / 2 - 0) * / (nrm (V 1 0)%nat * (nrm (V 1 0)%nat - dot (wake_u alpha) (V 1 0)%nat) * 4 * PI)).
    { apply Rinv_0_lt_compat in P2. assert (0 < cos a * (b / 2)) by (apply Rmult_lt_0_compat; lra). nra. }
    lra.
  Qed.

  (* the influence coefficient of the panel on itself is the upwash of its own horseshoe: positive *)
  Theorem aic_pos : 0 < chain_aic 1 1 false true alpha rect 0 0.
  Proof.
    unfold chain_aic, aic_mtx. destruct normals_up as (N0 & N1 & N2).
    unfold sumn; rops. cbn [rsum]. rewrite N0, N1, N2. fold vel_z. pose proof vel_z_pos. lra.
  Qed.

  Lemma residual_form beta v (G : nat -> R) :
    chain_residual 1 1 false true alpha beta v rect G 0
    = chain_aic 1 1 false true alpha rect 0 0 * G 0%nat + v * sin a * cos (beta * PI / 180).
  Proof.
    unfold chain_residual, solve_residual, chain_rhs, aic_rhs, freestream, mk3. destruct normals_up as (N0 & N1 & N2).
    change (1 * 1)%nat with 1%nat. unfold sumn; rops. cbn [rsum Nat.mul]. rewrite N0, N1, N2. fold a. ring.
  Qed.

  (* the solved circulation *)
  Theorem circulation_value beta v (G : nat -> R) :
    chain_residual 1 1 false true alpha beta v rect G 0 = 0 ->
    G 0%nat = - (v * sin a * cos (beta * PI / 180)) / chain_aic 1 1 false true alpha rect 0 0.
  Proof.
    intros H. pose proof aic_pos as Ha. rewrite residual_form in H. field_simplify_eq; [|lra]. lra.
  Qed.

  (* non-vacuity: the tangency condition has a solution *)
  Lemma circulation_exists beta v : exists G : nat -> R, chain_residual 1 1 false true alpha beta v rect G 0 = 0.
  Proof.
    pose proof aic_pos as Ha.
    exists (fun _ => - (v * sin a * cos (beta * PI / 180)) / chain_aic 1 1 false true alpha rect 0 0).
    rewrite residual_form. field. lra.
  Qed.

  Corollary circulation_negative_at_positive_alpha beta v (G : nat -> R) :
    0 < v -> 0 < cos (beta * PI / 180) -> 0 < sin a ->
    chain_residual 1 1 false true alpha beta v rect G 0 = 0 -> G 0%nat < 0.
  Proof.
    intros Hv Hcb Hs H. rewrite (circulation_value beta v G H). pose proof aic_pos as Ha.
    assert (0 < v * sin a * cos (beta * PI / 180)) by (apply Rmult_lt_0_compat; [apply Rmult_lt_0_compat|]; assumption).
    unfold Rdiv. apply Rinv_0_lt_compat in Ha. nra.
  Qed.

  (* ---------- the force on the panel ---------- *)
  Definition FV : nat -> nat -> nat -> nat -> R :=
    get_vectors (fun e d => force_pts_c rect 0 0 d) (vortex_mesh 1 1 false false true 0 0 rect).
  Notation W := (vtx 1 FV 0 0).
  Definition velF (d : nat) : R := vel_mtx 1 1 false false false alpha FV 0 0 0 d.
  Definition vel_at_force_pt (beta v : R) (G : nat -> R) (d : nat) : R :=
    eval_velocity 1 (fun p d => freestream alpha beta v d) (fun p q d => velF d) G 0 d.
  Definition force (rho beta v : R) (G : nat -> R) (d : nat) : R :=
    panel_force rho (fun p => horseshoe 1 (fun i j => G 0%nat) 0 0) (fun p => vel_at_force_pt beta v G) (fun p => bound_vecs rect 0 0) 0 d.

  Lemma W_comp i j : (i <= 1)%nat -> (j <= 1)%nat ->
    W i j 0%nat = c / 4 - (match i with O => c / 4 | _ => c end) /\
    W i j 1%nat = b / 2 - (match j with O => 0 | _ => b end) /\
    W i j 2%nat = 0.
  Proof.
    intros Hi Hj. unfold vtx, FV, get_vectors, force_pts_c, vortex_mesh, qc_rows, c025, c075, ohalf, ofrac; rops.
    cbn [Nat.div Nat.modulo Nat.divmod fst snd Nat.sub Nat.add Nat.mul].
    destruct i as [|[|i]]; [| |lia]; (destruct j as [|[|j]]; [| |lia]); cbn [Nat.ltb Nat.leb rect Nat.add]; repeat split; field.
  Qed.

  Lemma bound_vec_comp : bound_vecs rect 0 0 0%nat = 0 /\ bound_vecs rect 0 0 1%nat = - b /\ bound_vecs rect 0 0 2%nat = 0.
  Proof. unfold bound_vecs, c025, c075, ofrac; rops. cbn [rect]. repeat split; field. Qed.

  (* the x velocity induced at the bound vortex by a unit circulation: only the two wake legs (out of the wing plane when
     alpha <> 0) contribute, both with the sign of - sin(alpha) *)
  Lemma velF_x : exists kappa, 0 < kappa /\ velF 0 = - sin a * kappa.
  Proof.
    unfold velF.
    pose proof (last_row_is_horseshoe 1 1 alpha FV 0 0 0 ltac:(lia) ltac:(lia)) as H. cbn [Nat.sub] in H. rewrite H. clear H.
    destruct (W_comp 0 0 ltac:(lia) ltac:(lia)) as (B0 & B1 & B2).
    destruct (W_comp 0 1 ltac:(lia) ltac:(lia)) as (A0 & A1 & A2).
    destruct (W_comp 1 0 ltac:(lia) ltac:(lia)) as (C0 & C1 & C2).
    destruct (W_comp 1 1 ltac:(lia) ltac:(lia)) as (D0 & D1 & D2).
    rewrite (fv_comp_zero (W 0 1)%nat (W 0 0)%nat 0) by (unfold cross, mk3; rops; rewrite A1, A2, B1, B2; ring).
    rewrite (fv_comp_zero (W 0 0)%nat (W 1 0)%nat 0) by (unfold cross, mk3; rops; rewrite B1, B2, C1, C2; ring).
    rewrite (fv_comp_zero (W 1 1)%nat (W 0 1)%nat 0) by (unfold cross, mk3; rops; rewrite D1, D2, A1, A2; ring).
    destruct wake_u_comp as (U0 & U1).
    destruct (semi_form (wake_u alpha) (W 1 1)%nat (wake_u_unit alpha) U1 ltac:(rewrite U0; exact Hcos) ltac:(rewrite D1; lra)) as (P1 & S1).
    destruct (semi_form (wake_u alpha) (W 1 0)%nat (wake_u_unit alpha) U1 ltac:(rewrite U0; exact Hcos) ltac:(rewrite C1; lra)) as (P2 & S2).
    rewrite S1, S2.
    assert (U2 : wake_u alpha 2%nat = sin a) by (unfold wake_u, mk3; rops; fold a; reflexivity).
    assert (X1 : cross (wake_u alpha) (W 1 1)%nat 0 = sin a * (b / 2)) by (unfold cross, mk3; rops; rewrite U1, U2, D1, D2; field).
    assert (X2 : cross (wake_u alpha) (W 1 0)%nat 0 = - sin a * (b / 2)) by (unfold cross, mk3; rops; rewrite U1, U2, C1, C2; field).
    rewrite X1, X2.
    set (K1 := nrm (W 1 1)%nat * (nrm (W 1 1)%nat - dot (wake_u alpha) (W 1 1)%nat) * 4 * PI) in *.
    set (K2 := nrm (W 1 0)%nat * (nrm (W 1 0)%nat - dot (wake_u alpha) (W 1 0)%nat) * 4 * PI) in *.
    exists (b / 2 * (/ K1 + / K2)). split.
    - apply Rinv_0_lt_compat in P1. apply Rinv_0_lt_compat in P2. apply Rmult_lt_0_compat; lra.
    - ring.
  Qed.

  (* Kutta-Joukowski with the implementation's conventions: lift is positive at positive angle of attack *)
  Theorem lift_force_positive_at_positive_alpha rho beta v (G : nat -> R) :
    0 < rho -> 0 < v -> 0 < cos (beta * PI / 180) -> 0 < sin a ->
    chain_residual 1 1 false true alpha beta v rect G 0 = 0 -> 0 < force rho beta v G 2.
  Proof.
    intros Hrho Hv Hcb Hs H.
    pose proof (circulation_value beta v G H) as HG. pose proof aic_pos as Ha.
    destruct velF_x as (kappa & Hk & Hx). destruct bound_vec_comp as (V0 & V1 & V2).
    set (aic := chain_aic 1 1 false true alpha rect 0 0) in *. set (cb := cos (beta * PI / 180)) in *.
    assert (Hneg : G 0%nat < 0) by (apply (circulation_negative_at_positive_alpha beta v G); assumption).
    unfold force, panel_force, horseshoe, cross, mk3; rops. rewrite V0, V1.
    assert (Evx : vel_at_force_pt beta v G 0 = v * (cos a * cb) + velF 0 * G 0%nat).
    { unfold vel_at_force_pt, eval_velocity, freestream, mk3, sumn; rops. cbn [rsum]. fold a. fold cb. ring. }
    rewrite Evx, Hx.
    assert (Hvx : 0 < v * (cos a * cb) + - sin a * kappa * G 0%nat).
    { assert (0 < v * (cos a * cb)) by (apply Rmult_lt_0_compat; [assumption | apply Rmult_lt_0_compat; assumption]).
      assert (0 < sin a * kappa) by (apply Rmult_lt_0_compat; assumption). nra. }
    set (vx := v * (cos a * cb) + - sin a * kappa * G 0%nat) in *.
    replace (rho * G 0%nat * (vx * - b - vel_at_force_pt beta v G 1 * 0)) with (rho * b * (vx * (- G 0%nat))) by ring.
    apply Rmult_lt_0_compat; [apply Rmult_lt_0_compat; assumption | apply Rmult_lt_0_compat; lra].
  Qed.
End OnePanel.
