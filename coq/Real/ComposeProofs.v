(* ComposeProofs.v — composition of surfaces and wrappers (C19). *)
From Coq Require Import Reals ZArith Lra Lia Arith Bool List.
From OAS Require Import Scalar Rops Sums Aero AeroProofs Mphys.
Import ListNotations.
Open Scope R_scope.

(* ---------------- sums are invariant under any bijection of the index range ---------------- *)
Lemma rsum_bij n (pi pi' : nat -> nat) (f : nat -> R) :
  (forall i, (i < n)%nat -> (pi i < n)%nat) -> (forall i, (i < n)%nat -> (pi' i < n)%nat) ->
  (forall i, (i < n)%nat -> pi' (pi i) = i) -> (forall i, (i < n)%nat -> pi (pi' i) = i) ->
  rsum n (fun i => f (pi i)) = rsum n f.
Proof.
  intros H1 H2 H3 H4.
  set (ind := fun i j : nat => if (pi i =? j)%nat then 1 else 0).
  transitivity (rsum n (fun i => rsum n (fun j => ind i j * f j))).
  { apply rsum_ext; intros i Hi. symmetry.
    rewrite (rsum_single n (pi i)); [unfold ind; rewrite Nat.eqb_refl; ring | apply H1, Hi |].
    intros j Hj Hne. unfold ind. replace (pi i =? j)%nat with false by (symmetry; apply Nat.eqb_neq; auto). ring. }
  rewrite rsum_exchange. apply rsum_ext; intros j Hj.
  rewrite (rsum_single n (pi' j)); [unfold ind; rewrite H4 by exact Hj; rewrite Nat.eqb_refl; ring | apply H2, Hj |].
  intros i Hi Hne. unfold ind.
  replace (pi i =? j)%nat with false; [ring|]. symmetry. apply Nat.eqb_neq. intro E. apply Hne. rewrite <- E. symmetry. apply H3, Hi.
Qed.

(* re-listing the surfaces re-indexes the panels by a bijection: the re-indexed circulations solve the
   re-indexed system, equation by equation *)
Lemma permuted_system n (pi pi' : nat -> nat) (A : nat -> nat -> R) (b G : nat -> R) p :
  (forall i, (i < n)%nat -> (pi i < n)%nat) -> (forall i, (i < n)%nat -> (pi' i < n)%nat) ->
  (forall i, (i < n)%nat -> pi' (pi i) = i) -> (forall i, (i < n)%nat -> pi (pi' i) = i) ->
  solve_residual n (fun p q => A (pi p) (pi q)) (fun p => b (pi p)) (fun q => G (pi q)) p
  = solve_residual n A b G (pi p).
Proof.
  intros H1 H2 H3 H4. unfold solve_residual. rops. f_equal.
  apply (rsum_bij n pi pi' (fun q => A (pi p) q * G q)); assumption.
Qed.

(* and the induced velocities / forces are the re-indexed ones *)
Lemma permuted_velocity n (pi pi' : nat -> nat) (fs : nat -> nat -> R) (velm : nat -> nat -> nat -> R) (G : nat -> R) p d :
  (forall i, (i < n)%nat -> (pi i < n)%nat) -> (forall i, (i < n)%nat -> (pi' i < n)%nat) ->
  (forall i, (i < n)%nat -> pi' (pi i) = i) -> (forall i, (i < n)%nat -> pi (pi' i) = i) ->
  eval_velocity n (fun p => fs (pi p)) (fun p q => velm (pi p) (pi q)) (fun q => G (pi q)) p d
  = eval_velocity n fs velm G (pi p) d.
Proof.
  intros H1 H2 H3 H4. unfold eval_velocity. rops. f_equal.
  apply (rsum_bij n pi pi' (fun q => velm (pi p) q d * G q)); assumption.
Qed.

(* ---------------- global flat index: offsets over the surface list ---------------- *)
Lemma flat_lookup_first {A} (dflt : A) n f r p : (p < n)%nat -> flat_lookup dflt ((n, f) :: r) p = f p.
Proof. intros H. cbn [flat_lookup]. apply Nat.ltb_lt in H. rewrite H. reflexivity. Qed.
Lemma flat_lookup_rest {A} (dflt : A) n f r p : flat_lookup dflt ((n, f) :: r) (n + p) = flat_lookup dflt r p.
Proof.
  cbn [flat_lookup]. replace (n + p <? n)%nat with false by (symmetry; apply Nat.ltb_ge; lia).
  replace (n + p - n)%nat with p by lia. reflexivity.
Qed.

(* ---------------- mux / demux ---------------- *)
Lemma offset_S n r s : offset (n :: r) (S s) = (n + offset r s)%nat.
Proof. reflexivity. Qed.

Lemma mux_ext sizes : forall (b b' : nat -> nat -> R) p, (forall s k, b s k = b' s k) -> mux sizes b p = mux sizes b' p.
Proof.
  induction sizes as [|n r IH]; intros b b' p H; [reflexivity|].
  cbn [mux]. destruct (p <? n)%nat; [apply H | apply IH; intros; apply H].
Qed.

(* muxing the demuxed surfaces reproduces the flat vector *)
Lemma mux_demux sizes : forall (X : nat -> R) p, (p < total sizes)%nat ->
  mux sizes (demux sizes X) p = X p.
Proof.
  induction sizes as [|n r IH]; intros X p Hp; [cbn in Hp; lia|].
  cbn [mux]. destruct (Nat.ltb_spec p n) as [Hl|Hr].
  - unfold demux, src_index. cbn [offset]. reflexivity.
  - transitivity (mux r (demux r (fun q => X (n + q)%nat)) (p - n)).
    + apply mux_ext. intros s k. unfold demux, src_index. rewrite offset_S. f_equal. lia.
    + rewrite IH by (cbn [total fold_right] in Hp; unfold total; lia). f_equal. lia.
Qed.

(* demuxing the muxed surfaces reproduces every surface *)
Lemma demux_mux sizes : forall (blocks : nat -> nat -> R) s k, (s < length sizes)%nat -> (k < nth s sizes 0)%nat ->
  demux sizes (mux sizes blocks) s k = blocks s k.
Proof.
  induction sizes as [|n r IH]; intros blocks s k Hs Hk; [cbn in Hs; lia|].
  unfold demux, src_index. destruct s as [|s'].
  - cbn [offset nth] in *. cbn [mux]. replace (0 + k <? n)%nat with true by (symmetry; apply Nat.ltb_lt; lia). reflexivity.
  - cbn [nth length] in *. rewrite offset_S. cbn [mux].
    replace (n + offset r s' + k <? n)%nat with false by (symmetry; apply Nat.ltb_ge; lia).
    replace (n + offset r s' + k - n)%nat with (offset r s' + k)%nat by lia.
    apply (IH (fun s => blocks (S s)) s' k); lia.
Qed.

(* adjoint consistency of the matrix-free products: <mux blocks, e> = sum_s <blocks_s, demux e s> *)
Fixpoint block_dot (sizes : list nat) (blocks : nat -> nat -> R) (e : nat -> R) : R :=
  match sizes with
  | [] => 0
  | n :: r => rsum n (fun k => blocks 0%nat k * e k) + block_dot r (fun s => blocks (S s)) (fun q => e (n + q)%nat)
  end.
Lemma mux_adjoint sizes : forall (blocks : nat -> nat -> R) (e : nat -> R),
  rsum (total sizes) (fun p => mux sizes blocks p * e p) = block_dot sizes blocks e.
Proof.
  induction sizes as [|n r IH]; intros blocks e; [reflexivity|].
  cbn [total fold_right block_dot]. fold (total r). rewrite rsum_split. f_equal.
  - apply rsum_ext; intros k Hk. cbn [mux]. apply Nat.ltb_lt in Hk. rewrite Hk. reflexivity.
  - rewrite <- IH. apply rsum_ext; intros q Hq. cbn [mux].
    replace (n + q <? n)%nat with false by (symmetry; apply Nat.ltb_ge; lia).
    replace (n + q - n)%nat with q by lia. reflexivity.
Qed.
(* block_dot is exactly the per-surface pairing with the demuxed vector *)
Lemma block_dot_is_demux_pairing sizes : forall (blocks : nat -> nat -> R) (e : nat -> R),
  block_dot sizes blocks e
  = rsum (length sizes) (fun s => rsum (nth s sizes 0%nat) (fun k => blocks s k * demux sizes e s k)).
Proof.
  induction sizes as [|n r IH]; intros blocks e; [reflexivity|].
  cbn [block_dot length]. rewrite rsum_shift. apply (f_equal2 Rplus).
  - cbn [nth]. apply rsum_ext; intros k Hk. unfold demux, src_index. cbn [offset]. reflexivity.
  - rewrite (IH (fun s => blocks (S s)) (fun q => e (n + q)%nat)).
    apply rsum_ext; intros s Hs. cbn [nth]. apply rsum_ext; intros k Hk.
    unfold demux, src_index. rewrite offset_S. f_equal. f_equal. lia.
Qed.
