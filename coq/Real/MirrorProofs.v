(* MirrorProofs.v — mirror-image configurations give mirror-image results (C07). *)
From Coq Require Import Reals ZArith Lra Lia Arith Bool.
From OAS Require Import Scalar Rops Sums Stress Vec3 Aero VLM AeroProofs Reflect SymProofs StressProofs.
Open Scope R_scope.

(* onset flow: sideslip changes sign, roll and yaw rates change sign (pseudo-vector), cg is mirrored *)
Lemma freestream_mirror a b v d : (d < 3)%nat ->
  freestream a (- b) v d = My (freestream a b v) d.
Proof.
  intros Hd. rewrite My_def by exact Hd. unfold freestream; rops.
  replace (- b * PI / 180) with (- (b * PI / 180)) by (unfold Rdiv; ring).
  rewrite cos_neg, sin_neg. destruct d as [|[|[|d]]]; try lia; unfold mk3; cbn [Nat.eqb]; ring.
Qed.

Definition pseudo_mirror (w : nat -> R) : nat -> R := fun d => - My w d.
Lemma pseudo_mirror_def w d : (d < 3)%nat -> pseudo_mirror w d = if (d =? 1)%nat then w d else - w d.
Proof. intros Hd. unfold pseudo_mirror. rewrite My_def by exact Hd. destruct (d =? 1)%nat; ring. Qed.

Lemma cross_ext a a' b b' d : (forall k, (k < 3)%nat -> a k = a' k) -> (forall k, (k < 3)%nat -> b k = b' k) ->
  cross a b d = cross a' b' d.
Proof. intros Ha Hb. destruct d as [|[|d]]; unfold cross, mk3; rops; rewrite !Ha, !Hb by lia; reflexivity. Qed.
Lemma cross_opp_l a b d : cross (fun k => - a k) b d = - cross a b d.
Proof. destruct d as [|[|d]]; unfold cross, mk3; rops; ring. Qed.

Lemma rot_vel_mirror (omega cg pt : nat -> R) d : (d < 3)%nat ->
  rot_vel (pseudo_mirror omega) (My cg) (My pt) d = My (rot_vel omega cg pt) d.
Proof.
  intros Hd. unfold rot_vel. rops. unfold pseudo_mirror. rewrite cross_opp_l.
  rewrite (cross_ext (My omega) (My omega) (fun k => My pt k - My cg k) (My (vsub pt cg)) d).
  - unfold My. rewrite refl_cross by (try exact Hd; apply e_y_unit).
    unfold refl, dot, vsub; rops. ring.
  - reflexivity.
  - intros k Hk. unfold My. rewrite refl_sub. reflexivity.
Qed.

(* panel force: the mirrored panel is traversed in reversed spanwise order, so its bound vector is
   minus the mirrored bound vector; with the same circulation the force is the mirrored force *)
Lemma panel_force_mirror rho (hs : nat -> R) (vel bv vel' bv' : nat -> nat -> R) p p' d : (d < 3)%nat ->
  (forall k, (k < 3)%nat -> vel' p' k = My (vel p) k) -> (forall k, (k < 3)%nat -> bv' p' k = - My (bv p) k) ->
  panel_force rho (fun _ => hs p) vel' bv' p' d = My (panel_force rho (fun _ => hs p) vel bv p) d.
Proof.
  intros Hd Hv Hb. unfold panel_force. rops.
  assert (E : cross (vel' p') (bv' p') d = - cross (My (vel p)) (My (bv p)) d).
  { destruct d as [|[|[|d]]]; try lia; unfold cross, mk3; rops; rewrite !Hv, !Hb by lia; ring. }
  rewrite E. unfold My at 1 2. rewrite refl_cross by (try exact Hd; apply e_y_unit).
  unfold My, refl, dot; rops. ring.
Qed.

(* lift and drag of a mirrored force set (sideslip reversed) are unchanged *)
Lemma lift_drag_mirror np a b (F F' : nat -> nat -> R) :
  (forall p k, (p < np)%nat -> (k < 3)%nat -> F' p k = My (F p) k) ->
  lift np false a F' = lift np false a F /\ drag np false a (- b) F' = drag np false a b F.
Proof.
  intros H. unfold lift, drag. rops.
  replace (- b * PI / 180) with (- (b * PI / 180)) by (unfold Rdiv; ring). rewrite cos_neg, sin_neg.
  split; apply rsum_ext; intros p Hp; rewrite !H by (try exact Hp; lia); rewrite !My_def by lia; cbn [Nat.eqb]; ring.
Qed.

(* moment about the mirrored reference point: x and z components change sign (pseudo-vector) *)
Lemma moment_mirror (r F : nat -> R) d : (d < 3)%nat ->
  cross (My r) (My F) d = pseudo_mirror (cross r F) d.
Proof. intros Hd. unfold My, pseudo_mirror. rewrite refl_cross by (try exact Hd; apply e_y_unit). reflexivity. Qed.

(* ---- structures ---- *)
(* tube: the mirrored element sees the same axial and bending strain measures and the opposite torsion,
   which enters squared: the von Mises stress is mirror invariant *)
Lemma tube_vm_torsion_sign E G r L du drx dry drz s :
  tube_vm_local E G r L du (- drx) dry drz s = tube_vm_local E G r L du drx dry drz s.
Proof. unfold tube_vm_local, osq, o3; rops. destruct s; f_equal; unfold Rdiv; ring. Qed.

(* wingbox: the bending moment is recovered at one fixed end of the element.  For the mirror image of an
   element (nodes in reversed order, y- and z-rotations reversed) this is the OTHER physical end: *)
Definition wb_mz_loc (u0y r0z u1y r1z L : R) : R := 6 * u0y + 2 * r0z * L - 6 * u1y + 4 * r1z * L.
Lemma wb_mz_is_loc nodes disp e :
  wb_mz nodes disp e = wb_mz_loc (u0 disp e (yl nodes e)) (r0 disp e (zl nodes e)) (u1 disp e (yl nodes e)) (r1 disp e (zl nodes e)) (eL nodes e).
Proof. unfold wb_mz, wb_mz_loc, o6, o2, o4; rops. reflexivity. Qed.
(* mirrored element: u0y' = u1y, u1y' = u0y, r0z' = - r1z, r1z' = - r0z *)
Lemma wb_end_moment_mirror u0y r0z u1y r1z L :
  wb_mz_loc u1y (- r1z) u0y (- r0z) L = - (6 * u0y + 4 * r0z * L - 6 * u1y + 2 * r1z * L).
Proof. unfold wb_mz_loc. ring. Qed.
(* ... which differs in magnitude from the original whenever the two end rotations differ *)
Lemma wingbox_stress_mirror_refuted :
  exists u0y r0z u1y r1z L, Rabs (wb_mz_loc u1y (- r1z) u0y (- r0z) L) <> Rabs (wb_mz_loc u0y r0z u1y r1z L).
Proof.
  exists 0, 1, 0, 0, 1. unfold wb_mz_loc.
  replace (6 * 0 + 2 * - 0 * 1 - 6 * 0 + 4 * - (1) * 1) with (-4) by ring.
  replace (6 * 0 + 2 * 1 * 1 - 6 * 0 + 4 * 0 * 1) with 2 by ring.
  rewrite Rabs_left, Rabs_right by lra. lra.
Qed.
(* the mid-element (average) moment IS mirror invariant in magnitude: a repair exists *)
Lemma wingbox_mean_moment_mirror_invariant u0y r0z u1y r1z L :
  let m0 := 6 * u0y + 4 * r0z * L - 6 * u1y + 2 * r1z * L in
  let m1 := wb_mz_loc u0y r0z u1y r1z L in
  let m0' := 6 * u1y + 4 * (- r1z) * L - 6 * u0y + 2 * (- r0z) * L in
  let m1' := wb_mz_loc u1y (- r1z) u0y (- r0z) L in
  m0' = - m1 /\ m1' = - m0.
Proof. unfold wb_mz_loc. split; ring. Qed.
