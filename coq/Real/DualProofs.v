(* DualProofs.v — every operation of the dual-number instance computes the value and the derivative of
   the corresponding real operation.  DR g t0 p : "p is (g t0, g' t0)". *)
From Coq Require Import Reals ZArith Lra Lia Arith Bool.
From Coquelicot Require Import Coquelicot.
From OAS Require Import Scalar Rops Sums Deriv Dual.
Open Scope R_scope.

Notation DOPS := (@Dops R Rops).
Definition DR (g : R -> R) (t0 : R) (p : dual R) : Prop := g t0 = fst p /\ is_derive g t0 (snd p).

Lemma DR_val g t0 p : DR g t0 p -> fst p = g t0.
Proof. intros [H _]; symmetry; exact H. Qed.
Lemma DR_der g t0 p : DR g t0 p -> is_derive g t0 (snd p).
Proof. intros [_ H]; exact H. Qed.
Lemma DR_ext g h t0 p : (forall t, g t = h t) -> DR g t0 p -> DR h t0 p.
Proof. intros E [H1 H2]; split; [rewrite <- E; exact H1 | apply (is_derive_ext g); [exact E | exact H2]]. Qed.
Lemma DR_ext_loc g h t0 p : locally t0 (fun t => g t = h t) -> DR g t0 p -> DR h t0 p.
Proof.
  intros E [H1 H2]; split.
  - rewrite <- (locally_singleton _ _ E). exact H1.
  - apply (is_derive_ext_loc g); assumption.
Qed.
Lemma DR_eq g t0 p q : p = q -> DR g t0 p -> DR g t0 q.
Proof. intros ->; auto. Qed.

Lemma DR_const c t0 : DR (fun _ => c) t0 (dinj c).
Proof. split; [reflexivity | apply (is_derive_const (K := R_AbsRing) (V := R_NormedModule))]. Qed.
Lemma DR_id t0 : DR (fun t => t) t0 (dvar t0).
Proof. split; [reflexivity | apply (is_derive_id (K := R_AbsRing))]. Qed.
Lemma DR_o0 t0 : DR (fun _ => @o0 R Rops) t0 (@o0 _ DOPS).
Proof. apply DR_const. Qed.
Lemma DR_o1 t0 : DR (fun _ => @o1 R Rops) t0 (@o1 _ DOPS).
Proof. apply DR_const. Qed.
Lemma DR_ofZ z t0 : DR (fun _ => @oofZ R Rops z) t0 (@oofZ _ DOPS z).
Proof. apply DR_const. Qed.
Lemma DR_pi t0 : DR (fun _ => @opi R Rops) t0 (@opi _ DOPS).
Proof. apply DR_const. Qed.

Section Closure.
  Variables (A B : R -> R) (t0 : R) (a b : dual R).
  Hypotheses (HA : DR A t0 a) (HB : DR B t0 b).
  Let va := DR_val _ _ _ HA. Let vb := DR_val _ _ _ HB.
  Let da := DR_der _ _ _ HA. Let db := DR_der _ _ _ HB.

  Ltac sidec := repeat match goal with |- _ /\ _ => split end;
    first [exact I | assumption | eexists; match goal with H : is_derive _ _ _ |- _ => exact H end].
  Lemma DR_add : DR (fun t => @oadd R Rops (A t) (B t)) t0 (@oadd _ DOPS a b).
  Proof. split; cbn; [rewrite va, vb; reflexivity|]. apply (is_derive_plus (K := R_AbsRing) (V := R_NormedModule)); assumption. Qed.
  Lemma DR_sub : DR (fun t => @osub R Rops (A t) (B t)) t0 (@osub _ DOPS a b).
  Proof. split; cbn; [rewrite va, vb; reflexivity|]. apply (is_derive_minus (K := R_AbsRing) (V := R_NormedModule)); assumption. Qed.
  Lemma DR_mul : DR (fun t => @omul R Rops (A t) (B t)) t0 (@omul _ DOPS a b).
  Proof.
    split; cbn; [rewrite va, vb; reflexivity|]. rewrite va, vb.
    auto_derive; [sidec|].
    rewrite (is_derive_unique (fun x : R => A x) t0 _ da), (is_derive_unique (fun x : R => B x) t0 _ db). ring.
  Qed.
  Lemma DR_div : B t0 <> 0 -> DR (fun t => @odiv R Rops (A t) (B t)) t0 (@odiv _ DOPS a b).
  Proof.
    intros Hn. split; cbn; [rewrite va, vb; reflexivity|]. rewrite va, vb.
    auto_derive; [sidec|].
    rewrite (is_derive_unique (fun x : R => A x) t0 _ da), (is_derive_unique (fun x : R => B x) t0 _ db). field. exact Hn.
  Qed.
  Lemma DR_opp : DR (fun t => @oopp R Rops (A t)) t0 (@oopp _ DOPS a).
  Proof. split; cbn; [rewrite va; reflexivity|]. apply (is_derive_opp (K := R_AbsRing) (V := R_NormedModule)); assumption. Qed.
  Lemma DR_sqrt : 0 < A t0 -> DR (fun t => @osqrt R Rops (A t)) t0 (@osqrt _ DOPS a).
  Proof.
    intros Hp. split; cbn; [rewrite va; reflexivity|]. rewrite va.
    auto_derive; [sidec|].
    rewrite (is_derive_unique (fun x : R => A x) t0 _ da). field. apply Rgt_not_eq. apply sqrt_lt_R0. exact Hp.
  Qed.
  Lemma DR_exp : DR (fun t => @oexp R Rops (A t)) t0 (@oexp _ DOPS a).
  Proof.
    split; cbn; [rewrite va; reflexivity|]. rewrite va.
    auto_derive; [sidec|]. rewrite (is_derive_unique (fun x : R => A x) t0 _ da). ring.
  Qed.
  Lemma DR_ln : 0 < A t0 -> DR (fun t => @oln R Rops (A t)) t0 (@oln _ DOPS a).
  Proof.
    intros Hp. split; cbn; [rewrite va; reflexivity|]. rewrite va.
    auto_derive; [sidec|].
    rewrite (is_derive_unique (fun x : R => A x) t0 _ da). field. lra.
  Qed.
  Lemma DR_sin : DR (fun t => @osin R Rops (A t)) t0 (@osin _ DOPS a).
  Proof.
    split; cbn; [rewrite va; reflexivity|]. rewrite va.
    auto_derive; [sidec|]. rewrite (is_derive_unique (fun x : R => A x) t0 _ da). ring.
  Qed.
  Lemma DR_cos : DR (fun t => @ocos R Rops (A t)) t0 (@ocos _ DOPS a).
  Proof.
    split; cbn; [rewrite va; reflexivity|]. rewrite va.
    auto_derive; [sidec|]. rewrite (is_derive_unique (fun x : R => A x) t0 _ da). ring.
  Qed.
  Lemma DR_tan : cos (A t0) <> 0 -> DR (fun t => @otan R Rops (A t)) t0 (@otan _ DOPS a).
  Proof.
    intros Hc. split; cbn; [rewrite va; reflexivity|]. rewrite va.
    apply (is_derive_ext (fun t => sin (A t) / cos (A t))); [intros; reflexivity|].
    auto_derive; [sidec|].
    rewrite (is_derive_unique (fun x : R => A x) t0 _ da). unfold tan. field. exact Hc.
  Qed.
  Lemma DR_atan : DR (fun t => @oatan R Rops (A t)) t0 (@oatan _ DOPS a).
  Proof.
    split; cbn; [rewrite va; reflexivity|]. rewrite va.
    auto_derive; [sidec|]. rewrite (is_derive_unique (fun x : R => A x) t0 _ da).
    field. nra.
  Qed.
  Lemma DR_pow : 0 < A t0 -> DR (fun t => @opow R Rops (A t) (B t)) t0 (@opow _ DOPS a b).
  Proof.
    intros Hp. split; cbn; [rewrite va, vb; reflexivity|]. rewrite va, vb. unfold Rpower.
    auto_derive; [sidec|].
    rewrite (is_derive_unique (fun x : R => A x) t0 _ da), (is_derive_unique (fun x : R => B x) t0 _ db). field. lra.
  Qed.
End Closure.

(* arccosine (WingboxGeometry): differentiable strictly inside (-1, 1) *)
Lemma is_derive_acos x : -1 < x < 1 -> is_derive acos x (- / sqrt (1 - x * x)).
Proof.
  intros Hx. apply is_derive_Reals.
  pose proof (derive_pt_acos x Hx) as Hd.
  pose proof (proj2_sig (derivable_pt_acos x Hx)) as Hl. cbv beta in Hl.
  unfold derive_pt in Hd. rewrite Hd in Hl.
  replace (- / sqrt (1 - x * x)) with (-1 / sqrt (1 - x²)); [exact Hl|].
  unfold Rsqr. field. apply Rgt_not_eq, sqrt_lt_R0. nra.
Qed.
Lemma DR_acos A t0 a : DR A t0 a -> -1 < A t0 < 1 -> DR (fun t => @oacos R Rops (A t)) t0 (@oacos _ DOPS a).
Proof.
  intros HA Hx. pose proof (DR_val _ _ _ HA) as va. pose proof (DR_der _ _ _ HA) as da.
  split; cbn; [rewrite va; reflexivity|]. rewrite va.
  pose proof (is_derive_comp (K := R_AbsRing) (V := R_NormedModule) acos A t0 _ _ (is_derive_acos _ Hx) da) as H.
  match goal with |- is_derive _ _ ?d => replace d with (scal (snd a) (- / sqrt (1 - A t0 * A t0))); [exact H|] end.
  unfold scal; cbn. unfold mult; cbn. field. apply Rgt_not_eq, sqrt_lt_R0. nra.
Qed.

(* ---- non-smooth operations: away from the switching point ---- *)
Lemma DR_cont g t0 p : DR g t0 p -> continuous g t0.
Proof. intros [_ H]. apply (ex_derive_continuous (K := R_AbsRing) (V := R_NormedModule)). eexists; exact H. Qed.

Lemma locally_lt (A B : R -> R) t0 : continuous A t0 -> continuous B t0 -> A t0 < B t0 -> locally t0 (fun t => A t < B t).
Proof.
  intros HA HB Hlt.
  assert (Hc : continuous (fun t => minus (B t) (A t)) t0).
  { apply (continuous_minus (K := R_AbsRing) (V := R_NormedModule)); assumption. }
  assert (Hl : locally (minus (B t0) (A t0)) (fun y : R => 0 < y)).
  { apply (open_gt 0). unfold minus, plus, opp; simpl. lra. }
  specialize (Hc _ Hl). unfold filtermap in Hc.
  eapply filter_imp; [| exact Hc]. intros t Ht. unfold minus, plus, opp in Ht; simpl in Ht. lra.
Qed.

Lemma DR_abs A t0 a : DR A t0 a -> A t0 <> 0 -> DR (fun t => @oabs R Rops (A t)) t0 (@oabs _ DOPS a).
Proof.
  intros HA Hn. pose proof (DR_val _ _ _ HA) as va. pose proof (DR_cont _ _ _ HA) as Hc.
  split; cbn; [rewrite va; reflexivity|]. rewrite va.
  destruct (Rltb (A t0) 0) eqn:E.
  - apply Rltb_true in E.
    apply (is_derive_ext_loc (fun t => - A t)).
    + assert (L := locally_lt A (fun _ => 0) t0 Hc (continuous_const _ _) E).
      eapply filter_imp; [| exact L]. intros t Ht. cbv beta in Ht. rewrite Rabs_left; [reflexivity | exact Ht].
    + apply (is_derive_opp (K := R_AbsRing) (V := R_NormedModule)). exact (DR_der _ _ _ HA).
  - apply Rltb_false in E. assert (E' : 0 < A t0) by lra.
    apply (is_derive_ext_loc A).
    + assert (L := locally_lt (fun _ => 0) A t0 (continuous_const _ _) Hc E').
      eapply filter_imp; [| exact L]. intros t Ht. cbv beta in Ht. rewrite Rabs_pos_eq; [reflexivity | lra].
    + exact (DR_der _ _ _ HA).
Qed.

(* a branch on a strict comparison of two differentiable quantities, away from equality *)
Lemma DR_if_ltb A B P Q t0 a b p q :
  DR A t0 a -> DR B t0 b -> A t0 <> B t0 -> DR P t0 p -> DR Q t0 q ->
  DR (fun t => if @oltb R Rops (A t) (B t) then P t else Q t) t0 (if @oltb _ DOPS a b then p else q).
Proof.
  intros HA HB Hn HP HQ. cbn. rewrite (DR_val _ _ _ HA), (DR_val _ _ _ HB).
  pose proof (DR_cont _ _ _ HA) as cA. pose proof (DR_cont _ _ _ HB) as cB.
  destruct (Rltb (A t0) (B t0)) eqn:E.
  - apply Rltb_true in E. apply (DR_ext_loc P); [| exact HP].
    eapply filter_imp; [| exact (locally_lt A B t0 cA cB E)]. intros t Ht. cbv beta in Ht.
    apply Rltb_true in Ht. rewrite Ht. reflexivity.
  - apply Rltb_false in E. assert (E' : B t0 < A t0) by lra. apply (DR_ext_loc Q); [| exact HQ].
    eapply filter_imp; [| exact (locally_lt B A t0 cB cA E')]. intros t Ht. cbv beta in Ht.
    assert (F : Rltb (A t) (B t) = false) by (apply Rltb_false; lra). rewrite F. reflexivity.
Qed.
Lemma DR_if_leb A B P Q t0 a b p q :
  DR A t0 a -> DR B t0 b -> A t0 <> B t0 -> DR P t0 p -> DR Q t0 q ->
  DR (fun t => if @oleb R Rops (A t) (B t) then P t else Q t) t0 (if @oleb _ DOPS a b then p else q).
Proof.
  intros HA HB Hn HP HQ. cbn. rewrite (DR_val _ _ _ HA), (DR_val _ _ _ HB).
  pose proof (DR_cont _ _ _ HA) as cA. pose proof (DR_cont _ _ _ HB) as cB.
  destruct (Rleb (A t0) (B t0)) eqn:E.
  - apply Rleb_true in E. assert (E' : A t0 < B t0) by lra. apply (DR_ext_loc P); [| exact HP].
    eapply filter_imp; [| exact (locally_lt A B t0 cA cB E')]. intros t Ht. cbv beta in Ht.
    assert (F : Rleb (A t) (B t) = true) by (apply Rleb_true; lra). rewrite F. reflexivity.
  - apply Rleb_false in E. apply (DR_ext_loc Q); [| exact HQ].
    eapply filter_imp; [| exact (locally_lt B A t0 cB cA E)]. intros t Ht. cbv beta in Ht.
    assert (F : Rleb (A t) (B t) = false) by (apply Rleb_false; lra). rewrite F. reflexivity.
Qed.
(* a branch on a condition that does not depend on the differentiation variable *)
Lemma DR_if_const (c : bool) P Q t0 p q : DR P t0 p -> DR Q t0 q -> DR (fun t => if c then P t else Q t) t0 (if c then p else q).
Proof. destruct c; auto. Qed.

(* ---- sums and derived operations ---- *)
Lemma DR_sumn n (F : R -> nat -> R) t0 (f : nat -> dual R) :
  (forall i, (i < n)%nat -> DR (fun t => F t i) t0 (f i)) ->
  DR (fun t => @sumn R Rops n (F t)) t0 (@sumn _ DOPS n f).
Proof.
  induction n as [|n IH]; intros H; cbn [sumn].
  - apply DR_o0.
  - apply DR_add; [apply IH; intros; apply H; lia | apply H; lia].
Qed.
Lemma DR_osq A t0 a : DR A t0 a -> DR (fun t => @osq R Rops (A t)) t0 (@osq _ DOPS a).
Proof. intros; unfold osq; apply DR_mul; assumption. Qed.
Lemma DR_ofrac n d t0 : (d <> 0)%Z -> DR (fun _ => @ofrac R Rops n d) t0 (@ofrac _ DOPS n d).
Proof. intros Hd; unfold ofrac. apply (DR_div (fun _ => IZR n) (fun _ => IZR d)); [apply DR_ofZ | apply DR_ofZ | apply not_0_IZR; exact Hd]. Qed.
Lemma DR_onat n t0 : DR (fun _ => @onat R Rops n) t0 (@onat _ DOPS n).
Proof. unfold onat; apply DR_ofZ. Qed.
Lemma DR_o2 t0 : DR (fun _ => @o2 R Rops) t0 (@o2 _ DOPS).
Proof. unfold o2; apply DR_ofZ. Qed.
Lemma DR_ohalf t0 : DR (fun _ => @ohalf R Rops) t0 (@ohalf _ DOPS).
Proof. unfold ohalf; apply DR_ofrac; discriminate. Qed.
Lemma DR_iff0 (c : bool) A t0 a : DR A t0 a -> DR (fun t => @iff0 R Rops c (A t)) t0 (@iff0 _ DOPS c a).
Proof. intros; unfold iff0; destruct c; [assumption | apply DR_o0]. Qed.

(* 3-vectors *)
Definition DRv (V : R -> nat -> R) (t0 : R) (v : nat -> dual R) : Prop := forall d, DR (fun t => V t d) t0 (v d).
Lemma DR_dot U V t0 u v : DRv U t0 u -> DRv V t0 v -> DR (fun t => @dot R Rops (U t) (V t)) t0 (@dot _ DOPS u v).
Proof. intros HU HV; unfold dot. repeat apply DR_add; apply DR_mul; first [apply HU | apply HV]. Qed.
Lemma DR_nrm U t0 u : DRv U t0 u -> 0 < dot (U t0) (U t0) -> DR (fun t => @nrm R Rops (U t)) t0 (@nrm _ DOPS u).
Proof. intros HU Hp; unfold nrm. apply (DR_sqrt (fun t => dot (U t) (U t))); [apply DR_dot; assumption | exact Hp]. Qed.
Lemma DRv_mk3 X Y Z t0 x y z : DR X t0 x -> DR Y t0 y -> DR Z t0 z -> DRv (fun t => @mk3 R (X t) (Y t) (Z t)) t0 (@mk3 _ x y z).
Proof. intros HX HY HZ [|[|d]]; cbn [mk3]; assumption. Qed.
Lemma DRv_cross U V t0 u v : DRv U t0 u -> DRv V t0 v -> DRv (fun t => @cross R Rops (U t) (V t)) t0 (@cross _ DOPS u v).
Proof. intros HU HV; unfold cross. apply DRv_mk3; apply DR_sub; apply DR_mul; first [apply HU | apply HV]. Qed.
Lemma DRv_vsub U V t0 u v : DRv U t0 u -> DRv V t0 v -> DRv (fun t => @vsub R Rops (U t) (V t)) t0 (@vsub _ DOPS u v).
Proof. intros HU HV d; unfold vsub. apply DR_sub; [apply HU | apply HV]. Qed.
Lemma DRv_vadd U V t0 u v : DRv U t0 u -> DRv V t0 v -> DRv (fun t => @vadd R Rops (U t) (V t)) t0 (@vadd _ DOPS u v).
Proof. intros HU HV d; unfold vadd. apply DR_add; [apply HU | apply HV]. Qed.
Lemma DRv_vscal S V t0 s v : DR S t0 s -> DRv V t0 v -> DRv (fun t => @vscal R Rops (S t) (V t)) t0 (@vscal _ DOPS s v).
Proof. intros HS HV d; unfold vscal. apply DR_mul; [exact HS | apply HV]. Qed.

(* the coordinate seed: x with its c-th entry varying *)
Definition seed1 (x : nat -> R) (c : nat) : nat -> dual R := fun i => (x i, if (i =? c)%nat then 1 else 0).
Lemma DR_upd1 x c i : DR (fun t => upd1 x c t i) (x c) (seed1 x c i).
Proof.
  unfold upd1, seed1. destruct (i =? c)%nat eqn:E.
  - apply Nat.eqb_eq in E; subst i. split; [reflexivity | apply (is_derive_id (K := R_AbsRing))].
  - split; [reflexivity | apply (is_derive_const (K := R_AbsRing) (V := R_NormedModule))].
Qed.
(* what the relation delivers: the tangent of the dual evaluation is the partial derivative *)
Lemma DR_partial (f : (nat -> R) -> R) (fd : (nat -> dual R) -> dual R) x c :
  DR (fun t => f (upd1 x c t)) (x c) (fd (seed1 x c)) -> is_derive (fun t => f (upd1 x c t)) (x c) (snd (fd (seed1 x c))).
Proof. intros [_ H]; exact H. Qed.

(* arrays of differentiable entries *)
Definition DR1 (M : R -> nat -> R) t0 (m : nat -> dual R) := forall i, DR (fun t => M t i) t0 (m i).
Definition DR2 (M : R -> nat -> nat -> R) t0 (m : nat -> nat -> dual R) := forall i j, DR (fun t => M t i j) t0 (m i j).
Definition DR3 (M : R -> nat -> nat -> nat -> R) t0 (m : nat -> nat -> nat -> dual R) := forall i j d, DR (fun t => M t i j d) t0 (m i j d).
Definition DR4 (M : R -> nat -> nat -> nat -> nat -> R) t0 (m : nat -> nat -> nat -> nat -> dual R) := forall i j k d, DR (fun t => M t i j k d) t0 (m i j k d).

(* ---- structural automation ---- *)
Ltac dr_leaf :=
  first [ assumption
        | match goal with H : context [DR] |- _ => apply H end
        | match goal with H : context [DRv] |- _ => apply H end
        | match goal with H : DR1 _ _ _ |- _ => apply H end
        | match goal with H : DR2 _ _ _ |- _ => apply H end
        | match goal with H : DR3 _ _ _ |- _ => apply H end
        | match goal with H : DR4 _ _ _ |- _ => apply H end ].
Ltac dr_const :=
  first [ apply DR_o0 | apply DR_o1 | apply DR_ofZ | apply DR_pi | apply DR_o2 | apply DR_ohalf | apply DR_onat
        | (apply DR_ofrac; discriminate) ].
Ltac dr_step :=
  lazymatch goal with
  | |- DR (fun _ => _) _ (dinj _) => apply DR_const
  | |- DR (fun _ => ?c) _ (?c, _) => apply DR_const
  | |- DR (fun _ => @o0 _ _) _ _ => apply DR_o0
  | |- DR (fun _ => @o1 _ _) _ _ => apply DR_o1
  | |- DR (fun _ => @oofZ _ _ _) _ _ => apply DR_ofZ
  | |- DR (fun _ => @opi _ _) _ _ => apply DR_pi
  | |- DR (fun _ => @o2 _ _) _ _ => apply DR_o2
  | |- DR (fun _ => @ohalf _ _) _ _ => apply DR_ohalf
  | |- DR (fun _ => @onat _ _ _) _ _ => apply DR_onat
  | |- DR (fun _ => @ofrac _ _ _ _) _ _ => apply DR_ofrac; discriminate
  | |- DR (fun t => @oadd _ _ _ _) _ _ => apply DR_add
  | |- DR (fun t => @osub _ _ _ _) _ _ => apply DR_sub
  | |- DR (fun t => @omul _ _ _ _) _ _ => apply DR_mul
  | |- DR (fun t => @odiv _ _ _ _) _ _ => apply DR_div
  | |- DR (fun t => @oopp _ _ _) _ _ => apply DR_opp
  | |- DR (fun t => @osqrt _ _ _) _ _ => apply DR_sqrt
  | |- DR (fun t => @oexp _ _ _) _ _ => apply DR_exp
  | |- DR (fun t => @oln _ _ _) _ _ => apply DR_ln
  | |- DR (fun t => @osin _ _ _) _ _ => apply DR_sin
  | |- DR (fun t => @ocos _ _ _) _ _ => apply DR_cos
  | |- DR (fun t => @otan _ _ _) _ _ => apply DR_tan
  | |- DR (fun t => @oatan _ _ _) _ _ => apply DR_atan
  | |- DR (fun t => @oacos _ _ _) _ _ => apply DR_acos
  | |- DR (fun t => @oabs _ _ _) _ _ => apply DR_abs
  | |- DR (fun t => @opow _ _ _ _) _ _ => apply DR_pow
  | |- DR (fun t => @osq _ _ _) _ _ => apply DR_osq
  | |- DR (fun t => @iff0 _ _ _ _) _ _ => apply DR_iff0
  | |- DR (fun t => @sumn _ _ _ _) _ _ => apply DR_sumn; intros ? ?
  | |- DR (fun t => @dot _ _ _ _) _ _ => apply DR_dot
  | |- DR (fun t => @nrm _ _ _) _ _ => apply DR_nrm
  | |- DRv (fun t => @cross _ _ _ _) _ _ => apply DRv_cross
  | |- DRv (fun t => @vsub _ _ _ _) _ _ => apply DRv_vsub
  | |- DRv (fun t => @vadd _ _ _ _) _ _ => apply DRv_vadd
  | |- DRv (fun t => @vscal _ _ _ _) _ _ => apply DRv_vscal
  | |- DRv (fun t => @mk3 _ _ _ _) _ _ => apply DRv_mk3
  | |- DR (fun t => @cross _ _ _ _ ?d) _ _ => apply (DRv_cross _ _ _ _ _) with (d := d)
  | |- DR (fun t => @vsub _ _ _ _ ?d) _ _ => apply (DRv_vsub _ _ _ _ _) with (d := d)
  | |- DR (fun t => @vadd _ _ _ _ ?d) _ _ => apply (DRv_vadd _ _ _ _ _) with (d := d)
  | |- DR (fun t => @vscal _ _ _ _ ?d) _ _ => apply (DRv_vscal _ _ _ _ _) with (d := d)
  | |- DR (fun t => @mk3 _ _ _ _ ?d) _ _ => apply (DRv_mk3 _ _ _ _ _ _ _) with (d := d)
  | |- DR (fun t => if ?c then _ else _) _ (if ?c then _ else _) => apply DR_if_const
  | |- DR (fun t => if @oltb _ _ _ _ then _ else _) _ _ => apply DR_if_ltb
  | |- DR (fun t => if @oleb _ _ _ _ then _ else _) _ _ => apply DR_if_leb
  | |- DR _ _ _ => dr_leaf
  | |- DRv _ _ _ => first [dr_leaf | intros ?]
  end.
Ltac dr := repeat dr_step.
