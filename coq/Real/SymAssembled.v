(* SymAssembled.v — C04: the instantiation of the folding theorem with the concrete influence matrix of the model:
   a mirror-symmetric lattice at zero sideslip has a mirror-symmetric system, hence the mirror extension of the solution
   of the folded half system (what the symmetric code path assembles, sym_fold) solves the full-span system. *)
From Coq Require Import Reals ZArith Lra Lia Arith Bool.
From OAS Require Import Scalar Rops Sums Vec3 Aero AeroProofs Reflect SymProofs.
Open Scope R_scope.

Lemma ring4_ext A A' B B' C C' D D' P P' d :
  (forall k, (k < 3)%nat -> A k = A' k) -> (forall k, (k < 3)%nat -> B k = B' k) -> (forall k, (k < 3)%nat -> C k = C' k) ->
  (forall k, (k < 3)%nat -> D k = D' k) -> (forall k, (k < 3)%nat -> P k = P' k) -> ring4 A B C D P d = ring4 A' B' C' D' P' d.
Proof.
  intros HA HB HC HD HP. unfold ring4.
  assert (S : forall X X', (forall k, (k < 3)%nat -> X k = X' k) -> forall k, (k < 3)%nat -> vsub P X k = vsub P' X' k).
  { intros X X' HX k Hk. unfold vsub; rops. rewrite HX, HP by exact Hk. reflexivity. }
  rewrite (fv_ext (vsub P A) (vsub P' A') (vsub P B) (vsub P' B') d), (fv_ext (vsub P B) (vsub P' B') (vsub P C) (vsub P' C') d),
          (fv_ext (vsub P C) (vsub P' C') (vsub P D) (vsub P' D') d), (fv_ext (vsub P D) (vsub P' D') (vsub P A) (vsub P' A') d);
    try (apply S; assumption). reflexivity.
Qed.

Lemma wake2_ext u C C' D D' P P' d :
  (forall k, (k < 3)%nat -> C k = C' k) -> (forall k, (k < 3)%nat -> D k = D' k) -> (forall k, (k < 3)%nat -> P k = P' k) ->
  wake2 u C D P d = wake2 u C' D' P' d.
Proof.
  intros HC HD HP. unfold wake2.
  assert (S : forall X X', (forall k, (k < 3)%nat -> X k = X' k) -> forall k, (k < 3)%nat -> vsub P X k = vsub P' X' k).
  { intros X X' HX k Hk. unfold vsub; rops. rewrite HX, HP by exact Hk. reflexivity. }
  rewrite (fv_ext (vsub P D) (vsub P' D') (vsub P C) (vsub P' C') d), (semi_ext u (vsub P D) (vsub P' D') d), (semi_ext u (vsub P C) (vsub P' C') d);
    try (apply S; assumption). reflexivity.
Qed.

Section SymLattice.
  Variables (npx n2 : nat) (alpha : R).
  Variable vm : nat -> nat -> nat -> R.            (* vortex lattice, rows 0 .. npx, columns 0 .. 2 n2 *)
  Let sg (j : nat) : nat := (2 * n2 - 1 - j)%nat.
  Hypothesis vm_sym : forall i j k, (j <= 2 * n2)%nat -> (k < 3)%nat -> vm i (2 * n2 - j)%nat k = My (vm i j) k.

  (* the model's influence of panel (qi, qj) at an arbitrary point P: the full-span (not symmetric) code path *)
  Definition velP (P : nat -> R) (qi qj d : nat) : R :=
    vel_mtx npx (2 * n2) false false false alpha (get_vectors (fun _ => P) vm) 0 qi qj d.

  Lemma velP_rings P qi qj d :
    velP P qi qj d = ring4 (vm qi (S qj)) (vm qi qj) (vm (S qi) qj) (vm (S qi) (S qj)) P d
                     + (if (S qi =? npx)%nat then wake2 (wake_u alpha) (vm npx qj) (vm npx (S qj)) P d else 0).
  Proof.
    unfold velP, vel_mtx, vel_mtx_unflipped, block_contrib. cbn [andb].
    rewrite ring_raw_is_ring4. rops.
    destruct (S qi =? npx)%nat; [|ring].
    unfold t1_raw, t2_raw, t3_raw, wake2, vtx, get_vectors, vsub; rops.
    replace (npx + 0 * S npx)%nat with npx by lia.
    match goal with |- 0 + 1 * ?X + 1 * ?Y - 1 * ?Z + 1 * ?W = _ => transitivity (X + (Y - Z + W)); [ring | reflexivity] end.
  Qed.

  Lemma velP_mirror P qi qj d : (d < 3)%nat -> (qj < 2 * n2)%nat ->
    velP (My P) qi (sg qj) d = My (velP P qi qj) d.
  Proof.
    intros Hd Hq. rewrite (My_def (velP P qi qj)) by exact Hd. rewrite !velP_rings.
    assert (E1 : forall i k, (k < 3)%nat -> vm i (S (sg qj)) k = My (vm i qj) k).
    { intros i k Hk. replace (S (sg qj)) with (2 * n2 - qj)%nat by (unfold sg; lia). apply vm_sym; [lia | exact Hk]. }
    assert (E2 : forall i k, (k < 3)%nat -> vm i (sg qj) k = My (vm i (S qj)) k).
    { intros i k Hk. replace (sg qj) with (2 * n2 - S qj)%nat by (unfold sg; lia). apply vm_sym; [lia | exact Hk]. }
    rewrite (ring4_ext (vm qi (S (sg qj))) (My (vm qi qj)) (vm qi (sg qj)) (My (vm qi (S qj)))
                       (vm (S qi) (sg qj)) (My (vm (S qi) (S qj))) (vm (S qi) (S (sg qj))) (My (vm (S qi) qj)) (My P) (My P) d); auto.
    rewrite ring_mirror_symmetric by exact Hd.
    destruct (S qi =? npx)%nat.
    - rewrite (wake2_ext (wake_u alpha) (vm npx (sg qj)) (My (vm npx (S qj))) (vm npx (S (sg qj))) (My (vm npx qj)) (My P) (My P) d); auto.
      rewrite wake_mirror_symmetric by exact Hd.
      rewrite !My_def by exact Hd. destruct (d =? 1)%nat; ring.
    - rewrite !My_def by exact Hd. destruct (d =? 1)%nat; ring.
  Qed.

  Lemma velP_ext P P' qi qj d : (forall k, (k < 3)%nat -> P k = P' k) -> velP P qi qj d = velP P' qi qj d.
  Proof.
    intros HP. rewrite !velP_rings.
    rewrite (ring4_ext _ (vm qi (S qj)) _ (vm qi qj) _ (vm (S qi) qj) _ (vm (S qi) (S qj)) P P' d); auto.
    destruct (S qi =? npx)%nat; [|reflexivity].
    rewrite (wake2_ext (wake_u alpha) _ (vm npx qj) _ (vm npx (S qj)) P P' d); auto.
  Qed.

  (* evaluation points and unit normals of the panels, mirror symmetric like the lattice *)
  Variables (Pt Nn : nat -> nat -> nat -> R).
  Hypothesis Pt_sym : forall pi pj k, (pj < 2 * n2)%nat -> (k < 3)%nat -> Pt pi (sg pj) k = My (Pt pi pj) k.
  Hypothesis Nn_sym : forall pi pj k, (pj < 2 * n2)%nat -> (k < 3)%nat -> Nn pi (sg pj) k = My (Nn pi pj) k.
  (* onset flow without sideslip *)
  Variable fs : nat -> R.
  Hypothesis fs_in_plane : fs 1%nat = 0.

  Definition Aic (pi pj qi qj : nat) : R := rsum 3 (fun d => velP (Pt pi pj) qi qj d * Nn pi pj d).
  Definition rhs (pi pj : nat) : R := - rsum 3 (fun d => fs d * Nn pi pj d).

  Lemma Aic_sym pi pj qi qj : (pj < 2 * n2)%nat -> (qj < 2 * n2)%nat -> Aic pi (sg pj) qi (sg qj) = Aic pi pj qi qj.
  Proof.
    intros Hp Hq. unfold Aic. cbn [rsum].
    rewrite !(velP_ext (Pt pi (sg pj)) (My (Pt pi pj))) by (intros k Hk; apply Pt_sym; assumption).
    rewrite !velP_mirror by (try lia; exact Hq). rewrite !Nn_sym by (try lia; exact Hp).
    rewrite !My_def by lia. cbn [Nat.eqb]. rops. ring.
  Qed.

  Lemma rhs_sym pi pj : (pj < 2 * n2)%nat -> rhs pi (sg pj) = rhs pi pj.
  Proof.
    intros Hp. unfold rhs. cbn [rsum]. rewrite !Nn_sym by (try lia; exact Hp). rewrite !My_def by lia. cbn [Nat.eqb].
    rewrite fs_in_plane. rops. ring.
  Qed.

  (* the assembled statement *)
  Theorem half_model_solution_solves_full_model (Gh : nat -> nat -> R) :
    (forall pi pj, (pi < npx)%nat -> (pj < n2)%nat ->
        rsum npx (fun qi => rsum n2 (fun qj => (Aic pi pj qi qj + Aic pi pj qi (sg qj)) * Gh qi qj)) = rhs pi pj) ->
    forall pi pj, (pi < npx)%nat -> (pj < 2 * n2)%nat ->
      rsum npx (fun qi => rsum (2 * n2) (fun qj => Aic pi pj qi qj * Gfull n2 Gh qi qj)) = rhs pi pj.
  Proof.
    intros Hh pi pj Hpi Hpj.
    apply (half_solution_extends npx n2 Aic rhs); try assumption.
    - intros; apply Aic_sym; assumption.
    - intros; apply rhs_sym; assumption.
  Qed.
End SymLattice.

(* ---------- the hypotheses hold for the lattice, collocation points and normals of any mirror-symmetric mesh ---------- *)
Section SymMesh.
  Variables (npx n2 : nat) (m : nat -> nat -> nat -> R).
  Hypothesis m_sym : forall i j k, (j <= 2 * n2)%nat -> (k < 3)%nat -> m i (2 * n2 - j)%nat k = My (m i j) k.

  Lemma My_lin2 (p q : nat -> R) a b k : (k < 3)%nat -> a * My p k + b * My q k = My (fun d => a * p d + b * q d) k.
  Proof. intros Hk. rewrite !My_def by exact Hk. destruct (k =? 1)%nat; ring. Qed.

  Lemma qc_rows_sym i j k : (j <= 2 * n2)%nat -> (k < 3)%nat ->
    qc_rows npx m i (2 * n2 - j)%nat k = My (qc_rows npx m i j) k.
  Proof.
    intros Hj Hk. rewrite My_def by exact Hk. unfold qc_rows, c075, c025, ofrac; rops.
    destruct (i <? npx)%nat; rewrite !m_sym by assumption; rewrite !My_def by exact Hk; destruct (k =? 1)%nat; ring.
  Qed.

  Lemma coll_pts_sym pi pj k : (pj < 2 * n2)%nat -> (k < 3)%nat ->
    coll_pts m pi (2 * n2 - 1 - pj)%nat k = My (coll_pts m pi pj) k.
  Proof.
    intros Hj Hk. rewrite My_def by exact Hk. unfold coll_pts, c075, c025, ohalf, ofrac; rops.
    replace (S (2 * n2 - 1 - pj)) with (2 * n2 - pj)%nat by lia.
    replace (2 * n2 - 1 - pj)%nat with (2 * n2 - S pj)%nat by lia.
    rewrite !m_sym by (try lia; exact Hk). rewrite !My_def by exact Hk. destruct (k =? 1)%nat; ring.
  Qed.

  Lemma normals_sym pi pj k : (pj < 2 * n2)%nat -> (k < 3)%nat ->
    g_normals m pi (2 * n2 - 1 - pj)%nat k = My (g_normals m pi pj) k.
  Proof.
    intros Hj Hk.
    assert (Hc : forall d, (d < 3)%nat -> g_ncross m pi (2 * n2 - 1 - pj)%nat d = My (g_ncross m pi pj) d).
    { intros d Hd. apply ncross_mirror; [exact Hd| | | |]; intros k' Hk'.
      - replace (S (2 * n2 - 1 - pj)) with (2 * n2 - pj)%nat by lia. apply m_sym; [lia | exact Hk'].
      - replace (2 * n2 - 1 - pj)%nat with (2 * n2 - S pj)%nat by lia. apply m_sym; [lia | exact Hk'].
      - replace (S (2 * n2 - 1 - pj)) with (2 * n2 - pj)%nat by lia. apply m_sym; [lia | exact Hk'].
      - replace (2 * n2 - 1 - pj)%nat with (2 * n2 - S pj)%nat by lia. apply m_sym; [lia | exact Hk']. }
    rewrite (My_def (g_normals m pi pj)) by exact Hk. unfold g_normals, g_nnorm, osq; rops.
    rewrite !Hc by lia. rewrite !My_def by lia. cbn [Nat.eqb].
    replace (- g_ncross m pi pj 1 * - g_ncross m pi pj 1) with (g_ncross m pi pj 1 * g_ncross m pi pj 1) by ring.
    destruct (k =? 1)%nat; unfold Rdiv; ring.
  Qed.
End SymMesh.

(* the statement on the model's own stages: lattice = qc_rows of the mesh, points = coll_pts, normals = g_normals,
   onset flow = freestream at zero sideslip *)
Theorem symmetric_mesh_half_solution_solves_full npx n2 alpha v (m : nat -> nat -> nat -> R) (Gh : nat -> nat -> R) :
  (forall i j k, (j <= 2 * n2)%nat -> (k < 3)%nat -> m i (2 * n2 - j)%nat k = My (m i j) k) ->
  let A := Aic npx n2 alpha (qc_rows npx m) (coll_pts m) (g_normals m) in
  let b := rhs (g_normals m) (freestream alpha 0 v) in
  let sg := fun j => (2 * n2 - 1 - j)%nat in
  (forall pi pj, (pi < npx)%nat -> (pj < n2)%nat ->
      rsum npx (fun qi => rsum n2 (fun qj => (A pi pj qi qj + A pi pj qi (sg qj)) * Gh qi qj)) = b pi pj) ->
  forall pi pj, (pi < npx)%nat -> (pj < 2 * n2)%nat ->
    rsum npx (fun qi => rsum (2 * n2) (fun qj => A pi pj qi qj * Gfull n2 Gh qi qj)) = b pi pj.
Proof.
  intros Hm A b sg Hh pi pj Hpi Hpj.
  apply (half_model_solution_solves_full_model npx n2 alpha (qc_rows npx m)); try assumption.
  - intros i j k Hj Hk. apply qc_rows_sym; assumption.
  - intros pi' pj' k Hj Hk. apply coll_pts_sym; assumption.
  - intros pi' pj' k Hj Hk. apply normals_sym; assumption.
  - unfold freestream, mk3; rops. replace (0 * PI / 180) with 0 by (unfold Rdiv; ring). rewrite sin_0. ring.
Qed.

(* the folded matrix IS the symmetric code path's matrix (sym_fold): same lattice, symmetry flag on, half the panels *)
Lemma sym_path_is_folded npx n2 alpha (vm : nat -> nat -> nat -> R) (P : nat -> R) qi qj d :
  vel_mtx npx n2 true false false alpha (get_vectors (fun _ => P) vm) 0 qi qj d
  = velP npx n2 alpha vm P qi qj d + velP npx n2 alpha vm P qi (2 * n2 - 1 - qj)%nat d.
Proof.
  rewrite sym_fold. unfold velP, mirror_j. f_equal.
Qed.

(* end to end on the model's stages: the half model (symmetric code path on the ghost lattice of a half mesh whose root
   column lies on the plane y = 0) and the full-span model of the mirrored mesh have the same solution *)
Theorem half_model_is_full_model npx n2 alpha v (mh : nat -> nat -> nat -> R) (Gh : nat -> nat -> R) :
  (forall i, mh i n2 1%nat = 0) ->
  let m := ghost_mesh n2 true mh in
  let vm := qc_rows npx m in
  let Asym := fun pi pj qi qj =>
      rsum 3 (fun d => vel_mtx npx n2 true false false alpha (get_vectors (fun _ => coll_pts m pi pj) vm) 0 qi qj d * g_normals m pi pj d) in
  let A := Aic npx n2 alpha vm (coll_pts m) (g_normals m) in
  let b := rhs (g_normals m) (freestream alpha 0 v) in
  (forall pi pj, (pi < npx)%nat -> (pj < n2)%nat ->
      rsum npx (fun qi => rsum n2 (fun qj => Asym pi pj qi qj * Gh qi qj)) = b pi pj) ->
  forall pi pj, (pi < npx)%nat -> (pj < 2 * n2)%nat ->
    rsum npx (fun qi => rsum (2 * n2) (fun qj => A pi pj qi qj * Gfull n2 Gh qi qj)) = b pi pj.
Proof.
  intros Hroot m vm Asym A b Hh pi pj Hpi Hpj.
  apply (symmetric_mesh_half_solution_solves_full npx n2 alpha v m Gh); try assumption.
  - intros i j k Hj Hk. apply ghost_left_mirror; [exact Hk | exact Hj | apply Hroot].
  - intros pi' pj' Hpi' Hpj'. etransitivity; [|apply (Hh pi' pj' Hpi' Hpj')].
    apply rsum_ext; intros qi Hqi. apply rsum_ext; intros qj Hqj. f_equal.
    unfold Asym, Aic. cbn [rsum]. rewrite !sym_path_is_folded. fold vm. rops. ring.
Qed.
