(* MultiSecDeriv.v — C01 for GeomMultiUnification and GeomMultiJoin (constant index-selection Jacobians in the code). *)
From Coq Require Import Reals ZArith Lra Lia Arith Bool List.
From Coquelicot Require Import Coquelicot.
From OAS Require Import Scalar Rops Sums Deriv Dual DualProofs MultiSec.
Import ListNotations.
Open Scope R_scope.

(* a list of sections whose meshes are differentiable curves, with their duals *)
Definition DRsecs (S : list (nat * (R -> nat -> nat -> nat -> R))) t0 (s : list (nat * (nat -> nat -> nat -> dual R))) : Prop :=
  Forall2 (fun a b => fst a = fst b /\ DR3 (snd a) t0 (snd b)) S s.
Definition at_secs (t : R) (S : list (nat * (R -> nat -> nat -> nat -> R))) : list (nat * (nat -> nat -> nat -> R)) :=
  map (fun a => (fst a, snd a t)) S.

Definition step_mesh {T} {K : Ops T} (shift : bool) (acc last m : nat -> nat -> nat -> T) (w nyl : nat) : nat -> nat -> nat -> T :=
  fun i j d => if Nat.ltb j w then (if shift then (acc i j d -! last 0%nat (Nat.sub nyl 1) d) +! m 0%nat 0%nat d else acc i j d) else m i (Nat.sub j w) d.
Lemma unify_go_step {T} {K : Ops T} shift (acc : nat -> nat -> nat -> T) w last nyl ny m r :
  unify_go shift acc w last nyl ((ny, m) :: r) = unify_go shift (step_mesh shift acc last m w nyl) (Nat.add w (match r with [] => ny | _ => Nat.sub ny 1 end)) m ny r.
Proof. reflexivity. Qed.
Lemma step_mesh_DR shift Acc Last M t0 acc last m w nyl : DR3 Acc t0 acc -> DR3 Last t0 last -> DR3 M t0 m ->
  DR3 (fun t => step_mesh shift (Acc t) (Last t) (M t) w nyl) t0 (step_mesh shift acc last m w nyl).
Proof. intros HA HL HM i j d. unfold step_mesh. destruct (Nat.ltb j w); [destruct shift|]; dr. Qed.

Lemma unify_go_DR shift : forall S s t0 Acc acc w Last last nyl,
  DRsecs S t0 s -> DR3 Acc t0 acc -> DR3 Last t0 last ->
  (forall i j d, DR (fun t => fst (unify_go shift (Acc t) w (Last t) nyl (at_secs t S)) i j d) t0 (fst (unify_go shift acc w last nyl s) i j d)).
Proof.
  induction S as [|[ny M] S IH]; intros s t0 Acc acc w Last last nyl HS HA HL.
  - inversion HS; subst. cbn [at_secs map unify_go fst snd]. exact HA.
  - inversion HS as [|a b S' s' Hab HS']; subst. destruct Hab as [Hny HM]. destruct b as [ny' m]. cbn [fst snd] in *. subst ny'.
    intros i j d.
    assert (Hlen : forall t, match at_secs t S with [] => ny | _ => Nat.sub ny 1 end = match s' with [] => ny | _ => Nat.sub ny 1 end).
    { intros t. inversion HS'; subst; reflexivity. }
    apply (DR_ext (fun t => fst (unify_go shift (step_mesh shift (Acc t) (Last t) (M t) w nyl) (Nat.add w (match s' with [] => ny | _ => Nat.sub ny 1 end)) (M t) ny (at_secs t S)) i j d)).
    + intros t. rewrite <- (Hlen t). reflexivity.
    + change (fst (unify_go shift acc w last nyl ((ny, m) :: s')) i j d) with (fst (unify_go shift (step_mesh shift acc last m w nyl) (Nat.add w (match s' with [] => ny | _ => Nat.sub ny 1 end)) m ny s') i j d).
      apply IH; [exact HS' | apply step_mesh_DR; assumption | exact HM].
Qed.
Theorem unify_DR shift S s t0 i j d : DRsecs S t0 s ->
  DR (fun t => fst (unify shift (at_secs t S)) i j d) t0 (fst (unify shift s) i j d).
Proof.
  intros HS. destruct S as [|[ny M] S]; inversion HS as [|a b S' s' Hab HS']; subst.
  - cbn. apply DR_o0.
  - destruct Hab as [Hny HM]. destruct b as [ny' m]. cbn [fst snd] in *. subst ny'. cbn [at_secs map unify].
    apply (unify_go_DR shift S s' t0 M m (Nat.sub ny 1) M m ny HS' HM HM).
Qed.
Lemma join_sep_DR npx nye Me Mn t0 me mn r d : DR3 Me t0 me -> DR3 Mn t0 mn ->
  DR (fun t => join_sep npx nye (Me t) (Mn t) r d) t0 (join_sep npx nye me mn r d).
Proof. intros. unfold join_sep. dr. Qed.
