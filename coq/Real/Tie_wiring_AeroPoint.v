(* Tie_wiring_AeroPoint.v - GENERATED once by harness/gen_ties.py: the data-flow graphs of the canonical "AeroPoint" models regenerated from the live
   groups are the reviewed ones (finite comparison of lists of strings, by computation). *)
From Coq Require Import String List Bool.
From OAS Require Import TieBase Wiring WiringReviewed.
Import ListNotations.
Open Scope string_scope.
Definition wiring_family_AeroPoint (w : list (string * list (string * string))) := filter (fun p => prefix "AeroPoint" (fst p)) w.
Lemma wiring_AeroPoint_reviewed : wiring_family_AeroPoint gen_wiring = wiring_family_AeroPoint reviewed_wiring.
Proof. apply wiring_eqb_sound. vm_compute. reflexivity. Qed.
Lemma wiring_AeroPoint_nonempty : wiring_family_AeroPoint reviewed_wiring <> [].
Proof. discriminate. Qed.
