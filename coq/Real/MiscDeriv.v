(* MiscDeriv.v — C01 for RadiusComp, MonotonicConstraint, Energy, LiftCoeff2D. *)
From Coq Require Import Reals ZArith Lra Lia Arith Bool.
From Coquelicot Require Import Coquelicot.
From OAS Require Import Scalar Rops Sums Deriv Dual DualProofs Misc.
Open Scope R_scope.

Definition chord_pos npx (m : nat -> nat -> nat -> R) j : Prop :=
  0 < osq (m npx j 0%nat - m 0%nat j 0%nat) + osq (m npx j 1%nat - m 0%nat j 1%nat) + osq (m npx j 2%nat - m 0%nat j 2%nat).
Lemma rc_chord_DR npx M t0 m j : DR3 M t0 m -> chord_pos npx (M t0) j -> DR (fun t => rc_chord npx (M t) j) t0 (rc_chord npx m j).
Proof. intros H Hp. unfold rc_chord. apply DR_sqrt; [dr | exact Hp]. Qed.
Lemma radius_comp_DR npx M Tc t0 m tc j : DR3 M t0 m -> DR1 Tc t0 tc -> chord_pos npx (M t0) j -> chord_pos npx (M t0) (S j) ->
  DR (fun t => radius_comp npx (M t) (Tc t) j) t0 (radius_comp npx m tc j).
Proof. intros H1 H2 Hp Hq. unfold radius_comp. dr; apply rc_chord_DR; assumption. Qed.
Lemma monotonic_DR npy sym X t0 x j : DR1 X t0 x -> DR (fun t => monotonic npy sym (X t) j) t0 (monotonic npy sym x j).
Proof. intros H. unfold monotonic. cbv zeta. destruct sym; [| destruct (j <? npy / 2)%nat]; dr. Qed.
Lemma energy_DR ny Dp Ld t0 dp ld : DR2 Dp t0 dp -> DR2 Ld t0 ld -> DR (fun t => energy ny (Dp t) (Ld t)) t0 (energy ny dp ld).
Proof. intros. unfold energy. dr. Qed.
Lemma lift_coeff_2d_DR npx A Rho V F W C t0 a rho v f w c j :
  DR A t0 a -> DR Rho t0 rho -> DR V t0 v -> DR3 F t0 f -> DR1 W t0 w -> DR1 C t0 c ->
  W t0 j <> 0 -> ohalf * Rho t0 * (V t0 * V t0) * (ohalf * (C t0 (S j) + C t0 j)) <> 0 ->
  DR (fun t => lift_coeff_2d npx (A t) (Rho t) (V t) (F t) (W t) (C t) j) t0 (lift_coeff_2d npx a rho v f w c j).
Proof. intros H1 H2 H3 H4 H5 H6 Hw Hq. unfold lift_coeff_2d. cbv zeta. dr; cbv beta; try assumption; rops; lra. Qed.
