(* SymProofs.v — half-span symmetric model versus full-span model (C04). *)
From Coq Require Import Reals ZArith Lra Lia Arith Bool.
From OAS Require Import Scalar Rops Sums Stress Vec3 Aero VLM AeroProofs Reflect.
Open Scope R_scope.

(* mirror about the x-z plane *)
Definition e_y : nat -> R := mk3 0 1 0.
Definition My (v : nat -> R) : nat -> R := refl e_y v.
Lemma e_y_unit : dot e_y e_y = 1.
Proof. unfold e_y, dot, mk3; rops. ring. Qed.
Lemma My_def v d : (d < 3)%nat -> My v d = if (d =? 1)%nat then - v d else v d.
Proof. intros Hd. unfold My, refl, e_y, dot, mk3; rops. destruct d as [|[|[|d]]]; try lia; cbn [Nat.eqb]; ring. Qed.
Lemma wake_in_mirror_plane a : dot (@wake_u R Rops a) e_y = 0.
Proof. unfold wake_u, e_y, dot, mk3; rops. ring. Qed.

(* ---- 1. the symmetric code path folds the mirrored panel onto the real one (all rows) ---- *)
Lemma sym_fold npx npy g alpha vec e i j d :
  vel_mtx npx npy true g false alpha vec e i j d
  = vel_mtx npx npy false g false alpha vec e i j d
  + vel_mtx npx npy false g false alpha vec e i (mirror_j npy j) d.
Proof.
  unfold vel_mtx, vel_mtx_unflipped, block_contrib. cbn [andb]. rops.
  destruct (S i =? npx)%nat, g; ring.
Qed.

(* ---- 2. the ghost lattice is the mirror-symmetric full-span lattice ---- *)
(* left half, root column (index npy) on the plane y = 0 *)
Lemma ghost_left_mirror npy (m : nat -> nat -> nat -> R) i j d : (d < 3)%nat -> (j <= 2 * npy)%nat ->
  m i npy 1%nat = 0 ->
  ghost_mesh npy true m i (2 * npy - j) d = My (ghost_mesh npy true m i j) d.
Proof.
  intros Hd Hj Hroot. rewrite My_def by exact Hd. unfold ghost_mesh, flipy. rops.
  destruct (Nat.leb_spec j npy) as [H1|H1]; destruct (Nat.leb_spec (2 * npy - j) npy) as [H2|H2].
  - assert (j = npy) by lia. subst j. replace (2 * npy - npy)%nat with npy by lia.
    destruct (d =? 1)%nat eqn:E; [apply Nat.eqb_eq in E; subst d; rewrite Hroot; ring | reflexivity].
  - replace (2 * npy - (2 * npy - j))%nat with j by lia. destruct (d =? 1)%nat; ring.
  - destruct (d =? 1)%nat; ring.
  - lia.
Qed.
(* the hypothesis is necessary: off the plane the root column is not mirrored at all (no ghost of it exists) *)
Lemma ghost_root_not_mirrored npy (m : nat -> nat -> nat -> R) i :
  ghost_mesh npy true m i npy 1%nat = m i npy 1%nat /\
  forall j, (j <= 2 * npy)%nat -> j <> npy ->
    ghost_mesh npy true m i j 1%nat <> - m i npy 1%nat \/ m i npy 1%nat = 0 \/ exists j', (j' < npy)%nat /\ Rabs (m i j' 1%nat) = Rabs (m i npy 1%nat).
Proof.
  split; [unfold ghost_mesh; rewrite Nat.leb_refl; reflexivity|].
  intros j Hj Hne.
  destruct (Req_dec (m i npy 1%nat) 0) as [E|E]; [right; left; exact E|].
  destruct (Req_dec (ghost_mesh npy true m i j 1%nat) (- m i npy 1%nat)) as [E2|E2]; [|left; exact E2].
  right; right. unfold ghost_mesh, flipy in E2. rops.
  destruct (Nat.leb_spec j npy).
  - exists j. split; [lia|]. rewrite E2, Rabs_Ropp. reflexivity.
  - cbn [Nat.eqb] in E2. exists (2 * npy - j)%nat. split; [lia|].
    assert (m i (2 * npy - j)%nat 1%nat = m i npy 1%nat) by lra. rewrite H0. reflexivity.
Qed.

(* ---- 3. rings of the model are ring4 / wake2 of the lattice points ---- *)
Lemma ring_raw_is_ring4 npx (pts : nat -> nat -> R) (vm : nat -> nat -> nat -> R) e i j d :
  ring_raw npx (get_vectors pts vm) 0 e i j d
  = ring4 (vm i (S j)) (vm i j) (vm (S i) j) (vm (S i) (S j)) (pts e) d.
Proof.
  unfold ring_raw, ring4, vtx, get_vectors. rops.
  replace (i + 0 * S npx)%nat with i by lia. replace (S i + 0 * S npx)%nat with (S i) by lia. reflexivity.
Qed.

(* mirrored ring at the mirrored point: the influence field of a mirror-symmetric lattice is mirror symmetric *)
Lemma ring_mirror_symmetric (A B C D P : nat -> R) d : (d < 3)%nat ->
  ring4 (My B) (My A) (My D) (My C) (My P) d = My (ring4 A B C D P) d.
Proof. intros Hd. apply ring4_mirror; [exact Hd | exact e_y_unit]. Qed.
Lemma wake_mirror_symmetric a (C D P : nat -> R) d : (d < 3)%nat ->
  wake2 (wake_u a) (My D) (My C) (My P) d = My (wake2 (wake_u a) C D P) d.
Proof. intros Hd. apply wake2_mirror; [exact Hd | exact e_y_unit | apply wake_in_mirror_plane]. Qed.

(* normals of mirrored panels (reversed spanwise order) are mirrored *)
Lemma ncross_mirror (m m' : nat -> nat -> nat -> R) i j j' d : (d < 3)%nat ->
  (forall k, (k < 3)%nat -> m' i (S j') k = My (m i j) k) -> (forall k, (k < 3)%nat -> m' i j' k = My (m i (S j)) k) ->
  (forall k, (k < 3)%nat -> m' (S i) (S j') k = My (m (S i) j) k) -> (forall k, (k < 3)%nat -> m' (S i) j' k = My (m (S i) (S j)) k) ->
  g_ncross m' i j' d = My (g_ncross m i j) d.
Proof.
  intros Hd H1 H2 H3 H4. rewrite My_def by exact Hd.
  unfold g_ncross, cross, mk3. rops.
  rewrite !H1, !H2, !H3, !H4 by lia. rewrite !My_def by lia.
  destruct d as [|[|[|d]]]; try lia; cbn [Nat.eqb]; ring.
Qed.

(* ---- 4. abstract statement: a mirror-symmetric linear system folds onto its half ---- *)
(* unknowns indexed by (i, jf) with i < n1, jf < 2 * n2; sigma (i, jf) = (i, 2 n2 - 1 - jf) *)
Section Fold.
  Variables (n1 n2 : nat).
  Variable A : nat -> nat -> nat -> nat -> R.        (* A p_i p_j q_i q_j *)
  Variable b : nat -> nat -> R.
  Let sg (j : nat) : nat := (2 * n2 - 1 - j)%nat.
  Hypothesis Asym : forall pi pj qi qj, (pj < 2 * n2)%nat -> (qj < 2 * n2)%nat ->
      A pi (sg pj) qi (sg qj) = A pi pj qi qj.
  Hypothesis bsym : forall pi pj, (pj < 2 * n2)%nat -> b pi (sg pj) = b pi pj.
  Variable Gh : nat -> nat -> R.                     (* half solution, qj < n2 *)
  Hypothesis Hhalf : forall pi pj, (pi < n1)%nat -> (pj < n2)%nat ->
      rsum n1 (fun qi => rsum n2 (fun qj => (A pi pj qi qj + A pi pj qi (sg qj)) * Gh qi qj)) = b pi pj.

  Definition Gfull (qi qj : nat) : R := if (qj <? n2)%nat then Gh qi qj else Gh qi (sg qj).

  Lemma sg_invol j : (j < 2 * n2)%nat -> sg (sg j) = j.
  Proof. unfold sg. lia. Qed.

  Lemma full_row_sum pi pj : (pj < 2 * n2)%nat ->
    rsum n1 (fun qi => rsum (2 * n2) (fun qj => A pi pj qi qj * Gfull qi qj))
    = rsum n1 (fun qi => rsum n2 (fun qj => (A pi pj qi qj + A pi pj qi (sg qj)) * Gh qi qj)).
  Proof.
    intros Hp. apply rsum_ext; intros qi Hqi.
    replace (2 * n2)%nat with (n2 + n2)%nat by lia. rewrite rsum_split.
    rewrite (rsum_ext n2 (fun qj => A pi pj qi qj * Gfull qi qj) (fun qj => A pi pj qi qj * Gh qi qj)).
    2:{ intros qj Hq. unfold Gfull. apply Nat.ltb_lt in Hq. rewrite Hq. reflexivity. }
    rewrite (rsum_rev n2 (fun i => A pi pj qi (n2 + i) * Gfull qi (n2 + i))).
    rewrite <- rsum_plus. apply rsum_ext; intros qj Hq.
    unfold Gfull. replace (n2 + (n2 - 1 - qj) <? n2)%nat with false by (symmetry; apply Nat.ltb_ge; lia).
    replace (n2 + (n2 - 1 - qj))%nat with (sg qj) by (unfold sg; lia).
    rewrite sg_invol by lia. ring.
  Qed.

  (* the mirror extension of the half solution solves the full system *)
  Lemma half_solution_extends pi pj : (pi < n1)%nat -> (pj < 2 * n2)%nat ->
    rsum n1 (fun qi => rsum (2 * n2) (fun qj => A pi pj qi qj * Gfull qi qj)) = b pi pj.
  Proof.
    intros Hpi Hpj. destruct (Nat.ltb_spec pj n2) as [Hl|Hr].
    - rewrite full_row_sum by exact Hpj. apply Hhalf; assumption.
    - (* mirrored row: use the symmetry of A, b and of the extended solution *)
      assert (Hs : (sg pj < n2)%nat) by (unfold sg; lia).
      assert (GfS : forall qi qj, (qj < 2 * n2)%nat -> Gfull qi (sg qj) = Gfull qi qj).
      { intros qi qj Hq. unfold Gfull.
        destruct (Nat.ltb_spec qj n2); destruct (Nat.ltb_spec (sg qj) n2); try (unfold sg in *; lia);
          rewrite ?sg_invol by lia; reflexivity. }
      transitivity (rsum n1 (fun qi => rsum (2 * n2) (fun qj => A pi (sg pj) qi qj * Gfull qi qj))).
      + apply rsum_ext; intros qi Hqi.
        rewrite (rsum_rev (2 * n2) (fun qj => A pi (sg pj) qi qj * Gfull qi qj)).
        apply rsum_ext; intros qj Hq. fold (sg qj).
        rewrite Asym by (unfold sg; lia). rewrite GfS by lia. reflexivity.
      + rewrite full_row_sum by (unfold sg; lia). rewrite Hhalf by assumption. apply bsym; exact Hpj.
  Qed.
End Fold.

(* ---- 5. the explicit factors of two ---- *)
Lemma mirror_sum n (f : nat -> R) : (forall j, (j < 2 * n)%nat -> f (2 * n - 1 - j)%nat = f j) ->
  rsum (2 * n) f = 2 * rsum n f.
Proof.
  intros H. replace (2 * n)%nat with (n + n)%nat by lia. rewrite rsum_split.
  rewrite (rsum_rev n (fun i => f (n + i)%nat)).
  rewrite (rsum_ext n (fun i => f (n + (n - 1 - i))%nat) f).
  - ring.
  - intros i Hi. replace (n + (n - 1 - i))%nat with (2 * n - 1 - i)%nat by lia. apply H. lia.
Qed.

From OAS Require Import Drag DragProofs.

(* wave drag: the area-weighted averages of a mirror-symmetric full wing equal those of its half,
   so the crest-critical Mach number is the same *)
Section WaveSym.
  Variables (np : nat) (CL M : R) (widths lsp chords toc : nat -> R).
  (* strip data of the full wing: 2 np strips, chords at 2 np + 1 stations *)
  Hypothesis Hw : forall j, (j < 2 * np)%nat -> widths (2 * np - 1 - j)%nat = widths j.
  Hypothesis Hl : forall j, (j < 2 * np)%nat -> lsp (2 * np - 1 - j)%nat = lsp j.
  Hypothesis Ht : forall j, (j < 2 * np)%nat -> toc (2 * np - 1 - j)%nat = toc j.
  Hypothesis Hc : forall j, (j <= 2 * np)%nat -> chords (2 * np - j)%nat = chords j.
  Hypothesis HA : rsum np (wd_area widths chords) <> 0.

  Lemma area_mirror j : (j < 2 * np)%nat -> wd_area widths chords (2 * np - 1 - j) = wd_area widths chords j.
  Proof.
    intros Hj. unfold wd_area, o2; rops. rewrite Hw by exact Hj.
    replace (S (2 * np - 1 - j)) with (2 * np - j)%nat by lia.
    rewrite (Hc j) by lia. replace (2 * np - 1 - j)%nat with (2 * np - S j)%nat by lia. rewrite (Hc (S j)) by lia. unfold Rdiv; ring.
  Qed.

  Lemma Mcrit_full_eq_half :
    wd_Mcrit (2 * np) CL widths lsp chords toc = wd_Mcrit np CL widths lsp chords toc.
  Proof.
    unfold wd_Mcrit, wd_avg_cos, wd_avg_toc, wd_sumA; rops.
    rewrite (mirror_sum np (wd_area widths chords)) by (intros; apply area_mirror; assumption).
    rewrite (mirror_sum np (fun j => wd_cos widths lsp j * wd_area widths chords j)).
    2:{ intros j Hj. rewrite area_mirror by exact Hj. unfold wd_cos; rops. rewrite Hw, Hl by exact Hj. reflexivity. }
    rewrite (mirror_sum np (fun j => toc j * wd_area widths chords j)).
    2:{ intros j Hj. rewrite area_mirror, Ht by exact Hj. reflexivity. }
    set (S1 := rsum np (wd_area widths chords)) in *.
    replace (2 * rsum np (fun j => wd_cos widths lsp j * wd_area widths chords j) / (2 * S1))
      with (rsum np (fun j => wd_cos widths lsp j * wd_area widths chords j) / S1) by (field; exact HA).
    replace (2 * rsum np (fun j => toc j * wd_area widths chords j) / (2 * S1))
      with (rsum np (fun j => toc j * wd_area widths chords j) / S1) by (field; exact HA).
    reflexivity.
  Qed.

  (* repaired member: the half model reports the full-span wave-drag coefficient *)
  Lemma CDw_half_eq_full :
    wave_CDw np true M CL widths lsp chords toc false true
    = wave_CDw (2 * np) false M CL widths lsp chords toc false true.
  Proof.
    unfold wave_CDw, wd_core. cbn [andb]. rewrite Mcrit_full_eq_half. reflexivity.
  Qed.

  (* the member that doubles the coefficient: twice the full-span value, hence different whenever
     the wing is above its crest-critical Mach number *)
  Lemma CDw_half_doubled :
    wave_CDw np true M CL widths lsp chords toc true true
    = 2 * wave_CDw (2 * np) false M CL widths lsp chords toc true true.
  Proof.
    unfold wave_CDw, wd_core, o2. cbn [andb]. rewrite Mcrit_full_eq_half. rops. ring.
  Qed.

  Lemma CDw_half_refuted : wd_Mcrit np CL widths lsp chords toc < M ->
    wave_CDw np true M CL widths lsp chords toc true true
    <> wave_CDw (2 * np) false M CL widths lsp chords toc true true.
  Proof.
    intros HM. rewrite CDw_half_doubled.
    assert (0 < wave_CDw (2 * np) false M CL widths lsp chords toc true true).
    { unfold wave_CDw. cbn [andb]. rewrite (CDw_above (2 * np)) by (rewrite Mcrit_full_eq_half; exact HM).
      rewrite Mcrit_full_eq_half. set (x := M - wd_Mcrit np CL widths lsp chords toc). assert (0 < x) by (unfold x; lra).
      assert (0 < x * x) by nra. nra. }
    lra.
  Qed.
End WaveSym.

(* ================= ground effect = method of images (C08) ================= *)
Lemma reflect_affine a h (p q : nat -> R) w1 w2 d : w1 + w2 = 1 ->
  reflect a h (fun k => w1 * p k + w2 * q k) d = w1 * reflect a h p d + w2 * reflect a h q d.
Proof.
  intros Hw. unfold reflect, dot, o2; rops.
  replace w2 with (1 - w1) by lra. ring.
Qed.

(* the image block of the vortex mesh is the reflection of the surface's own vortex lattice *)
Lemma image_lattice_is_reflection npx npy left a h (m : nat -> nat -> nat -> R) i j d : (i <= npx)%nat ->
  vortex_mesh npx npy true true left a h m (i + S npx) j d
  = reflect a h (vortex_mesh npx npy true true left a h m i j) d.
Proof.
  intros Hi. unfold vortex_mesh.
  replace (i + S npx <=? npx)%nat with false by (symmetry; apply Nat.leb_gt; lia).
  replace (i <=? npx)%nat with true by (symmetry; apply Nat.leb_le; exact Hi).
  replace (i + S npx - S npx)%nat with i by lia.
  unfold qc_rows. destruct (i <? npx)%nat.
  - unfold c075, c025, ofrac; rops.
    assert (Hw : 75 / 100 + 25 / 100 = 1) by field.
    rewrite <- (reflect_affine a h (ghost_mesh npy left m i j) (ghost_mesh npy left m (S i) j) (75 / 100) (25 / 100) d Hw).
    reflexivity.
  - reflexivity.
Qed.

(* the reflected lattice enters with strength -1 (AeroProofs.ground_image_strength), a ring and its image
   of opposite strength leave the plane impermeable (Reflect.image_pair_impermeable), the plane is parallel
   to the wake direction and lies at distance h from the origin along n = (sin a, 0, -cos a): *)
Lemma ground_plane_point a h : dot (fun k => h * @plane_n R Rops a k) (plane_n a) = h.
Proof.
  pose proof (ground_plane_normal_unit a) as H. unfold dot in *; rops.
  set (n := plane_n a) in *.
  replace (h * n 0%nat * n 0%nat + h * n 1%nat * n 1%nat + h * n 2%nat * n 2%nat)
    with (h * (n 0%nat * n 0%nat + n 1%nat * n 1%nat + n 2%nat * n 2%nat)) by ring.
  rewrite H. ring.
Qed.

Lemma ground_plane_below_origin a h : 0 < h -> - PI / 2 < a < PI / 2 -> h * @plane_n R Rops a 2%nat < 0.
Proof.
  intros Hh Ha. unfold plane_n, mk3; rops.
  assert (0 < cos a) by (apply cos_gt_0; lra). nra.
Qed.
