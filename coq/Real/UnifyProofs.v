(* UnifyProofs.v — C14: GeomMultiUnification without the leading-edge shift reproduces the stitched surface: every section
   appears, column for column, at the offset sum of (ny - 1) of the sections before it; all but the last lose their last
   column (which the next section's first column replaces). *)
From Coq Require Import Reals ZArith Lra Lia Arith Bool List.
From OAS Require Import Scalar Rops MultiSec.
Import ListNotations.
Open Scope R_scope.

Notation rmesh := (nat -> nat -> nat -> R).
Definition width_before (pre : list (nat * rmesh)) : nat := fold_right (fun s a => (fst s - 1 + a)%nat) 0%nat pre.

Lemma unify_go_keeps (secs : list (nat * rmesh)) : forall (acc : rmesh) w last nyl i j d, (j < w)%nat ->
  fst (unify_go false acc w last nyl secs) i j d = acc i j d.
Proof.
  induction secs as [|[ny m] r IH]; intros acc w last nyl i j d Hj; cbn [unify_go fst].
  - reflexivity.
  - rewrite IH by lia. replace (j <? w)%nat with true by (symmetry; apply Nat.ltb_lt; exact Hj). reflexivity.
Qed.

Lemma unify_go_places (pre : list (nat * rmesh)) : forall (acc : rmesh) w last nyl ny (m : rmesh) suf i k d,
  (k < match suf with [] => ny | _ => ny - 1 end)%nat ->
  fst (unify_go false acc w last nyl (pre ++ (ny, m) :: suf)) i (w + width_before pre + k)%nat d = m i k d.
Proof.
  induction pre as [|[ny0 m0] pre IH]; intros acc w last nyl ny m suf i k d Hk.
  - cbn [app width_before fold_right unify_go]. rewrite unify_go_keeps.
    + replace (w + 0 + k <? w)%nat with false by (symmetry; apply Nat.ltb_ge; lia). f_equal. lia.
    + destruct suf; lia.
  - cbn [app unify_go]. destruct (pre ++ (ny, m) :: suf) eqn:E; [destruct pre; discriminate|]. rewrite <- E.
    cbn [width_before fold_right fst]. fold (width_before pre).
    replace (w + (ny0 - 1 + width_before pre) + k)%nat with ((w + (ny0 - 1)) + width_before pre + k)%nat by lia.
    apply IH. exact Hk.
Qed.

(* the statement for the component: unify without shift *)
Theorem unify_reproduces_sections ny0 (m0 : rmesh) (pre : list (nat * rmesh)) ny (m : rmesh) suf :
  (1 <= ny0)%nat ->
  let U := fst (unify false ((ny0, m0) :: pre ++ (ny, m) :: suf)) in
  (forall i j d, (j < ny0 - 1)%nat -> U i j d = m0 i j d) /\
  (forall i k d, (k < match suf with [] => ny | _ => ny - 1 end)%nat ->
     U i (ny0 - 1 + width_before pre + k)%nat d = m i k d).
Proof.
  intros H0 U. unfold U, unify. split.
  - intros i j d Hj. apply unify_go_keeps. exact Hj.
  - intros i k d Hk. apply unify_go_places. exact Hk.
Qed.

(* with coincident shared edges nothing is lost: the dropped last column of a section is the first column of the next *)
Corollary unify_shared_edge ny0 (m0 : rmesh) (pre : list (nat * rmesh)) ny (m : rmesh) ny' (m' : rmesh) suf i d :
  (1 <= ny)%nat -> (2 <= ny')%nat ->
  m i (ny - 1)%nat d = m' i 0%nat d ->
  fst (unify false ((ny0, m0) :: pre ++ (ny, m) :: (ny', m') :: suf)) i (ny0 - 1 + width_before pre + (ny - 1))%nat d = m i (ny - 1)%nat d.
Proof.
  intros Hny Hny' He. rewrite He.
  replace (pre ++ (ny, m) :: (ny', m') :: suf) with ((pre ++ [(ny, m)]) ++ (ny', m') :: suf) by (rewrite <- app_assoc; reflexivity).
  pose proof (unify_go_places (pre ++ [(ny, m)]) m0 (ny0 - 1) m0 ny0 ny' m' suf i 0 d) as H.
  unfold unify.
  assert (W : width_before (pre ++ [(ny, m)]) = (width_before pre + (ny - 1))%nat).
  { clear. induction pre as [|s pre IH]; cbn [app width_before fold_right fst]; [lia|]. fold (width_before (pre ++ [(ny, m)])). fold (width_before pre). lia. }
  rewrite W in H. replace (ny0 - 1 + (width_before pre + (ny - 1)) + 0)%nat with (ny0 - 1 + width_before pre + (ny - 1))%nat in H by lia.
  apply H. destruct suf; lia.
Qed.
