(* DragDeriv.v — C01 for ViscousDrag, WaveDrag, TotalDrag: the dual-number evaluation of the model is its
   derivative along every differentiable input curve (hence every partial derivative). *)
From Coq Require Import Reals ZArith Lra Lia Arith Bool.
From Coquelicot Require Import Coquelicot.
From OAS Require Import Scalar Rops Sums Deriv Dual DualProofs Drag.
Open Scope R_scope.

Lemma mul_neq0 a b : a <> 0 -> b <> 0 -> a * b <> 0.
Proof. apply Rmult_integral_contrapositive_currified. Qed.
Lemma ln10_neq0 : ln 10 <> 0.
Proof. apply Rgt_not_eq. rewrite <- ln_1. apply ln_increasing; lra. Qed.
Lemma ln_pos x : 1 < x -> 0 < ln x.
Proof. intros H. rewrite <- ln_1. apply ln_increasing; lra. Qed.

Lemma olog10_DR X t0 x : DR X t0 x -> 0 < X t0 -> DR (fun t => olog10 (X t)) t0 (olog10 x).
Proof. intros H Hp. unfold olog10. dr; cbv beta; try assumption; rops; [lra | apply ln10_neq0]. Qed.
Lemma olog10_pos x : 1 < x -> 0 < olog10 x.
Proof. intros H. unfold olog10; rops. apply Rdiv_lt_0_compat; apply ln_pos; lra. Qed.

Lemma vd_B_DR M t0 m : DR M t0 m -> DR (fun t => vd_B (M t)) t0 (vd_B m).
Proof. intros H. unfold vd_B. dr; cbv beta. rops. unfold ofrac; rops. nra. Qed.
Lemma vd_B_pos M : 0 < vd_B M.
Proof. unfold vd_B; rops. unfold Rpower. apply exp_pos. Qed.

Lemma cd_turb_DR M X t0 m x : DR M t0 m -> DR X t0 x -> 1 < X t0 -> DR (fun t => cd_turb (M t) (X t)) t0 (cd_turb m x).
Proof.
  intros HM HX H1. unfold cd_turb, c455, c258. dr; cbv beta.
  - apply olog10_DR; [assumption | lra].
  - apply olog10_pos; assumption.
  - rops. unfold Rpower. apply Rgt_not_eq, exp_pos.
  - apply vd_B_DR; assumption.
  - apply Rgt_not_eq, vd_B_pos.
Qed.
Lemma cd_lam_DR X t0 x : DR X t0 x -> 0 < X t0 -> DR (fun t => cd_lam (X t)) t0 (cd_lam x).
Proof.
  intros HX H0. unfold cd_lam, c1328. dr; cbv beta; try assumption. rops. apply Rgt_not_eq, sqrt_lt_R0; assumption.
Qed.

(* the laminar fraction k is an option of the surface (a constant); the three branches of the code *)
Lemma vd_cd_DR k M X t0 m x :
  DR M t0 m -> DR X t0 x -> 0 <= k -> 1 < X t0 -> (0 < k -> 1 < X t0 * k) ->
  DR (fun t => vd_cd k (M t) (X t)) t0 (vd_cd (dinj k) m x).
Proof.
  intros HM HX Hk H1 H2. unfold vd_cd. cbn [oeqb oltb Dops dinj fst o0 o1 Rops].
  destruct (Reqb k 0) eqn:E0.
  - dr; try apply DR_const. apply cd_turb_DR; assumption.
  - apply Reqb_false in E0. assert (Hk' : 0 < k) by lra. specialize (H2 Hk').
    destruct (Rltb k 1) eqn:E1.
    + dr; try apply DR_const; first [apply cd_lam_DR | apply cd_turb_DR]; dr; try apply DR_const; cbv beta; rops; try assumption; lra.
    + dr; try apply DR_const. apply cd_lam_DR; dr; try apply DR_const. cbv beta; rops; lra.
Qed.

Lemma vd_kFF_DR cmax M C t0 m c : DR M t0 m -> DR C t0 c -> 0 < M t0 -> cmax <> 0 ->
  DR (fun t => vd_kFF cmax (M t) (C t)) t0 (vd_kFF (dinj cmax) m c).
Proof. intros HM HC H0 Hc. unfold vd_kFF. dr; cbv beta; assumption. Qed.
Lemma vd_FF_DR cmax M C W t0 m c w : DR M t0 m -> DR C t0 c -> DR W t0 w -> 0 < M t0 -> cmax <> 0 -> 0 < W t0 ->
  DR (fun t => vd_FF cmax (M t) (C t) (W t)) t0 (vd_FF (dinj cmax) m c w).
Proof. intros HM HC HW H0 Hc Hw. unfold vd_FF. dr; cbv beta; try assumption. apply vd_kFF_DR; assumption. Qed.

Section VD.
  Variables (np : nat) (sym : bool) (k cmax : R).
  Variables (re M S_ref : R -> R) (widths lsp lengths toc : R -> nat -> R) (t0 : R).
  Variables (re' M' S' : dual R) (widths' lsp' lengths' toc' : nat -> dual R).
  Hypotheses (Hre : DR re t0 re') (HM : DR M t0 M') (HS : DR S_ref t0 S')
             (Hw : forall j, DR (fun t => widths t j) t0 (widths' j)) (Hl : forall j, DR (fun t => lsp t j) t0 (lsp' j))
             (Hc : forall j, DR (fun t => lengths t j) t0 (lengths' j)) (Ht : forall j, DR (fun t => toc t j) t0 (toc' j)).
  (* admissible point: positive Mach, reference area, sweep cosine, chord Reynolds numbers above 1
     (also of the laminar run), laminar fraction k >= 0 *)
  Hypotheses (Ak : 0 <= k) (Acm : cmax <> 0) (AM : 0 < M t0) (AS : S_ref t0 <> 0)
             (Al : forall j, (j < np)%nat -> lsp t0 j <> 0) (Acos : forall j, (j < np)%nat -> 0 < widths t0 j / lsp t0 j)
             (ARe : forall j, (j < np)%nat -> 1 < re t0 * vd_chord (lengths t0) j)
             (AReK : forall j, (j < np)%nat -> 0 < k -> 1 < re t0 * vd_chord (lengths t0) j * k).

  Lemma viscous_CDv_DR wv :
    DR (fun t => viscous_CDv np sym k cmax (re t) (M t) (S_ref t) (widths t) (lsp t) (lengths t) (toc t) wv) t0
       (viscous_CDv np sym (dinj k) (dinj cmax) re' M' S' widths' lsp' lengths' toc' wv).
  Proof.
    unfold viscous_CDv. destruct wv; [| apply DR_o0]. cbv zeta.
    assert (HD : DR (fun t => vd_Doq np k cmax (re t) (M t) (widths t) (lsp t) (lengths t) (toc t)) t0
                    (vd_Doq np (dinj k) (dinj cmax) re' M' widths' lsp' lengths' toc')).
    { unfold vd_Doq. apply DR_sumn; intros j Hj. unfold vd_doq, vd_chord, vd_cos.
      dr; cbv beta.
      - apply vd_cd_DR; try assumption.
        + unfold vd_chord; dr. unfold o2; rops; lra.
        + apply (ARe j Hj).
        + intros Hk. apply (AReK j Hj Hk).
      - unfold o2; rops; lra.
      - apply vd_FF_DR; try assumption; [apply Ht | dr; cbv beta; apply (Al j Hj) | apply (Acos j Hj)]. }
    destruct sym; dr; cbv beta; assumption.
  Qed.
End VD.

(* ---------------- WaveDrag: smooth on both sides of the onset M = Mcrit (the documented kink) ---------------- *)
Section WD.
  Variables (np : nat) (sym sd : bool).
  Variables (M CL : R -> R) (widths lsp chords toc : R -> nat -> R) (t0 : R).
  Variables (M' CL' : dual R) (widths' lsp' chords' toc' : nat -> dual R).
  Hypotheses (HM : DR M t0 M') (HCL : DR CL t0 CL')
             (Hw : forall j, DR (fun t => widths t j) t0 (widths' j)) (Hl : forall j, DR (fun t => lsp t j) t0 (lsp' j))
             (Hc : forall j, DR (fun t => chords t j) t0 (chords' j)) (Ht : forall j, DR (fun t => toc t j) t0 (toc' j)).
  Hypotheses (Al : forall j, (j < np)%nat -> lsp t0 j <> 0) (AA : wd_sumA np (widths t0) (chords t0) <> 0)
             (Acos : wd_avg_cos np (widths t0) (lsp t0) (chords t0) <> 0)
             (Aonset : wd_Mcrit np (CL t0) (widths t0) (lsp t0) (chords t0) (toc t0) <> M t0).

  Lemma wd_area_DR j : DR (fun t => wd_area (widths t) (chords t) j) t0 (wd_area widths' chords' j).
  Proof. unfold wd_area. dr; cbv beta. unfold o2; rops; lra. Qed.
  Lemma wd_sumA_DR : DR (fun t => wd_sumA np (widths t) (chords t)) t0 (wd_sumA np widths' chords').
  Proof. unfold wd_sumA. apply DR_sumn; intros; apply wd_area_DR. Qed.
  Lemma wd_Mcrit_DR : DR (fun t => wd_Mcrit np (CL t) (widths t) (lsp t) (chords t) (toc t)) t0 (wd_Mcrit np CL' widths' lsp' chords' toc').
  Proof.
    assert (Hcos : DR (fun t => wd_avg_cos np (widths t) (lsp t) (chords t)) t0 (wd_avg_cos np widths' lsp' chords')).
    { unfold wd_avg_cos. apply DR_div; [| apply wd_sumA_DR | exact AA].
      apply DR_sumn; intros j Hj. unfold wd_cos. dr; cbv beta; [apply (Al j Hj) | apply wd_area_DR]. }
    assert (Htoc : DR (fun t => wd_avg_toc np (widths t) (chords t) (toc t)) t0 (wd_avg_toc np widths' chords' toc')).
    { unfold wd_avg_toc. apply DR_div; [| apply wd_sumA_DR | exact AA].
      apply DR_sumn; intros j Hj. dr. apply wd_area_DR. }
    unfold wd_Mcrit, wd_MDD_of, wd_crest, wd_ka. dr; cbv beta; try exact Acos.
    - exact (mul_neq0 _ _ Acos Acos).
    - refine (mul_neq0 10 _ _ (mul_neq0 _ _ (mul_neq0 _ _ Acos Acos) Acos)). lra.
    - rops; lra.
    - rops; lra.
    - rops. unfold ofrac; rops. lra.
  Qed.
  Lemma wave_CDw_DR ww :
    DR (fun t => wave_CDw np sym (M t) (CL t) (widths t) (lsp t) (chords t) (toc t) sd ww) t0
       (wave_CDw np sym M' CL' widths' lsp' chords' toc' sd ww).
  Proof.
    unfold wave_CDw. destruct ww; [| apply DR_o0].
    assert (Hcore : DR (fun t => wd_core np (M t) (CL t) (widths t) (lsp t) (chords t) (toc t)) t0 (wd_core np M' CL' widths' lsp' chords' toc')).
    { unfold wd_core. apply DR_if_ltb; try assumption; [apply wd_Mcrit_DR | | apply DR_o0].
      dr. apply wd_Mcrit_DR. }
    destruct (sym && sd)%bool; dr.
  Qed.
End WD.

Lemma total_drag_DR CDi CDv CDw CD0 t0 a b c d : DR CDi t0 a -> DR CDv t0 b -> DR CDw t0 c -> DR CD0 t0 d ->
  DR (fun t => total_drag (CDi t) (CDv t) (CDw t) (CD0 t)) t0 (total_drag a b c d).
Proof. intros; unfold total_drag; dr. Qed.
