(* KernelDecay.v — C08 / C19: the induction of a vortex segment vanishes with the distance of the evaluation point. *)
From Coq Require Import Reals ZArith Lra Lia Arith Bool.
From OAS Require Import Scalar Rops Sums Vec3 Aero.
Open Scope R_scope.

Lemma cross_comp_sq_le (a b : nat -> R) d : cross a b d * cross a b d <= dot a a * dot b b.
Proof.
  pose proof (cross_norm_sq a b) as E.
  assert (H : cross a b d * cross a b d <= dot (cross a b) (cross a b)).
  { unfold dot; rops. set (c0 := cross a b 0%nat). set (c1 := cross a b 1%nat). set (c2 := cross a b 2%nat).
    assert (D : cross a b d = c0 \/ cross a b d = c1 \/ cross a b d = c2).
    { destruct d as [|[|d]]; [left | right; left | right; right]; reflexivity. }
    pose proof (Rle_0_sqr c0). pose proof (Rle_0_sqr c1). pose proof (Rle_0_sqr c2). unfold Rsqr in *.
    destruct D as [-> | [-> | ->]]; lra. }
  assert (0 <= dot a b * dot a b) by nra. lra.
Qed.

Lemma cross_comp_abs_le (a b : nat -> R) d : Rabs (cross a b d) <= nrm a * nrm b.
Proof.
  pose proof (cross_comp_sq_le a b d) as H. rewrite <- (nrm_sq a), <- (nrm_sq b) in H.
  pose proof (nrm_nonneg a). pose proof (nrm_nonneg b).
  assert (P : 0 <= nrm a * nrm b) by (apply Rmult_le_pos; assumption).
  apply Rabs_le. split.
  - destruct (Rle_dec (- (nrm a * nrm b)) (cross a b d)) as [|N]; [assumption|]. exfalso. apply Rnot_le_lt in N. nra.
  - destruct (Rle_dec (cross a b d) (nrm a * nrm b)) as [|N]; [assumption|]. exfalso. apply Rnot_le_lt in N. nra.
Qed.

(* a finite vortex segment seen from a point at distance at least h from both of its ends, in the half space where the two
   end vectors make an acute angle (every point farther than the segment's length): each velocity component is at most
   1 / (2 pi h) per unit circulation *)
Theorem fv_decay (r1 r2 : nat -> R) d h :
  0 < h -> h <= nrm r1 -> h <= nrm r2 -> 0 <= dot r1 r2 -> Rabs (fv r1 r2 d) <= 1 / (2 * PI * h).
Proof.
  intros Hh H1 H2 Hd. unfold fv, vtol, ofrac; rops.
  set (n1 := nrm r1) in *. set (n2 := nrm r2) in *.
  assert (Hpi : 0 < PI) by apply PI_RGT_0.
  assert (Hb : 0 < 1 / (2 * PI * h)).
  { apply Rdiv_lt_0_compat; [lra | apply Rmult_lt_0_compat; lra]. }
  destruct (Rltb (1 / 10000000000) (Rabs (n1 * n2 + dot r1 r2))) eqn:E.
  2:{ rewrite Rabs_R0. lra. }
  assert (Hn1 : 0 < n1) by lra. assert (Hn2 : 0 < n2) by lra.
  assert (Hn : 0 < n1 * n2) by (apply Rmult_lt_0_compat; assumption).
  set (den := n1 * n2 + dot r1 r2). assert (Hden : n1 * n2 <= den) by (unfold den; lra).
  pose proof (cross_comp_abs_le r1 r2 d) as Hc. fold n1 n2 in Hc.
  set (c := cross r1 r2 d) in *.
  assert (Hs : 0 < 1 / n1 + 1 / n2).
  { assert (0 < 1 / n1) by (apply Rdiv_lt_0_compat; lra). assert (0 < 1 / n2) by (apply Rdiv_lt_0_compat; lra). lra. }
  assert (Hs2 : 1 / n1 + 1 / n2 <= 2 / h).
  { assert (1 / n1 <= 1 / h) by (unfold Rdiv; rewrite !Rmult_1_l; apply Rinv_le_contravar; lra).
    assert (1 / n2 <= 1 / h) by (unfold Rdiv; rewrite !Rmult_1_l; apply Rinv_le_contravar; lra). lra. }
  assert (Hq : 0 < den * 4 * PI) by (apply Rmult_lt_0_compat; [apply Rmult_lt_0_compat; lra | lra]).
  unfold Rdiv at 1. rewrite Rabs_mult, Rabs_mult, (Rabs_pos_eq (1 / n1 + 1 / n2)) by lra.
  rewrite (Rabs_pos_eq (/ (den * 4 * PI))) by (left; apply Rinv_0_lt_compat, Hq).
  (* (1/n1 + 1/n2) |c| / (den 4 pi) <= (2/h) (n1 n2) / (n1 n2 4 pi) *)
  apply Rle_trans with (2 / h * (n1 * n2) * / (n1 * n2 * 4 * PI)).
  - assert (A : (1 / n1 + 1 / n2) * Rabs c <= 2 / h * (n1 * n2)).
    { apply Rmult_le_compat; try lra. apply Rabs_pos. }
    assert (B : / (den * 4 * PI) <= / (n1 * n2 * 4 * PI)).
    { apply Rinv_le_contravar; [apply Rmult_lt_0_compat; [apply Rmult_lt_0_compat; lra | lra]|].
      apply Rmult_le_compat_r; [lra|]. apply Rmult_le_compat_r; lra. }
    apply Rmult_le_compat; try assumption.
    + apply Rmult_le_pos; [lra | apply Rabs_pos].
    + left. apply Rinv_0_lt_compat, Hq.
  - right. field. repeat split; lra.
Qed.

(* hence it vanishes: for every eps there is a distance beyond which every component is below eps *)
Corollary fv_vanishes_far_away eps : 0 < eps -> exists H, 0 < H /\
  forall r1 r2 d, H <= nrm r1 -> H <= nrm r2 -> 0 <= dot r1 r2 -> Rabs (fv r1 r2 d) < eps.
Proof.
  intros He. assert (Hpi : 0 < PI) by apply PI_RGT_0.
  exists (1 / (PI * eps)). assert (HH : 0 < 1 / (PI * eps)) by (apply Rdiv_lt_0_compat; [lra | apply Rmult_lt_0_compat; lra]).
  split; [exact HH|]. intros r1 r2 d H1 H2 Hd.
  apply Rle_lt_trans with (1 := fv_decay r1 r2 d _ HH H1 H2 Hd).
  replace (1 / (2 * PI * (1 / (PI * eps)))) with (eps / 2) by (field; split; lra). lra.
Qed.

(* a semi-infinite trailing leg along the unit direction u, seen from a point at perpendicular distance at least p from
   its line (p^2 <= |r|^2 - (u.r)^2): each component is at most 1 / (2 pi p) per unit circulation *)
Theorem semi_decay (u r : nat -> R) d p :
  dot u u = 1 -> 0 < p -> p * p <= dot r r - dot u r * dot u r -> Rabs (semi u r d) <= 1 / (2 * PI * p).
Proof.
  intros Hu Hp Hperp. unfold semi; rops.
  set (n := nrm r). set (s := dot u r) in *.
  assert (Hpi : 0 < PI) by apply PI_RGT_0.
  pose proof (nrm_sq r) as Hn2. fold n in Hn2. pose proof (nrm_nonneg r) as Hn0. fold n in Hn0.
  assert (Hpp : 0 < p * p) by (apply Rmult_lt_0_compat; assumption).
  assert (Hprod : p * p <= (n - s) * (n + s)) by (replace ((n - s) * (n + s)) with (n * n - s * s) by ring; rewrite Hn2; lra).
  assert (Hnpos : 0 < n). { destruct Hn0 as [H|H]; [exact H|]. exfalso. rewrite <- H in Hprod. nra. }
  assert (Hns : 0 < n - s).
  { destruct (Rlt_dec 0 (n - s)) as [|N]; [assumption|]. exfalso. apply Rnot_lt_le in N.
    assert (0 <= n + s) by nra. nra. }
  assert (Hnps : 0 < n + s) by nra.
  pose proof (cross_comp_sq_le u r d) as Hc. rewrite Hu, Rmult_1_l in Hc.
  pose proof (cross_norm_sq u r) as Hcn. rewrite Hu, Rmult_1_l in Hcn. fold s in Hcn.
  assert (Hc2 : cross u r d * cross u r d <= (n - s) * (n + s)).
  { assert (cross u r d * cross u r d <= dot (cross u r) (cross u r)).
    { unfold dot; rops. set (c0 := cross u r 0%nat). set (c1 := cross u r 1%nat). set (c2 := cross u r 2%nat).
      assert (D : cross u r d = c0 \/ cross u r d = c1 \/ cross u r d = c2).
      { destruct d as [|[|d']]; [left | right; left | right; right]; reflexivity. }
      pose proof (Rle_0_sqr c0). pose proof (Rle_0_sqr c1). pose proof (Rle_0_sqr c2). unfold Rsqr in *.
      destruct D as [-> | [-> | ->]]; lra. }
    replace ((n - s) * (n + s)) with (n * n - s * s) by ring. rewrite Hn2. lra. }
  set (c := cross u r d) in *.
  (* |c| p <= (n - s)(n + s) *)
  assert (Hcp : Rabs c * p <= (n - s) * (n + s)).
  { set (Q := (n - s) * (n + s)) in *. assert (0 < Q) by (unfold Q; apply Rmult_lt_0_compat; assumption).
    assert (Ha : Rabs c * Rabs c <= Q) by (rewrite <- Rabs_mult, Rabs_pos_eq; [exact Hc2 | nra]).
    pose proof (Rabs_pos c). destruct (Rle_dec (Rabs c * p) Q) as [|N]; [assumption|]. exfalso. apply Rnot_le_lt in N.
    assert (Q * Q < (Rabs c * p) * (Rabs c * p)) by nra.
    assert ((Rabs c * p) * (Rabs c * p) = (Rabs c * Rabs c) * (p * p)) by ring.
    assert ((Rabs c * Rabs c) * (p * p) <= Q * Q) by (apply Rmult_le_compat; nra). lra. }
  assert (Hn2s : n + s <= 2 * n) by lra.
  unfold Rdiv. rewrite !Rabs_mult.
  rewrite (Rabs_pos_eq (/ (n * (n - s)))) by (left; apply Rinv_0_lt_compat, Rmult_lt_0_compat; assumption).
  rewrite (Rabs_pos_eq (/ 4)) by lra. rewrite (Rabs_pos_eq (/ PI)) by (left; apply Rinv_0_lt_compat; lra).
  assert (Hmain : Rabs c * / (n * (n - s)) <= 2 * / p).
  { apply (Rmult_le_reg_r (n * (n - s) * p)); [apply Rmult_lt_0_compat; [apply Rmult_lt_0_compat|]; assumption|].
    replace (Rabs c * / (n * (n - s)) * (n * (n - s) * p)) with (Rabs c * p) by (field; split; lra).
    replace (2 * / p * (n * (n - s) * p)) with ((n - s) * (2 * n)) by (field; lra).
    apply Rle_trans with (1 := Hcp). apply Rmult_le_compat_l; lra. }
  replace (1 * / (2 * PI * p)) with (2 * / p * / 4 * / PI) by (field; split; lra).
  apply Rmult_le_compat_r; [left; apply Rinv_0_lt_compat; lra|]. apply Rmult_le_compat_r; [lra | exact Hmain].
Qed.
