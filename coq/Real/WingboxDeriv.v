(* WingboxDeriv.v — C01 for SectionPropertiesWingbox and WingboxGeometry (cs / fd-declared partials): the dual-number
   evaluation of the model is the value and the true derivative along any differentiable curve of the inputs, at every
   admissible point; the admissibility conditions are exactly the ones the proofs need (non-degenerate skin segments,
   non-zero thicknesses and areas, a section that is not exactly untwisted for the arccosine of WingboxGeometry). *)
From Coq Require Import Reals ZArith Lra Lia Arith Bool.
From Coquelicot Require Import Coquelicot.
From OAS Require Import Scalar Rops Sums Deriv Dual DualProofs Wingbox.
Open Scope R_scope.

(* ---------- the KS-smoothed maximum: the shift is immaterial, so no uniqueness of the maximum is needed ---------- *)
Lemma lse_shift n (x : nat -> R) rho c : rho <> 0 ->
  c + 1 / rho * ln (rsum (S n) (fun i => exp (rho * (x i - c)))) = 1 / rho * ln (rsum (S n) (fun i => exp (rho * x i))).
Proof.
  intros Hr.
  assert (P : 0 < rsum (S n) (fun i => exp (rho * (x i - c)))) by (apply rsum_pos; [lia | intros; apply exp_pos]).
  assert (E : rsum (S n) (fun i => exp (rho * x i)) = exp (rho * c) * rsum (S n) (fun i => exp (rho * (x i - c)))).
  { rewrite <- rsum_scal. apply rsum_ext; intros i Hi. rewrite <- exp_plus. f_equal. ring. }
  rewrite E, ln_mult; [| apply exp_pos | exact P]. rewrite ln_exp. field. exact Hr.
Qed.

Lemma ks_shift_R n f m : @ks_shift R Rops n f m = 1 / 500 * ln (rsum (S n) (fun i => exp (500 * f i))).
Proof. unfold ks_shift, ks_rho; rops. apply lse_shift. lra. Qed.

(* value: the code's max-shifted form is the plain log-sum-exp, whatever the maximum is *)
Lemma ks_max_R n f : @ks_max R Rops n f = 1 / 500 * ln (rsum (S n) (fun i => exp (500 * f i))).
Proof. unfold ks_max. apply ks_shift_R. Qed.

Lemma ks_max_DR n (F : R -> nat -> R) t0 (f : nat -> dual R) :
  DR1 F t0 f -> DR (fun t => @ks_max R Rops n (F t)) t0 (@ks_max _ DOPS n f).
Proof.
  intros HF. unfold ks_max.
  set (m := @maxn _ DOPS n f).
  pose (Mc := fun t : R => fst m + snd m * (t - t0)).
  assert (HM : DR Mc t0 m).
  { split; unfold Mc; [ring|]. auto_derive; [exact I | ring]. }
  apply (DR_ext (fun t => @ks_shift R Rops n (F t) (Mc t))).
  { intros t. rewrite !ks_shift_R. reflexivity. }
  unfold ks_shift, ks_rho. dr; cbv beta; rops; try lra.
  apply rsum_pos; [lia | intros; apply exp_pos].
Qed.

Ltac wb_unfold :=
  unfold st_A_enc, st_A_int, st_p_by_t, st_J, st_A, st_centroid, st_Iz, st_Qz, st_Iy, st_cIv, st_htop, st_hbottom,
         st_hfront, st_hrear, IH_up, IH_low1, IH_low2, IH_spar, seg_I, cube, fm_up, fm_low, fm_fs, fm_rs, area_spars,
         hfi, hri, hf, hr, xf, xr, wsk, xud, xld, yud, yld, yua, yla in *.

Ltac wb_unfold1 :=
  unfold st_Iz, st_Qz, st_Iy, st_htop, st_hbottom,
         st_hfront, st_hrear, IH_up, IH_low1, IH_low2, IH_spar, seg_I, cube, fm_up, fm_low, fm_fs, fm_rs, area_spars,
         hfi, hri, hf, hr, xf, xr, wsk, xud, xld, yud, yld, yua, yla in *.

(* ---------- the quantities computed from the unrotated section ---------- *)
Section Torsion.
  Variable ns : nat.
  Variables (XU YU XL YL : R -> nat -> R) (Spar Skin : R -> R) (t0 : R).
  Variables (xu yu xl yl : nat -> dual R) (spar skin : dual R).
  Hypotheses (HXU : DR1 XU t0 xu) (HYU : DR1 YU t0 yu) (HXL : DR1 XL t0 xl) (HYL : DR1 YL t0 yl)
             (HSp : DR Spar t0 spar) (HSk : DR Skin t0 skin).
  Hypotheses (Ask : Skin t0 <> 0) (Asp : Spar t0 <> 0)
             (Aup : forall i, (i < ns)%nat -> 0 < osq (xud (XU t0) i) + osq (yud (YU t0) i))
             (Alow : forall i, (i < ns)%nat -> 0 < osq (xld (XL t0) i) + osq (yld (YL t0) i))
             (Apt : st_p_by_t ns (Spar t0) (Skin t0) (XU t0) (YU t0) (XL t0) (YL t0) <> 0).

  Ltac side := cbv beta; first [assumption | unfold o2; rops; lra | match goal with H : forall i, (i < ns)%nat -> _ |- _ => apply H; assumption end].

  Lemma st_A_enc_DR : DR (fun t => st_A_enc ns (Spar t) (Skin t) (XU t) (YU t) (XL t) (YL t)) t0 (st_A_enc ns spar skin xu yu xl yl).
  Proof. wb_unfold. dr; side. Qed.
  Lemma st_A_int_DR : DR (fun t => st_A_int ns (Spar t) (Skin t) (XU t) (YU t) (XL t) (YL t)) t0 (st_A_int ns spar skin xu yu xl yl).
  Proof. wb_unfold. dr; side. Qed.
  Lemma st_p_by_t_DR : DR (fun t => st_p_by_t ns (Spar t) (Skin t) (XU t) (YU t) (XL t) (YL t)) t0 (st_p_by_t ns spar skin xu yu xl yl).
  Proof. wb_unfold. dr; side. Qed.
  Lemma st_J_DR : DR (fun t => st_J ns (Spar t) (Skin t) (XU t) (YU t) (XL t) (YL t)) t0 (st_J ns spar skin xu yu xl yl).
  Proof.
    unfold st_J. pose proof st_A_enc_DR as H1. pose proof st_p_by_t_DR as H2.
    apply DR_div; [apply DR_mul; [dr | apply DR_osq; exact H1] | exact H2 | exact Apt].
  Qed.
End Torsion.

(* ---------- the quantities computed from the section rotated by the element twist ---------- *)
Section Bending.
  Variable ns : nat.
  Variables (XU YU XL YL : R -> nat -> R) (Spar Skin : R -> R) (t0 : R).
  Variables (xu yu xl yl : nat -> dual R) (spar skin : dual R).
  Hypotheses (HXU : DR1 XU t0 xu) (HYU : DR1 YU t0 yu) (HXL : DR1 XL t0 xl) (HYL : DR1 YL t0 yl)
             (HSp : DR Spar t0 spar) (HSk : DR Skin t0 skin).
  Hypotheses (AA : st_A ns (Spar t0) (Skin t0) (XU t0) (YU t0) (XL t0) (YL t0) <> 0)
             (Axu : forall i, (i < ns)%nat -> xud (XU t0) i <> 0)
             (Axl : forall i, (i < ns)%nat -> xld (XL t0) i <> 0)
             (Ah : (hf (YU t0) (YL t0) + hr ns (YU t0) (YL t0)) * Spar t0 <> 0).

  Ltac side := cbv beta; first [assumption | unfold o2; rops; lra | match goal with H : forall i, (i < ns)%nat -> _ |- _ => apply H; assumption end].

  Lemma st_A_DR : DR (fun t => st_A ns (Spar t) (Skin t) (XU t) (YU t) (XL t) (YL t)) t0 (st_A ns spar skin xu yu xl yl).
  Proof. wb_unfold. dr; side. Qed.
  Lemma st_centroid_DR : DR (fun t => st_centroid ns (Spar t) (Skin t) (XU t) (YU t) (XL t) (YL t)) t0 (st_centroid ns spar skin xu yu xl yl).
  Proof.
    unfold st_centroid. pose proof st_A_DR as HA.
    apply DR_div; [| exact HA | exact AA]. wb_unfold. dr; side.
  Qed.
  Lemma st_cIv_DR : DR (fun t => st_cIv ns (Spar t) (XU t) (YU t) (YL t)) t0 (st_cIv ns spar xu yu yl).
  Proof. wb_unfold. dr; side. Qed.

  Let HC := st_centroid_DR.
  Let HV := st_cIv_DR.

  Lemma st_Iz_DR : DR (fun t => st_Iz ns (Spar t) (Skin t) (XU t) (YU t) (XL t) (YL t)) t0 (st_Iz ns spar skin xu yu xl yl).
  Proof.
    wb_unfold1. dr; try exact HC; side.
  Qed.
  Lemma st_Qz_DR : DR (fun t => st_Qz ns (Spar t) (Skin t) (XU t) (YU t) (XL t) (YL t)) t0 (st_Qz ns spar skin xu yu xl yl).
  Proof. wb_unfold1. dr; try exact HC; side. Qed.
  Lemma st_Iy_DR : DR (fun t => st_Iy ns (Spar t) (Skin t) (XU t) (YU t) (YL t)) t0 (st_Iy ns spar skin xu yu yl).
  Proof. wb_unfold1. dr; try exact HV; side. Qed.
  Lemma st_htop_DR : DR (fun t => st_htop ns (Spar t) (Skin t) (XU t) (YU t) (XL t) (YL t)) t0 (st_htop ns spar skin xu yu xl yl).
  Proof. unfold st_htop. apply DR_sub; [apply ks_max_DR; exact HYU | exact HC]. Qed.
  Lemma st_hbottom_DR : DR (fun t => st_hbottom ns (Spar t) (Skin t) (XU t) (YU t) (XL t) (YL t)) t0 (st_hbottom ns spar skin xu yu xl yl).
  Proof.
    unfold st_hbottom. apply DR_add; [| exact HC].
    apply (ks_max_DR ns (fun t i => oopp (YL t i)) t0 (fun i => oopp (yl i))). intros i. apply DR_opp, HYL.
  Qed.
  Lemma st_hfront_DR : DR (fun t => st_hfront ns (Spar t) (XU t) (YU t) (YL t)) t0 (st_hfront ns spar xu yu yl).
  Proof. unfold st_hfront. apply DR_sub; [exact HV | apply HXU]. Qed.
  Lemma st_hrear_DR : DR (fun t => st_hrear ns (Spar t) (XU t) (YU t) (YL t)) t0 (st_hrear ns spar xu yu yl).
  Proof. unfold st_hrear. apply DR_sub; [apply HXU | exact HV]. Qed.
End Bending.

(* ---------- SectionPropertiesWingbox ---------- *)
Definition cst (x : nat -> R) : nat -> dual R := fun i => dinj (x i).

(* the admissible points of the component: what its formulas divide by or take the root of *)
Record wb_admissible (ns : nat) (dxu dyu dxl dyl : nat -> R) (toc0 chord spar skin toc sw theta : R) : Prop := {
  wa_chord : chord <> 0; wa_toc0 : toc0 <> 0; wa_skin : skin <> 0; wa_spar : spar <> 0;
  wa_up : forall i, (i < ns)%nat ->
    0 < osq (xud (XU0 dxu chord) i) + osq (yud (YU0 dyu toc0 chord toc sw) i);
  wa_low : forall i, (i < ns)%nat ->
    0 < osq (xld (XL0 dxl chord) i) + osq (yld (YL0 dyl toc0 chord toc sw) i);
  wa_pt : st_p_by_t ns spar skin (XU0 dxu chord) (YU0 dyu toc0 chord toc sw) (XL0 dxl chord) (YL0 dyl toc0 chord toc sw) <> 0;
  wa_A : wb_A ns dxu dyu dxl dyl toc0 chord spar skin toc sw theta <> 0;
  wa_xu : forall i, (i < ns)%nat -> xud (XU1 dxu dyu toc0 chord toc sw theta) i <> 0;
  wa_xl : forall i, (i < ns)%nat -> xld (XL1 dxl dyl toc0 chord toc sw theta) i <> 0;
  wa_h : (hf (YU1 dxu dyu toc0 chord toc sw theta) (YL1 dxl dyl toc0 chord toc sw theta)
          + hr ns (YU1 dxu dyu toc0 chord toc sw theta) (YL1 dxl dyl toc0 chord toc sw theta)) * spar <> 0
}.

Section SectionProps.
  Variable ns : nat.
  Variables (dxu dyu dxl dyl : nat -> R) (toc0 : R).
  Variables (Chord Spar Skin Toc Sw Theta : R -> R) (t0 : R) (chord spar skin toc sw theta : dual R).
  Hypotheses (HC : DR Chord t0 chord) (HSp : DR Spar t0 spar) (HSk : DR Skin t0 skin) (HT : DR Toc t0 toc)
             (HSw : DR Sw t0 sw) (HTh : DR Theta t0 theta).
  Hypothesis Adm : wb_admissible ns dxu dyu dxl dyl toc0 (Chord t0) (Spar t0) (Skin t0) (Toc t0) (Sw t0) (Theta t0).

  Let Ac := wa_chord _ _ _ _ _ _ _ _ _ _ _ _ Adm.
  Let At := wa_toc0 _ _ _ _ _ _ _ _ _ _ _ _ Adm.

  Ltac coords := intros i; unfold XU1, YU1, XL1, YL1; unfold XU0, YU0, XL0, YL0, wb_yscale, cst; dr; cbv beta; first [exact Ac | exact At].
  Lemma XU0_DR : DR1 (fun t => XU0 dxu (Chord t)) t0 (XU0 (cst dxu) chord). Proof. coords. Qed.
  Lemma XL0_DR : DR1 (fun t => XL0 dxl (Chord t)) t0 (XL0 (cst dxl) chord). Proof. coords. Qed.
  Lemma YU0_DR : DR1 (fun t => YU0 dyu toc0 (Chord t) (Toc t) (Sw t)) t0 (YU0 (cst dyu) (dinj toc0) chord toc sw). Proof. coords. Qed.
  Lemma YL0_DR : DR1 (fun t => YL0 dyl toc0 (Chord t) (Toc t) (Sw t)) t0 (YL0 (cst dyl) (dinj toc0) chord toc sw). Proof. coords. Qed.
  Lemma XU1_DR : DR1 (fun t => XU1 dxu dyu toc0 (Chord t) (Toc t) (Sw t) (Theta t)) t0 (XU1 (cst dxu) (cst dyu) (dinj toc0) chord toc sw theta). Proof. coords. Qed.
  Lemma YU1_DR : DR1 (fun t => YU1 dxu dyu toc0 (Chord t) (Toc t) (Sw t) (Theta t)) t0 (YU1 (cst dxu) (cst dyu) (dinj toc0) chord toc sw theta). Proof. coords. Qed.
  Lemma XL1_DR : DR1 (fun t => XL1 dxl dyl toc0 (Chord t) (Toc t) (Sw t) (Theta t)) t0 (XL1 (cst dxl) (cst dyl) (dinj toc0) chord toc sw theta). Proof. coords. Qed.
  Lemma YL1_DR : DR1 (fun t => YL1 dxl dyl toc0 (Chord t) (Toc t) (Sw t) (Theta t)) t0 (YL1 (cst dxl) (cst dyl) (dinj toc0) chord toc sw theta). Proof. coords. Qed.

  Theorem wb_out_DR k :
    DR (fun t => wb_out ns dxu dyu dxl dyl toc0 (Chord t) (Spar t) (Skin t) (Toc t) (Sw t) (Theta t) k) t0
       (wb_out ns (cst dxu) (cst dyu) (cst dxl) (cst dyl) (dinj toc0) chord spar skin toc sw theta k).
  Proof.
    pose proof (wa_skin _ _ _ _ _ _ _ _ _ _ _ _ Adm) as A3.
    pose proof (wa_spar _ _ _ _ _ _ _ _ _ _ _ _ Adm) as A4.
    pose proof (wa_up _ _ _ _ _ _ _ _ _ _ _ _ Adm) as A5.
    pose proof (wa_low _ _ _ _ _ _ _ _ _ _ _ _ Adm) as A6.
    pose proof (wa_pt _ _ _ _ _ _ _ _ _ _ _ _ Adm) as A7.
    pose proof (wa_A _ _ _ _ _ _ _ _ _ _ _ _ Adm) as A8.
    pose proof (wa_xu _ _ _ _ _ _ _ _ _ _ _ _ Adm) as A9.
    pose proof (wa_xl _ _ _ _ _ _ _ _ _ _ _ _ Adm) as A10.
    pose proof (wa_h _ _ _ _ _ _ _ _ _ _ _ _ Adm) as A11.
    pose proof XU0_DR as X0. pose proof YU0_DR as Y0. pose proof XL0_DR as X0l. pose proof YL0_DR as Y0l.
    pose proof XU1_DR as X1. pose proof YU1_DR as Y1. pose proof XL1_DR as X1l. pose proof YL1_DR as Y1l.
    destruct k as [|[|[|[|[|[|[|[|[|[|k]]]]]]]]]]; cbn [wb_out];
      unfold wb_A, wb_A_enc, wb_A_int, wb_Iy, wb_Qz, wb_Iz, wb_J, wb_htop, wb_hbottom, wb_hfront, wb_hrear in *.
    - eapply st_A_DR; eassumption.
    - eapply st_A_enc_DR; eassumption.
    - eapply st_A_int_DR; eassumption.
    - eapply st_Iy_DR; eassumption.
    - eapply st_Qz_DR; eassumption.
    - eapply st_Iz_DR; eassumption.
    - eapply st_J_DR; eassumption.
    - eapply st_htop_DR; eassumption.
    - eapply st_hbottom_DR; eassumption.
    - eapply st_hfront_DR; eassumption.
    - eapply st_hrear_DR; eassumption.
  Qed.
End SectionProps.

(* ---------- WingboxGeometry ---------- *)
Definition wg_chord_ok (nx1 : nat) (m : nat -> nat -> nat -> R) (j : nat) : Prop :=
  0 < osq (wg_vec nx1 m j 0) + osq (wg_vec nx1 m j 1).
(* the section is not exactly untwisted: the component measures twist by an arccosine, which has a kink there
   (wg_theta_not_differentiable_at_zero_twist below) *)
Definition wg_twisted (nx1 : nat) (m : nat -> nat -> nat -> R) (j : nat) : Prop := wg_vec nx1 m j 2 <> 0.

Lemma ratio_lt_1 a b : 0 <= a -> a < b -> 0 <= sqrt a / sqrt b < 1.
Proof.
  intros Ha Hab. assert (Hb : 0 < sqrt b) by (apply sqrt_lt_R0; lra).
  assert (Hs : sqrt a < sqrt b) by (apply sqrt_lt_1; lra).
  pose proof (sqrt_pos a) as Hp. split.
  - apply Rmult_le_pos; [exact Hp | left; apply Rinv_0_lt_compat; exact Hb].
  - apply (Rmult_lt_reg_r (sqrt b)); [exact Hb|]. unfold Rdiv. rewrite Rmult_assoc, Rinv_l by lra. lra.
Qed.

Section WGeom.
  Variables (nx1 : nat) (Mesh : R -> nat -> nat -> nat -> R) (t0 : R) (mesh : nat -> nat -> nat -> dual R).
  Variables (xu0 yu0 yl0 xun yun yln : R).
  Hypothesis HM : DR3 Mesh t0 mesh.
  Hypothesis Aw : (yu0 - yl0) + (yun - yln) <> 0.

  Lemma wg_vec_DRv j : DRv (fun t => wg_vec nx1 (Mesh t) j) t0 (wg_vec nx1 mesh j).
  Proof. intros d. unfold wg_vec. dr. Qed.
  Lemma wg_chord_node_DR j : wg_chord_ok nx1 (Mesh t0) j ->
    DR (fun t => wg_chord_node nx1 (Mesh t) j) t0 (wg_chord_node nx1 mesh j).
  Proof.
    intros Hc. unfold wg_chord_node. apply DR_nrm; [apply wg_vec_DRv|].
    unfold wg_chord_ok in Hc. unfold dot, osq in *; rops. nra.
  Qed.
  Lemma wg_sw_DR e : wg_chord_ok nx1 (Mesh t0) e -> wg_chord_ok nx1 (Mesh t0) (S e) ->
    DR (fun t => wg_sw nx1 (Mesh t) e) t0 (wg_sw nx1 mesh e).
  Proof. intros H0 H1. unfold wg_sw. dr; apply wg_chord_node_DR; assumption. Qed.
  Lemma wg_w_DR : DR (fun _ => wg_w xu0 yu0 yl0 xun yun yln) t0 (wg_w (dinj xu0) (dinj yu0) (dinj yl0) (dinj xun) (dinj yun) (dinj yln)).
  Proof. unfold wg_w. dr. cbv beta. rops. exact Aw. Qed.
  Lemma wg_node_DRv j : DRv (fun t => wg_node nx1 (Mesh t) xu0 yu0 yl0 xun yun yln j) t0
                            (wg_node nx1 mesh (dinj xu0) (dinj yu0) (dinj yl0) (dinj xun) (dinj yun) (dinj yln) j).
  Proof. intros d. unfold wg_node. pose proof wg_w_DR as Hw. dr. Qed.
  Lemma wg_elem_DRv e : DRv (fun t => wg_elem nx1 (Mesh t) xu0 yu0 yl0 xun yun yln e) t0
                            (wg_elem nx1 mesh (dinj xu0) (dinj yu0) (dinj yl0) (dinj xun) (dinj yun) (dinj yln) e).
  Proof. unfold wg_elem. apply DRv_vsub; apply wg_node_DRv. Qed.

  Definition wg_elem_ok (e : nat) : Prop :=
    0 < osq (wg_elem nx1 (Mesh t0) xu0 yu0 yl0 xun yun yln e 1) + osq (wg_elem nx1 (Mesh t0) xu0 yu0 yl0 xun yun yln e 2).

  Lemma wg_cos_sweep_DR e : wg_elem_ok e ->
    DR (fun t => wg_cos_sweep nx1 (Mesh t) xu0 yu0 yl0 xun yun yln e) t0
       (wg_cos_sweep nx1 mesh (dinj xu0) (dinj yu0) (dinj yl0) (dinj xun) (dinj yun) (dinj yln) e).
  Proof.
    intros He. unfold wg_elem_ok in He. pose proof (wg_elem_DRv e) as HE. unfold wg_cos_sweep.
    apply DR_div.
    - apply DR_nrm; [apply DRv_mk3; [dr | apply HE | apply HE]|]. unfold dot, mk3, osq in *; rops. nra.
    - apply DR_nrm; [exact HE|]. unfold dot, osq in *; rops. nra.
    - unfold nrm; rops. apply Rgt_not_eq, sqrt_lt_R0. unfold dot, osq in *; rops. nra.
  Qed.
  Lemma wg_fem_chord_DR e : wg_chord_ok nx1 (Mesh t0) e -> wg_chord_ok nx1 (Mesh t0) (S e) -> wg_elem_ok e ->
    DR (fun t => wg_fem_chord nx1 (Mesh t) xu0 yu0 yl0 xun yun yln e) t0
       (wg_fem_chord nx1 mesh (dinj xu0) (dinj yu0) (dinj yl0) (dinj xun) (dinj yun) (dinj yln) e).
  Proof. intros. unfold wg_fem_chord. apply DR_mul; [apply wg_sw_DR | apply wg_cos_sweep_DR]; assumption. Qed.

  Lemma wg_cos_twist_range j : wg_chord_ok nx1 (Mesh t0) j -> wg_twisted nx1 (Mesh t0) j ->
    0 <= wg_cos_twist nx1 (Mesh t0) j < 1.
  Proof.
    intros Hc Ht. unfold wg_chord_ok, wg_twisted in *. unfold wg_cos_twist, nrm; rops.
    apply ratio_lt_1; unfold dot, mk3, osq in *; rops; nra.
  Qed.
  Lemma wg_cos_twist_DR j : wg_chord_ok nx1 (Mesh t0) j ->
    DR (fun t => wg_cos_twist nx1 (Mesh t) j) t0 (wg_cos_twist nx1 mesh j).
  Proof.
    intros Hc. unfold wg_chord_ok in Hc. pose proof (wg_vec_DRv j) as HV. unfold wg_cos_twist.
    apply DR_div.
    - apply DR_nrm; [apply DRv_mk3; [apply HV | apply HV | dr]|]. unfold dot, mk3, osq in *; rops. nra.
    - apply DR_nrm; [exact HV|]. unfold dot, osq in *; rops. nra.
    - unfold nrm; rops. apply Rgt_not_eq, sqrt_lt_R0. unfold dot, osq in *; rops. nra.
  Qed.
  Lemma wg_theta_DR j : wg_chord_ok nx1 (Mesh t0) j -> wg_twisted nx1 (Mesh t0) j ->
    DR (fun t => wg_theta nx1 (Mesh t) j) t0 (wg_theta nx1 mesh j).
  Proof.
    intros Hc Ht. pose proof (wg_cos_twist_range j Hc Ht) as Hr. pose proof (wg_cos_twist_DR j Hc) as HD.
    unfold wg_theta. apply DR_if_ltb; [dr | exact HD | | dr | apply DR_acos; [exact HD | lra]].
    rops. lra.
  Qed.

  (* all three outputs of the component, for element e *)
  Theorem wg_fem_twist_DR e :
    wg_chord_ok nx1 (Mesh t0) e -> wg_chord_ok nx1 (Mesh t0) (S e) -> wg_elem_ok e ->
    wg_twisted nx1 (Mesh t0) e -> wg_twisted nx1 (Mesh t0) (S e) ->
    wg_fem_chord nx1 (Mesh t0) xu0 yu0 yl0 xun yun yln e <> 0 ->
    DR (fun t => wg_fem_twist nx1 (Mesh t) xu0 yu0 yl0 xun yun yln e) t0
       (wg_fem_twist nx1 mesh (dinj xu0) (dinj yu0) (dinj yl0) (dinj xun) (dinj yun) (dinj yln) e).
  Proof.
    intros C0 C1 He T0 T1 Hn. unfold wg_fem_twist.
    apply DR_div; [| apply wg_fem_chord_DR; assumption | exact Hn].
    apply DR_mul; [| apply wg_sw_DR; assumption].
    apply DR_div; [apply DR_add; apply wg_theta_DR; assumption | dr | unfold o2; rops; lra].
  Qed.
End WGeom.

(* ---------- the admissibility conditions are satisfiable: a rectangular box ---------- *)
Definition box_x : nat -> R := fun i => match i with O => 1/10 | _ => 6/10 end.
Definition box_yu : nat -> R := fun _ => 5/100.
Definition box_yl : nat -> R := fun _ => -5/100.
Example wb_admissible_box : wb_admissible 1 box_x box_yu box_x box_yl (12/100) 1 (1/100) (1/100) (12/100) 1 0.
Proof.
  constructor; try lra.
  all: try (intros i Hi; assert (i = 0)%nat by lia; subst i).
  all: unfold wb_A, st_A, st_p_by_t, area_spars, hfi, hri, hf, hr, xud, xld, yud, yld, XU1, YU1, XL1, YL1, XU0, YU0, XL0, YL0, wb_yscale, box_x, box_yu, box_yl, osq, o2; cbn [sumn]; rops; rewrite ?cos_0, ?sin_0.
  all: try lra.
  match goal with |- context [sqrt ?a / _ + sqrt ?b / _] => pose proof (sqrt_pos a); pose proof (sqrt_pos b); generalize dependent (sqrt a); generalize dependent (sqrt b) end. intros; lra.
Qed.

(* ---------- the twist measure of WingboxGeometry has a kink at zero twist ---------- *)
(* a two-row mesh whose every section has its leading edge at the origin of its station and its trailing edge at
   (c, 0, z): chord c along x, trailing edge raised by z *)
Definition kink_mesh (c z : R) : nat -> nat -> nat -> R :=
  fun i j d => match i, d with 1%nat, 0%nat => c | 1%nat, 2%nat => z | _, _ => 0 end.

Lemma kink_cos c z : 0 < c -> wg_cos_twist 1 (kink_mesh c z) 0 = c / sqrt (c * c + z * z).
Proof.
  intros Hc. unfold wg_cos_twist, nrm, dot, mk3, wg_vec, kink_mesh; rops.
  replace ((c - 0) * (c - 0) + (0 - 0) * (0 - 0) + 0 * 0) with (c * c) by ring.
  replace ((c - 0) * (c - 0) + (0 - 0) * (0 - 0) + (z - 0) * (z - 0)) with (c * c + z * z) by ring.
  rewrite sqrt_square by lra. reflexivity.
Qed.

Lemma kink_theta_lower c z : 0 < c -> z <> 0 ->
  Rabs z / sqrt (c * c + z * z) < wg_theta 1 (kink_mesh c z) 0.
Proof.
  intros Hc Hz. unfold wg_theta. rewrite (kink_cos c z Hc).
  set (s := c * c + z * z). assert (Hs : 0 < s) by (unfold s; nra).
  assert (Hq : 0 < sqrt s) by (apply sqrt_lt_R0; exact Hs).
  assert (Hcs : c < sqrt s).
  { rewrite <- (sqrt_square c) at 1 by lra. apply sqrt_lt_1; unfold s; nra. }
  set (x := c / sqrt s).
  assert (Hx : 0 < x < 1).
  { unfold x. split; [apply Rdiv_lt_0_compat; assumption|].
    apply (Rmult_lt_reg_r (sqrt s)); [exact Hq|]. unfold Rdiv. rewrite Rmult_assoc, Rinv_l by lra. lra. }
  rops. replace (Rltb 1 x) with false by (symmetry; apply Rltb_false; lra).
  pose proof (acos_bound_lt x ltac:(lra)) as Hb.
  pose proof (sin_lt_x (acos x) ltac:(lra)) as Hsin.
  rewrite sin_acos in Hsin by lra.
  assert (E : 1 - x² = Rsqr (Rabs z / sqrt s)).
  { assert (Hqq : sqrt s * sqrt s = s) by (apply sqrt_sqrt; lra).
    assert (Ha : Rabs z * Rabs z = z * z) by (rewrite <- Rabs_mult; rewrite Rabs_pos_eq; [reflexivity | nra]).
    unfold x, Rsqr. set (q := sqrt s) in *. set (a := Rabs z) in *.
    replace (1 - c / q * (c / q)) with ((q * q - c * c) / (q * q)) by (field; lra).
    replace (a / q * (a / q)) with ((a * a) / (q * q)) by (field; lra).
    rewrite Ha, Hqq. unfold s. f_equal. ring. }
  rewrite E in Hsin. rewrite sqrt_Rsqr in Hsin; [exact Hsin|].
  apply Rmult_le_pos; [apply Rabs_pos | left; apply Rinv_0_lt_compat; exact Hq].
Qed.

Lemma kink_theta_even c z : wg_theta 1 (kink_mesh c (- z)) 0 = wg_theta 1 (kink_mesh c z) 0.
Proof.
  unfold wg_theta, wg_cos_twist, nrm, dot, mk3, wg_vec, kink_mesh; rops.
  replace ((- z - 0) * (- z - 0)) with ((z - 0) * (z - 0)) by ring. reflexivity.
Qed.

Lemma kink_theta_0 c : 0 < c -> wg_theta 1 (kink_mesh c 0) 0 = 0.
Proof.
  intros Hc. unfold wg_theta. rewrite (kink_cos c 0 Hc).
  replace (c * c + 0 * 0) with (c * c) by ring. rewrite sqrt_square by lra.
  replace (c / c) with 1 by (field; lra). rops.
  replace (Rltb 1 1) with false by (symmetry; apply Rltb_false; lra). apply acos_1.
Qed.

(* the value is defined (0) but no derivative exists: the one-sided slopes are +1/c and -1/c *)
Theorem wg_theta_not_differentiable_at_zero_twist c : 0 < c ->
  ~ ex_derive (fun z => wg_theta 1 (kink_mesh c z) 0) 0.
Proof.
  intros Hc [l Hl]. apply is_derive_Reals in Hl.
  set (k := / sqrt (c * c + 1)).
  assert (Hk : 0 < k) by (apply Rinv_0_lt_compat, sqrt_lt_R0; nra).
  destruct (Hl k Hk) as [delta Hd].
  set (h := Rmin (delta / 2) 1).
  assert (Hh : 0 < h <= 1) by (unfold h; pose proof (cond_pos delta); split; [apply Rmin_glb_lt; lra | apply Rmin_r]).
  assert (Hhd : Rabs h < delta).
  { rewrite Rabs_pos_eq by lra. unfold h. pose proof (cond_pos delta). pose proof (Rmin_l (delta / 2) 1). lra. }
  pose proof (Hd h ltac:(lra) Hhd) as H1.
  assert (Hhd' : Rabs (- h) < delta) by (rewrite Rabs_Ropp; exact Hhd).
  pose proof (Hd (- h) ltac:(lra) Hhd') as H2.
  rewrite !Rplus_0_l in H1, H2. rewrite kink_theta_even, (kink_theta_0 c Hc), Rminus_0_r in H2.
  rewrite (kink_theta_0 c Hc), Rminus_0_r in H1.
  pose proof (kink_theta_lower c h Hc ltac:(lra)) as Hlow. rewrite Rabs_pos_eq in Hlow by lra.
  set (g := wg_theta 1 (kink_mesh c h) 0) in *.
  assert (Hq : k * h <= h / sqrt (c * c + h * h)).
  { unfold k, Rdiv. rewrite Rmult_comm. apply Rmult_le_compat_l; [lra|].
    apply Rinv_le_contravar; [apply sqrt_lt_R0; nra | apply sqrt_le_1; nra]. }
  assert (Hg : k < g / h).
  { apply (Rmult_lt_reg_r h); [lra|]. unfold Rdiv. rewrite Rmult_assoc, Rinv_l by lra. lra. }
  replace (g / - h) with (- (g / h)) in H2 by (field; lra).
  apply Rabs_def2 in H1. apply Rabs_def2 in H2. lra.
Qed.
