(* Reflect.v — reflection covariance of the vortex kernels and rings: the basis of the half/full
   equivalence (C04), mirror-image configurations (C07) and the method of images (C08). *)
From Coq Require Import Reals ZArith Lra Lia Arith Bool Nsatz.
From OAS Require Import Scalar Rops Sums Stress Vec3 Aero VLM AeroProofs.
Open Scope R_scope.

(* reflection about the plane through the origin with unit normal n *)
Definition refl (n v : nat -> R) : nat -> R := fun d => v d - 2 * dot v n * n d.

Lemma refl_dot n a b : dot n n = 1 -> dot (refl n a) (refl n b) = dot a b.
Proof. intros H. unfold refl, dot in *; rops. nsatz. Qed.

Lemma refl_involutive n a d : dot n n = 1 -> refl n (refl n a) d = a d.
Proof. intros H. unfold refl, dot in *; rops. nsatz. Qed.

Lemma refl_nrm n a : dot n n = 1 -> nrm (refl n a) = nrm a.
Proof. intros H. unfold nrm; rops. rewrite refl_dot by exact H. reflexivity. Qed.

(* improper orthogonal map: the cross product picks up the determinant -1 *)
Lemma refl_cross n a b d : (d < 3)%nat -> dot n n = 1 ->
  cross (refl n a) (refl n b) d = - refl n (cross a b) d.
Proof.
  intros Hd H. destruct d as [|[|[|d]]]; try lia; unfold refl, cross, dot, mk3 in *; rops; nsatz.
Qed.

Lemma refl_sub n a b d : refl n (vsub a b) d = vsub (refl n a) (refl n b) d.
Proof. unfold refl, vsub, dot; rops. ring. Qed.

Lemma refl_fixed n u d : dot u n = 0 -> refl n u d = u d.
Proof. intros H. unfold refl. rewrite H. ring. Qed.

(* segment kernel *)
Lemma fv_refl n r1 r2 d : (d < 3)%nat -> dot n n = 1 ->
  fv (refl n r1) (refl n r2) d = - refl n (fv r1 r2) d.
Proof.
  intros Hd H. unfold fv. rops.
  rewrite !refl_nrm, refl_dot by exact H.
  destruct (Rltb vtol (Rabs (nrm r1 * nrm r2 + dot r1 r2))) eqn:E.
  - rewrite refl_cross by assumption.
    unfold refl at 2. unfold refl at 1.
    set (s := 1 / nrm r1 + 1 / nrm r2). set (den := (nrm r1 * nrm r2 + dot r1 r2) * 4 * PI).
    replace (dot (fun d0 => s * cross r1 r2 d0 / den) n) with (s * dot (cross r1 r2) n / den)
      by (unfold dot; rops; unfold Rdiv; ring).
    unfold Rdiv. ring.
  - unfold refl, dot; rops. ring.
Qed.

(* wake-leg kernel, for a wake direction lying in the reflection plane *)
Lemma semi_refl n u r d : (d < 3)%nat -> dot n n = 1 -> dot u n = 0 ->
  semi u (refl n r) d = - refl n (semi u r) d.
Proof.
  intros Hd H Hu. unfold semi. rops. rewrite refl_nrm by exact H.
  assert (Eu : forall k, u k = refl n u k) by (intros; symmetry; apply refl_fixed; exact Hu).
  assert (Ed : dot u (refl n r) = dot u r).
  { transitivity (dot (refl n u) (refl n r)); [unfold dot; rewrite <- !Eu; reflexivity | apply refl_dot, H]. }
  rewrite Ed.
  assert (Ec : cross u (refl n r) d = - refl n (cross u r) d).
  { transitivity (cross (refl n u) (refl n r) d); [|apply refl_cross; assumption].
    destruct d as [|[|[|d]]]; try lia; unfold cross, mk3; rops; rewrite <- !Eu; reflexivity. }
  rewrite Ec. unfold refl.
  set (den := nrm r * (nrm r - dot u r)).
  replace (dot (fun d0 => cross u r d0 / den / 4 / PI) n) with (dot (cross u r) n / den / 4 / PI)
    by (unfold dot; rops; unfold Rdiv; ring).
  unfold Rdiv. ring.
Qed.

(* ---- a vortex ring given by its four corners, evaluated at P ---- *)
Definition ring4 (A B C D P : nat -> R) (d : nat) : R :=
  fv (vsub P A) (vsub P B) d + fv (vsub P B) (vsub P C) d + fv (vsub P C) (vsub P D) d + fv (vsub P D) (vsub P A) d.
Definition wake2 (u C D P : nat -> R) (d : nat) : R :=
  fv (vsub P D) (vsub P C) d - semi u (vsub P D) d + semi u (vsub P C) d.

Lemma fv_ext r1 r1' r2 r2' d : (forall k, (k < 3)%nat -> r1 k = r1' k) -> (forall k, (k < 3)%nat -> r2 k = r2' k) ->
  fv r1 r2 d = fv r1' r2' d.
Proof.
  intros H1 H2. unfold fv, nrm, dot, cross, mk3; rops. rewrite !H1, !H2 by lia. reflexivity.
Qed.
Lemma semi_ext u r r' d : (forall k, (k < 3)%nat -> r k = r' k) -> semi u r d = semi u r' d.
Proof. intros H. unfold semi, nrm, dot, cross, mk3; rops. rewrite !H by lia. reflexivity. Qed.

Lemma fv_refl_sub n P A B d : (d < 3)%nat -> dot n n = 1 ->
  fv (vsub (refl n P) (refl n A)) (vsub (refl n P) (refl n B)) d = - refl n (fv (vsub P A) (vsub P B)) d.
Proof.
  intros Hd H. rewrite <- fv_refl by assumption. apply fv_ext; intros; symmetry; apply refl_sub.
Qed.
Lemma semi_refl_sub n u P A d : (d < 3)%nat -> dot n n = 1 -> dot u n = 0 ->
  semi u (vsub (refl n P) (refl n A)) d = - refl n (semi u (vsub P A)) d.
Proof.
  intros Hd H Hu. rewrite <- semi_refl by assumption. apply semi_ext; intros; symmetry; apply refl_sub.
Qed.

(* the mirror image of a ring, traversed with reversed spanwise order (A<->B, C<->D), induces at the
   mirror image of P the mirror image of the velocity: strengths keep their sign *)
Lemma ring4_mirror n A B C D P d : (d < 3)%nat -> dot n n = 1 ->
  ring4 (refl n B) (refl n A) (refl n D) (refl n C) (refl n P) d = refl n (ring4 A B C D P) d.
Proof.
  intros Hd H. unfold ring4. rewrite !fv_refl_sub by assumption.
  assert (A1 : forall r1 r2 k, (k < 3)%nat -> fv r1 r2 k = - fv r2 r1 k) by (intros; apply fv_antisym; assumption).
  unfold refl, dot; rops.
  rewrite (A1 (vsub P B) (vsub P A) d), (A1 (vsub P A) (vsub P D) d), (A1 (vsub P D) (vsub P C) d), (A1 (vsub P C) (vsub P B) d) by exact Hd.
  rewrite (A1 (vsub P B) (vsub P A) 0%nat), (A1 (vsub P A) (vsub P D) 0%nat), (A1 (vsub P D) (vsub P C) 0%nat), (A1 (vsub P C) (vsub P B) 0%nat) by lia.
  rewrite (A1 (vsub P B) (vsub P A) 1%nat), (A1 (vsub P A) (vsub P D) 1%nat), (A1 (vsub P D) (vsub P C) 1%nat), (A1 (vsub P C) (vsub P B) 1%nat) by lia.
  rewrite (A1 (vsub P B) (vsub P A) 2%nat), (A1 (vsub P A) (vsub P D) 2%nat), (A1 (vsub P D) (vsub P C) 2%nat), (A1 (vsub P C) (vsub P B) 2%nat) by lia.
  ring.
Qed.

(* same for the wake legs of the last row, the wake direction lying in the mirror plane *)
Lemma wake2_mirror n u C D P d : (d < 3)%nat -> dot n n = 1 -> dot u n = 0 ->
  wake2 u (refl n D) (refl n C) (refl n P) d = refl n (wake2 u C D P) d.
Proof.
  intros Hd H Hu. unfold wake2. rewrite fv_refl_sub, !semi_refl_sub by assumption.
  assert (A1 : forall k, (k < 3)%nat -> fv (vsub P C) (vsub P D) k = - fv (vsub P D) (vsub P C) k) by (intros; apply fv_antisym; assumption).
  unfold refl, dot; rops. rewrite (A1 d Hd), (A1 0%nat), (A1 1%nat), (A1 2%nat) by lia. ring.
Qed.

(* the image ring of the method of images: SAME traversal order, hence the velocity of a ring of
   strength -1 *)
Lemma ring4_image n A B C D P d : (d < 3)%nat -> dot n n = 1 ->
  ring4 (refl n A) (refl n B) (refl n C) (refl n D) (refl n P) d = - refl n (ring4 A B C D P) d.
Proof.
  intros Hd H. unfold ring4. rewrite !fv_refl_sub by assumption. unfold refl, dot; rops. ring.
Qed.

(* consequence: on the mirror plane itself a ring and its image (strength -1) induce no normal velocity *)
Lemma image_pair_impermeable n A B C D P : dot n n = 1 -> dot P n = 0 ->
  dot (fun d => ring4 A B C D P d - ring4 (refl n A) (refl n B) (refl n C) (refl n D) P d) n = 0.
Proof.
  intros H HP.
  assert (EP : forall k, refl n P k = P k) by (intros; apply refl_fixed; exact HP).
  assert (E : forall d, (d < 3)%nat ->
     ring4 (refl n A) (refl n B) (refl n C) (refl n D) P d = - refl n (ring4 A B C D P) d).
  { intros d Hd. rewrite <- (ring4_image n A B C D P d Hd H). unfold ring4.
    repeat (f_equal; try (apply fv_ext; intros; unfold vsub; rops; rewrite ?EP; reflexivity)). }
  unfold dot; rops. rewrite !E by lia. unfold refl, dot in *; rops. nsatz.
Qed.

(* the ground plane of the code: unit normal, parallel to the wake / free-stream direction at zero sideslip *)
Lemma ground_plane_normal_unit a : dot (@plane_n R Rops a) (plane_n a) = 1.
Proof. unfold plane_n, dot, mk3; rops. pose proof (sin2_cos2 a) as H. unfold Rsqr in H. lra. Qed.
Lemma ground_plane_parallel_to_stream a_deg :
  dot (wake_u a_deg) (plane_n (a_deg * PI / 180)) = 0.
Proof. unfold wake_u, plane_n, dot, mk3; rops. ring. Qed.

(* the code's reflection is the reflection about the plane through h*n with normal n *)
Lemma reflect_is_plane_reflection a h (p : nat -> R) d :
  reflect a h p d = refl (plane_n a) (fun k => p k - h * plane_n a k) d + h * plane_n a d.
Proof. unfold reflect, refl, dot, o2; rops. ring. Qed.
(* a point of the plane is fixed; the plane is at distance h from the origin *)
Lemma reflect_fixes_plane a h (p : nat -> R) d :
  dot (fun k => p k - h * plane_n a k) (plane_n a) = 0 -> reflect a h p d = p d.
Proof.
  intros H. rewrite reflect_is_plane_reflection. unfold refl. rewrite H. ring.
Qed.
