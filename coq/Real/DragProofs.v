(* DragProofs.v — lemmas for C18 (viscous and wave drag estimates). *)
From Coq Require Import Reals ZArith Lra Lia Arith.
From OAS Require Import Scalar Rops Sums Drag.
Open Scope R_scope.

(* ---------------- elementary facts ---------------- *)
Lemma ln_le_minus1 t : 0 < t -> ln t <= t - 1.
Proof. intros Ht. pose proof (exp_ineq1_le (ln t)) as H. rewrite exp_ln in H by exact Ht. lra. Qed.

Lemma ln_pos_gt1 x : 1 < x -> 0 < ln x.
Proof. intros H. rewrite <- ln_1. apply ln_increasing; lra. Qed.

Lemma ln10_pos : 0 < ln 10.
Proof. apply ln_pos_gt1; lra. Qed.

Lemma Rpower_pos x a : 0 < Rpower x a.
Proof. unfold Rpower. apply exp_pos. Qed.

Lemma Rpower_mono_base x y a : 0 < a -> 0 < x -> x < y -> Rpower x a < Rpower y a.
Proof. intros Ha Hx Hxy. unfold Rpower. apply exp_increasing. apply Rmult_lt_compat_l; [exact Ha | apply ln_increasing; assumption]. Qed.

Notation rlog10 := (@olog10 R Rops).
Lemma log10_eq x : rlog10 x = ln x / ln 10.
Proof. reflexivity. Qed.
Lemma log10_pos x : 1 < x -> 0 < rlog10 x.
Proof. intros H. rewrite log10_eq. apply Rdiv_lt_0_compat; [apply ln_pos_gt1, H | apply ln10_pos]. Qed.
Lemma log10_incr x y : 0 < x -> x < y -> rlog10 x < rlog10 y.
Proof.
  intros Hx Hxy. rewrite !log10_eq. unfold Rdiv. apply Rmult_lt_compat_r;
    [apply Rinv_0_lt_compat, ln10_pos | apply ln_increasing; assumption].
Qed.

(* ---------------- skin-friction coefficients ---------------- *)
Lemma vd_B_pos M : 0 < @vd_B R Rops M.
Proof. unfold vd_B; rops. apply Rpower_pos. Qed.

Lemma cd_turb_pos M x : 1 < x -> 0 < cd_turb M x.
Proof.
  intros Hx. unfold cd_turb, c455, ofrac; rops.
  apply Rdiv_lt_0_compat; [apply Rdiv_lt_0_compat; [lra | apply Rpower_pos] | apply vd_B_pos].
Qed.

Lemma cd_turb_decr M x y : 1 < x -> x < y -> cd_turb M y < cd_turb M x.
Proof.
  intros Hx Hxy. unfold cd_turb, c455, c258, ofrac; rops.
  pose proof (vd_B_pos M) as HB.
  assert (Hp : Rpower (rlog10 x) (258 / 100) < Rpower (rlog10 y) (258 / 100)).
  { apply Rpower_mono_base; [lra | apply log10_pos, Hx | apply log10_incr; lra]. }
  pose proof (Rpower_pos (rlog10 x) (258 / 100)) as H1.
  pose proof (Rpower_pos (rlog10 y) (258 / 100)) as H2.
  unfold Rdiv. apply Rmult_lt_compat_r; [apply Rinv_0_lt_compat, HB|].
  apply Rmult_lt_compat_l; [lra|]. apply Rinv_lt_contravar; [apply Rmult_lt_0_compat; assumption | exact Hp].
Qed.

Lemma cd_lam_pos x : 0 < x -> 0 < @cd_lam R Rops x.
Proof. intros H. unfold cd_lam, c1328, ofrac; rops. apply Rdiv_lt_0_compat; [lra | apply sqrt_lt_R0, H]. Qed.

Lemma cd_lam_decr x y : 0 < x -> x < y -> @cd_lam R Rops y < cd_lam x.
Proof.
  intros Hx Hxy. unfold cd_lam, c1328, ofrac; rops.
  assert (sqrt x < sqrt y) by (apply sqrt_lt_1; lra).
  assert (0 < sqrt x) by (apply sqrt_lt_R0, Hx).
  unfold Rdiv. apply Rmult_lt_compat_l; [lra|]. apply Rinv_lt_contravar; [apply Rmult_lt_0_compat; lra | assumption].
Qed.

(* the key inequality: the turbulent part removed over the laminar run never exceeds the full-chord
   turbulent coefficient:  k cd_turb(k x) <= cd_turb(x)  whenever ln(k x) >= 2.58 *)
Lemma turb_scaled_le M k x : 0 < k -> k <= 1 -> 0 < x -> 258 / 100 <= ln (x * k) ->
  k * cd_turb M (x * k) <= cd_turb M x.
Proof.
  intros Hk Hk1 Hx Hu.
  set (a := 258 / 100) in *. assert (Ha : 0 < a) by (unfold a; lra).
  assert (Hxk : 0 < x * k) by (apply Rmult_lt_0_compat; assumption).
  set (u1 := ln (x * k)) in *. set (u2 := ln x).
  assert (Hs : u2 = u1 - ln k).
  { unfold u1, u2. rewrite ln_mult by assumption. ring. }
  assert (Hlk : ln k <= 0).
  { destruct Hk1 as [Hk1|Hk1]; [left; rewrite <- ln_1; apply ln_increasing; lra | rewrite Hk1, ln_1; lra]. }
  assert (Hu1 : 0 < u1) by lra. assert (Hu2 : 0 < u2) by lra.
  pose proof ln10_pos as H10. pose proof (vd_B_pos M) as HB.
  unfold cd_turb, c455, c258, ofrac; rops. fold a.
  rewrite !log10_eq. fold u1 u2.
  (* reduce to  k / (u1/ln10)^a <= 1 / (u2/ln10)^a *)
  assert (Hmain : k * / Rpower (u1 / ln 10) a <= / Rpower (u2 / ln 10) a).
  { unfold Rpower. rewrite <- !exp_Ropp. rewrite <- (exp_ln k Hk) at 1. rewrite <- exp_plus.
    assert (Hq1 : 0 < u1 / ln 10) by (apply Rdiv_lt_0_compat; assumption).
    assert (Hq2 : 0 < u2 / ln 10) by (apply Rdiv_lt_0_compat; assumption).
    assert (E : ln (u2 / ln 10) - ln (u1 / ln 10) = ln (u2 / u1)).
    { unfold Rdiv. rewrite !ln_mult, !ln_Rinv; try lra; try (apply Rinv_0_lt_compat; lra). }
    assert (Hr : ln (u2 / u1) <= u2 / u1 - 1).
    { apply ln_le_minus1. apply Rdiv_lt_0_compat; assumption. }
    assert (Hb : u2 / u1 - 1 = - ln k / u1) by (rewrite Hs; field; lra).
    assert (Hc : a * (- ln k / u1) <= - ln k).
    { unfold Rdiv. assert (0 <= - ln k) by lra. assert (a * / u1 <= 1).
      { apply (Rmult_le_reg_r u1); [exact Hu1|]. rewrite Rmult_assoc, Rinv_l by lra. lra. }
      nra. }
    assert (Hfin : ln k + - (a * ln (u1 / ln 10)) <= - (a * ln (u2 / ln 10))).
    { assert (a * (ln (u2 / ln 10) - ln (u1 / ln 10)) <= - ln k).
      { rewrite E. apply Rle_trans with (a * (u2 / u1 - 1)); [apply Rmult_le_compat_l; lra | rewrite Hb; exact Hc]. }
      lra. }
    destruct Hfin as [Hlt|Heq]; [left; apply exp_increasing; exact Hlt | rewrite Heq; lra]. }
  unfold Rdiv in *.
  replace (k * (455 * / 1000 * / Rpower (u1 * / ln 10) a * / vd_B M))
    with (455 * / 1000 * / vd_B M * (k * / Rpower (u1 * / ln 10) a)) by ring.
  replace (455 * / 1000 * / Rpower (u2 * / ln 10) a * / vd_B M)
    with (455 * / 1000 * / vd_B M * / Rpower (u2 * / ln 10) a) by ring.
  apply Rmult_le_compat_l; [|exact Hmain].
  assert (0 < / vd_B M) by (apply Rinv_0_lt_compat, HB). nra.
Qed.

(* section drag coefficient is positive for every laminar fraction in [0,1] *)
Lemma vd_cd_pos k M Rec : 0 <= k -> k <= 1 -> 1 < Rec -> (0 < k -> 258 / 100 <= ln (Rec * k)) ->
  0 < vd_cd k M Rec.
Proof.
  intros Hk0 Hk1 HR Hu. unfold vd_cd; rops.
  destruct (Reqb k 0) eqn:E0.
  - apply Reqb_true in E0. subst k. pose proof (cd_turb_pos M Rec HR). lra.
  - apply Reqb_false in E0. assert (Hk : 0 < k) by lra. specialize (Hu Hk).
    assert (Hxk : 0 < Rec * k) by (apply Rmult_lt_0_compat; lra).
    destruct (Rltb k 1) eqn:E1.
    + pose proof (turb_scaled_le M k Rec Hk Hk1 ltac:(lra) Hu) as Ht.
      pose proof (cd_lam_pos (Rec * k) Hxk) as Hl.
      assert (0 < cd_lam (Rec * k) * k) by (apply Rmult_lt_0_compat; assumption). nra.
    + pose proof (cd_lam_pos (Rec * k) Hxk) as Hl.
      assert (0 < cd_lam (Rec * k) * k) by (apply Rmult_lt_0_compat; assumption). lra.
Qed.

(* decreasing in Reynolds number — proved for the fully turbulent (k = 0) and fully laminar (k >= 1)
   members; the mixed case 0 < k < 1 is validated numerically only *)
Lemma vd_cd_decr_partial k M R1 R2 : (k = 0 \/ 1 <= k) -> 1 < R1 -> R1 < R2 ->
  vd_cd k M R2 < vd_cd k M R1.
Proof.
  intros Hk H1 H12. unfold vd_cd; rops. destruct Hk as [->|Hk].
  - replace (Reqb 0 0) with true by (symmetry; apply Reqb_true; reflexivity).
    pose proof (cd_turb_decr M R1 R2 H1 H12). lra.
  - replace (Reqb k 0) with false by (symmetry; apply Reqb_false; lra).
    replace (Rltb k 1) with false by (symmetry; apply Rltb_false; lra).
    assert (0 < R1 * k) by (apply Rmult_lt_0_compat; lra).
    assert (R1 * k < R2 * k) by (apply Rmult_lt_compat_r; lra).
    pose proof (cd_lam_decr (R1 * k) (R2 * k) H H0). nra.
Qed.

(* form factor: positive and increasing in thickness ratio *)
Lemma vd_kFF_pos cmax M toc : 0 < cmax -> 0 < M -> 0 <= toc -> 0 < vd_kFF cmax M toc.
Proof.
  intros Hc HM Ht. unfold vd_kFF, osq, ofrac; rops.
  pose proof (Rpower_pos M (18 / 100)).
  assert (0 <= 6 / 10 * toc / cmax) by (apply Rmult_le_pos; [nra | left; apply Rinv_0_lt_compat, Hc]).
  assert (0 <= toc * toc * (toc * toc)) by nra.
  apply Rmult_lt_0_compat; [apply Rmult_lt_0_compat; lra | lra].
Qed.

Lemma vd_kFF_incr cmax M t1 t2 : 0 < cmax -> 0 < M -> 0 <= t1 -> t1 < t2 ->
  vd_kFF cmax M t1 < vd_kFF cmax M t2.
Proof.
  intros Hc HM H1 H12. unfold vd_kFF, osq, ofrac; rops.
  pose proof (Rpower_pos M (18 / 100)).
  apply Rmult_lt_compat_l; [apply Rmult_lt_0_compat; lra|].
  assert (6 / 10 * t1 / cmax < 6 / 10 * t2 / cmax).
  { unfold Rdiv. apply Rmult_lt_compat_r; [apply Rinv_0_lt_compat, Hc | lra]. }
  assert (t1 * t1 <= t2 * t2) by nra.
  assert (t1 * t1 * (t1 * t1) <= t2 * t2 * (t2 * t2)) by nra.
  lra.
Qed.

(* ---------------- the strip sum ---------------- *)
Section VDsum.
  Variables (np : nat) (sym : bool) (k cmax re M S_ref : R) (widths lsp lengths toc : nat -> R).
  Hypothesis Hnp : (0 < np)%nat.
  Hypothesis Hk0 : 0 <= k. Hypothesis Hk1 : k <= 1.
  Hypothesis Hc : 0 < cmax. Hypothesis HM : 0 < M. Hypothesis HS : 0 < S_ref. Hypothesis Hre : 0 < re.
  Hypothesis Hw : forall j, (j < np)%nat -> 0 < widths j.
  Hypothesis Hl : forall j, (j < np)%nat -> 0 < lsp j.
  Hypothesis Hch : forall j, (j < np)%nat -> 0 < vd_chord lengths j.
  Hypothesis Ht : forall j, (j < np)%nat -> 0 <= toc j.
  (* chord Reynolds numbers: turbulent run > 1, laminar run (if any) above e^2.58 ~ 13.2
     (the property asks > 1e3 for both) *)
  Hypothesis HRe : forall j, (j < np)%nat -> 1 < re * vd_chord lengths j.
  Hypothesis HRek : forall j, (j < np)%nat -> 0 < k -> 258 / 100 <= ln (re * vd_chord lengths j * k).

  Lemma vd_FF_pos j : (j < np)%nat -> 0 < vd_FF cmax M (toc j) (vd_cos widths lsp j).
  Proof.
    intros Hj. unfold vd_FF; rops. apply Rmult_lt_0_compat; [apply vd_kFF_pos; auto | apply Rpower_pos].
  Qed.

  Lemma vd_term_pos j : (j < np)%nat ->
    0 < vd_doq k re M lengths j * widths j * vd_FF cmax M (toc j) (vd_cos widths lsp j).
  Proof.
    intros Hj. unfold vd_doq, o2; rops.
    pose proof (vd_cd_pos k M (re * vd_chord lengths j) Hk0 Hk1 (HRe j Hj) (HRek j Hj)).
    pose proof (Hch j Hj). pose proof (Hw j Hj). pose proof (vd_FF_pos j Hj).
    set (a := vd_cd k M (re * vd_chord lengths j)) in *. set (b := vd_chord lengths j) in *.
    set (c := vd_FF cmax M (toc j) (vd_cos widths lsp j)) in *.
    assert (0 < 2 * a * b) by (apply Rmult_lt_0_compat; lra).
    assert (0 < 2 * a * b * widths j) by (apply Rmult_lt_0_compat; lra).
    apply Rmult_lt_0_compat; lra.
  Qed.

  Lemma CDv_pos : 0 < viscous_CDv np sym k cmax re M S_ref widths lsp lengths toc true.
  Proof.
    unfold viscous_CDv, vd_Doq, o2; rops.
    assert (0 < rsum np (fun j => vd_doq k re M lengths j * widths j * vd_FF cmax M (toc j) (vd_cos widths lsp j)))
      by (apply rsum_pos; [exact Hnp | apply vd_term_pos]).
    assert (0 < / S_ref) by (apply Rinv_0_lt_compat, HS).
    destruct sym; unfold Rdiv; nra.
  Qed.
End VDsum.

Lemma CDv_zero_when_off np sym k cmax re M S widths lsp lengths toc :
  viscous_CDv np sym k cmax re M S widths lsp lengths toc false = 0.
Proof. reflexivity. Qed.

(* mesh independence: constant chord c, constant sweep and thickness, S_ref = (2 if sym) c sum(w) *)
Lemma CDv_mesh_independent np sym k cmax re M (widths lsp lengths toc : nat -> R) c kap tau :
  (forall j, (j <= np)%nat -> lengths j = c) ->
  (forall j, (j < np)%nat -> widths j / lsp j = kap) ->
  (forall j, (j < np)%nat -> toc j = tau) ->
  c <> 0 -> rsum np widths <> 0 ->
  viscous_CDv np sym k cmax re M ((if sym then 2 else 1) * (c * rsum np widths)) widths lsp lengths toc true
  = 2 * vd_cd k M (re * c) * vd_FF cmax M tau kap.
Proof.
  intros Hlen Hcos Htoc Hc Hw. unfold viscous_CDv, vd_Doq, o2; rops.
  assert (E : rsum np (fun j => vd_doq k re M lengths j * widths j * vd_FF cmax M (toc j) (vd_cos widths lsp j))
              = 2 * vd_cd k M (re * c) * c * vd_FF cmax M tau kap * rsum np widths).
  { rewrite <- rsum_scal. apply rsum_ext; intros j Hj.
    unfold vd_doq, vd_chord, vd_cos, o2; rops.
    rewrite (Hlen j), (Hlen (S j)), Hcos, Htoc by lia.
    replace ((c + c) / 2) with c by field. ring. }
  rewrite E. destruct sym; field; split; assumption.
Qed.

(* ---------------- wave drag ---------------- *)
Section WDlem.
  Variables (np : nat) (CL : R) (widths lsp chords toc : nat -> R).
  Let Mc := wd_Mcrit np CL widths lsp chords toc.

  Lemma CDw_zero_below M : M <= Mc -> wd_core np M CL widths lsp chords toc = 0.
  Proof. intros H. unfold wd_core. fold Mc. rops. replace (Rltb Mc M) with false by (symmetry; apply Rltb_false; lra). reflexivity. Qed.

  Lemma CDw_above M : Mc < M -> wd_core np M CL widths lsp chords toc = 20 * ((M - Mc) * (M - Mc) * ((M - Mc) * (M - Mc))).
  Proof. intros H. unfold wd_core, osq. fold Mc. rops. replace (Rltb Mc M) with true by (symmetry; apply Rltb_true; lra). reflexivity. Qed.

  (* smooth onset: 0 <= CDw(M) <= 20 (M - Mcrit)^4 everywhere, so value and slope vanish at the onset *)
  Lemma CDw_onset_bound M :
    0 <= wd_core np M CL widths lsp chords toc <= 20 * ((M - Mc) * (M - Mc) * ((M - Mc) * (M - Mc))).
  Proof.
    destruct (Rle_dec M Mc) as [H|H].
    - rewrite CDw_zero_below by exact H. split; [lra|]. assert (0 <= (M - Mc) * (M - Mc)) by nra. nra.
    - rewrite CDw_above by lra. assert (0 <= (M - Mc) * (M - Mc)) by nra. split; nra.
  Qed.

  Lemma CDw_increasing_in_M M1 M2 : Mc <= M1 -> M1 < M2 ->
    wd_core np M1 CL widths lsp chords toc < wd_core np M2 CL widths lsp chords toc.
  Proof.
    intros H1 H12. rewrite (CDw_above M2) by lra.
    destruct H1 as [H1|H1].
    - rewrite (CDw_above M1) by lra.
      assert (0 < M1 - Mc) by lra. assert (M1 - Mc < M2 - Mc) by lra.
      assert ((M1 - Mc) * (M1 - Mc) < (M2 - Mc) * (M2 - Mc)) by nra.
      assert (0 < (M1 - Mc) * (M1 - Mc)) by nra. nra.
    - rewrite CDw_zero_below by lra. assert (0 < M2 - Mc) by lra.
      assert (0 < (M2 - Mc) * (M2 - Mc)) by nra. nra.
  Qed.
End WDlem.

(* more lift lowers the critical Mach number (positive average cos-sweep), hence never lowers CDw *)
Lemma Mcrit_decreasing_in_CL np CL1 CL2 widths lsp chords toc :
  0 < wd_avg_cos np widths lsp chords -> CL1 < CL2 ->
  wd_Mcrit np CL2 widths lsp chords toc < wd_Mcrit np CL1 widths lsp chords toc.
Proof.
  intros Hc H. unfold wd_Mcrit, wd_MDD_of; rops.
  set (ac := wd_avg_cos np widths lsp chords) in *.
  assert (0 < 10 * (ac * ac * ac)) by (assert (0 < ac * ac) by nra; nra).
  assert (CL1 / (10 * (ac * ac * ac)) < CL2 / (10 * (ac * ac * ac))).
  { unfold Rdiv. apply Rmult_lt_compat_r; [apply Rinv_0_lt_compat; assumption | exact H]. }
  lra.
Qed.

Lemma CDw_nondecreasing_in_CL np M CL1 CL2 widths lsp chords toc :
  0 < wd_avg_cos np widths lsp chords -> CL1 < CL2 ->
  wd_core np M CL1 widths lsp chords toc <= wd_core np M CL2 widths lsp chords toc.
Proof.
  intros Hc H. pose proof (Mcrit_decreasing_in_CL np CL1 CL2 widths lsp chords toc Hc H) as Hm.
  set (m1 := wd_Mcrit np CL1 widths lsp chords toc) in *. set (m2 := wd_Mcrit np CL2 widths lsp chords toc) in *.
  destruct (Rle_dec M m1) as [H1|H1].
  - rewrite (CDw_zero_below np CL1) by exact H1. apply (CDw_onset_bound np CL2).
  - rewrite (CDw_above np CL1), (CDw_above np CL2) by (fold m1 m2; lra). fold m1 m2.
    assert (0 < M - m1) by lra. assert (M - m1 < M - m2) by lra.
    assert ((M - m1) * (M - m1) < (M - m2) * (M - m2)) by nra.
    assert (0 < (M - m1) * (M - m1)) by nra. nra.
Qed.

Lemma CDw_zero_when_off np sym M CL widths lsp chords toc sd :
  wave_CDw np sym M CL widths lsp chords toc sd false = 0.
Proof. reflexivity. Qed.

(* mesh independence of the crest-critical Mach number (and hence of CDw for a given symmetry flag) *)
Lemma Mcrit_mesh_independent np CL (widths lsp chords toc : nat -> R) c kap tau :
  (forall j, (j <= np)%nat -> chords j = c) ->
  (forall j, (j < np)%nat -> widths j / lsp j = kap) ->
  (forall j, (j < np)%nat -> toc j = tau) ->
  c <> 0 -> rsum np widths <> 0 ->
  wd_Mcrit np CL widths lsp chords toc = wd_MDD_of CL kap tau - wd_crest.
Proof.
  intros Hch Hcos Htoc Hc Hw. unfold wd_Mcrit; rops. f_equal.
  assert (EA : wd_sumA np widths chords = c * rsum np widths).
  { unfold wd_sumA. rewrite <- rsum_scal. apply rsum_ext; intros j Hj. unfold wd_area, o2; rops.
    rewrite (Hch j), (Hch (S j)) by lia. field. }
  assert (E1 : wd_avg_cos np widths lsp chords = kap).
  { unfold wd_avg_cos; rops. rewrite EA.
    rewrite (rsum_ext np _ (fun j => kap * c * widths j)).
    - rewrite rsum_scal. field. split; assumption.
    - intros j Hj. unfold wd_cos, wd_area, o2; rops. rewrite Hcos, (Hch j), (Hch (S j)) by lia. field. }
  assert (E2 : wd_avg_toc np widths chords toc = tau).
  { unfold wd_avg_toc; rops. rewrite EA.
    rewrite (rsum_ext np _ (fun j => tau * c * widths j)).
    - rewrite rsum_scal. field. split; assumption.
    - intros j Hj. unfold wd_area, o2; rops. rewrite Htoc, (Hch j), (Hch (S j)) by lia. field. }
  rewrite E1, E2. reflexivity.
Qed.

(* increasing in thickness ratio (all strips thicker => more viscous drag) *)
Lemma CDv_increasing_in_toc np sym k cmax re M S_ref (widths lsp lengths toc1 toc2 : nat -> R) :
  (0 < np)%nat -> 0 <= k -> k <= 1 -> 0 < cmax -> 0 < M -> 0 < S_ref ->
  (forall j, (j < np)%nat -> 0 < widths j) ->
  (forall j, (j < np)%nat -> 0 < vd_chord lengths j) ->
  (forall j, (j < np)%nat -> 1 < re * vd_chord lengths j) ->
  (forall j, (j < np)%nat -> 0 < k -> 258 / 100 <= ln (re * vd_chord lengths j * k)) ->
  (forall j, (j < np)%nat -> 0 <= toc1 j < toc2 j) ->
  viscous_CDv np sym k cmax re M S_ref widths lsp lengths toc1 true
  < viscous_CDv np sym k cmax re M S_ref widths lsp lengths toc2 true.
Proof.
  intros Hnp Hk0 Hk1 Hc HM HS Hw Hch HRe HRek Ht.
  unfold viscous_CDv, vd_Doq, o2; rops.
  assert (Hs : rsum np (fun j => vd_doq k re M lengths j * widths j * vd_FF cmax M (toc1 j) (vd_cos widths lsp j))
             < rsum np (fun j => vd_doq k re M lengths j * widths j * vd_FF cmax M (toc2 j) (vd_cos widths lsp j))).
  { apply rsum_lt; [exact Hnp|]. intros j Hj.
    assert (0 < vd_doq k re M lengths j * widths j).
    { unfold vd_doq, o2; rops.
      pose proof (vd_cd_pos k M (re * vd_chord lengths j) Hk0 Hk1 (HRe j Hj) (HRek j Hj)).
      pose proof (Hch j Hj). pose proof (Hw j Hj).
      set (a := vd_cd k M (re * vd_chord lengths j)) in *. set (b := vd_chord lengths j) in *.
      assert (0 < 2 * a * b) by (apply Rmult_lt_0_compat; lra). apply Rmult_lt_0_compat; lra. }
    apply Rmult_lt_compat_l; [assumption|]. unfold vd_FF; rops.
    apply Rmult_lt_compat_r; [apply Rpower_pos|]. destruct (Ht j Hj). apply vd_kFF_incr; assumption. }
  assert (0 < / S_ref) by (apply Rinv_0_lt_compat, HS).
  destruct sym; unfold Rdiv; nra.
Qed.

(* decreasing in Reynolds number for k = 0 or k >= 1 (see vd_cd_decr_partial) *)
Lemma CDv_decreasing_in_Re_partial np sym k cmax re1 re2 M S_ref (widths lsp lengths toc : nat -> R) :
  (0 < np)%nat -> (k = 0 \/ k = 1) -> 0 < cmax -> 0 < M -> 0 < S_ref ->
  (forall j, (j < np)%nat -> 0 < widths j) ->
  (forall j, (j < np)%nat -> 0 < vd_chord lengths j) ->
  (forall j, (j < np)%nat -> 0 <= toc j) ->
  (forall j, (j < np)%nat -> 1 < re1 * vd_chord lengths j) -> 0 < re1 -> re1 < re2 ->
  viscous_CDv np sym k cmax re2 M S_ref widths lsp lengths toc true
  < viscous_CDv np sym k cmax re1 M S_ref widths lsp lengths toc true.
Proof.
  intros Hnp Hk Hc HM HS Hw Hch Ht HRe Hre1 Hre.
  unfold viscous_CDv, vd_Doq, o2; rops.
  assert (Hs : rsum np (fun j => vd_doq k re2 M lengths j * widths j * vd_FF cmax M (toc j) (vd_cos widths lsp j))
             < rsum np (fun j => vd_doq k re1 M lengths j * widths j * vd_FF cmax M (toc j) (vd_cos widths lsp j))).
  { apply rsum_lt; [exact Hnp|]. intros j Hj.
    assert (HF : 0 < vd_FF cmax M (toc j) (vd_cos widths lsp j)).
    { unfold vd_FF; rops. apply Rmult_lt_0_compat; [apply vd_kFF_pos; auto | apply Rpower_pos]. }
    apply Rmult_lt_compat_r; [exact HF|]. apply Rmult_lt_compat_r; [apply Hw, Hj|].
    unfold vd_doq, o2; rops. pose proof (Hch j Hj) as Hcj.
    apply Rmult_lt_compat_r; [exact Hcj|]. apply Rmult_lt_compat_l; [lra|].
    apply vd_cd_decr_partial; [destruct Hk; [left|right]; lra | apply HRe, Hj | apply Rmult_lt_compat_r; assumption]. }
  assert (0 < / S_ref) by (apply Rinv_0_lt_compat, HS).
  destruct sym; unfold Rdiv; nra.
Qed.
