(* StressDeriv.v — C01 for VonMisesTube, VonMisesWingbox, FailureKS/Exact, NonIntersectingThickness,
   SectionPropertiesTube: the dual-number evaluation of the model is its derivative. *)
From Coq Require Import Reals ZArith Lra Lia Arith Bool.
From Coquelicot Require Import Coquelicot.
From OAS Require Import Scalar Rops Sums Deriv Dual DualProofs Stress.
Open Scope R_scope.

Definition nz3 (v : nat -> R) : Prop := 0 < dot v v.

Lemma vunit_DRv V t0 v : DRv V t0 v -> nz3 (V t0) -> DRv (fun t => vunit (V t)) t0 (vunit v).
Proof.
  intros HV Hn d. unfold vunit. apply DR_div; [apply HV | apply DR_nrm; assumption |].
  unfold nrm; rops. apply Rgt_not_eq, sqrt_lt_R0. exact Hn.
Qed.
Lemma e_x_DRv t0 : DRv (fun _ => @e_x R Rops) t0 (@e_x _ DOPS).
Proof. unfold e_x. apply DRv_mk3; dr. Qed.

Section Frame.
  Variables (P0 P1 : R -> nat -> R) (t0 : R) (p0 p1 : nat -> dual R).
  Hypotheses (H0 : DRv P0 t0 p0) (H1 : DRv P1 t0 p1).
  (* the element has non-zero length and is not parallel to the global x axis *)
  Hypotheses (AL : nz3 (vsub (P1 t0) (P0 t0))) (Ay : nz3 (cross (loc_x (P0 t0) (P1 t0)) e_x))
             (Az : nz3 (cross (loc_x (P0 t0) (P1 t0)) (loc_y (P0 t0) (P1 t0)))).
  Lemma loc_x_DRv : DRv (fun t => loc_x (P0 t) (P1 t)) t0 (loc_x p0 p1).
  Proof. unfold loc_x. apply vunit_DRv; [apply DRv_vsub; assumption | exact AL]. Qed.
  Lemma loc_y_DRv : DRv (fun t => loc_y (P0 t) (P1 t)) t0 (loc_y p0 p1).
  Proof. unfold loc_y. apply vunit_DRv; [apply DRv_cross; [apply loc_x_DRv | apply e_x_DRv] | exact Ay]. Qed.
  Lemma loc_z_DRv : DRv (fun t => loc_z (P0 t) (P1 t)) t0 (loc_z p0 p1).
  Proof. unfold loc_z. apply vunit_DRv; [apply DRv_cross; [apply loc_x_DRv | apply loc_y_DRv] | exact Az]. Qed.
End Frame.

Lemma tube_vm_local_DR (E G r L du drx dry drz : R -> R) t0 e g r' l du' drx' dry' drz' s :
  DR E t0 e -> DR G t0 g -> DR r t0 r' -> DR L t0 l -> DR du t0 du' -> DR drx t0 drx' -> DR dry t0 dry' -> DR drz t0 drz' ->
  L t0 <> 0 -> 0 < osq (dry t0) + osq (drz t0) ->
  0 < tube_vm_local (E t0) (G t0) (r t0) (L t0) (du t0) (drx t0) (dry t0) (drz t0) s ->
  DR (fun t => tube_vm_local (E t) (G t) (r t) (L t) (du t) (drx t) (dry t) (drz t) s) t0 (tube_vm_local e g r' l du' drx' dry' drz' s).
Proof.
  intros HE HG Hr HL Hdu Hx Hy Hz AL Ab Avm. unfold tube_vm_local in *. cbv zeta in *.
  assert (Hp : forall x, 0 < sqrt x -> 0 < x).
  { intros x Hx0. destruct (Rle_or_lt x 0) as [Hle|]; [rewrite (sqrt_neg_0 x Hle) in Hx0; lra | assumption]. }
  destruct s; (dr; unfold o3; dr); cbv beta; try assumption; apply Hp; exact Avm.
Qed.

Section Elem.
  Variables (nodes disp : R -> nat -> nat -> R) (radius : R -> nat -> R) (E G : R -> R) (t0 : R).
  Variables (nodes' disp' : nat -> nat -> dual R) (radius' : nat -> dual R) (E' G' : dual R) (e : nat).
  Hypotheses (Hn : forall i d, DR (fun t => nodes t i d) t0 (nodes' i d)) (Hd : forall i d, DR (fun t => disp t i d) t0 (disp' i d))
             (Hr : forall i, DR (fun t => radius t i) t0 (radius' i)) (HE : DR E t0 E') (HG : DR G t0 G').
  Let p0 := P0 (nodes t0) e. Let p1 := P1 (nodes t0) e.
  Hypotheses (AL : nz3 (vsub p1 p0)) (Ay : nz3 (cross (loc_x p0 p1) e_x)) (Az : nz3 (cross (loc_x p0 p1) (loc_y p0 p1))).

  Lemma P0_DRv : DRv (fun t => P0 (nodes t) e) t0 (P0 nodes' e). Proof. intros d; apply Hn. Qed.
  Lemma P1_DRv : DRv (fun t => P1 (nodes t) e) t0 (P1 nodes' e). Proof. intros d; apply Hn. Qed.
  Lemma eL_DR : DR (fun t => eL (nodes t) e) t0 (eL nodes' e).
  Proof. unfold eL. apply DR_nrm; [apply DRv_vsub; [apply P1_DRv | apply P0_DRv] | exact AL]. Qed.
  Lemma eL_neq0 : eL (nodes t0) e <> 0.
  Proof. unfold eL, nrm; rops. apply Rgt_not_eq, sqrt_lt_R0. exact AL. Qed.
  Lemma xl_DRv : DRv (fun t => xl (nodes t) e) t0 (xl nodes' e).
  Proof. unfold xl. apply loc_x_DRv; [apply P0_DRv | apply P1_DRv | exact AL]. Qed.
  Lemma yl_DRv : DRv (fun t => yl (nodes t) e) t0 (yl nodes' e).
  Proof. unfold yl. apply loc_y_DRv; [apply P0_DRv | apply P1_DRv | exact AL | exact Ay]. Qed.
  Lemma zl_DRv : DRv (fun t => zl (nodes t) e) t0 (zl nodes' e).
  Proof. unfold zl. apply loc_z_DRv; [apply P0_DRv | apply P1_DRv | exact AL | exact Ay | exact Az]. Qed.
  Lemma utr_DRv n : DRv (fun t => utr (disp t) n) t0 (utr disp' n). Proof. intros d; apply Hd. Qed.
  Lemma rot_DRv n : DRv (fun t => rot (disp t) n) t0 (rot disp' n). Proof. intros d; apply Hd. Qed.

  (* local displacement components along any differentiable axis *)
  Section Ax.
    Variables (ax : R -> nat -> R) (ax' : nat -> dual R).
    Hypothesis Hax : DRv ax t0 ax'.
    Lemma u0_DR : DR (fun t => u0 (disp t) e (ax t)) t0 (u0 disp' e ax'). Proof. unfold u0; apply DR_dot; [exact Hax | apply utr_DRv]. Qed.
    Lemma u1_DR : DR (fun t => u1 (disp t) e (ax t)) t0 (u1 disp' e ax'). Proof. unfold u1; apply DR_dot; [exact Hax | apply utr_DRv]. Qed.
    Lemma r0_DR : DR (fun t => r0 (disp t) e (ax t)) t0 (r0 disp' e ax'). Proof. unfold r0; apply DR_dot; [exact Hax | apply rot_DRv]. Qed.
    Lemma r1_DR : DR (fun t => r1 (disp t) e (ax t)) t0 (r1 disp' e ax'). Proof. unfold r1; apply DR_dot; [exact Hax | apply rot_DRv]. Qed.
  End Ax.

  (* VonMisesTube: admissible = non-zero bending rotation difference and non-zero stress (the documented
     non-smooth points of the square roots) *)
  Lemma vm_tube_DR s :
    let n := nodes t0 in let d := disp t0 in
    0 < osq (r1 d e (yl n e) - r0 d e (yl n e)) + osq (r1 d e (zl n e) - r0 d e (zl n e)) ->
    0 < vm_tube n d e (E t0) (G t0) (radius t0) s ->
    DR (fun t => vm_tube (nodes t) (disp t) e (E t) (G t) (radius t) s) t0 (vm_tube nodes' disp' e E' G' radius' s).
  Proof.
    intros n d Ab Avm. unfold vm_tube.
    apply (tube_vm_local_DR E G (fun t => radius t e) (fun t => eL (nodes t) e)
             (fun t => u1 (disp t) e (xl (nodes t) e) -! u0 (disp t) e (xl (nodes t) e))
             (fun t => r1 (disp t) e (xl (nodes t) e) -! r0 (disp t) e (xl (nodes t) e))
             (fun t => r1 (disp t) e (yl (nodes t) e) -! r0 (disp t) e (yl (nodes t) e))
             (fun t => r1 (disp t) e (zl (nodes t) e) -! r0 (disp t) e (zl (nodes t) e))); try assumption.
    - apply Hr.
    - apply eL_DR.
    - apply DR_sub; [apply u1_DR | apply u0_DR]; apply xl_DRv.
    - apply DR_sub; [apply r1_DR | apply r0_DR]; apply xl_DRv.
    - apply DR_sub; [apply r1_DR | apply r0_DR]; apply yl_DRv.
    - apply DR_sub; [apply r1_DR | apply r0_DR]; apply zl_DRv.
    - apply eL_neq0.
  Qed.
End Elem.

Section Wingbox.
  Variables (nodes disp : R -> nat -> nat -> R) (E G tssf : R -> R) (Qz J A_enc tsp htop hbot hfront hrear : R -> nat -> R) (t0 : R).
  Variables (nodes' disp' : nat -> nat -> dual R) (E' G' tssf' : dual R) (Qz' J' A_enc' tsp' htop' hbot' hfront' hrear' : nat -> dual R) (e : nat).
  Hypotheses (Hn : forall i d, DR (fun t => nodes t i d) t0 (nodes' i d)) (Hd : forall i d, DR (fun t => disp t i d) t0 (disp' i d))
             (HE : DR E t0 E') (HG : DR G t0 G') (Hts : DR tssf t0 tssf')
             (HQ : forall i, DR (fun t => Qz t i) t0 (Qz' i)) (HJ : forall i, DR (fun t => J t i) t0 (J' i))
             (HA : forall i, DR (fun t => A_enc t i) t0 (A_enc' i)) (Hsp : forall i, DR (fun t => tsp t i) t0 (tsp' i))
             (Hht : forall i, DR (fun t => htop t i) t0 (htop' i)) (Hhb : forall i, DR (fun t => hbot t i) t0 (hbot' i))
             (Hhf : forall i, DR (fun t => hfront t i) t0 (hfront' i)) (Hhr : forall i, DR (fun t => hrear t i) t0 (hrear' i)).
  Let p0 := P0 (nodes t0) e. Let p1 := P1 (nodes t0) e.
  Hypotheses (AL : nz3 (vsub p1 p0)) (Ay : nz3 (cross (loc_x p0 p1) e_x)) (Az : nz3 (cross (loc_x p0 p1) (loc_y p0 p1)))
             (Atsp : tsp t0 e <> 0) (AAe : A_enc t0 e <> 0) (Atssf : tssf t0 <> 0).

  Ltac frame := first [ apply (xl_DRv nodes t0 nodes' e Hn AL) | apply (yl_DRv nodes t0 nodes' e Hn AL Ay)
                      | apply (zl_DRv nodes t0 nodes' e Hn AL Ay Az) ].
  Ltac comp := first [ apply (u0_DR disp t0 disp' e Hd) | apply (u1_DR disp t0 disp' e Hd)
                     | apply (r0_DR disp t0 disp' e Hd) | apply (r1_DR disp t0 disp' e Hd) ]; frame.
  Let HL := eL_DR nodes t0 nodes' e Hn AL.
  Let HLn := eL_neq0 nodes t0 e AL.

  Lemma wb_axial_DR : DR (fun t => wb_axial (nodes t) (disp t) e (E t)) t0 (wb_axial nodes' disp' e E').
  Proof. unfold wb_axial. dr; try comp; try exact HL. exact HLn. Qed.
  Lemma wb_torsion_DR : DR (fun t => wb_torsion (nodes t) (disp t) e (G t) (J t) (A_enc t) (tsp t)) t0 (wb_torsion nodes' disp' e G' J' A_enc' tsp').
  Proof. unfold wb_torsion. dr; try comp; try exact HL; cbv beta; try assumption. unfold o2; rops; lra. Qed.
  Lemma wb_mz_DR : DR (fun t => wb_mz (nodes t) (disp t) e) t0 (wb_mz nodes' disp' e).
  Proof. unfold wb_mz, o6, o4. dr; try comp; exact HL. Qed.
  Lemma wb_my_DR : DR (fun t => wb_my (nodes t) (disp t) e) t0 (wb_my nodes' disp' e).
  Proof. unfold wb_my, o6, o4. dr; try comp; exact HL. Qed.
  Lemma wb_vnum_DR : DR (fun t => wb_vnum (nodes t) (disp t) e) t0 (wb_vnum nodes' disp' e).
  Proof. unfold wb_vnum, o6, o12. dr; try comp; exact HL. Qed.
  Lemma eL2_neq0 : osq (eL (nodes t0) e) <> 0.
  Proof. unfold osq; rops. apply Rmult_integral_contrapositive_currified; exact HLn. Qed.
  Lemma wb_top_DR : DR (fun t => wb_top (nodes t) (disp t) e (E t) (htop t)) t0 (wb_top nodes' disp' e E' htop').
  Proof. unfold wb_top. dr; try exact HL; try apply wb_mz_DR. exact eL2_neq0. Qed.
  Lemma wb_bottom_DR : DR (fun t => wb_bottom (nodes t) (disp t) e (E t) (hbot t)) t0 (wb_bottom nodes' disp' e E' hbot').
  Proof. unfold wb_bottom. dr; try exact HL; try apply wb_mz_DR. exact eL2_neq0. Qed.
  Lemma wb_front_DR : DR (fun t => wb_front (nodes t) (disp t) e (E t) (hfront t)) t0 (wb_front nodes' disp' e E' hfront').
  Proof. unfold wb_front. dr; try exact HL; try apply wb_my_DR. exact eL2_neq0. Qed.
  Lemma wb_rear_DR : DR (fun t => wb_rear (nodes t) (disp t) e (E t) (hrear t)) t0 (wb_rear nodes' disp' e E' hrear').
  Proof. unfold wb_rear. dr; try exact HL; try apply wb_my_DR. exact eL2_neq0. Qed.
  Lemma wb_vshear_DR : DR (fun t => wb_vshear (nodes t) (disp t) e (E t) (Qz t) (tsp t)) t0 (wb_vshear nodes' disp' e E' Qz' tsp').
  Proof.
    unfold wb_vshear. dr; try exact HL; try apply wb_vnum_DR; cbv beta.
    - rops. repeat apply Rmult_integral_contrapositive_currified; exact HLn.
    - unfold o2; rops. apply Rmult_integral_contrapositive_currified; [lra | exact Atsp].
  Qed.

  (* admissible: the four combined stresses are non-zero (square roots) *)
  Lemma vm_wingbox_DR s :
    0 < vm_wingbox (nodes t0) (disp t0) e (E t0) (G t0) (tssf t0) (Qz t0) (J t0) (A_enc t0) (tsp t0) (htop t0) (hbot t0) (hfront t0) (hrear t0) s * (if (s =? 0)%nat || (3 <=? s)%nat then tssf t0 else 1) ->
    DR (fun t => vm_wingbox (nodes t) (disp t) e (E t) (G t) (tssf t) (Qz t) (J t) (A_enc t) (tsp t) (htop t) (hbot t) (hfront t) (hrear t) s) t0
       (vm_wingbox nodes' disp' e E' G' tssf' Qz' J' A_enc' tsp' htop' hbot' hfront' hrear' s).
  Proof.
    intros Avm. unfold vm_wingbox in *. cbv zeta in *.
    assert (Hp : forall x, 0 < sqrt x -> 0 < x).
    { intros x Hx0. destruct (Rle_or_lt x 0) as [Hle|]; [rewrite (sqrt_neg_0 x Hle) in Hx0; lra | assumption]. }
    assert (Hq : forall x c, c <> 0 -> 0 < sqrt x / c * c -> 0 < x).
    { intros x c Hc Hx0. apply Hp. replace (sqrt x) with (sqrt x / c * c) by (field; exact Hc). exact Hx0. }
    destruct s as [|[|[|s]]]; cbn [Nat.eqb Nat.leb orb] in Avm; unfold o3;
      dr; cbv beta; try exact Atssf;
      try apply wb_axial_DR; try apply wb_torsion_DR; try apply wb_top_DR; try apply wb_bottom_DR;
      try apply wb_front_DR; try apply wb_rear_DR; try apply wb_vshear_DR.
    - eapply Hq; [exact Atssf | exact Avm].
    - apply Hp. rewrite Rmult_1_r in Avm. exact Avm.
    - apply Hp. rewrite Rmult_1_r in Avm. exact Avm.
    - eapply Hq; [exact Atssf | exact Avm].
  Qed.
End Wingbox.

(* ---------- element-wise components ---------- *)
Lemma failure_exact_DR S V t0 s v i : DR S t0 s -> (forall k, DR (fun t => V t k) t0 (v k)) -> S t0 <> 0 ->
  DR (fun t => failure_exact (S t) (V t) i) t0 (failure_exact s v i).
Proof. intros HS HV Hn. unfold failure_exact. dr. exact Hn. Qed.
Lemma thickness_intersects_DR Th Rd t0 th rd i : (forall k, DR (fun t => Th t k) t0 (th k)) -> (forall k, DR (fun t => Rd t k) t0 (rd k)) ->
  DR (fun t => thickness_intersects (Th t) (Rd t) i) t0 (thickness_intersects th rd i).
Proof. intros H1 H2. unfold thickness_intersects. dr. Qed.
Lemma tube_section_DR Rd Th t0 rd th : DR Rd t0 rd -> DR Th t0 th ->
  DR (fun t => tube_A (Rd t) (Th t)) t0 (tube_A rd th) /\ DR (fun t => tube_Iy (Rd t) (Th t)) t0 (tube_Iy rd th) /\
  DR (fun t => tube_J (Rd t) (Th t)) t0 (tube_J rd th).
Proof.
  intros H1 H2. unfold tube_A, tube_Iy, tube_J, p4. split; [|split]; dr; cbv beta; unfold o2; rops; lra.
Qed.
