(* WritesProofs.v — soundness of the storage-discipline analysis of Model/Writes.v:
   a disciplined program leaves, in every cell it touches, a content that does not depend on what the storage
   held before the call; the set of cells it touches does not depend on the inputs of the call; hence after ANY
   history of calls the storage equals that of a single call on freshly allocated storage (C03). *)
From Coq Require Import List Arith Bool Lia FunctionalExtensionality.
From OAS Require Import Writes.
Import ListNotations.

Section Sound.
  Variable V : Type.
  Variable I : info.
  Notation env := (env V).
  Notation ctxt := (list (nat * nat)).

  Definition envok (E : env) : Prop :=
    (forall l k i ctx, kinv I l k = true -> ckey E k ((l, i) :: ctx) = ckey E k ctx) /\
    (forall l r i ctx cell, rinv I l r = true -> inreg E r ((l, i) :: ctx) cell = inreg E r ctx cell) /\
    (forall ctx cell, inreg E 0 ctx cell = true) /\
    (forall rs r ctx cell, In (rs, r) (facts I) -> inreg E r ctx cell = true -> exists r1, In r1 rs /\ inreg E r1 ctx cell = true).

  (* the touched set evolves independently of the store *)
  Fixpoint tex (E : env) (s : stmt) (ctx : ctxt) (T : tset) {struct s} : tset :=
    match s with
    | Write k r _ _ => fun ck cell => hit E k r ctx ck cell || T ck cell
    | Read _ _ => T
    | Assume _ _ => T
    | Skip => T
    | Seq a b => tex E b ctx (tex E a ctx T)
    | If c _ t e => if cond E c ctx then tex E t ctx T else tex E e ctx T
    | Loop l body => iter (iters E l ctx) (fun i T => tex E body ((l, i) :: ctx) T) T
    end.
  (* the hand-justified facts hold in this call: at every Assume reached, the cells are already written
     (both sides of an input-dependent branch count as reachable) *)
  Fixpoint assumed (E : env) (s : stmt) (ctx : ctxt) (T : tset) {struct s} : Prop :=
    match s with
    | Assume k r => forall cell, inreg E r ctx cell = true -> T (ckey E k ctx) cell = true
    | Seq a b => assumed E a ctx T /\ assumed E b ctx (tex E a ctx T)
    | If c d t e => if d then assumed E t ctx T /\ assumed E e ctx T else if cond E c ctx then assumed E t ctx T else assumed E e ctx T
    | Loop l body => forall i, i < iters E l ctx -> assumed E body ((l, i) :: ctx) (iter i (fun i T => tex E body ((l, i) :: ctx) T) T)
    | _ => True
    end.

  Lemma iter_pair (n : nat) (f : nat -> store V * tset -> store V * tset) (g : nat -> tset -> tset) p :
    (forall i q, snd (f i q) = g i (snd q)) -> snd (iter n f p) = iter n g (snd p).
  Proof. intros H. induction n as [|n IH]; cbn [iter]; [reflexivity | rewrite H, IH; reflexivity]. Qed.
  Lemma snd_exec E s : forall ctx st T, snd (exec E s ctx st T) = tex E s ctx T.
  Proof.
    induction s as [k r m id | k r | k r | | a IHa b IHb | c d t IHt e IHe | l b IHb]; intros ctx st T; cbn [exec tex]; try reflexivity.
    - destruct m; reflexivity.
    - rewrite IHb, IHa. reflexivity.
    - destruct (cond E c ctx); auto.
    - rewrite (iter_pair _ _ (fun i T => tex E b ((l, i) :: ctx) T)); [reflexivity | intros; apply IHb].
  Qed.

  (* A is backed by the touched set: every cell of an assigned (key, region) has been written in this call *)
  Definition Aok (E : env) (A : list (nat * nat)) (ctx : ctxt) (T : tset) : Prop :=
    forall k r, In (k, r) A -> forall cell, inreg E r ctx cell = true -> T (ckey E k ctx) cell = true.
  Lemma has_In A k r : has A k r = true -> In (k, r) A.
  Proof.
    unfold has. intros H. apply existsb_exists in H. destruct H as [[k' r'] [Hi Hp]]. cbn [fst snd] in Hp.
    apply andb_true_iff in Hp. destruct Hp as [Hk Hr]. apply Nat.eqb_eq in Hk, Hr. subst. exact Hi.
  Qed.
  Lemma covered_touched E A ctx T k r cell : envok E -> Aok E A ctx T -> covered I A k r = true ->
    inreg E r ctx cell = true -> T (ckey E k ctx) cell = true.
  Proof.
    intros [_ [_ [H0 Hf]]] HA Hc Hin. unfold covered in Hc. apply orb_true_iff in Hc. destruct Hc as [Hc|Hc].
    - apply orb_true_iff in Hc. destruct Hc as [Hc|Hc]; apply has_In in Hc.
      + eapply HA; [exact Hc | apply H0].
      + eapply HA; [exact Hc | exact Hin].
    - apply existsb_exists in Hc. destruct Hc as [[rs r'] [Hi Hp]]. cbn [fst snd] in Hp. apply andb_true_iff in Hp.
      destruct Hp as [Hr Hall]. apply Nat.eqb_eq in Hr. subst r'.
      destruct (Hf rs r ctx cell Hi Hin) as [r1 [Hr1 Hin1]].
      rewrite forallb_forall in Hall. specialize (Hall r1 Hr1). apply has_In in Hall. eapply HA; eassumption.
  Qed.
  Lemma Aok_mono E A ctx T T' : (forall ck cell, T ck cell = true -> T' ck cell = true) -> Aok E A ctx T -> Aok E A ctx T'.
  Proof. intros Hm HA k r Hi cell Hin. apply Hm. eapply HA; eassumption. Qed.
  Lemma Aok_inter_l E A B ctx T : Aok E A ctx T -> Aok E (inter A B) ctx T.
  Proof. intros HA k r Hi. apply HA. unfold inter in Hi. apply filter_In in Hi. tauto. Qed.
  Lemma Aok_inter_r E A B ctx T : Aok E B ctx T -> Aok E (inter A B) ctx T.
  Proof.
    intros HX k r Hi. apply HX. unfold inter in Hi. apply filter_In in Hi. destruct Hi as [_ Hi].
    apply existsb_exists in Hi. destruct Hi as [[k' r'] [Hi' Hp]]. cbn [fst snd] in Hp. apply andb_true_iff in Hp.
    destruct Hp as [Hk Hr]. apply Nat.eqb_eq in Hk, Hr. subst. exact Hi'.
  Qed.
  Lemma Aok_invariant E A l i ctx T : envok E -> Aok E A ctx T -> Aok E (invariant_part I l A) ((l, i) :: ctx) T.
  Proof.
    intros [Hk [Hr _]] HA k r Hi cell Hin. unfold invariant_part in Hi. apply filter_In in Hi. destruct Hi as [Hi Hinv].
    cbn [fst snd] in Hinv. apply andb_true_iff in Hinv. destruct Hinv as [H1 H2].
    rewrite (Hk l k i ctx H1). rewrite (Hr l r i ctx cell H2) in Hin. eapply HA; eassumption.
  Qed.
  Lemma Aok_cons E A ctx T k r : Aok E A ctx T -> (forall cell, inreg E r ctx cell = true -> T (ckey E k ctx) cell = true) -> Aok E ((k, r) :: A) ctx T.
  Proof. intros HA H k' r' [Hi|Hi] cell Hin; [injection Hi as <- <-; apply H; exact Hin | eapply HA; eassumption]. Qed.

  Definition agreeT (T : tset) (s1 s2 : store V) : Prop := forall ck cell, T ck cell = true -> s1 ck cell = s2 ck cell.

  Lemma tex_mono E s : forall ctx T ck cell, T ck cell = true -> tex E s ctx T ck cell = true.
  Proof.
    induction s as [k r m id | k r | k r | | a IHa b IHb | c d t IHt e IHe | l b IHb]; intros ctx T ck cell H; cbn [tex]; auto.
    - rewrite H. apply orb_true_r.
    - destruct (cond E c ctx); auto.
    - induction (iters E l ctx) as [|n IHn]; cbn [iter]; auto.
  Qed.
  Lemma hit_self (E : env) k r ctx cell : inreg E r ctx cell = true -> hit E k r ctx (ckey E k ctx) cell = true.
  Proof. intros H. unfold hit. rewrite Nat.eqb_refl, H. reflexivity. Qed.

  (* ---------- Theorem A: same call, two different previous contents ---------- *)
  Lemma sound_A E (Hok : envok E) s : forall A indyn A' ctx s1 s2 T,
    an I A indyn s = Some A' -> assumed E s ctx T -> Aok E A ctx T -> agreeT T s1 s2 ->
    agreeT (tex E s ctx T) (fst (exec E s ctx s1 T)) (fst (exec E s ctx s2 T)) /\ Aok E A' ctx (tex E s ctx T).
  Proof.
    induction s as [k r m id | k r | k r | | a IHa b IHb | c d t IHt e IHe | l b IHb]; intros A indyn A' ctx s1 s2 T Han Has HA Hag.
    - destruct m; cbn [an] in Han; cbn [exec tex fst].
      + destruct (indyn && negb (covered I A k r)); [discriminate|]. injection Han as <-. split.
        * intros ck cell Ht. destruct (hit E k r ctx ck cell) eqn:Eh; [reflexivity|]. cbn [orb] in Ht. apply Hag; exact Ht.
        * apply Aok_cons.
          -- eapply Aok_mono; [| exact HA]. intros ck cell Ht. rewrite Ht. apply orb_true_r.
          -- intros cell Hin. rewrite hit_self by exact Hin. reflexivity.
      + destruct (covered I A k r) eqn:Ec; [|discriminate]. injection Han as <-. split.
        * intros ck cell Ht. destruct (hit E k r ctx ck cell) eqn:Eh.
          -- unfold hit in Eh. apply andb_true_iff in Eh. destruct Eh as [Ek Er]. apply Nat.eqb_eq in Ek. subst ck.
             f_equal. apply Hag. eapply covered_touched; eassumption.
          -- cbn [orb] in Ht. apply Hag; exact Ht.
        * eapply Aok_mono; [| exact HA]. intros ck cell Ht. rewrite Ht. apply orb_true_r.
    - cbn [an] in Han. destruct (covered I A k r); [|discriminate]. injection Han as <-. cbn [exec tex fst]. split; assumption.
    - cbn [an] in Han. injection Han as <-. cbn [exec tex fst assumed] in *. split; [assumption | apply Aok_cons; assumption].
    - cbn [an] in Han. injection Han as <-. cbn [exec tex fst]. split; assumption.
    - cbn [an] in Han. destruct (an I A indyn a) as [A1|] eqn:Ea; [|discriminate].
      cbn [assumed] in Has. destruct Has as [Has1 Has2].
      cbn [exec tex]. rewrite !snd_exec.
      destruct (IHa A indyn A1 ctx s1 s2 T Ea Has1 HA Hag) as [Hag1 HA1].
      apply (IHb A1 indyn A' ctx _ _ _ Han Has2 HA1 Hag1).
    - cbn [an] in Han. destruct (an I A (indyn || d) t) as [A1|] eqn:Et; [|discriminate].
      destruct (an I A (indyn || d) e) as [A2|] eqn:Ee; [|discriminate]. injection Han as <-.
      cbn [exec tex assumed] in *. destruct (cond E c ctx).
      + assert (Hast : assumed E t ctx T) by (destruct d; tauto).
        destruct (IHt _ _ _ ctx s1 s2 T Et Hast HA Hag) as [H1 H2]. split; [exact H1 | apply Aok_inter_l; exact H2].
      + assert (Hase : assumed E e ctx T) by (destruct d; tauto).
        destruct (IHe _ _ _ ctx s1 s2 T Ee Hase HA Hag) as [H1 H2]. split; [exact H1 | apply Aok_inter_r; exact H2].
    - cbn [an] in Han. destruct (an I (invariant_part I l A) indyn b) as [A1|] eqn:Eb; [|discriminate]. injection Han as <-.
      cbn [exec tex assumed] in *.
      assert (G : forall n, n <= iters E l ctx ->
                  agreeT (iter n (fun i T => tex E b ((l, i) :: ctx) T) T)
                         (fst (iter n (fun i p => exec E b ((l, i) :: ctx) (fst p) (snd p)) (s1, T)))
                         (fst (iter n (fun i p => exec E b ((l, i) :: ctx) (fst p) (snd p)) (s2, T)))
                  /\ (forall ck cell, T ck cell = true -> iter n (fun i T => tex E b ((l, i) :: ctx) T) T ck cell = true)
                  /\ snd (iter n (fun i p => exec E b ((l, i) :: ctx) (fst p) (snd p)) (s1, T)) = iter n (fun i T => tex E b ((l, i) :: ctx) T) T
                  /\ snd (iter n (fun i p => exec E b ((l, i) :: ctx) (fst p) (snd p)) (s2, T)) = iter n (fun i T => tex E b ((l, i) :: ctx) T) T).
      { induction n as [|n IHn]; intros Hn; cbn [iter].
        - cbn [fst snd]. repeat split; auto.
        - destruct (IHn ltac:(lia)) as [G1 [G2 [G3 G4]]]. rewrite G3, G4. split; [| split; [| split]].
          + refine (proj1 (IHb _ indyn A1 ((l, n) :: ctx) _ _ _ Eb (Has n ltac:(lia)) _ G1)).
            eapply Aok_mono; [exact G2|]. apply Aok_invariant; assumption.
          + intros ck cell Ht. apply tex_mono. apply G2. exact Ht.
          + rewrite snd_exec. reflexivity.
          + rewrite snd_exec. reflexivity. }
      destruct (G (iters E l ctx) (le_n _)) as [G1 [G2 _]]. split; [exact G1|]. eapply Aok_mono; [exact G2 | exact HA].
  Qed.

  (* untouched cells keep their content *)
  Lemma untouched E s : forall ctx st T ck cell, tex E s ctx T ck cell = false -> fst (exec E s ctx st T) ck cell = st ck cell.
  Proof.
    induction s as [k r m id | k r | k r | | a IHa b IHb | c d t IHt e IHe | l b IHb]; intros ctx st T ck cell Hf; cbn [exec tex fst] in *; auto.
    - apply orb_false_iff in Hf. destruct Hf as [Hh _]. destruct m; cbn [fst]; rewrite Hh; reflexivity.
    - rewrite snd_exec. rewrite IHb by exact Hf. apply IHa.
      destruct (tex E a ctx T ck cell) eqn:Et; [|reflexivity]. rewrite (tex_mono E b ctx _ ck cell Et) in Hf. discriminate.
    - destruct (cond E c ctx); auto.
    - revert Hf. induction (iters E l ctx) as [|n IHn]; cbn [iter]; intros Hf; [reflexivity|].
      rewrite (iter_pair n _ (fun i T => tex E b ((l, i) :: ctx) T)) by (intros; apply snd_exec).
      cbn [snd] in *. rewrite IHb by exact Hf. apply IHn.
      destruct (iter n (fun i T => tex E b ((l, i) :: ctx) T) T ck cell) eqn:Et; [|reflexivity].
      rewrite (tex_mono E b ((l, n) :: ctx) _ ck cell Et) in Hf. discriminate.
  Qed.

  (* ---------- Theorem B: the touched set does not depend on the input-dependent conditions ---------- *)
  Variable dc : nat -> bool.       (* which condition ids depend on the inputs of the call *)
  Fixpoint wf (s : stmt) : bool :=
    match s with
    | If c d t e => Bool.eqb d (dc c) && wf t && wf e
    | Seq a b => wf a && wf b
    | Loop _ b => wf b
    | _ => true
    end.
  Definition static_eq (E E' : env) : Prop :=
    ckey E = ckey E' /\ inreg E = inreg E' /\ iters E = iters E' /\ (forall c ctx, dc c = false -> cond E c ctx = cond E' c ctx).

  Lemma sound_B E E' (Hok : envok E) (Hse : static_eq E E') s : forall A indyn A' ctx T,
    an I A indyn s = Some A' -> wf s = true -> assumed E s ctx T -> Aok E A ctx T ->
    tex E s ctx T = tex E' s ctx T /\ (indyn = true -> tex E s ctx T = T) /\ Aok E A' ctx (tex E s ctx T).
  Proof.
    destruct Hse as [Hck [Hir [Hit Hcd]]].
    induction s as [k r m id | k r | k r | | a IHa b IHb | c d t IHt e IHe | l b IHb]; intros A indyn A' ctx T Han Hwf Has HA.
    - assert (Hhit : hit E k r ctx = hit E' k r ctx) by (unfold hit; rewrite Hck, Hir; reflexivity).
      cbn [tex]. rewrite Hhit. split; [reflexivity|].
      assert (Hcov : covered I A k r = true -> forall ck cell, hit E' k r ctx ck cell || T ck cell = T ck cell).
      { intros Hc ck cell. rewrite <- Hhit. destruct (hit E k r ctx ck cell) eqn:Eh; [|reflexivity].
        unfold hit in Eh. apply andb_true_iff in Eh. destruct Eh as [Ek Er]. apply Nat.eqb_eq in Ek. subst ck.
        cbn [orb]. symmetry. eapply covered_touched; eassumption. }
      assert (Hcons : Aok E ((k, r) :: A) ctx (fun ck cell => hit E' k r ctx ck cell || T ck cell)).
      { apply Aok_cons.
        - eapply Aok_mono; [| exact HA]. intros ck cell Ht. rewrite Ht. apply orb_true_r.
        - intros cell Hin. rewrite <- Hhit. rewrite hit_self by exact Hin. reflexivity. }
      destruct m; cbn [an] in Han.
      + destruct (covered I A k r) eqn:Ec.
        * rewrite andb_false_r in Han. injection Han as <-. split; [| exact Hcons].
          intros _. extensionality ck. extensionality cell. apply Hcov; reflexivity.
        * destruct indyn; cbn [andb negb] in Han; [discriminate|]. injection Han as <-. split; [intros; discriminate | exact Hcons].
      + destruct (covered I A k r) eqn:Ec; [|discriminate]. injection Han as <-. split.
        * intros _. extensionality ck. extensionality cell. apply Hcov; reflexivity.
        * eapply Aok_mono; [| exact HA]. intros ck cell Ht. rewrite Ht. apply orb_true_r.
    - cbn [an] in Han. destruct (covered I A k r); [|discriminate]. injection Han as <-. cbn [tex]. auto.
    - cbn [an] in Han. injection Han as <-. cbn [tex assumed] in *. split; [reflexivity | split; [reflexivity | apply Aok_cons; assumption]].
    - cbn [an] in Han. injection Han as <-. cbn [tex]. auto.
    - cbn [an] in Han. destruct (an I A indyn a) as [A1|] eqn:Ea; [|discriminate].
      cbn [wf] in Hwf. apply andb_true_iff in Hwf. destruct Hwf as [Wa Wb].
      cbn [assumed] in Has. destruct Has as [Has1 Has2].
      destruct (IHa A indyn A1 ctx T Ea Wa Has1 HA) as [H1 [H2 H3]].
      destruct (IHb A1 indyn A' ctx _ Han Wb Has2 H3) as [K1 [K2 K3]].
      cbn [tex]. split; [rewrite K1, H1; reflexivity | split; [| exact K3]].
      intros Hd. rewrite (K2 Hd). apply H2; exact Hd.
    - cbn [an] in Han. destruct (an I A (indyn || d) t) as [A1|] eqn:Et; [|discriminate].
      destruct (an I A (indyn || d) e) as [A2|] eqn:Ee; [|discriminate]. injection Han as <-.
      cbn [wf] in Hwf. apply andb_true_iff in Hwf. destruct Hwf as [Hwf We]. apply andb_true_iff in Hwf. destruct Hwf as [Hd Wt].
      apply Bool.eqb_prop in Hd. cbn [tex assumed] in *. destruct (dc c) eqn:Edc.
      + (* input-dependent condition: neither branch touches anything new *)
        subst d. rewrite orb_true_r in *. destruct Has as [Hast Hase].
        destruct (IHt _ _ _ ctx T Et Wt Hast HA) as [T1 [T2 T3]]. destruct (IHe _ _ _ ctx T Ee We Hase HA) as [E1 [E2 E3]].
        specialize (T2 eq_refl). specialize (E2 eq_refl).
        assert (R1 : (if cond E c ctx then tex E t ctx T else tex E e ctx T) = T) by (destruct (cond E c ctx); assumption).
        assert (R2 : (if cond E' c ctx then tex E' t ctx T else tex E' e ctx T) = T) by (destruct (cond E' c ctx); [rewrite <- T1 | rewrite <- E1]; assumption).
        rewrite R1, R2. split; [reflexivity | split; [auto|]].
        destruct (cond E c ctx); [apply Aok_inter_l; rewrite <- T2; exact T3 | apply Aok_inter_r; rewrite <- E2; exact E3].
      + subst d. rewrite orb_false_r in *. rewrite <- (Hcd c ctx Edc). destruct (cond E c ctx).
        * destruct (IHt _ _ _ ctx T Et Wt Has HA) as [T1 [T2 T3]]. split; [exact T1 | split; [exact T2 | apply Aok_inter_l; exact T3]].
        * destruct (IHe _ _ _ ctx T Ee We Has HA) as [E1 [E2 E3]]. split; [exact E1 | split; [exact E2 | apply Aok_inter_r; exact E3]].
    - cbn [an] in Han. destruct (an I (invariant_part I l A) indyn b) as [A1|] eqn:Eb; [|discriminate]. injection Han as <-.
      cbn [wf] in Hwf. cbn [tex assumed] in *. rewrite <- Hit.
      assert (G : forall n, n <= iters E l ctx ->
                  iter n (fun i T => tex E b ((l, i) :: ctx) T) T = iter n (fun i T => tex E' b ((l, i) :: ctx) T) T
                  /\ (indyn = true -> iter n (fun i T => tex E b ((l, i) :: ctx) T) T = T)
                  /\ (forall ck cell, T ck cell = true -> iter n (fun i T => tex E b ((l, i) :: ctx) T) T ck cell = true)).
      { induction n as [|n IHn]; intros Hn; cbn [iter]; [auto|]. destruct (IHn ltac:(lia)) as [G1 [G2 G3]].
        assert (HAn : Aok E (invariant_part I l A) ((l, n) :: ctx) (iter n (fun i T => tex E b ((l, i) :: ctx) T) T)).
        { eapply Aok_mono; [exact G3|]. apply Aok_invariant; assumption. }
        destruct (IHb _ indyn A1 ((l, n) :: ctx) _ Eb Hwf (Has n ltac:(lia)) HAn) as [B1 [B2 _]].
        split; [rewrite <- G1; exact B1 | split].
        - intros Hd. rewrite (B2 Hd). apply G2; exact Hd.
        - intros ck cell Ht. apply tex_mono. apply G3; exact Ht. }
      destruct (G (iters E l ctx) (le_n _)) as [G1 [G2 G3]]. split; [exact G1 | split; [exact G2|]].
      eapply Aok_mono; [exact G3 | exact HA].
  Qed.

  (* ---------- C03: any history of calls leaves the storage a fresh call would leave ---------- *)
  Fixpoint history (p : stmt) (Es : list env) (st : store V) : store V :=
    match Es with [] => st | E :: r => history p r (run E p st) end.
  Definition goodcall (E : env) (p : stmt) : Prop := envok E /\ assumed E p [] (fun _ _ => false).

  Theorem history_independent (p : stmt) (Es : list env) (E : env) (fresh : store V) :
    disciplined I p = true -> wf p = true -> goodcall E p -> (forall E', In E' Es -> goodcall E' p /\ static_eq E' E) ->
    run E p (history p Es fresh) = run E p fresh.
  Proof.
    intros Hd Hwf [Hok Has] Hall. unfold disciplined in Hd. destruct (an I [] false p) as [A'|] eqn:Ean; [|discriminate].
    assert (HA0 : forall X, Aok X [] [] (fun _ _ => false)) by (intros X k r []).
    extensionality ck. extensionality cell. unfold run.
    destruct (tex E p [] (fun _ _ => false) ck cell) eqn:Et.
    - destruct (sound_A E Hok p [] false A' [] (history p Es fresh) fresh (fun _ _ => false) Ean Has (HA0 E)) as [Hag _].
      { intros ? ? Hf; discriminate. }
      apply Hag. exact Et.
    - rewrite !untouched by exact Et.
      revert fresh. induction Es as [|E1 Es IH]; intros fresh; cbn [history]; [reflexivity|].
      rewrite IH by (intros; apply Hall; right; assumption).
      destruct (Hall E1 (or_introl eq_refl)) as [[Hok1 Has1] Hse1].
      unfold run. apply untouched.
      destruct (sound_B E1 E Hok1 Hse1 p [] false A' [] (fun _ _ => false) Ean Hwf Has1 (HA0 E1)) as [Heq _].
      rewrite Heq. exact Et.
  Qed.

  Definition accumulate_only : stmt := Write 1 0 MUpd 0.
End Sound.

(* the smallest undisciplined program is history dependent: after k calls the cell holds k times the value *)
Lemma accumulate_refuted :
  disciplined (mkInfo (fun _ _ => true) (fun _ _ => true) []) accumulate_only = false /\
  exists (E : env nat) (fresh : store nat),
    run E accumulate_only (history nat accumulate_only [E] fresh) 1 0 <> run E accumulate_only fresh 1 0.
Proof.
  split; [reflexivity|].
  exists (mkEnv (fun k _ => k) (fun _ _ _ => true) (fun _ _ _ => 0) (fun _ _ _ old => old + 5) (fun _ _ => true) (fun _ _ => 0)), (fun _ _ => 0).
  cbv. discriminate.
Qed.
