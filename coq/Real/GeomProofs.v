(* GeomProofs.v — geometry design variables: default values, documented effects (C13), and the
   right-half / zero-twist defects as theorems about the model of the current code (C07, C13). *)
From Coq Require Import Reals ZArith Lra Lia Arith Bool Nsatz.
From OAS Require Import Scalar Rops Sums Geom.
Open Scope R_scope.

Section G.
  Variables (npx npy : nat).
  Notation mesh := (nat -> nat -> nat -> R).

  (* ---------------- defaults ---------------- *)
  Lemma interp2_const x x0 x1 c : @interp2 R Rops x x0 x1 c c = c.
  Proof. unfold interp2; rops. destruct (Rleb x x0), (Rleb x1 x); try reflexivity. ring. Qed.
  Lemma interp3_const x x0 x1 x2 c : @interp3 R Rops x x0 x1 x2 c c c = c.
  Proof. unfold interp3; rops. destruct (Rleb x x0), (Rleb x2 x), (Rltb x x1); try reflexivity; ring. Qed.

  Lemma taper_default sym rap (m : mesh) i j d : taper_mesh npx npy sym rap 1 m i j d = m i j d.
  Proof.
    unfold taper_mesh, taper_factor. destruct sym; [rewrite interp2_const | rewrite interp3_const]; rops; ring.
  Qed.
  Lemma scalex_default rap (m : mesh) i j d : scalex_mesh npx rap (fun _ => 1) m i j d = m i j d.
  Proof. unfold scalex_mesh; rops. ring. Qed.
  Lemma root_shear_zero sym (m : mesh) j : root_shear npy sym 0 m j = 0.
  Proof.
    unfold root_shear; rops. replace (PI / 180 * 0) with 0 by ring. rewrite tan_0.
    destruct sym; [ring | destruct (j <? npy / 2)%nat; ring].
  Qed.
  Lemma sweep_default sym (m : mesh) i j d : sweep_mesh npy sym 0 m i j d = m i j d.
  Proof. unfold sweep_mesh. rewrite root_shear_zero. destruct (d =? 0)%nat; rops; ring. Qed.
  Lemma dihedral_default sym (m : mesh) i j d : dihedral_mesh npy sym 0 m i j d = m i j d.
  Proof. unfold dihedral_mesh. rewrite root_shear_zero. destruct (d =? 2)%nat; rops; ring. Qed.
  Lemma shear_default axis (m : mesh) i j d : shear_mesh axis (fun _ => 0) m i j d = m i j d.
  Proof. unfold shear_mesh. destruct (d =? axis)%nat; rops; ring. Qed.

  (* Stretch with the current span: a no-op for meshes whose chordwise lines have constant y *)
  Lemma stretch_default sym rap (m : mesh) i j d :
    let prev := ref_axis npx rap m npy 1%nat - ref_axis npx rap m 0%nat 1%nat in
    prev <> 0 -> (forall i', m i' j 1%nat = m 0%nat j 1%nat) ->
    stretch_mesh npx npy sym rap (if sym then 2 * prev else prev) m i j d = m i j d.
  Proof.
    intros prev Hp Hy. unfold stretch_mesh. fold prev. rops. destruct (d =? 1)%nat eqn:E; [|reflexivity].
    apply Nat.eqb_eq in E. subst d.
    assert (Era : ref_axis npx rap m j 1%nat = m i j 1%nat).
    { unfold ref_axis; rops. rewrite (Hy npx), (Hy i). ring. }
    rewrite Era. unfold o2; rops. unfold prev in *. destruct sym; field; exact Hp.
  Qed.
  (* ... and it does flatten a mesh whose chord line wanders in y: the hypothesis is needed *)
  Lemma stretch_sets_y_of_whole_column sym rap span (m : mesh) i i' j :
    stretch_mesh npx npy sym rap span m i j 1%nat = stretch_mesh npx npy sym rap span m i' j 1%nat.
  Proof. reflexivity. Qed.

  (* Rotate at zero twist: x is untouched; y and z are rotated about the reference axis by the local
     dihedral angle theta_x *)
  Lemma rotate_zero_twist sym rx rap (m : mesh) i j :
    let tx := theta_x npx npy sym rx rap m j in
    let oy := m i j 1%nat - ref_axis npx rap m j 1%nat in let oz := m i j 2%nat - ref_axis npx rap m j 2%nat in
    rotate_mesh npx npy sym rx rap (fun _ => 0) m i j 0%nat = m i j 0%nat /\
    rotate_mesh npx npy sym rx rap (fun _ => 0) m i j 1%nat = ref_axis npx rap m j 1%nat + (cos tx * oy - sin tx * oz) /\
    rotate_mesh npx npy sym rx rap (fun _ => 0) m i j 2%nat = ref_axis npx rap m j 2%nat + (sin tx * oy + cos tx * oz).
  Proof.
    intros tx oy oz. subst oy oz. unfold rotate_mesh. fold tx. clearbody tx. cbn [sumn]. unfold rot_mat. cbv beta iota. rops.
    replace (0 * PI / 180) with 0 by (unfold Rdiv; ring). rewrite cos_0, sin_0. split; [|split]; ring.
  Qed.
  (* hence a no-op when the section is flat in y and z (chord line straight along x) or there is no dihedral *)
  Lemma rotate_default_flat sym rx rap (m : mesh) i j d : (d < 3)%nat ->
    m i j 1%nat = ref_axis npx rap m j 1%nat -> m i j 2%nat = ref_axis npx rap m j 2%nat ->
    rotate_mesh npx npy sym rx rap (fun _ => 0) m i j d = m i j d.
  Proof.
    intros Hd Hy Hz. destruct (rotate_zero_twist sym rx rap m i j) as [H0 [H1 H2]].
    destruct d as [|[|[|d]]]; try lia; [exact H0 | rewrite H1, Hy, Hz; ring | rewrite H2, Hy, Hz; ring].
  Qed.
  Lemma rotate_default_without_rotate_x sym rap (m : mesh) i j d : (d < 3)%nat ->
    rotate_mesh npx npy sym false rap (fun _ => 0) m i j d = m i j d.
  Proof.
    intros Hd. destruct (rotate_zero_twist sym false rap m i j) as [H0 [H1 H2]].
    change (theta_x npx npy sym false rap m j) with 0 in H1, H2. rewrite cos_0, sin_0 in H1, H2.
    destruct d as [|[|[|d]]]; try lia; [exact H0 | rewrite H1; ring | rewrite H2; ring].
  Qed.

  (* ---------------- documented effects ---------------- *)
  (* sweep / dihedral on a LEFT-half symmetric mesh (root = last index): x (resp. z) grows linearly with the
     distance from the root; y and the other coordinate are untouched *)
  Lemma sweep_effect_left ang (m : mesh) i j :
    sweep_mesh npy true ang m i j 0%nat = m i j 0%nat + (m 0%nat npy 1%nat - m 0%nat j 1%nat) * tan (PI / 180 * ang) /\
    sweep_mesh npy true ang m i j 1%nat = m i j 1%nat /\ sweep_mesh npy true ang m i j 2%nat = m i j 2%nat.
  Proof. unfold sweep_mesh, root_shear; cbn [Nat.eqb]; rops. repeat split; ring. Qed.
  Lemma dihedral_effect_left ang (m : mesh) i j :
    dihedral_mesh npy true ang m i j 2%nat = m i j 2%nat + (m 0%nat npy 1%nat - m 0%nat j 1%nat) * tan (PI / 180 * ang) /\
    dihedral_mesh npy true ang m i j 0%nat = m i j 0%nat /\ dihedral_mesh npy true ang m i j 1%nat = m i j 1%nat.
  Proof. unfold dihedral_mesh, root_shear; cbn [Nat.eqb]; rops. repeat split; ring. Qed.
  (* full span: the same on either side of the centre column (index npy / 2) *)
  Lemma sweep_effect_full ang (m : mesh) i j :
    let r := (npy / 2)%nat in let dy := m 0%nat j 1%nat - m 0%nat r 1%nat in
    sweep_mesh npy false ang m i j 0%nat = m i j 0%nat + (if (j <? r)%nat then - dy else dy) * tan (PI / 180 * ang) /\
    sweep_mesh npy false ang m i j 1%nat = m i j 1%nat /\ sweep_mesh npy false ang m i j 2%nat = m i j 2%nat.
  Proof. intros r dy. unfold sweep_mesh, root_shear; cbn [Nat.eqb]; rops. fold r. unfold dy. destruct (j <? r)%nat; repeat split; ring. Qed.

  (* taper: the chord factor is 1 at the root, the taper ratio at the tip and linear in between (left half) *)
  Lemma taper_factor_left rap t (m : mesh) j :
    let y := ref_axis npx rap m j 1%nat in let span := ref_axis npx rap m npy 1%nat - ref_axis npx rap m 0%nat 1%nat in
    0 < span -> - span <= y <= 0 ->
    taper_factor npx npy true rap t m j = t + (1 - t) * ((y + span) / span).
  Proof.
    intros y span Hs [H1 H2]. unfold taper_factor, interp2. rops. fold y. fold span. clearbody y span.
    destruct (Rleb y (- span)) eqn:E1.
    - apply Rleb_true in E1. assert (y = - span) by lra. rewrite H. field. lra.
    - destruct (Rleb 0 y) eqn:E2.
      + apply Rleb_true in E2. assert (y = 0) by lra. rewrite H. field. lra.
      + replace (0 - - span) with span by ring. replace (y - - span) with (y + span) by ring. reflexivity.
  Qed.
  (* taper and chord scaling act about the reference axis: the axis itself does not move and the offset
     from it is scaled *)
  Lemma scalex_about_ref_axis rap chord (m : mesh) i j d :
    ref_axis npx rap (scalex_mesh npx rap chord m) j d = ref_axis npx rap m j d /\
    scalex_mesh npx rap chord m i j d - ref_axis npx rap m j d = chord j * (m i j d - ref_axis npx rap m j d).
  Proof. unfold scalex_mesh, ref_axis; rops. split; ring. Qed.
  Lemma taper_about_ref_axis sym rap t (m : mesh) i j d :
    ref_axis npx rap (taper_mesh npx npy sym rap t m) j d = ref_axis npx rap m j d /\
    taper_mesh npx npy sym rap t m i j d - ref_axis npx rap m j d = taper_factor npx npy sym rap t m j * (m i j d - ref_axis npx rap m j d).
  Proof. unfold taper_mesh, ref_axis; rops. split; ring. Qed.

  (* shears translate whole chordwise sections *)
  Lemma shear_translates_section axis sh (m : mesh) i i' j d :
    shear_mesh axis sh m i j d - m i j d = shear_mesh axis sh m i' j d - m i' j d.
  Proof. unfold shear_mesh. destruct (d =? axis)%nat; rops; ring. Qed.

  (* span sets the extent of the reference axis (half of it for a symmetric surface) *)
  Lemma span_sets_extent sym rap span (m : mesh) :
    let prev := ref_axis npx rap m npy 1%nat - ref_axis npx rap m 0%nat 1%nat in prev <> 0 ->
    ref_axis npx rap (stretch_mesh npx npy sym rap span m) npy 1%nat - ref_axis npx rap (stretch_mesh npx npy sym rap span m) 0%nat 1%nat
    = if sym then span / 2 else span.
  Proof.
    intros prev Hp. unfold ref_axis at 1 2. unfold stretch_mesh. cbn [Nat.eqb]. fold prev. unfold o2; rops.
    set (a := ref_axis npx rap m npy 1%nat) in *. set (b := ref_axis npx rap m 0%nat 1%nat) in *.
    destruct sym; unfold prev; field; exact Hp.
  Qed.

  (* twist (and the x rotation) is a rotation: it preserves the length of every offset from the axis *)
  Lemma rot_mat_orthogonal tx ty k k' : (k < 3)%nat -> (k' < 3)%nat ->
    rsum 3 (fun d => rot_mat tx ty d k * rot_mat tx ty d k') = if (k =? k')%nat then 1 else 0.
  Proof.
    intros Hk Hk'. pose proof (sin2_cos2 tx) as Hx. pose proof (sin2_cos2 ty) as Hy. unfold Rsqr in *.
    cbn [sumn]. rops.
    destruct k as [|[|[|k]]]; try lia; destruct k' as [|[|[|k']]]; try lia; unfold rot_mat; cbn [Nat.eqb]; rops; nsatz.
  Qed.
End G.

(* sweep keeps the planform (projected) area of every panel when chordwise lines have constant y *)
From OAS Require Import Aero.
Lemma sweep_preserves_planform_area npy sym ang (m : nat -> nat -> nat -> R) i j :
  (forall i', m i' j 1%nat = m 0%nat j 1%nat) -> (forall i', m i' (S j) 1%nat = m 0%nat (S j) 1%nat) ->
  g_ncross (sweep_mesh npy sym ang m) i j 2%nat = g_ncross m i j 2%nat.
Proof.
  intros H1 H2. unfold g_ncross, cross, mk3, sweep_mesh; cbn [Nat.eqb]; rops.
  rewrite (H1 i), (H1 (S i)), (H2 i), (H2 (S i)). ring.
Qed.

(* ================= the model of the CURRENT code violates the documented behaviour ================= *)
(* (these are theorems about Geom.v, which the correspondence streams show to be the code's behaviour) *)

(* right-half symmetric mesh: root at spanwise index 0 (y = 0), tip at index npy (y = b > 0) *)
Section RightHalf.
  Variables (npx npy : nat) (m : nat -> nat -> nat -> R) (b : R).
  Hypothesis Hroot : m 0%nat 0%nat 1%nat = 0.
  Hypothesis Htip : m 0%nat npy 1%nat = b.
  Hypothesis Hb : 0 < b.

  (* sweep / dihedral displace the ROOT column by b tan(angle) and leave the TIP column where it is:
     the reverse of "x (z) grows linearly with the distance from the root" *)
  Lemma sweep_right_half_refuted ang i : 0 < tan (PI / 180 * ang) ->
    sweep_mesh npy true ang m i 0%nat 0%nat - m i 0%nat 0%nat = b * tan (PI / 180 * ang) /\
    sweep_mesh npy true ang m i npy 0%nat = m i npy 0%nat /\
    sweep_mesh npy true ang m i 0%nat 0%nat <> m i 0%nat 0%nat.
  Proof.
    intros Ht. unfold sweep_mesh, root_shear; cbn [Nat.eqb]; rops. rewrite Hroot, Htip.
    repeat split; try ring. intro E. assert (b * tan (PI / 180 * ang) = 0) by lra.
    apply Rmult_integral in H. destruct H; lra.
  Qed.
  Lemma dihedral_right_half_refuted ang i : 0 < tan (PI / 180 * ang) ->
    dihedral_mesh npy true ang m i 0%nat 2%nat - m i 0%nat 2%nat = b * tan (PI / 180 * ang) /\
    dihedral_mesh npy true ang m i npy 2%nat = m i npy 2%nat /\
    dihedral_mesh npy true ang m i 0%nat 2%nat <> m i 0%nat 2%nat.
  Proof.
    intros Ht. unfold dihedral_mesh, root_shear; cbn [Nat.eqb]; rops. rewrite Hroot, Htip.
    repeat split; try ring. intro E. assert (b * tan (PI / 180 * ang) = 0) by lra.
    apply Rmult_integral in H. destruct H; lra.
  Qed.
End RightHalf.

(* taper: every station of a right-half mesh (reference-axis y >= 0) keeps chord factor 1, whatever the taper ratio *)
Lemma taper_right_half_refuted npx npy rap t (m : nat -> nat -> nat -> R) j :
  0 <= ref_axis npx rap m j 1%nat -> 0 < ref_axis npx rap m npy 1%nat - ref_axis npx rap m 0%nat 1%nat ->
  taper_factor npx npy true rap t m j = 1.
Proof.
  intros Hy Hs. unfold taper_factor, interp2. rops.
  set (y := ref_axis npx rap m j 1%nat) in *. set (span := ref_axis npx rap m npy 1%nat - ref_axis npx rap m 0%nat 1%nat) in *.
  destruct (Rleb y (- span)) eqn:E1.
  - apply Rleb_true in E1. lra.
  - destruct (Rleb 0 y) eqn:E2; [reflexivity | apply Rleb_false in E2; lra].
Qed.

(* Rotate at default twist on a section with dihedral and a chord line that leaves the reference axis in z
   (camber, built-in twist): the mesh is NOT returned unchanged *)
Lemma defaults_noop_refuted :
  exists (m : nat -> nat -> nat -> R),
    rotate_mesh 1 1 true true (1 / 2) (fun _ => 0) m 0%nat 0%nat 1%nat <> m 0%nat 0%nat 1%nat.
Proof.
  (* section j = 0: LE (-1,-1,2), TE (1,-1,0) -> axis (0,-1,1); root j = 1: LE (-1,0,0), TE (1,0,0) -> axis (0,0,0) *)
  exists (fun i j d => match j, i, d with
                       | 0%nat, 0%nat, 0%nat => -1 | 0%nat, 0%nat, 1%nat => -1 | 0%nat, 0%nat, _ => 2
                       | 0%nat, _, 0%nat => 1 | 0%nat, _, 1%nat => -1 | 0%nat, _, _ => 0
                       | _, 0%nat, 0%nat => -1 | _, 0%nat, _ => 0
                       | _, _, 0%nat => 1 | _, _, _ => 0 end).
  set (m := fun i j d : nat => _).
  destruct (rotate_zero_twist 1 1 true true (1 / 2) m 0%nat 0%nat) as [_ [H1 _]]. rewrite H1. clear H1.
  assert (Etx : theta_x 1 1 true true (1 / 2) m 0%nat = atan (-1)).
  { unfold theta_x, seg_theta_x, ref_axis. cbn [Nat.ltb Nat.leb]. unfold m; rops. f_equal. field. }
  rewrite Etx. unfold ref_axis, m; rops.
  replace (1 / 2 * -1 + (1 - 1 / 2) * -1) with (-1) by field.
  replace (1 / 2 * 0 + (1 - 1 / 2) * 2) with 1 by field.
  replace (-1 - -1) with 0 by ring. replace (2 - 1) with 1 by ring.
  assert (Hs : sin (atan (-1)) < 0).
  { assert (- PI / 2 < atan (-1) < 0).
    { split; [apply atan_bound|]. rewrite <- atan_0. apply atan_increasing. lra. }
    apply sin_lt_0_var; lra. }
  intro E. lra.
Qed.

(* full-span surface: the chord factor falls linearly from 1 at the centre (y = 0) to the taper ratio at BOTH tips (|y| = half span) *)
Lemma taper_factor_full npx npy rap t (m : nat -> nat -> nat -> R) j :
  let y := ref_axis npx rap m j 1%nat in let hs := (ref_axis npx rap m npy 1%nat - ref_axis npx rap m 0%nat 1%nat) / 2 in
  0 < hs -> - hs <= y <= hs ->
  taper_factor npx npy false rap t m j = 1 + (t - 1) * (Rabs y / hs).
Proof.
  intros y hs Hs [H1 H2]. unfold taper_factor, interp3, o2. rops.
  change (ref_axis npx rap m j 1%nat) with y.
  replace (- (ref_axis npx rap m npy 1%nat - ref_axis npx rap m 0%nat 1%nat) / 2) with (- hs) by (unfold hs; field).
  change ((ref_axis npx rap m npy 1%nat - ref_axis npx rap m 0%nat 1%nat) / 2) with hs.
  clearbody y hs.
  destruct (Rleb y (- hs)) eqn:E1.
  - apply Rleb_true in E1. assert (y = - hs) by lra. subst y. rewrite Rabs_Ropp, Rabs_pos_eq by lra. field. lra.
  - apply Rleb_false in E1. destruct (Rleb hs y) eqn:E2.
    + apply Rleb_true in E2. assert (y = hs) by lra. subst y. rewrite Rabs_pos_eq by lra. field. lra.
    + apply Rleb_false in E2. destruct (Rltb y 0) eqn:E3.
      * apply Rltb_true in E3. rewrite Rabs_left by lra. field. lra.
      * apply Rltb_false in E3. rewrite Rabs_pos_eq by lra. field. lra.
Qed.
