(* SetupProofs.v — C20: what the property calls invalid is rejected, what it calls valid is accepted,
   unknown keys warn.  (No reals here; the file lives with the other proof libraries.) *)
From Coq Require Import String List Bool Arith ZArith Lia.
From OAS Require Import SetupKeys Setup.
Import ListNotations.
Open Scope string_scope.

Lemma mem_In k l : mem k l = true <-> In k l.
Proof.
  unfold mem. rewrite existsb_exists. split.
  - intros [x [Hi He]]. apply String.eqb_eq in He. subst. exact Hi.
  - intros H. exists k. split; [exact H | apply String.eqb_refl].
Qed.

(* generate_mesh *)
Theorem even_num_y_rejected num_y wt : Z.even num_y = true -> gm_outcome num_y wt = Raised ValueError.
Proof. intros H. unfold gm_outcome. rewrite H. reflexivity. Qed.
Theorem unknown_wing_type_rejected num_y wt : Z.even num_y = false -> wt <> "rect" -> contains "CRM" wt = false ->
  gm_outcome num_y wt = Raised NameError.
Proof.
  intros H1 H2 H3. unfold gm_outcome. rewrite H1, H3. destruct (String.eqb wt "rect") eqn:E; [apply String.eqb_eq in E; contradiction | reflexivity].
Qed.
Theorem valid_mesh_request_accepted num_y wt : Z.even num_y = false -> (wt = "rect" \/ contains "CRM" wt = true) -> gm_outcome num_y wt = Accepted.
Proof.
  intros H1 [H2|H2]; unfold gm_outcome; rewrite H1.
  - subst. reflexivity.
  - rewrite H2. destruct (String.eqb wt "rect"); reflexivity.
Qed.
Theorem unknown_mesh_key_warns keys wt k : In k keys -> ~ In k gen_mesh_dict_keys -> In (KeyNotImplemented k) (gm_warnings keys wt).
Proof.
  intros H1 H2. unfold gm_warnings. apply in_or_app. left. apply in_map. apply filter_In. split; [exact H1|].
  destruct (mem k gen_mesh_dict_keys) eqn:E; [apply mem_In in E; contradiction | reflexivity].
Qed.
Theorem known_mesh_keys_do_not_warn keys wt k : In k gen_mesh_dict_keys -> ~ In (KeyNotImplemented k) (gm_warnings keys wt).
Proof.
  intros H1 H2. unfold gm_warnings in H2. apply in_app_or in H2. destruct H2 as [H2|H2].
  - apply in_map_iff in H2. destruct H2 as [x [E H2]]. injection E as ->. apply filter_In in H2. destruct H2 as [_ H2].
    apply mem_In in H1. rewrite H1 in H2. discriminate.
  - apply in_app_or in H2. destruct H2 as [H2|H2].
    + apply in_map_iff in H2. destruct H2 as [x [E _]]. discriminate.
    + destruct (String.eqb wt "CRM" && (mem "span" keys || mem "root_chord" keys)); [destruct H2 as [H2|[]]; discriminate | destruct H2].
Qed.
Theorem missing_important_key_warns keys wt k : In k gen_mesh_dict_important -> ~ In k keys -> In (KeyMissing k) (gm_warnings keys wt).
Proof.
  intros H1 H2. unfold gm_warnings. apply in_or_app. right. apply in_or_app. left. apply in_map. apply filter_In. split; [exact H1|].
  destruct (mem k keys) eqn:E; [apply mem_In in E; contradiction | reflexivity].
Qed.

(* surface dictionaries *)
Theorem unknown_surface_key_warns keys k : In k keys -> ~ In k gen_surface_keys_implemented -> In (SurfaceKeyNotSupported k) (surface_warnings keys).
Proof.
  intros H1 H2. unfold surface_warnings. apply in_map. apply filter_In. split; [exact H1|].
  destruct (mem k gen_surface_keys_implemented) eqn:E; [apply mem_In in E; contradiction | reflexivity].
Qed.
Theorem documented_surface_keys_do_not_warn keys : (forall k, In k keys -> In k gen_surface_keys_implemented) -> surface_warnings keys = [].
Proof.
  intros H. unfold surface_warnings. induction keys as [|k r IH]; [reflexivity|]. cbn [filter].
  assert (E : mem k gen_surface_keys_implemented = true) by (apply mem_In; apply H; left; reflexivity).
  rewrite E. cbn [negb]. apply IH. intros; apply H; right; assumption.
Qed.

(* ground effect needs symmetry: any surface list containing a non-symmetric ground-effect surface is rejected *)
Theorem ground_effect_without_symmetry_rejected surfaces : In (false, true) surfaces -> vortex_mesh_outcome surfaces = Raised ValueError.
Proof.
  induction surfaces as [|[s g] r IH]; intros H; [destruct H|]. cbn [vortex_mesh_outcome].
  destruct H as [H|H]; [injection H as -> ->; reflexivity|]. destruct (negb s && g); [reflexivity | apply IH; exact H].
Qed.
Theorem ground_effect_with_symmetry_accepted surfaces : (forall s g, In (s, g) surfaces -> g = true -> s = true) -> vortex_mesh_outcome surfaces = Accepted.
Proof.
  induction surfaces as [|[s g] r IH]; intros H; [reflexivity|]. cbn [vortex_mesh_outcome].
  destruct g; [rewrite (H s true (or_introl eq_refl) eq_refl) | rewrite andb_false_r]; cbn [negb andb]; apply IH; intros; eapply H; try right; eassumption.
Qed.

(* structural model type and thickness distributions *)
Theorem unknown_structural_model_rejected t a b : t <> "tube" -> t <> "wingbox" -> struct_outcome t a b = Raised NameError /\ perf_outcome t = Raised NameError.
Proof.
  intros H1 H2. unfold struct_outcome, perf_outcome.
  destruct (String.eqb t "tube") eqn:E1; [apply String.eqb_eq in E1; contradiction|].
  destruct (String.eqb t "wingbox") eqn:E2; [apply String.eqb_eq in E2; contradiction|]. split; reflexivity.
Qed.
Theorem only_one_wingbox_thickness_rejected a b : xorb a b = true -> struct_outcome "wingbox" a b = Raised NameError.
Proof. destruct a, b; intros H; try discriminate; reflexivity. Qed.
Theorem valid_structural_models_accepted a b : struct_outcome "tube" a b = Accepted /\ (xorb a b = false -> struct_outcome "wingbox" a b = Accepted) /\
  perf_outcome "tube" = Accepted /\ perf_outcome "wingbox" = Accepted.
Proof. repeat split; destruct a, b; intros; try discriminate; reflexivity. Qed.

(* multi-section lists *)
Theorem wrong_length_section_lists_rejected n g a b c d m s :
  (g = true -> (a <> n \/ b <> n \/ c <> n \/ d <> n \/ s <> n)) -> (g = false -> (m <> n \/ s <> n)) ->
  sections_outcome n g a b c d m s = Raised ValueError.
Proof.
  intros H1 H2. unfold sections_outcome. destruct g.
  - specialize (H1 eq_refl).
    destruct (Nat.eqb a n) eqn:Ea, (Nat.eqb b n) eqn:Eb, (Nat.eqb c n) eqn:Ec, (Nat.eqb d n) eqn:Ed; cbn [negb orb]; try reflexivity.
    destruct (Nat.eqb s n) eqn:Es; [|reflexivity].
    apply Nat.eqb_eq in Ea, Eb, Ec, Ed, Es. lia.
  - specialize (H2 eq_refl). destruct (Nat.eqb m n) eqn:Em; cbn [negb]; [|reflexivity].
    destruct (Nat.eqb s n) eqn:Es; [|reflexivity]. apply Nat.eqb_eq in Em, Es. lia.
Qed.
Theorem right_length_section_lists_accepted n g a b c d m s :
  s = n -> (g = true -> a = n /\ b = n /\ c = n /\ d = n) -> (g = false -> m = n) -> sections_outcome n g a b c d m s = Accepted.
Proof.
  intros Hs H1 H2. unfold sections_outcome. subst s. rewrite Nat.eqb_refl. destruct g.
  - destruct (H1 eq_refl) as [-> [-> [-> ->]]]. rewrite Nat.eqb_refl. reflexivity.
  - rewrite (H2 eq_refl), Nat.eqb_refl. reflexivity.
Qed.
Theorem asymmetric_sections_need_root n : (1 < n)%nat -> root_section_outcome false n false = Raised PlainException /\ root_section_outcome false n true = Accepted.
Proof. intros H. unfold root_section_outcome. assert (E : Nat.eqb n 1 = false) by (apply Nat.eqb_neq; lia). rewrite E. split; reflexivity. Qed.
