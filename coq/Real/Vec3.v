(* Vec3.v — 3-vector algebra over R on the generic model vocabulary (dot, cross, nrm, vunit). *)
From Coq Require Import Reals ZArith Lra Lia Arith.
From OAS Require Import Scalar Rops Sums Stress.
Open Scope R_scope.

Ltac v3 := unfold vunit, nrm, dot, cross, e_x, mk3, vsub, vadd, vscal, vopp in *; rops.

Lemma dot_comm a b : dot a b = dot b a.
Proof. v3. ring. Qed.
Lemma dot_self_nonneg a : 0 <= dot a a.
Proof. v3. nra. Qed.
Lemma nrm_nonneg a : 0 <= nrm a.
Proof. unfold nrm; rops. apply sqrt_pos. Qed.
Lemma nrm_sq a : nrm a * nrm a = dot a a.
Proof. unfold nrm; rops. apply sqrt_sqrt, dot_self_nonneg. Qed.
Lemma nrm_pos a : 0 < dot a a -> 0 < nrm a.
Proof. intros H. unfold nrm; rops. apply sqrt_lt_R0, H. Qed.

Lemma cross_perp_l a b : dot a (cross a b) = 0.
Proof. v3. ring. Qed.
Lemma cross_perp_r a b : dot b (cross a b) = 0.
Proof. v3. ring. Qed.
(* Lagrange identity *)
Lemma cross_norm_sq a b : dot (cross a b) (cross a b) = dot a a * dot b b - dot a b * dot a b.
Proof. v3. ring. Qed.
Lemma cross_anticomm a b d : (d < 3)%nat -> cross a b d = - cross b a d.
Proof. intros Hd. destruct d as [|[|[|d]]]; try lia; v3; ring. Qed.

(* BAC - CAB *)
Lemma cross_triple a b c d : (d < 3)%nat ->
  cross a (cross b c) d = b d * dot a c - c d * dot a b.
Proof. intros Hd. destruct d as [|[|[|d]]]; try lia; v3; ring. Qed.
Lemma cross_triple_l a b c d : (d < 3)%nat ->
  cross (cross a b) c d = b d * dot a c - a d * dot b c.
Proof. intros Hd. destruct d as [|[|[|d]]]; try lia; v3; ring. Qed.

Lemma dot_vunit_vunit a : 0 < dot a a -> dot (vunit a) (vunit a) = 1.
Proof.
  intros H. pose proof (nrm_pos a H) as Hn. pose proof (nrm_sq a) as Hs.
  unfold vunit. unfold dot at 1. rops.
  replace (a 0%nat / nrm a * (a 0%nat / nrm a) + a 1%nat / nrm a * (a 1%nat / nrm a) + a 2%nat / nrm a * (a 2%nat / nrm a))
    with (dot a a / (nrm a * nrm a)) by (unfold dot at 1; rops; field; lra).
  rewrite Hs. field. lra.
Qed.

Lemma dot_vunit_l a b : 0 < dot a a -> dot (vunit a) b = dot a b / nrm a.
Proof. intros H. pose proof (nrm_pos a H). unfold vunit, dot; rops. field. lra. Qed.

(* a vector of unit length is its own unit vector *)
Lemma vunit_of_unit a d : dot a a = 1 -> vunit a d = a d.
Proof. intros H. unfold vunit, nrm; rops. rewrite H, sqrt_1. field. Qed.

(* ---- the element frame: x = unit(dP), y = unit(x × e_x), z = unit(x × y) ---- *)
Section Frame.
  Variables P0 P1 : nat -> R.
  Let dP := vsub P1 P0.
  Hypothesis Hlen : 0 < dot dP dP.
  (* the element is not parallel to the global x axis *)
  Hypothesis Hnpar : 0 < dP 1%nat * dP 1%nat + dP 2%nat * dP 2%nat.

  Let x := loc_x P0 P1. Let y := loc_y P0 P1. Let z := loc_z P0 P1.

  Lemma frame_xx : dot x x = 1.
  Proof. apply dot_vunit_vunit, Hlen. Qed.

  Lemma frame_cxe_pos : 0 < dot (cross x e_x) (cross x e_x).
  Proof.
    pose proof (nrm_pos dP Hlen) as Hn. pose proof (nrm_sq dP) as Hs.
    unfold x, loc_x. fold dP. unfold vunit, cross, e_x, dot at 1; unfold mk3; rops.
    replace (_ + _ + _) with ((dP 1%nat * dP 1%nat + dP 2%nat * dP 2%nat) / (nrm dP * nrm dP)) by (field; lra).
    apply Rdiv_lt_0_compat; nra.
  Qed.

  Lemma frame_yy : dot y y = 1.
  Proof. apply dot_vunit_vunit, frame_cxe_pos. Qed.

  Lemma frame_xy : dot x y = 0.
  Proof.
    unfold y, loc_y. fold x. rewrite dot_comm, dot_vunit_l by apply frame_cxe_pos.
    rewrite dot_comm, cross_perp_l. unfold Rdiv; ring.
  Qed.

  Lemma frame_cxy_unit : dot (cross x y) (cross x y) = 1.
  Proof. rewrite cross_norm_sq, frame_xx, frame_yy, frame_xy. ring. Qed.

  (* z is exactly x × y (the final normalisation divides by 1) *)
  Lemma frame_z_is_cross d : z d = cross x y d.
  Proof. unfold z, loc_z. fold x y. apply vunit_of_unit, frame_cxy_unit. Qed.

  Lemma frame_zz : dot z z = 1.
  Proof.
    transitivity (dot (cross x y) (cross x y)); [|apply frame_cxy_unit].
    unfold dot; rewrite !frame_z_is_cross; reflexivity.
  Qed.
  Lemma frame_xz : dot x z = 0.
  Proof. unfold dot; rewrite !frame_z_is_cross. apply cross_perp_l. Qed.
  Lemma frame_yz : dot y z = 0.
  Proof. unfold dot; rewrite !frame_z_is_cross. apply cross_perp_r. Qed.

  (* right-handedness: y × z = x, z × x = y *)
  Lemma frame_yz_cross d : (d < 3)%nat -> cross y z d = x d.
  Proof.
    intros Hd.
    assert (E : cross y z d = cross y (cross x y) d).
    { destruct d as [|[|[|d]]]; try lia; unfold cross at 1 3, mk3; rops; rewrite !frame_z_is_cross; reflexivity. }
    rewrite E, cross_triple by exact Hd.
    rewrite frame_yy, (dot_comm y x), frame_xy. ring.
  Qed.
  Lemma frame_zx_cross d : (d < 3)%nat -> cross z x d = y d.
  Proof.
    intros Hd.
    assert (E : cross z x d = cross (cross x y) x d).
    { destruct d as [|[|[|d]]]; try lia; unfold cross at 1 3, mk3; rops; rewrite !frame_z_is_cross; reflexivity. }
    rewrite E, cross_triple_l by exact Hd.
    rewrite frame_xx, (dot_comm y x), frame_xy. ring.
  Qed.
End Frame.
