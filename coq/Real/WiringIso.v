(* WiringIso.v — C19: the MPhys wrapper chain (demux -> solver -> mux -> functions) connects the same variables as AeroPoint:
   a renaming of system paths maps the data-flow graph of the canonical MPhys model ONTO that of the canonical AeroPoint
   model (both graphs regenerated from the live OpenMDAO problems on every run and tied to these reviewed copies by
   Props/C19_ties.v).  Decided by computation on the two finite graphs. *)
From Coq Require Import String List Bool Arith.
From OAS Require Import WiringReviewed.
Import ListNotations.
Open Scope string_scope.

Fixpoint drop (n : nat) (s : string) : string := match n, s with O, _ => s | S n', String _ r => drop n' r | _, EmptyString => EmptyString end.
Definition rules : list (string * string) :=
  [("solver.solver.", "aero.aero_states."); ("solver.tail.", "aero.tail."); ("solver.wing.", "aero.wing.");
   ("funcs.tail.", "aero.tail_perf."); ("funcs.wing.", "aero.wing_perf."); ("funcs.total_perf.", "aero.total_perf.");
   ("ivc.angle_of_attack", "flow.alpha"); ("ivc.yaw_angle", "flow.beta"); ("ivc.mach_number", "flow.Mach_number");
   ("ivc.reynolds_number", "flow.re"); ("ivc.", "flow."); ("demux.", "flow.")].
Fixpoint rename_with (rs : list (string * string)) (s : string) : string :=
  match rs with
  | [] => s
  | (p, r) :: rest => if prefix p s then r ++ drop (String.length p) s else rename_with rest s
  end.
Definition rename := rename_with rules.

Definition model (name : string) : list (string * string) :=
  match find (fun m => String.eqb (fst m) name) reviewed_wiring with Some m => snd m | None => [] end.
Definition mphys := model "MPhys: demux + solver + mux + functions, incompressible".
Definition aeropoint := model "AeroPoint: wing+tail, viscous and wave drag".

Fixpoint ends_with (suffix s : string) : bool :=
  if String.eqb suffix s then true else match s with EmptyString => false | String _ r => ends_with suffix r end.
(* outside the isomorphism: the (de)multiplexers themselves, and the thickness-to-chord input of the drag estimates, which
   the MPhys functions leave to the user while the canonical AeroPoint model feeds it from its independent variables *)
Definition core_mphys := filter (fun c => negb (prefix "demux." (fst c) || prefix "mux." (fst c) || ends_with ".t_over_c" (fst c))) mphys.
Definition core_aero := filter (fun c => negb (ends_with ".t_over_c" (fst c))) aeropoint.
Definition pair_eqb (a b : string * string) : bool := String.eqb (fst a) (fst b) && String.eqb (snd a) (snd b).
Definition subset (l1 l2 : list (string * string)) : bool := forallb (fun x => existsb (pair_eqb x) l2) l1.
Definition image := map (fun c => (rename (fst c), rename (snd c))) core_mphys.

Theorem mphys_wiring_is_aeropoint_wiring :
  subset image core_aero = true /\ subset core_aero image = true /\ List.length core_mphys = List.length core_aero /\ (0 < List.length core_mphys)%nat.
Proof. vm_compute. repeat split. apply Nat.leb_le. reflexivity. Qed.

(* the compressible pair: the canonical compressible AeroPoint model has one surface (wing), the MPhys one two (wing, tail):
   every AeroPoint connection is the image of an MPhys one, and every other image mentions the second surface *)
Fixpoint contains (sub s : string) : bool :=
  if prefix sub s then true else match s with EmptyString => false | String _ r => contains sub r end.
Definition mphys_c := model "MPhys: demux + solver + mux + functions, compressible".
Definition aeropoint_c := model "AeroPoint: compressible".
Definition core_mphys_c := filter (fun c => negb (prefix "demux." (fst c) || prefix "mux." (fst c) || ends_with ".t_over_c" (fst c))) mphys_c.
Definition core_aero_c := filter (fun c => negb (ends_with ".t_over_c" (fst c))) aeropoint_c.
Definition image_c := map (fun c => (rename (fst c), rename (snd c))) core_mphys_c.

Theorem mphys_compressible_wiring_contains_aeropoint_wiring :
  subset core_aero_c image_c = true /\
  forallb (fun x => existsb (pair_eqb x) core_aero_c || contains "tail" (fst x)) image_c = true /\
  (0 < List.length core_aero_c)%nat.
Proof. vm_compute. repeat split. apply Nat.leb_le. reflexivity. Qed.
