(* ChainScaling.v — C06: uniform scaling of all lengths through the whole VLMStates wiring of one surface (Model/Aero.v,
   Section Chain), under the explicit guard that no kernel denominator crosses the absolute tolerance at either scale:
   the influence matrix scales with 1/k, normals and right-hand side do not change, so the circulations scale with k. *)
From Coq Require Import Reals ZArith Lra Lia Arith Bool List FunctionalExtensionality.
From OAS Require Import Scalar Rops Sums Vec3 Aero AeroProofs.
Open Scope R_scope.

Definition leg_ok (u r : nat -> R) : Prop := 0 < nrm r /\ nrm r - dot u r <> 0.
Definition scaled (k : R) (m : nat -> nat -> nat -> R) : nat -> nat -> nat -> R := fun i j d => k * m i j d.

Section VelScaling.
  Variables (npx npy : nat) (alpha k : R) (vec : nat -> nat -> nat -> nat -> R).
  Hypothesis Hk : 0 < k.
  Let kvec := fun e i j d => k * vec e i j d.
  Let u := @wake_u R Rops alpha.

  (* everything the model evaluates for panel (i, j) of block b at evaluation point e stays on the same side of the tolerance *)
  Definition panel_ok (b e i j : nat) : Prop :=
    let A := vtx npx vec b e i (S j) in let B := vtx npx vec b e i j in
    let C := vtx npx vec b e (S i) j in let D := vtx npx vec b e (S i) (S j) in
    seg_ok k A B /\ seg_ok k B C /\ seg_ok k C D /\ seg_ok k D A /\
    ((S i = npx)%nat -> seg_ok k (vtx npx vec b e npx (S j)) (vtx npx vec b e npx j) /\
                        leg_ok u (vtx npx vec b e npx (S j)) /\ leg_ok u (vtx npx vec b e npx j)).

  Lemma t_raw_homogeneous b e j d :
    seg_ok k (vtx npx vec b e npx (S j)) (vtx npx vec b e npx j) -> leg_ok u (vtx npx vec b e npx (S j)) -> leg_ok u (vtx npx vec b e npx j) ->
    t1_raw npx kvec b e j d = t1_raw npx vec b e j d / k /\
    t2_raw npx alpha kvec b e j d = t2_raw npx alpha vec b e j d / k /\
    t3_raw npx alpha kvec b e j d = t3_raw npx alpha vec b e j d / k.
  Proof.
    intros [a1 [a2 [a3 a4]]] [l1 l2] [l3 l4]. unfold t1_raw, t2_raw, t3_raw.
    change (vtx npx kvec b e npx (S j)) with (vscal k (vtx npx vec b e npx (S j))).
    change (vtx npx kvec b e npx j) with (vscal k (vtx npx vec b e npx j)).
    repeat split; [apply fv_homogeneous | apply semi_homogeneous | apply semi_homogeneous]; assumption.
  Qed.

  Lemma block_contrib_homogeneous sym acc b mult e i j d :
    panel_ok b e i j -> (sym = true -> panel_ok b e i (mirror_j npy j)) ->
    block_contrib npx npy sym alpha kvec (acc / k) b mult e i j d = block_contrib npx npy sym alpha vec acc b mult e i j d / k.
  Proof.
    intros (sAB & sBC & sCD & sDA & Hlast) Hm. unfold block_contrib. rops.
    pose proof t_raw_homogeneous as TR. unfold kvec in *.
    rewrite (ring_raw_homogeneous npx vec k b e i j d Hk sAB sBC sCD sDA).
    destruct sym.
    - destruct (Hm eq_refl) as (mAB & mBC & mCD & mDA & Hlastm).
      rewrite (ring_raw_homogeneous npx vec k b e i (mirror_j npy j) d Hk mAB mBC mCD mDA).
      destruct (Nat.eqb_spec (S i) npx) as [E|E].
      + destruct (Hlast E) as (s1 & g1 & g2). destruct (Hlastm E) as (s2 & g3 & g4).
        destruct (TR b e j d s1 g1 g2) as (T1 & T2 & T3).
        destruct (TR b e (mirror_j npy j) d s2 g3 g4) as (M1 & M2 & M3).
        rewrite T1, T2, T3, M1, M2, M3. field. lra.
      + field. lra.
    - destruct (Nat.eqb_spec (S i) npx) as [E|E].
      + destruct (Hlast E) as (s1 & g1 & g2). destruct (TR b e j d s1 g1 g2) as (T1 & T2 & T3).
        rewrite T1, T2, T3. field. lra.
      + field. lra.
  Qed.

  (* free-air influence of one panel at one point, any of the code paths (symmetric or not, left or right half) *)
  Lemma vel_mtx_homogeneous (sym right : bool) e i j d : (j < npy)%nat ->
    (forall j', (j' < (if sym then 2 * npy else npy))%nat -> panel_ok 0 e i j') ->
    vel_mtx npx npy sym false right alpha kvec e i j d = vel_mtx npx npy sym false right alpha vec e i j d / k.
  Proof.
    intros Hj Hok. unfold vel_mtx, vel_mtx_unflipped.
    replace (@o0 R Rops) with (0 / k) at 1 by (rops; unfold Rdiv; ring).
    replace (@o0 R Rops) with (0 / k) at 1 by (rops; unfold Rdiv; ring).
    destruct sym; cbn [andb]; [destruct right|];
      rewrite block_contrib_homogeneous by (first [ apply Hok; lia | intros E; discriminate | intros _; apply Hok; unfold mirror_j; lia ]); rops; reflexivity.
  Qed.
End VelScaling.

Section ChainScaling.
  Variables (npx npy : nat) (sym left : bool) (k : R).
  Hypothesis Hk : 0 < k.

  Lemma ghost_scaled (m : nat -> nat -> nat -> R) : ghost_mesh npy left (scaled k m) = scaled k (ghost_mesh npy left m).
  Proof.
    extensionality i. extensionality j. extensionality d. unfold ghost_mesh, scaled, flipy; rops.
    destruct left; [destruct (j <=? npy)%nat | destruct (npy <=? j)%nat]; try reflexivity; destruct (d =? 1)%nat; ring.
  Qed.
  Lemma qc_scaled (m : nat -> nat -> nat -> R) : qc_rows npx (scaled k m) = scaled k (qc_rows npx m).
  Proof.
    extensionality i. extensionality j. extensionality d. unfold qc_rows, scaled, c025, c075, ofrac; rops.
    destruct (i <? npx)%nat; field.
  Qed.
  Lemma coll_scaled (m : nat -> nat -> nat -> R) i j d : coll_pts (scaled k m) i j d = k * coll_pts m i j d.
  Proof. unfold coll_pts, scaled, c025, c075, ohalf, ofrac; rops. field. Qed.

  Lemma chain_vectors_scaled m : chain_vectors npx npy sym left (scaled k m) = fun e i j d => k * chain_vectors npx npy sym left m e i j d.
  Proof.
    extensionality e. extensionality i. extensionality j. extensionality d. unfold chain_vectors, vortex_mesh.
    assert (Hv : qc_rows npx (if sym then ghost_mesh npy left (scaled k m) else scaled k m)
                 = scaled k (qc_rows npx (if sym then ghost_mesh npy left m else m))).
    { destruct sym; [rewrite ghost_scaled|]; apply qc_scaled. }
    rewrite Hv. unfold get_vectors. rewrite coll_scaled. unfold scaled; rops. ring.
  Qed.

  Lemma chain_normals_scaled m : chain_normals npy (scaled k m) = chain_normals npy m.
  Proof.
    extensionality p. extensionality d. unfold chain_normals, g_normals, g_nnorm, osq; rops.
    assert (Hc : forall c, g_ncross (scaled k m) (p / npy) (p mod npy) c = k * k * g_ncross m (p / npy) (p mod npy) c).
    { intros c. unfold g_ncross, cross, mk3, scaled; rops. destruct c as [|[|c]]; ring. }
    rewrite !Hc. set (c0 := g_ncross m (p / npy) (p mod npy) 0%nat). set (c1 := g_ncross m (p / npy) (p mod npy) 1%nat).
    set (c2 := g_ncross m (p / npy) (p mod npy) 2%nat). set (cd := g_ncross m (p / npy) (p mod npy) d).
    replace (k * k * c0 * (k * k * c0) + k * k * c1 * (k * k * c1) + k * k * c2 * (k * k * c2))
      with ((k * k) * (k * k) * (c0 * c0 + c1 * c1 + c2 * c2)) by ring.
    assert (Hs : 0 <= c0 * c0 + c1 * c1 + c2 * c2) by nra.
    rewrite sqrt_mult by nra. rewrite sqrt_square by nra.
    destruct (Req_dec (sqrt (c0 * c0 + c1 * c1 + c2 * c2)) 0) as [Z|NZ].
    - rewrite Z. unfold Rdiv. rewrite Rmult_0_r, !Rinv_0. ring.
    - field. split; [exact NZ | nra].
  Qed.

  (* the guard: every panel's segments and wake legs, seen from every collocation point, stay off the tolerance *)
  Definition chain_guard (alpha : R) (m : nat -> nat -> nat -> R) : Prop :=
    forall e i j, (e < npx * npy)%nat -> (i < npx)%nat -> (j < (if sym then 2 * npy else npy))%nat ->
      panel_ok npx alpha k (chain_vectors npx npy sym left m) 0 e i j.

  Theorem chain_length_scaling alpha beta v m (G : nat -> R) :
    chain_guard alpha m ->
    (forall p q, (p < npx * npy)%nat -> (q < npx * npy)%nat ->
       chain_aic npx npy sym left alpha (scaled k m) p q = chain_aic npx npy sym left alpha m p q / k) /\
    (forall p, chain_rhs npy alpha beta v (scaled k m) p = chain_rhs npy alpha beta v m p) /\
    (forall p, (p < npx * npy)%nat -> chain_residual npx npy sym left alpha beta v (scaled k m) (fun q => k * G q) p
               = chain_residual npx npy sym left alpha beta v m G p).
  Proof.
    intros Hg.
    assert (Ha : forall p q, (p < npx * npy)%nat -> (q < npx * npy)%nat ->
                 chain_aic npx npy sym left alpha (scaled k m) p q = chain_aic npx npy sym left alpha m p q / k).
    { intros p q Hp Hq. assert (Hny : (0 < npy)%nat) by (destruct npy; lia).
      assert (Hqi : (q / npy < npx)%nat) by (apply Nat.div_lt_upper_bound; lia).
      assert (Hqj : (q mod npy < npy)%nat) by (apply Nat.mod_upper_bound; lia).
      unfold chain_aic, aic_mtx, chain_velm. rewrite chain_vectors_scaled, chain_normals_scaled. rops.
      rewrite !rsum3. rewrite !(vel_mtx_homogeneous npx npy alpha k _ Hk) by (try exact Hqj; intros; apply Hg; assumption). field. lra. }
    assert (Hr : forall p, chain_rhs npy alpha beta v (scaled k m) p = chain_rhs npy alpha beta v m p).
    { intros p. unfold chain_rhs. rewrite chain_normals_scaled. reflexivity. }
    split; [exact Ha | split; [exact Hr|]].
    intros p Hp. unfold chain_residual, solve_residual; rops. rewrite Hr. f_equal.
    apply rsum_ext; intros q Hq. rewrite Ha by assumption. field. lra.
  Qed.

  (* hence: if G solves the tangency system of the mesh, k G solves that of the mesh scaled by k *)
  Corollary chain_solution_scales_with_length alpha beta v m G : chain_guard alpha m ->
    (forall p, (p < npx * npy)%nat -> chain_residual npx npy sym left alpha beta v m G p = 0) ->
    forall p, (p < npx * npy)%nat -> chain_residual npx npy sym left alpha beta v (scaled k m) (fun q => k * G q) p = 0.
  Proof.
    intros Hg H p Hp. destruct (chain_length_scaling alpha beta v m G Hg) as (_ & _ & Hres). rewrite Hres by exact Hp. apply H, Hp.
  Qed.
End ChainScaling.

(* ---------- non-vacuity: the guard holds for the unit one-panel wing at alpha = 0 scaled by 2 ---------- *)
From OAS Require Import SignPin.

Lemma seg_ok_dot_pos k (r1 r2 : nat -> R) : 1 <= k -> 0 < dot r1 r1 -> 0 < dot r2 r2 -> vtol < dot r1 r2 -> seg_ok k r1 r2.
Proof.
  intros Hk H1 H2 Hd. pose proof (nrm_pos r1 H1) as N1. pose proof (nrm_pos r2 H2) as N2.
  assert (Hv : 0 < @vtol R Rops) by (unfold vtol, ofrac; rops; lra).
  assert (Hn : 0 < nrm r1 * nrm r2) by (apply Rmult_lt_0_compat; assumption).
  set (den := nrm r1 * nrm r2 + dot r1 r2). assert (Hden : vtol < den) by (unfold den; lra).
  assert (Hkk : 1 <= k * k) by nra. assert (Hkd : den <= k * k * den) by nra.
  unfold seg_ok. fold den. repeat split; try assumption.
  - rewrite Rabs_pos_eq by lra. exact Hden.
  - rewrite Rabs_pos_eq by lra. lra.
Qed.

Lemma seg_ok_equal_norms k (r1 r2 : nat -> R) s : 1 <= k -> 0 < s -> dot r1 r1 = s -> dot r2 r2 = s -> vtol < s + dot r1 r2 -> seg_ok k r1 r2.
Proof.
  intros Hk Hs H1 H2 Hd. assert (N1 : 0 < nrm r1) by (apply nrm_pos; lra). assert (N2 : 0 < nrm r2) by (apply nrm_pos; lra).
  assert (E : nrm r1 * nrm r2 = s).
  { unfold nrm; rops. rewrite H1, H2. apply sqrt_sqrt. lra. }
  assert (Hv : 0 < @vtol R Rops) by (unfold vtol, ofrac; rops; lra).
  assert (Hkk : 1 <= k * k) by nra. assert (Hkd : s + dot r1 r2 <= k * k * (s + dot r1 r2)) by nra.
  unfold seg_ok. rewrite E. repeat split; try assumption.
  - rewrite Rabs_pos_eq by lra. exact Hd.
  - rewrite Rabs_pos_eq by lra. lra.
Qed.

Example chain_guard_holds_somewhere : chain_guard 1 1 false true 2 0 (rect 1 1).
Proof.
  intros e i j He Hi Hj. assert (e = 0)%nat by lia. assert (i = 0)%nat by lia. assert (j = 0)%nat by lia. subst e i j.
  assert (Hv : @vtol R Rops < 1 / 100) by (unfold vtol, ofrac; rops; lra).
  destruct (V_comp 1 1 0 0 ltac:(lia) ltac:(lia)) as (B0 & B1 & B2).
  destruct (V_comp 1 1 0 1 ltac:(lia) ltac:(lia)) as (A0 & A1 & A2).
  destruct (V_comp 1 1 1 0 ltac:(lia) ltac:(lia)) as (C0 & C1 & C2).
  destruct (V_comp 1 1 1 1 ltac:(lia) ltac:(lia)) as (D0 & D1 & D2).
  set (vec := chain_vectors 1 1 false true (rect 1 1)) in *.
  assert (dAA : dot (vtx 1 vec 0 0 0 1) (vtx 1 vec 0 0 0 1) = 1 / 2) by (unfold dot; rops; rewrite A0, A1, A2; lra).
  assert (dBB : dot (vtx 1 vec 0 0 0 0) (vtx 1 vec 0 0 0 0) = 1 / 2) by (unfold dot; rops; rewrite B0, B1, B2; lra).
  assert (dCC : dot (vtx 1 vec 0 0 1 0) (vtx 1 vec 0 0 1 0) = 5 / 16) by (unfold dot; rops; rewrite C0, C1, C2; lra).
  assert (dDD : dot (vtx 1 vec 0 0 1 1) (vtx 1 vec 0 0 1 1) = 5 / 16) by (unfold dot; rops; rewrite D0, D1, D2; lra).
  assert (dAB : dot (vtx 1 vec 0 0 0 1) (vtx 1 vec 0 0 0 0) = 0) by (unfold dot; rops; rewrite A0, A1, A2, B0, B1, B2; lra).
  assert (dBC : dot (vtx 1 vec 0 0 0 0) (vtx 1 vec 0 0 1 0) = 1 / 8) by (unfold dot; rops; rewrite B0, B1, B2, C0, C1, C2; lra).
  assert (dCD : dot (vtx 1 vec 0 0 1 0) (vtx 1 vec 0 0 1 1) = - 3 / 16) by (unfold dot; rops; rewrite C0, C1, C2, D0, D1, D2; lra).
  assert (dDA : dot (vtx 1 vec 0 0 1 1) (vtx 1 vec 0 0 0 1) = 1 / 8) by (unfold dot; rops; rewrite D0, D1, D2, A0, A1, A2; lra).
  assert (dDC : dot (vtx 1 vec 0 0 1 1) (vtx 1 vec 0 0 1 0) = - 3 / 16) by (rewrite dot_comm; exact dCD).
  assert (U : forall r : nat -> R, dot (wake_u 0) r = r 0%nat).
  { intros r. unfold wake_u, dot, mk3; rops. replace (0 * PI / 180) with 0 by (unfold Rdiv; ring). rewrite cos_0, sin_0. ring. }
  assert (leg : forall r : nat -> R, dot r r = 5 / 16 -> r 0%nat = 3 / 4 - 1 -> leg_ok (wake_u 0) r).
  { intros r Hr H0. assert (N : 0 < nrm r) by (apply nrm_pos; lra). split; [exact N|]. rewrite U, H0. lra. }
  unfold panel_ok. refine (conj _ (conj _ (conj _ (conj _ _)))).
  - apply (seg_ok_equal_norms 2 _ _ (1 / 2)); try assumption; try lra; try (rewrite dAB; lra).
  - apply seg_ok_dot_pos; try lra; try (rewrite dBC; lra).
  - apply (seg_ok_equal_norms 2 _ _ (5 / 16)); try assumption; try lra; try (rewrite dCD; lra).
  - apply seg_ok_dot_pos; try lra; try (rewrite dDA; lra).
  - intros _. refine (conj _ (conj _ _)).
    + apply (seg_ok_equal_norms 2 _ _ (5 / 16)); try assumption; try lra; try (rewrite dDC; lra).
    + apply leg; [exact dDD | rewrite D0; lra].
    + apply leg; [exact dCC | rewrite C0; lra].
Qed.
