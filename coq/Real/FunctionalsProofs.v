(* FunctionalsProofs.v — defining identities of the performance functionals (C17). *)
From Coq Require Import Reals ZArith Lra Lia Arith List.
From OAS Require Import Scalar Rops Sums Functionals.
Import ListNotations.
Open Scope R_scope.

Notation rlsum := (@lsum R Rops _).

Lemma fold_acc {A} (f : A -> R) l acc :
  fold_left (fun a x => a + f x) l acc = acc + fold_left (fun a x => a + f x) l 0.
Proof.
  revert acc. induction l as [|x l IH]; intros acc; cbn [fold_left]; [lra|].
  rewrite IH, (IH (0 + f x)). lra.
Qed.
Lemma rlsum_nil {A} (f : A -> R) : rlsum [] f = 0.
Proof. reflexivity. Qed.
Lemma rlsum_cons {A} (f : A -> R) x l : rlsum (x :: l) f = f x + rlsum l f.
Proof. unfold lsum. cbn [fold_left]. rops. rewrite fold_acc. lra. Qed.
Lemma rlsum_scal {A} (f : A -> R) c l : rlsum l (fun x => c * f x) = c * rlsum l f.
Proof. induction l as [|x l IH]; [rewrite !rlsum_nil; lra | rewrite !rlsum_cons, IH; lra]. Qed.
Lemma rlsum_plus {A} (f g : A -> R) l : rlsum l (fun x => f x + g x) = rlsum l f + rlsum l g.
Proof. induction l as [|x l IH]; [rewrite !rlsum_nil; lra | rewrite !rlsum_cons, IH; lra]. Qed.
Lemma rlsum_nonneg {A} (f : A -> R) l : (forall x, In x l -> 0 <= f x) -> 0 <= rlsum l f.
Proof.
  induction l as [|x l IH]; intros H; [rewrite rlsum_nil; lra|].
  rewrite rlsum_cons. assert (0 <= f x) by (apply H; left; reflexivity).
  assert (0 <= rlsum l f) by (apply IH; intros; apply H; right; assumption). lra.
Qed.
Lemma rlsum_map {A B} (h : A -> B) (f : B -> R) l : rlsum (map h l) f = rlsum l (fun x => f (h x)).
Proof. induction l as [|x l IH]; [reflexivity | cbn [map]; rewrite !rlsum_cons, IH; reflexivity]. Qed.

(* ---------- aircraft coefficients ---------- *)
(* CL (or CD) is the reference-area weighted mean; with the summed area it is a convex combination *)
Lemma coeff_area_weighted cs S_tot :
  tld_coeff cs S_tot = rlsum cs (fun p => fst p * snd p) / S_tot.
Proof. reflexivity. Qed.

Lemma coeff_area_weighted_sum cs :
  tld_coeff cs (sum_areas (map snd cs))
  = rlsum cs (fun p => fst p * snd p) / rlsum cs snd.
Proof. unfold tld_coeff, weighted, sum_areas; rops. rewrite rlsum_map. reflexivity. Qed.

(* L = q S_tot CL *)
Lemma force_eq_q_S_C cs rho v S_tot : S_tot <> 0 ->
  tld_force cs rho v = (1 / 2 * rho * (v * v)) * S_tot * tld_coeff cs S_tot.
Proof. intros H. unfold tld_force, tld_coeff, ohalf, ofrac; rops. field. exact H. Qed.

(* ---------- equilibrium ---------- *)
Lemma total_weight_def g0 lf W0 fb ms :
  eq_total_weight g0 lf W0 fb ms = (W0 + rlsum ms (fun m => m) + fb) * g0 * lf.
Proof. unfold eq_total_weight; rops. ring. Qed.

Lemma LW_def g0 lf W0 fb ms rho v S CL :
  eq_LW g0 lf W0 fb ms rho v S CL
  = 1 - (1 / 2 * rho * (v * v) * S * CL) / eq_total_weight g0 lf W0 fb ms.
Proof. unfold eq_LW, eq_lift, ohalf, ofrac; rops. reflexivity. Qed.

Lemma LW_zero_iff g0 lf W0 fb ms rho v S CL :
  eq_total_weight g0 lf W0 fb ms <> 0 ->
  (eq_LW g0 lf W0 fb ms rho v S CL = 0 <-> eq_lift rho v S CL = eq_total_weight g0 lf W0 fb ms).
Proof.
  intros H. unfold eq_LW; rops. set (L := eq_lift rho v S CL). set (W := eq_total_weight g0 lf W0 fb ms) in *.
  split; intros E.
  - assert (L / W = 1) by lra. apply (Rmult_eq_compat_r W) in H0. unfold Rdiv in H0.
    rewrite Rmult_assoc, Rinv_l in H0 by exact H. lra.
  - rewrite E. field. exact H.
Qed.

(* ---------- Breguet ---------- *)
Lemma breguet_def CT a R M W0 CL CD ms :
  breguet CT a R M W0 CL CD ms = (W0 + rlsum ms (fun m => m)) * (exp (R * CT / a / M * CD / CL) - 1).
Proof. reflexivity. Qed.

Lemma fuelburn_nonneg CT a R M W0 CL CD ms :
  0 <= W0 -> (forall m, In m ms -> 0 <= m) -> 0 <= R * CT / a / M * CD / CL ->
  0 <= breguet CT a R M W0 CL CD ms.
Proof.
  intros HW Hm Hx. rewrite breguet_def.
  assert (0 <= rlsum ms (fun m => m)) by (apply rlsum_nonneg; exact Hm).
  assert (1 <= exp (R * CT / a / M * CD / CL)).
  { destruct Hx as [Hx|Hx]; [left; rewrite <- exp_0; apply exp_increasing; exact Hx | rewrite <- Hx, exp_0; lra]. }
  apply Rmult_le_pos; lra.
Qed.

(* ---------- aircraft cg ---------- *)
(* fed with Equilibrium's total_weight the denominator is W0 + sum of structural masses *)
Lemma cog_mass_weighted g0 lf W0 fb cg0 (ss : list (R * (nat -> R))) d :
  g0 * lf <> 0 -> W0 + rlsum ss fst <> 0 ->
  cog g0 lf W0 fb (eq_total_weight g0 lf W0 fb (map fst ss)) cg0 ss d
  = (W0 * cg0 d + rlsum ss (fun s => fst s * snd s d)) / (W0 + rlsum ss fst).
Proof.
  intros Hg Hm. unfold cog, eq_total_weight; rops. rewrite rlsum_map.
  assert (E : rlsum ss (fun s : R * (nat -> R) => snd s d * fst s) = rlsum ss (fun s => fst s * snd s d)).
  { clear. induction ss as [|x l IH]; [reflexivity | rewrite !rlsum_cons, IH; ring]. }
  rewrite E. clear E.
  change (rlsum ss fst) with (rlsum ss (fun x : R * (nat -> R) => fst x)) in *.
  set (Ms := rlsum ss (fun x : R * (nat -> R) => fst x)) in *.
  set (q := g0 * lf) in *.
  replace ((Ms + fb + W0) * q / q - fb) with (W0 + Ms) by (field; exact Hg).
  reflexivity.
Qed.

(* ---------- moment coefficient ---------- *)
Lemma CM_def ss cg rho v S_tot d s0 rest : ss = s0 :: rest ->
  moment_CM ss cg rho v S_tot d = moment_M ss cg d / (1 / 2 * rho * (v * v) * S_tot * ms_MAC s0).
Proof. intros ->. unfold moment_CM, ohalf, ofrac; rops. reflexivity. Qed.

Lemma M_is_sum ss cg d : moment_M ss cg d = rlsum ss (fun s => ms_moment s cg d).
Proof. reflexivity. Qed.

Lemma symmetric_surface_moment s cg d : ms_sym s = true ->
  ms_moment s cg d = if (d =? 1)%nat then 2 * ms_moment_raw s cg d else 0.
Proof. intros H. unfold ms_moment, o2. rewrite H. rops. destruct (d =? 1)%nat; ring. Qed.

Lemma reynolds_def rho v mu : reynolds rho v mu = rho * v / mu.
Proof. reflexivity. Qed.
Lemma speed_def a M : speed a M = a * M.
Proof. reflexivity. Qed.
